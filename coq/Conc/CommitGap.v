(* Conc/CommitGap.v -- the durable COMMIT of a write transaction against concurrent Savepoint::drop and
   read-transaction begin/end on other threads (C16; definitions only, executable; proofs in CommitGapP.v).

   Code: src/transactions.rs  durable_commit, process_freed_pages, flush_data_allocated_pages,
         process_data_freed_pages_after_commit;  src/transaction_tracker.rs  deallocate_savepoint,
         deallocate_read_transaction, register_read_transaction, oldest_live_read_transaction,
         oldest_savepoint_excluding, clear_pending_non_durable_commits, register_non_durable_commit;
         src/db.rs  begin_read (register, re-check loop).

   Shared state: the tracker (live_read_transactions as a MULTISET of transaction ids: the reference count of an
   id is its multiplicity; valid_savepoints as (savepoint id, transaction id) in savepoint-id order;
   pending_non_durable_commits), the last published transaction id, DATA_FREED (txn id -> pages unlinked by that
   transaction), DATA_ALLOCATED (txn id -> pages allocated by that transaction), the allocator (set of allocated
   pages).  Thread-local state is kept in the same record: the committer's program counter and locals
   (free horizons, savepoint horizon), the ids held by reader threads, the pins of droppers that are between
   their two sections.  A step whose owner is not "at" it is not enabled (exec = None): that is sequential program
   order for the committer, and Rust ownership for the others (a Savepoint / ReadTransaction is dropped once).

   Threads (Conc/Sched.v: a schedule is a list of thread indices, one grant = one lock-protected section):
     GCommit   the sections of durable_commit in code order; a step is named after the H4 pause point it starts at
     GDrop sp t   Savepoint::drop = [T.dealloc_savepoint: valid_savepoints.remove(sp)] [T.dealloc_read: release pin t]
     GBeginRead   [T.register_read: pin the last published id] [X.begin_read.registered: re-check, else release + retry]
     GEndRead     [T.dealloc_read: release the pin of the thread's newest read transaction]
   The initial state is the state when the committer reaches its first tracker section: its own DATA_FREED /
   DATA_ALLOCATED records and the records of earlier non-durable commits are already in the two tables
   (store_data_freed_pages, take_unpersisted_*: private to the committer, no tracker access).
   Not modelled: SYSTEM_FREED, persistent-savepoint deletions staged in the transaction (pending_deleted_ids = {}),
   allocation of system-tree pages by the commit itself.

   `cfg` selects the code as it is (`faithful`) or one of two seeded variants: the two sections of Savepoint::drop
   swapped; the savepoint-horizon clamp of the epilogue applied only when no read is live. *)
From Coq Require Import List NArith Bool.
From RV Require Import Conc.Sched.
Import ListNotations.
Open Scope N_scope.

Record cfg := { swap_drop : bool; weak_clamp : bool }.
Definition faithful : cfg := {| swap_drop := false; weak_clamp := false |}.

Definition tab := list (N * list N).

Record cst := {
  g_txid : N;                  (* id of the committing write transaction *)
  g_last : N;                  (* last published transaction id (mem.get_last_committed_transaction_id) *)
  g_live : list N;             (* tracker.live_read_transactions (multiset) *)
  g_valid : list (N * N);      (* tracker.valid_savepoints, ascending savepoint id *)
  g_pending : list (N * N);    (* tracker.pending_non_durable_commits: id -> durable ancestor (pinned) *)
  g_held : list N;             (* pins of read transactions / savepoints that nobody releases during the run *)
  g_freed : tab;               (* DATA_FREED_TABLE *)
  g_alloc : tab;               (* DATA_ALLOCATED_TABLE *)
  g_allocated : list N;        (* allocated pages *)
  g_pc : N;                    (* committer: number of its sections executed so far *)
  g_h1 : N;                    (* committer: free_until of the main free step *)
  g_sph : option N;            (* committer: savepoint horizon returned by the purge; None = u64::MAX *)
  g_eh : N;                    (* committer: free_until of the epilogue *)
  g_readers : list (nat * N);  (* reader threads: thread -> id its read transaction registered (newest first) *)
  g_mid : list N;              (* droppers between their two sections: the transaction id of their savepoint *)
  g_gone_main : tab;           (* observation: DATA_FREED records processed by the main free step *)
  g_gone_epi : tab;            (* observation: ... by the epilogue *)
  g_purged : list N            (* observation: keys of the DATA_ALLOCATED records the purge removed *)
}.

Definition set_txid (x : N) (s : cst) : cst :=
  {| g_txid := x; g_last := g_last s; g_live := g_live s; g_valid := g_valid s; g_pending := g_pending s; g_held := g_held s; g_freed := g_freed s; g_alloc := g_alloc s; g_allocated := g_allocated s; g_pc := g_pc s; g_h1 := g_h1 s; g_sph := g_sph s; g_eh := g_eh s; g_readers := g_readers s; g_mid := g_mid s; g_gone_main := g_gone_main s; g_gone_epi := g_gone_epi s; g_purged := g_purged s |}.
Definition set_last (x : N) (s : cst) : cst :=
  {| g_txid := g_txid s; g_last := x; g_live := g_live s; g_valid := g_valid s; g_pending := g_pending s; g_held := g_held s; g_freed := g_freed s; g_alloc := g_alloc s; g_allocated := g_allocated s; g_pc := g_pc s; g_h1 := g_h1 s; g_sph := g_sph s; g_eh := g_eh s; g_readers := g_readers s; g_mid := g_mid s; g_gone_main := g_gone_main s; g_gone_epi := g_gone_epi s; g_purged := g_purged s |}.
Definition set_live (x : list N) (s : cst) : cst :=
  {| g_txid := g_txid s; g_last := g_last s; g_live := x; g_valid := g_valid s; g_pending := g_pending s; g_held := g_held s; g_freed := g_freed s; g_alloc := g_alloc s; g_allocated := g_allocated s; g_pc := g_pc s; g_h1 := g_h1 s; g_sph := g_sph s; g_eh := g_eh s; g_readers := g_readers s; g_mid := g_mid s; g_gone_main := g_gone_main s; g_gone_epi := g_gone_epi s; g_purged := g_purged s |}.
Definition set_valid (x : list (N * N)) (s : cst) : cst :=
  {| g_txid := g_txid s; g_last := g_last s; g_live := g_live s; g_valid := x; g_pending := g_pending s; g_held := g_held s; g_freed := g_freed s; g_alloc := g_alloc s; g_allocated := g_allocated s; g_pc := g_pc s; g_h1 := g_h1 s; g_sph := g_sph s; g_eh := g_eh s; g_readers := g_readers s; g_mid := g_mid s; g_gone_main := g_gone_main s; g_gone_epi := g_gone_epi s; g_purged := g_purged s |}.
Definition set_pending (x : list (N * N)) (s : cst) : cst :=
  {| g_txid := g_txid s; g_last := g_last s; g_live := g_live s; g_valid := g_valid s; g_pending := x; g_held := g_held s; g_freed := g_freed s; g_alloc := g_alloc s; g_allocated := g_allocated s; g_pc := g_pc s; g_h1 := g_h1 s; g_sph := g_sph s; g_eh := g_eh s; g_readers := g_readers s; g_mid := g_mid s; g_gone_main := g_gone_main s; g_gone_epi := g_gone_epi s; g_purged := g_purged s |}.
Definition set_held (x : list N) (s : cst) : cst :=
  {| g_txid := g_txid s; g_last := g_last s; g_live := g_live s; g_valid := g_valid s; g_pending := g_pending s; g_held := x; g_freed := g_freed s; g_alloc := g_alloc s; g_allocated := g_allocated s; g_pc := g_pc s; g_h1 := g_h1 s; g_sph := g_sph s; g_eh := g_eh s; g_readers := g_readers s; g_mid := g_mid s; g_gone_main := g_gone_main s; g_gone_epi := g_gone_epi s; g_purged := g_purged s |}.
Definition set_freed (x : tab) (s : cst) : cst :=
  {| g_txid := g_txid s; g_last := g_last s; g_live := g_live s; g_valid := g_valid s; g_pending := g_pending s; g_held := g_held s; g_freed := x; g_alloc := g_alloc s; g_allocated := g_allocated s; g_pc := g_pc s; g_h1 := g_h1 s; g_sph := g_sph s; g_eh := g_eh s; g_readers := g_readers s; g_mid := g_mid s; g_gone_main := g_gone_main s; g_gone_epi := g_gone_epi s; g_purged := g_purged s |}.
Definition set_alloc (x : tab) (s : cst) : cst :=
  {| g_txid := g_txid s; g_last := g_last s; g_live := g_live s; g_valid := g_valid s; g_pending := g_pending s; g_held := g_held s; g_freed := g_freed s; g_alloc := x; g_allocated := g_allocated s; g_pc := g_pc s; g_h1 := g_h1 s; g_sph := g_sph s; g_eh := g_eh s; g_readers := g_readers s; g_mid := g_mid s; g_gone_main := g_gone_main s; g_gone_epi := g_gone_epi s; g_purged := g_purged s |}.
Definition set_allocated (x : list N) (s : cst) : cst :=
  {| g_txid := g_txid s; g_last := g_last s; g_live := g_live s; g_valid := g_valid s; g_pending := g_pending s; g_held := g_held s; g_freed := g_freed s; g_alloc := g_alloc s; g_allocated := x; g_pc := g_pc s; g_h1 := g_h1 s; g_sph := g_sph s; g_eh := g_eh s; g_readers := g_readers s; g_mid := g_mid s; g_gone_main := g_gone_main s; g_gone_epi := g_gone_epi s; g_purged := g_purged s |}.
Definition set_pc (x : N) (s : cst) : cst :=
  {| g_txid := g_txid s; g_last := g_last s; g_live := g_live s; g_valid := g_valid s; g_pending := g_pending s; g_held := g_held s; g_freed := g_freed s; g_alloc := g_alloc s; g_allocated := g_allocated s; g_pc := x; g_h1 := g_h1 s; g_sph := g_sph s; g_eh := g_eh s; g_readers := g_readers s; g_mid := g_mid s; g_gone_main := g_gone_main s; g_gone_epi := g_gone_epi s; g_purged := g_purged s |}.
Definition set_h1 (x : N) (s : cst) : cst :=
  {| g_txid := g_txid s; g_last := g_last s; g_live := g_live s; g_valid := g_valid s; g_pending := g_pending s; g_held := g_held s; g_freed := g_freed s; g_alloc := g_alloc s; g_allocated := g_allocated s; g_pc := g_pc s; g_h1 := x; g_sph := g_sph s; g_eh := g_eh s; g_readers := g_readers s; g_mid := g_mid s; g_gone_main := g_gone_main s; g_gone_epi := g_gone_epi s; g_purged := g_purged s |}.
Definition set_sph (x : option N) (s : cst) : cst :=
  {| g_txid := g_txid s; g_last := g_last s; g_live := g_live s; g_valid := g_valid s; g_pending := g_pending s; g_held := g_held s; g_freed := g_freed s; g_alloc := g_alloc s; g_allocated := g_allocated s; g_pc := g_pc s; g_h1 := g_h1 s; g_sph := x; g_eh := g_eh s; g_readers := g_readers s; g_mid := g_mid s; g_gone_main := g_gone_main s; g_gone_epi := g_gone_epi s; g_purged := g_purged s |}.
Definition set_eh (x : N) (s : cst) : cst :=
  {| g_txid := g_txid s; g_last := g_last s; g_live := g_live s; g_valid := g_valid s; g_pending := g_pending s; g_held := g_held s; g_freed := g_freed s; g_alloc := g_alloc s; g_allocated := g_allocated s; g_pc := g_pc s; g_h1 := g_h1 s; g_sph := g_sph s; g_eh := x; g_readers := g_readers s; g_mid := g_mid s; g_gone_main := g_gone_main s; g_gone_epi := g_gone_epi s; g_purged := g_purged s |}.
Definition set_readers (x : list (nat * N)) (s : cst) : cst :=
  {| g_txid := g_txid s; g_last := g_last s; g_live := g_live s; g_valid := g_valid s; g_pending := g_pending s; g_held := g_held s; g_freed := g_freed s; g_alloc := g_alloc s; g_allocated := g_allocated s; g_pc := g_pc s; g_h1 := g_h1 s; g_sph := g_sph s; g_eh := g_eh s; g_readers := x; g_mid := g_mid s; g_gone_main := g_gone_main s; g_gone_epi := g_gone_epi s; g_purged := g_purged s |}.
Definition set_mid (x : list N) (s : cst) : cst :=
  {| g_txid := g_txid s; g_last := g_last s; g_live := g_live s; g_valid := g_valid s; g_pending := g_pending s; g_held := g_held s; g_freed := g_freed s; g_alloc := g_alloc s; g_allocated := g_allocated s; g_pc := g_pc s; g_h1 := g_h1 s; g_sph := g_sph s; g_eh := g_eh s; g_readers := g_readers s; g_mid := x; g_gone_main := g_gone_main s; g_gone_epi := g_gone_epi s; g_purged := g_purged s |}.
Definition set_gone_main (x : tab) (s : cst) : cst :=
  {| g_txid := g_txid s; g_last := g_last s; g_live := g_live s; g_valid := g_valid s; g_pending := g_pending s; g_held := g_held s; g_freed := g_freed s; g_alloc := g_alloc s; g_allocated := g_allocated s; g_pc := g_pc s; g_h1 := g_h1 s; g_sph := g_sph s; g_eh := g_eh s; g_readers := g_readers s; g_mid := g_mid s; g_gone_main := x; g_gone_epi := g_gone_epi s; g_purged := g_purged s |}.
Definition set_gone_epi (x : tab) (s : cst) : cst :=
  {| g_txid := g_txid s; g_last := g_last s; g_live := g_live s; g_valid := g_valid s; g_pending := g_pending s; g_held := g_held s; g_freed := g_freed s; g_alloc := g_alloc s; g_allocated := g_allocated s; g_pc := g_pc s; g_h1 := g_h1 s; g_sph := g_sph s; g_eh := g_eh s; g_readers := g_readers s; g_mid := g_mid s; g_gone_main := g_gone_main s; g_gone_epi := x; g_purged := g_purged s |}.
Definition set_purged (x : list N) (s : cst) : cst :=
  {| g_txid := g_txid s; g_last := g_last s; g_live := g_live s; g_valid := g_valid s; g_pending := g_pending s; g_held := g_held s; g_freed := g_freed s; g_alloc := g_alloc s; g_allocated := g_allocated s; g_pc := g_pc s; g_h1 := g_h1 s; g_sph := g_sph s; g_eh := g_eh s; g_readers := g_readers s; g_mid := g_mid s; g_gone_main := g_gone_main s; g_gone_epi := g_gone_epi s; g_purged := x |}.

(* ---------------------------------------------------------------- helpers *)
Fixpoint rm1 (x : N) (l : list N) : list N :=
  match l with [] => [] | y :: r => if N.eqb x y then r else y :: rm1 x r end.
Definition memN (x : N) (l : list N) : bool := existsb (N.eqb x) l.
Fixpoint nmin (l : list N) : option N :=
  match l with
  | [] => None
  | x :: r => match nmin r with None => Some x | Some m => Some (N.min x m) end
  end.
(* oldest_live_read_transaction(): first key of the BTreeMap *)
Definition oldest_live (s : cst) : option N := nmin (g_live s).
(* oldest_savepoint_excluding({}): first entry in savepoint-id order, its transaction id *)
Definition oldest_sp (s : cst) : option N := match g_valid s with [] => None | e :: _ => Some (snd e) end.
Definition below (h : N) (t : tab) : tab := filter (fun e => N.ltb (fst e) h) t.
Definition above (h : N) (t : tab) : tab := filter (fun e => negb (N.ltb (fst e) h)) t.
Definition pages_of (t : tab) : list N := flat_map snd t.
Definition remove_pages (ps al : list N) : list N := filter (fun p => negb (memN p ps)) al.
Fixpoint remove_sp (sp t : N) (v : list (N * N)) : list (N * N) :=   (* BTreeMap::remove: ids are unique *)
  match v with [] => [] | e :: r => if N.eqb (fst e) sp && N.eqb (snd e) t then r else e :: remove_sp sp t r end.
Definition has_sp (sp t : N) (v : list (N * N)) : bool := existsb (fun e => N.eqb (fst e) sp && N.eqb (snd e) t) v.
Fixpoint reader_of (t : nat) (l : list (nat * N)) : option N :=
  match l with [] => None | (t', r) :: q => if Nat.eqb t t' then Some r else reader_of t q end.
Fixpoint rm_reader (t : nat) (l : list (nat * N)) : list (nat * N) :=
  match l with [] => [] | (t', r) :: q => if Nat.eqb t t' then q else (t', r) :: rm_reader t q end.
Definition release_all (ids live : list N) : list N := fold_left (fun a x => rm1 x a) ids live.

(* ---------------------------------------------------------------- calls and steps *)
Inductive gcall := GCommit | GDrop (sp t : N) | GBeginRead | GEndRead
| GDropRest (sp t : N).   (* the second section of a Savepoint::drop whose first section ran during an earlier commit *)
Inductive gstep :=
| GOldestLive1 | GHorizon | GOldestSp | GCommitBegin | GUClear | GPublish | GClearPending | GInvalidate
| GOldestLive2 | GEpiHorizon | GUExtend | GNdPublish | GReserveId | GRegisterNd | GEndWrite      (* committer *)
| GDeallocSp | GDeallocRead                                                                     (* Savepoint::drop *)
| GRegisterRead | GReadRegistered                                                               (* begin_read *)
| GDeallocReadTx.                                                                               (* ReadTransaction drop *)

Definition pc_of (x : gstep) : option N :=
  match x with
  | GOldestLive1 => Some 0 | GHorizon => Some 1 | GOldestSp => Some 2 | GCommitBegin => Some 3 | GUClear => Some 4
  | GPublish => Some 5 | GClearPending => Some 6 | GInvalidate => Some 7 | GOldestLive2 => Some 8 | GEpiHorizon => Some 9
  | GUExtend => Some 10 | GNdPublish => Some 11 | GReserveId => Some 12 | GRegisterNd => Some 13 | GEndWrite => Some 14
  | _ => None
  end.

Definition gsteps_of (c : gcall) : list gstep :=
  match c with
  | GCommit => [GOldestLive1; GHorizon; GOldestSp; GCommitBegin; GUClear; GPublish; GClearPending; GInvalidate;
                GOldestLive2; GEpiHorizon]     (* GEpiHorizon continues with the epilogue's publication or GEndWrite *)
  | GDrop _ _ => [GDeallocSp; GDeallocRead]
  | GBeginRead => [GRegisterRead; GReadRegistered]
  | GEndRead => [GDeallocReadTx]
  | GDropRest _ _ => [GDeallocRead]
  end.

(* free the DATA_FREED records below h (extract_from_if(..(h,0))): process_freed_pages / the epilogue *)
Definition free_below (h : N) (s : cst) : cst :=
  set_allocated (remove_pages (pages_of (below h (g_freed s))) (g_allocated s)) (set_freed (above h (g_freed s)) s).

(* one committer section; pc is advanced by the caller *)
Definition commit_step (cf : cfg) (x : gstep) (s : cst) : cst * list gstep :=
  match x with
  | GOldestLive1 =>   (* free_until = oldest_live_read_transaction().map_or(transaction_id, next) *)
    (set_h1 (match oldest_live s with Some r => r + 1 | None => g_txid s end) s, [])
  | GHorizon =>       (* process_freed_pages(free_until) *)
    (set_gone_main (g_gone_main s ++ below (g_h1 s) (g_freed s)) (free_below (g_h1 s) s), [])
  | GOldestSp =>      (* flush_data_allocated_pages: oldest savepoint, extract_from_if(..(oldest,0)) *)
    let sph := oldest_sp s in
    (set_purged (map fst (match sph with Some h => below h (g_alloc s) | None => g_alloc s end))
       (set_alloc (match sph with Some h => above h (g_alloc s) | None => [] end) (set_sph sph s)), [])
  | GPublish => (set_last (g_txid s) s, [])                                   (* mem.commit: state.header = header *)
  | GClearPending =>  (* clear_pending_non_durable_commits *)
    (set_pending [] (set_live (release_all (map snd (g_pending s)) (g_live s)) s), [])
  | GOldestLive2 =>   (* epilogue: free_until, clamped to the savepoint horizon captured by the purge *)
    let e0 := match oldest_live s with Some r => r + 1 | None => g_txid s + 1 end in
    let e := if weak_clamp cf
             then match oldest_live s with
                  | Some r => r + 1
                  | None => match g_sph s with Some h => N.min (g_txid s + 1) (h + 1) | None => g_txid s + 1 end
                  end
             else match g_sph s with Some h => N.min e0 (h + 1) | None => e0 end in
    (set_eh e s, [])
  | GEpiHorizon =>    (* extract_freed_pages(DATA_FREED, free_until); if !freed_any return *)
    let gone := below (g_eh s) (g_freed s) in
    let s' := set_gone_epi (g_gone_epi s ++ gone) (free_below (g_eh s) s) in
    match pages_of gone with
    | [] => (s', [GEndWrite])
    | _ => (s', [GUExtend; GNdPublish; GReserveId; GRegisterNd; GEndWrite])
    end
  | GNdPublish => (set_last (g_txid s + 1) s, [])                              (* mem.non_durable_commit(epilogue id) *)
  | GRegisterNd =>    (* register_non_durable_commit(epilogue id, transaction id) *)
    (set_pending ((g_txid s + 1, g_txid s) :: g_pending s) (set_live (g_txid s :: g_live s) s), [])
  | _ => (s, [])      (* GCommitBegin, GUClear, GInvalidate, GUExtend, GReserveId, GEndWrite: nothing shared changes *)
  end.

Definition next_pc (x : gstep) (k : list gstep) (pc : N) : N :=
  match x, k with
  | GEpiHorizon, [GEndWrite] => 14      (* nothing freed: the epilogue's publication is skipped *)
  | _, _ => pc + 1
  end.

Definition gexec (cf : cfg) (t : nat) (c : gcall) (x : gstep) (s : cst) : option (cst * list gstep) :=
  match c, pc_of x with
  | GCommit, Some k =>
    if N.eqb (g_pc s) k then
      let '(s', cont) := commit_step cf x s in Some (set_pc (next_pc x cont (g_pc s)) s', cont)
    else None
  | _, _ =>
    match c, x with
    | GDrop sp tx, GDeallocSp =>
      if has_sp sp tx (g_valid s) then
        if swap_drop cf then Some (set_mid (tx :: g_mid s) (set_live (rm1 tx (g_live s)) s), [])
        else Some (set_mid (tx :: g_mid s) (set_valid (remove_sp sp tx (g_valid s)) s), [])
      else None
    | GDrop sp tx, GDeallocRead =>
      if memN tx (g_mid s) then
        if swap_drop cf then Some (set_mid (rm1 tx (g_mid s)) (set_valid (remove_sp sp tx (g_valid s)) s), [])
        else Some (set_mid (rm1 tx (g_mid s)) (set_live (rm1 tx (g_live s)) s), [])
      else None
    | GDropRest sp tx, GDeallocRead =>
      if memN tx (g_mid s) then
        if swap_drop cf then Some (set_mid (rm1 tx (g_mid s)) (set_valid (remove_sp sp tx (g_valid s)) s), [])
        else Some (set_mid (rm1 tx (g_mid s)) (set_live (rm1 tx (g_live s)) s), [])
      else None
    | GBeginRead, GRegisterRead =>
      Some (set_readers ((t, g_last s) :: g_readers s) (set_live (g_last s :: g_live s) s), [])
    | GBeginRead, GReadRegistered =>
      match reader_of t (g_readers s) with
      | Some r =>
        if N.eqb r (g_last s) then Some (s, [])
        else Some (set_readers (rm_reader t (g_readers s)) (set_live (rm1 r (g_live s)) s), [GRegisterRead; GReadRegistered])
      | None => None
      end
    | GEndRead, GDeallocReadTx =>
      match reader_of t (g_readers s) with
      | Some r => Some (set_readers (rm_reader t (g_readers s)) (set_live (rm1 r (g_live s)) s), [])
      | None => None
      end
    | _, _ => None
    end
  end.

Definition genter (t : nat) (c : gcall) (s : cst) : cst := s.
Definition gresult (t : nat) (c : gcall) (s : cst) : unit := tt.
Definition gname (x : gstep) : gstep := x.

Definition ggrant (cf : cfg) := Sched.grant cst gcall gstep gstep unit gsteps_of gname (gexec cf) genter gresult.
Definition grun (cf : cfg) := Sched.run cst gcall gstep gstep unit gsteps_of gname (gexec cf) genter gresult.
Definition gstart (progs : list (list gcall)) := Sched.start gcall gstep progs.
Definition gfinal (cf : cfg) (sched : list nat) (progs : list (list gcall)) (s : cst) : cst :=
  snd (fst (grun cf sched (gstart progs) s)).

(* the state when the committer of transaction `txid` reaches its first tracker section *)
Definition ginit (txid last : N) (live : list N) (valid pending : list (N * N)) (held : list N)
                 (freed alloc : tab) (allocated : list N) : cst :=
  {| g_txid := txid; g_last := last; g_live := live; g_valid := valid; g_pending := pending; g_held := held;
     g_freed := freed; g_alloc := alloc; g_allocated := allocated; g_pc := 0; g_h1 := 0; g_sph := None; g_eh := 0;
     g_readers := []; g_mid := []; g_gone_main := []; g_gone_epi := []; g_purged := [] |}.

(* ---------------------------------------------------------------- the property, as predicates and as checkers *)
(* DATA_ALLOCATED names allocated pages only *)
Definition alloc_ok (s : cst) : Prop :=
  forall A pa p, In (A, pa) (g_alloc s) -> In p pa -> In p (g_allocated s).
(* what still has to hold between the main free step and the purge of the same commit (both are in the committer's
   private, unpublished system tree): a record naming a freed page is older than every valid savepoint, so the
   purge removes it *)
Definition alloc_ok_mid (s : cst) : Prop :=
  forall A pa p, In (A, pa) (g_alloc s) -> In p pa -> ~ In p (g_allocated s) ->
                 forall sp S, In (sp, S) (g_valid s) -> A < S.
(* the pages a reader registered at r / a savepoint of transaction r can reach and the latest tree cannot: the
   DATA_FREED records (of the initial state s0) with key > r.  None of them has been freed *)
Definition reach_ok (s0 s : cst) : Prop :=
  forall F pf p, In (F, pf) (g_freed s0) -> In p pf ->
    ((exists r, In r (g_live s) /\ r < F) \/ (exists sp S, In (sp, S) (g_valid s) /\ S < F)) -> In p (g_allocated s).
(* a read transaction held by a reader thread is registered with the tracker *)
Definition readers_ok (s : cst) : Prop := forall t r, In (t, r) (g_readers s) -> In r (g_live s).
Definition safe (s0 s : cst) : Prop :=
  (g_pc s <> 2 -> alloc_ok s) /\ (g_pc s = 2 -> alloc_ok_mid s) /\ reach_ok s0 s /\ readers_ok s.

Definition alloc_ok_b (s : cst) : bool :=
  forallb (fun e => forallb (fun p => memN p (g_allocated s)) (snd e)) (g_alloc s).
Definition reach_ok_b (s0 s : cst) : bool :=
  forallb (fun e => if existsb (fun r => N.ltb r (fst e)) (g_live s ++ map snd (g_valid s))
                    then forallb (fun p => memN p (g_allocated s)) (snd e) else true) (g_freed s0).

(* ---------------------------------------------------------------- well-formed initial states *)
Fixpoint mono (v : list (N * N)) : Prop :=
  match v with [] => True | e :: r => (forall e', In e' r -> snd e <= snd e') /\ mono r end.
Definition cntN (x : N) (l : list N) : nat := count_occ N.eq_dec l x.
Record wf_init (s : cst) : Prop := {
  wf_pc : g_pc s = 0;
  wf_locals : g_readers s = [] /\ g_mid s = [] /\ g_gone_main s = [] /\ g_gone_epi s = [];
  (* every pin has an owner: a pending non-durable commit, a valid savepoint, or somebody who keeps it (as multisets) *)
  wf_pins : forall x, cntN x (g_live s) = (cntN x (map snd (g_pending s)) + cntN x (map snd (g_valid s)) + cntN x (g_held s))%nat;
  (* savepoint ids and the transaction ids they pin grow together *)
  wf_mono : mono (g_valid s);
  (* a page is queued for freeing at most once *)
  wf_nodup : NoDup (pages_of (g_freed s));
  (* a page is allocated by an earlier transaction than the one that unlinks it *)
  wf_cross : forall A pa F pf p, In (A, pa) (g_alloc s) -> In (F, pf) (g_freed s) -> In p pa -> In p pf -> A < F;
  (* records are those of committed transactions, or the committer's own *)
  wf_keys : forall F pf, In (F, pf) (g_freed s) -> F <= g_last s \/ F = g_txid s;
  wf_akeys : forall A pa, In (A, pa) (g_alloc s) -> A <= g_last s \/ A = g_txid s;
  wf_live : forall r, In r (g_live s) -> r <= g_last s;
  wf_last : g_last s < g_txid s;
  (* both tables name allocated pages *)
  wf_freed_alloc : forall F pf p, In (F, pf) (g_freed s) -> In p pf -> In p (g_allocated s);
  wf_alloc_alloc : alloc_ok s
}.

(* ---------------------------------------------------------------- successive transactions *)
(* what a commit needs to find when it starts, in general: as wf_init, but Savepoint::drop calls may be between their two
   sections (g_mid) and reader threads may hold read transactions (g_readers) -- every pin still has exactly one owner *)
Record wf_start (s : cst) : Prop := {
  ws_pc : g_pc s = 0;
  ws_gone : g_gone_main s = [] /\ g_gone_epi s = [];
  ws_pins : forall x, cntN x (g_live s) =
              (cntN x (map snd (g_pending s)) + cntN x (map snd (g_valid s)) + cntN x (g_mid s) +
               cntN x (map snd (g_readers s)) + cntN x (g_held s))%nat;
  ws_mono : mono (g_valid s);
  ws_nodup : NoDup (pages_of (g_freed s));
  ws_cross : forall A pa F pf p, In (A, pa) (g_alloc s) -> In (F, pf) (g_freed s) -> In p pa -> In p pf -> A < F;
  ws_keys : forall F pf, In (F, pf) (g_freed s) -> F <= g_last s \/ F = g_txid s;
  ws_akeys : forall A pa, In (A, pa) (g_alloc s) -> A <= g_last s \/ A = g_txid s;
  ws_live : forall r, In r (g_live s) -> r <= g_last s;
  ws_last : g_last s < g_txid s;
  ws_freed_alloc : forall F pf p, In (F, pf) (g_freed s) -> In p pf -> In p (g_allocated s);
  ws_alloc_alloc : alloc_ok s
}.

(* the NEXT write transaction, seen from the commit model: its id, the committed pages its table phase unlinked (its
   DATA_FREED record), the pages it allocated and still holds at commit (`n_fresh`) and those of them its
   DATA_ALLOCATED record names *)
Record nextp := { n_txid : N; n_freed : list N; n_alloc : list N; n_fresh : list N }.

(* the state the next commit starts from: the end state of this commit with the next transaction's two records in the
   tables and its pages allocated; new id, pc = 0, the committer's locals and the observations cleared.  The tracker,
   the droppers between their sections and the reader threads' read transactions carry over. *)
Definition gnext (s : cst) (n : nextp) : cst :=
  {| g_txid := n_txid n; g_last := g_last s; g_live := g_live s; g_valid := g_valid s; g_pending := g_pending s;
     g_held := g_held s; g_freed := g_freed s ++ [(n_txid n, n_freed n)]; g_alloc := g_alloc s ++ [(n_txid n, n_alloc n)];
     g_allocated := g_allocated s ++ n_fresh n; g_pc := 0; g_h1 := 0; g_sph := None; g_eh := 0;
     g_readers := g_readers s; g_mid := g_mid s; g_gone_main := []; g_gone_epi := []; g_purged := [] |}.

(* what the next transaction's table phase guarantees (C06 / C11 / C14: a page is unlinked once, it was allocated and
   committed before; fresh pages were free): *)
Record next_ok (s : cst) (n : nextp) : Prop := {
  no_txid : g_last s < n_txid n;
  no_nodup : NoDup (n_freed n);
  no_freed : forall p, In p (n_freed n) -> In p (g_allocated s) /\ ~ In p (pages_of (g_freed s));
  no_fresh : forall p, In p (n_fresh n) -> ~ In p (g_allocated s);
  no_alloc : forall p, In p (n_alloc n) -> In p (n_fresh n)
}.

(* a chain of transactions: (threads, schedule, the next transaction) each; the state each commit starts from *)
Definition txn := (list (list gcall) * list nat * nextp)%type.
Fixpoint chain_starts (s : cst) (txs : list txn) : list cst :=
  match txs with
  | [] => []
  | (progs, sched, n) :: r => s :: chain_starts (gnext (gfinal faithful sched progs s) n) r
  end.
(* every commit of the chain runs to its end under its schedule, and the next transaction is well-behaved *)
Fixpoint chain_ok (s : cst) (txs : list txn) : Prop :=
  match txs with
  | [] => True
  | (progs, sched, n) :: r =>
    let e := gfinal faithful sched progs s in
    g_pc e = 15 /\ next_ok e n /\ chain_ok (gnext e n) r
  end.

(* ---------------------------------------------------------------- lock order (lock_order_acyclic) *)
(* the same as a checker (run on every initial state taken from the implementation; sound: CommitGapP.wf_init_b_sound) *)
Fixpoint nodupb (l : list N) : bool := match l with [] => true | x :: r => negb (memN x r) && nodupb r end.
Fixpoint monob (v : list (N * N)) : bool :=
  match v with [] => true | e :: r => forallb (fun e' => N.leb (snd e) (snd e')) r && monob r end.
Definition emptyb {A} (l : list A) : bool := match l with [] => true | _ => false end.
Definition wf_init_b (s : cst) : bool :=
  N.eqb (g_pc s) 0 && emptyb (g_readers s) && emptyb (g_mid s) && emptyb (g_gone_main s) && emptyb (g_gone_epi s) &&
  (if list_eq_dec N.eq_dec (g_live s) (map snd (g_pending s) ++ map snd (g_valid s) ++ g_held s) then true else false) &&
  monob (g_valid s) && nodupb (pages_of (g_freed s)) &&
  forallb (fun a => forallb (fun f => forallb (fun p => if memN p (snd f) then N.ltb (fst a) (fst f) else true) (snd a))
                            (g_freed s)) (g_alloc s) &&
  forallb (fun f => N.leb (fst f) (g_last s) || N.eqb (fst f) (g_txid s)) (g_freed s) &&
  forallb (fun a => N.leb (fst a) (g_last s) || N.eqb (fst a) (g_txid s)) (g_alloc s) &&
  forallb (fun r => N.leb r (g_last s)) (g_live s) && N.ltb (g_last s) (g_txid s) &&
  forallb (fun f => forallb (fun p => memN p (g_allocated s)) (snd f)) (g_freed s) && alloc_ok_b s.

(* ---------------------------------------------------------------- lock order (lock_order_acyclic) *)
(* The mutexes of the modelled sections.  A CHAIN is the list of mutexes a section holds at its deepest point, in
   acquisition order (outermost first); transcribed from the code, one line per section, with its anchor. *)
Inductive lock :=
| LTables            (* WriteTransaction::tables *)
| LSystemTables      (* WriteTransaction::system_tables *)
| LSavepointState    (* WriteTransaction::savepoint_state *)
| LFreedPages        (* TableNamespace::freed_pages (shared by the data tables of the transaction) *)
| LSystemFreedPages  (* SystemNamespace::system_freed_pages *)
| LAllocatedPages    (* PageTracker::policy (allocated_pages) *)
| LTracker           (* TransactionTracker::state *)
| LUnpersisted       (* TransactionalMemory::unpersisted *)
| LMem.              (* TransactionalMemory::state *)

Definition lock_chains : list (list lock) := [
  (* open_table: tables.lock() -> inner_open -> set_dirty -> any_savepoint_exists / allocated_pages.disable() *)
  [LTables; LTracker]; [LTables; LAllocatedPages];
  (* ephemeral_savepoint: tables.lock(); register_read_transaction (tracker.state, inside it mem.state); allocate_savepoint *)
  [LTables; LTracker; LMem];
  (* persistent_savepoint / compact_pages / verif snapshots: tables, then system_tables *)
  [LTables; LSystemTables];
  (* table operations: merge_freed_pages (freed_pages alone); MultimapTable::remove: freed_pages, then
     conditional_free -> allocated_pages, then the allocator *)
  [LFreedPages]; [LFreedPages; LAllocatedPages; LMem];
  (* commit_inner_helper: tables.lock().table_tree.flush_and_close(): allocated_pages.close(), then freed_pages *)
  [LTables; LAllocatedPages]; [LTables; LFreedPages];
  (* store_data_freed_pages_for: system_tables, debug_assert mem.is_allocated *)
  [LSystemTables; LMem];
  (* durable_commit: oldest_live_read_transaction *)
  [LTracker];
  (* process_freed_pages: system_tables; free_page -> mem.unpersisted(page), page_allocator.free *)
  [LSystemTables; LUnpersisted]; [LSystemTables; LMem];
  (* flush_data_allocated_pages: take_unpersisted_allocations; then system_tables, savepoint_state.pending_deleted_ids(),
     oldest_savepoint_excluding *)
  [LUnpersisted]; [LSystemTables; LSavepointState]; [LSystemTables; LTracker];
  (* durable_commit, system_tables held until drop(system_tables): mem.commit (state; unpersisted.clear(); state),
     clear_pending_non_durable_commits, system_freed_pages.lock().drain(..) { page_allocator.free } *)
  [LSystemTables; LMem]; [LSystemTables; LUnpersisted]; [LSystemTables; LTracker]; [LSystemTables; LSystemFreedPages; LMem];
  (* apply_savepoint_state_on_commit: savepoint_state, invalidate_savepoints / deallocate_savepoint *)
  [LSavepointState; LTracker];
  (* epilogue: oldest_live_read_transaction; system_tables + free; non_durable_commit (unpersisted; state);
     reserve_transaction_id, register_non_durable_commit, mark_non_durable_freed_pages_processed *)
  [LTracker]; [LSystemTables; LMem]; [LSystemTables; LSystemFreedPages]; [LUnpersisted]; [LMem]; [LTracker];
  (* final assertions of commit_inner_helper *)
  [LSystemTables; LSystemFreedPages]; [LTables; LFreedPages];
  (* Savepoint::drop: two tracker sections; begin_read: register_read_transaction; ReadTransaction drop *)
  [LTracker]; [LTracker; LMem]; [LTracker]
].

(* "some section holds a while acquiring b" *)
Fixpoint chain_pairs (c : list lock) : list (lock * lock) :=
  match c with [] => [] | a :: r => map (fun b => (a, b)) r ++ chain_pairs r end.
Definition lock_edges : list (lock * lock) := flat_map chain_pairs lock_chains.
Definition holds_while_acquiring (a b : lock) : Prop := In (a, b) lock_edges.

(* the order: tables -> system_tables -> savepoint_state -> freed_pages -> allocated_pages -> tracker.state ->
   unpersisted -> mem.state *)
Definition lock_rank (l : lock) : N :=
  match l with
  | LTables => 0 | LSystemTables => 1 | LSavepointState => 2 | LFreedPages => 3 | LSystemFreedPages => 3
  | LAllocatedPages => 4 | LTracker => 5 | LUnpersisted => 6 | LMem => 7
  end.
Definition lock_edges_ranked : bool := forallb (fun e => N.ltb (lock_rank (fst e)) (lock_rank (snd e))) lock_edges.
