(* Conc/SharedP.v -- proofs about one write transaction used from several threads *)
From Coq Require Import List NArith Bool Lia PeanoNat.
From RV Require Import Conc.Shared.
Import ListNotations.
Open Scope N_scope.

Ltac inv H := inversion H; subst; clear H.
Ltac bm H :=
  match type of H with
  | context [match ?x with _ => _ end] => let E := fresh "E" in destruct x eqn:E; try discriminate H
  | context [if ?x then _ else _] => let E := fresh "E" in destruct x eqn:E; try discriminate H
  end.

Lemma nget_ndel_same : forall A t (l : list (nat * A)), nget t (ndel t l) = None.
Proof. induction l as [|[t' v] l IH]; simpl; [reflexivity|]. destruct (Nat.eqb t t') eqn:E; [assumption|]. simpl. rewrite E. assumption. Qed.
Lemma nget_ndel_other : forall A t t' (l : list (nat * A)), t <> t' -> nget t (ndel t' l) = nget t l.
Proof.
  induction l as [|[t2 v] l IH]; intros Hne; simpl; [reflexivity|].
  destruct (Nat.eqb t' t2) eqn:E.
  - apply Nat.eqb_eq in E. subst. destruct (Nat.eqb t t2) eqn:E2; [apply Nat.eqb_eq in E2; congruence|auto].
  - simpl. destruct (Nat.eqb t t2); auto.
Qed.
Lemma nget_set_at : forall s t c n t', nget t' (s_at (set_at s t c n)) = if Nat.eqb t' t then Some (c, n) else nget t' (s_at s).
Proof.
  intros. unfold set_at, upd. simpl. destruct (Nat.eqb t' t) eqn:E; [reflexivity|].
  apply nget_ndel_other. intro. subst. rewrite Nat.eqb_refl in E. discriminate.
Qed.
Lemma nget_finish : forall s t c r t', nget t' (s_at (finish s t c r)) = if Nat.eqb t' t then None else nget t' (s_at s).
Proof.
  intros. unfold finish, upd. simpl. destruct (Nat.eqb t' t) eqn:E.
  - apply Nat.eqb_eq in E. subst. apply nget_ndel_same.
  - apply nget_ndel_other. intro. subst. rewrite Nat.eqb_refl in E. discriminate.
Qed.

(* ================================================================ savepoint / tracking consistency *)
Definition in_esp_critical (n : sname) : bool :=
  match n with NRegisterRead | NAllocSavepoint => true | _ => false end.
Definition in_open (n : sname) : bool :=
  match n with NSetDirty | NSetDirtyStored | NAnySavepoint => true | _ => false end.
Definition after_store (n : sname) : bool :=
  match n with NSetDirtyStored | NAnySavepoint => true | _ => false end.

Record sinv (s : sst) : Prop := {
  j_dirty : s_tracking s = false -> s_dirty s = true;
  j_valid : s_tracking s = false -> s_valid s = [];
  j_esp : forall t h n, nget t (s_at s) = Some (SSavepoint h, Some n) ->
            (n = NEspLocked \/ in_esp_critical n = true -> s_lock s = Some t) /\
            (in_esp_critical n = true -> s_dirty s = false);
  j_open : forall t tb n, nget t (s_at s) = Some (SOpen tb, Some n) ->
            in_open n = true /\ s_lock s = Some t /\ (after_store n = true -> s_dirty s = true)
}.

Lemma holds_eq : forall s t, holds s t = true -> s_lock s = Some t.
Proof. unfold holds. intros s t H. destruct (s_lock s); [|discriminate]. apply Nat.eqb_eq in H. subst. reflexivity. Qed.

Lemma lock_free_eq : forall s, lock_free s = true -> s_lock s = None.
Proof. unfold lock_free. intros s H. destruct (s_lock s); [discriminate|reflexivity]. Qed.

(* what a step of thread t may change, and what it owes for itself *)
Lemma sinv_update : forall s s' t,
  sinv s ->
  (forall t', t' <> t -> nget t' (s_at s') = nget t' (s_at s)) ->
  (s_lock s' = s_lock s \/ s_lock s = None \/ s_lock s = Some t) ->
  (s_dirty s' = s_dirty s \/ s_lock s = Some t) ->
  (s_tracking s' = false -> s_dirty s' = true) ->
  (s_tracking s' = false -> s_valid s' = []) ->
  (forall h n, nget t (s_at s') = Some (SSavepoint h, Some n) ->
     (n = NEspLocked \/ in_esp_critical n = true -> s_lock s' = Some t) /\ (in_esp_critical n = true -> s_dirty s' = false)) ->
  (forall tb n, nget t (s_at s') = Some (SOpen tb, Some n) ->
     in_open n = true /\ s_lock s' = Some t /\ (after_store n = true -> s_dirty s' = true)) ->
  sinv s'.
Proof.
  intros s s' t J Hat Hl Hd H1 H2 He Ho. constructor; [exact H1|exact H2| |].
  - intros t' h n Hg. destruct (Nat.eq_dec t' t) as [->|Hne]; [apply (He h n); exact Hg|].
    rewrite (Hat t' Hne) in Hg. destruct (j_esp s J t' h n Hg) as [Ha Hb]. split.
    + intro Hn. specialize (Ha Hn). destruct Hl as [Hl|[Hl|Hl]]; congruence.
    + intro Hn. specialize (Hb Hn). assert (Hlk : s_lock s = Some t') by (apply Ha; right; exact Hn).
      destruct Hd as [Hd|Hd]; congruence.
  - intros t' tb n Hg. destruct (Nat.eq_dec t' t) as [->|Hne]; [apply (Ho tb n); exact Hg|].
    rewrite (Hat t' Hne) in Hg. destruct (j_open s J t' tb n Hg) as (Ha & Hb & Hc). split; [exact Ha|]. split.
    + destruct Hl as [Hl|[Hl|Hl]]; congruence.
    + intro Hn. specialize (Hc Hn). destruct Hd as [Hd|Hd]; congruence.
Qed.

Lemma at_other_set : forall s t c n t', t' <> t -> nget t' (s_at (set_at s t c n)) = nget t' (s_at s).
Proof. intros. rewrite nget_set_at. destruct (Nat.eqb t' t) eqn:E; [apply Nat.eqb_eq in E; congruence|reflexivity]. Qed.
Lemma at_other_fin : forall s t c r t', t' <> t -> nget t' (s_at (finish s t c r)) = nget t' (s_at s).
Proof. intros. rewrite nget_finish. destruct (Nat.eqb t' t) eqn:E; [apply Nat.eqb_eq in E; congruence|reflexivity]. Qed.
Lemma at_self_set : forall s t c n, nget t (s_at (set_at s t c n)) = Some (c, n).
Proof. intros. rewrite nget_set_at, Nat.eqb_refl. reflexivity. Qed.
Lemma at_self_fin : forall s t c r, nget t (s_at (finish s t c r)) = None.
Proof. intros. rewrite nget_finish, Nat.eqb_refl. reflexivity. Qed.

Ltac lockfacts :=
  repeat match goal with
  | H : holds _ _ = true |- _ => apply holds_eq in H
  | H : lock_free _ = true |- _ => apply lock_free_eq in H
  end.
Ltac side J :=
  first
  [ solve [intros ? Hne; first [rewrite at_other_fin by exact Hne | rewrite at_other_set by exact Hne]; reflexivity]
  | solve [intros ? ? Hself; first [rewrite at_self_fin in Hself | rewrite at_self_set in Hself]; discriminate]
  | solve [left; reflexivity]
  | solve [right; left; assumption]
  | solve [right; right; assumption]
  | solve [right; assumption]
  | solve [simpl; apply J]
  | solve [simpl; let Hx := fresh "Hx" in intro Hx; first [discriminate Hx | apply J; congruence]]
  | solve [simpl; auto]
  | idtac ].

Lemma sstep_sinv : forall t l s s', sinv s -> sstep t l s = Some s' -> sinv s'.
Proof.
  intros t l s s' J H. unfold sstep in H.
  destruct l as [c|nm].
  - destruct (nget t (s_at s)) eqn:Hat; [discriminate|].
    destruct c as [tb|tb k v|tb k|tb|h|h].
    + repeat bm H; lockfacts; inv H; apply (sinv_update s _ t J); side J.
      all: try (intros tb' n Hself; rewrite at_self_set in Hself; inv Hself; repeat split; try reflexivity; discriminate).
    + repeat bm H; inv H; apply (sinv_update s _ t J); side J.
    + repeat bm H; inv H; apply (sinv_update s _ t J); side J.
    + repeat bm H; inv H; apply (sinv_update s _ t J); side J.
    + inv H. apply (sinv_update s _ t J); side J.
      intros h' n Hself. rewrite at_self_set in Hself. inv Hself. split; [intros [Hc|Hc]; discriminate|discriminate].
    + bm H; inv H; apply (sinv_update s _ t J); side J.
  - destruct (nget t (s_at s)) as [[c [n'|]]|] eqn:Hat; try discriminate.
    destruct c as [tb|tb k v|tb k|tb|h|h]; destruct nm; destruct n'; simpl in H; try discriminate.
    (* open_table sections *)
    1-3: destruct (j_open s J t _ _ Hat) as (Qa & Qb & Qc).
    (* ephemeral_savepoint sections *)
    4-10: destruct (j_esp s J t _ _ Hat) as (Pa & Pb).
    all: repeat bm H; lockfacts; inv H.
    all: apply (sinv_update s _ t J); side J.
    all: try (intros ? ? Hself; rewrite at_self_set in Hself; inv Hself; simpl;
              repeat split; auto; try discriminate; try (intros [?|?]; discriminate); try (intros; discriminate)).
    + (* open_table, T.any_savepoint with a valid savepoint: tracking stays as it is *)
      simpl. intro Ht. pose proof (j_valid s J Ht) as Hv. congruence.
    + (* ephemeral_savepoint, T.alloc_savepoint: the dirty check was made under the mutex that is still held *)
      simpl. intro Ht. pose proof (j_dirty s J Ht) as Hd. rewrite (Pb eq_refl) in Hd. discriminate.
    + (* Savepoint::drop *)
      simpl. intro Ht. rewrite (j_valid s J Ht). reflexivity.
Qed.

Lemma srun_sinv : forall log s s', sinv s -> srun log s = Some s' -> sinv s'.
Proof.
  induction log as [|[t l] log IH]; intros s s' J H; simpl in H; [inv H; exact J|].
  destruct (sstep t l s) as [s1|] eqn:E; [|discriminate]. eapply IH; [|exact H]. eapply sstep_sinv; eauto.
Qed.

Lemma sinit_tables_sinv : forall pre tabs, sinv (sinit_tables pre tabs).
Proof.
  intros pre tabs. constructor; simpl; try discriminate.
Qed.
Lemma sinit_sinv : forall pre, sinv (sinit pre).
Proof. intro. apply sinit_tables_sinv. Qed.

(* savepoint_tracking_consistent: whatever the threads do and however their sections interleave, allocation
   tracking is never off while a savepoint is valid (so restoring one can always free this transaction's pages),
   and it is only ever switched off in a dirty transaction *)
Theorem savepoint_tracking_consistent : forall pre log s,
  srun log (sinit pre) = Some s -> s_tracking s = false -> s_valid s = [] /\ s_dirty s = true.
Proof.
  intros pre log s H Ht. pose proof (srun_sinv log _ _ (sinit_sinv pre) H) as J.
  split; [apply (j_valid s J Ht)|apply (j_dirty s J Ht)].
Qed.

(* the dirty check and the registration of ephemeral_savepoint() happen inside one critical section of the
   `tables` mutex: while a thread is between them, it holds the mutex and the transaction is not dirty *)
Theorem savepoint_registration_serialized : forall pre log s t h n,
  srun log (sinit pre) = Some s -> nget t (s_at s) = Some (SSavepoint h, Some n) -> in_esp_critical n = true ->
  s_lock s = Some t /\ s_dirty s = false.
Proof.
  intros pre log s t h n H Hat Hn. pose proof (srun_sinv log _ _ (sinit_sinv pre) H) as J.
  destruct (j_esp s J t h n Hat) as [Ha Hb]. split; [apply Ha; right; exact Hn|apply Hb; exact Hn].
Qed.

(* ================================================================ per-table independence *)
Lemma tget_tset_same : forall k v l, tget k (tset k v l) = Some v.
Proof. induction l as [|[k' v'] l IH]; simpl; [rewrite N.eqb_refl; reflexivity|]. destruct (N.eqb k k') eqn:E; simpl; rewrite ?N.eqb_refl, ?E; auto. Qed.
Lemma tget_tset_other : forall k k' v l, k <> k' -> tget k (tset k' v l) = tget k l.
Proof.
  induction l as [|[k2 v2] l IH]; intros Hne; simpl.
  - destruct (N.eqb k k') eqn:E; [apply N.eqb_eq in E; congruence|reflexivity].
  - destruct (N.eqb k' k2) eqn:E.
    + apply N.eqb_eq in E. subst. simpl. destruct (N.eqb k k2) eqn:E2; [apply N.eqb_eq in E2; congruence|reflexivity].
    + simpl. destruct (N.eqb k k2); auto.
Qed.

Lemma table_map_tset : forall s tb tb' tbl tables',
  tables' = tset tb' tbl (s_tables s) ->
  forall s', s_tables s' = tables' ->
  table_map s' tb = if N.eqb tb tb' then tb_map tbl else table_map s tb.
Proof.
  intros s tb tb' tbl tables' -> s' Hs. unfold table_map. rewrite Hs.
  destruct (N.eqb tb tb') eqn:E.
  - apply N.eqb_eq in E. subst. rewrite tget_tset_same. reflexivity.
  - rewrite tget_tset_other; [reflexivity|]. intro. subst. rewrite N.eqb_refl in E. discriminate.
Qed.

(* one step changes the contents of table tb exactly as tb's own operation says, and only then *)
Lemma sstep_table : forall t l s s' tb, sstep t l s = Some s' ->
  table_map s' tb = match l with LEnter c => apply_call tb (table_map s tb) c | LSec _ => table_map s tb end.
Proof.
  intros t l s s' tb H. unfold sstep in H. destruct l as [c|nm].
  - destruct (nget t (s_at s)); [discriminate|].
    destruct c as [tb'|tb' k v|tb' k|tb'|h|h]; simpl.
    + repeat bm H; inv H; try reflexivity.
      all: unfold table_map; simpl; destruct (N.eq_dec tb tb') as [->|Hne];
        [rewrite tget_tset_same; simpl; repeat match goal with Hx : tget _ _ = _ |- _ => rewrite Hx end; reflexivity
        |rewrite tget_tset_other by exact Hne; reflexivity].
    + repeat bm H; inv H.
      all: unfold table_map; simpl; destruct (N.eqb tb tb') eqn:Eb;
        [apply N.eqb_eq in Eb; subst; rewrite tget_tset_same; simpl;
         repeat match goal with Hx : tget _ _ = _ |- _ => rewrite Hx end; reflexivity
        |rewrite tget_tset_other; [reflexivity|intro; subst; rewrite N.eqb_refl in Eb; discriminate]].
    + repeat bm H; inv H.
      unfold table_map; simpl; destruct (N.eqb tb tb') eqn:Eb;
        [apply N.eqb_eq in Eb; subst; rewrite tget_tset_same; simpl;
         repeat match goal with Hx : tget _ _ = _ |- _ => rewrite Hx end; reflexivity
        |rewrite tget_tset_other; [reflexivity|intro; subst; rewrite N.eqb_refl in Eb; discriminate]].
    + repeat bm H; inv H.
      unfold table_map; simpl; destruct (N.eq_dec tb tb') as [->|Hne];
        [rewrite tget_tset_same; simpl; repeat match goal with Hx : tget _ _ = _ |- _ => rewrite Hx end; reflexivity
        |rewrite tget_tset_other by exact Hne; reflexivity].
    + inv H. reflexivity.
    + bm H. inv H. reflexivity.
  - destruct (nget t (s_at s)) as [[c [n'|]]|]; try discriminate.
    destruct c; destruct nm; destruct n'; simpl in H; try discriminate; repeat bm H; inv H; reflexivity.
Qed.

Lemma srun_table : forall log s s' tb, srun log s = Some s' ->
  table_map s' tb = fold_left (apply_call tb) (own_stream tb log) (table_map s tb).
Proof.
  induction log as [|[t l] log IH]; intros s s' tb H; simpl in H; [inv H; reflexivity|].
  destruct (sstep t l s) as [s1|] eqn:E; [|discriminate].
  rewrite (IH s1 s' tb H). unfold own_stream. simpl. rewrite (sstep_table t l s s1 tb E).
  destruct l; simpl; reflexivity.
Qed.

(* per_table_independent: for every executable log (any interleaving of the threads' sections, with savepoint
   calls and drops of other threads in between) the contents of each table are exactly its own operations applied
   in order -- nothing another table's stream or a savepoint call does shows in it *)
Theorem per_table_independent : forall pre log s tb,
  srun log (sinit pre) = Some s -> table_map s tb = spec_table tb log.
Proof. intros. unfold spec_table, spec_table_from. rewrite (srun_table log _ _ tb H). reflexivity. Qed.

(* the same starting from tables that exist already: the committed contents, then the table's own operations *)
Theorem per_table_independent_from : forall pre tabs log s tb,
  srun log (sinit_tables pre tabs) = Some s ->
  table_map s tb = spec_table_from (table_map (sinit_tables pre tabs) tb) tb log.
Proof. intros. unfold spec_table_from. apply (srun_table log _ _ tb H). Qed.

Theorem savepoint_tracking_consistent_from : forall pre tabs log s,
  srun log (sinit_tables pre tabs) = Some s -> s_tracking s = false -> s_valid s = [] /\ s_dirty s = true.
Proof.
  intros pre tabs log s H Ht. pose proof (srun_sinv log _ _ (sinit_tables_sinv pre tabs) H) as J.
  split; [apply (j_valid s J Ht)|apply (j_dirty s J Ht)].
Qed.

(* ================================================================ no page shared between tables *)
Definition is_put (l : slabel) : option N := match l with LEnter (SPut tb _ _) => Some tb | _ => None end.

Lemma sstep_pages : forall t l s s' tb, sstep t l s = Some s' ->
  table_pages s' tb = (match is_put l with
                       | Some tb' => if N.eqb tb tb' then s_next_page s :: table_pages s tb else table_pages s tb
                       | None => table_pages s tb end) /\
  s_next_page s' = (match is_put l with Some _ => s_next_page s + 1 | None => s_next_page s end).
Proof.
  intros t l s s' tb H. unfold sstep in H. destruct l as [c|nm].
  - destruct (nget t (s_at s)); [discriminate|].
    destruct c as [tb'|tb' k v|tb' k|tb'|h|h]; simpl.
    + repeat bm H; inv H; split; try reflexivity.
      all: unfold table_pages; simpl; destruct (N.eq_dec tb tb') as [->|Hne];
        [rewrite tget_tset_same; simpl; repeat match goal with Hx : tget _ _ = _ |- _ => rewrite Hx end; reflexivity
        |rewrite tget_tset_other by exact Hne; reflexivity].
    + repeat bm H; inv H; split; try reflexivity.
      all: unfold table_pages; simpl; destruct (N.eqb tb tb') eqn:Eb;
        [apply N.eqb_eq in Eb; subst; rewrite tget_tset_same; simpl;
         repeat match goal with Hx : tget _ _ = _ |- _ => rewrite Hx end; reflexivity
        |rewrite tget_tset_other; [reflexivity|intro; subst; rewrite N.eqb_refl in Eb; discriminate]].
    + repeat bm H; inv H; split; try reflexivity.
      unfold table_pages; simpl; destruct (N.eq_dec tb tb') as [->|Hne];
        [rewrite tget_tset_same; simpl; repeat match goal with Hx : tget _ _ = _ |- _ => rewrite Hx end; reflexivity
        |rewrite tget_tset_other by exact Hne; reflexivity].
    + repeat bm H; inv H; split; try reflexivity.
      unfold table_pages; simpl; destruct (N.eq_dec tb tb') as [->|Hne];
        [rewrite tget_tset_same; simpl; repeat match goal with Hx : tget _ _ = _ |- _ => rewrite Hx end; reflexivity
        |rewrite tget_tset_other by exact Hne; reflexivity].
    + inv H. split; reflexivity.
    + bm H. inv H. split; reflexivity.
  - destruct (nget t (s_at s)) as [[c [n'|]]|]; try discriminate.
    destruct c; destruct nm; destruct n'; simpl in H; try discriminate; repeat bm H; inv H; split; reflexivity.
Qed.

Record pinv (s : sst) : Prop := {
  p_bound : forall tb p, In p (table_pages s tb) -> p < s_next_page s;
  p_nodup : forall tb, NoDup (table_pages s tb);
  p_disj : forall tb tb' p, tb <> tb' -> In p (table_pages s tb) -> ~ In p (table_pages s tb')
}.

Lemma sstep_pinv : forall t l s s', pinv s -> sstep t l s = Some s' -> pinv s'.
Proof.
  intros t l s s' P H.
  assert (Hp : forall tb, table_pages s' tb = (match is_put l with
                       | Some tb' => if N.eqb tb tb' then s_next_page s :: table_pages s tb else table_pages s tb
                       | None => table_pages s tb end)) by (intro tb; apply (sstep_pages t l s s' tb H)).
  pose proof (proj2 (sstep_pages t l s s' 0 H)) as Hn.
  destruct (is_put l) as [tb'|].
  - constructor.
    + intros tb p Hin. rewrite Hp in Hin. rewrite Hn. destruct (N.eqb tb tb').
      * destruct Hin as [<-|Hin]; [lia|]. pose proof (p_bound s P tb p Hin). lia.
      * pose proof (p_bound s P tb p Hin). lia.
    + intros tb. rewrite Hp. destruct (N.eqb tb tb'); [|apply (p_nodup s P)].
      constructor; [|apply (p_nodup s P)]. intro Hin. pose proof (p_bound s P tb _ Hin). lia.
    + intros tb tb2 p Hne Hin Hin2. rewrite Hp in Hin, Hin2.
      destruct (N.eqb tb tb') eqn:E1; destruct (N.eqb tb2 tb') eqn:E2.
      * apply N.eqb_eq in E1, E2. congruence.
      * destruct Hin as [<-|Hin]; [pose proof (p_bound s P tb2 _ Hin2); lia|]. apply (p_disj s P tb tb2 p Hne Hin Hin2).
      * destruct Hin2 as [<-|Hin2]; [pose proof (p_bound s P tb _ Hin); lia|]. apply (p_disj s P tb tb2 p Hne Hin Hin2).
      * apply (p_disj s P tb tb2 p Hne Hin Hin2).
  - constructor.
    + intros tb p Hin. rewrite Hp in Hin. rewrite Hn. apply (p_bound s P tb p Hin).
    + intros tb. rewrite Hp. apply (p_nodup s P).
    + intros tb tb2 p Hne Hin Hin2. rewrite Hp in Hin, Hin2. apply (p_disj s P tb tb2 p Hne Hin Hin2).
Qed.

Lemma srun_pinv : forall log s s', pinv s -> srun log s = Some s' -> pinv s'.
Proof.
  induction log as [|[t l] log IH]; intros s s' P H; simpl in H; [inv H; exact P|].
  destruct (sstep t l s) as [s1|] eqn:E; [|discriminate]. eapply IH; [|exact H]. eapply sstep_pinv; eauto.
Qed.

(* no_shared_page: the allocator step is atomic, so whatever the interleaving no page belongs to two tables
   and no table holds a page twice *)
Theorem no_shared_page : forall pre log s,
  srun log (sinit pre) = Some s ->
  (forall tb, NoDup (table_pages s tb)) /\
  (forall tb tb' p, tb <> tb' -> In p (table_pages s tb) -> ~ In p (table_pages s tb')).
Proof.
  intros pre log s H.
  assert (P0 : pinv (sinit pre)).
  { constructor; unfold table_pages; simpl; intros; try constructor; try contradiction; auto. }
  pose proof (srun_pinv log _ _ P0 H) as P. split; [apply (p_nodup s P)|apply (p_disj s P)].
Qed.
