(* Conc/SharedP.v -- proofs about one write transaction used from several threads *)
From Coq Require Import List NArith Bool Lia PeanoNat Permutation.
From RV Require Import Conc.Shared.
Import ListNotations.
Open Scope N_scope.

Ltac inv H := inversion H; subst; clear H.
Ltac bm H :=
  match type of H with
  | context [match ?x with _ => _ end] => let E := fresh "E" in destruct x eqn:E; try discriminate H
  | context [if ?x then _ else _] => let E := fresh "E" in destruct x eqn:E; try discriminate H
  end.

Lemma nget_ndel_same : forall A t (l : list (nat * A)), nget t (ndel t l) = None.
Proof. induction l as [|[t' v] l IH]; simpl; [reflexivity|]. destruct (Nat.eqb t t') eqn:E; [assumption|]. simpl. rewrite E. assumption. Qed.
Lemma nget_ndel_other : forall A t t' (l : list (nat * A)), t <> t' -> nget t (ndel t' l) = nget t l.
Proof.
  induction l as [|[t2 v] l IH]; intros Hne; simpl; [reflexivity|].
  destruct (Nat.eqb t' t2) eqn:E.
  - apply Nat.eqb_eq in E. subst. destruct (Nat.eqb t t2) eqn:E2; [apply Nat.eqb_eq in E2; congruence|auto].
  - simpl. destruct (Nat.eqb t t2); auto.
Qed.
(* the two shapes the table of calls in progress takes after a step of thread t *)
Lemma at_self_set : forall A t (x : A) l, nget t ((t, x) :: ndel t l) = Some x.
Proof. intros. simpl. rewrite Nat.eqb_refl. reflexivity. Qed.
Lemma at_other_set : forall A t t' (x : A) l, t' <> t -> nget t' ((t, x) :: ndel t l) = nget t' l.
Proof.
  intros. simpl. destruct (Nat.eqb t' t) eqn:E; [apply Nat.eqb_eq in E; congruence|]. apply nget_ndel_other. assumption.
Qed.
Lemma at_self_fin : forall A t (l : list (nat * A)), nget t (ndel t l) = None.
Proof. intros. apply nget_ndel_same. Qed.
Lemma at_other_fin : forall A t t' (l : list (nat * A)), t' <> t -> nget t' (ndel t l) = nget t' l.
Proof. intros. apply nget_ndel_other. assumption. Qed.

Lemma holds_eq : forall s t, holds s t = true -> s_lock s = Some t.
Proof. unfold holds. intros s t H. destruct (s_lock s); [|discriminate]. apply Nat.eqb_eq in H. subst. reflexivity. Qed.
Lemma lock_free_eq : forall s, lock_free s = true -> s_lock s = None.
Proof. unfold lock_free. intros s H. destruct (s_lock s); [discriminate|reflexivity]. Qed.
Lemma fholds_eq : forall s t, fholds s t = true -> s_flock s = Some t.
Proof. unfold fholds. intros s t H. destruct (s_flock s); [|discriminate]. apply Nat.eqb_eq in H. subst. reflexivity. Qed.
Lemma flock_free_eq : forall s, flock_free s = true -> s_flock s = None.
Proof. unfold flock_free. intros s H. destruct (s_flock s); [discriminate|reflexivity]. Qed.
Lemma sholds_eq : forall s t, sholds s t = true -> s_syslock s = Some t.
Proof. unfold sholds. intros s t H. destruct (s_syslock s); [|discriminate]. apply Nat.eqb_eq in H. subst. reflexivity. Qed.
Lemma sys_free_eq : forall s, sys_free s = true -> s_syslock s = None.
Proof. unfold sys_free. intros s H. destruct (s_syslock s); [discriminate|reflexivity]. Qed.
Lemma owner_is_eq : forall tbl t, owner_is tbl t = true -> tb_owner tbl = Some t.
Proof. unfold owner_is. intros tbl t H. destruct (tb_owner tbl); [|discriminate]. apply Nat.eqb_eq in H. subst. reflexivity. Qed.

Lemma sname_beq_eq : forall a b, sname_beq a b = true -> a = b.
Proof. exact internal_sname_dec_bl. Qed.

(* ---------------------------------------------------------------- taking a step apart *)
Lemma sstep_enter_inv : forall t c s s', sstep t (LEnter c) s = Some s' -> nget t (s_at s) = None /\ step_enter t c s = Some s'.
Proof. intros t c s s' H. simpl in H. destruct (nget t (s_at s)); [discriminate|auto]. Qed.
Lemma sstep_sec_inv : forall t n s s', sstep t (LSec n) s = Some s' ->
  exists c, nget t (s_at s) = Some (c, Some n) /\ step_sec t c n s = Some s'.
Proof.
  intros t n s s' H. simpl in H. destruct (nget t (s_at s)) as [[c [n'|]]|]; try discriminate.
  destruct (sname_beq n n') eqn:E; [|discriminate]. apply sname_beq_eq in E. subst. exists c. auto.
Qed.

Ltac lockfacts :=
  repeat match goal with
  | H : holds _ _ = true |- _ => apply holds_eq in H
  | H : lock_free _ = true |- _ => apply lock_free_eq in H
  | H : fholds _ _ = true |- _ => apply fholds_eq in H
  | H : flock_free _ = true |- _ => apply flock_free_eq in H
  | H : sholds _ _ = true |- _ => apply sholds_eq in H
  | H : sys_free _ = true |- _ => apply sys_free_eq in H
  | H : owner_is _ _ = true |- _ => apply owner_is_eq in H
  end.

(* projections of the successor state: the setters are only ever unfolded under a projection *)
Ltac proj :=
  cbn [s_dirty s_tracking s_lock s_valid s_next_sp s_pins s_base s_tables s_next_page s_tracked s_at s_handles s_results
       s_flock s_syslock s_freed s_replaced s_try_merge s_try_esp
       set_at finish set_dirty set_tracking set_lock set_flock set_syslock set_tables set_freed set_replaced
       alloc_page set_savepoints mk] in *.

(* every way a call can be entered / a section can run, with the successor state as an explicit term *)
Ltac explode_enter H :=
  unfold step_enter in H;
  repeat (first [ progress unfold continue_op in H | progress cbv beta iota in H | bm H ]);
  lockfacts; injection H as H; subst.
Ltac explode_sec H :=
  unfold step_sec in H;
  repeat (first [ progress unfold sec_set_dirty, sec_savepoint, sec_drop, sec_op, sec_delete, sec_hold, continue_op in H
                 | progress cbv beta iota in H | bm H ]);
  lockfacts; injection H as H; subst.

(* ================================================================ savepoint / tracking consistency *)
Definition in_esp_locked (n : sname) : bool :=
  match n with NEspLocked | NRegisterRead | NAllocSavepoint => true | _ => false end.
Definition in_esp_critical (n : sname) : bool :=
  match n with NRegisterRead | NAllocSavepoint => true | _ => false end.
(* the calls that store the dirty flag: they hold the tables mutex from their first pause point on *)
Definition is_dirtying (c : scall) : bool := match c with SOpen _ | SDelete _ _ _ => true | _ => false end.
Definition after_store (n : sname) : bool :=
  match n with NSetDirtyStored | NAnySavepoint | NFreedPre | NMerge | NFreedLocked => true | _ => false end.

Record sinv (s : sst) : Prop := {
  j_dirty : s_tracking s = false -> s_dirty s = true;
  j_valid : s_tracking s = false -> s_valid s = [];
  j_esp : forall t h n, nget t (s_at s) = Some (SSavepoint h, Some n) ->
            (in_esp_locked n = true -> s_lock s = Some t) /\
            (in_esp_critical n = true -> s_dirty s = false);
  j_open : forall t c n, nget t (s_at s) = Some (c, Some n) -> is_dirtying c = true ->
            s_lock s = Some t /\ (after_store n = true -> s_dirty s = true)
}.

(* what a step of thread t may change, and what it owes for itself *)
Lemma sinv_update : forall s s' t,
  sinv s ->
  (forall t', t' <> t -> nget t' (s_at s') = nget t' (s_at s)) ->
  (s_lock s' = s_lock s \/ s_lock s = None \/ s_lock s = Some t) ->
  (s_dirty s' = s_dirty s \/ s_lock s = Some t) ->
  (s_tracking s' = false -> s_dirty s' = true) ->
  (s_tracking s' = false -> s_valid s' = []) ->
  (forall h n, nget t (s_at s') = Some (SSavepoint h, Some n) ->
     (in_esp_locked n = true -> s_lock s' = Some t) /\ (in_esp_critical n = true -> s_dirty s' = false)) ->
  (forall c n, nget t (s_at s') = Some (c, Some n) -> is_dirtying c = true ->
     s_lock s' = Some t /\ (after_store n = true -> s_dirty s' = true)) ->
  sinv s'.
Proof.
  intros s s' t J Hat Hl Hd H1 H2 He Ho. constructor; [exact H1|exact H2| |].
  - intros t' h n Hg. destruct (Nat.eq_dec t' t) as [->|Hne]; [apply (He h n); exact Hg|].
    rewrite (Hat t' Hne) in Hg. destruct (j_esp s J t' h n Hg) as [Ha Hb]. split.
    + intro Hn. specialize (Ha Hn). destruct Hl as [Hl|[Hl|Hl]]; congruence.
    + intro Hn. specialize (Hb Hn). assert (Hlk : s_lock s = Some t') by (apply Ha; destruct n; simpl in *; congruence).
      destruct Hd as [Hd|Hd]; congruence.
  - intros t' c n Hg Hc. destruct (Nat.eq_dec t' t) as [->|Hne]; [apply (Ho c n); assumption|].
    rewrite (Hat t' Hne) in Hg. destruct (j_open s J t' c n Hg Hc) as (Hb & Hc'). split.
    + destruct Hl as [Hl|[Hl|Hl]]; congruence.
    + intro Hn. specialize (Hc' Hn). destruct Hd as [Hd|Hd]; congruence.
Qed.

Ltac side J :=
  proj;
  first
  [ solve [intros ? Hne; first [rewrite at_other_fin by exact Hne | rewrite at_other_set by exact Hne]; reflexivity]
  | solve [intros ? ? Hself; first [rewrite at_self_fin in Hself | rewrite at_self_set in Hself]; discriminate]
  | solve [intros ? ? Hself ?; first [rewrite at_self_fin in Hself | rewrite at_self_set in Hself]; discriminate]
  | solve [intros ? ? Hself Hd; rewrite at_self_set in Hself; inv Hself; discriminate Hd]
  | solve [left; reflexivity]
  | solve [right; left; assumption]
  | solve [right; right; assumption]
  | solve [right; assumption]
  | solve [apply J]
  | solve [let Hx := fresh "Hx" in intro Hx; first [discriminate Hx | apply J; congruence]]
  | solve [auto]
  | idtac ].

Lemma sstep_sinv : forall t l s s', sinv s -> sstep t l s = Some s' -> sinv s'.
Proof.
  intros t l s s' J H. destruct l as [c|nm].
  - apply sstep_enter_inv in H. destruct H as [Hat H].
    explode_enter H. all: (apply (sinv_update s _ t J); side J).
    all: try (intros ? ? Hself Hd; rewrite at_self_set in Hself; inv Hself; simpl; split; [reflexivity|discriminate]).
    all: try (intros ? ? Hself; rewrite at_self_set in Hself; inv Hself; split; discriminate).
  - apply sstep_sec_inv in H. destruct H as (c & Hat & H).
    destruct c; simpl in H; try discriminate.
    + (* open_table *)
      destruct (j_open s J t _ _ Hat eq_refl) as (Qb & Qc).
      explode_sec H. all: (apply (sinv_update s _ t J); side J).
      all: try (intros ? ? Hself Hd; rewrite at_self_set in Hself; inv Hself; simpl; split; auto; discriminate).
      all: try (intro Ht; pose proof (j_valid s J Ht) as Hv; congruence).
    + (* ephemeral_savepoint *)
      destruct (j_esp s J t _ _ Hat) as (Pa & Pb).
      explode_sec H. all: (apply (sinv_update s _ t J); side J).
      all: try (intros ? ? Hself; rewrite at_self_set in Hself; inv Hself; simpl;
                repeat split; auto; try discriminate; try (intros; discriminate)).
      simpl. intro Ht. pose proof (j_dirty s J Ht) as Hd. rewrite (Pb eq_refl) in Hd. discriminate.
    + (* Savepoint::drop *)
      explode_sec H. all: (apply (sinv_update s _ t J); side J).
      simpl. intro Ht. rewrite (j_valid s J Ht). reflexivity.
    + (* freed_pages sections of a table operation *)
      explode_sec H. all: (apply (sinv_update s _ t J); side J).
    + (* non-dirtying holders *)
      explode_sec H. all: (apply (sinv_update s _ t J); side J).
    + (* delete_table *)
      destruct (j_open s J t _ _ Hat eq_refl) as (Qb & Qc).
      explode_sec H. all: (apply (sinv_update s _ t J); side J).
      all: try (intros ? ? Hself Hd; rewrite at_self_set in Hself; inv Hself; simpl; split; auto; try discriminate;
                intros; apply Qc; reflexivity).
      all: try (simpl; intro Ht; pose proof (j_valid s J Ht) as Hv; congruence).
Qed.

Lemma srun_sinv : forall log s s', sinv s -> srun log s = Some s' -> sinv s'.
Proof.
  induction log as [|[t l] log IH]; intros s s' J H; simpl in H; [inv H; exact J|].
  destruct (sstep t l s) as [s1|] eqn:E; [|discriminate]. eapply IH; [|exact H]. eapply sstep_sinv; eauto.
Qed.

Lemma sinit_cfg_sinv : forall a b pre tabs comm, sinv (sinit_cfg a b pre tabs comm).
Proof. intros. constructor; simpl; try discriminate. Qed.
Lemma sinit_full_sinv : forall pre tabs comm, sinv (sinit_full pre tabs comm).
Proof. intros. apply sinit_cfg_sinv. Qed.
Lemma sinit_tables_sinv : forall pre tabs, sinv (sinit_tables pre tabs).
Proof. intros. apply sinit_cfg_sinv. Qed.
Lemma sinit_sinv : forall pre, sinv (sinit pre).
Proof. intro. apply sinit_cfg_sinv. Qed.

(* savepoint_tracking_consistent: whatever the threads do and however their sections interleave, allocation
   tracking is never off while a savepoint is valid (so restoring one can always free this transaction's pages),
   and it is only ever switched off in a dirty transaction *)
Theorem savepoint_tracking_consistent_full : forall pre tabs comm log s,
  srun log (sinit_full pre tabs comm) = Some s -> s_tracking s = false -> s_valid s = [] /\ s_dirty s = true.
Proof.
  intros pre tabs comm log s H Ht. pose proof (srun_sinv log _ _ (sinit_full_sinv pre tabs comm) H) as J.
  split; [apply (j_valid s J Ht)|apply (j_dirty s J Ht)].
Qed.
Theorem savepoint_tracking_consistent : forall pre log s,
  srun log (sinit pre) = Some s -> s_tracking s = false -> s_valid s = [] /\ s_dirty s = true.
Proof. intros pre log s. apply savepoint_tracking_consistent_full. Qed.
Theorem savepoint_tracking_consistent_from : forall pre tabs log s,
  srun log (sinit_tables pre tabs) = Some s -> s_tracking s = false -> s_valid s = [] /\ s_dirty s = true.
Proof. intros pre tabs log s. apply savepoint_tracking_consistent_full. Qed.

(* the dirty check and the registration of ephemeral_savepoint() happen inside one critical section of the
   `tables` mutex: while a thread is between them, it holds the mutex and the transaction is not dirty *)
Theorem savepoint_registration_serialized : forall pre log s t h n,
  srun log (sinit pre) = Some s -> nget t (s_at s) = Some (SSavepoint h, Some n) -> in_esp_critical n = true ->
  s_lock s = Some t /\ s_dirty s = false.
Proof.
  intros pre log s t h n H Hat Hn. pose proof (srun_sinv log _ _ (sinit_sinv pre) H) as J.
  destruct (j_esp s J t h n Hat) as [Ha Hb]. split; [apply Ha; destruct n; simpl in *; congruence|apply Hb; exact Hn].
Qed.

(* ================================================================ savepoint eligibility = dirtiness *)
(* the dirty flag after a log: stored by the steps `LSec NSetDirty` (open_table / delete_table under the tables mutex) and by nothing else *)
Lemma sstep_dirty : forall t l s s', sstep t l s = Some s' -> s_dirty s' = s_dirty s || is_store l.
Proof.
  intros t l s s' H. destruct l as [c|nm].
  - apply sstep_enter_inv in H. destruct H as [_ H]. simpl. rewrite orb_false_r.
    explode_enter H; proj; reflexivity.
  - apply sstep_sec_inv in H. destruct H as (c & _ & H).
    destruct c; simpl in H; try discriminate; explode_sec H; proj; simpl; rewrite ?orb_false_r, ?orb_true_r; first [reflexivity|assumption|congruence].
Qed.

Lemma srun_dirty : forall log s s', srun log s = Some s' -> s_dirty s' = s_dirty s || dirtied log.
Proof.
  induction log as [|[t l] log IH]; intros s s' H; simpl in H.
  - inv H. simpl. rewrite orb_false_r. reflexivity.
  - destruct (sstep t l s) as [s1|] eqn:E; [|discriminate].
    rewrite (IH s1 s' H), (sstep_dirty t l s s1 E). unfold dirtied. simpl. rewrite orb_assoc. reflexivity.
Qed.

Lemma sstep_flags : forall t l s s', sstep t l s = Some s' -> s_try_merge s' = s_try_merge s /\ s_try_esp s' = s_try_esp s.
Proof.
  intros t l s s' H. destruct l as [c|nm].
  - apply sstep_enter_inv in H. destruct H as [_ H]. explode_enter H; proj; split; first [reflexivity|congruence].
  - apply sstep_sec_inv in H. destruct H as (c & _ & H).
    destruct c; simpl in H; try discriminate; explode_sec H; proj; split; first [reflexivity|congruence].
Qed.
Lemma srun_flags : forall log s s', srun log s = Some s' -> s_try_merge s' = s_try_merge s /\ s_try_esp s' = s_try_esp s.
Proof.
  induction log as [|[t l] log IH]; intros s s' H; simpl in H; [inv H; auto|].
  destruct (sstep t l s) as [s1|] eqn:E; [|discriminate].
  destruct (IH s1 s' H) as [A B]. destruct (sstep_flags t l s s1 E) as [C D]. split; congruence.
Qed.

(* savepoint_outcome_by_dirtiness: the step that runs the dirty check of a savepoint request (it starts at X.esp.locked,
   under the tables mutex) has an outcome that depends only on whether a store of the dirty flag precedes it in the log:
   if one does, the call returns InvalidSavepoint there and then; if none does, the request goes on to its registration
   (and, see savepoint_refusal_needs_store, can no longer be refused) *)
Theorem savepoint_outcome_by_dirtiness : forall pre tabs comm log s t s',
  srun log (sinit_full pre tabs comm) = Some s -> sstep t (LSec NEspLocked) s = Some s' ->
  exists h, nget t (s_at s) = Some (SSavepoint h, Some NEspLocked) /\
    if dirtied log
    then nget t (s_at s') = None /\ s_results s' = (t, SSavepoint h, SErrDirty) :: s_results s
    else nget t (s_at s') = Some (SSavepoint h, Some NRegisterRead) /\ s_results s' = s_results s.
Proof.
  intros pre tabs comm log s t s' Hr H.
  pose proof (srun_dirty log _ _ Hr) as Hd. simpl in Hd.
  apply sstep_sec_inv in H. destruct H as (c & Hat & H).
  destruct c; simpl in H; try discriminate.
  - exists h. split; [exact Hat|]. rewrite <- Hd. explode_sec H; proj.
    + split; [apply at_self_fin|reflexivity].
    + split; [apply at_self_set|reflexivity].
  - explode_sec H.
  - explode_sec H.
Qed.

(* a request is refused ONLY by its dirty check on a dirty transaction: no step of the code as it is (s_try_esp = false)
   adds an InvalidSavepoint result in a clean transaction -- in particular not the step that finds the tables mutex busy *)
Lemma sstep_refusal : forall t l s s' t' c, sstep t l s = Some s' -> s_try_esp s = false ->
  In (t', c, SErrDirty) (s_results s') -> In (t', c, SErrDirty) (s_results s) \/ (l = LSec NEspLocked /\ s_dirty s = true).
Proof.
  intros t l s s' t' c H Hf Hin. destruct l as [c0|nm].
  - apply sstep_enter_inv in H. destruct H as [_ H].
    explode_enter H; proj; try (left; exact Hin); destruct Hin as [Hin|Hin]; try discriminate Hin; left; exact Hin.
  - apply sstep_sec_inv in H. destruct H as (c0 & _ & H).
    destruct c0; simpl in H; try discriminate; explode_sec H; proj; try (left; exact Hin);
      try (destruct Hin as [Hin|Hin]; [try discriminate Hin|left; exact Hin]);
      try congruence; try (right; split; [reflexivity|first [assumption|reflexivity]]).
Qed.

Theorem savepoint_refusal_needs_store : forall pre tabs comm log s t c,
  srun log (sinit_full pre tabs comm) = Some s -> In (t, c, SErrDirty) (s_results s) -> dirtied log = true.
Proof.
  intros pre tabs comm log s t c Hr Hin.
  assert (G : forall log s0 s, srun log s0 = Some s -> s_try_esp s0 = false -> In (t, c, SErrDirty) (s_results s) ->
              In (t, c, SErrDirty) (s_results s0) \/ s_dirty s = true).
  { clear. induction log as [|[t0 l] log IH]; intros s0 s H Hf Hin; simpl in H; [inv H; auto|].
    destruct (sstep t0 l s0) as [s1|] eqn:E; [|discriminate].
    destruct (sstep_flags t0 l s0 s1 E) as [_ Hf1]. rewrite Hf in Hf1.
    destruct (IH s1 s H Hf1 Hin) as [Hin1|Hd]; [|right; exact Hd].
    destruct (sstep_refusal t0 l s0 s1 t c E Hf Hin1) as [Hin0|[_ Hd0]]; [left; exact Hin0|].
    right. rewrite (srun_dirty log s1 s H), (sstep_dirty t0 l s0 s1 E), Hd0. reflexivity. }
  destruct (G log _ s Hr eq_refl Hin) as [Hin0|Hd]; [simpl in Hin0; contradiction|].
  rewrite (srun_dirty log _ s Hr) in Hd. simpl in Hd. exact Hd.
Qed.

(* ================================================================ per-table independence *)
Lemma tget_tset : forall k k' v l, tget k (tset k' v l) = if N.eqb k k' then Some v else tget k l.
Proof.
  induction l as [|[k2 v2] l IH]; simpl.
  - destruct (N.eqb k k'); reflexivity.
  - destruct (N.eqb k' k2) eqn:E.
    + apply N.eqb_eq in E. subst. simpl. destruct (N.eqb k k2); reflexivity.
    + simpl. destruct (N.eqb k k2) eqn:E2.
      * apply N.eqb_eq in E2. subst. rewrite N.eqb_sym, E. reflexivity.
      * exact IH.
Qed.
Lemma tget_tset_same : forall k v l, tget k (tset k v l) = Some v.
Proof. intros. rewrite tget_tset, N.eqb_refl. reflexivity. Qed.
Lemma tget_tset_other : forall k k' v l, k <> k' -> tget k (tset k' v l) = tget k l.
Proof. intros. rewrite tget_tset. destruct (N.eqb k k') eqn:E; [apply N.eqb_eq in E; congruence|reflexivity]. Qed.

(* case analysis on every table lookup of the successor state *)
Ltac tcases :=
  repeat rewrite tget_tset;
  rewrite ?N.eqb_refl;
  repeat match goal with
  | |- context [N.eqb ?a ?b] =>
    let E := fresh "Eb" in destruct (N.eqb a b) eqn:E; [apply N.eqb_eq in E; subst|]
  end;
  repeat match goal with
  | Hx : tget ?a ?l = _ |- context [tget ?a ?l] => rewrite Hx
  end;
  simpl; try reflexivity; try congruence.

(* one step changes the contents of table tb exactly as tb's own operation says, and only then *)
Lemma sstep_table : forall t l s s' tb, sstep t l s = Some s' ->
  table_map s' tb = match l with LEnter c => apply_call tb (table_map s tb) c | LSec _ => table_map s tb end.
Proof.
  intros t l s s' tb H. destruct l as [c|nm].
  - apply sstep_enter_inv in H. destruct H as [_ H].
    explode_enter H; unfold table_map, apply_call; proj; tcases.
  - apply sstep_sec_inv in H. destruct H as (c & _ & H).
    destruct c; simpl in H; try discriminate; explode_sec H; unfold table_map; proj; tcases.
Qed.

Lemma srun_table : forall log s s' tb, srun log s = Some s' ->
  table_map s' tb = fold_left (apply_call tb) (own_stream tb log) (table_map s tb).
Proof.
  induction log as [|[t l] log IH]; intros s s' tb H; simpl in H; [inv H; reflexivity|].
  destruct (sstep t l s) as [s1|] eqn:E; [|discriminate].
  rewrite (IH s1 s' tb H). unfold own_stream. simpl. rewrite (sstep_table t l s s1 tb E).
  destruct l; simpl; reflexivity.
Qed.

(* per_table_independent: for every executable log (any interleaving of the threads' sections, with savepoint
   calls, non-dirtying holders, deletes of other tables in between) the contents of each table are exactly its own
   operations applied in order -- nothing another table's stream or a savepoint call does shows in it *)
Theorem per_table_independent_full : forall pre tabs comm log s tb,
  srun log (sinit_full pre tabs comm) = Some s ->
  table_map s tb = spec_table_from (table_map (sinit_full pre tabs comm) tb) tb log.
Proof. intros. unfold spec_table_from. apply (srun_table log _ _ tb H). Qed.
Theorem per_table_independent : forall pre log s tb,
  srun log (sinit pre) = Some s -> table_map s tb = spec_table tb log.
Proof. intros. unfold spec_table, spec_table_from. rewrite (srun_table log _ _ tb H). reflexivity. Qed.
Theorem per_table_independent_from : forall pre tabs log s tb,
  srun log (sinit_tables pre tabs) = Some s ->
  table_map s tb = spec_table_from (table_map (sinit_tables pre tabs) tb) tb log.
Proof. intros. unfold spec_table_from. apply (srun_table log _ _ tb H). Qed.

(* ================================================================ no page shared between tables *)
Lemma sstep_pages : forall t l s s', sstep t l s = Some s' ->
  (s_next_page s' = s_next_page s /\ forall tb, table_pages s' tb = table_pages s tb \/ table_pages s' tb = []) \/
  (exists tb0, s_next_page s' = s_next_page s + 1 /\ table_pages s' tb0 = s_next_page s :: table_pages s tb0 /\
               forall tb, tb <> tb0 -> table_pages s' tb = table_pages s tb).
Proof.
  intros t l s s' H.
  assert (K : forall tb0 : N,
    (s_next_page s' = s_next_page s /\ forall tb, table_pages s' tb = table_pages s tb \/ table_pages s' tb = []) \/
    (s_next_page s' = s_next_page s + 1 /\ table_pages s' tb0 = s_next_page s :: table_pages s tb0 /\
     forall tb, tb <> tb0 -> table_pages s' tb = table_pages s tb) ->
    (s_next_page s' = s_next_page s /\ forall tb, table_pages s' tb = table_pages s tb \/ table_pages s' tb = []) \/
    (exists tb0, s_next_page s' = s_next_page s + 1 /\ table_pages s' tb0 = s_next_page s :: table_pages s tb0 /\
                 forall tb, tb <> tb0 -> table_pages s' tb = table_pages s tb)).
  { intros tb0 [A|A]; [left; exact A|right; exists tb0; exact A]. }
  destruct l as [c|nm].
  - apply sstep_enter_inv in H. destruct H as [_ H].
    explode_enter H;
      match goal with
      | |- context [SPut ?x _ _] => apply (K x)
      | |- context [SOp ?x _ _] => apply (K x)
      | _ => apply (K 0)
      end; unfold table_pages; proj;
      first [ left; split; [reflexivity|]; intro tbx; tcases; auto; fail
            | right; split; [reflexivity|]; split; [tcases|intros tbx Hne; tcases] ].
  - apply sstep_sec_inv in H. destruct H as (c & _ & H). apply (K 0). left.
    destruct c; simpl in H; try discriminate; explode_sec H; unfold table_pages; proj; (split; [reflexivity|]); intro tbx; tcases; auto.
Qed.

Record pinv (s : sst) : Prop := {
  p_bound : forall tb p, In p (table_pages s tb) -> p < s_next_page s;
  p_nodup : forall tb, NoDup (table_pages s tb);
  p_disj : forall tb tb' p, tb <> tb' -> In p (table_pages s tb) -> ~ In p (table_pages s tb')
}.

Lemma sstep_pinv : forall t l s s', pinv s -> sstep t l s = Some s' -> pinv s'.
Proof.
  intros t l s s' P H.
  destruct (sstep_pages t l s s' H) as [[Hn Hp]|(tb0 & Hn & H0 & Hp)].
  - assert (Hin : forall tb p, In p (table_pages s' tb) -> In p (table_pages s tb)).
    { intros tb p Hi. destruct (Hp tb) as [E|E]; rewrite E in Hi; [exact Hi|contradiction]. }
    constructor.
    + intros tb p Hi. rewrite Hn. apply (p_bound s P tb p). auto.
    + intros tb. destruct (Hp tb) as [E|E]; rewrite E; [apply (p_nodup s P)|constructor].
    + intros tb tb2 p Hne Hi Hi2. apply (p_disj s P tb tb2 p Hne); auto.
  - constructor.
    + intros tb p Hi. rewrite Hn. destruct (N.eq_dec tb tb0) as [->|Hne].
      * rewrite H0 in Hi. destruct Hi as [<-|Hi]; [lia|]. pose proof (p_bound s P tb0 p Hi). lia.
      * rewrite (Hp tb Hne) in Hi. pose proof (p_bound s P tb p Hi). lia.
    + intros tb. destruct (N.eq_dec tb tb0) as [->|Hne].
      * rewrite H0. constructor; [|apply (p_nodup s P)]. intro Hi. pose proof (p_bound s P tb0 _ Hi). lia.
      * rewrite (Hp tb Hne). apply (p_nodup s P).
    + intros tb tb2 p Hne Hi Hi2.
      destruct (N.eq_dec tb tb0) as [->|N1]; destruct (N.eq_dec tb2 tb0) as [->|N2]; try congruence.
      * rewrite H0 in Hi. rewrite (Hp tb2 N2) in Hi2.
        destruct Hi as [<-|Hi]; [pose proof (p_bound s P tb2 _ Hi2); lia|]. apply (p_disj s P tb0 tb2 p Hne Hi Hi2).
      * rewrite H0 in Hi2. rewrite (Hp tb N1) in Hi.
        destruct Hi2 as [<-|Hi2]; [pose proof (p_bound s P tb _ Hi); lia|]. apply (p_disj s P tb tb0 p Hne Hi Hi2).
      * rewrite (Hp tb N1) in Hi. rewrite (Hp tb2 N2) in Hi2. apply (p_disj s P tb tb2 p Hne Hi Hi2).
Qed.

Lemma srun_pinv : forall log s s', pinv s -> srun log s = Some s' -> pinv s'.
Proof.
  induction log as [|[t l] log IH]; intros s s' P H; simpl in H; [inv H; exact P|].
  destruct (sstep t l s) as [s1|] eqn:E; [|discriminate]. eapply IH; [|exact H]. eapply sstep_pinv; eauto.
Qed.

Lemma tget_init_pages : forall tabs comm tb x, tget tb (init_tables tabs comm) = Some x -> tb_pages x = [].
Proof.
  intros tabs comm tb x. unfold init_tables.
  assert (A : forall l, (forall y, tget tb l = Some y -> tb_pages y = []) ->
              forall y, tget tb (fold_right (fun x acc => tset (fst x) (seed_table (snd x) (cget (fst x) comm)) acc) l tabs) = Some y -> tb_pages y = []).
  { induction tabs as [|a tabs IH]; intros l Hl y; simpl; [apply Hl|].
    rewrite tget_tset. destruct (N.eqb tb (fst a)); [intro E; inv E; reflexivity|apply IH; exact Hl]. }
  apply A. clear. induction comm as [|a comm IH]; intros y; simpl; [discriminate|].
  rewrite tget_tset. destruct (N.eqb tb (fst a)); [intro E; inv E; reflexivity|apply IH].
Qed.

(* no_shared_page: the allocator step is atomic, so whatever the interleaving no page belongs to two tables
   and no table holds a page twice *)
Theorem no_shared_page_full : forall pre tabs comm log s,
  srun log (sinit_full pre tabs comm) = Some s ->
  (forall tb, NoDup (table_pages s tb)) /\
  (forall tb tb' p, tb <> tb' -> In p (table_pages s tb) -> ~ In p (table_pages s tb')).
Proof.
  intros pre tabs comm log s H.
  assert (E : forall tb, table_pages (sinit_full pre tabs comm) tb = []).
  { intro tb. unfold table_pages. simpl. destruct (tget tb (init_tables tabs comm)) eqn:E; [|reflexivity].
    eapply tget_init_pages; eauto. }
  assert (P0 : pinv (sinit_full pre tabs comm)).
  { constructor; intros; rewrite ?E in *; try constructor; try contradiction. }
  pose proof (srun_pinv log _ _ P0 H) as P. split; [apply (p_nodup s P)|apply (p_disj s P)].
Qed.
Theorem no_shared_page : forall pre log s,
  srun log (sinit pre) = Some s ->
  (forall tb, NoDup (table_pages s tb)) /\
  (forall tb tb' p, tb <> tb' -> In p (table_pages s tb) -> ~ In p (table_pages s tb')).
Proof. intros pre log s. apply no_shared_page_full. Qed.

(* ================================================================ freed pages: nothing lost, nothing twice *)
Definition cnt (x : N) (l : list N) : nat := count_occ N.eq_dec l x.
Lemma cnt_app : forall x a b, cnt x (a ++ b) = (cnt x a + cnt x b)%nat.
Proof. intros; unfold cnt; apply count_occ_app. Qed.
Lemma cnt_nil : forall x, cnt x [] = 0%nat.
Proof. reflexivity. Qed.
Arguments cnt : simpl never.

Lemma pages_of_todo_app : forall a b, pages_of_todo (a ++ b) = pages_of_todo a ++ pages_of_todo b.
Proof. intros. unfold pages_of_todo. apply flat_map_app. Qed.

Lemma pending_tset_gen : forall k v old l x,
  (tget k l = Some old \/ (tget k l = None /\ pending_of (k, old) = [])) ->
  (cnt x (flat_map pending_of (tset k v l)) + cnt x (pending_of (k, old)) =
   cnt x (flat_map pending_of l) + cnt x (pending_of (k, v)))%nat.
Proof.
  induction l as [|[k2 v2] l IH]; simpl; intros x H.
  - destruct H as [H|[_ H]]; [discriminate|]. rewrite H, app_nil_r, !cnt_nil. lia.
  - destruct (N.eqb k k2) eqn:E.
    + destruct H as [H|[H _]]; [|discriminate]. inv H. simpl. rewrite !cnt_app. unfold pending_of. simpl. lia.
    + simpl. rewrite !cnt_app. specialize (IH x H). lia.
Qed.

Lemma in_tset : forall k v l k' x, In (k', x) (tset k v l) -> (k' = k /\ x = v) \/ In (k', x) l.
Proof.
  induction l as [|[k2 v2] l IH]; simpl; intros k' x H.
  - destruct H as [H|[]]. inv H. auto.
  - destruct (N.eqb k k2) eqn:E; simpl in H.
    + destruct H as [H|H]; [inv H; auto|auto].
    + destruct H as [H|H]; [auto|]. destruct (IH k' x H); auto.
Qed.
Lemma tset_in_self : forall k v l, In (k, v) (tset k v l).
Proof. induction l as [|[k2 v2] l IH]; simpl; [auto|]. destruct (N.eqb k k2); simpl; auto. Qed.
Lemma tset_keys : forall k v l k', In k' (map fst (tset k v l)) -> k' = k \/ In k' (map fst l).
Proof.
  intros k v l k' H. apply in_map_iff in H. destruct H as ([k2 x] & <- & H). simpl.
  destruct (in_tset k v l k2 x H) as [[-> _]|H']; [auto|]. right. apply in_map_iff. exists (k2, x). auto.
Qed.
Lemma tset_nodup : forall k v l, NoDup (map fst l) -> NoDup (map fst (tset k v l)).
Proof.
  induction l as [|[k2 v2] l IH]; simpl; intros H.
  - constructor; [intros []|constructor].
  - inv H. destruct (N.eqb k k2) eqn:E; simpl.
    + apply N.eqb_eq in E. subst. constructor; assumption.
    + constructor; [|auto]. intro Hin. destruct (tset_keys k v l k2 Hin) as [->|Hin']; [rewrite N.eqb_refl in E; discriminate|contradiction].
Qed.
Lemma tget_some_in : forall k l x, tget k l = Some x -> In (k, x) l.
Proof.
  induction l as [|[k2 v2] l IH]; simpl; intros x H; [discriminate|].
  destruct (N.eqb k k2) eqn:E; [apply N.eqb_eq in E; inv H; auto|auto].
Qed.
Lemma tget_in : forall k l x, NoDup (map fst l) -> In (k, x) l -> tget k l = Some x.
Proof.
  induction l as [|[k2 v2] l IH]; simpl; intros x Hn H; [contradiction|]. inv Hn.
  destruct H as [H|H].
  - inv H. rewrite N.eqb_refl. reflexivity.
  - destruct (N.eqb k k2) eqn:E; [|auto]. apply N.eqb_eq in E. subst. exfalso. apply H2. apply in_map_iff. exists (k2, x). auto.
Qed.

Definition works_on (c : scall) (k : N) : Prop :=
  match c with SOp tb _ _ => tb = k | SDelete tb _ _ => tb = k | _ => False end.

Record finv (s : sst) : Prop := {
  f_flag : s_try_merge s = false;
  f_keys : NoDup (map fst (s_tables s));
  f_local : forall k x, In (k, x) (s_tables s) -> tb_local x = [];
  f_idle : forall k x, In (k, x) (s_tables s) -> tb_todo x <> [] -> exists t c n, nget t (s_at s) = Some (c, n) /\ works_on c k;
  f_perm : forall p, (cnt p (s_freed s) + cnt p (pending s) = cnt p (s_replaced s))%nat
}.

(* a step of thread t that rewrites the entry of table k *)
Lemma finv_update1 : forall s s' t k v old,
  finv s ->
  s_try_merge s' = s_try_merge s ->
  s_tables s' = tset k v (s_tables s) ->
  (tget k (s_tables s) = Some old \/ (tget k (s_tables s) = None /\ old = empty_table)) ->
  tb_local v = [] ->
  (tb_todo v <> [] -> (exists c n, nget t (s_at s') = Some (c, n) /\ works_on c k) \/ tb_todo v = tb_todo old) ->
  (forall t', t' <> t -> nget t' (s_at s') = nget t' (s_at s)) ->
  (forall c n, nget t (s_at s) = Some (c, n) ->
     (exists n', nget t (s_at s') = Some (c, n')) \/ (forall k', works_on c k' -> k' = k /\ tb_todo v = [])) ->
  (forall p, (cnt p (s_freed s') + cnt p (pending_of (k, v)) + cnt p (s_replaced s) =
              cnt p (s_freed s) + cnt p (pending_of (k, old)) + cnt p (s_replaced s'))%nat) ->
  finv s'.
Proof.
  intros s s' t k v old F Hf Ht Ho Hl Hw Hat Hc Hp.
  assert (Hold : forall x, In (k, x) (s_tables s) -> x = old).
  { intros x Hi. destruct Ho as [Ho|[Ho _]]; rewrite (tget_in k _ x (f_keys s F) Hi) in Ho; congruence. }
  constructor.
  - rewrite Hf. apply F.
  - rewrite Ht. apply tset_nodup. apply F.
  - intros k' x Hi. rewrite Ht in Hi. destruct (in_tset _ _ _ _ _ Hi) as [[-> ->]|Hi']; [exact Hl|apply (f_local s F k' x Hi')].
  - intros k' x Hi Hne. rewrite Ht in Hi.
    (* a witness of the old state survives unless it is t and t's call has ended *)
    assert (Hkeep : forall k2 x2, In (k2, x2) (s_tables s) -> tb_todo x2 <> [] -> (k2 = k -> tb_todo v <> []) ->
                    exists t0 c n, nget t0 (s_at s') = Some (c, n) /\ works_on c k2).
    { intros k2 x2 Hi2 Hne2 Hk. destruct (f_idle s F k2 x2 Hi2 Hne2) as (t0 & c & n & Hg & Hwo).
      destruct (Nat.eq_dec t0 t) as [->|Hd].
      - destruct (Hc c n Hg) as [[n' Hg']|Hend]; [exists t, c, n'; auto|].
        destruct (Hend k2 Hwo) as [-> Hv]. exfalso. apply (Hk eq_refl). exact Hv.
      - exists t0, c, n. rewrite (Hat t0 Hd). auto. }
    destruct (N.eq_dec k' k) as [->|Hk].
    + (* the rewritten entry (the only one with key k) *)
      assert (Hx : x = v).
      { assert (Hn : NoDup (map fst (tset k v (s_tables s)))) by (apply tset_nodup; apply F).
        pose proof (tget_in k _ x Hn Hi) as G1. rewrite tget_tset_same in G1. congruence. }
      subst x.
      destruct (Hw Hne) as [(c & n & Hg & Hwo)|He]; [exists t, c, n; auto|].
      destruct Ho as [Ho|[_ ->]]; [|rewrite He in Hne; simpl in Hne; congruence].
      apply (Hkeep k old (tget_some_in _ _ _ Ho)); [rewrite <- He; exact Hne|intros _; exact Hne].
    + destruct (in_tset _ _ _ _ _ Hi) as [[-> _]|Hi']; [congruence|].
      apply (Hkeep k' x Hi' Hne). intros ->. congruence.
  - intros p. unfold pending. rewrite Ht.
    assert (Hg : tget k (s_tables s) = Some old \/ tget k (s_tables s) = None /\ pending_of (k, old) = []).
    { destruct Ho as [Ho|[Ho ->]]; [left; exact Ho|right; split; [exact Ho|reflexivity]]. }
    pose proof (pending_tset_gen k v old (s_tables s) p Hg) as G. pose proof (f_perm s F p) as G0. unfold pending in G0.
    specialize (Hp p). lia.
Qed.

(* a step of thread t that leaves the tables alone *)
Lemma finv_update0 : forall s s' t,
  finv s -> s_try_merge s' = s_try_merge s -> s_tables s' = s_tables s -> s_freed s' = s_freed s -> s_replaced s' = s_replaced s ->
  (forall t', t' <> t -> nget t' (s_at s') = nget t' (s_at s)) ->
  (forall c n, nget t (s_at s) = Some (c, n) -> (exists n', nget t (s_at s') = Some (c, n')) \/ (forall k', ~ works_on c k')) ->
  finv s'.
Proof.
  intros s s' t F Hf Ht Hfr Hr Hat Hc. constructor.
  - rewrite Hf. apply F.
  - rewrite Ht. apply F.
  - rewrite Ht. apply F.
  - rewrite Ht. intros k x Hi Hne. destruct (f_idle s F k x Hi Hne) as (t0 & c & n & Hg & Hwo).
    destruct (Nat.eq_dec t0 t) as [->|Hd].
    + destruct (Hc c n Hg) as [[n' Hg']|Hend]; [exists t, c, n'; auto|]. exfalso. apply (Hend k Hwo).
    + exists t0, c, n. rewrite (Hat t0 Hd). auto.
  - intro p. unfold pending. rewrite Hfr, Ht, Hr. apply (f_perm s F).
Qed.

Ltac at_frame :=
  first [ solve [intros ? Hne; proj; first [rewrite at_other_fin by exact Hne | rewrite at_other_set by exact Hne]; reflexivity]
        | solve [intros; proj; reflexivity] ].
(* the call in progress goes on (left) or, when it ends, was not working on a table / leaves its table without sections *)
Ltac at_cont Hat :=
  let c := fresh "c" in let n := fresh "n" in let Hg := fresh "Hg" in
  intros c n Hg; proj; rewrite Hat in Hg;
  first [ discriminate Hg
        | injection Hg as <- <-;
          first [ solve [left; eexists; proj; apply at_self_set]
                | solve [right; simpl; intros ? []]
                | solve [right; simpl; intros ? <-; split; reflexivity] ] ].
Ltac cnt_solve :=
  let p := fresh "p" in
  intro p; proj; unfold pending_of, with_free, with_owner, with_map, with_pages; simpl;
  repeat match goal with
  | E : ?a ++ ?b = ?c |- _ =>
    let E' := fresh "Ec" in
    pose proof (f_equal (fun x => cnt p (pages_of_todo x)) E) as E'; cbv beta in E';
    rewrite pages_of_todo_app, cnt_app in E'; clear E
  end;
  repeat match goal with E : tb_todo ?x = _ |- _ => rewrite E in * end;
  repeat match goal with E : tb_local ?x = _ |- _ => rewrite E in * end;
  unfold pages_of_todo in *; simpl in *; rewrite ?flat_map_app in *; rewrite ?cnt_app in *; simpl in *;
  rewrite ?cnt_app, ?cnt_nil in *; lia.

Ltac fin_close Hat :=
  match goal with
  | |- _ \/ (_ /\ _ = empty_table) => first [left; assumption | right; split; [assumption|reflexivity]]
  | |- tb_local _ = [] => simpl; first [reflexivity | eauto]
  | |- tb_todo _ <> [] -> _ =>
    simpl; first [ solve [intros _; right; reflexivity]
                 | solve [let Hne := fresh "Hne" in intro Hne; exfalso; apply Hne; first [reflexivity|assumption]]
                 | solve [intros _; left; do 2 eexists; split; [proj; apply at_self_set|reflexivity]] ]
  | |- forall t', t' <> _ -> _ => at_frame
  | |- forall c n, nget _ _ = Some (c, n) -> _ => at_cont Hat
  | |- forall p, (_ = _)%nat => cnt_solve
  | |- _ = _ => proj; reflexivity
  end.

Lemma sstep_finv : forall t l s s', finv s -> sstep t l s = Some s' -> finv s'.
Proof.
  intros t l s s' F H.
  assert (Floc : forall k x, tget k (s_tables s) = Some x -> tb_local x = []).
  { intros k x Hx. apply (f_local s F k x). apply tget_some_in. exact Hx. }
  destruct l as [c|nm].
  - apply sstep_enter_inv in H. destruct H as [Hat H].
    destruct c; simpl in H.
    + (* open_table *)
      explode_enter H.
      * apply (finv_update0 s _ t F); fin_close Hat.
      * apply (finv_update1 s _ t tb (with_owner t0 (Some t)) t0 F); fin_close Hat.
      * apply (finv_update1 s _ t tb (with_owner empty_table (Some t)) empty_table F); fin_close Hat.
    + (* insert / remove without page effects *)
      explode_enter H. eapply (finv_update1 s _ t tb _ t0 F); fin_close Hat.
    + explode_enter H. eapply (finv_update1 s _ t tb _ t0 F); fin_close Hat.
    + (* close *)
      explode_enter H. match goal with Ex : tget _ _ = Some _ |- _ => pose proof (Floc _ _ Ex) as Hloc end. eapply (finv_update1 s _ t tb _ t0 F); fin_close Hat.
    + explode_enter H. apply (finv_update0 s _ t F); fin_close Hat.
    + explode_enter H. apply (finv_update0 s _ t F); fin_close Hat.
    + (* a table operation with freed_pages sections *)
      explode_enter H.
      all: try match goal with Ex : tget _ _ = Some _ |- _ => pose proof (Floc _ _ Ex) as Hloc end.
      all: eapply (finv_update1 s _ t tb _ t0 F); fin_close Hat.
    + explode_enter H; apply (finv_update0 s _ t F); fin_close Hat.
    + (* delete_table: the catalog's entry, then the table's *)
      explode_enter H.
      all: match goal with Ex : N.eqb _ _ = false |- _ => apply N.eqb_neq in Ex end.
      all: match goal with Em : tget master _ = Some ?mt, Et : tget ?tbx _ = Some ?tt |- _ =>
             lazymatch tbx with master => fail | _ => idtac end;
             assert (F1 : finv (set_tables s (tset master (with_free mt (skipn (N.to_nat rm) (tb_committed mt)) (tb_local mt) (tb_todo mt)) (s_tables s))));
             [ eapply (finv_update1 s _ t master _ mt F); proj; try reflexivity;
               [left; assumption | simpl; eauto | simpl; auto | intros c0 n0 Hg; left; exists n0; exact Hg]
             | assert (G : tget tbx (tset master (with_free mt (skipn (N.to_nat rm) (tb_committed mt)) (tb_local mt) (tb_todo mt)) (s_tables s)) = Some tt)
                 by (rewrite tget_tset_other by assumption; assumption);
               pose proof (Floc _ _ Et) as Hloc;
               eapply (finv_update1 _ _ t tbx _ tt F1); fin_close Hat ]
           end.
  - apply sstep_sec_inv in H. destruct H as (c & Hat & H).
    destruct c; simpl in H; try discriminate.
    + explode_sec H; apply (finv_update0 s _ t F); fin_close Hat.
    + explode_sec H; apply (finv_update0 s _ t F); fin_close Hat.
    + explode_sec H; apply (finv_update0 s _ t F); fin_close Hat.
    + (* the sections of a table operation *)
      pose proof (f_flag s F) as Hfl.
      explode_sec H; try congruence.
      all: try match goal with Ex : tget _ _ = Some _ |- _ => pose proof (Floc _ _ Ex) as Hloc end.
      all: first [ apply (finv_update0 s _ t F); fin_close Hat; fail
                 | eapply (finv_update1 s _ t tb _ t0 F); fin_close Hat ].
    + explode_sec H; apply (finv_update0 s _ t F); fin_close Hat.
    + (* delete_table *)
      explode_sec H.
      all: try match goal with Ex : tget _ _ = Some _ |- _ => pose proof (Floc _ _ Ex) as Hloc end.
      all: first [ apply (finv_update0 s _ t F); fin_close Hat; fail
                 | eapply (finv_update1 s _ t tb _ t0 F); fin_close Hat ].
Qed.

Lemma srun_finv : forall log s s', finv s -> srun log s = Some s' -> finv s'.
Proof.
  induction log as [|[t l] log IH]; intros s s' F H; simpl in H; [inv H; exact F|].
  destruct (sstep t l s) as [s1|] eqn:E; [|discriminate]. eapply IH; [|exact H]. eapply sstep_finv; eauto.
Qed.

Definition tables_ok (l : list (N * table)) : Prop :=
  NoDup (map fst l) /\ forall k x, In (k, x) l -> tb_local x = [] /\ tb_todo x = [].
Lemma fold_tset_ok : forall A (f : A -> N) (g : A -> table) l0,
  (forall a, tb_local (g a) = [] /\ tb_todo (g a) = []) -> tables_ok l0 ->
  forall l, tables_ok (fold_right (fun x acc => tset (f x) (g x) acc) l0 l).
Proof.
  intros A f g l0 Hg H0. induction l as [|a l IH]; simpl; [exact H0|]. destruct IH as [I1 I2]. split.
  - apply tset_nodup. exact I1.
  - intros k x Hi. destruct (in_tset _ _ _ _ _ Hi) as [[_ ->]|Hi']; [apply Hg|eauto].
Qed.
Lemma init_tables_ok : forall tabs comm, tables_ok (init_tables tabs comm).
Proof.
  intros tabs comm. unfold init_tables.
  apply (fold_tset_ok _ (fun x => fst x) (fun x => seed_table (snd x) (cget (fst x) comm))); [intros; split; reflexivity|].
  apply (fold_tset_ok _ (fun y => fst y) (fun y => seed_table [] (snd y))); [intros; split; reflexivity|].
  split; [constructor|intros k x []].
Qed.

Lemma flat_map_nil : forall A B (f : A -> list B) l, (forall x, In x l -> f x = []) -> flat_map f l = [].
Proof. induction l as [|a l IH]; simpl; intros H; [reflexivity|]. rewrite (H a (or_introl eq_refl)), IH; auto. Qed.

Lemma sinit_full_finv : forall pre tabs comm, finv (sinit_full pre tabs comm).
Proof.
  intros pre tabs comm. destruct (init_tables_ok tabs comm) as [K1 K2]. constructor; simpl.
  - reflexivity.
  - exact K1.
  - intros k x Hi. apply (K2 k x Hi).
  - intros k x Hi Hne. destruct (K2 k x Hi) as [_ E]. congruence.
  - intro p. unfold pending. simpl. rewrite flat_map_nil; [reflexivity|].
    intros [k x] Hi. unfold pending_of. simpl. destruct (K2 k x Hi) as [-> ->]. reflexivity.
Qed.

(* when no call is in progress nothing is pending: every replaced page is in the transaction-wide list *)
Lemma idle_pending : forall s, finv s -> s_at s = [] -> pending s = [].
Proof.
  intros s F Hat. unfold pending. apply flat_map_nil. intros [k x] Hi. unfold pending_of. simpl.
  rewrite (f_local s F k x Hi). destruct (tb_todo x) eqn:E; [reflexivity|].
  destruct (f_idle s F k x Hi) as (t & c & n & Hg & _); [rewrite E; discriminate|]. rewrite Hat in Hg. discriminate.
Qed.

(* ---------------------------------------------------------------- what the log says was replaced *)
Lemma firstn_add : forall A a b (l : list A), firstn (a + b) l = firstn a l ++ firstn b (skipn a l).
Proof. induction a as [|a IH]; intros b l; simpl; [reflexivity|]. destruct l; simpl; [destruct b; reflexivity|]. rewrite IH. reflexivity. Qed.
Lemma skipn_add : forall A a b (l : list A), skipn (a + b) l = skipn b (skipn a l).
Proof. induction a as [|a IH]; intros b l; simpl; [reflexivity|]. destruct l; simpl; [destruct b; reflexivity|]. apply IH. Qed.

Lemma take_secs_spec : forall secs comm todo comm', take_secs secs comm = (todo, comm') ->
  pages_of_todo todo = firstn (sum_secs secs) comm /\ comm' = skipn (sum_secs secs) comm.
Proof.
  induction secs as [|[m n] secs IH]; intros comm todo comm' H; simpl in H.
  - inv H. split; reflexivity.
  - destruct (take_secs secs (skipn (N.to_nat n) comm)) as [rest c2] eqn:E. inv H.
    destruct (IH _ _ _ E) as [I1 I2]. simpl. rewrite firstn_add, skipn_add. unfold pages_of_todo in *. simpl. rewrite I1. split; [reflexivity|exact I2].
Qed.

Definition repl_step (comm : N -> list N) (l : slabel) : list N :=
  match l with
  | LEnter (SOp tb _ secs) => firstn (sum_secs secs) (comm tb)
  | LEnter (SDelete tb rm b) => firstn (N.to_nat rm) (comm master) ++ firstn (N.to_nat b) (comm tb)
  | _ => []
  end.
Definition comm_step (comm : N -> list N) (l : slabel) : N -> list N :=
  match l with
  | LEnter (SOp tb _ secs) => fun x => if N.eqb x tb then skipn (sum_secs secs) (comm tb) else comm x
  | LEnter (SDelete tb rm b) =>
    fun x => if N.eqb x tb then skipn (N.to_nat b) (comm tb) else if N.eqb x master then skipn (N.to_nat rm) (comm master) else comm x
  | _ => comm
  end.
Lemma repl_log_cons : forall comm t l r, repl_log comm ((t, l) :: r) = repl_step comm l ++ repl_log (comm_step comm l) r.
Proof. intros comm t l r. destruct l as [c|n]; [destruct c|]; simpl; rewrite <- ?app_assoc; reflexivity. Qed.
Lemma repl_log_ext : forall log c1 c2, (forall x, c1 x = c2 x) -> repl_log c1 log = repl_log c2 log.
Proof.
  induction log as [|[t l] log IH]; intros c1 c2 H; [reflexivity|].
  rewrite !repl_log_cons. f_equal.
  - destruct l as [c|n]; [destruct c|]; simpl; rewrite ?H; reflexivity.
  - apply IH. intro x. destruct l as [c|n]; [destruct c|]; simpl; rewrite ?H; try reflexivity.
Qed.

Lemma sstep_replaced : forall t l s s', sstep t l s = Some s' ->
  s_replaced s' = s_replaced s ++ repl_step (table_committed s) l /\
  forall x, table_committed s' x = comm_step (table_committed s) l x.
Proof.
  intros t l s s' H. destruct l as [c|nm].
  - apply sstep_enter_inv in H. destruct H as [_ H].
    destruct c; simpl in H.
    1-6,8: explode_enter H; unfold table_committed; proj; simpl; rewrite ?app_nil_r; (split; [reflexivity|]); intro x; tcases.
    + (* a table operation *)
      explode_enter H.
      all: match goal with Ex : take_secs _ _ = _ |- _ => destruct (take_secs_spec _ _ _ _ Ex) as [T1 T2] end.
      all: unfold table_committed; proj; simpl.
      all: match goal with Ex : tget _ _ = Some _ |- _ => rewrite Ex end.
      all: rewrite T1; (split; [reflexivity|]); intro x; rewrite ?tget_tset; destruct (N.eqb x tb) eqn:Eb;
        [apply N.eqb_eq in Eb; subst x; simpl; exact T2|reflexivity].
    + (* delete_table *)
      explode_enter H.
      all: match goal with Ex : N.eqb _ _ = false |- _ => pose proof Ex as Hne; apply N.eqb_neq in Hne end.
      all: unfold table_committed; proj; simpl.
      all: repeat match goal with Ex : tget _ _ = Some _ |- _ => rewrite Ex end.
      all: unfold pages_of_todo; simpl; rewrite ?app_nil_r.
      all: try match goal with Ex : firstn _ _ = _ |- _ => rewrite Ex end.
      all: (split; [reflexivity|]); intro x; rewrite ?tget_tset; destruct (N.eqb x tb) eqn:Eb; [reflexivity|];
        destruct (N.eqb x master) eqn:Em; reflexivity.
  - apply sstep_sec_inv in H. destruct H as (c & _ & H). simpl. rewrite app_nil_r.
    destruct c; simpl in H; try discriminate; explode_sec H; unfold table_committed; proj; (split; [reflexivity|]); intro x; tcases.
Qed.

Lemma srun_replaced : forall log s s', srun log s = Some s' ->
  s_replaced s' = s_replaced s ++ repl_log (table_committed s) log.
Proof.
  induction log as [|[t l] log IH]; intros s s' H; simpl in H.
  - inv H. simpl. rewrite app_nil_r. reflexivity.
  - destruct (sstep t l s) as [s1|] eqn:E; [|discriminate].
    destruct (sstep_replaced t l s s1 E) as [R1 R2].
    rewrite (IH s1 s' H), R1, repl_log_cons, <- app_assoc. f_equal. f_equal. apply repl_log_ext. exact R2.
Qed.

(* freed_pages_exact: for every executable log of the code as it is, at every moment the replaced pages are exactly the
   transaction-wide list plus what operations in progress still hold, as multisets; and when every call has returned
   (the state the commit finds) the transaction-wide list IS, as a multiset, what the table operations of the log replaced:
   nothing lost, nothing twice *)
Theorem freed_pages_accounted : forall pre tabs comm log s,
  srun log (sinit_full pre tabs comm) = Some s ->
  Permutation (s_freed s ++ pending s) (repl_log (table_committed (sinit_full pre tabs comm)) log).
Proof.
  intros pre tabs comm log s H.
  pose proof (srun_finv log _ _ (sinit_full_finv pre tabs comm) H) as F.
  pose proof (srun_replaced log _ _ H) as R. simpl in R.
  apply (Permutation_count_occ N.eq_dec). intro p. fold (cnt p (s_freed s ++ pending s)).
  rewrite cnt_app, (f_perm s F p), R. reflexivity.
Qed.

Theorem freed_pages_exact : forall pre tabs comm log s,
  srun log (sinit_full pre tabs comm) = Some s -> s_at s = [] ->
  Permutation (s_freed s) (repl_log (table_committed (sinit_full pre tabs comm)) log).
Proof.
  intros pre tabs comm log s H Hat.
  pose proof (freed_pages_accounted pre tabs comm log s H) as P.
  rewrite (idle_pending s (srun_finv log _ _ (sinit_full_finv pre tabs comm) H) Hat), app_nil_r in P. exact P.
Qed.

(* ================================================================ blocked steps *)
(* a step that `sblocked` calls blocked has no successor: the thread sleeps on the mutex, nothing changes *)
Lemma sblocked_sound : forall t l s, sblocked t l s = true -> sstep t l s = None.
Proof.
  intros t l s H. unfold sblocked in H. unfold sstep.
  destruct l as [c|n].
  - destruct (nget t (s_at s)); [reflexivity|].
    destruct c; try discriminate; simpl; simpl in H.
    + apply negb_true_iff in H. rewrite H. reflexivity.
    + apply negb_true_iff in H. rewrite H. reflexivity.
    + destruct (N.leb k 1); apply negb_true_iff in H; rewrite H; reflexivity.
    + apply negb_true_iff in H. rewrite H. reflexivity.
  - destruct (nget t (s_at s)) as [[c [n'|]]|]; try discriminate.
    destruct (sname_beq n n') eqn:E; [|reflexivity]. apply sname_beq_eq in E. subst n'.
    destruct c; try discriminate; destruct n; try discriminate; simpl; simpl in H.
    + apply andb_true_iff in H. destruct H as [H1 H2]. apply negb_true_iff in H1, H2. rewrite H1, H2. reflexivity.
    + apply negb_true_iff in H. rewrite H. reflexivity.
    + unfold sec_op. destruct (tget tb (s_tables s)); [|reflexivity].
      apply andb_true_iff in H. destruct H as [H1 H2]. apply negb_true_iff in H1, H2.
      destruct (tb_todo t0) as [|[[] ?] ?]; try reflexivity.
      unfold flock_free in H1. destruct (s_flock s); [|discriminate]. rewrite H2. reflexivity.
    + unfold sec_op. destruct (tget tb (s_tables s)); [|reflexivity]. apply negb_true_iff in H.
      destruct (tb_todo t0) as [|[[] ?] ?]; try reflexivity. rewrite H. reflexivity.
    + apply andb_true_iff in H. destruct H as [H1 H2]. apply negb_true_iff in H1, H2.
      unfold sec_hold. destruct (holds s t); [|reflexivity]. rewrite H1, H2. reflexivity.
    + unfold sec_delete. destruct (holds s t); [|reflexivity]. destruct (tget tb (s_tables s)); [|reflexivity].
      apply negb_true_iff in H. destruct (tb_todo t0) as [|[[] ?] ?]; try reflexivity. rewrite H. reflexivity.
    + unfold sec_delete. destruct (holds s t); [|reflexivity]. destruct (tget tb (s_tables s)); [|discriminate].
      destruct (tb_todo t0) as [|[[] ?] ?]; try discriminate; try reflexivity. apply negb_true_iff in H. rewrite H. reflexivity.
Qed.
