(* Conc/Programs.v -- the API calls of redb written as sequences of their lock-protected sections
   (definitions only; proofs in ProgramsP.v).

   Step names are the H4 pause points of /repo (src/verif_pause.rs):  T.* = a section under the
   transaction tracker's mutex, M.* = under the in-memory header state mutex, U.* = under the
   unpersisted-state mutex, X.* / io.sync = markers between sections.  A step stands for the code from
   that pause point to the next one.  The harness checks, for every call it makes, that the real crate
   emits exactly the names listed in [steps_of] (plus continuations), in this order.

   Shared state: the tracker (write slot, id counter, live-read multiset, savepoints, pending
   non-durable commits, deferred close), the published header (latest txid, payload, durability), the
   keys of the pending-free records with the reclaim high-water marks, and the handles that exist.
   Ownership facts that Rust's type system enforces (a call on a handle needs the handle; calls of
   one handle happen in program order) appear as guards: a step whose guard fails is blocked.

   begin_read is the retry loop introduced by the fix of finding F1 (redb commit 2256ac3).

   Idealisation (trusted, see design.d/C03.md): every mutex-protected section is one atomic step,
   memory is sequentially consistent, the nested read of the header inside T.register_read is part
   of that section, and page contents are abstracted to a payload tag per committed version. *)
From Coq Require Import List NArith Bool String.
From RV Require Import Conc.Sched.
Import ListNotations.
Open Scope N_scope.

(* ---------------------------------------------------------------- small containers over N *)
Fixpoint aget {A} (k : N) (l : list (N * A)) : option A :=
  match l with
  | [] => None
  | (k', v) :: r => if N.eqb k k' then Some v else aget k r
  end.
Fixpoint adel {A} (k : N) (l : list (N * A)) : list (N * A) :=
  match l with
  | [] => []
  | (k', v) :: r => if N.eqb k k' then adel k r else (k', v) :: adel k r
  end.
Definition aset {A} (k : N) (v : A) (l : list (N * A)) : list (N * A) := (k, v) :: adel k l.
Fixpoint remove_one (x : N) (l : list N) : list N :=
  match l with
  | [] => []
  | y :: r => if N.eqb x y then r else y :: remove_one x r
  end.
Fixpoint lmin (l : list N) : option N :=
  match l with
  | [] => None
  | x :: r => match lmin r with None => Some x | Some m => Some (N.min x m) end
  end.
Definition omin (a : option N) (b : N) : N := match a with None => b | Some x => N.min x b end.
Fixpoint lmax (d : N) (l : list N) : N :=
  match l with [] => d | x :: r => N.max x (lmax d r) end.

(* ---------------------------------------------------------------- state *)
(* registered id; (txid, payload) of the root read; ghost: how many publications had happened when it was read *)
Record rstate := { r_reg : N; r_root : option (N * N); r_pubs : nat }.
Record sstate := { s_id : N; s_txn : N }.                     (* savepoint id, pinned transaction *)
Record wstate := {
  w_id : N;
  w_root : N * N;              (* (txid, payload) this transaction started from *)
  w_src : N;                   (* transaction that wrote the data pages this transaction started from *)
  w_tag : option N;            (* payload written by Put; None = no table touched *)
  w_horizon : N;               (* free_until register *)
  w_sp_horizon : option N;     (* oldest savepoint kept by the purge *)
  w_phase : N;
  w_closing : bool             (* the close commit of a dropped Database *)
}.

Record st := {
  (* tracker *)
  live_write : option N;
  next_id : N;
  live_reads : list N;
  savepoints : list (N * N);
  next_sp : N;
  pending_nd : list (N * N);
  deferred_close : bool;
  (* header state *)
  latest : N * N;
  latest_src : N;
  latest_durable : bool;
  durable_id : N;
  db_dropped : bool;
  closed : bool;
  (* pending-free records: (transaction that freed the pages, transaction that had written them) *)
  entries : list (N * N);
  released : N;                (* highest record key released by a durable reclaim *)
  nd_released : N;             (* highest record key whose unpersisted pages a non-durable commit reclaimed *)
  (* ghost *)
  hist : list (N * N);         (* publications, newest first *)
  next_tag : N;
  (* handles *)
  writers : list (N * wstate); (* key = thread index *)
  readers : list (N * rstate);
  sps : list (N * sstate)
}.

Definition set_tracker (s : st) lw ni lr sp nsp pnd dc : st :=
  {| live_write := lw; next_id := ni; live_reads := lr; savepoints := sp; next_sp := nsp; pending_nd := pnd;
     deferred_close := dc; latest := latest s; latest_src := latest_src s; latest_durable := latest_durable s;
     durable_id := durable_id s; db_dropped := db_dropped s; closed := closed s; entries := entries s;
     released := released s; nd_released := nd_released s; hist := hist s; next_tag := next_tag s;
     writers := writers s; readers := readers s; sps := sps s |}.
Definition set_live_reads (s : st) lr : st :=
  set_tracker s (live_write s) (next_id s) lr (savepoints s) (next_sp s) (pending_nd s) (deferred_close s).
Definition set_writers (s : st) ws : st :=
  {| live_write := live_write s; next_id := next_id s; live_reads := live_reads s; savepoints := savepoints s;
     next_sp := next_sp s; pending_nd := pending_nd s; deferred_close := deferred_close s; latest := latest s;
     latest_src := latest_src s; latest_durable := latest_durable s; durable_id := durable_id s;
     db_dropped := db_dropped s; closed := closed s; entries := entries s; released := released s;
     nd_released := nd_released s; hist := hist s; next_tag := next_tag s; writers := ws; readers := readers s;
     sps := sps s |}.
Definition set_readers (s : st) rs : st :=
  {| live_write := live_write s; next_id := next_id s; live_reads := live_reads s; savepoints := savepoints s;
     next_sp := next_sp s; pending_nd := pending_nd s; deferred_close := deferred_close s; latest := latest s;
     latest_src := latest_src s; latest_durable := latest_durable s; durable_id := durable_id s;
     db_dropped := db_dropped s; closed := closed s; entries := entries s; released := released s;
     nd_released := nd_released s; hist := hist s; next_tag := next_tag s; writers := writers s; readers := rs;
     sps := sps s |}.
Definition set_sps (s : st) ss : st :=
  {| live_write := live_write s; next_id := next_id s; live_reads := live_reads s; savepoints := savepoints s;
     next_sp := next_sp s; pending_nd := pending_nd s; deferred_close := deferred_close s; latest := latest s;
     latest_src := latest_src s; latest_durable := latest_durable s; durable_id := durable_id s;
     db_dropped := db_dropped s; closed := closed s; entries := entries s; released := released s;
     nd_released := nd_released s; hist := hist s; next_tag := next_tag s; writers := writers s; readers := readers s;
     sps := ss |}.
Definition set_pages (s : st) es rel ndrel : st :=
  {| live_write := live_write s; next_id := next_id s; live_reads := live_reads s; savepoints := savepoints s;
     next_sp := next_sp s; pending_nd := pending_nd s; deferred_close := deferred_close s; latest := latest s;
     latest_src := latest_src s; latest_durable := latest_durable s; durable_id := durable_id s;
     db_dropped := db_dropped s; closed := closed s; entries := es; released := rel;
     nd_released := ndrel; hist := hist s; next_tag := next_tag s; writers := writers s; readers := readers s;
     sps := sps s |}.
(* publication: the single locked assignment of the header *)
Definition publish (s : st) (id payload src : N) (durable : bool) : st :=
  {| live_write := live_write s; next_id := next_id s; live_reads := live_reads s; savepoints := savepoints s;
     next_sp := next_sp s; pending_nd := pending_nd s; deferred_close := deferred_close s; latest := (id, payload);
     latest_src := src; latest_durable := durable; durable_id := if durable then id else durable_id s;
     db_dropped := db_dropped s; closed := closed s; entries := entries s; released := released s;
     nd_released := nd_released s; hist := (id, payload) :: hist s; next_tag := next_tag s; writers := writers s;
     readers := readers s; sps := sps s |}.
Definition set_flags (s : st) (dropped cl : bool) : st :=
  {| live_write := live_write s; next_id := next_id s; live_reads := live_reads s; savepoints := savepoints s;
     next_sp := next_sp s; pending_nd := pending_nd s; deferred_close := deferred_close s; latest := latest s;
     latest_src := latest_src s; latest_durable := latest_durable s; durable_id := durable_id s;
     db_dropped := dropped; closed := cl; entries := entries s; released := released s;
     nd_released := nd_released s; hist := hist s; next_tag := next_tag s; writers := writers s; readers := readers s;
     sps := sps s |}.
Definition set_next_tag (s : st) (n : N) : st :=
  {| live_write := live_write s; next_id := next_id s; live_reads := live_reads s; savepoints := savepoints s;
     next_sp := next_sp s; pending_nd := pending_nd s; deferred_close := deferred_close s; latest := latest s;
     latest_src := latest_src s; latest_durable := latest_durable s; durable_id := durable_id s;
     db_dropped := db_dropped s; closed := closed s; entries := entries s; released := released s;
     nd_released := nd_released s; hist := hist s; next_tag := n; writers := writers s; readers := readers s;
     sps := sps s |}.

Definition wset (w : wstate) tag hor sph ph : wstate :=
  {| w_id := w_id w; w_root := w_root w; w_src := w_src w; w_tag := tag; w_horizon := hor; w_sp_horizon := sph;
     w_phase := ph; w_closing := w_closing w |}.
Definition wphase (w : wstate) ph : wstate := wset w (w_tag w) (w_horizon w) (w_sp_horizon w) ph.

(* ---------------------------------------------------------------- calls and steps *)
Inductive call :=
| BeginRead (r : N) | Observe (r : N) | DropReader (r : N)
| BeginWrite | Put | CommitD (twopc : bool) | CommitND | Abort | DropWtx
| Savepoint (s : N) | DropSavepoint (s : N)
| DropDb.

Inductive step :=
| TRegisterRead | MGetDataRootR | TDeallocRead | TDeallocReadRetry
| TStartWrite | MAllocLoaded | MGetDataRootW | MGetSystemRoot
| TAnySavepoint
| TOldestLiveReadC | XDurableHorizon | TOldestSavepoint | MCommitBegin | IoSync | UClear | MCommitPublish
| TClearPendingNd | TInvalidateSavepoints | TOldestLiveReadE | XEpilogueHorizon | UExtend | MNdPublishE
| TReserveId | TRegisterNdE
| TOldestLiveReadNd | XNdFree | MNdPublish | MLastDurable | TRegisterNd
| XAbortRollback | TEndWrite
| TRegisterReadS | TAllocSavepoint | MGetDataRootS | MGetVersion
| TDeallocSavepoint | TDeallocReadS
| TDeferClose.

Definition name_of (s : step) : string :=
  match s with
  | TRegisterRead | TRegisterReadS => "T.register_read"
  | MGetDataRootR | MGetDataRootW | MGetDataRootS => "M.get_data_root"
  | TDeallocRead | TDeallocReadS | TDeallocReadRetry => "T.dealloc_read"
  | TStartWrite => "T.start_write"
  | MAllocLoaded => "M.alloc_loaded"
  | MGetSystemRoot => "M.get_system_root"
  | TAnySavepoint => "T.any_savepoint"
  | TOldestLiveReadC | TOldestLiveReadE => "T.oldest_live_read"
  | XDurableHorizon => "X.durable_commit.horizon"
  | TOldestSavepoint => "T.oldest_savepoint"
  | MCommitBegin => "M.commit.begin"
  | IoSync => "io.sync"
  | UClear => "U.clear"
  | MCommitPublish => "M.commit.publish"
  | TClearPendingNd => "T.clear_pending_nd"
  | TInvalidateSavepoints => "T.invalidate_savepoints"
  | XEpilogueHorizon => "X.epilogue.horizon"
  | UExtend => "U.extend"
  | MNdPublishE | MNdPublish => "M.nd.publish"
  | TReserveId => "T.reserve_id"
  | TRegisterNdE | TRegisterNd => "T.register_nd"
  | TOldestLiveReadNd => "T.oldest_live_read_nd"
  | XNdFree => "X.nd_commit.free"
  | MLastDurable => "M.last_durable"
  | XAbortRollback => "X.abort.rollback"
  | TEndWrite => "T.end_write"
  | TAllocSavepoint => "T.alloc_savepoint"
  | MGetVersion => "M.get_version"
  | TDeallocSavepoint => "T.dealloc_savepoint"
  | TDeferClose => "T.defer_close"
  end.

Definition begin_write_steps : list step := [TStartWrite; MAllocLoaded; MGetDataRootW; MGetSystemRoot].
Definition durable_commit_steps (twopc : bool) : list step :=
  [TOldestLiveReadC; XDurableHorizon; TOldestSavepoint; MCommitBegin] ++ (if twopc then [IoSync] else []) ++
  [IoSync; UClear; MCommitPublish; TClearPendingNd; TInvalidateSavepoints].
Definition epilogue_steps : list step := [TOldestLiveReadE; XEpilogueHorizon].
Definition epilogue_publish_steps : list step := [UExtend; MNdPublishE; TReserveId; TRegisterNdE].
(* close_database(): a quick-repair (hence two-phase) commit without epilogue, then the backend is closed *)
Definition close_steps : list step := begin_write_steps ++ durable_commit_steps true ++ [TEndWrite].

Definition steps_of (c : call) : list step :=
  match c with
  | BeginRead _ => [TRegisterRead; MGetDataRootR]
  | Observe _ => []
  | DropReader _ => [TDeallocRead]
  | BeginWrite => begin_write_steps
  | Put => [TAnySavepoint; TAnySavepoint; TAnySavepoint]
  | CommitD twopc => durable_commit_steps twopc ++ epilogue_steps ++ [TEndWrite]
  | CommitND => [TOldestLiveReadNd; XNdFree; UExtend; MNdPublish; MLastDurable; TRegisterNd; TInvalidateSavepoints; TEndWrite]
  | Abort | DropWtx => [XAbortRollback; TEndWrite]
  | Savepoint _ => [TRegisterReadS; TAllocSavepoint; MGetDataRootS; MGetVersion]
  | DropSavepoint _ => [TDeallocSavepoint; TDeallocReadS]
  | DropDb => [TDeferClose]
  end.

(* phases of a write transaction *)
Definition ph_open := 0.          (* slot held, transaction usable *)
Definition ph_horizon := 1.       (* durable commit: free horizon computed *)
Definition ph_reclaimed := 2.
Definition ph_published := 3.
Definition ph_cleared := 4.
Definition ph_ehorizon := 5.      (* epilogue horizon computed *)
Definition ph_ereclaimed := 6.
Definition ph_epublished := 7.
Definition ph_ereserved := 8.
Definition ph_eregistered := 9.
Definition ph_nhorizon := 11.     (* non-durable commit *)
Definition ph_nreclaimed := 12.
Definition ph_npublished := 13.
Definition ph_nregistered := 14.

Definition tkey (t : nat) : N := N.of_nat t.
Definition my_writer (t : nat) (s : st) : option wstate := aget (tkey t) (writers s).
Definition put_writer (t : nat) (w : wstate) (s : st) : st := set_writers s (aset (tkey t) w (writers s)).

(* the oldest live read that is a pending non-durable commit *)
Definition oldest_nd_read (s : st) : option N :=
  lmin (filter (fun id => match aget id (pending_nd s) with Some _ => true | None => false end) (live_reads s)).

Definition below (h : N) (e : N * N) : bool := N.ltb (fst e) h.
Definition keys_below (h : N) (es : list (N * N)) : list N := map fst (filter (below h) es).

(* durable reclaim: every record with key < h is released *)
Definition reclaim_durable (h : N) (s : st) : st :=
  set_pages s (filter (fun e => negb (below h e)) (entries s)) (lmax (released s) (keys_below h (entries s))) (nd_released s).
(* non-durable reclaim: of the records with key < h, those whose pages were written by a commit that is
   not durable yet are reclaimed completely (every page of such a record is unpersisted) *)
Definition nd_victim (h : N) (dur : N) (e : N * N) : bool := N.ltb (fst e) h && N.ltb dur (snd e).
Definition reclaim_nd (h : N) (s : st) : st :=
  set_pages s (filter (fun e => negb (nd_victim h (durable_id s) e)) (entries s)) (released s)
            (lmax (nd_released s) (map fst (filter (nd_victim h (durable_id s)) (entries s)))).

Definition add_entry (w : wstate) (s : st) : st :=
  match w_tag w with
  | Some _ => set_pages s ((w_id w, w_src w) :: entries s) (released s) (nd_released s)
  | None => s
  end.

Definition payload_of (w : wstate) : N := match w_tag w with Some c => c | None => snd (w_root w) end.
Definition src_of (w : wstate) : N := match w_tag w with Some _ => w_id w | None => w_src w end.

Definition guard (b : bool) (x : option (st * list step)) : option (st * list step) := if b then x else None.
Definition ok (s : st) : option (st * list step) := Some (s, []).

Definition with_writer (t : nat) (s : st) (ph : N) (f : wstate -> option (st * list step)) : option (st * list step) :=
  match my_writer t s with
  | Some w => if N.eqb (w_phase w) ph then f w else None
  | None => None
  end.
Definition any_writer (t : nat) (s : st) : option (st * list step) :=
  match my_writer t s with Some _ => ok s | None => None end.

Definition exec (t : nat) (c : call) (x : step) (s : st) : option (st * list step) :=
  match x with
  (* ---- begin_read *)
  | TRegisterRead =>
    match c with
    | BeginRead r =>
      guard (negb (db_dropped s))
        (let id := fst (latest s) in
         ok (set_readers (set_live_reads s (id :: live_reads s)) (aset r {| r_reg := id; r_root := None; r_pubs := O |} (readers s))))
    | _ => None
    end
  | MGetDataRootR =>
    (* id and root are read under one lock; begin_read keeps the registration only if it is the id of this root,
       otherwise it drops the guard (T.dealloc_read) and registers again *)
    match c with
    | BeginRead r =>
      match aget r (readers s) with
      | Some rs =>
        if N.eqb (fst (latest s)) (r_reg rs) then
          ok (set_readers s (aset r {| r_reg := r_reg rs; r_root := Some (latest s); r_pubs := List.length (hist s) |} (readers s)))
        else Some (s, [TDeallocReadRetry; TRegisterRead; MGetDataRootR])
      | None => None
      end
    | _ => None
    end
  | TDeallocReadRetry =>
    match c with
    | BeginRead r =>
      match aget r (readers s) with
      | Some rs => ok (set_readers (set_live_reads s (remove_one (r_reg rs) (live_reads s))) (adel r (readers s)))
      | None => None
      end
    | _ => None
    end
  | TDeallocRead =>
    match c with
    | DropReader r =>
      match aget r (readers s) with
      | Some rs => ok (set_readers (set_live_reads s (remove_one (r_reg rs) (live_reads s))) (adel r (readers s)))
      | None => None
      end
    | _ => None
    end
  (* ---- begin_write *)
  | TStartWrite =>
    match live_write s, my_writer t s with
    | None, None =>
      guard (negb (closed s))
        (let id := next_id s + 1 in
         let w := {| w_id := id; w_root := latest s; w_src := latest_src s; w_tag := None; w_horizon := 0;
                     w_sp_horizon := None; w_phase := ph_open; w_closing := db_dropped s |} in
         ok (put_writer t w (set_tracker s (Some id) id (live_reads s) (savepoints s) (next_sp s) (pending_nd s)
                                          (deferred_close s))))
    | _, _ => None
    end
  | MAllocLoaded | MGetSystemRoot | MCommitBegin | IoSync | UClear | UExtend | TInvalidateSavepoints
  | MLastDurable | TAnySavepoint => any_writer t s
  | MGetDataRootW =>
    match my_writer t s with
    | Some w => ok (put_writer t {| w_id := w_id w; w_root := latest s; w_src := latest_src s; w_tag := w_tag w;
                                    w_horizon := w_horizon w; w_sp_horizon := w_sp_horizon w; w_phase := w_phase w;
                                    w_closing := w_closing w |} s)
    | None => None
    end
  (* ---- durable commit *)
  | TOldestLiveReadC =>
    with_writer t s ph_open (fun w =>
      let h := match lmin (live_reads s) with Some o => o + 1 | None => w_id w end in
      ok (put_writer t (wset w (w_tag w) h None ph_horizon) (add_entry w s)))
  | XDurableHorizon =>
    with_writer t s ph_horizon (fun w => ok (put_writer t (wphase w ph_reclaimed) (reclaim_durable (w_horizon w) s)))
  | TOldestSavepoint =>
    with_writer t s ph_reclaimed (fun w =>
      ok (put_writer t (wset w (w_tag w) (w_horizon w) (lmin (map snd (savepoints s))) ph_reclaimed) s))
  | MCommitPublish =>
    with_writer t s ph_reclaimed (fun w =>
      ok (put_writer t (wphase w ph_published) (publish s (w_id w) (payload_of w) (src_of w) true)))
  | TClearPendingNd =>
    with_writer t s ph_published (fun w =>
      let lr := fold_left (fun l p => remove_one (snd p) l) (pending_nd s) (live_reads s) in
      ok (put_writer t (wphase w ph_cleared)
            (set_tracker s (live_write s) (next_id s) lr (savepoints s) (next_sp s) [] (deferred_close s))))
  (* ---- post-commit epilogue *)
  | TOldestLiveReadE =>
    with_writer t s ph_cleared (fun w =>
      let h := match lmin (live_reads s) with Some o => o + 1 | None => w_id w + 1 end in
      let h := match w_sp_horizon w with Some sp => N.min h (sp + 1) | None => h end in
      ok (put_writer t (wset w (w_tag w) h (w_sp_horizon w) ph_ehorizon) s))
  | XEpilogueHorizon =>
    with_writer t s ph_ehorizon (fun w =>
      let freed_any := negb (match keys_below (w_horizon w) (entries s) with [] => true | _ => false end) in
      Some (put_writer t (wphase w ph_ereclaimed) (reclaim_durable (w_horizon w) s),
            if freed_any then epilogue_publish_steps else []))
  | MNdPublishE =>
    with_writer t s ph_ereclaimed (fun w =>
      ok (put_writer t (wphase w ph_epublished) (publish s (w_id w + 1) (snd (latest s)) (latest_src s) false)))
  | TReserveId =>
    with_writer t s ph_epublished (fun w =>
      ok (put_writer t (wphase w ph_ereserved)
            (set_tracker s (live_write s) (w_id w + 1) (live_reads s) (savepoints s) (next_sp s) (pending_nd s)
                         (deferred_close s))))
  | TRegisterNdE =>
    with_writer t s ph_ereserved (fun w =>
      ok (put_writer t (wphase w ph_eregistered)
            (set_tracker s (live_write s) (next_id s) (w_id w :: live_reads s) (savepoints s) (next_sp s)
                         ((w_id w + 1, w_id w) :: pending_nd s) (deferred_close s))))
  (* ---- non-durable commit *)
  | TOldestLiveReadNd =>
    with_writer t s ph_open (fun w =>
      let h := match oldest_nd_read s with Some o => o + 1 | None => w_id w end in
      ok (put_writer t (wset w (w_tag w) h None ph_nhorizon) (add_entry w s)))
  | XNdFree =>
    with_writer t s ph_nhorizon (fun w => ok (put_writer t (wphase w ph_nreclaimed) (reclaim_nd (w_horizon w) s)))
  | MNdPublish =>
    with_writer t s ph_nreclaimed (fun w =>
      ok (put_writer t (wphase w ph_npublished) (publish s (w_id w) (payload_of w) (src_of w) false)))
  | TRegisterNd =>
    with_writer t s ph_npublished (fun w =>
      ok (put_writer t (wphase w ph_nregistered)
            (set_tracker s (live_write s) (next_id s) (durable_id s :: live_reads s) (savepoints s) (next_sp s)
                         ((w_id w, durable_id s) :: pending_nd s) (deferred_close s))))
  (* ---- abort / end *)
  | XAbortRollback => with_writer t s ph_open (fun w => ok s)
  | TEndWrite =>
    match my_writer t s with
    | Some w =>
      let p := w_phase w in
      guard (N.eqb p ph_open || N.eqb p ph_cleared || N.eqb p ph_ereclaimed || N.eqb p ph_eregistered
             || N.eqb p ph_nregistered)
        (let s1 := set_writers (set_tracker s None (next_id s) (live_reads s) (savepoints s) (next_sp s)
                                             (pending_nd s) false) (adel (tkey t) (writers s)) in
         if w_closing w then ok (set_flags s1 (db_dropped s1) true)
         else Some (s1, if deferred_close s then close_steps else []))
    | None => None
    end
  (* ---- ephemeral savepoint *)
  | TRegisterReadS =>
    match c with
    | Savepoint k =>
      with_writer t s ph_open (fun w =>
        match w_tag w with
        | None =>
          let id := fst (latest s) in
          ok (set_sps (set_live_reads s (id :: live_reads s)) (aset k {| s_id := 0; s_txn := id |} (sps s)))
        | Some _ => None
        end)
    | _ => None
    end
  | TAllocSavepoint =>
    match c with
    | Savepoint k =>
      match aget k (sps s) with
      | Some sp =>
        let id := next_sp s + 1 in
        ok (set_sps (set_tracker s (live_write s) (next_id s) (live_reads s) ((id, s_txn sp) :: savepoints s) id
                                 (pending_nd s) (deferred_close s))
                    (aset k {| s_id := id; s_txn := s_txn sp |} (sps s)))
      | None => None
      end
    | _ => None
    end
  | MGetDataRootS | MGetVersion => any_writer t s
  | TDeallocSavepoint =>
    match c with
    | DropSavepoint k =>
      match aget k (sps s) with
      | Some sp => ok (set_tracker s (live_write s) (next_id s) (live_reads s) (adel (s_id sp) (savepoints s)) (next_sp s)
                                   (pending_nd s) (deferred_close s))
      | None => None
      end
    | _ => None
    end
  | TDeallocReadS =>
    match c with
    | DropSavepoint k =>
      match aget k (sps s) with
      | Some sp => ok (set_sps (set_live_reads s (remove_one (s_txn sp) (live_reads s))) (adel k (sps s)))
      | None => None
      end
    | _ => None
    end
  (* ---- Database::drop *)
  | TDeferClose =>
    guard (negb (db_dropped s))
      (match live_write s with
       | Some _ => ok (set_flags (set_tracker s (live_write s) (next_id s) (live_reads s) (savepoints s) (next_sp s)
                                              (pending_nd s) true) true (closed s))
       | None => Some (set_flags s true (closed s), close_steps)
       end)
  end.

(* entering a call: Put draws the next payload tag (the harness does the same, in the same order) *)
Definition enter (t : nat) (c : call) (s : st) : st :=
  match c with
  | Put =>
    match my_writer t s with
    | Some w => put_writer t (wset w (Some (next_tag s)) (w_horizon w) (w_sp_horizon w) (w_phase w)) (set_next_tag s (next_tag s + 1))
    | None => s
    end
  | _ => s
  end.

Inductive res := ROk | RTag (c : N) | RNone.

Definition result (t : nat) (c : call) (s : st) : res :=
  match c with
  | Observe r =>
    match aget r (readers s) with
    | Some {| r_root := Some (_, p) |} => RTag p
    | _ => RNone
    end
  | Put => match my_writer t s with Some {| w_tag := Some c |} => RTag c | _ => RNone end
  | _ => ROk
  end.

(* the state the harness starts every scenario from: one durable commit (transaction 1, tag 1) *)
Definition init : st :=
  {| live_write := None; next_id := 1; live_reads := []; savepoints := []; next_sp := 0; pending_nd := [];
     deferred_close := false; latest := (1, 1); latest_src := 1; latest_durable := true; durable_id := 1;
     db_dropped := false; closed := false; entries := []; released := 0; nd_released := 0;
     hist := [(1, 1)]; next_tag := 2; writers := []; readers := []; sps := [] |}.

Definition pgrant := Sched.grant st call step string res steps_of name_of exec enter result.
Definition prun := Sched.run st call step string res steps_of name_of exec enter result.
Definition pstart := Sched.start call step.
Definition cevent := @Sched.event string res.
