(* Facts about the helpers of Gen/FnsLibB.v (byte slices, for_range). *)
From Coq Require Import NArith List Bool Lia.
From RV Require Import Base.Bytes Base.BytesP Gen.FnsLib Gen.FnsLibP.
From RV Require Import Gen.FnsLibB.
Import ListNotations.
Open Scope N_scope.

Lemma slen_nil : slen [] = 0.
Proof. reflexivity. Qed.

Lemma slen_cons x l : slen (x :: l) = N.succ (slen l).
Proof. unfold slen. cbn [length]. now rewrite Nat2N.inj_succ. Qed.

Lemma slen_app a b : slen (a ++ b) = slen a + slen b.
Proof. unfold slen. rewrite app_length. lia. Qed.

Lemma slen_le_encode w n : slen (le_encode w n) = N.of_nat w.
Proof. unfold slen. now rewrite le_encode_length. Qed.

Lemma slen_rep v n : slen (rep v n) = n.
Proof. unfold slen, rep. rewrite repeat_length. lia. Qed.

Lemma slen_slice_to l b : b <= slen l -> slen (slice_to l b) = b.
Proof. unfold slen, slice_to. intros H. rewrite firstn_length. lia. Qed.

Lemma slen_slice_from l a : slen (slice_from l a) = slen l - a.
Proof. unfold slen, slice_from. rewrite skipn_length. lia. Qed.

Lemma slen_slice l a b : a <= b -> b <= slen l -> slen (slice l a b) = b - a.
Proof. unfold slen, slice. intros H1 H2. rewrite firstn_length, skipn_length. lia. Qed.

Lemma slice_0 l b : slice l 0 b = slice_to l b.
Proof. unfold slice, slice_to. cbn [N.to_nat skipn]. now rewrite N.sub_0_r. Qed.

Lemma slice_from_slice_to l a w : slice_to (slice_from l a) w = slice l a (a + w).
Proof. unfold slice, slice_to, slice_from. do 2 f_equal. lia. Qed.

Lemma skipn_add {A} (l : list A) : forall a x, skipn x (skipn a l) = skipn (a + x) l.
Proof.
  induction l as [|y l IH]; intros a x.
  - now rewrite !skipn_nil.
  - destruct a as [|a]; [reflexivity|]. cbn [skipn plus]. apply IH.
Qed.

Lemma slice_of_slice_from l a x y : slice (slice_from l a) x y = slice l (a + x) (a + y).
Proof.
  unfold slice, slice_from. rewrite skipn_add. do 2 f_equal; lia.
Qed.

Lemma slice_get_some l a b : a <= b -> b <= slen l -> slice_get l a b = Some (slice l a b).
Proof.
  intros H1 H2. unfold slice_get.
  replace (a <=? b) with true by (symmetry; apply N.leb_le; lia).
  replace (b <=? slen l) with true by (symmetry; apply N.leb_le; lia). reflexivity.
Qed.

Lemma slice_get_inv l a b s : slice_get l a b = Some s -> a <= b /\ b <= slen l /\ s = slice l a b.
Proof.
  unfold slice_get. destruct (a <=? b) eqn:A; [|discriminate]. destruct (b <=? slen l) eqn:B; [|discriminate].
  cbn [andb]. intros [= <-]. apply N.leb_le in A, B. auto.
Qed.

(* bytes below 256: a w-byte little-endian number is below 256^w *)
Lemma le_decode_lt l : all_bytes l = true -> le_decode l < 256 ^ slen l.
Proof.
  induction l as [|x l IH]; intros H.
  - cbn. lia.
  - cbn [all_bytes forallb] in H. apply andb_prop in H as [Hx Hl].
    unfold is_byte in Hx. apply N.ltb_lt in Hx. specialize (IH Hl).
    rewrite slen_cons, N.pow_succ_r'. cbn [le_decode]. lia.
Qed.

Lemma all_bytes_firstn n l : all_bytes l = true -> all_bytes (firstn n l) = true.
Proof.
  revert l; induction n as [|n IH]; intros [|x l] H; cbn [firstn all_bytes forallb] in *; try reflexivity.
  apply andb_prop in H as [Hx Hl]. rewrite Hx. cbn [andb]. now apply IH.
Qed.

Lemma all_bytes_skipn n l : all_bytes l = true -> all_bytes (skipn n l) = true.
Proof.
  revert l; induction n as [|n IH]; intros [|x l] H; cbn [skipn] in *; try assumption.
  cbn [all_bytes forallb] in H. apply andb_prop in H as [_ Hl]. now apply IH.
Qed.

Lemma all_bytes_slice l a b : all_bytes l = true -> all_bytes (slice l a b) = true.
Proof. intros. unfold slice. now apply all_bytes_firstn, all_bytes_skipn. Qed.

Lemma all_bytes_slice_to l b : all_bytes l = true -> all_bytes (slice_to l b) = true.
Proof. intros. unfold slice_to. now apply all_bytes_firstn. Qed.

Lemma all_bytes_slice_from l a : all_bytes l = true -> all_bytes (slice_from l a) = true.
Proof. intros. unfold slice_from. now apply all_bytes_skipn. Qed.

Lemma all_bytes_app a b : all_bytes (a ++ b) = all_bytes a && all_bytes b.
Proof. unfold all_bytes. apply forallb_app. Qed.

(* splice: writing exactly over a range *)
Lemma splice_app pre old post src :
  length old = length src -> splice (pre ++ old ++ post) (slen pre) src = pre ++ src ++ post.
Proof.
  intros H. unfold splice, slen. rewrite Nat2N.id.
  rewrite firstn_app, Nat.sub_diag, firstn_all. cbn [firstn]. rewrite app_nil_r.
  f_equal. f_equal.
  rewrite skipn_app. rewrite (skipn_all2 pre) by lia. cbn [app].
  replace (length pre + length src - length pre)%nat with (length old) by lia.
  rewrite skipn_app, skipn_all, Nat.sub_diag. reflexivity.
Qed.

(* for_range *)
Lemma for_nat_succ {S} n i (body : N -> S -> S) s :
  for_nat (Datatypes.S n) i body s = for_nat n (N.succ i) body (body i s).
Proof. reflexivity. Qed.

Lemma for_nat_last {S} n : forall i (body : N -> S -> S) s,
  for_nat (Datatypes.S n) i body s = body (i + N.of_nat n) (for_nat n i body s).
Proof.
  induction n as [|n IH]; intros i body s.
  - cbn. now rewrite N.add_0_r.
  - rewrite for_nat_succ, IH. cbn [for_nat]. f_equal. lia.
Qed.

Lemma for_range_empty {S} a b (body : N -> S -> S) s : b <= a -> for_range a b body s = s.
Proof. intros H. unfold for_range. replace (N.to_nat (b - a)) with O by lia. reflexivity. Qed.

(* an invariant that holds before the loop and is preserved by every round holds after it *)
Lemma for_nat_inv {S} (P : N -> S -> Prop) (body : N -> S -> S) : forall n i s,
  P i s -> (forall j t, i <= j < i + N.of_nat n -> P j t -> P (N.succ j) (body j t)) ->
  P (i + N.of_nat n) (for_nat n i body s).
Proof.
  induction n as [|n IH]; intros i s H0 Hstep.
  - cbn. now rewrite N.add_0_r.
  - rewrite for_nat_succ. replace (i + N.of_nat (Datatypes.S n)) with (N.succ i + N.of_nat n) by lia.
    apply IH.
    + apply Hstep; [lia|exact H0].
    + intros j t Hj. apply Hstep. lia.
Qed.

Lemma for_range_inv {S} (P : N -> S -> Prop) (body : N -> S -> S) a b s :
  a <= b -> P a s -> (forall j t, a <= j < b -> P j t -> P (N.succ j) (body j t)) -> P b (for_range a b body s).
Proof.
  intros Hab H0 Hstep. unfold for_range.
  replace b with (a + N.of_nat (N.to_nat (b - a))) at 1 by lia.
  apply for_nat_inv; [exact H0|]. intros j t Hj. apply Hstep. lia.
Qed.
