(* The hand-written layout model (Storage/Layout.v, used by C20) is equal to the functions generated from
   layout.rs / base.rs / header.rs (Gen/Fns.v), through the obvious conversion of the generated records. *)
From Coq Require Import List NArith Bool Lia.
From RV Require Import Gen.Consts Gen.FnsLib Gen.FnsLibP Gen.Fns Storage.Layout.
Import ListNotations.
Open Scope N_scope.

Definition rl_of (r : RegionLayout) : region_layout :=
  mkRL (RegionLayout_f_num_pages r) (RegionLayout_f_header_pages r) (RegionLayout_f_page_size r).
Definition dl_of (d : DatabaseLayout) : db_layout :=
  mkDL (rl_of (DatabaseLayout_f_full_region_layout d)) (DatabaseLayout_f_num_full_regions d)
       (option_map rl_of (DatabaseLayout_f_trailing_partial_region d)).
Definition pn_of (p : PageNumber) : page_number :=
  mkPN (PageNumber_f_region p) (PageNumber_f_page_index p) (PageNumber_f_page_order p).

Lemma round_up_is_model : forall v m,
  Fns.round_up_to_multiple_of v m = Layout.round_up_to_multiple_of v m.
Proof. tie round_up_is_model. reflexivity. Qed.

(* ---- RegionLayout *)
Lemma rl_new_is_model : forall n h ps, rl_of (RegionLayout_new n h ps) = mkRL n h ps.
Proof. tie rl_new_is_model. reflexivity. Qed.

Lemma rl_calculate_is_model : forall desired cap hdr ps,
  rl_of (RegionLayout_calculate desired cap hdr ps) = rl_calculate desired cap hdr ps.
Proof. tie rl_calculate_is_model. reflexivity. Qed.

Lemma rl_usable_is_model : forall r, RegionLayout_usable_bytes r = rl_usable (rl_of r).
Proof. tie rl_usable_is_model. reflexivity. Qed.

Lemma rl_len_is_model : forall r, RegionLayout_len r = rl_len (rl_of r).
Proof. tie rl_len_is_model. reflexivity. Qed.

Lemma rl_data_section_is_model : forall r,
  RegionLayout_data_section r = (rl_data_start (rl_of r), rl_data_start (rl_of r) + rl_usable (rl_of r)).
Proof. tie rl_data_section_is_model. reflexivity. Qed.

Lemma rl_getters_are_model : forall r,
  RegionLayout_num_pages r = rl_num_pages (rl_of r) /\
  RegionLayout_get_header_pages r = rl_header_pages (rl_of r) /\
  RegionLayout_page_size r = rl_page_size (rl_of r).
Proof. tie rl_getters_are_model. intros; repeat split; reflexivity. Qed.

(* ---- DatabaseLayout *)
Lemma dl_new_is_model : forall n f t, dl_of (DatabaseLayout_new n f t) = mkDL (rl_of f) n (option_map rl_of t).
Proof. tie dl_new_is_model. reflexivity. Qed.

Lemma dl_recalculate_is_model : forall file_len hdr cap ps,
  dl_of (DatabaseLayout_recalculate file_len hdr cap ps) = dl_recalculate file_len hdr cap ps.
Proof. tie dl_recalculate_is_model.
  intros. unfold DatabaseLayout_recalculate, dl_recalculate, dl_of, RegionLayout_new.
  destruct ((hdr + 1) * ps <=? file_len - ps - (file_len - ps) / ((hdr + cap) * ps) * ((hdr + cap) * ps)); reflexivity.
Qed.

Lemma dl_calculate_is_model : forall desired cap hdr ps,
  dl_of (DatabaseLayout_calculate desired cap hdr ps) = dl_calculate desired cap hdr ps.
Proof. tie dl_calculate_is_model.
  intros. unfold DatabaseLayout_calculate, dl_calculate, dl_of, RegionLayout_new, RegionLayout_usable_bytes, rl_usable.
  cbn [RegionLayout_f_page_size RegionLayout_f_num_pages rl_page_size rl_num_pages].
  destruct (desired <=? ps * cap); [reflexivity|].
  cbn [DatabaseLayout_f_full_region_layout DatabaseLayout_f_num_full_regions DatabaseLayout_f_trailing_partial_region].
  destruct (0 <? desired - desired / (ps * cap) * (ps * cap)); reflexivity.
Qed.

Lemma dl_num_regions_is_model : forall d, DatabaseLayout_num_regions d = dl_num_regions (dl_of d).
Proof. tie dl_num_regions_is_model.
  intros. unfold DatabaseLayout_num_regions, dl_num_regions, dl_of, isSome. cbn.
  destruct (DatabaseLayout_f_trailing_partial_region d); reflexivity.
Qed.

Lemma dl_num_full_is_model : forall d, DatabaseLayout_num_full_regions d = dl_num_full (dl_of d).
Proof. tie dl_num_full_is_model. reflexivity. Qed.

Lemma dl_region_base_is_model : forall d region,
  DatabaseLayout_region_base_address d region = dl_region_base (dl_of d) region.
Proof. tie dl_region_base_is_model. reflexivity. Qed.

(* the code asserts region < num_regions and unwraps the trailing region: under that guard *)
Lemma dl_region_layout_is_model : forall d region,
  DatabaseLayout_region_layout_guard d region = true ->
  rl_of (DatabaseLayout_region_layout d region) = dl_region_layout (dl_of d) region.
Proof. tie dl_region_layout_is_model.
  intros d region. unfold DatabaseLayout_region_layout_guard, DatabaseLayout_region_layout, dl_region_layout, dl_of.
  cbn [dl_num_full dl_trailing dl_full].
  destruct (region =? DatabaseLayout_f_num_full_regions d); [|reflexivity].
  destruct (DatabaseLayout_f_trailing_partial_region d); cbn; [reflexivity|].
  rewrite andb_false_r. discriminate.
Qed.

Lemma dl_len_is_model : forall d,
  DatabaseLayout_len_guard d = true -> DatabaseLayout_len d = dl_len (dl_of d).
Proof. tie dl_len_is_model.
  intros d. unfold DatabaseLayout_len_guard, DatabaseLayout_len, dl_len.
  intros G. apply andb_prop in G as [_ G].
  rewrite rl_len_is_model, dl_region_layout_is_model by exact G.
  now rewrite dl_region_base_is_model, dl_num_regions_is_model.
Qed.

Lemma dl_usable_is_model : forall d, DatabaseLayout_usable_bytes d = dl_usable (dl_of d).
Proof. tie dl_usable_is_model.
  intros. unfold DatabaseLayout_usable_bytes, dl_usable, dl_of. cbn.
  destruct (DatabaseLayout_f_trailing_partial_region d); reflexivity.
Qed.

(* ---- header.rs: layout_from_file_len.  Result<DatabaseLayout> is option; self.inner.{page_size,
   region_header_pages, region_max_data_pages} are the leading parameters. *)
Lemma recalc_has_last_region : forall fl hdr cap ps,
  ps * (hdr + 2) <= fl ->
  DatabaseLayout_region_layout_guard (DatabaseLayout_recalculate fl hdr cap ps)
    (DatabaseLayout_num_regions (DatabaseLayout_recalculate fl hdr cap ps) - 1) = true.
Proof. tie recalc_has_last_region.
  intros fl hdr cap ps Hmin.
  unfold DatabaseLayout_region_layout_guard, DatabaseLayout_num_regions, DatabaseLayout_recalculate, RegionLayout_new.
  set (frs := (hdr + cap) * ps). set (rem := fl - ps).
  destruct ((hdr + 1) * ps <=? rem - rem / frs * frs) eqn:E;
    cbn [DatabaseLayout_f_trailing_partial_region DatabaseLayout_f_num_full_regions isSome].
  - rewrite N.add_sub, N.eqb_refl. cbn. apply andb_true_intro; split; [|reflexivity].
    apply N.ltb_lt. lia.
  - assert (Hq : rem / frs <> 0).
    { intro Q. rewrite Q in E. apply N.leb_gt in E. unfold rem in E. lia. }
    cbn. destruct (rem / frs - 1 =? rem / frs) eqn:E2.
    + apply N.eqb_eq in E2. set (q := rem / frs) in *. clearbody q. lia.
    + apply N.ltb_lt. set (q := rem / frs) in *. clearbody q. lia.
Qed.

Lemma layout_from_file_len_is_model : forall ps hdr cap fl,
  option_map dl_of (UnrepairedDatabaseHeader_layout_from_file_len ps hdr cap fl) =
  Layout.layout_from_file_len fl hdr cap ps.
Proof. tie layout_from_file_len_is_model.
  intros. unfold UnrepairedDatabaseHeader_layout_from_file_len, Layout.layout_from_file_len.
  destruct (ps + MAX_REGIONS * ((hdr + cap) * ps) <? fl); [reflexivity|].
  destruct (fl <? ps * (hdr + 2)) eqn:E; [reflexivity|].
  apply N.ltb_ge in E.
  rewrite dl_len_is_model, dl_recalculate_is_model.
  - destruct (dl_len (dl_recalculate fl hdr cap ps) =? fl); cbn; [|reflexivity].
    now rewrite dl_recalculate_is_model.
  - unfold DatabaseLayout_len_guard. rewrite recalc_has_last_region by exact E.
    rewrite andb_true_r. cbn [andb].
    unfold DatabaseLayout_region_base_address_guard. cbn [andb].
    pose proof (recalc_has_last_region fl hdr cap ps E) as G.
    unfold DatabaseLayout_region_layout_guard in G. cbn [andb] in G.
    destruct (DatabaseLayout_num_regions (DatabaseLayout_recalculate fl hdr cap ps) - 1 <?
              DatabaseLayout_num_regions (DatabaseLayout_recalculate fl hdr cap ps)); [reflexivity|].
    destruct (_ =? _) in G; discriminate.
Qed.

(* ---- base.rs: PageNumber.  PageNumber::new debug_asserts page_order <= MAX_MAX_PAGE_ORDER; under that
   guard `1u64 << page_order` does not lose bits. *)
Lemma shl1_small : forall o, o < 64 -> (N.shiftl 1 o) mod 18446744073709551616 = 2 ^ o.
Proof. tie shl1_small.
  intros o H. rewrite N.shiftl_1_l. apply N.mod_small.
  change 18446744073709551616 with (2 ^ 64). apply N.pow_lt_mono_r; lia.
Qed.

Lemma pn_new_is_model : forall r i o, pn_of (PageNumber_new r i o) = mkPN r i o.
Proof. tie pn_new_is_model. reflexivity. Qed.

Lemma page_size_bytes_is_model : forall p ps,
  PageNumber_f_page_order p <= MAX_MAX_PAGE_ORDER ->
  PageNumber_page_size_bytes p ps = Layout.page_size_bytes (pn_of p) ps.
Proof. tie page_size_bytes_is_model.
  intros p ps H. unfold PageNumber_page_size_bytes, Layout.page_size_bytes, pn_of. cbn [pn_order].
  rewrite shl1_small; [reflexivity|]. unfold MAX_MAX_PAGE_ORDER in H. lia.
Qed.

Lemma address_range_is_model : forall p dso rsize rstart ps,
  PageNumber_f_page_order p <= MAX_MAX_PAGE_ORDER ->
  PageNumber_address_range p dso rsize rstart ps = Layout.address_range (pn_of p) dso rsize rstart ps.
Proof. tie address_range_is_model.
  intros. unfold PageNumber_address_range, Layout.address_range.
  rewrite page_size_bytes_is_model by assumption. reflexivity.
Qed.

(* with the arguments TransactionalMemory passes (page_size, full_region_layout().len(),
   full_region_layout().data_section().start, page_size) *)
Lemma mem_address_range_is_model : forall d p,
  PageNumber_f_page_order p <= MAX_MAX_PAGE_ORDER ->
  let f := DatabaseLayout_f_full_region_layout d in
  PageNumber_address_range p (RegionLayout_page_size f) (RegionLayout_len f)
    (fst (RegionLayout_data_section f)) (RegionLayout_page_size f)
  = Layout.mem_address_range (dl_of d) (pn_of p).
Proof. tie mem_address_range_is_model.
  intros. unfold Layout.mem_address_range. rewrite address_range_is_model by assumption. reflexivity.
Qed.
