(* The two horizon sections of the committer in Conc/CommitGap.v (C16) are the expressions generated from
   transactions.rs (durable_commit, process_data_freed_pages_after_commit) (Gen/Fns.v). *)
From Coq Require Import List NArith Bool Lia.
From RV Require Import Gen.Consts Gen.FnsLib Gen.FnsLibP Gen.FnsLibB Gen.Fns.
From RV Require Import Gen.FnsHorizonP Conc.CommitGap.
Import ListNotations.
Open Scope N_scope.

(* ---- Conc/CommitGap.v (C16): the two horizon sections of the committer *)
Lemma commitgap_horizon1_is_model : forall cf s,
  commit_step cf GOldestLive1 s = (set_h1 (durable_commit_free_until (oldest_live s) (g_txid s)) s, []).
Proof. tie commitgap_horizon1_is_model. reflexivity. Qed.

Lemma commitgap_horizon2_is_model : forall cf s, weak_clamp cf = false ->
  match g_sph s with Some h => h < 18446744073709551615 | None => True end ->
  commit_step cf GOldestLive2 s = (set_eh (epilogue_free_until (oldest_live s) (g_txid s) (sph_u64 (g_sph s))) s, []).
Proof. tie commitgap_horizon2_is_model.
  intros cf s W Hh. rewrite epilogue_free_until_is_model by exact Hh.
  cbn [commit_step]. rewrite W. reflexivity.
Qed.

