(* The header model of C01 (Storage/Header.v: field reads, geometry and region-count validation, the layout
   arithmetic of finalize, the slot selection of recovery) is equal to the functions generated from header.rs
   (Gen/Fns.v): UnrepairedDatabaseHeader::from_bytes / layout_from_file_len / select_primary_slot,
   DatabaseHeader::layout, TransactionHeader::from_bytes. *)
From Coq Require Import List NArith Bool Lia.
From RV Require Import Base.Bytes Base.BytesP Gen.Consts Gen.FnsLib Gen.FnsLibP Gen.FnsLibB Gen.FnsLibBP Gen.Fns.
From RV Require Import Storage.Layout Gen.FnsLayoutP Storage.Backend Storage.BackendP Storage.Header.
Import ListNotations.
Open Scope N_scope.

(* ---------------------------------------------------------------- reading through a byte getter = slicing *)
Lemma skipn_cons_nth {A} (l : list A) d : forall k, (k < length l)%nat -> skipn k l = nth k l d :: skipn (S k) l.
Proof.
  induction l as [|x l IH]; intros k Hk; cbn [length] in Hk; [lia|].
  destruct k as [|k]; [reflexivity|]. cbn [skipn nth]. apply IH. lia.
Qed.

Lemma rd_hget (b : bytes) : forall n off, (N.to_nat off + n <= length b)%nat ->
  rd (hget b) off n = firstn n (skipn (N.to_nat off) b).
Proof.
  induction n as [|n IH]; intros off H; [reflexivity|].
  unfold rd in *. cbn [nseq map]. rewrite IH by lia.
  rewrite (skipn_cons_nth b 0 (N.to_nat off)) by lia. cbn [firstn]. unfold hget at 1.
  do 2 f_equal. f_equal. lia.
Qed.

Lemma rd_hget_slice (b : bytes) off n : off + N.of_nat n <= slen b ->
  rd (hget b) off n = slice b off (off + N.of_nat n).
Proof.
  intros H. rewrite rd_hget by (unfold slen in H; lia). unfold slice. do 2 f_equal. lia.
Qed.

Lemma header_u32_is_model : forall (b : bytes) off, off + 4 <= slen b ->
  Header.u32_at (hget b) off = Fns.get_u32 (slice_from b off).
Proof. tie header_u32_is_model.
  intros b off H. unfold Header.u32_at, Fns.get_u32. rewrite (rd_hget_slice b off 4) by exact H.
  now rewrite slice_from_slice_to.
Qed.

(* the five u32 fields and the god byte of a 320-byte header, read by the model through `hget` and by the code *)
Theorem header_reads_are_model : forall b : bytes, DB_HEADER_SIZE <= slen b ->
  page_size_of (hget b) = header_page_size b
  /\ rhp_of (hget b) = header_region_header_pages b
  /\ rmp_of (hget b) = header_region_max_data_pages b
  /\ full_regions_of (hget b) = header_full_regions b
  /\ trailing_of (hget b) = header_trailing_data_pages b
  /\ flag (god (hget b)) PRIMARY_BIT = negb (header_primary_slot b =? 0)
  /\ flag (god (hget b)) RECOVERY_REQUIRED = header_recovery_required b
  /\ flag (god (hget b)) TWO_PHASE_COMMIT = header_two_phase_commit b
  /\ slot_at (hget b) false = header_slot0_bytes b
  /\ slot_at (hget b) true = header_slot1_bytes b.
Proof. tie header_reads_are_model.
  intros b L. unfold DB_HEADER_SIZE in L.
  unfold page_size_of, rhp_of, rmp_of, full_regions_of, trailing_of, header_page_size, header_region_header_pages,
    header_region_max_data_pages, header_full_regions, header_trailing_data_pages.
  rewrite !header_u32_is_model by (vm_compute (_ + 4); lia).
  repeat split.
  - unfold flag, god, hget, header_primary_slot, byte_at, b2n.
    destruct (N.land (nth (N.to_nat GOD_BYTE_OFFSET) b 0) PRIMARY_BIT =? 0); reflexivity.
  - unfold slot_at, slot_off, header_slot0_bytes, SLOT_LEN.
    rewrite rd_hget_slice by (vm_compute (_ + _); lia). now rewrite N2Nat.id.
  - unfold slot_at, slot_off, header_slot1_bytes, SLOT_LEN.
    rewrite rd_hget_slice by (vm_compute (_ + _); lia). now rewrite N2Nat.id.
Qed.

(* ---------------------------------------------------------------- from_bytes: validation *)
Lemma geometry_checks_is_model : forall ps g,
  geom_ok ps g = isSome (header_geometry_checks (page_size_of g) ps (rmp_of g) (rhp_of g)).
Proof. tie geometry_checks_is_model.
  intros ps g. unfold geom_ok, header_geometry_checks.
  destruct (page_size_of g =? ps); cbn [negb andb]; [|reflexivity].
  destruct (rmp_of g =? 0); cbn [negb andb orb]; [reflexivity|].
  rewrite (N.ltb_antisym (rmp_of g)), (N.ltb_antisym (rhp_of g)).
  destruct (rmp_of g <=? MAX_PAGE_INDEX + 1); cbn [negb andb]; [|reflexivity].
  destruct (rhp_of g <=? MAX_PAGE_INDEX + 1); reflexivity.
Qed.

Lemma stored_counts_checks_is_model : forall g,
  stored_sane g = isSome (header_stored_counts_checks (trailing_of g) (rmp_of g) (full_regions_of g)).
Proof. tie stored_counts_checks_is_model.
  intros g. unfold stored_sane, header_stored_counts_checks, b2n.
  rewrite (N.ltb_antisym (trailing_of g) (rmp_of g)).
  destruct (trailing_of g <=? rmp_of g); cbn [negb andb]; [|reflexivity].
  set (r := full_regions_of g + (if 0 <? trailing_of g then 1 else 0)).
  rewrite (N.ltb_antisym r MAX_REGIONS).
  destruct (r =? 0) eqn:Z; cbn [orb].
  - apply N.eqb_eq in Z. rewrite Z. reflexivity.
  - apply N.eqb_neq in Z. replace (1 <=? r) with true by (symmetry; apply N.leb_le; lia).
    destruct (r <=? MAX_REGIONS); reflexivity.
Qed.

(* ---------------------------------------------------------------- finalize: the layout arithmetic *)
Lemma isSome_option_map {A B} (f : A -> B) o : isSome (option_map f o) = isSome o.
Proof. destruct o; reflexivity. Qed.

Lemma len_valid_is_model : forall ps rhp rmp len, 0 < (rhp + rmp) * ps ->
  len_valid ps rhp rmp len = isSome (UnrepairedDatabaseHeader_layout_from_file_len ps rhp rmp len).
Proof. tie len_valid_is_model.
  intros ps rhp rmp len F.
  rewrite <- (isSome_option_map dl_of), layout_from_file_len_is_model.
  unfold len_valid, Layout.layout_from_file_len.
  rewrite (N.ltb_antisym len), (N.ltb_antisym (ps * (rhp + 2))).
  destruct (len <=? ps + MAX_REGIONS * ((rhp + rmp) * ps)); cbn [negb andb]; [|reflexivity].
  destruct (ps * (rhp + 2) <=? len) eqn:M; cbn [negb andb]; [|reflexivity].
  apply N.leb_le in M.
  replace (0 <? (rhp + rmp) * ps) with true by (symmetry; apply N.ltb_lt; exact F). cbn [andb].
  unfold dl_len, dl_recalculate, dl_num_regions, dl_region_base, dl_region_layout, rl_len, rl_usable.
  set (frs := (rhp + rmp) * ps) in *. set (rem := len - ps).
  destruct ((rhp + 1) * ps <=? rem - rem / frs * frs) eqn:E;
    cbn [dl_trailing dl_num_full dl_full rl_page_size rl_header_pages rl_num_pages].
  - rewrite N.add_sub, N.eqb_refl. cbn [rl_page_size rl_header_pages rl_num_pages].
    replace (ps + rem / frs * (rhp * ps + ps * rmp) + (rhp * ps + ps * ((rem - rem / frs * frs - rhp * ps) / ps)))
      with (ps + rem / frs * frs + rhp * ps + (rem - rem / frs * frs - rhp * ps) / ps * ps) by (unfold frs; lia).
    destruct (_ =? len); reflexivity.
  - assert (Hq : rem / frs <> 0).
    { intro Q. rewrite Q in E. apply N.leb_gt in E. unfold rem in E. lia. }
    set (q := rem / frs) in *.
    replace (q - 1 =? q) with false by (symmetry; apply N.eqb_neq; lia).
    cbn [rl_page_size rl_header_pages rl_num_pages].
    replace (ps + (q - 1) * (rhp * ps + ps * rmp) + (rhp * ps + ps * rmp)) with (ps + q * frs)
      by (unfold frs; clearbody q; nia).
    destruct (_ =? len); reflexivity.
Qed.

(* DatabaseHeader::layout().len(): the length the stored region counts stand for *)
Lemma stored_len_is_model : forall g, stored_sane g = true ->
  stored_len g = DatabaseLayout_len (DatabaseHeader_layout (rmp_of g) (rhp_of g) (page_size_of g)
                                       (trailing_of g) (full_regions_of g))
  /\ DatabaseLayout_len_guard (DatabaseHeader_layout (rmp_of g) (rhp_of g) (page_size_of g)
                                 (trailing_of g) (full_regions_of g)) = true.
Proof. tie stored_len_is_model.
  intros g S. unfold stored_sane in S. apply andb_prop in S as [_ S]. apply andb_prop in S as [S _].
  apply N.leb_le in S.
  unfold stored_len, DatabaseHeader_layout, DatabaseLayout_new, RegionLayout_new.
  set (ps := page_size_of g) in *. set (rhp := rhp_of g) in *. set (rmp := rmp_of g) in *.
  set (tr := trailing_of g) in *. set (fr := full_regions_of g) in *.
  clearbody ps rhp rmp tr fr.
  destruct (0 <? tr) eqn:T.
  - assert (G : DatabaseLayout_len_guard (mkDatabaseLayout (mkRegionLayout rmp rhp ps) fr (Some (mkRegionLayout tr rhp ps))) = true).
    { unfold DatabaseLayout_len_guard, DatabaseLayout_region_base_address_guard, DatabaseLayout_region_layout_guard,
        DatabaseLayout_num_regions. cbn. rewrite N.add_sub, N.eqb_refl. cbn.
      replace (fr <? fr + 1) with true by (symmetry; apply N.ltb_lt; lia). reflexivity. }
    split; [|exact G]. rewrite dl_len_is_model by exact G.
    unfold dl_len, dl_of, dl_num_regions, dl_region_base, dl_region_layout, rl_len, rl_usable, rl_of. cbn.
    rewrite N.add_sub, N.eqb_refl. cbn. lia.
  - assert (F1 : 1 <= fr) by lia.
    assert (G : DatabaseLayout_len_guard (mkDatabaseLayout (mkRegionLayout rmp rhp ps) fr None) = true).
    { unfold DatabaseLayout_len_guard, DatabaseLayout_region_base_address_guard, DatabaseLayout_region_layout_guard,
        DatabaseLayout_num_regions. cbn.
      replace (fr - 1 <? fr) with true by (symmetry; apply N.ltb_lt; lia).
      replace (fr - 1 =? fr) with false by (symmetry; apply N.eqb_neq; lia). reflexivity. }
    split; [|exact G]. rewrite dl_len_is_model by exact G.
    unfold dl_len, dl_of, dl_num_regions, dl_region_base, dl_region_layout, rl_len, rl_usable, rl_of. cbn.
    replace (fr - 1 =? fr) with false by (symmetry; apply N.eqb_neq; lia). cbn. nia.
Qed.

(* ---------------------------------------------------------------- TransactionHeader::from_bytes on a slot *)
Lemma slot_version_is_model : forall s, Header.slot_version s = Fns.slot_version s.
Proof. tie slot_version_is_model. reflexivity. Qed.

Lemma slot_txid_is_model : forall s, Header.slot_txid s = Fns.slot_transaction_id s.
Proof. tie slot_txid_is_model. reflexivity. Qed.

(* the bytes the checksum covers, and the stored checksum behind them (a 128-byte slot) *)
Lemma slot_checksum_split_is_model : forall s : bytes, slen s = TRANSACTION_SIZE ->
  firstn CKS_OFF s = slot_checksummed_bytes s /\ le_decode (skipn CKS_OFF s) = slot_stored_checksum s.
Proof. tie slot_checksum_split_is_model.
  intros s L. split; [reflexivity|]. unfold slot_stored_checksum, slice, CKS_OFF.
  f_equal. symmetry. apply firstn_all2. rewrite skipn_length. unfold slen, TRANSACTION_SIZE in L.
  vm_compute (N.to_nat _). vm_compute (N.to_nat SLOT_CHECKSUM_OFFSET). lia.
Qed.

(* ---------------------------------------------------------------- select_primary_slot.
   `kept = Some true`: the primary is kept; `Some false`: the slots are swapped; None: open fails.
   The model's `select` (which continues with do_repair's verification `verf`) makes exactly this decision. *)
Section Select.
  Variable H : bytes -> bytes.

  Theorem select_primary_slot_is_model : forall gb s0 s1 verf,
    let prim := if flag gb PRIMARY_BIT then s1 else s0 in
    let sec := if flag gb PRIMARY_BIT then s0 else s1 in
    select H gb s0 s1 verf =
    match UnrepairedDatabaseHeader_select_primary_slot (flag gb TWO_PHASE_COMMIT) (negb (cks_ok H prim))
            (negb (cks_ok H sec)) (slot_txid prim) (slot_txid sec) with
    | None => None
    | Some true => if flag gb TWO_PHASE_COMMIT then (if verf prim then Some prim else None) else try2 verf prim sec
    | Some false => try2 verf sec prim
    end.
  Proof. tie select_primary_slot_is_model.
    intros gb s0 s1 verf prim sec. unfold select, UnrepairedDatabaseHeader_select_primary_slot.
    fold prim sec.
    destruct (flag gb TWO_PHASE_COMMIT).
    - destruct (cks_ok H prim); reflexivity.
    - destruct (cks_ok H prim); cbn [negb].
      + destruct (slot_txid prim <? slot_txid sec); cbn [andb]; [|reflexivity].
        destruct (cks_ok H sec); reflexivity.
      + destruct (cks_ok H sec); reflexivity.
  Qed.
End Select.
