(* Hand-written helpers used by the GENERATED file Gen/Fns.v (tools/gen_fns.py), part B: the meaning given to
   byte slices (`&[u8]`, `[u8; n]` buffers), to `for i in a..b` loops and to `uN::from(bool)`.
   Definitions only; facts about them (and the bridges to the slicing functions of Format/Codec.v and
   Storage/Header.v) are in Gen/FnsLibBP.v. *)
From Coq Require Import NArith List Bool.
Import ListNotations.
Open Scope N_scope.

(* x.len() *)
Definition slen (l : list N) : N := N.of_nat (length l).
(* x[i]   (i < len is a guard conjunct) *)
Definition byte_at (l : list N) (i : N) : N := nth (N.to_nat i) l 0.
(* &x[a..]  &x[..b]  &x[a..b]   (the bounds checks are guard conjuncts) *)
Definition slice_from (l : list N) (a : N) : list N := skipn (N.to_nat a) l.
Definition slice_to (l : list N) (b : N) : list N := firstn (N.to_nat b) l.
Definition slice (l : list N) (a b : N) : list N := firstn (N.to_nat (b - a)) (skipn (N.to_nat a) l).
(* x.get(a..b): None when a > b or b > len *)
Definition slice_get (l : list N) (a b : N) : option (list N) :=
  if (a <=? b) && (b <=? slen l) then Some (slice l a b) else None.
(* [v; n] *)
Definition rep (v n : N) : list N := repeat v (N.to_nat n).
(* x[i] = v *)
Definition set_byte (l : list N) (i v : N) : list N :=
  firstn (N.to_nat i) l ++ v :: skipn (S (N.to_nat i)) l.
(* x[a..a+len src].copy_from_slice(src) *)
Definition splice (l : list N) (a : N) (src : list N) : list N :=
  firstn (N.to_nat a) l ++ src ++ skipn (N.to_nat a + length src) l.
(* uN::from(b) *)
Definition b2n (b : bool) : N := if b then 1 else 0.

(* for i in a..b { s = body i s } *)
Fixpoint for_nat {S : Type} (n : nat) (i : N) (body : N -> S -> S) (s : S) : S :=
  match n with
  | O => s
  | Datatypes.S n' => for_nat n' (N.succ i) body (body i s)
  end.
Definition for_range {S : Type} (a b : N) (body : N -> S -> S) (s : S) : S :=
  for_nat (N.to_nat (b - a)) a body s.
