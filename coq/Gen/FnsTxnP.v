(* The free horizons of the ownership model (Txn/Own.v, used by C02 / C05 / C06 / C11) and the savepoint id
   allocation of Savepoint/Model.v (C07) are equal to the expressions generated from transactions.rs
   (durable_commit, non_durable_commit) and transaction_tracker.rs (SavepointId::next) (Gen/Fns.v). *)
From Coq Require Import List NArith Bool Lia.
From RV Require Import Gen.Consts Gen.FnsLib Gen.FnsLibP Gen.FnsLibB Gen.Fns.
From RV Require Import Gen.FnsHorizonP Txn.PSet Txn.Own Savepoint.Model.
Import ListNotations.
Open Scope N_scope.

(* tracker.allocate_savepoint: `state.next_savepoint_id.next()` is the model's fresh_id *)
Lemma savepoint_id_next_is_model : forall s : Savepoint.Model.st,
  Savepoint.Model.fresh_id s = SavepointId_next (Savepoint.Model.next_id s).
Proof. tie savepoint_id_next_is_model. reflexivity. Qed.

(* ---- Txn/Own.v: horizon / nd_horizon *)
Lemma own_horizon_is_model : forall dflt s,
  Own.horizon dflt s = durable_commit_free_until (minN (live_ids s)) dflt.
Proof. tie own_horizon_is_model. reflexivity. Qed.

Lemma own_nd_horizon_is_model : forall dflt s,
  Own.nd_horizon dflt s
  = non_durable_commit_free_until (minN (filter (fun r => memN r (map fst (pend s))) (map ptxn (pins s)))) dflt.
Proof. tie own_nd_horizon_is_model. reflexivity. Qed.

