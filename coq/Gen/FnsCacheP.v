(* The lock striping and the write-buffer budget test of the cache model (Storage/Cache.v, used by C02 / C08) are
   the expressions generated from cached_file.rs (Gen/Fns.v). *)
From Coq Require Import List NArith Bool.
From RV Require Import Base.Bytes Gen.Consts Gen.FnsLib Gen.FnsLibP Gen.FnsLibB Gen.Fns Storage.Backend Storage.Cache.
Open Scope N_scope.

Lemma cache_stripes_is_model : Cache.STRIPES = PagedCachedFile_lock_stripes /\ N.of_nat Cache.NSTRIPES = PagedCachedFile_lock_stripes.
Proof. tie cache_stripes_is_model. split; reflexivity. Qed.

Lemma cache_stripe_is_model : forall off, Cache.stripe off = cache_stripe_of off.
Proof. tie cache_stripe_is_model. reflexivity. Qed.

(* rule 1 of write(): the buffer exceeds half of the budget once the new page is counted *)
Lemma cache_write_over_half_is_model : forall c s0 len,
  (max_cache c / 2 <? wb_bytes (set_wbb s0 (wb_bytes s0 + len))) = cache_write_over_half (wb_bytes s0) len (max_cache c).
Proof. tie cache_write_over_half_is_model. reflexivity. Qed.
