(* Hand-written helpers used by the GENERATED file Gen/Fns.v (tools/gen_fns.py): the meaning given to the
   Rust library methods of the translated subset, on unbounded N.  Definitions only; facts about them are
   in Gen/FnsLibP.v.  `w` is the bit width of the Rust integer type of the receiver. *)
From Coq Require Import NArith List Bool.
Import ListNotations.
Open Scope N_scope.

Definition isSome {A} (o : option A) : bool := match o with Some _ => true | None => false end.
Definition isNone {A} (o : option A) : bool := match o with Some _ => false | None => true end.
Definition unwrap_or {A} (o : option A) (d : A) : A := match o with Some x => x | None => d end.

(* uN::div_ceil:  d = self / rhs; r = self % rhs; if r > 0 { d + 1 } else { d }   (rhs = 0 panics in Rust) *)
Definition div_ceil (a b : N) : N := if 0 <? a mod b then a / b + 1 else a / b.

(* uN::next_multiple_of:  match self % rhs { 0 => self, r => self + (rhs - r) }   (rhs = 0 panics in Rust) *)
Definition next_multiple_of (a b : N) : N := if a mod b =? 0 then a else a + (b - a mod b).

(* uN::is_power_of_two: exactly one bit set *)
Definition is_power_of_two (x : N) : bool :=
  match x with N0 => false | Npos p => Pos.eqb p (Pos.shiftl 1 (N.log2 (Npos p))) end.

(* uN::next_power_of_two: smallest power of two >= x (1 for 0); overflow not modelled *)
Definition next_power_of_two (x : N) : N := 2 ^ N.log2_up x.

(* uN::trailing_zeros (w for 0) *)
Fixpoint pos_trailing_zeros (p : positive) : N :=
  match p with xO q => N.succ (pos_trailing_zeros q) | _ => 0 end.
Definition trailing_zeros (w : N) (x : N) : N :=
  match x with N0 => w | Npos p => pos_trailing_zeros p end.

(* uN::leading_zeros for x < 2^w *)
Definition leading_zeros (w : N) (x : N) : N := w - N.size x.

(* `while c { body }` over the tuple of assigned variables, at most `fuel` rounds *)
Fixpoint while_fuel_nat {S : Type} (fuel : nat) (cond : S -> bool) (body : S -> S) (s : S) : S :=
  match fuel with
  | O => s
  | Datatypes.S f => if cond s then while_fuel_nat f cond body (body s) else s
  end.
Definition while_fuel {S : Type} (fuel : N) (cond : S -> bool) (body : S -> S) (s : S) : S :=
  while_fuel_nat (N.to_nat fuel) cond body s.
