(* The hand-written varint length header of complex_types.rs (Types/KeyTypes.v, used by C15) is equal to
   the function generated from encode_varint_len (Gen/Fns.v): what the code appends to `output`. *)
From Coq Require Import List NArith Bool Lia.
From RV Require Import Base.Bytes Gen.FnsLib Gen.FnsLibP Gen.Fns Types.KeyTypes.
Import ListNotations.
Open Scope N_scope.

Lemma encode_varint_len_is_model : forall len out,
  Fns.encode_varint_len len out = out ++ KeyTypes.encode_varint_len len.
Proof. tie encode_varint_len_is_model.
  intros. unfold Fns.encode_varint_len, KeyTypes.encode_varint_len.
  destruct (len <? 254); [reflexivity|].
  destruct (len <=? 65535); rewrite <- app_assoc; reflexivity.
Qed.

(* the checked conversions (`try_into().unwrap()`) of the code succeed for every length below 4 GiB *)
Lemma encode_varint_len_guard_u32 : forall len out, len < 2 ^ 32 -> encode_varint_len_guard len out = true.
Proof. tie encode_varint_len_guard_u32.
  intros len out H. unfold encode_varint_len_guard.
  destruct (len <? 254) eqn:A.
  - apply N.ltb_lt in A. cbn [andb]. apply N.ltb_lt. lia.
  - destruct (len <=? 65535) eqn:B; cbn [andb]; apply N.ltb_lt.
    + apply N.leb_le in B. lia.
    + exact H.
Qed.
