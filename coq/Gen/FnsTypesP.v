(* The hand-written varint length header of complex_types.rs (Types/KeyTypes.v, used by C15) is equal to
   the function generated from encode_varint_len (Gen/Fns.v): what the code appends to `output`. *)
From Coq Require Import List NArith Bool Lia.
From RV Require Import Base.Bytes Gen.Consts Gen.FnsLib Gen.FnsLibP Gen.FnsLibB Gen.FnsLibBP Gen.Fns Types.KeyTypes.
Import ListNotations.
Open Scope N_scope.

Lemma encode_varint_len_is_model : forall len out,
  Fns.encode_varint_len len out = out ++ KeyTypes.encode_varint_len len.
Proof. tie encode_varint_len_is_model.
  intros. unfold Fns.encode_varint_len, KeyTypes.encode_varint_len.
  destruct (len <? 254); [reflexivity|].
  destruct (len <=? 65535); rewrite <- app_assoc; reflexivity.
Qed.

(* the checked conversions (`try_into().unwrap()`) of the code succeed for every length below 4 GiB *)
Lemma encode_varint_len_guard_u32 : forall len out, len < 2 ^ 32 -> encode_varint_len_guard len out = true.
Proof. tie encode_varint_len_guard_u32.
  intros len out H. unfold encode_varint_len_guard.
  destruct (len <? 254) eqn:A.
  - apply N.ltb_lt in A. cbn [andb]. apply N.ltb_lt. lia.
  - destruct (len <=? 65535) eqn:B; cbn [andb]; apply N.ltb_lt.
    + apply N.leb_le in B. lia.
    + exact H.
Qed.

(* ---------------------------------------------------------------- wave 2 *)
(* decode_varint_len: the model returns (length, rest of the data), the code (length, bytes consumed) *)
Lemma decode_varint_len_is_model : forall d, all_bytes d = true ->
  KeyTypes.decode_varint_len d =
  if decode_varint_len_guard d
  then Some (fst (Fns.decode_varint_len d), slice_from d (snd (Fns.decode_varint_len d)))
  else None.
Proof. tie decode_varint_len_is_model.
  intros [|b r] Hb; [reflexivity|].
  cbn [all_bytes forallb] in Hb. apply andb_prop in Hb as [Hb _]. unfold is_byte in Hb. apply N.ltb_lt in Hb.
  unfold KeyTypes.decode_varint_len, decode_varint_len_guard, Fns.decode_varint_len.
  change (byte_at (b :: r) 0) with b. rewrite slen_cons.
  replace (0 <? N.succ (slen r)) with true by (symmetry; apply N.ltb_lt; lia). cbn [andb].
  replace (0 <=? b) with true by (symmetry; apply N.leb_le; lia). cbn [andb].
  rewrite N.ltb_antisym. destruct (b <=? 253) eqn:A.
  - replace (254 <=? b) with false by (apply N.leb_le in A; symmetry; apply N.leb_gt; lia). reflexivity.
  - replace (254 <=? b) with true by (apply N.leb_gt in A; symmetry; apply N.leb_le; lia). cbn [negb].
    destruct (b =? 254) eqn:B.
    + change (slice (b :: r) 1 3) with (firstn 2 r). change (slice_from (b :: r) 3) with (skipn 2 r).
      unfold slen. rewrite firstn_length.
      destruct (Nat.leb 2 (length r)) eqn:L.
      * apply Nat.leb_le in L. replace (3 <=? N.succ (N.of_nat (length r))) with true by (symmetry; apply N.leb_le; lia).
        replace (N.of_nat (Nat.min 2 (length r)) =? 2) with true by (symmetry; apply N.eqb_eq; lia). reflexivity.
      * apply Nat.leb_gt in L. replace (3 <=? N.succ (N.of_nat (length r))) with false by (symmetry; apply N.leb_gt; lia).
        reflexivity.
    + change (slice (b :: r) 1 5) with (firstn 4 r). change (slice_from (b :: r) 5) with (skipn 4 r).
      unfold slen. rewrite firstn_length.
      destruct (Nat.leb 4 (length r)) eqn:L.
      * apply Nat.leb_le in L. replace (5 <=? N.succ (N.of_nat (length r))) with true by (symmetry; apply N.leb_le; lia).
        replace (N.of_nat (Nat.min 4 (length r)) =? 4) with true by (symmetry; apply N.eqb_eq; lia). reflexivity.
      * apply Nat.leb_gt in L. replace (5 <=? N.succ (N.of_nat (length r))) with false by (symmetry; apply N.leb_gt; lia).
        reflexivity.
Qed.

(* little-endian unsigned integer keys (instances of the le_value! / le_impl! macros of types.rs) *)
Lemma le_uint_compare_is_model : forall w a b,
  kcompare (TU w) a b = le_u64_compare a b /\ kcompare (TU w) a b = le_u32_compare a b
  /\ kcompare (TU w) a b = le_u128_compare a b.
Proof. tie le_uint_compare_is_model. intros; repeat split. Qed.

Lemma le_uint_from_bytes_is_model : forall d,
  decode (TU 8) d = (if le_u64_from_bytes_guard d then Some (VU (le_u64_from_bytes d)) else None)
  /\ decode (TU 4) d = (if le_u32_from_bytes_guard d then Some (VU (le_u32_from_bytes d)) else None)
  /\ decode (TU 16) d = (if le_u128_from_bytes_guard d then Some (VU (le_u128_from_bytes d)) else None).
Proof. tie le_uint_from_bytes_is_model.
  intros d. unfold le_u64_from_bytes_guard, le_u32_from_bytes_guard, le_u128_from_bytes_guard, slen. cbn [decode andb].
  repeat split.
  - destruct (Nat.eqb (length d) 8) eqn:E.
    + apply Nat.eqb_eq in E. rewrite E. reflexivity.
    + apply Nat.eqb_neq in E. replace (N.of_nat (length d) =? 8) with false by (symmetry; apply N.eqb_neq; lia). reflexivity.
  - destruct (Nat.eqb (length d) 4) eqn:E.
    + apply Nat.eqb_eq in E. rewrite E. reflexivity.
    + apply Nat.eqb_neq in E. replace (N.of_nat (length d) =? 4) with false by (symmetry; apply N.eqb_neq; lia). reflexivity.
  - destruct (Nat.eqb (length d) 16) eqn:E.
    + apply Nat.eqb_eq in E. rewrite E. reflexivity.
    + apply Nat.eqb_neq in E. replace (N.of_nat (length d) =? 16) with false by (symmetry; apply N.eqb_neq; lia). reflexivity.
Qed.

(* the classification byte of a TypeName: the constants of Gen/Consts.v, and from_byte inverts to_byte *)
Lemma type_classification_is_model :
  TypeClassification_to_byte TypeClassification_Internal = TYPE_CLASS_INTERNAL
  /\ TypeClassification_to_byte TypeClassification_UserDefined = TYPE_CLASS_USER
  /\ TypeClassification_to_byte TypeClassification_Internal2 = TYPE_CLASS_INTERNAL2
  /\ TypeClassification_to_byte TypeClassification_Internal3 = TYPE_CLASS_INTERNAL3
  /\ (forall c, TypeClassification_from_byte (TypeClassification_to_byte c) = c
              /\ TypeClassification_from_byte_guard (TypeClassification_to_byte c) = true).
Proof. tie type_classification_is_model. repeat split; destruct c; reflexivity. Qed.
