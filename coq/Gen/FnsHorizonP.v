(* TransactionId::next / new / raw_id (transaction_tracker.rs) and the free horizon of the post-commit epilogue
   (transactions.rs, process_data_freed_pages_after_commit) as generated in Gen/Fns.v, in closed form. *)
From Coq Require Import List NArith Bool Lia.
From RV Require Import Gen.Consts Gen.FnsLib Gen.FnsLibP Gen.FnsLibB Gen.Fns.
Import ListNotations.
Open Scope N_scope.

Lemma transaction_id_next_is_model : forall t, TransactionId_next t = t + 1.
Proof. tie transaction_id_next_is_model. reflexivity. Qed.

Lemma transaction_id_new_raw_id_is_model : forall t, TransactionId_raw_id (TransactionId_new t) = t.
Proof. tie transaction_id_new_raw_id_is_model. reflexivity. Qed.

(* the epilogue of a durable commit: next id, clamped to the savepoint horizon kept by the purge
   (u64::MAX = no savepoint) *)
Definition sph_u64 (o : option N) : N := match o with Some h => h | None => 18446744073709551615 end.

Lemma epilogue_free_until_is_model : forall ol txid sph,
  match sph with Some h => h < 18446744073709551615 | None => True end ->
  epilogue_free_until ol txid (sph_u64 sph)
  = let e0 := match ol with Some r => r + 1 | None => txid + 1 end in
    match sph with Some h => N.min e0 (h + 1) | None => e0 end.
Proof. tie epilogue_free_until_is_model.
  intros ol txid [h|] Hh; unfold epilogue_free_until, sph_u64, TransactionId_next, TransactionId_new; cbv zeta.
  - replace (h =? 18446744073709551615) with false by (symmetry; apply N.eqb_neq; lia). reflexivity.
  - reflexivity.
Qed.

