(* The byte-level readers of the file format model (Format/Codec.v, Pages.v, Records.v, KeyCmp.v -- used by
   C10 / C19) are equal to the functions generated from header.rs / btree_base.rs / transactions.rs /
   savepoint.rs / multimap_btree.rs / transaction_tracker.rs / types.rs (Gen/Fns.v): every field the decoder of the
   model reads is read by the code at the same offset, with the same width, and means the same. *)
From Coq Require Import List NArith Bool Lia String.
From RV Require Import Base.Bytes Base.BytesP Gen.Consts Gen.FnsLib Gen.FnsLibP.
From RV Require Import Gen.FnsLibB Gen.FnsLibBP Gen.Fns.
From RV Require Import Format.Codec Format.Pages Format.Records Format.KeyCmp Gen.FnsFormatP.
Import ListNotations.
Open Scope N_scope.

(* ---------------------------------------------------------------- slicing of the model = slicing of the code *)
Lemma lenN_slen (l : bytes) : lenN l = slen l.
Proof. reflexivity. Qed.

Lemma dropN_skipn {A} (l : list A) : forall n, dropN l n = skipn (N.to_nat n) l.
Proof.
  induction l as [|x l IH]; intros n; cbn [dropN].
  - now rewrite skipn_nil.
  - destruct (n =? 0) eqn:E.
    + apply N.eqb_eq in E. subst. reflexivity.
    + apply N.eqb_neq in E. rewrite IH.
      replace (N.to_nat n) with (S (N.to_nat (N.pred n))) by lia. reflexivity.
Qed.

Lemma takeN_firstn {A} (l : list A) : forall n, takeN l n = firstn (N.to_nat n) l.
Proof.
  induction l as [|x l IH]; intros n; cbn [takeN].
  - now rewrite firstn_nil.
  - destruct (n =? 0) eqn:E.
    + apply N.eqb_eq in E. subst. reflexivity.
    + apply N.eqb_neq in E. rewrite IH.
      replace (N.to_nat n) with (S (N.to_nat (N.pred n))) by lia. reflexivity.
Qed.

Lemma dropN_slice_from (l : bytes) a : dropN l a = slice_from l a.
Proof. apply dropN_skipn. Qed.

Lemma takeN_slice_to (l : bytes) b : takeN l b = slice_to l b.
Proof. apply takeN_firstn. Qed.

Lemma sub_slice (l : bytes) off w : off + w <= slen l -> sub l off w = Some (slice l off (off + w)).
Proof.
  intros H. unfold sub. rewrite dropN_skipn, takeN_firstn.
  replace (firstn (N.to_nat w) (skipn (N.to_nat off) l)) with (slice l off (off + w))
    by (unfold slice; do 2 f_equal; lia).
  change (lenN (slice l off (off + w))) with (slen (slice l off (off + w))).
  rewrite slen_slice by lia. replace (off + w - off) with w by lia. now rewrite N.eqb_refl.
Qed.

Lemma sub_inv (l : bytes) off w s : 0 < w -> sub l off w = Some s -> off + w <= slen l /\ s = slice l off (off + w).
Proof.
  intros Hw. unfold sub. rewrite dropN_skipn, takeN_firstn.
  destruct (lenN _ =? w) eqn:E; [|discriminate]. intros [= <-].
  apply N.eqb_eq in E. unfold lenN in E. rewrite firstn_length, skipn_length in E.
  split.
  - unfold slen. lia.
  - unfold slice. do 2 f_equal. lia.
Qed.

Lemma uint_at_slice w (l : bytes) off :
  off + w <= slen l -> uint_at w l off = Some (le_decode (slice l off (off + w))).
Proof. intros H. unfold uint_at. now rewrite sub_slice. Qed.

Lemma uint_at_inv w (l : bytes) off v : 0 < w ->
  uint_at w l off = Some v -> off + w <= slen l /\ v = le_decode (slice l off (off + w)).
Proof.
  intros Hw. unfold uint_at. destruct (sub l off w) eqn:E; [|discriminate]. intros [= <-].
  apply sub_inv in E as [H ->]; auto.
Qed.

Lemma u8_at_byte (l : bytes) off : off < slen l -> u8_at l off = Some (byte_at l off).
Proof.
  intros H. unfold u8_at, byte_at. rewrite dropN_skipn.
  assert (Hn : (N.to_nat off < length l)%nat) by (unfold slen in H; lia). clear H.
  revert Hn. generalize (N.to_nat off) as n. induction l as [|x l IH]; intros n Hn; cbn [length] in Hn; [lia|].
  destruct n; [reflexivity|]. cbn [skipn nth]. apply IH. lia.
Qed.

Lemma u8_at_inv (l : bytes) off v : u8_at l off = Some v -> off < slen l /\ v = byte_at l off.
Proof.
  intros H. destruct (N.lt_ge_cases off (slen l)) as [L|G].
  - rewrite u8_at_byte in H by exact L. inversion H. auto.
  - unfold u8_at in H. rewrite dropN_skipn, skipn_all2 in H by (unfold slen in G; lia). discriminate.
Qed.

(* ---------------------------------------------------------------- header.rs: get_u32 / get_u64 *)
Lemma get_u32_is_model : forall data, get_u32_guard data = true -> u32_at data 0 = Some (Fns.get_u32 data).
Proof. tie get_u32_is_model.
  intros data G. unfold get_u32_guard in G. cbn [andb] in G. apply andb_prop in G as [G _].
  apply N.leb_le in G. unfold u32_at. rewrite uint_at_slice by lia. unfold Fns.get_u32.
  now rewrite slice_0.
Qed.

Lemma get_u64_is_model : forall data, get_u64_guard data = true -> u64_at data 0 = Some (Fns.get_u64 data).
Proof. tie get_u64_is_model.
  intros data G. unfold get_u64_guard in G. cbn [andb] in G. apply andb_prop in G as [G _].
  apply N.leb_le in G. unfold u64_at. rewrite uint_at_slice by lia. unfold Fns.get_u64.
  now rewrite slice_0.
Qed.

(* a u32 / u64 field read through a tail slice `&data[OFF..]` *)
Lemma get_u32_at (data : bytes) off v : u32_at data off = Some v -> Fns.get_u32 (slice_from data off) = v.
Proof.
  intros H. apply uint_at_inv in H as [_ ->]; [|lia]. unfold Fns.get_u32. now rewrite slice_from_slice_to.
Qed.

Lemma get_u64_at (data : bytes) off v : u64_at data off = Some v -> Fns.get_u64 (slice_from data off) = v.
Proof.
  intros H. apply uint_at_inv in H as [_ ->]; [|lia]. unfold Fns.get_u64. now rewrite slice_from_slice_to.
Qed.

(* ---------------------------------------------------------------- btree_base.rs: BtreeHeader *)
Definition bhdr_of (h : BtreeHeader) : bhdr :=
  mkBh (pagenum_of (BtreeHeader_f_root h)) (BtreeHeader_f_checksum h) (BtreeHeader_f_length h).

Lemma bhdr_size_is_model : BtreeHeader_serialized_size = BHDR_SIZE.
Proof. tie bhdr_size_is_model. reflexivity. Qed.

Lemma firstn_all_len {A} (l : list A) n : length l = n -> firstn n l = l.
Proof. intros <-. apply firstn_all. Qed.

Lemma bhdr_from_le_bytes_is_model : forall b, all_bytes b = true -> lenN b = BHDR_SIZE ->
  decode_bhdr b = Some (bhdr_of (BtreeHeader_from_le_bytes b)).
Proof. tie bhdr_from_le_bytes_is_model.
  intros b Hb Hl. unfold decode_bhdr, decode_pagenum. rewrite Hl, N.eqb_refl.
  assert (L : length b = 32%nat) by (unfold lenN, BHDR_SIZE in Hl; lia).
  rewrite !takeN_firstn, !dropN_skipn.
  assert (L8 : lenN (firstn (N.to_nat 8) b) = 8) by (unfold lenN; rewrite firstn_length; lia).
  rewrite L8, N.eqb_refl. f_equal.
  unfold bhdr_of, BtreeHeader_from_le_bytes, PageNumber_serialized_size.
  cbn [BtreeHeader_f_root BtreeHeader_f_checksum BtreeHeader_f_length].
  rewrite pagenum_of_u64_is_model.
  - unfold slice_to, slice. change (8 + 16 - 8) with 16. change (8 + 16 + 8 - (8 + 16)) with 8.
    f_equal. f_equal. symmetry. apply firstn_all_len. rewrite skipn_length. rewrite L. reflexivity.
  - pose proof (le_decode_lt (slice_to b 8) (all_bytes_slice_to b 8 Hb)) as B.
    rewrite slen_slice_to in B by (unfold slen; lia). exact B.
Qed.

Lemma bhdr_from_le_bytes_guard_holds : forall b, lenN b = BHDR_SIZE -> BtreeHeader_from_le_bytes_guard b = true.
Proof. tie bhdr_from_le_bytes_guard_holds.
  intros b Hl. assert (L : slen b = 32) by exact Hl.
  unfold BtreeHeader_from_le_bytes_guard, PageNumber_serialized_size. rewrite pagenum_from_le_guard.
  rewrite slen_slice_to by lia. rewrite !slen_slice by lia. rewrite L. reflexivity.
Qed.

Lemma splice_at pre old post src a :
  a = slen pre -> length old = length src -> splice (pre ++ old ++ post) a src = pre ++ src ++ post.
Proof. intros -> H. now apply splice_app. Qed.

Lemma bhdr_to_le_bytes_is_model : forall h, BtreeHeader_to_le_bytes h = encode_bhdr (bhdr_of h).
Proof. tie bhdr_to_le_bytes_is_model.
  intros h. unfold BtreeHeader_to_le_bytes, encode_bhdr, encode_pagenum, bhdr_of. cbn [bh_root bh_sum bh_len].
  rewrite <- pagenum_to_u64_is_model.
  generalize (PageNumber_to_le_bytes (BtreeHeader_f_root h)) as r.
  generalize (BtreeHeader_f_checksum h) as c. generalize (BtreeHeader_f_length h) as n. intros n c r.
  change (rep 0 BtreeHeader_serialized_size) with ([] ++ repeat 0 8 ++ repeat 0 24)%list.
  rewrite (splice_at [] (repeat 0 8) (repeat 0 24) (le_encode 8 r) 0);
    [|reflexivity|now rewrite le_encode_length].
  cbn [app].
  change (repeat 0 24) with (repeat 0 16 ++ repeat 0 8)%list.
  rewrite (splice_at (le_encode 8 r) (repeat 0 16) (repeat 0 8) (le_encode 16 c) PageNumber_serialized_size);
    [|now rewrite slen_le_encode|now rewrite le_encode_length].
  rewrite app_assoc.
  rewrite <- (app_nil_r (repeat 0 8)) at 1.
  rewrite (splice_at (le_encode 8 r ++ le_encode 16 c) (repeat 0 8) [] (le_encode 8 n) (PageNumber_serialized_size + 16));
    [|now rewrite slen_app, !slen_le_encode|now rewrite le_encode_length].
  now rewrite app_nil_r, <- app_assoc.
Qed.

(* ---------------------------------------------------------------- header.rs: one commit slot.
   Whatever the model's decode_slot reads out of the 128 bytes of a slot, TransactionHeader::from_bytes reads
   the same thing: version byte, the two optional roots behind their non-null flags, the transaction id, the
   stored checksum, and the range of bytes the checksum covers. *)
Lemma opt_bhdr_is_model : forall (b : bytes) flag off ub u,
  all_bytes b = true -> off + BHDR_SIZE <= slen b ->
  sub b off BHDR_SIZE = Some ub -> decode_opt_bhdr flag ub = Some u ->
  option_map bhdr_of (if negb (flag =? 0) then Some (BtreeHeader_from_le_bytes (slice b off (off + BtreeHeader_serialized_size))) else None) = u.
Proof. tie opt_bhdr_is_model.
  intros b flag off ub u Hb Hoff Hs Hd. apply sub_inv in Hs as [_ ->]; [|reflexivity].
  unfold decode_opt_bhdr in Hd. destruct (flag =? 0); cbn [negb].
  - now inversion Hd.
  - rewrite bhdr_from_le_bytes_is_model in Hd.
    + inversion Hd. reflexivity.
    + now apply all_bytes_slice.
    + change (lenN (slice b off (off + BHDR_SIZE))) with (slen (slice b off (off + BHDR_SIZE))).
      rewrite slen_slice by lia. lia.
Qed.

Theorem decode_slot_fields_is_model : forall b s, all_bytes b = true -> decode_slot b = Some s ->
  Fns.slot_version b = sl_version s
  /\ slot_stored_checksum b = sl_sum s
  /\ slot_transaction_id b = sl_txid s
  /\ option_map bhdr_of (slot_user_root b) = sl_user s
  /\ option_map bhdr_of (slot_system_root b) = sl_system s.
Proof. tie decode_slot_fields_is_model.
  intros b s Hb H. unfold decode_slot in H.
  destruct (lenN b =? TRANSACTION_SIZE) eqn:L; [|discriminate]. apply N.eqb_eq in L.
  assert (L' : slen b = 128) by exact L.
  destruct (u8_at b VERSION_OFFSET) as [v|] eqn:E1; [|discriminate].
  destruct (u8_at b USER_ROOT_NON_NULL_OFFSET) as [fu|] eqn:E2; [|discriminate].
  destruct (u8_at b SYSTEM_ROOT_NON_NULL_OFFSET) as [fs|] eqn:E3; [|discriminate].
  destruct (sub b USER_ROOT_OFFSET BHDR_SIZE) as [ub|] eqn:E4; [|discriminate].
  destruct (sub b SYSTEM_ROOT_OFFSET BHDR_SIZE) as [sb|] eqn:E5; [|discriminate].
  destruct (u64_at b TRANSACTION_ID_OFFSET) as [tx|] eqn:E6; [|discriminate].
  destruct (u128_at b SLOT_CHECKSUM_OFFSET) as [ck|] eqn:E7; [|discriminate].
  destruct (decode_opt_bhdr fu ub) as [u|] eqn:E8; [|discriminate].
  destruct (decode_opt_bhdr fs sb) as [sy|] eqn:E9; [|discriminate].
  inversion H; subst s; clear H. cbn [sl_version sl_sum sl_txid sl_user sl_system].
  apply u8_at_inv in E1 as [_ ->]. apply u8_at_inv in E2 as [_ ->]. apply u8_at_inv in E3 as [_ ->].
  repeat split.
  - apply uint_at_inv in E7 as [_ ->]; [reflexivity|lia].
  - unfold slot_transaction_id. now apply get_u64_at.
  - unfold slot_user_root. eapply opt_bhdr_is_model; [exact Hb| |exact E4|exact E8].
    rewrite L'. vm_compute. discriminate.
  - unfold slot_system_root. eapply opt_bhdr_is_model; [exact Hb| |exact E5|exact E9].
    rewrite L'. vm_compute. discriminate.
Qed.

(* the bytes the slot checksum covers *)
Lemma slot_checksummed_bytes_is_model : forall b,
  slot_sum_computed b = Xxh3.xxh3_128 (slot_checksummed_bytes b).
Proof. tie slot_checksummed_bytes_is_model.
  intros b. unfold slot_sum_computed, slot_checksummed_bytes. now rewrite takeN_slice_to.
Qed.

(* the guards (bounds checks) of the slot readers hold on any 128 bytes *)
Ltac bounds L := try rewrite L; vm_compute; discriminate.

Lemma slot_guards_hold : forall b, slen b = TRANSACTION_SIZE ->
  slot_version_guard b = true /\ slot_stored_checksum_guard b = true /\ slot_transaction_id_guard b = true
  /\ slot_user_root_guard b = true /\ slot_system_root_guard b = true /\ slot_checksummed_bytes_guard b = true.
Proof. tie slot_guards_hold.
  intros b L.
  unfold slot_version_guard, slot_stored_checksum_guard, slot_transaction_id_guard, slot_user_root_guard,
    slot_system_root_guard, slot_checksummed_bytes_guard, get_u64_guard.
  rewrite !bhdr_from_le_bytes_guard_holds
    by (change (lenN ?x) with (slen x); rewrite slen_slice by bounds L; reflexivity).
  rewrite slen_slice by bounds L.
  rewrite slen_slice_to by (rewrite slen_slice_from, L; vm_compute; discriminate).
  rewrite ?slen_slice_from, ?L.
  repeat split; try reflexivity.
  - destruct (negb (byte_at b USER_ROOT_NON_NULL_OFFSET =? 0)); reflexivity.
  - destruct (negb (byte_at b SYSTEM_ROOT_NON_NULL_OFFSET =? 0)); reflexivity.
Qed.

(* ---------------------------------------------------------------- header.rs: the database header.
   The fields UnrepairedDatabaseHeader::from_bytes reads are the ones the model's decode_header decodes. *)
Lemma land_1 x : N.land x 1 = x mod 2.
Proof. change 1 with (N.ones 1). now rewrite N.land_ones. Qed.

Lemma god_primary_is_model : forall god, b2n (negb (N.land god PRIMARY_BIT =? 0)) = god_primary god.
Proof. tie god_primary_is_model.
  intros god. unfold god_primary, PRIMARY_BIT. rewrite land_1.
  pose proof (N.mod_upper_bound god 2 ltac:(lia)) as U. revert U. generalize (god mod 2) as m. intros m U.
  unfold b2n. destruct (m =? 0) eqn:E; cbv [negb].
  - apply N.eqb_eq in E. now rewrite E.
  - apply N.eqb_neq in E. lia.
Qed.

Theorem decode_header_fields_is_model : forall b h, decode_header b = Ok h ->
  header_page_size b = h_psz h
  /\ header_region_header_pages b = h_hdr_pages h
  /\ header_region_max_data_pages b = h_max_pages h
  /\ header_full_regions b = h_full h
  /\ header_trailing_data_pages b = h_trailing h
  /\ header_primary_slot b = god_primary (h_god h)
  /\ header_recovery_required b = god_recovery (h_god h)
  /\ header_two_phase_commit b = god_2pc (h_god h)
  /\ decode_slot (header_slot0_bytes b) = Some (h_slot0 h)
  /\ decode_slot (header_slot1_bytes b) = Some (h_slot1 h).
Proof. tie decode_header_fields_is_model.
  intros b h H. unfold decode_header, bind, guard in H.
  destruct (DB_HEADER_SIZE <=? lenN b) eqn:L; [|discriminate].
  destruct (bytes_eqb _ MAGICNUMBER); [|discriminate].
  destruct (u8_at b GOD_BYTE_OFFSET) as [god|] eqn:E0; [|discriminate].
  destruct (u32_at b PAGE_SIZE_OFFSET) as [psz|] eqn:E1; [|discriminate].
  destruct (u32_at b REGION_HEADER_PAGES_OFFSET) as [hp|] eqn:E2; [|discriminate].
  destruct (u32_at b REGION_MAX_DATA_PAGES_OFFSET) as [mp|] eqn:E3; [|discriminate].
  destruct (u32_at b NUM_FULL_REGIONS_OFFSET) as [fr|] eqn:E4; [|discriminate].
  destruct (u32_at b TRAILING_REGION_DATA_PAGES_OFFSET) as [tr|] eqn:E5; [|discriminate].
  destruct (sub b TRANSACTION_0_OFFSET TRANSACTION_SIZE) as [b0|] eqn:E6; [|discriminate].
  destruct (sub b TRANSACTION_1_OFFSET TRANSACTION_SIZE) as [b1|] eqn:E7; [|discriminate].
  destruct (decode_slot b0) as [s0|] eqn:E8; [|discriminate].
  destruct (decode_slot b1) as [s1|] eqn:E9; [|discriminate].
  inversion H; subst h; clear H.
  cbn [h_god h_psz h_hdr_pages h_max_pages h_full h_trailing h_slot0 h_slot1].
  apply u8_at_inv in E0 as [_ ->].
  apply sub_inv in E6 as [_ ->]; [|reflexivity]. apply sub_inv in E7 as [_ ->]; [|reflexivity].
  unfold header_page_size, header_region_header_pages, header_region_max_data_pages, header_full_regions,
    header_trailing_data_pages.
  rewrite (get_u32_at _ _ _ E1), (get_u32_at _ _ _ E2), (get_u32_at _ _ _ E3), (get_u32_at _ _ _ E4),
    (get_u32_at _ _ _ E5).
  repeat split; try reflexivity; try assumption.
  apply god_primary_is_model.
Qed.

(* the bounds checks of the header readers hold on any buffer of at least DB_HEADER_SIZE bytes *)
Lemma header_guards_hold : forall b, DB_HEADER_SIZE <= slen b ->
  header_page_size_guard b = true /\ header_region_header_pages_guard b = true
  /\ header_region_max_data_pages_guard b = true /\ header_full_regions_guard b = true
  /\ header_trailing_data_pages_guard b = true /\ header_primary_slot_guard b = true
  /\ header_recovery_required_guard b = true /\ header_two_phase_commit_guard b = true
  /\ header_slot0_bytes_guard b = true /\ header_slot1_bytes_guard b = true.
Proof. tie header_guards_hold.
  intros b L. unfold DB_HEADER_SIZE in L.
  assert (G : forall off, off + 4 <= 320 -> (off <=? slen b) && get_u32_guard (slice_from b off) = true).
  { intros off Hoff. unfold get_u32_guard. rewrite slen_slice_to by (rewrite slen_slice_from; lia).
    rewrite slen_slice_from. cbn [andb].
    replace (off <=? slen b) with true by (symmetry; apply N.leb_le; lia).
    replace (4 <=? slen b - off) with true by (symmetry; apply N.leb_le; lia). reflexivity. }
  unfold header_page_size_guard, header_region_header_pages_guard, header_region_max_data_pages_guard,
    header_full_regions_guard, header_trailing_data_pages_guard, header_primary_slot_guard,
    header_recovery_required_guard, header_two_phase_commit_guard, header_slot0_bytes_guard, header_slot1_bytes_guard.
  cbn [andb].
  repeat split; try (apply G; vm_compute; discriminate);
    repeat (apply andb_true_intro; split); try reflexivity;
    try (apply N.ltb_lt; unfold GOD_BYTE_OFFSET; cbn; lia);
    apply N.leb_le; vm_compute (_ + _); lia.
Qed.

(* ---------------------------------------------------------------- btree_base.rs: LeafAccessor offset tables.
   The model's decode_leaf reads the key / value END arrays with read_u32s (or computes fixed_ends for fixed
   widths); LeafAccessor::key_end / value_end read the same entries, and total_length() -- what the leaf checksum
   covers -- is the lf_end of the decoded leaf. *)
Lemma read_u32s_nth (l : bytes) : forall n off xs i, read_u32s l off n = Some xs -> (i < n)%nat ->
  u32_at l (off + 4 * N.of_nat i) = Some (nth i xs 0).
Proof.
  induction n as [|n IH]; intros off xs i H Hi; [lia|].
  cbn [read_u32s] in H. destruct (u32_at l off) as [x|] eqn:E; [|discriminate].
  destruct (read_u32s l (off + 4) n) as [r|] eqn:R; [|discriminate]. inversion H; subst xs; clear H.
  destruct i as [|i].
  - cbn [nth]. now rewrite N.mul_0_r, N.add_0_r.
  - cbn [nth]. rewrite <- (IH (off + 4) r i R) by lia. f_equal. lia.
Qed.

Lemma read_u32s_length (l : bytes) : forall n off xs, read_u32s l off n = Some xs -> length xs = n.
Proof.
  induction n as [|n IH]; intros off xs H; cbn [read_u32s] in H.
  - now inversion H.
  - destruct (u32_at l off); [|discriminate]. destruct (read_u32s l (off + 4) n) eqn:R; [|discriminate].
    inversion H. cbn [length]. f_equal. eapply IH; eauto.
Qed.

Lemma fixed_ends_nth : forall n s w i, (i < n)%nat -> nth i (fixed_ends n s w) 0 = s + w * (N.of_nat i + 1).
Proof.
  induction n as [|n IH]; intros s w i Hi; [lia|]. cbn [fixed_ends].
  destruct i as [|i]; cbn [nth].
  - change (N.of_nat 0) with 0. rewrite N.add_0_l, N.mul_1_r. reflexivity.
  - rewrite IH by lia. rewrite Nat2N.inj_succ. rewrite <- N.add_assoc. f_equal.
    rewrite <- (N.mul_1_r w) at 1. rewrite <- N.mul_add_distr_l. f_equal. lia.
Qed.

Lemma fixed_ends_length : forall n s w, length (fixed_ends n s w) = n.
Proof. induction n as [|n IH]; intros s w; cbn [fixed_ends length]; [reflexivity|]. now rewrite IH. Qed.

Lemma last_nth {A} (l : list A) d : l <> [] -> last l d = nth (length l - 1) l d.
Proof.
  induction l as [|x l IH]; intros H; [congruence|].
  destruct l as [|y l]; [reflexivity|].
  change (last (x :: y :: l) d) with (last (y :: l) d). rewrite IH by discriminate.
  cbn [length]. rewrite !Nat.sub_succ, !Nat.sub_0_r. reflexivity.
Qed.

(* a u32 the model reads at `off` is what the code gets from `page.get(off..off + 4)?` *)
Lemma slice_get_u32 (page : bytes) off x : u32_at page off = Some x ->
  slice_get page off (off + 4) = Some (slice page off (off + 4)) /\ le_decode (slice page off (off + 4)) = x.
Proof.
  intros H. apply uint_at_inv in H as [B ->]; [|lia]. split; [|reflexivity]. apply slice_get_some; lia.
Qed.

Definition leaf_voff (ks : width) (n : N) : N := 4 + match ks with None => 4 * n | Some _ => 0 end.
Definition leaf_kstart (ks vs : width) (n : N) : N := leaf_voff ks n + match vs with None => 4 * n | Some _ => 0 end.

Lemma leaf_key_section_start_is_model : forall ks vs n, LeafAccessor_key_section_start ks n vs = leaf_kstart ks vs n.
Proof. tie leaf_key_section_start_is_model.
  intros [w|] [v|] n; unfold LeafAccessor_key_section_start, leaf_kstart, leaf_voff; cbn [isNone]; lia.
Qed.

Lemma leaf_key_end_var_is_model : forall page vs n kends i,
  read_u32s page 4 (N.to_nat n) = Some kends -> i < n ->
  LeafAccessor_key_end n None vs page i = Some (nth (N.to_nat i) kends 0).
Proof. tie leaf_key_end_var_is_model.
  intros page vs n kends i R Hi. unfold LeafAccessor_key_end, LeafAccessor_num_pairs.
  replace (n <=? i) with false by (symmetry; apply N.leb_gt; exact Hi).
  pose proof (read_u32s_nth page _ _ _ (N.to_nat i) R ltac:(lia)) as U. rewrite N2Nat.id in U.
  apply slice_get_u32 in U as [-> ->]. reflexivity.
Qed.

Lemma leaf_key_end_fixed_is_model : forall page vs n w i, i < n ->
  LeafAccessor_key_end n (Some w) vs page i
  = Some (nth (N.to_nat i) (fixed_ends (N.to_nat n) (leaf_kstart (Some w) vs n) w) 0).
Proof. tie leaf_key_end_fixed_is_model.
  intros page vs n w i Hi. unfold LeafAccessor_key_end, LeafAccessor_num_pairs.
  replace (n <=? i) with false by (symmetry; apply N.leb_gt; exact Hi).
  rewrite leaf_key_section_start_is_model, fixed_ends_nth by lia. now rewrite N2Nat.id.
Qed.

Lemma leaf_value_end_var_is_model : forall page ks n vends i,
  read_u32s page (leaf_voff ks n) (N.to_nat n) = Some vends -> i < n ->
  LeafAccessor_value_end n None ks page i = Some (nth (N.to_nat i) vends 0).
Proof. tie leaf_value_end_var_is_model.
  intros page ks n vends i R Hi. unfold LeafAccessor_value_end, LeafAccessor_num_pairs.
  replace (n <=? i) with false by (symmetry; apply N.leb_gt; exact Hi).
  pose proof (read_u32s_nth page _ _ _ (N.to_nat i) R ltac:(lia)) as U. rewrite N2Nat.id in U.
  replace (leaf_voff ks n + 4 * i) with
    (if isNone ks then 4 + 4 * i + 4 * n else 4 + 4 * i) in U
    by (unfold leaf_voff; destruct ks; cbn [isNone]; lia).
  destruct (isNone ks); apply slice_get_u32 in U as [-> ->]; reflexivity.
Qed.

Lemma leaf_value_end_fixed_is_model : forall page ks n w i vstart, i < n ->
  LeafAccessor_key_end n ks (Some w) page (n - 1) = Some vstart ->
  LeafAccessor_value_end n (Some w) ks page i
  = Some (nth (N.to_nat i) (fixed_ends (N.to_nat n) vstart w) 0).
Proof. tie leaf_value_end_fixed_is_model.
  intros page ks n w i vstart Hi K. unfold LeafAccessor_value_end, LeafAccessor_num_pairs.
  replace (n <=? i) with false by (symmetry; apply N.leb_gt; exact Hi).
  replace (1 <=? n) with true by (symmetry; apply N.leb_le; lia).
  rewrite K, fixed_ends_nth by lia. now rewrite N2Nat.id.
Qed.

(* the key / value end tables of a decoded leaf, as decode_leaf computes them *)
Definition leaf_kends (ks vs : width) (page : bytes) (n : N) : option (list N) :=
  match ks with
  | Some w => Some (fixed_ends (N.to_nat n) (leaf_kstart ks vs n) w)
  | None => read_u32s page 4 (N.to_nat n)
  end.
Definition leaf_vends (ks vs : width) (page : bytes) (n : N) (vstart : N) : option (list N) :=
  match vs with
  | Some w => Some (fixed_ends (N.to_nat n) vstart w)
  | None => read_u32s page (leaf_voff ks n) (N.to_nat n)
  end.

Lemma leaf_kends_length ks vs page n l : leaf_kends ks vs page n = Some l -> length l = N.to_nat n.
Proof.
  destruct ks as [w|]; cbn [leaf_kends]; intros H.
  - inversion H. apply fixed_ends_length.
  - eapply read_u32s_length; eauto.
Qed.

Lemma leaf_vends_length ks vs page n s l : leaf_vends ks vs page n s = Some l -> length l = N.to_nat n.
Proof.
  destruct vs as [w|]; cbn [leaf_vends]; intros H.
  - inversion H. apply fixed_ends_length.
  - eapply read_u32s_length; eauto.
Qed.

Lemma leaf_key_end_is_model : forall page ks vs n kends i,
  leaf_kends ks vs page n = Some kends -> i < n ->
  LeafAccessor_key_end n ks vs page i = Some (nth (N.to_nat i) kends 0).
Proof. tie leaf_key_end_is_model.
  intros page [w|] vs n kends i H Hi; cbn [leaf_kends] in H.
  - inversion H. now apply leaf_key_end_fixed_is_model.
  - now apply leaf_key_end_var_is_model.
Qed.

Lemma leaf_value_end_is_model : forall page ks vs n kends vends i,
  1 <= n -> leaf_kends ks vs page n = Some kends ->
  leaf_vends ks vs page n (last_or kends (leaf_kstart ks vs n)) = Some vends -> i < n ->
  LeafAccessor_value_end n vs ks page i = Some (nth (N.to_nat i) vends 0).
Proof. tie leaf_value_end_is_model.
  intros page ks [w|] n kends vends i Hn HK HV Hi; cbn [leaf_vends] in HV.
  - inversion HV. apply leaf_value_end_fixed_is_model; [exact Hi|].
    rewrite (leaf_key_end_is_model page ks (Some w) n kends (n - 1) HK) by lia.
    f_equal. unfold last_or. pose proof (leaf_kends_length _ _ _ _ _ HK) as L.
    rewrite last_nth by (destruct kends; [cbn in L; lia|discriminate]).
    rewrite L. replace (N.to_nat n - 1)%nat with (N.to_nat (n - 1)) by lia. apply nth_indep. lia.
  - now apply leaf_value_end_var_is_model.
Qed.

(* total_length() of the accessor = lf_end of the decoded leaf (n >= 1 entries) *)
Theorem leaf_total_length_is_model : forall ks vs page lf n,
  decode_leaf ks vs page = Ok lf -> u16_at page 2 = Some n ->
  LeafAccessor_total_length n vs ks page = lf_end lf.
Proof. tie leaf_total_length_is_model.
  intros ks vs page lf n D Hn. unfold decode_leaf, bind, of_opt, guard in D.
  destruct (u8_at page 0) as [ty|]; [|discriminate].
  destruct (ty =? LEAF); [|discriminate]. rewrite Hn in D.
  destruct (1 <=? n) eqn:N1; [|discriminate]. apply N.leb_le in N1.
  change (4 + match ks with None => 4 * n | Some _ => 0 end) with (leaf_voff ks n) in D.
  change (leaf_voff ks n + match vs with None => 4 * n | Some _ => 0 end) with (leaf_kstart ks vs n) in D.
  destruct (leaf_kends ks vs page n) as [kends|] eqn:HK.
  2:{ destruct ks; cbn [leaf_kends] in HK; [discriminate|]. rewrite HK in D. discriminate. }
  assert (DK : match ks with Some w => Ok (fixed_ends (N.to_nat n) (leaf_kstart ks vs n) w)
                          | None => match read_u32s page 4 (N.to_nat n) with Some a => Ok a
                                    | None => Err "leaf: key end array out of range" [] end end = Ok kends).
  { destruct ks; cbn [leaf_kends] in HK; [now inversion HK|now rewrite HK]. }
  rewrite DK in D. clear DK.
  destruct (leaf_vends ks vs page n (last_or kends (leaf_kstart ks vs n))) as [vends|] eqn:HV.
  2:{ destruct vs; cbn [leaf_vends] in HV; [discriminate|]. rewrite HV in D. discriminate. }
  assert (DV : match vs with Some w => Ok (fixed_ends (N.to_nat n) (last_or kends (leaf_kstart ks vs n)) w)
                          | None => match read_u32s page (leaf_voff ks n) (N.to_nat n) with Some a => Ok a
                                    | None => Err "leaf: value end array out of range" [] end end = Ok vends).
  { destruct vs; cbn [leaf_vends] in HV; [now inversion HV|now rewrite HV]. }
  rewrite DV in D. clear DV.
  destruct (cut page (leaf_kstart ks vs n) kends); [|discriminate].
  destruct (cut page (last_or kends (leaf_kstart ks vs n)) vends); [|discriminate].
  inversion D; subst lf; clear D. cbn [lf_end].
  pose proof (leaf_value_end_is_model page ks vs n kends vends (n - 1) N1 HK HV ltac:(lia)) as E.
  unfold LeafAccessor_total_length, LeafAccessor_num_pairs.
  rewrite E. cbn [unwrap_or].
  unfold last_or. pose proof (leaf_vends_length _ _ _ _ _ _ HV) as L.
  rewrite last_nth by (destruct vends; [cbn in L; lia|discriminate]).
  rewrite L. replace (N.to_nat n - 1)%nat with (N.to_nat (n - 1)) by lia. apply nth_indep. lia.
Qed.

(* ---------------------------------------------------------------- btree_base.rs: BranchAccessor offset tables *)
Lemma read_sums_nth (l : bytes) : forall n off xs i, read_sums l off n = Some xs -> (i < n)%nat ->
  u128_at l (off + 16 * N.of_nat i) = Some (nth i xs 0).
Proof.
  induction n as [|n IH]; intros off xs i H Hi; [lia|].
  cbn [read_sums] in H. destruct (u128_at l off) as [x|] eqn:E; [|discriminate].
  destruct (read_sums l (off + 16) n) as [r|] eqn:R; [|discriminate]. inversion H; subst xs; clear H.
  destruct i as [|i].
  - cbn [nth]. now rewrite N.mul_0_r, N.add_0_r.
  - cbn [nth]. rewrite <- (IH (off + 16) r i R) by lia. f_equal. lia.
Qed.

Lemma read_pagenums_nth (l : bytes) d : forall n off xs i, read_pagenums l off n = Some xs -> (i < n)%nat ->
  exists x, u64_at l (off + 8 * N.of_nat i) = Some x /\ nth i xs d = pagenum_of_u64 x.
Proof.
  induction n as [|n IH]; intros off xs i H Hi; [lia|].
  cbn [read_pagenums] in H. destruct (u64_at l off) as [x|] eqn:E; [|discriminate].
  destruct (read_pagenums l (off + 8) n) as [r|] eqn:R; [|discriminate]. inversion H; subst xs; clear H.
  destruct i as [|i].
  - cbn [nth]. exists x. now rewrite N.mul_0_r, N.add_0_r.
  - cbn [nth]. destruct (IH (off + 8) r i R ltac:(lia)) as (y & U & V). exists y. split; [|exact V].
    rewrite <- U. f_equal. lia.
Qed.

Lemma read_pagenums_length (l : bytes) : forall n off xs, read_pagenums l off n = Some xs -> length xs = n.
Proof.
  induction n as [|n IH]; intros off xs H; cbn [read_pagenums] in H.
  - now inversion H.
  - destruct (u64_at l off); [|discriminate]. destruct (read_pagenums l (off + 8) n) eqn:R; [|discriminate].
    inversion H. cbn [length]. f_equal. eapply IH; eauto.
Qed.

Lemma branch_count_children_is_model : forall n, BranchAccessor_count_children n = n + 1.
Proof. tie branch_count_children_is_model. reflexivity. Qed.

Definition branch_eoff (n : N) : N := 8 + 24 * (n + 1).
Definition branch_kstart (ks : width) (n : N) : N := branch_eoff n + match ks with None => 4 * n | Some _ => 0 end.

Lemma branch_key_section_start_is_model : forall ks n, BranchAccessor_key_section_start ks n = branch_kstart ks n.
Proof. tie branch_key_section_start_is_model.
  intros [w|] n; unfold BranchAccessor_key_section_start, branch_kstart, branch_eoff, BranchAccessor_count_children,
    BranchAccessor_num_keys, PageNumber_serialized_size; cbn [isNone]; lia.
Qed.

Lemma branch_child_checksum_is_model : forall page n sums i,
  read_sums page 8 (S (N.to_nat n)) = Some sums -> i <= n ->
  BranchAccessor_child_checksum n i page = Some (nth (N.to_nat i) sums 0).
Proof. tie branch_child_checksum_is_model.
  intros page n sums i R Hi. unfold BranchAccessor_child_checksum, BranchAccessor_count_children, BranchAccessor_num_keys.
  replace (n + 1 <=? i) with false by (symmetry; apply N.leb_gt; lia).
  pose proof (read_sums_nth page _ _ _ (N.to_nat i) R ltac:(lia)) as U. rewrite N2Nat.id in U.
  apply uint_at_inv in U as [_ ->]; [reflexivity|lia].
Qed.

Lemma branch_child_page_is_model : forall page n pns i d, all_bytes page = true ->
  read_pagenums page (8 + 16 * (n + 1)) (S (N.to_nat n)) = Some pns -> i <= n ->
  option_map pagenum_of (BranchAccessor_child_page n i page) = Some (nth (N.to_nat i) pns d).
Proof. tie branch_child_page_is_model.
  intros page n pns i d Hb R Hi. unfold BranchAccessor_child_page, BranchAccessor_count_children, BranchAccessor_num_keys,
    PageNumber_serialized_size.
  replace (n + 1 <=? i) with false by (symmetry; apply N.leb_gt; lia).
  destruct (read_pagenums_nth page d _ _ _ (N.to_nat i) R ltac:(lia)) as (x & U & V). rewrite N2Nat.id in U.
  apply uint_at_inv in U as [B ->]; [|lia]. cbn [option_map]. rewrite V. f_equal.
  apply pagenum_of_u64_is_model.
  pose proof (le_decode_lt _ (all_bytes_slice page (8 + 16 * (n + 1) + 8 * i) (8 + 16 * (n + 1) + 8 * i + 8) Hb)) as LT.
  rewrite slen_slice in LT by lia. replace (8 + 16 * (n + 1) + 8 * i + 8 - (8 + 16 * (n + 1) + 8 * i)) with 8 in LT by lia.
  exact LT.
Qed.

Lemma branch_key_end_var_is_model : forall page n kends i,
  read_u32s page (branch_eoff n) (N.to_nat n) = Some kends -> i < n ->
  BranchAccessor_key_end None n i page = Some (nth (N.to_nat i) kends 0).
Proof. tie branch_key_end_var_is_model.
  intros page n kends i R Hi. unfold BranchAccessor_key_end, BranchAccessor_count_children, BranchAccessor_num_keys,
    PageNumber_serialized_size.
  pose proof (read_u32s_nth page _ _ _ (N.to_nat i) R ltac:(lia)) as U. rewrite N2Nat.id in U.
  replace (8 + (8 + 16) * (n + 1) + 4 * i) with (branch_eoff n + 4 * i) by (unfold branch_eoff; lia).
  apply slice_get_u32 in U as [-> ->]. reflexivity.
Qed.

Lemma branch_key_end_fixed_is_model : forall page n w i, i < n ->
  BranchAccessor_key_end (Some w) n i page
  = Some (nth (N.to_nat i) (fixed_ends (N.to_nat n) (branch_kstart (Some w) n) w) 0).
Proof. tie branch_key_end_fixed_is_model.
  intros page n w i Hi. unfold BranchAccessor_key_end.
  rewrite branch_key_section_start_is_model, fixed_ends_nth by lia. now rewrite N2Nat.id.
Qed.

(* total_length() of the branch accessor = br_end of the decoded branch; the child arrays are the decoded ones *)
Theorem branch_total_length_is_model : forall ks page br n,
  decode_branch ks page = Ok br -> u16_at page 2 = Some n ->
  BranchAccessor_total_length ks n page = br_end br.
Proof. tie branch_total_length_is_model.
  intros ks page br n D Hn. unfold decode_branch, bind, of_opt, guard in D.
  destruct (u8_at page 0) as [ty|]; [|discriminate].
  destruct (ty =? BRANCH); [|discriminate]. rewrite Hn in D.
  destruct (1 <=? n) eqn:N1; [|discriminate]. apply N.leb_le in N1.
  destruct (read_sums page 8 (S (N.to_nat n))); [|discriminate].
  destruct (read_pagenums page (8 + 16 * (n + 1)) (S (N.to_nat n))); [|discriminate].
  change (8 + 24 * (n + 1)) with (branch_eoff n) in D.
  change (branch_eoff n + match ks with None => 4 * n | Some _ => 0 end) with (branch_kstart ks n) in D.
  unfold BranchAccessor_total_length, BranchAccessor_num_keys.
  destruct ks as [w|].
  - destruct (cut page _ _); [|discriminate]. inversion D; subst br; clear D. cbn [br_end].
    rewrite branch_key_end_fixed_is_model by lia. cbn [unwrap_or]. unfold last_or.
    rewrite last_nth by (destruct (N.to_nat n) eqn:Z; [lia|discriminate]).
    rewrite fixed_ends_length. replace (N.to_nat n - 1)%nat with (N.to_nat (n - 1)) by lia.
    apply nth_indep. rewrite fixed_ends_length. lia.
  - destruct (read_u32s page (branch_eoff n) (N.to_nat n)) as [kends|] eqn:R; [|discriminate].
    destruct (cut page _ _); [|discriminate]. inversion D; subst br; clear D. cbn [br_end].
    rewrite (branch_key_end_var_is_model page n kends (n - 1) R) by lia. cbn [unwrap_or]. unfold last_or.
    pose proof (read_u32s_length _ _ _ _ R) as L.
    rewrite last_nth by (destruct kends; [cbn in L; lia|discriminate]).
    rewrite L. replace (N.to_nat n - 1)%nat with (N.to_nat (n - 1)) by lia. apply nth_indep. lia.
Qed.

(* start offsets: entry i starts where entry i - 1 ends (the first one at the start of the key section) *)
Lemma leaf_key_start_is_model : forall ks vs n page i,
  LeafAccessor_key_start ks n vs page i
  = if i =? 0 then Some (leaf_kstart ks vs n) else LeafAccessor_key_end n ks vs page (i - 1).
Proof. tie leaf_key_start_is_model.
  intros. unfold LeafAccessor_key_start. now rewrite leaf_key_section_start_is_model.
Qed.

Lemma leaf_value_start_is_model : forall ks vs n page i,
  LeafAccessor_value_start n ks vs page i
  = if i =? 0 then LeafAccessor_key_end n ks vs page (LeafAccessor_num_pairs n - 1)
    else LeafAccessor_value_end n vs ks page (i - 1).
Proof. tie leaf_value_start_is_model. reflexivity. Qed.

Lemma leaf_entry_ranges_is_model : forall ks vs n page i,
  LeafAccessor_entry_ranges ks n vs page i
  = match LeafAccessor_key_start ks n vs page i, LeafAccessor_key_end n ks vs page i,
          LeafAccessor_value_start n ks vs page i, LeafAccessor_value_end n vs ks page i with
    | Some a, Some b, Some c, Some d => Some ((a, b), (c, d))
    | _, _, _, _ => None
    end.
Proof. tie leaf_entry_ranges_is_model.
  intros. unfold LeafAccessor_entry_ranges.
  destruct (LeafAccessor_key_start ks n vs page i); [|reflexivity].
  destruct (LeafAccessor_key_end n ks vs page i); [|reflexivity].
  destruct (LeafAccessor_value_start n ks vs page i); [|reflexivity].
  destruct (LeafAccessor_value_end n vs ks page i); reflexivity.
Qed.

Lemma branch_key_offset_is_model : forall ks n page i,
  BranchAccessor_key_offset ks n i page
  = if i =? 0 then branch_kstart ks n else unwrap_or (BranchAccessor_key_end ks n (i - 1) page) 0.
Proof. tie branch_key_offset_is_model.
  intros. unfold BranchAccessor_key_offset. now rewrite branch_key_section_start_is_model.
Qed.

(* ---------------------------------------------------------------- transactions.rs: PageList *)
Theorem page_list_is_model : forall b l, all_bytes b = true -> decode_page_list b = Ok l ->
  PageList_len b = lenN l
  /\ forall i d, i < lenN l -> pagenum_of (PageList_get b i) = nth (N.to_nat i) l d.
Proof. tie page_list_is_model.
  intros b l Hb D. unfold decode_page_list, bind, of_opt in D.
  destruct (u16_at b 0) as [n|] eqn:E; [|discriminate].
  destruct (read_pagenums b 2 (N.to_nat n)) as [pns|] eqn:R; [|discriminate]. inversion D; subst pns; clear D.
  pose proof (read_pagenums_length _ _ _ _ R) as L.
  apply uint_at_inv in E as [_ E]; [|lia]. change (0 + 2) with 2 in E. rewrite slice_0 in E.
  assert (LN : PageList_len b = lenN l) by (unfold PageList_len, lenN; rewrite L, N2Nat.id; now rewrite <- E).
  split; [exact LN|].
  intros i d Hi. assert (Hi' : (N.to_nat i < N.to_nat n)%nat) by (unfold lenN in Hi; lia).
  destruct (read_pagenums_nth b d _ _ _ (N.to_nat i) R Hi') as (x & U & V). rewrite N2Nat.id in U.
  apply uint_at_inv in U as [B ->]; [|lia]. rewrite V.
  unfold PageList_get, PageNumber_serialized_size. apply pagenum_of_u64_is_model.
  pose proof (le_decode_lt _ (all_bytes_slice b (2 + 8 * i) (2 + 8 * i + 8) Hb)) as LT.
  rewrite slen_slice in LT by lia. replace (2 + 8 * i + 8 - (2 + 8 * i)) with 8 in LT by lia. exact LT.
Qed.

(* ---------------------------------------------------------------- transactions.rs: TransactionIdWithPagination *)
Definition txn_page_of (k : TransactionIdWithPagination) : N * N :=
  (TransactionIdWithPagination_f_transaction_id k, TransactionIdWithPagination_f_pagination_id k).

Lemma txn_page_from_bytes_is_model : forall b, lenN b = 16 ->
  decode_txn_page_key b = Some (txn_page_of (TransactionIdWithPagination_from_bytes b)).
Proof. tie txn_page_from_bytes_is_model.
  intros b L. unfold decode_txn_page_key. rewrite L. cbn [N.eqb Pos.eqb].
  now rewrite takeN_slice_to, dropN_slice_from.
Qed.

Lemma txn_page_as_bytes_is_model : forall k,
  TransactionIdWithPagination_as_bytes k = encode_txn_page_key (txn_page_of k).
Proof. tie txn_page_as_bytes_is_model.
  intros k. unfold TransactionIdWithPagination_as_bytes, encode_txn_page_key, txn_page_of. cbn [fst snd].
  generalize (TransactionIdWithPagination_f_transaction_id k) as t.
  generalize (TransactionIdWithPagination_f_pagination_id k) as p. intros p t.
  change (rep 0 (2 * 8)) with ([] ++ repeat 0 8 ++ repeat 0 8)%list.
  rewrite (splice_at [] (repeat 0 8) (repeat 0 8) (le_encode 8 t) 0); [|reflexivity|now rewrite le_encode_length].
  cbn [app]. rewrite <- (app_nil_r (repeat 0 8)).
  rewrite (splice_at (le_encode 8 t) (repeat 0 8) [] (le_encode 8 p) 8);
    [|now rewrite slen_le_encode|now rewrite le_encode_length].
  now rewrite app_nil_r.
Qed.

Lemma txn_page_compare_is_model : forall a b,
  TransactionIdWithPagination_compare a b = cmp_pair_u64 a b.
Proof. tie txn_page_compare_is_model.
  intros a b. unfold TransactionIdWithPagination_compare, cmp_pair_u64, TransactionIdWithPagination_from_bytes.
  cbn [TransactionIdWithPagination_f_transaction_id TransactionIdWithPagination_f_pagination_id].
  rewrite !takeN_slice_to, !dropN_slice_from.
  destruct (le_decode (slice_to a 8) ?= le_decode (slice_to b 8)); reflexivity.
Qed.

(* ---------------------------------------------------------------- transaction_tracker.rs: SavepointId keys;
   types.rs: little-endian unsigned integer keys (instances of le_value! / le_impl!) *)
Lemma savepoint_id_from_bytes_is_model : forall d, SavepointId_from_bytes d = le_decode d.
Proof. tie savepoint_id_from_bytes_is_model. reflexivity. Qed.

Lemma savepoint_id_compare_is_model : forall a b, SavepointId_compare a b = cmp_unsigned a b.
Proof. tie savepoint_id_compare_is_model. reflexivity. Qed.

Lemma le_u64_compare_is_model : forall a b, le_u64_compare a b = cmp_unsigned a b.
Proof. tie le_u64_compare_is_model. reflexivity. Qed.
Lemma le_u32_compare_is_model : forall a b, le_u32_compare a b = cmp_unsigned a b.
Proof. tie le_u32_compare_is_model. reflexivity. Qed.
Lemma le_u128_compare_is_model : forall a b, le_u128_compare a b = cmp_unsigned a b.
Proof. tie le_u128_compare_is_model. reflexivity. Qed.

(* ---------------------------------------------------------------- savepoint.rs: the persistent savepoint record *)
Theorem savepoint_record_is_model : forall b, all_bytes b = true ->
  match decode_savepoint b, SerializedSavepoint_to_savepoint b with
  | Ok s, Some ((v, id), (tx, root)) =>
      v = sp_version s /\ id = sp_id s /\ tx = sp_txid s /\ option_map bhdr_of root = sp_root s
  | Err _ _, None => True
  | _, _ => False
  end.
Proof. tie savepoint_record_is_model.
  intros b Hb. unfold decode_savepoint, SerializedSavepoint_to_savepoint, bind, guard, of_opt.
  change (2 * 1 + 2 * 8 + BtreeHeader_serialized_size) with SAVEPOINT_SIZE.
  change (lenN b) with (slen b).
  destruct (slen b =? SAVEPOINT_SIZE) eqn:L; cbn [negb]; [|exact I].
  apply N.eqb_eq in L. unfold SAVEPOINT_SIZE in L.
  rewrite (u8_at_byte b 0) by lia. unfold u64_at. rewrite !uint_at_slice by lia.
  rewrite (u8_at_byte b 17) by lia. rewrite (sub_slice b 18 BHDR_SIZE) by (unfold BHDR_SIZE; lia).
  change (0 + 1) with 1. change (1 + 8) with 9. change (9 + 8) with 17. change (17 + 1) with 18.
  destruct (byte_at b 0 =? FILE_FORMAT_VERSION3) eqn:V; cbn [negb]; [|exact I].
  rewrite N.ltb_antisym. destruct (byte_at b 17 <=? 1) eqn:F; cbn [negb]; [|exact I].
  unfold decode_opt_bhdr. change (18 + BtreeHeader_serialized_size) with (18 + BHDR_SIZE).
  destruct (byte_at b 17 =? 0) eqn:Z.
  - apply N.eqb_eq in Z. rewrite Z. cbn [N.eqb]. repeat split; reflexivity.
  - apply N.leb_le in F. apply N.eqb_neq in Z.
    replace (byte_at b 17 =? 1) with true by (symmetry; apply N.eqb_eq; lia).
    rewrite bhdr_from_le_bytes_is_model.
    + repeat split; reflexivity.
    + now apply all_bytes_slice.
    + change (lenN ?x) with (slen x). rewrite slen_slice by (unfold BHDR_SIZE; lia). lia.
Qed.

(* ---------------------------------------------------------------- multimap_btree.rs: the value collection header *)
Lemma collection_type_tags_is_model :
  DynamicCollectionType_into DynamicCollectionType_Inline = COLL_INLINE
  /\ DynamicCollectionType_into DynamicCollectionType_SubtreeV2 = COLL_SUBTREE
  /\ forall t, DynamicCollectionType_from (DynamicCollectionType_into t) = t.
Proof. tie collection_type_tags_is_model. repeat split. intros []; reflexivity. Qed.

Theorem collection_is_model : forall b, all_bytes b = true -> UntypedDynamicCollection_collection_type_guard b = true ->
  DynamicCollectionType_from_guard (byte_at b 0) = true ->
  match UntypedDynamicCollection_collection_type b with
  | DynamicCollectionType_Inline => decode_collection b = Ok (CollInline (UntypedDynamicCollection_as_inline b))
  | DynamicCollectionType_SubtreeV2 =>
      BHDR_SIZE + 1 <= slen b ->
      decode_collection b = Ok (CollSubtree (bhdr_of (UntypedDynamicCollection_as_subtree b)))
  end.
Proof. tie collection_is_model.
  intros b Hb G G2. unfold UntypedDynamicCollection_collection_type_guard in G. cbn [andb] in G.
  apply andb_prop in G as [G _]. apply N.ltb_lt in G.
  destruct b as [|t r]; [cbn in G; lia|].
  unfold UntypedDynamicCollection_collection_type, DynamicCollectionType_from, DynamicCollectionType_from_guard in *.
  change (byte_at (t :: r) 0) with t in *. cbn [decode_collection].
  change COLL_INLINE with LEAF. change COLL_SUBTREE with 3.
  destruct (t =? LEAF) eqn:E1; [reflexivity|].
  destruct (t =? 3) eqn:E2; [|discriminate].
  intros L. unfold UntypedDynamicCollection_as_subtree.
  assert (S1 : slice (t :: r) 1 (BtreeHeader_serialized_size + 1) = takeN r BHDR_SIZE).
  { rewrite takeN_firstn. reflexivity. }
  rewrite S1. rewrite bhdr_from_le_bytes_is_model; [reflexivity| |].
  - rewrite takeN_firstn. apply all_bytes_firstn. cbn [all_bytes forallb] in Hb. now apply andb_prop in Hb as [_ Hb].
  - rewrite takeN_firstn. unfold lenN. rewrite firstn_length. rewrite slen_cons in L. unfold slen, BHDR_SIZE in *. lia.
Qed.
