(* The hand-written file-format codec (Format/Codec.v, used by C10 / C19 / C12) is equal to the functions
   generated from base.rs / layout.rs (Gen/Fns.v) on the domain of the Rust types. *)
From Coq Require Import List NArith ZArith Bool Lia.
From RV Require Import Base.Bytes Gen.Consts Gen.FnsLib Gen.FnsLibP Gen.Fns Format.Codec.
Import ListNotations.
Open Scope N_scope.

Definition pagenum_of (p : PageNumber) : pagenum :=
  mkPn (PageNumber_f_region p) (PageNumber_f_page_index p) (PageNumber_f_page_order p).

Lemma max_page_index_ones : MAX_PAGE_INDEX = N.ones 20.
Proof. tie max_page_index_ones. reflexivity. Qed.

Lemma land_comm_ones : forall a, N.land 1048575 a = N.land a (N.ones 20).
Proof. tie land_comm_ones. intros. rewrite N.land_comm. reflexivity. Qed.

(* PageNumber::to_le_bytes: the u64 whose little-endian bytes are written *)
Lemma pagenum_to_u64_is_model : forall p,
  PageNumber_to_le_bytes p = pagenum_to_u64 (pagenum_of p).
Proof. tie pagenum_to_u64_is_model.
  intros p. unfold PageNumber_to_le_bytes, pagenum_to_u64, pagenum_of. cbn [pn_index pn_region pn_order].
  rewrite max_page_index_ones, !land_comm_ones.
  set (i := N.land (PageNumber_f_page_index p) (N.ones 20)).
  set (r := N.land (PageNumber_f_region p) (N.ones 20)).
  change 31 with (N.ones 5). rewrite (N.land_comm (N.ones 5)).
  set (o := N.land (PageNumber_f_page_order p) (N.ones 5)).
  assert (Hi : i < 2 ^ 20) by apply land_ones_low.
  assert (Hr : r < 2 ^ 20) by apply land_ones_low.
  assert (Ho : o < 2 ^ 5) by apply land_ones_low.
  assert (Hr' : N.shiftl r 20 < 2 ^ 40) by (change 40 with (20 + 20); now apply shiftl_lt).
  assert (Ho' : N.shiftl o 59 < 2 ^ 64) by (change 64 with (5 + 59); now apply shiftl_lt).
  change 18446744073709551616 with (2 ^ 64).
  rewrite (N.mod_small (N.shiftl r 20)) by (eapply N.lt_trans; [exact Hr'|reflexivity]).
  rewrite (N.mod_small (N.shiftl o 59)) by exact Ho'.
  rewrite (lor_add_disjoint i r 20) by exact Hi.
  rewrite lor_add_disjoint; [reflexivity|].
  eapply N.lt_le_trans with (m := 2 ^ 20 + 2 ^ 40); [|vm_compute; discriminate].
  apply N.add_lt_mono; assumption.
Qed.

(* PageNumber::from_le_bytes on a u64 *)
Lemma pagenum_of_u64_is_model : forall t, t < 2 ^ 64 ->
  pagenum_of (PageNumber_from_le_bytes t) = pagenum_of_u64 t.
Proof. tie pagenum_of_u64_is_model.
  intros t Ht. unfold PageNumber_from_le_bytes, pagenum_of_u64, pagenum_of.
  cbn [PageNumber_f_region PageNumber_f_page_index PageNumber_f_page_order].
  assert (Ho : N.shiftr t 59 < 32).
  { rewrite N.shiftr_div_pow2. apply N.div_lt_upper_bound; [discriminate|]. exact Ht. }
  rewrite (N.mod_small (N.shiftr t 59)) by lia.
  rewrite max_page_index_ones. change 1048575 with (N.ones 20).
  rewrite N.mod_small; [reflexivity|].
  eapply N.lt_trans; [apply land_ones_low|reflexivity].
Qed.

Lemma pagenum_from_le_guard : forall t, PageNumber_from_le_bytes_guard t = true.
Proof. tie pagenum_from_le_guard.
  intros t. unfold PageNumber_from_le_bytes_guard. cbn [andb]. apply N.ltb_lt.
  change 1048575 with (N.ones 20). set (o := N.shiftr t 59 mod 256).
  destruct (N.le_gt_cases o 20) as [L|G].
  - rewrite (N.shiftr_div_pow2 (N.ones 20)), N.ones_div_pow2 by exact L.
    eapply N.lt_le_trans; [apply land_ones_low|].
    apply N.le_trans with (m := 2 ^ 20); [apply N.pow_le_mono_r; lia|vm_compute; discriminate].
  - rewrite (N.shiftr_eq_0 (N.ones 20)) by (vm_compute N.log2; lia).
    rewrite N.land_0_r. reflexivity.
Qed.

(* PageNumber::page_size_bytes / address_range with the arguments TransactionalMemory passes, on a geometry *)
Lemma page_len_is_model : forall g p, PageNumber_f_page_order p <= MAX_MAX_PAGE_ORDER ->
  PageNumber_page_size_bytes p (g_psz g) = page_len g (pagenum_of p).
Proof. tie page_len_is_model.
  intros g p H. unfold PageNumber_page_size_bytes, page_len, page_pages, pagenum_of. cbn [pn_order].
  rewrite N.mod_small; [lia|]. rewrite N.shiftl_1_l. change 18446744073709551616 with (2 ^ 64).
  apply N.pow_lt_mono_r; [lia|]. unfold MAX_MAX_PAGE_ORDER in H. lia.
Qed.

Lemma page_range_is_model : forall g p, PageNumber_f_page_order p <= MAX_MAX_PAGE_ORDER ->
  PageNumber_address_range p (g_psz g) (region_len g) (g_hdr_pages g * g_psz g) (g_psz g)
  = (page_start g (pagenum_of p), page_end g (pagenum_of p)).
Proof. tie page_range_is_model.
  intros g p H. unfold PageNumber_address_range, page_end, page_start.
  rewrite page_len_is_model by exact H. cbn [pagenum_of pn_region pn_index].
  f_equal; lia.
Qed.

(* DatabaseLayout::recalculate as the geometry implied by a file length *)
Definition geom_of_layout (d : DatabaseLayout) : geom :=
  let f := DatabaseLayout_f_full_region_layout d in
  {| g_psz := RegionLayout_f_page_size f; g_hdr_pages := RegionLayout_f_header_pages f;
     g_max_pages := RegionLayout_f_num_pages f; g_full := DatabaseLayout_f_num_full_regions d;
     g_trailing := match DatabaseLayout_f_trailing_partial_region d with
                   | Some t => RegionLayout_f_num_pages t | None => 0 end |}.

Lemma geom_of_len_is_model : forall psz hdr maxp file_len,
  geom_of_layout (DatabaseLayout_recalculate file_len hdr maxp psz) = geom_of_len psz hdr maxp file_len.
Proof. tie geom_of_len_is_model.
  intros. unfold DatabaseLayout_recalculate, geom_of_len, geom_of_layout, RegionLayout_new.
  destruct ((hdr + 1) * psz <=? file_len - psz - (file_len - psz) / ((hdr + maxp) * psz) * ((hdr + maxp) * psz));
    reflexivity.
Qed.

Lemma region_len_is_model : forall d,
  RegionLayout_len (DatabaseLayout_f_full_region_layout d) = region_len (geom_of_layout d).
Proof. tie region_len_is_model. intros. unfold RegionLayout_len, RegionLayout_usable_bytes, region_len, geom_of_layout. cbn. lia. Qed.

(* PageList::required_bytes and the page-number width *)
Lemma pagenum_size_is_model : PageNumber_serialized_size = 8.
Proof. tie pagenum_size_is_model. reflexivity. Qed.

Lemma pagelist_required_is_model : forall n, PageList_required_bytes n = 2 + 8 * n.
Proof. tie pagelist_required_is_model. reflexivity. Qed.
