(* select_primary_slot as modelled by C12 (Integrity/Merkle.v) and C11 (Reopen/Model.v) is the function
   generated from header.rs (Gen/Fns.v). *)
From Coq Require Import List NArith Bool.
From RV Require Import Gen.Consts Gen.FnsLib Gen.FnsLibP Gen.FnsLibB Gen.Fns.
From RV Require Import Integrity.Merkle Reopen.Model.
Open Scope N_scope.

Section MerkleSelect.
  Variable sum : Type.
  Variable sum_eqb : sum -> sum -> bool.
  Variable H : list N -> sum.

  Theorem merkle_select_is_model : forall x : Merkle.db sum,
    Merkle.select sum sum_eqb H x =
    UnrepairedDatabaseHeader_select_primary_slot (Merkle.two_phase sum x)
      (negb (Merkle.slot_sum_ok sum sum_eqb H (Merkle.primary sum x)))
      (negb (Merkle.slot_sum_ok sum sum_eqb H (Merkle.secondary sum x)))
      (Merkle.s_txid sum (Merkle.primary sum x)) (Merkle.s_txid sum (Merkle.secondary sum x)).
  Proof. tie merkle_select_is_model.
    intros x. unfold Merkle.select, UnrepairedDatabaseHeader_select_primary_slot.
    destruct (Merkle.two_phase sum x).
    - destruct (Merkle.slot_sum_ok sum sum_eqb H (Merkle.primary sum x)); reflexivity.
    - destruct (Merkle.slot_sum_ok sum sum_eqb H (Merkle.primary sum x)); cbn [negb].
      + destruct (_ <? _); cbn [andb]; [|reflexivity].
        destruct (Merkle.slot_sum_ok sum sum_eqb H (Merkle.secondary sum x)); reflexivity.
      + destruct (Merkle.slot_sum_ok sum sum_eqb H (Merkle.secondary sum x)); reflexivity.
  Qed.
End MerkleSelect.

Theorem reopen_select_primary_is_model : forall i : Reopen.Model.image,
  Reopen.Model.select_primary i =
  match UnrepairedDatabaseHeader_select_primary_slot (g_tpc i) (negb (s_cksum_ok (primary i)))
          (negb (s_cksum_ok (secondary i))) (Reopen.Model.s_txid (primary i)) (Reopen.Model.s_txid (secondary i)) with
  | None => Err
  | Some true => Ok (i, true)
  | Some false => Ok (swap i, false)
  end.
Proof. tie reopen_select_primary_is_model.
  intros i. unfold select_primary, UnrepairedDatabaseHeader_select_primary_slot.
  destruct (g_tpc i).
  - destruct (s_cksum_ok (primary i)); reflexivity.
  - destruct (s_cksum_ok (primary i)); cbn [negb].
    + destruct (_ <? _)%N; cbn [andb]; [|reflexivity].
      destruct (s_cksum_ok (secondary i)); reflexivity.
    + destruct (s_cksum_ok (secondary i)); reflexivity.
Qed.
