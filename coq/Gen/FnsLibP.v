(* Facts about the helpers of Gen/FnsLib.v (the meaning given to Rust library methods). *)
From Coq Require Import NArith ZArith List Bool Lia.
From RV Require Import Gen.FnsLib.
Open Scope N_scope.

(* printed when the proof of a tie lemma starts: in a failing build log the last such line names the equality
   between a Rust function and its hand-written model that no longer holds *)
Tactic Notation "tie" ident(n) := idtac "TIE-TO-CODE obligation" n.

Local Ltac Zify.zify_post_hook ::= Z.div_mod_to_equations.

Lemma div_ceil_add : forall a b, 0 < b -> div_ceil a b = (a + (b - 1)) / b.
Proof.
  intros a b Hb. unfold div_ceil.
  pose proof (N.div_mod a b ltac:(lia)) as E.
  pose proof (N.mod_upper_bound a b ltac:(lia)) as U.
  destruct (0 <? a mod b) eqn:C.
  - apply N.ltb_lt in C. apply N.div_unique with (r := a mod b - 1); lia.
  - apply N.ltb_ge in C. apply N.div_unique with (r := b - 1); lia.
Qed.

Lemma div_ceil_64 : forall a, div_ceil a 64 = (a + 63) / 64.
Proof. intros. now rewrite div_ceil_add by lia. Qed.

Lemma next_multiple_of_round_up : forall a b, b <> 0 ->
  next_multiple_of a b = (if a mod b =? 0 then a else a + b - a mod b).
Proof.
  intros. unfold next_multiple_of. destruct (a mod b =? 0); [reflexivity|].
  pose proof (N.mod_upper_bound a b ltac:(lia)). lia.
Qed.

(* disjoint bit fields: `|` is `+` *)
Lemma lor_add_disjoint : forall a b n, a < 2 ^ n -> N.lor a (N.shiftl b n) = a + N.shiftl b n.
Proof.
  intros a b n H.
  assert (D : N.land a (N.shiftl b n) = 0).
  { apply N.bits_inj_0. intros i. rewrite N.land_spec.
    destruct (N.lt_ge_cases i n) as [L|G].
    - now rewrite N.shiftl_spec_low, andb_false_r.
    - replace (N.testbit a i) with false; [reflexivity|].
      symmetry. destruct (N.eq_dec a 0) as [->|NZ]; [apply N.bits_0|].
      apply N.bits_above_log2. apply N.log2_lt_pow2 in H; lia. }
  rewrite N.add_nocarry_lxor by exact D. symmetry. now apply N.lxor_lor.
Qed.

Lemma land_ones_low : forall a n, N.land a (N.ones n) < 2 ^ n.
Proof. intros. rewrite N.land_ones. apply N.mod_upper_bound. apply N.pow_nonzero. lia. Qed.

Lemma shiftl_lt : forall a n m, a < 2 ^ m -> N.shiftl a n < 2 ^ (m + n).
Proof.
  intros. rewrite N.shiftl_mul_pow2, N.pow_add_r.
  assert (P : 0 < 2 ^ n) by (apply N.neq_0_lt_0, N.pow_nonzero; lia).
  now apply N.mul_lt_mono_pos_r.
Qed.

(* trailing_zeros / is_power_of_two / next_power_of_two *)
Lemma trailing_zeros_double : forall w x, x <> 0 -> trailing_zeros w (2 * x) = N.succ (trailing_zeros w x).
Proof. intros w [|p] H; [congruence|reflexivity]. Qed.

Lemma trailing_zeros_pow2 : forall w k, trailing_zeros w (2 ^ k) = k.
Proof.
  intros w k. induction k using N.peano_ind; [reflexivity|].
  rewrite N.pow_succ_r', trailing_zeros_double, IHk; [reflexivity|].
  apply N.pow_nonzero. lia.
Qed.

Lemma is_power_of_two_spec : forall x, is_power_of_two x = true <-> x = 2 ^ N.log2 x /\ x <> 0.
Proof.
  intros [|p]; cbn [is_power_of_two]; [split; [discriminate|intros [_ H]; congruence]|].
  rewrite Pos.eqb_eq. split.
  - intros H. split; [|discriminate]. rewrite <- N.shiftl_1_l.
    destruct (N.log2 (N.pos p)) eqn:L; cbn in *; congruence.
  - intros [H _]. rewrite <- N.shiftl_1_l in H.
    destruct (N.log2 (N.pos p)) eqn:L; cbn in *; congruence.
Qed.

(* for x >= 1 the Rust "ceil_log2" recipe is log2_up *)
Lemma ceil_log2_recipe : forall w x, 0 < x ->
  (if is_power_of_two x then trailing_zeros w x else trailing_zeros w (next_power_of_two x)) = N.log2_up x.
Proof.
  intros w x Hx. destruct (is_power_of_two x) eqn:P.
  - apply is_power_of_two_spec in P as [E _]. rewrite E at 1. rewrite trailing_zeros_pow2.
    rewrite E at 2. symmetry. apply N.log2_up_pow2. lia.
  - unfold next_power_of_two. apply trailing_zeros_pow2.
Qed.

(* leading_zeros: (w - lz - 1) is floor(log2 x) *)
Lemma leading_zeros_log2 : forall w x, x < 2 ^ w -> w - leading_zeros w x - 1 = N.log2 x.
Proof.
  intros w x H. unfold leading_zeros. destruct x as [|p]; [cbn; lia|].
  assert (S : N.size (N.pos p) = N.succ (N.log2 (N.pos p))) by (apply N.size_log2; discriminate).
  assert (N.log2 (N.pos p) < w) by (apply N.log2_lt_pow2; lia).
  lia.
Qed.

(* while_fuel: running out of fuel is impossible once the condition fails; more fuel changes nothing then *)
Lemma while_fuel_nat_done : forall {S} fuel (cond : S -> bool) body s,
  cond s = false -> while_fuel_nat fuel cond body s = s.
Proof. intros S [|f] cond body s H; cbn; [reflexivity|now rewrite H]. Qed.
