(* The horizon steps of durable commit, non-durable commit and the epilogue in Conc/Programs.v (C02, C03) are the
   expressions generated from transactions.rs (Gen/Fns.v). *)
From Coq Require Import List NArith Bool Lia.
From RV Require Import Gen.Consts Gen.FnsLib Gen.FnsLibP Gen.FnsLibB Gen.Fns.
From RV Require Import Gen.FnsHorizonP Conc.Programs.
Import ListNotations.
Open Scope N_scope.

(* ---- Conc/Programs.v (C02, C03): the horizon steps of durable / non-durable commit and of the epilogue *)
Lemma programs_durable_horizon_is_model : forall t c s,
  exec t c TOldestLiveReadC s =
  with_writer t s ph_open (fun w =>
    let h := durable_commit_free_until (lmin (live_reads s)) (w_id w) in
    ok (put_writer t (wset w (w_tag w) h None ph_horizon) (add_entry w s))).
Proof. tie programs_durable_horizon_is_model. reflexivity. Qed.

Lemma programs_nd_horizon_is_model : forall t c s,
  exec t c TOldestLiveReadNd s =
  with_writer t s ph_open (fun w =>
    let h := non_durable_commit_free_until (oldest_nd_read s) (w_id w) in
    ok (put_writer t (wset w (w_tag w) h None ph_nhorizon) (add_entry w s))).
Proof. tie programs_nd_horizon_is_model. reflexivity. Qed.

Lemma programs_epilogue_horizon_is_model : forall t c s,
  (forall w, my_writer t s = Some w -> match w_sp_horizon w with Some h => h < 18446744073709551615 | None => True end) ->
  exec t c TOldestLiveReadE s =
  with_writer t s ph_cleared (fun w =>
    let h := epilogue_free_until (lmin (live_reads s)) (w_id w) (sph_u64 (w_sp_horizon w)) in
    ok (put_writer t (wset w (w_tag w) h (w_sp_horizon w) ph_ehorizon) s)).
Proof. tie programs_epilogue_horizon_is_model.
  intros t c s Hw. cbn [exec]. unfold with_writer.
  destruct (my_writer t s) as [w|] eqn:M; [|reflexivity].
  destruct (N.eqb (w_phase w) ph_cleared); [|reflexivity].
  cbv zeta. rewrite epilogue_free_until_is_model by (now apply Hw). reflexivity.
Qed.
