(* The hand-written allocator arithmetic (Alloc/Buddy.v, Alloc/Bitmap.v, used by C14) is equal to the
   functions generated from buddy_allocator.rs / bitmap.rs / page_manager.rs (Gen/Fns.v). *)
From Coq Require Import List NArith ZArith Bool Lia.
From RV Require Import Base.Bytes Gen.Consts Gen.FnsLib Gen.FnsLibP Gen.FnsLibB Gen.FnsLibBP Gen.Fns Alloc.Bitmap Alloc.BitmapP Alloc.Buddy Alloc.Region.
Import ListNotations.
Open Scope N_scope.

Lemma next_higher_order_is_model : forall p, Fns.next_higher_order p = Buddy.next_higher_order p.
Proof. tie next_higher_order_is_model. reflexivity. Qed.

Lemma buddy_page_is_model : forall p, Fns.buddy_page p = Buddy.buddy_page p.
Proof. tie buddy_page_is_model. reflexivity. Qed.

(* pages is a u32 *)
Lemma calculate_usable_order_is_model : forall pages, pages < 2 ^ 32 ->
  Fns.calculate_usable_order pages = Buddy.calculate_usable_order pages.
Proof. tie calculate_usable_order_is_model.
  intros pages H. unfold Fns.calculate_usable_order, Buddy.calculate_usable_order.
  now rewrite leading_zeros_log2 by exact H.
Qed.

Lemma required_words_is_model : forall e, U64GroupedBitmap_required_words e = Bitmap.required_words e.
Proof. tie required_words_is_model. intros. unfold U64GroupedBitmap_required_words, Bitmap.required_words, ceil64. apply div_ceil_64. Qed.

(* BtreeBitmap::height_for_capacity: the generated loop has fuel 32, the model N.size_nat capacity; both are
   enough for a u32 because every round divides the capacity by 64 *)
Definition hcond (st : N * N) : bool := let '(capacity, height) := st in 64 <? capacity.
Definition hbody (st : N * N) : N * N := let '(capacity, height) := st in (div_ceil capacity 64, height + 1).

Lemma ceil64_pow : forall c k, c <= 64 * 64 ^ k -> ceil64 c <= 64 ^ k.
Proof. tie ceil64_pow.
  intros c k H. unfold ceil64. set (m := 64 ^ k) in *. clearbody m.
  apply N.lt_succ_r. apply N.div_lt_upper_bound; lia.
Qed.

Lemma height_loops_agree : forall f1 f2 c h,
  c <= 64 ^ N.of_nat f1 -> c <= 64 ^ N.of_nat f2 ->
  height_loop f1 c h = snd (while_fuel_nat f2 hcond hbody (c, h)).
Proof. tie height_loops_agree.
  induction f1 as [|f1 IH]; intros f2 c h H1 H2.
  - cbn in H1. assert (C : (64 <? c) = false) by (apply N.ltb_ge; lia).
    destruct f2; cbn; [reflexivity|]. now rewrite C.
  - cbn [height_loop]. destruct (64 <? c) eqn:C.
    + destruct f2 as [|f2]; [apply N.ltb_lt in C; cbn in H2; lia|].
      cbn [while_fuel_nat hcond]. rewrite C. cbn [hbody]. rewrite div_ceil_64.
      rewrite Nnat.Nat2N.inj_succ, N.pow_succ_r' in H1, H2.
      apply IH; now apply ceil64_pow.
    + destruct f2; cbn; [reflexivity|]. now rewrite C.
Qed.

Lemma pos_size_nat : forall p, N.of_nat (Pos.size_nat p) = N.pos (Pos.size p).
Proof. tie pos_size_nat.
  induction p; cbn [Pos.size_nat Pos.size]; try reflexivity;
    rewrite Nnat.Nat2N.inj_succ, IHp; reflexivity.
Qed.

Lemma size_nat_size : forall c, N.of_nat (N.size_nat c) = N.size c.
Proof. tie size_nat_size. intros [|p]; [reflexivity|apply pos_size_nat]. Qed.

Lemma height_for_capacity_is_model : forall c, c < 2 ^ 32 ->
  BtreeBitmap_height_for_capacity c = Bitmap.height_for_capacity c.
Proof. tie height_for_capacity_is_model.
  intros c H. unfold BtreeBitmap_height_for_capacity, Bitmap.height_for_capacity, FnsLib.while_fuel.
  rewrite (height_loops_agree (N.size_nat c) (N.to_nat 32) c 1).
  - unfold hcond, hbody. cbv zeta.
    match goal with |- _ = snd ?X => destruct X end. reflexivity.
  - rewrite size_nat_size.
    apply N.le_trans with (m := 2 ^ N.size c); [apply N.lt_le_incl, N.size_gt|].
    apply N.pow_le_mono_l. lia.
  - rewrite Nnat.N2Nat.id. apply N.le_trans with (m := 2 ^ 32); [lia|].
    apply N.pow_le_mono_l. lia.
Qed.

(* the words / masks of U64GroupedBitmap *)
Lemma data_index_of_is_model : forall bit,
  U64GroupedBitmap_data_index_of bit = (bit / 64, bit mod 64).
Proof. tie data_index_of_is_model. reflexivity. Qed.

Lemma select_mask_is_model : forall bit, bit < 64 -> U64GroupedBitmap_select_mask bit = 2 ^ bit.
Proof. tie select_mask_is_model.
  intros bit H. unfold U64GroupedBitmap_select_mask. rewrite N.shiftl_1_l. apply N.mod_small.
  change 18446744073709551616 with (2 ^ 64). apply N.pow_lt_mono_r; lia.
Qed.

(* bits_in_range(lo, hi) has exactly the bits lo..hi set (under the guard the code asserts) *)
Lemma bits_in_range_spec : forall lo hi i, bits_in_range_guard lo hi = true ->
  N.testbit (bits_in_range lo hi) i = (lo <=? i) && (i <? hi).
Proof. tie bits_in_range_spec.
  intros lo hi i G. unfold bits_in_range_guard in G. cbn [andb] in G.
  apply andb_prop in G as [G1 G2]. apply N.ltb_lt in G1. apply N.leb_le in G2.
  unfold bits_in_range. change 18446744073709551615 with (N.ones 64). change 18446744073709551616 with (2 ^ 64).
  rewrite N.land_spec, <- N.land_ones, N.land_spec, N.shiftr_spec by lia.
  destruct (lo <=? i) eqn:A; destruct (i <? hi) eqn:B; cbn [andb];
    repeat match goal with H : (_ <=? _) = true |- _ => apply N.leb_le in H
                      | H : (_ <=? _) = false |- _ => apply N.leb_gt in H
                      | H : (_ <? _) = true |- _ => apply N.ltb_lt in H
                      | H : (_ <? _) = false |- _ => apply N.ltb_ge in H end.
  - rewrite N.shiftl_spec_high by lia. rewrite !N.ones_spec_low by lia. reflexivity.
  - rewrite (N.ones_spec_high 64 (i + (64 - hi))) by lia. now rewrite andb_false_r.
  - rewrite N.shiftl_spec_low by lia. reflexivity.
  - rewrite N.shiftl_spec_low by lia. reflexivity.
Qed.

(* ceil_log2 (page_manager.rs) is the rounded-up logarithm *)
Lemma ceil_log2_is_log2_up : forall x, 0 < x -> Fns.ceil_log2 x = N.log2_up x.
Proof. tie ceil_log2_is_log2_up. intros. unfold Fns.ceil_log2. now apply ceil_log2_recipe. Qed.

(* ---------------------------------------------------------------- wave 2 *)
(* TransactionalMemory::try_shrink: whether to shrink and by how many pages (page_manager.rs) *)
Theorem try_shrink_is_model : forall m force,
  let l := lay m in
  let last_a := lget (regs (als m)) (num_regions l - 1) dummy_buddy in
  mem_try_shrink m force =
  match try_shrink_reduce_by (trailing_free_pages last_a) (blen last_a) (num_regions l) force with
  | None => (false, m)
  | Some reduce_by => let nl := reduce_last_region l reduce_by in (true, mkMem nl (resize_to (als m) nl))
  end.
Proof. tie try_shrink_is_model.
  intros m force l last_a. unfold mem_try_shrink, try_shrink_reduce_by. fold l. fold last_a.
  destruct (trailing_free_pages last_a =? 0); [reflexivity|].
  destruct ((trailing_free_pages last_a <? blen last_a / 2) && negb force); reflexivity.
Qed.

(* commit(): shrinking is attempted unless the policy is Never, and forced exactly for Maximum *)
Lemma commit_shrink_policy_is_model :
  commit_shrink_attempted ShrinkPolicy_Default = true /\ commit_shrink_force ShrinkPolicy_Default = false
  /\ commit_shrink_attempted ShrinkPolicy_Maximum = true /\ commit_shrink_force ShrinkPolicy_Maximum = true
  /\ commit_shrink_attempted ShrinkPolicy_Never = false /\ commit_shrink_force ShrinkPolicy_Never = false.
Proof. tie commit_shrink_policy_is_model. repeat split. Qed.

(* check_page_order: accepted exactly when the order is at most MAX_MAX_PAGE_ORDER, the bound PageNumber::new
   asserts and under which page_size_bytes loses no bit *)
Lemma check_page_order_is_model : forall p,
  isSome (TransactionalMemory_check_page_order p) = (PageNumber_f_page_order p <=? MAX_MAX_PAGE_ORDER).
Proof. tie check_page_order_is_model.
  intros p. unfold TransactionalMemory_check_page_order. rewrite N.ltb_antisym.
  destruct (PageNumber_f_page_order p <=? MAX_MAX_PAGE_ORDER); reflexivity.
Qed.

(* Ord for PageNumber: lexicographic on (region, first order-0 page of the block) *)
Lemma page_number_cmp_is_model : forall a b,
  PageNumber_cmp a b =
  match PageNumber_f_region a ?= PageNumber_f_region b with
  | Eq => PageNumber_f_page_index a * 2 ^ PageNumber_f_page_order a ?= PageNumber_f_page_index b * 2 ^ PageNumber_f_page_order b
  | c => c
  end.
Proof. tie page_number_cmp_is_model.
  intros a b. unfold PageNumber_cmp. destruct (PageNumber_f_region a ?= PageNumber_f_region b); reflexivity.
Qed.

Lemma page_number_cmp_antisym : forall a b, PageNumber_cmp b a = CompOpp (PageNumber_cmp a b).
Proof. tie page_number_cmp_antisym.
  intros a b. rewrite !page_number_cmp_is_model.
  rewrite (N.compare_antisym (PageNumber_f_region a)).
  destruct (PageNumber_f_region a ?= PageNumber_f_region b); cbn [CompOpp]; try reflexivity.
  apply N.compare_antisym.
Qed.

(* RegionTracker::from_bytes, first loop: the u32 length table behind the order count -- the model's
   `map le_decode (chunks4 orders (nskipn 4 page))` -- and the offset 4 + 4 * orders where the data starts *)
Lemma chunks4_snoc : forall n (l : bytes),
  chunks4 (S n) l = chunks4 n l ++ [nfirstn 4 (nskipn (4 * N.of_nat n) l)].
Proof.
  induction n as [|n IH]; intros l.
  - cbn [chunks4 app]. change (4 * N.of_nat 0) with 0. now destruct l.
  - change (chunks4 (S (S n)) l) with (nfirstn 4 l :: chunks4 (S n) (nskipn 4 l)).
    rewrite IH. cbn [chunks4 app]. do 3 f_equal.
    rewrite !nskipn_skipn. rewrite skipn_add.
    replace (N.to_nat 4 + N.to_nat (4 * N.of_nat n))%nat with (N.to_nat (4 * N.of_nat (S n))) by lia.
    reflexivity.
Qed.

Theorem region_tracker_lens_is_model : forall page : bytes,
  let orders := le_decode (nfirstn 4 page) in
  region_tracker_allocator_lens page
  = (map le_decode (chunks4 (N.to_nat orders) (nskipn 4 page)), 4 + 4 * orders).
Proof. tie region_tracker_lens_is_model.
  intros page orders. unfold region_tracker_allocator_lens.
  replace (le_decode (slice_to page 4)) with orders by (unfold orders, slice_to; now rewrite nfirstn_firstn).
  pose (P := fun (i : N) (st : list N * N) =>
               fst st = map le_decode (chunks4 (N.to_nat i) (nskipn 4 page)) /\ snd st = 4 + 4 * i).
  assert (R : P orders (for_range 0 orders
                (fun _ st_ => let '(allocator_lens, start) := st_ in
                   let allocator_len := le_decode (slice page start (start + 4)) in
                   let allocator_lens := (allocator_lens ++ [allocator_len])%list in
                   let start := start + 4 in (allocator_lens, start)) ([], 4))).
  { apply for_range_inv.
    - lia.
    - split; reflexivity.
    - intros j [lens st] Hj [H1 H2]. cbn [fst snd] in H1, H2. subst lens st. unfold P. cbn [fst snd]. split; [|lia].
      rewrite N2Nat.inj_succ, chunks4_snoc, map_app. change (map le_decode [?x]) with [le_decode x].
      rewrite N2Nat.id. f_equal. f_equal. f_equal.
      rewrite nfirstn_firstn, !nskipn_skipn, skipn_add. unfold slice.
      f_equal; [lia|]. f_equal. lia. }
  destruct R as [R1 R2]. destruct (for_range _ _ _ _) as [lens st]. cbn [fst snd] in R1, R2. now subst.
Qed.
