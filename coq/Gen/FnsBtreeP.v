(* The hand-written size/threshold functions of the B-tree and multimap models are equal to the
   functions generated from btree_base.rs / btree_mutator.rs / multimap_table.rs (Gen/Fns.v). *)
From Coq Require Import List NArith Bool Lia.
From RV Require Import Gen.Consts Gen.FnsLib Gen.FnsLibP Gen.Fns Btree.Tree Btree.Mutator Multimap.Model.
Import ListNotations.
Open Scope N_scope.

Local Ltac crush :=
  repeat match goal with
         | |- context [match ?o with Some _ => _ | None => _ end] => destruct o
         end; cbn; try reflexivity; try lia.

(* RawLeafBuilder::required_bytes *)
Lemma leaf_required_is_model : forall n bytes (fk fv : option N),
  RawLeafBuilder_required_bytes n bytes fk fv = Mutator.leaf_required (isSome fk) (isSome fv) n bytes.
Proof. tie leaf_required_is_model.
  intros. unfold RawLeafBuilder_required_bytes, Mutator.leaf_required, isNone, isSome.
  destruct fk, fv; lia.
Qed.

Lemma LeafBuilder_required_is_model : forall (fk fv : option N) n bytes,
  LeafBuilder_required_bytes fk fv n bytes = Mutator.leaf_required (isSome fk) (isSome fv) n bytes.
Proof. tie LeafBuilder_required_is_model. intros. unfold LeafBuilder_required_bytes. apply leaf_required_is_model. Qed.

(* leaf_fits_one_page / leaf_split_required / leaf_below_merge_threshold *)
Lemma leaf_fits_is_model : forall n bytes (fk fv : option N) ps,
  leaf_fits_one_page n bytes fk fv ps = Mutator.leaf_fits (isSome fk) (isSome fv) ps n bytes.
Proof. tie leaf_fits_is_model.
  intros. unfold leaf_fits_one_page, Mutator.leaf_fits. now rewrite leaf_required_is_model.
Qed.

Lemma leaf_split_required_is_model : forall n bytes (fk fv : option N) ps,
  Fns.leaf_split_required n bytes fk fv ps = Mutator.leaf_split_required (isSome fk) (isSome fv) ps n bytes.
Proof. tie leaf_split_required_is_model.
  intros. unfold Fns.leaf_split_required, Mutator.leaf_split_required. now rewrite leaf_fits_is_model.
Qed.

Lemma leaf_below_merge_is_model : forall n bytes (fk fv : option N) ps,
  leaf_below_merge_threshold n bytes fk fv ps = Mutator.leaf_below_merge (isSome fk) (isSome fv) ps n bytes.
Proof. tie leaf_below_merge_is_model.
  intros. unfold leaf_below_merge_threshold, Mutator.leaf_below_merge. now rewrite leaf_required_is_model.
Qed.

(* LeafBuilder::should_split with pairs.len() = n, total_key_bytes + total_value_bytes = the leaf's bytes *)
Lemma LeafBuilder_should_split_is_model : forall kb vb (fk fv : option N) n ps,
  LeafBuilder_should_split kb vb fk fv n ps = Mutator.leaf_split_required (isSome fk) (isSome fv) ps n (kb + vb).
Proof. tie LeafBuilder_should_split_is_model. intros. unfold LeafBuilder_should_split. apply leaf_split_required_is_model. Qed.

(* is_single_large_value on a leaf holding exactly [e]: total_length = required_bytes 1 (pair_bytes e) *)
Lemma single_large_is_model : forall {K V} (ksize : K -> N) (vsize : V -> N) (fk fv : option N) ps (es : list (K * V)),
  Mutator.single_large ksize vsize (isSome fk) (isSome fv) ps es =
  is_single_large_value ps (Mutator.nlen es)
    (RawLeafBuilder_required_bytes (Mutator.nlen es) (Mutator.leaf_bytes ksize vsize es) fk fv).
Proof. tie single_large_is_model.
  intros. unfold is_single_large_value, Mutator.single_large.
  destruct es as [|e [|e2 r]].
  - reflexivity.
  - rewrite leaf_required_is_model. cbn [Mutator.nlen length Mutator.leaf_bytes fold_right].
    change (N.of_nat 1) with 1. rewrite N.add_0_r. reflexivity.
  - unfold Mutator.nlen. cbn [length].
    destruct (N.of_nat (S (S (length r))) =? 1) eqn:E; [|reflexivity].
    apply N.eqb_eq in E. lia.
Qed.

(* RawBranchBuilder::required_bytes, BranchBuilder::required_bytes / should_split *)
Lemma branch_required_is_model : forall nkeys keybytes (fk : option N),
  RawBranchBuilder_required_bytes nkeys keybytes fk = Mutator.branch_required (isSome fk) nkeys keybytes.
Proof. tie branch_required_is_model.
  intros. unfold RawBranchBuilder_required_bytes, Mutator.branch_required, PageNumber_serialized_size, isNone, isSome.
  destruct fk; lia.
Qed.

Lemma BranchBuilder_required_is_model : forall keybytes (fk : option N) nkeys,
  BranchBuilder_required_bytes keybytes fk nkeys = Mutator.branch_required (isSome fk) nkeys keybytes.
Proof. tie BranchBuilder_required_is_model. intros. apply branch_required_is_model. Qed.

Lemma branch_should_split_is_model :
  forall {K V} (ksize : K -> N) (fk : option N) ps (rest : list (K * @node K V)),
  Mutator.branch_should_split ksize (isSome fk) ps rest =
  BranchBuilder_should_split (Mutator.sep_bytes ksize rest) fk (Mutator.nlen rest) ps.
Proof. tie branch_should_split_is_model.
  intros. unfold Mutator.branch_should_split, BranchBuilder_should_split.
  now rewrite branch_required_is_model.
Qed.

(* the branch merge threshold of finalize_branch_builder, as used by the model's delete *)
Lemma branch_below_merge_is_model : forall required ps,
  finalize_branch_builder_below_merge required ps = (required <? ps / 3).
Proof. tie branch_below_merge_is_model. reflexivity. Qed.

(* LeafBuilder::build_split: the "half reached" test and the u16 clamp of the division *)
Lemma split_half_reached_is_model : forall kb vb total,
  LeafBuilder_build_split_half_reached kb vb total = (total / 2 <=? kb + vb).
Proof. tie split_half_reached_is_model. reflexivity. Qed.

Lemma split_clamp_is_model : forall d n,
  LeafBuilder_build_split_clamp d n 65535 = N.max (n - 65535) (N.min d 65535).
Proof. tie split_clamp_is_model. reflexivity. Qed.

Lemma division_is_model : forall {K V} (ksize : K -> N) (vsize : V -> N) (es : list (K * V)),
  Mutator.division ksize vsize es =
  N.to_nat (LeafBuilder_build_split_clamp
              (N.of_nat (Mutator.split_point ksize vsize es 0 (Mutator.leaf_bytes ksize vsize es / 2)))
              (Mutator.nlen es) 65535).
Proof. tie division_is_model. reflexivity. Qed.

(* ---- multimap (C09): the inline collection is a leaf with V::fixed_width() keys and () values *)
Lemma mm_required_is_model : forall (c : Multimap.Model.cfg) n bytes,
  Multimap.Model.required_bytes c n bytes = RawLeafBuilder_required_bytes n bytes (Multimap.Model.vwidth c) (Some 0).
Proof. tie mm_required_is_model.
  intros. unfold Multimap.Model.required_bytes, RawLeafBuilder_required_bytes, isNone.
  destruct (Multimap.Model.vwidth c); lia.
Qed.

Lemma mm_stays_inline_is_model : forall (c : Multimap.Model.cfg) req new_pairs,
  multimap_insert_stays_inline req new_pairs (Multimap.Model.page_size c) =
  (req <? Multimap.Model.half_page c) && (new_pairs <=? Multimap.Model.U16_MAX).
Proof. tie mm_stays_inline_is_model. reflexivity. Qed.

Lemma mm_new_key_inline_is_model : forall (c : Multimap.Model.cfg) req,
  multimap_insert_new_key_inline req (Multimap.Model.page_size c) = (req <? Multimap.Model.half_page c).
Proof. tie mm_new_key_inline_is_model. reflexivity. Qed.
