(* C07 model: savepoint bookkeeping of redb over abstract contents.
   Definitions only (proofs are in ModelP.v).

   What is modelled, function by function (src/transactions.rs, src/transaction_tracker.rs, src/db.rs):
     tracker State            valid_savepoints (+ persistent flag), next_savepoint_id
     SAVEPOINT_TABLE          association list  id -> captured contents   (staged / committed / durable copies)
     NEXT_SAVEPOINT_TABLE     option N                                     (staged / committed / durable copies)
     SavepointTransactionState created_persistent, deleted_persistent, invalidated
     WriteTransaction         dirty flag, durability, staged data contents
     Savepoint handles        id, captured contents, the tracker (= session) they belong to, ephemeral flag
   Contents of the data tables are an opaque token [D] (the harness maps tokens to real table contents);
   pages are not modelled here (page ownership is C06's model). *)
From Coq Require Import List NArith Bool.
Import ListNotations.
Open Scope N_scope.

Definition D := N.

Inductive dur := DNone | DImm.

Definition dur_eqb (a b : dur) : bool :=
  match a, b with DNone, DNone => true | DImm, DImm => true | _, _ => false end.

Record handle := mkHandle {
  h_id : N;
  h_data : D;
  h_session : N;
  h_eph : bool;
  h_live : bool
}.

Record txn := mkTxn {
  t_staged : D;
  t_dirty : bool;
  t_dur : dur;
  t_created : list N;
  t_deleted : list N;
  t_invalid : list N;
  t_table : list (N * D);
  t_next : option N
}.

Record st := mkSt {
  session : N;
  committed : D;
  durable : D;
  tbl_c : list (N * D);
  next_c : option N;
  tbl_d : list (N * D);
  next_d : option N;
  valid : list (N * bool);       (* tracker: valid_savepoints, flag = member of persistent_savepoints *)
  next_id : N;                   (* tracker: next_savepoint_id *)
  handles : list handle;
  ever : list N;                 (* ghost: ids of persistent savepoints that were ever durably committed *)
  cur : option txn
}.

Definition init (d0 : D) : st :=
  mkSt 0 d0 d0 [] None [] None [] 0 [] [] None.

Inductive op :=
| OBegin | OSetDur (d : dur) | OTouch | OWrite (d : D)
| OEph | OPers | OGet (id : N) | ODel (id : N) | ORestore (h : N) | OList
| OCommit | OAbort | ODrop (h : N) | OReopen | OCrash | OIntegrity
| OFlag            (* set_two_phase_commit / set_quick_repair: no effect on this model *)
| OPeekDb          (* read the committed contents through a read transaction *)
| OLook.           (* list the tables inside the write transaction when there are none: opens no table, so not dirty *)

Inductive res :=
| ROk
| RHandle (h id : N)
| RNum (n : N)
| RBool (b : bool)
| RList (l : list N)
| RState (d : D)
| RErrInvalid            (* SavepointError::InvalidSavepoint *)
| RErrImm                (* SavepointError::ImmediateDurabilityRequired *)
| RErrDurab              (* SetDurabilityError::PersistentSavepointModified *)
| RErrBusy               (* check_integrity: TransactionInProgress *)
| RMisuse.               (* the history used an operation outside its precondition (harness bug) *)

(* ---- small list helpers *)
Definition memN (x : N) (l : list N) : bool := existsb (N.eqb x) l.
Definition ids {A} (l : list (N * A)) : list N := map fst l.
Definition lookup {A} (x : N) (l : list (N * A)) : option A :=
  match find (fun p => N.eqb (fst p) x) l with Some p => Some (snd p) | None => None end.
Definition remove_id {A} (x : N) (l : list (N * A)) : list (N * A) :=
  filter (fun p => negb (N.eqb (fst p) x)) l.
Definition remove_ids {A} (xs : list N) (l : list (N * A)) : list (N * A) :=
  filter (fun p => negb (memN (fst p) xs)) l.
Definition later_ids {A} (x : N) (l : list (N * A)) : list N :=
  ids (filter (fun p => N.ltb x (fst p)) l).
Definition omax (a : N) (o : option N) : N := match o with Some b => N.max a b | None => a end.

Fixpoint set_nth {A} (n : nat) (x : A) (l : list A) : list A :=
  match l, n with
  | [], _ => []
  | _ :: r, O => x :: r
  | y :: r, S k => y :: set_nth k x r
  end.

Definition with_txn (s : st) (t : txn) : st :=
  mkSt (session s) (committed s) (durable s) (tbl_c s) (next_c s) (tbl_d s) (next_d s)
       (valid s) (next_id s) (handles s) (ever s) (Some t).

Definition begin_txn (s : st) : txn :=
  mkTxn (committed s) false DImm [] [] [] (tbl_c s) (next_c s).

(* tracker.allocate_savepoint *)
Definition fresh_id (s : st) : N := next_id s + 1.

(* WriteTransaction::ephemeral_savepoint *)
Definition do_eph (s : st) (t : txn) : st * res :=
  if t_dirty t then (s, RErrInvalid) else
  let id := fresh_id s in
  let h := mkHandle id (committed s) (session s) true true in
  (mkSt (session s) (committed s) (durable s) (tbl_c s) (next_c s) (tbl_d s) (next_d s)
        (valid s ++ [(id, false)]) id (handles s ++ [h]) (ever s) (Some t),
   RHandle (N.of_nat (length (handles s))) id).

(* WriteTransaction::persistent_savepoint *)
Definition do_pers (s : st) (t : txn) : st * res :=
  match t_dur t with
  | DNone => (s, RErrImm)
  | DImm =>
    if t_dirty t then (s, RErrInvalid) else
    let id := fresh_id s in
    let t' := mkTxn (t_staged t) (t_dirty t) (t_dur t) (t_created t ++ [id]) (t_deleted t) (t_invalid t)
                    (t_table t ++ [(id, committed s)]) (Some (omax (id + 1) (t_next t))) in
    (mkSt (session s) (committed s) (durable s) (tbl_c s) (next_c s) (tbl_d s) (next_d s)
          (valid s ++ [(id, true)]) id (handles s) (ever s) (Some t'),
     RNum id)
  end.

(* WriteTransaction::get_persistent_savepoint *)
Definition do_get (s : st) (t : txn) (id : N) : st * res :=
  match lookup id (t_table t) with
  | None => (s, RErrInvalid)
  | Some d =>
    let h := mkHandle id d (session s) false true in
    (mkSt (session s) (committed s) (durable s) (tbl_c s) (next_c s) (tbl_d s) (next_d s)
          (valid s) (next_id s) (handles s ++ [h]) (ever s) (Some t),
     RHandle (N.of_nat (length (handles s))) id)
  end.

(* the staging part of delete_persistent_savepoint (durability already checked) *)
Definition stage_delete (t : txn) (id : N) : txn :=
  mkTxn (t_staged t) (t_dirty t) (t_dur t) (t_created t) (t_deleted t ++ [id]) (t_invalid t)
        (remove_id id (t_table t)) (t_next t).

(* WriteTransaction::delete_persistent_savepoint *)
Definition do_del (s : st) (t : txn) (id : N) : st * res :=
  match t_dur t with
  | DNone => (s, RErrImm)
  | DImm =>
    if memN id (ids (t_table t)) then (with_txn s (stage_delete t id), RBool true)
    else (s, RBool false)
  end.

(* WriteTransaction::restore_savepoint + restore_savepoint_inner *)
Definition do_restore (s : st) (t : txn) (h : handle) : st * res :=
  if negb (N.eqb (h_session h) (session s)) then (s, RErrInvalid) else
  if negb (memN (h_id h) (ids (valid s))) || memN (h_id h) (t_invalid t) then (s, RErrInvalid) else
  let later_p := later_ids (h_id h) (t_table t) in
  match t_dur t, later_p with
  | DNone, _ :: _ => (s, RErrImm)
  | _, _ =>
    let t' := mkTxn (h_data h) true (t_dur t) (t_created t) (t_deleted t ++ later_p)
                    (t_invalid t ++ later_ids (h_id h) (valid s))
                    (remove_ids later_p (t_table t)) (t_next t) in
    (with_txn s t', ROk)
  end.

(* SavepointTransactionState::apply_on_commit *)
Definition valid_after_commit (s : st) (t : txn) : list (N * bool) :=
  remove_ids (t_invalid t) (remove_ids (t_deleted t) (valid s)).

(* SavepointTransactionState::apply_on_abort *)
Definition valid_after_abort (s : st) (t : txn) : list (N * bool) :=
  remove_ids (t_created t) (valid s).

Definition do_commit (s : st) (t : txn) : st * res :=
  let v := valid_after_commit s t in
  match t_dur t with
  | DImm =>
    (mkSt (session s) (t_staged t) (t_staged t) (t_table t) (t_next t) (t_table t) (t_next t)
          v (next_id s) (handles s) (ever s ++ ids (t_table t)) None, RState (t_staged t))
  | DNone =>
    (mkSt (session s) (t_staged t) (durable s) (t_table t) (t_next t) (tbl_d s) (next_d s)
          v (next_id s) (handles s) (ever s) None, RState (t_staged t))
  end.

Definition do_abort (s : st) (t : txn) : st * res :=
  (mkSt (session s) (committed s) (durable s) (tbl_c s) (next_c s) (tbl_d s) (next_d s)
        (valid_after_abort s t) (next_id s) (handles s) (ever s) None, RState (committed s)).

(* Savepoint::drop *)
Definition do_drop (s : st) (i : N) : st * res :=
  match nth_error (handles s) (N.to_nat i) with
  | None => (s, RMisuse)
  | Some h =>
    if negb (h_live h) then (s, RMisuse) else
    let h' := mkHandle (h_id h) (h_data h) (h_session h) (h_eph h) false in
    let v := if h_eph h && N.eqb (h_session h) (session s) then remove_id (h_id h) (valid s) else valid s in
    (mkSt (session s) (committed s) (durable s) (tbl_c s) (next_c s) (tbl_d s) (next_d s)
          v (next_id s) (set_nth (N.to_nat i) h' (handles s)) (ever s) (cur s), ROk)
  end.

(* Database::new: tracker rebuilt from the system tables of the opened commit *)
Definition reopened (s : st) (d : D) (tbl : list (N * D)) (nx : option N) : st :=
  mkSt (session s + 1) d d tbl nx tbl nx
       (map (fun p => (fst p, true)) tbl)
       (match nx with Some n => n | None => 0 end)
       (handles s) (ever s) None.

Definition has_ephemeral (s : st) : bool := existsb (fun p => negb (snd p)) (valid s).

Definition step (s : st) (o : op) : st * res :=
  match o, cur s with
  | OBegin, None => (with_txn s (begin_txn s), ROk)
  | OBegin, Some _ => (s, RMisuse)
  | OSetDur d, Some t =>
    match d, t_created t ++ t_deleted t with
    | DNone, _ :: _ => (s, RErrDurab)
    | _, _ => (with_txn s (mkTxn (t_staged t) (t_dirty t) d (t_created t) (t_deleted t) (t_invalid t)
                                 (t_table t) (t_next t)), ROk)
    end
  | OTouch, Some t =>
    (with_txn s (mkTxn (t_staged t) true (t_dur t) (t_created t) (t_deleted t) (t_invalid t)
                       (t_table t) (t_next t)), RState (t_staged t))
  | OWrite d, Some t =>
    (with_txn s (mkTxn d true (t_dur t) (t_created t) (t_deleted t) (t_invalid t)
                       (t_table t) (t_next t)), ROk)
  | OEph, Some t => do_eph s t
  | OPers, Some t => do_pers s t
  | OGet id, Some t => do_get s t id
  | ODel id, Some t => do_del s t id
  | ORestore i, Some t =>
    match nth_error (handles s) (N.to_nat i) with
    | Some h => if h_live h then do_restore s t h else (s, RMisuse)
    | None => (s, RMisuse)
    end
  | OList, Some t => (s, RList (ids (t_table t)))
  | OCommit, Some t => do_commit s t
  | OAbort, Some t => do_abort s t
  | ODrop i, _ => do_drop s i
  | OReopen, None => (reopened s (committed s) (tbl_c s) (next_c s), RState (committed s))
  | OCrash, _ => (reopened s (durable s) (tbl_d s) (next_d s), RState (durable s))
  | OIntegrity, None =>
    if has_ephemeral s then (s, RErrBusy) else
    (mkSt (session s) (committed s) (committed s) (tbl_c s) (next_c s) (tbl_c s) (next_c s)
          (valid s) (next_id s) (handles s) (ever s ++ ids (tbl_c s)) None, RBool true)
  | OFlag, Some _ => (s, ROk)
  | OPeekDb, None => (s, RState (committed s))
  | OLook, Some t => (s, RState (t_staged t))
  | _, _ => (s, RMisuse)
  end.

(* What the tracker holds, for the correspondence with the H3 tracker snapshot:
   valid_savepoints with the persistent flag, next_savepoint_id, and the number of read references
   held on behalf of savepoints (one per registered persistent savepoint, one per live ephemeral
   handle of this session -- an invalidated ephemeral savepoint keeps its reference until dropped). *)
Definition user_refs (s : st) : N :=
  N.of_nat (length (filter (fun p => snd p) (valid s))
            + length (filter (fun h => h_eph h && h_live h && N.eqb (h_session h) (session s)) (handles s))).

Fixpoint run (s : st) (l : list op) : st :=
  match l with [] => s | o :: r => run (fst (step s o)) r end.

Fixpoint run_res (s : st) (l : list op) : list res :=
  match l with [] => [] | o :: r => snd (step s o) :: run_res (fst (step s o)) r end.
