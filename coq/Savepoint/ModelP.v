(* Proofs about the C07 savepoint model (RV.Savepoint.Model). *)
From Coq Require Import List NArith Bool Lia.
From RV Require Import Savepoint.Model.
Import ListNotations.
Open Scope N_scope.

(* ------------------------------------------------------------------ list helpers *)
Lemma memN_In : forall x l, memN x l = true <-> In x l.
Proof.
  intros x l. unfold memN. rewrite existsb_exists. split.
  - intros [y [Hy He]]. apply N.eqb_eq in He. subst. exact Hy.
  - intros H. exists x. split; [exact H|apply N.eqb_refl].
Qed.

Lemma memN_false : forall x l, memN x l = false <-> ~ In x l.
Proof.
  intros x l. rewrite <- memN_In. destruct (memN x l); split; intros H; congruence.
Qed.

Lemma ids_filter_fst : forall {A} (f : N -> bool) (l : list (N * A)),
  ids (filter (fun p => f (fst p)) l) = filter f (ids l).
Proof.
  intros A f l. unfold ids. induction l as [|p l IH]; simpl; [reflexivity|].
  destruct (f (fst p)); simpl; rewrite IH; reflexivity.
Qed.

Lemma In_ids_remove_ids : forall {A} x xs (l : list (N * A)),
  In x (ids (remove_ids xs l)) <-> In x (ids l) /\ ~ In x xs.
Proof.
  intros A x xs l. unfold remove_ids.
  rewrite (ids_filter_fst (fun i => negb (memN i xs))). rewrite filter_In.
  rewrite negb_true_iff, memN_false. tauto.
Qed.

Lemma In_ids_remove_id : forall {A} x y (l : list (N * A)),
  In x (ids (remove_id y l)) <-> In x (ids l) /\ x <> y.
Proof.
  intros A x y l. unfold remove_id.
  rewrite (ids_filter_fst (fun i => negb (N.eqb i y))). rewrite filter_In.
  rewrite negb_true_iff, N.eqb_neq. tauto.
Qed.

Lemma In_later_ids : forall {A} x a (l : list (N * A)),
  In x (later_ids a l) <-> In x (ids l) /\ a < x.
Proof.
  intros A x a l. unfold later_ids.
  rewrite (ids_filter_fst (fun i => N.ltb a i)). rewrite filter_In, N.ltb_lt. tauto.
Qed.

Lemma In_remove_ids : forall {A} (p : N * A) xs l,
  In p (remove_ids xs l) <-> In p l /\ ~ In (fst p) xs.
Proof.
  intros A p xs l. unfold remove_ids. rewrite filter_In, negb_true_iff, memN_false. tauto.
Qed.

Lemma In_remove_id : forall {A} (p : N * A) y l,
  In p (remove_id y l) <-> In p l /\ fst p <> y.
Proof.
  intros A p y l. unfold remove_id. rewrite filter_In, negb_true_iff, N.eqb_neq. tauto.
Qed.

Lemma ids_app : forall {A} (a b : list (N * A)), ids (a ++ b) = ids a ++ ids b.
Proof. intros. unfold ids. apply map_app. Qed.

Lemma lookup_In : forall {A} x (d : A) l, lookup x l = Some d -> In (x, d) l.
Proof.
  intros A x d l. unfold lookup. destruct (find _ l) as [p|] eqn:E; [|discriminate].
  intros H. inversion H; subst. apply find_some in E. destruct E as [Hin He].
  apply N.eqb_eq in He. destruct p; simpl in *; subst. exact Hin.
Qed.

Lemma lookup_In_ids : forall {A} x (d : A) l, lookup x l = Some d -> In x (ids l).
Proof. intros. apply lookup_In in H. unfold ids. change x with (fst (x, d)). apply in_map. exact H. Qed.

Lemma lookup_remove_ids : forall {A} x (d : A) xs l,
  lookup x l = Some d -> ~ In x xs -> lookup x (remove_ids xs l) = Some d.
Proof.
  intros A x d xs l. unfold lookup, remove_ids. induction l as [|p l IH]; simpl; [discriminate|].
  intros H Hn. destruct (N.eqb (fst p) x) eqn:E.
  - apply N.eqb_eq in E. assert (memN (fst p) xs = false) as M by (apply memN_false; congruence).
    rewrite M. simpl. rewrite (proj2 (N.eqb_eq _ _) E). exact H.
  - destruct (negb (memN (fst p) xs)); simpl; [rewrite E|]; apply IH; assumption.
Qed.

(* ------------------------------------------------------------------ T1: restore, then commit *)

Definition handle_at (s : st) (i : N) : option handle := nth_error (handles s) (N.to_nat i).

(* A restore that succeeds stages exactly the captured contents, marks the later savepoints, and
   committing publishes them. *)
Theorem restore_exact : forall s t i h s1 s2 r2,
  cur s = Some t -> handle_at s i = Some h ->
  step s (ORestore i) = (s1, ROk) ->
  step s1 OCommit = (s2, r2) ->
  committed s2 = h_data h /\ r2 = RState (h_data h)
  /\ (t_dur t = DImm -> durable s2 = h_data h)
  /\ (forall id', In id' (ids (valid s2)) -> id' <= h_id h)
  /\ (forall id', In id' (ids (tbl_c s2)) -> id' <= h_id h).
Proof.
  intros s t i h s1 s2 r2 Hc Hh Hr Hcm.
  unfold step in Hr. rewrite Hc in Hr. unfold handle_at in Hh. rewrite Hh in Hr.
  destruct (h_live h); [|discriminate].
  unfold do_restore in Hr.
  destruct (negb (h_session h =? session s)); [discriminate|].
  destruct (negb (memN (h_id h) (ids (valid s))) || memN (h_id h) (t_invalid t)); [discriminate|].
  assert (exists t', s1 = with_txn s t' /\ t_staged t' = h_data h /\ t_dur t' = t_dur t
                     /\ (forall x, In x (later_ids (h_id h) (valid s)) -> In x (t_invalid t'))
                     /\ t_table t' = remove_ids (later_ids (h_id h) (t_table t)) (t_table t)) as [t' [E1 [E2 [E3 [E4 E5]]]]].
  { destruct (t_dur t) eqn:Ed; destruct (later_ids (h_id h) (t_table t)) eqn:El; try discriminate;
      inversion Hr; subst; eexists; (split; [reflexivity|]); simpl; repeat split; auto;
      intros x Hx; apply in_or_app; right; exact Hx. }
  subst s1. unfold step in Hcm. simpl in Hcm. unfold do_commit in Hcm.
  assert (forall id', In id' (ids (valid_after_commit (with_txn s t') t')) -> id' <= h_id h) as Hv.
  { intros id' Hin. unfold valid_after_commit in Hin. simpl in Hin.
    apply In_ids_remove_ids in Hin. destruct Hin as [Hin Hni].
    apply In_ids_remove_ids in Hin. destruct Hin as [Hin _].
    destruct (N.le_gt_cases id' (h_id h)) as [L|G]; [exact L|].
    exfalso. apply Hni. apply E4. apply In_later_ids. split; [exact Hin|exact G]. }
  assert (forall id', In id' (ids (t_table t')) -> id' <= h_id h) as Ht.
  { intros id' Hin. rewrite E5 in Hin. apply In_ids_remove_ids in Hin. destruct Hin as [Hin Hni].
    destruct (N.le_gt_cases id' (h_id h)) as [L|G]; [exact L|].
    exfalso. apply Hni. apply In_later_ids. split; [exact Hin|exact G]. }
  rewrite E3 in Hcm.
  destruct (t_dur t); inversion Hcm; subst; simpl; repeat split; auto; try discriminate; congruence.
Qed.

(* ------------------------------------------------------------------ T2: restore, then abort *)

Definition observable (s : st) :=
  (committed s, durable s, tbl_c s, next_c s, tbl_d s, next_d s, valid s, next_id s, session s).

Definition abort_of (s : st) : st := fst (step s OAbort).

(* Whatever a restore did (or refused to do), aborting gives exactly the state an abort without the
   restore would have given. *)
Theorem restore_abort_noop : forall s t i s1 r1,
  cur s = Some t ->
  step s (ORestore i) = (s1, r1) ->
  observable (abort_of s1) = observable (abort_of s) /\ handles (abort_of s1) = handles (abort_of s)
  /\ cur (abort_of s1) = None.
Proof.
  intros s t i s1 r1 Hc Hr. unfold abort_of.
  unfold step in Hr. rewrite Hc in Hr.
  assert (cur s1 = None -> False \/ True) as _ by auto.
  destruct (nth_error (handles s) (N.to_nat i)) as [h|].
  2:{ inversion Hr; subst. unfold step. rewrite Hc. simpl. auto. }
  destruct (h_live h).
  2:{ inversion Hr; subst. unfold step. rewrite Hc. simpl. auto. }
  unfold do_restore in Hr.
  destruct (negb (h_session h =? session s)).
  { inversion Hr; subst. unfold step. rewrite Hc. simpl. auto. }
  destruct (negb (memN (h_id h) (ids (valid s))) || memN (h_id h) (t_invalid t)).
  { inversion Hr; subst. unfold step. rewrite Hc. simpl. auto. }
  destruct (t_dur t); destruct (later_ids (h_id h) (t_table t)); inversion Hr; subst;
    unfold step; simpl; rewrite Hc; simpl; auto.
Qed.

(* ------------------------------------------------------------------ committed data only moves at commit / crash *)

Definition keeps_data (o : op) : bool :=
  match o with OCommit | OCrash => false | _ => true end.

Theorem no_data_loss : forall s o, keeps_data o = true ->
  committed (fst (step s o)) = committed s
  /\ (o <> OReopen -> o <> OIntegrity -> durable (fst (step s o)) = durable s)
  /\ (o = OReopen \/ o = OIntegrity -> durable (fst (step s o)) = durable s \/ durable (fst (step s o)) = committed s).
Proof.
  intros s o Hk.
  destruct o; try discriminate; unfold step; destruct (cur s) as [t|] eqn:Hc; simpl;
    try (repeat split; intros; auto; fail).
  - destruct d; destruct (t_created t ++ t_deleted t); simpl; repeat split; intros; auto.
  - unfold do_eph. destruct (t_dirty t); simpl; repeat split; intros; auto.
  - unfold do_pers. destruct (t_dur t); [|destruct (t_dirty t)]; simpl; repeat split; intros; auto.
  - unfold do_get. destruct (lookup id (t_table t)); simpl; repeat split; intros; auto.
  - unfold do_del. destruct (t_dur t); [|destruct (memN id (ids (t_table t)))]; simpl; repeat split; intros; auto.
  - destruct (nth_error (handles s) (N.to_nat h)) as [hh|]; [|simpl; repeat split; intros; auto].
    destruct (h_live hh); [|simpl; repeat split; intros; auto].
    unfold do_restore. destruct (negb (h_session hh =? session s)); [simpl; repeat split; intros; auto|].
    destruct (negb (memN (h_id hh) (ids (valid s))) || memN (h_id hh) (t_invalid t)); [simpl; repeat split; intros; auto|].
    destruct (t_dur t); destruct (later_ids (h_id hh) (t_table t)); simpl; repeat split; intros; auto.
  - unfold do_drop. destruct (nth_error (handles s) (N.to_nat h)) as [hh|]; [|simpl; repeat split; intros; auto].
    destruct (negb (h_live hh)); simpl; repeat split; intros; auto.
  - unfold do_drop. destruct (nth_error (handles s) (N.to_nat h)) as [hh|]; [|simpl; repeat split; intros; auto].
    destruct (negb (h_live hh)); simpl; repeat split; intros; auto.
  - repeat split; intros; auto. congruence.
  - destruct (has_ephemeral s); simpl; repeat split; intros; auto; congruence.
Qed.
