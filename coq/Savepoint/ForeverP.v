From Coq Require Import List NArith Bool Lia PeanoNat.
From RV Require Import Savepoint.Model.
From RV Require Import Savepoint.ModelP Savepoint.InvP.
Import ListNotations.
Open Scope N_scope.

Definition reachable (s : st) : Prop := exists d0 l, s = run (init d0) l.

Lemma inv_run : forall l s, Inv s -> Inv (run s l).
Proof. induction l as [|o l IH]; intros s H; simpl; [exact H|]. apply IH. apply inv_step. exact H. Qed.

Theorem inv_reach : forall s, reachable s -> Inv s.
Proof. intros s [d0 [l E]]. subst. apply inv_run. apply inv_init. Qed.

Lemma reachable_step : forall s o, reachable s -> reachable (fst (step s o)).
Proof.
  intros s o [d0 [l E]]. exists d0, (l ++ [o]). subst.
  generalize (init d0). induction l as [|a l IH]; intros s0; simpl; [reflexivity|apply IH].
Qed.

Lemma run_app : forall l1 l2 s, run s (l1 ++ l2) = run (run s l1) l2.
Proof. induction l1; intros; simpl; auto. Qed.

Lemma reachable_run : forall l s, reachable s -> reachable (run s l).
Proof. induction l as [|o l IH]; intros s H; simpl; [exact H|]. apply IH. apply reachable_step. exact H. Qed.

(* persistent savepoint tables of the last commit and of the last durable commit coincide *)
Theorem persistent_durable : forall s, reachable s -> tbl_d s = tbl_c s /\ next_d s = next_c s.
Proof. intros s R. apply (i_dur s (inv_reach s R)). Qed.

(* ------------------------------------------------------------------ fresh ids *)

Definition new_id (s : st) (o : op) : option N :=
  match o, snd (step s o) with
  | OEph, RHandle _ id => Some id
  | OPers, RNum id => Some id
  | _, _ => None
  end.

Theorem savepoint_ids_fresh : forall s o id, reachable s -> new_id s o = Some id ->
  ~ In id (ids (valid s)) /\ ~ In id (ids (tbl_c s)) /\ ~ In id (ids (tbl_d s)) /\ ~ In id (ever s)
  /\ (forall t, cur s = Some t -> ~ In id (ids (t_table t)))
  /\ (forall h, In h (handles s) -> h_session h = session s -> h_id h <> id)
  /\ next_id s < id.
Proof.
  intros s o id R Hn. pose proof (inv_reach s R) as I. destruct I as [Hval Htc Hnc [Hd1 Hd2] Hev Hhs Hhi Htx].
  assert (id = next_id s + 1) as E.
  { unfold new_id in Hn. destruct o; try discriminate; unfold step in Hn; destruct (cur s) as [t|]; simpl in Hn; try discriminate.
    - unfold do_eph in Hn. destruct (t_dirty t); simpl in Hn; try discriminate. inversion Hn. reflexivity.
    - unfold do_pers in Hn. destruct (t_dur t); simpl in Hn; try discriminate.
      destruct (t_dirty t); simpl in Hn; try discriminate. inversion Hn. reflexivity. }
  subst id.
  assert (forall x, opt_lt x (next_c s) -> x <= next_id s) as L.
  { intros x [n [En Ln]]. specialize (Hnc n En). lia. }
  repeat split.
  - intros Hin. apply Hval in Hin. lia.
  - intros Hin. apply Htc, L in Hin. lia.
  - rewrite Hd1. intros Hin. apply Htc, L in Hin. lia.
  - intros Hin. apply Hev, L in Hin. lia.
  - intros t Ht Hin. destruct (Htx t Ht) as [A [B _]]. destruct (A _ Hin) as [n [En Ln]].
    specialize (B n En). lia.
  - intros h Hin Es E. specialize (Hhi h Hin Es). lia.
  - lia.
Qed.

(* ------------------------------------------------------------------ unusable stays unusable *)

Definition unusable (s : st) (h : handle) : Prop :=
  h_session h < session s \/ (h_session h = session s /\ ~ In (h_id h) (ids (valid s)) /\ h_id h <= next_id s).

Lemma restore_ok_usable : forall s t h s1, cur s = Some t -> do_restore s t h = (s1, ROk) -> ~ unusable s h.
Proof.
  intros s t h s1 Hc Hr [U|[U1 [U2 U3]]]; unfold do_restore in Hr.
  - destruct (h_session h =? session s) eqn:E; simpl in Hr; [apply N.eqb_eq in E; lia|discriminate].
  - destruct (negb (h_session h =? session s)); [discriminate|].
    apply memN_false in U2. rewrite U2 in Hr. simpl in Hr. discriminate.
Qed.

Lemma unusable_step : forall s o h, Inv s -> h_session h <= session s ->
  unusable s h -> unusable (fst (step s o)) h.
Proof.
  intros s o h I Hs U. pose proof I as I0. destruct I as [Hval Htc Hnc [Hd1 Hd2] Hev Hhs Hhi Htx].
  assert (forall s', session s' = session s -> next_id s <= next_id s' ->
                     (forall x, In x (ids (valid s')) -> In x (ids (valid s)) \/ next_id s < x) ->
                     unusable s' h) as K.
  { intros s' E1 E2 E3. destruct U as [U|[U1 [U2 U3]]]; [left; lia|right].
    repeat split; try lia. intros Hin. destruct (E3 _ Hin); [tauto|lia]. }
  assert (forall s', session s' = session s + 1 -> unusable s' h) as K2 by (intros s' E; left; lia).
  assert (forall s', session s' = session s -> next_id s' = next_id s -> valid s' = valid s -> unusable s' h) as K0.
  { intros s' E1 E2 E3. apply K; auto; try lia. rewrite E3. auto. }
  destruct o; unfold step; destruct (cur s) as [t|] eqn:Hc; simpl; try exact U;
    try (apply K2; reflexivity).
  - destruct d; [destruct (t_created t ++ t_deleted t)|]; simpl; try exact U; try (apply K0; reflexivity).
  - unfold do_eph. destruct (t_dirty t); simpl; try exact U. apply K; simpl; unfold fresh_id; try lia.
    intros x Hin. rewrite ids_app in Hin. apply in_app_or in Hin. destruct Hin as [Hin|[E|[]]]; [auto|right; simpl in E; lia].
  - unfold do_pers. destruct (t_dur t); simpl; try exact U. destruct (t_dirty t); simpl; try exact U.
    apply K; simpl; unfold fresh_id; try lia.
    intros x Hin. rewrite ids_app in Hin. apply in_app_or in Hin. destruct Hin as [Hin|[E|[]]]; [auto|right; simpl in E; lia].
  - unfold do_get. destruct (lookup id (t_table t)); simpl; try exact U; try (apply K0; reflexivity).
  - unfold do_del. destruct (t_dur t); simpl; try exact U. destruct (memN id (ids (t_table t))); simpl; try exact U.
  - destruct (nth_error (handles s) (N.to_nat h0)) as [hh|]; simpl; try exact U. destruct (h_live hh); simpl; try exact U.
    unfold do_restore. destruct (negb (h_session hh =? session s)); simpl; try exact U.
    destruct (negb (memN (h_id hh) (ids (valid s))) || memN (h_id hh) (t_invalid t)); simpl; try exact U.
    destruct (t_dur t); destruct (later_ids (h_id hh) (t_table t)); simpl; try exact U.
  - unfold do_commit. destruct (t_dur t); simpl; apply K; simpl; try lia;
      intros x Hin; unfold valid_after_commit in Hin; apply In_ids_remove_ids in Hin; destruct Hin as [Hin _];
      apply In_ids_remove_ids in Hin; tauto.
  - apply K; simpl; try lia. intros x Hin. unfold valid_after_abort in Hin.
    apply In_ids_remove_ids in Hin. tauto.
  - unfold do_drop. destruct (nth_error (handles s) (N.to_nat h0)) as [hh|]; simpl; try exact U.
    destruct (negb (h_live hh)); simpl; try exact U. apply K; simpl; try lia.
    intros x Hin. destruct (h_eph hh && (h_session hh =? session s)); auto.
    apply In_ids_remove_id in Hin. tauto.
  - unfold do_drop. destruct (nth_error (handles s) (N.to_nat h0)) as [hh|]; simpl; try exact U.
    destruct (negb (h_live hh)); simpl; try exact U. apply K; simpl; try lia.
    intros x Hin. destruct (h_eph hh && (h_session hh =? session s)); auto.
    apply In_ids_remove_id in Hin. tauto.
  - destruct (has_ephemeral s); simpl; try exact U; try (apply K0; reflexivity).
Qed.

(* a handle keeps its identity (id, session, captured contents) at its index *)
Definition same_handle (a b : handle) : Prop :=
  h_id a = h_id b /\ h_session a = h_session b /\ h_data a = h_data b /\ h_eph a = h_eph b.

Lemma nth_error_set_nth_same : forall {A} n (x : A) l a,
  nth_error l n = Some a -> nth_error (set_nth n x l) n = Some x.
Proof.
  intros A n x l. revert n. induction l as [|b l IH]; intros n a H; destruct n; simpl in *; try discriminate; auto.
  eapply IH; eauto.
Qed.

Lemma nth_error_set_nth_other : forall {A} n m (x : A) l,
  n <> m -> nth_error (set_nth n x l) m = nth_error l m.
Proof.
  intros A n m x l. revert n m. induction l as [|b l IH]; intros n m H; destruct n, m; simpl in *; auto; try congruence.
Qed.

Lemma handle_stable : forall s o i h, handle_at s i = Some h ->
  exists h', handle_at (fst (step s o)) i = Some h' /\ same_handle h h'.
Proof.
  intros s o i h Hh. unfold handle_at in *.
  assert (forall x, nth_error (handles s ++ [x]) (N.to_nat i) = Some h) as App.
  { intros x. rewrite nth_error_app1; [exact Hh|]. apply nth_error_Some. congruence. }
  assert (same_handle h h) as Rf by (repeat split; reflexivity).
  destruct o; unfold step; destruct (cur s) as [t|] eqn:Hc; simpl; eauto.
  - destruct d; [destruct (t_created t ++ t_deleted t)|]; simpl; eauto.
  - unfold do_eph. destruct (t_dirty t); simpl; eauto.
  - unfold do_pers. destruct (t_dur t); simpl; eauto. destruct (t_dirty t); simpl; eauto.
  - unfold do_get. destruct (lookup id (t_table t)); simpl; eauto.
  - unfold do_del. destruct (t_dur t); simpl; eauto. destruct (memN id (ids (t_table t))); simpl; eauto.
  - destruct (nth_error (handles s) (N.to_nat h0)) as [hh|]; simpl; eauto. destruct (h_live hh); simpl; eauto.
    unfold do_restore. destruct (negb (h_session hh =? session s)); simpl; eauto.
    destruct (negb (memN (h_id hh) (ids (valid s))) || memN (h_id hh) (t_invalid t)); simpl; eauto.
    destruct (t_dur t); destruct (later_ids (h_id hh) (t_table t)); simpl; eauto.
  - unfold do_commit. destruct (t_dur t); simpl; eauto.
  - unfold do_drop. destruct (nth_error (handles s) (N.to_nat h0)) as [hh|] eqn:En; simpl; eauto.
    destruct (negb (h_live hh)); simpl; eauto.
    destruct (Nat.eq_dec (N.to_nat h0) (N.to_nat i)) as [E|E].
    + rewrite E in *. rewrite Hh in En. inversion En; subst hh.
      eexists. split; [eapply nth_error_set_nth_same; exact Hh|]. repeat split; reflexivity.
    + rewrite nth_error_set_nth_other; eauto.
  - unfold do_drop. destruct (nth_error (handles s) (N.to_nat h0)) as [hh|] eqn:En; simpl; eauto.
    destruct (negb (h_live hh)); simpl; eauto.
    destruct (Nat.eq_dec (N.to_nat h0) (N.to_nat i)) as [E|E].
    + rewrite E in *. rewrite Hh in En. inversion En; subst hh.
      eexists. split; [eapply nth_error_set_nth_same; exact Hh|]. repeat split; reflexivity.
    + rewrite nth_error_set_nth_other; eauto.
  - destruct (has_ephemeral s); simpl; eauto.
Qed.

Lemma unusable_same : forall s a b, same_handle a b -> unusable s a -> unusable s b.
Proof. intros s a b [E1 [E2 _]] U. unfold unusable in *. rewrite <- E1, <- E2. exact U. Qed.

Lemma handle_session_le : forall s i h, Inv s -> handle_at s i = Some h -> h_session h <= session s.
Proof. intros s i h I Hh. apply (i_hsess s I). eapply nth_error_In. exact Hh. Qed.

Theorem unusable_forever : forall l s i h, Inv s -> handle_at s i = Some h -> unusable s h ->
  exists h', handle_at (run s l) i = Some h' /\ same_handle h h' /\ unusable (run s l) h'.
Proof.
  induction l as [|o l IH]; intros s i h I Hh U; simpl.
  - exists h. repeat split; auto.
  - destruct (handle_stable s o i h Hh) as [h1 [H1 S1]].
    assert (unusable (fst (step s o)) h1) as U1.
    { apply (unusable_same _ h h1 S1). apply unusable_step; auto. eapply handle_session_le; eauto. }
    destruct (IH (fst (step s o)) i h1 (inv_step s o I) H1 U1) as [h2 [H2 [S2 U2]]].
    exists h2. repeat split; auto; destruct S1 as [A1 [A2 [A3 A4]]]; destruct S2 as [B1 [B2 [B3 B4]]]; congruence.
Qed.

Theorem unusable_never_restores : forall l s i h, Inv s -> handle_at s i = Some h -> unusable s h ->
  snd (step (run s l) (ORestore i)) <> ROk.
Proof.
  intros l s i h I Hh U. destruct (unusable_forever l s i h I Hh U) as [h' [H1 [S1 U1]]].
  unfold step. destruct (cur (run s l)) as [t|] eqn:Hc; [|discriminate].
  unfold handle_at in H1. rewrite H1. destruct (h_live h'); [|discriminate].
  intros E. destruct (do_restore (run s l) t h') as [s1 r] eqn:Er. simpl in E. subst r.
  exact (restore_ok_usable _ _ _ _ Hc Er U1).
Qed.

(* The second half of the property's first sentence, over every continuation of the history:
   after restore + commit, every savepoint handle created after the restored one can never be
   restored again, whatever happens afterwards (more transactions, reopen, crash, ...). *)
Theorem later_savepoints_unusable_forever : forall s t i h s1 s2 r2 j hj l,
  reachable s -> cur s = Some t -> handle_at s i = Some h ->
  step s (ORestore i) = (s1, ROk) -> step s1 OCommit = (s2, r2) ->
  handle_at s j = Some hj -> h_id h < h_id hj ->
  snd (step (run s2 l) (ORestore j)) <> ROk.
Proof.
  intros s t i h s1 s2 r2 j hj l R Hc Hh Hr Hcm Hj Lt.
  pose proof (inv_reach s R) as I.
  destruct (restore_exact s t i h s1 s2 r2 Hc Hh Hr Hcm) as [_ [_ [_ [V _]]]].
  assert (s1 = fst (step s (ORestore i))) as E1 by (rewrite Hr; reflexivity).
  assert (s2 = fst (step s1 OCommit)) as E2 by (rewrite Hcm; reflexivity).
  destruct (handle_stable s (ORestore i) j hj Hj) as [h1 [H1 S1]]. rewrite <- E1 in H1.
  destruct (handle_stable s1 OCommit j h1 H1) as [h2 [H2 S2]]. rewrite <- E2 in H2.
  assert (Inv s2) as I2 by (subst; apply inv_step; apply inv_step; exact I).
  apply (unusable_never_restores l s2 j h2 I2 H2).
  assert (h_id h2 = h_id hj /\ h_session h2 = h_session hj) as [Q1 Q2].
  { destruct S1 as [A1 [A2 _]]. destruct S2 as [B1 [B2 _]]. split; congruence. }
  assert (session s2 = session s /\ next_id s2 = next_id s) as [Q3 Q4].
  { clear - Hc Hr Hcm Hh. unfold step in Hr. rewrite Hc in Hr. unfold handle_at in Hh. rewrite Hh in Hr.
    destruct (h_live h); [|discriminate]. unfold do_restore in Hr.
    destruct (negb (h_session h =? session s)); [discriminate|].
    destruct (negb (memN (h_id h) (ids (valid s))) || memN (h_id h) (t_invalid t)); [discriminate|].
    destruct (t_dur t) eqn:Ed; destruct (later_ids (h_id h) (t_table t)); try discriminate;
      inversion Hr; subst s1; unfold step in Hcm; simpl in Hcm; unfold do_commit in Hcm; simpl in Hcm;
      inversion Hcm; subst; simpl; auto. }
  pose proof (handle_session_le s j hj I Hj) as Ls.
  unfold unusable. rewrite Q1, Q2, Q3, Q4.
  destruct (N.lt_ge_cases (h_session hj) (session s)) as [L|G]; [left; exact L|right].
  assert (h_session hj = session s) as Es by lia. repeat split; auto.
  - intros Hin. apply V in Hin. lia.
  - apply (i_hid s I hj); auto. eapply nth_error_In. exact Hj.
Qed.
