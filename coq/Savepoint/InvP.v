From Coq Require Import List NArith Bool Lia.
From RV Require Import Savepoint.Model.
From RV Require Import Savepoint.ModelP.
Import ListNotations.
Open Scope N_scope.

Definition opt_lt (x : N) (o : option N) := exists n, o = Some n /\ x < n.
Definition opt_le1 (o : option N) (b : N) := forall n, o = Some n -> n <= b + 1.
Definition opt_mono (a b : option N) := forall n, a = Some n -> exists m, b = Some m /\ n <= m.

Definition TxnInv (s : st) (t : txn) : Prop :=
  (forall id, In id (ids (t_table t)) -> opt_lt id (t_next t))
  /\ opt_le1 (t_next t) (next_id s)
  /\ opt_mono (next_c s) (t_next t)
  /\ (t_dur t = DNone -> t_created t = [] /\ t_deleted t = [])
  /\ (t_created t = [] /\ t_deleted t = [] -> t_table t = tbl_c s /\ t_next t = next_c s).

Record Inv (s : st) : Prop := mkInv {
  i_valid : forall id, In id (ids (valid s)) -> id <= next_id s;
  i_tblc  : forall id, In id (ids (tbl_c s)) -> opt_lt id (next_c s);
  i_nextc : opt_le1 (next_c s) (next_id s);
  i_dur   : tbl_d s = tbl_c s /\ next_d s = next_c s;
  i_ever  : forall id, In id (ever s) -> opt_lt id (next_c s);
  i_hsess : forall h, In h (handles s) -> h_session h <= session s;
  i_hid   : forall h, In h (handles s) -> h_session h = session s -> h_id h <= next_id s;
  i_txn   : forall t, cur s = Some t -> TxnInv s t
}.

Lemma opt_lt_mono : forall x a b, opt_lt x a -> opt_mono a b -> opt_lt x b.
Proof.
  intros x a b [n [E L]] M. destruct (M n E) as [m [E2 L2]]. exists m. split; [exact E2|lia].
Qed.

Lemma opt_mono_refl : forall a, opt_mono a a.
Proof. intros a n E. exists n. split; [exact E|lia]. Qed.

Lemma In_set_nth : forall {A} n (x : A) l y, In y (set_nth n x l) -> y = x \/ In y l.
Proof.
  intros A n x l. revert n. induction l as [|a l IH]; intros n y H; simpl in *.
  - destruct n; contradiction.
  - destruct n; simpl in H.
    + destruct H; [left; auto|right; right; exact H].
    + destruct H as [H|H]; [right; left; exact H|]. destruct (IH n y H); [left; auto|right; right; auto].
Qed.

Lemma inv_init : forall d, Inv (init d).
Proof.
  intros d. constructor; simpl; try (intros; contradiction); try (intros; discriminate); auto.
Qed.

Ltac tx_split := unfold TxnInv; simpl; split; [|split; [|split; [|split]]].
Ltac tx_solve := repeat split; auto; try tauto; try (intros; discriminate).

Ltac inv_fields H :=
  destruct H as [Hval Htc Hnc Hdur Hev Hhs Hhi Htx].

(* --- per-operation preservation *)

Lemma inv_begin : forall s, Inv s -> cur s = None -> Inv (with_txn s (begin_txn s)).
Proof.
  intros s H Hc. inv_fields H. constructor; simpl; auto.
  intros t E. inversion E; subst. unfold TxnInv, begin_txn; simpl.
  repeat split; auto using opt_mono_refl; intros; discriminate.
Qed.

Lemma inv_with_txn_same : forall s t t',
  Inv s -> cur s = Some t -> TxnInv s t' -> Inv (with_txn s t').
Proof.
  intros s t t' H Hc Ht. inv_fields H. constructor; simpl; auto.
  intros t0 E. inversion E; subst. exact Ht.
Qed.

Lemma inv_eph : forall s t, Inv s -> cur s = Some t -> Inv (fst (do_eph s t)).
Proof.
  intros s t H Hc. pose proof H as H0. inv_fields H. unfold do_eph.
  destruct (t_dirty t); simpl; [exact H0|].
  unfold fresh_id. constructor; simpl.
  - intros id Hin. rewrite ids_app in Hin. apply in_app_or in Hin. destruct Hin as [Hin|Hin].
    + apply Hval in Hin. lia.
    + simpl in Hin. destruct Hin as [E|[]]. lia.
  - exact Htc.
  - intros n E. apply Hnc in E. lia.
  - exact Hdur.
  - exact Hev.
  - intros h Hin. apply in_app_or in Hin. destruct Hin as [Hin|[E|[]]]; [auto|subst; simpl; lia].
  - intros h Hin Es. apply in_app_or in Hin. destruct Hin as [Hin|[E|[]]].
    + specialize (Hhi h Hin Es). lia.
    + subst; simpl; lia.
  - intros t0 E. inversion E; subst t0. destruct (Htx t Hc) as [A [B [C [Dn Eq]]]].
    unfold TxnInv; simpl. tx_solve.
    intros n En. apply B in En. lia.
Qed.

Lemma inv_pers : forall s t, Inv s -> cur s = Some t -> Inv (fst (do_pers s t)).
Proof.
  intros s t H Hc. pose proof H as H0. inv_fields H. unfold do_pers.
  destruct (t_dur t) eqn:Ed; simpl; [exact H0|].
  destruct (t_dirty t); simpl; [exact H0|].
  unfold fresh_id. destruct (Htx t Hc) as [A [B [C [Dn Eq]]]].
  constructor; simpl.
  - intros id Hin. rewrite ids_app in Hin. apply in_app_or in Hin. destruct Hin as [Hin|Hin].
    + apply Hval in Hin. lia.
    + simpl in Hin. destruct Hin as [E|[]]. lia.
  - exact Htc.
  - intros n E. apply Hnc in E. lia.
  - exact Hdur.
  - exact Hev.
  - exact Hhs.
  - intros h Hin Es. specialize (Hhi h Hin Es). lia.
  - intros t0 E. inversion E; subst t0. tx_split.
    + intros id Hin. rewrite ids_app in Hin. apply in_app_or in Hin. destruct Hin as [Hin|Hin].
      * destruct (A id Hin) as [n [En Ln]]. rewrite En. simpl. eexists. split; [reflexivity|lia].
      * simpl in Hin. destruct Hin as [E1|[]]. subst id. eexists. split; [reflexivity|].
        destruct (t_next t); simpl; lia.
    + intros n En. inversion En; subst n. destruct (t_next t) as [m|] eqn:Em; simpl.
      * specialize (B m eq_refl). lia.
      * lia.
    + intros n En. destruct (C n En) as [m [Em Lm]]. rewrite Em. simpl. eexists. split; [reflexivity|lia].
    + intros; discriminate.
    + intros [E1 _]. apply app_eq_nil in E1. destruct E1; discriminate.
Qed.

Lemma inv_get : forall s t id, Inv s -> cur s = Some t -> Inv (fst (do_get s t id)).
Proof.
  intros s t id H Hc. pose proof H as H0. inv_fields H. unfold do_get.
  destruct (lookup id (t_table t)) as [d|] eqn:El; simpl; [|exact H0].
  destruct (Htx t Hc) as [A [B [C [Dn Eq]]]].
  constructor; simpl; auto.
  - intros h Hin. apply in_app_or in Hin. destruct Hin as [Hin|[E|[]]]; [auto|subst; simpl; lia].
  - intros h Hin Es. apply in_app_or in Hin. destruct Hin as [Hin|[E|[]]]; [auto|].
    subst; simpl. apply lookup_In_ids in El. destruct (A id El) as [n [En Ln]].
    specialize (B n En). lia.
  - intros t0 E. inversion E; subst t0. unfold TxnInv. tx_solve.
Qed.

Lemma txninv_delete_some : forall s t xs,
  TxnInv s t -> t_dur t = DImm -> xs <> [] \/ t_deleted t <> [] \/ t_created t <> [] \/ xs = [] ->
  forall t', t_table t' = remove_ids xs (t_table t) -> t_next t' = t_next t ->
             t_dur t' = t_dur t -> t_created t' = t_created t -> t_deleted t' = t_deleted t ++ xs ->
  TxnInv s t'.
Proof.
  intros s t xs [A [B [C [Dn Eq]]]] Ed _ t' E1 E2 E3 E4 E5. unfold TxnInv.
  rewrite E1, E2, E3, E4, E5. split; [|split; [|split; [|split]]]; auto.
  - intros id Hin. apply In_ids_remove_ids in Hin. apply A. tauto.
  - rewrite Ed. discriminate.
  - intros [H1 H2]. apply app_eq_nil in H2. destruct H2 as [H2 H3]. subst xs.
    destruct (Eq (conj H1 H2)) as [Q1 Q2]. split; [|exact Q2]. rewrite <- Q1. unfold remove_ids. simpl.
    clear. induction (t_table t) as [|p l IH]; simpl; [reflexivity|]. rewrite IH. reflexivity.
Qed.

Lemma remove_id_as_ids : forall {A} x (l : list (N * A)), remove_id x l = remove_ids [x] l.
Proof.
  intros A x l. unfold remove_id, remove_ids. apply filter_ext. intros p. unfold memN. simpl.
  rewrite orb_false_r. reflexivity.
Qed.

Lemma inv_del : forall s t id, Inv s -> cur s = Some t -> Inv (fst (do_del s t id)).
Proof.
  intros s t id H Hc. pose proof H as H0. unfold do_del.
  destruct (t_dur t) eqn:Ed; simpl; [exact H0|].
  destruct (memN id (ids (t_table t))); simpl; [|exact H0].
  apply (inv_with_txn_same s t); auto.
  apply (txninv_delete_some s t [id]); auto.
  - apply (i_txn s H0 t Hc).
  - left. discriminate.
  - simpl. apply remove_id_as_ids.
Qed.

Lemma inv_restore : forall s t h, Inv s -> cur s = Some t -> Inv (fst (do_restore s t h)).
Proof.
  intros s t h H Hc. pose proof H as H0. unfold do_restore.
  destruct (negb (h_session h =? session s)); simpl; [exact H0|].
  destruct (negb (memN (h_id h) (ids (valid s))) || memN (h_id h) (t_invalid t)); simpl; [exact H0|].
  pose proof (i_txn s H0 t Hc) as TI.
  destruct (t_dur t) eqn:Ed.
  - destruct (later_ids (h_id h) (t_table t)) eqn:El; simpl; [|exact H0].
    apply (inv_with_txn_same s t); auto.
    destruct TI as [A [B [C [Dn Eq]]]]. destruct (Dn Ed) as [D1 D2].
    tx_split; auto.
    + intros id Hin. apply In_ids_remove_ids in Hin. apply A. tauto.
    + intros _. rewrite D2. auto.
    + intros _. destruct (Eq (conj D1 D2)) as [Q1 Q2]. split; [|exact Q2]. rewrite <- Q1. unfold remove_ids. simpl.
      clear. induction (t_table t) as [|p l IH]; simpl; [reflexivity|]. rewrite IH. reflexivity.
  - assert (Inv (with_txn s
              (mkTxn (h_data h) true DImm (t_created t) (t_deleted t ++ later_ids (h_id h) (t_table t))
                     (t_invalid t ++ later_ids (h_id h) (valid s))
                     (remove_ids (later_ids (h_id h) (t_table t)) (t_table t)) (t_next t)))) as G.
    { apply (inv_with_txn_same s t); auto.
      apply (txninv_delete_some s t (later_ids (h_id h) (t_table t))); auto.
      destruct (later_ids (h_id h) (t_table t)); [right; right; right; reflexivity|left; discriminate]. }
    destruct (later_ids (h_id h) (t_table t)); simpl; exact G.
Qed.

Lemma inv_commit : forall s t, Inv s -> cur s = Some t -> Inv (fst (do_commit s t)).
Proof.
  intros s t H Hc. pose proof H as H0. inv_fields H.
  destruct (Htx t Hc) as [A [B [C [Dn Eq]]]]. unfold do_commit.
  assert (forall id, In id (ids (valid_after_commit s t)) -> id <= next_id s) as V.
  { intros id Hin. unfold valid_after_commit in Hin. apply In_ids_remove_ids in Hin.
    destruct Hin as [Hin _]. apply In_ids_remove_ids in Hin. apply Hval. tauto. }
  destruct (t_dur t) eqn:Ed; simpl.
  - destruct (Dn eq_refl) as [D1 D2]. destruct (Eq (conj D1 D2)) as [Q1 Q2].
    constructor; simpl; try rewrite Q1; try rewrite Q2; auto; try (intros; discriminate).
  - constructor; simpl; auto; try (intros; discriminate).
    + intros id Hin. apply in_app_or in Hin. destruct Hin as [Hin|Hin]; [|auto].
      apply (opt_lt_mono id (next_c s)); auto.
Qed.

Lemma inv_abort : forall s t, Inv s -> cur s = Some t -> Inv (fst (do_abort s t)).
Proof.
  intros s t H Hc. inv_fields H. unfold do_abort. constructor; simpl; auto.
  - intros id Hin. unfold valid_after_abort in Hin. apply In_ids_remove_ids in Hin. apply Hval. tauto.
  - intros t0 E; discriminate.
Qed.

Lemma inv_drop : forall s i, Inv s -> Inv (fst (do_drop s i)).
Proof.
  intros s i H. pose proof H as H0. inv_fields H. unfold do_drop.
  destruct (nth_error (handles s) (N.to_nat i)) as [h|] eqn:En; simpl; [|exact H0].
  destruct (negb (h_live h)); simpl; [exact H0|].
  assert (In h (handles s)) as Hin by (eapply nth_error_In; eauto).
  constructor; simpl; auto.
  - intros id Hi. destruct (h_eph h && (h_session h =? session s)); [|auto].
    apply In_ids_remove_id in Hi. apply Hval. tauto.
  - intros h0 Hi. apply In_set_nth in Hi. destruct Hi as [E|Hi]; [subst; simpl; auto|auto].
  - intros h0 Hi Es. apply In_set_nth in Hi. destruct Hi as [E|Hi]; [subst; simpl in *; auto|auto].
Qed.

Lemma inv_reopened : forall s, Inv s -> Inv (reopened s (committed s) (tbl_c s) (next_c s)).
Proof.
  intros s H. inv_fields H. unfold reopened. constructor; simpl; auto.
  - intros id Hin. unfold ids in Hin. rewrite map_map in Hin. simpl in Hin.
    destruct (Htc id Hin) as [n [En Ln]]. rewrite En. lia.
  - intros n En. rewrite En. lia.
  - intros h Hin. specialize (Hhs h Hin). lia.
  - intros h Hin Es. specialize (Hhs h Hin). lia.
  - intros t E; discriminate.
Qed.

Theorem inv_step : forall s o, Inv s -> Inv (fst (step s o)).
Proof.
  intros s o H. pose proof H as H0.
  destruct o; unfold step; destruct (cur s) as [t|] eqn:Hc; simpl; auto.
  - apply inv_begin; auto.
  - destruct d; [destruct (t_created t ++ t_deleted t) eqn:Ecd|]; simpl; auto.
    + apply (inv_with_txn_same s t); auto. destruct (i_txn s H0 t Hc) as [A [B [C [Dn Eq]]]].
      apply app_eq_nil in Ecd. tx_split; auto; tauto.
    + apply (inv_with_txn_same s t); auto. destruct (i_txn s H0 t Hc) as [A [B [C [Dn Eq]]]].
      tx_split; auto; discriminate.
  - apply (inv_with_txn_same s t); auto. destruct (i_txn s H0 t Hc) as [A [B [C [Dn Eq]]]].
    tx_split; auto.
  - apply (inv_with_txn_same s t); auto. destruct (i_txn s H0 t Hc) as [A [B [C [Dn Eq]]]].
    tx_split; auto.
  - apply inv_eph; auto.
  - apply inv_pers; auto.
  - apply inv_get; auto.
  - apply inv_del; auto.
  - destruct (nth_error (handles s) (N.to_nat h)) as [hh|]; simpl; auto.
    destruct (h_live hh); simpl; auto. apply inv_restore; auto.
  - apply inv_commit; auto.
  - apply inv_abort; auto.
  - apply inv_drop; auto.
  - apply inv_drop; auto.
  - apply inv_reopened; auto.
  - destruct (i_dur s H0) as [E1 E2]. rewrite E1, E2.
    pose proof (inv_reopened s H0) as R. unfold reopened in *.
    destruct R as [R1 R2 R3 R4 R5 R6 R7 R8]. constructor; simpl in *; auto.
    (* durable = committed in a reachable state is not needed for Inv: only the tables matter *)
  - destruct (i_dur s H0) as [E1 E2]. rewrite E1, E2.
    pose proof (inv_reopened s H0) as R. unfold reopened in *.
    destruct R as [R1 R2 R3 R4 R5 R6 R7 R8]. constructor; simpl in *; auto.
  - destruct (has_ephemeral s); simpl; auto. inv_fields H. constructor; simpl; auto.
    + intros id Hin. apply in_app_or in Hin. destruct Hin; auto.
    + intros t E; discriminate.
Qed.
