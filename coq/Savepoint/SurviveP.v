From Coq Require Import List NArith Bool Lia PeanoNat.
From RV Require Import Savepoint.Model.
From RV Require Import Savepoint.ModelP Savepoint.InvP Savepoint.ForeverP.
Import ListNotations.
Open Scope N_scope.

(* ------------------------------------------------------------------ persistent savepoints survive reopen and crash *)

Lemma ids_map_true : forall (l : list (N * D)), ids (map (fun p => (fst p, true)) l) = ids l.
Proof. intros l. unfold ids. rewrite map_map. reflexivity. Qed.

Lemma restorable_after_open : forall s d tbl nx id c,
  lookup id tbl = Some c ->
  let s' := reopened s d tbl nx in
  let k := N.of_nat (length (handles s)) in
  run_res s' [OBegin; OGet id; ORestore k; OCommit] = [ROk; RHandle k id; ROk; RState c].
Proof.
  intros s d tbl nx id c Hl s' k. subst s' k.
  assert (memN id (ids tbl) = true) as M by (apply memN_In; eapply lookup_In_ids; eauto).
  cbn -[N.of_nat N.to_nat nth_error lookup memN N.eqb ids].
  unfold do_get. cbn -[N.of_nat N.to_nat nth_error lookup memN N.eqb ids]. rewrite Hl.
  cbn -[N.of_nat N.to_nat nth_error lookup memN N.eqb ids].
  rewrite Nnat.Nat2N.id. rewrite nth_error_app2 by lia. rewrite Nat.sub_diag.
  cbn -[N.of_nat N.to_nat lookup memN N.eqb ids].
  unfold do_restore. cbn -[N.of_nat N.to_nat lookup memN N.eqb ids].
  rewrite N.eqb_refl. rewrite ids_map_true. rewrite M.
  cbn -[N.of_nat N.to_nat lookup N.eqb ids]. 
  destruct (later_ids id tbl); reflexivity.
Qed.

Theorem persistent_survives_reopen : forall s id c, reachable s -> cur s = None ->
  lookup id (tbl_c s) = Some c ->
  let s' := fst (step s OReopen) in
  let k := N.of_nat (length (handles s)) in
  tbl_c s' = tbl_c s /\ committed s' = committed s
  /\ run_res s' [OBegin; OList] = [ROk; RList (ids (tbl_c s))]
  /\ run_res s' [OBegin; OGet id; ORestore k; OCommit] = [ROk; RHandle k id; ROk; RState c].
Proof.
  intros s id c R Hc Hl. unfold step. rewrite Hc. simpl fst. repeat split.
  apply restorable_after_open. exact Hl.
Qed.

Theorem persistent_survives_crash : forall s id c, reachable s ->
  lookup id (tbl_d s) = Some c ->
  let s' := fst (step s OCrash) in
  let k := N.of_nat (length (handles s)) in
  tbl_c s' = tbl_d s /\ tbl_d s = tbl_c s /\ committed s' = durable s
  /\ run_res s' [OBegin; OList] = [ROk; RList (ids (tbl_d s))]
  /\ run_res s' [OBegin; OGet id; ORestore k; OCommit] = [ROk; RHandle k id; ROk; RState c].
Proof.
  intros s id c R Hl. destruct (persistent_durable s R) as [E1 E2].
  assert (fst (step s OCrash) = reopened s (durable s) (tbl_d s) (next_d s)) as E.
  { unfold step. destruct (cur s); reflexivity. }
  cbv zeta. rewrite E. repeat split; auto.
  apply restorable_after_open. exact Hl.
Qed.

(* ephemeral savepoints vanish: after reopen or crash no handle of the old session can be restored *)
Theorem ephemeral_vanish : forall s o i h l, reachable s -> (o = OReopen /\ cur s = None) \/ o = OCrash ->
  handle_at s i = Some h ->
  snd (step (run (fst (step s o)) l) (ORestore i)) <> ROk.
Proof.
  intros s o i h l R Ho Hh. pose proof (inv_reach s R) as I.
  destruct (handle_stable s o i h Hh) as [h1 [H1 S1]].
  apply (unusable_never_restores l _ i h1 (inv_step s o I) H1).
  left. destruct S1 as [_ [E _]]. rewrite <- E.
  pose proof (handle_session_le s i h I Hh) as L.
  destruct Ho as [[Eo Hc]|Eo]; subst o; unfold step.
  - rewrite Hc. simpl. lia.
  - destruct (cur s); simpl; lia.
Qed.

(* ------------------------------------------------------------------ no resurrection of a deleted persistent savepoint *)

Definition gone (id : N) (s : st) : Prop :=
  In id (ever s) /\ ~ In id (ids (tbl_c s)) /\ (forall t, cur s = Some t -> ~ In id (ids (t_table t))).

Lemma gone_step : forall id s o, Inv s -> gone id s -> gone id (fst (step s o)).
Proof.
  intros id s o I G0. pose proof G0 as [G1 [G2 G3]]. pose proof I as I0. destruct I as [Hval Htc Hnc [Hd1 Hd2] Hev Hhs Hhi Htx].
  assert (id <= next_id s) as Lid.
  { destruct (Hev id G1) as [n [En Ln]]. specialize (Hnc n En). lia. }
  assert (forall s', ever s' = ever s -> tbl_c s' = tbl_c s -> cur s' = cur s -> gone id s') as K0.
  { intros s' E1 E2 E3. unfold gone. rewrite E1, E2, E3. auto. }
  assert (forall s' t', ever s' = ever s -> tbl_c s' = tbl_c s -> cur s' = Some t' ->
                        ~ In id (ids (t_table t')) -> gone id s') as K1.
  { intros s' t' E1 E2 E3 E4. unfold gone. rewrite E1, E2, E3. repeat split; auto.
    intros t0 E. inversion E; subst. exact E4. }
  destruct o; unfold step; destruct (cur s) as [t|] eqn:Hc; simpl;
    try exact G0; try (apply K0; reflexivity).
  - eapply K1; try reflexivity. exact G2.
  - destruct d; [destruct (t_created t ++ t_deleted t)|]; simpl; try exact G0;
      (eapply K1; [reflexivity|reflexivity|reflexivity|simpl; apply G3; reflexivity]).
  - eapply K1; try reflexivity. simpl. apply G3; reflexivity.
  - eapply K1; try reflexivity. simpl. apply G3; reflexivity.
  - unfold do_eph. destruct (t_dirty t); simpl; [exact G0|].
    eapply K1; try reflexivity. apply G3; reflexivity.
  - unfold do_pers. destruct (t_dur t); simpl; [exact G0|].
    destruct (t_dirty t); simpl; [exact G0|].
    eapply K1; try reflexivity. simpl. rewrite ids_app. intros Hin. apply in_app_or in Hin.
    destruct Hin as [Hin|[E|[]]]; [apply (G3 t eq_refl Hin)|]. unfold fresh_id in E. simpl in E. lia.
  - unfold do_get. destruct (lookup id0 (t_table t)); simpl; [|exact G0].
    eapply K1; try reflexivity. apply G3; reflexivity.
  - unfold do_del. destruct (t_dur t); simpl; [exact G0|].
    destruct (memN id0 (ids (t_table t))); simpl; [|exact G0].
    eapply K1; try reflexivity. simpl. intros Hin. apply In_ids_remove_id in Hin. apply (G3 t eq_refl). tauto.
  - destruct (nth_error (handles s) (N.to_nat h)) as [hh|]; simpl; [|exact G0].
    destruct (h_live hh); simpl; [|exact G0].
    unfold do_restore. destruct (negb (h_session hh =? session s)); simpl; [exact G0|].
    destruct (negb (memN (h_id hh) (ids (valid s))) || memN (h_id hh) (t_invalid t)); simpl; [exact G0|].
    destruct (t_dur t); destruct (later_ids (h_id hh) (t_table t)); simpl; try exact G0;
      (eapply K1; [reflexivity|reflexivity|reflexivity|]); simpl; intros Hin; apply In_ids_remove_ids in Hin;
      apply (G3 t eq_refl); tauto.
  - unfold do_commit. destruct (t_dur t); simpl; unfold gone; simpl; (split; [|split]); try (intros; discriminate);
      try exact G1; try (apply G3; reflexivity); try (apply in_or_app; left; exact G1).
  - unfold gone; simpl. (split; [|split]); auto; intros; discriminate.
  - unfold do_drop. destruct (nth_error (handles s) (N.to_nat h)) as [hh|]; simpl; [|exact G0].
    destruct (negb (h_live hh)); simpl; [exact G0|].
    unfold gone; simpl. rewrite Hc. tauto.
  - unfold do_drop. destruct (nth_error (handles s) (N.to_nat h)) as [hh|]; simpl; [|exact G0].
    destruct (negb (h_live hh)); simpl; [exact G0|].
    unfold gone; simpl. rewrite Hc. tauto.
  - unfold gone; simpl. rewrite Hd1. (split; [|split]); auto; intros; discriminate.
  - unfold gone; simpl. rewrite Hd1. (split; [|split]); auto; intros; discriminate.
  - destruct (has_ephemeral s); simpl; [exact G0|].
    unfold gone; simpl. (split; [|split]); auto; try (intros; discriminate). apply in_or_app. left. exact G1.
Qed.

Theorem no_resurrection : forall l id s, reachable s -> gone id s ->
  gone id (run s l) /\ (forall t, cur (run s l) = Some t -> snd (do_get (run s l) t id) = RErrInvalid).
Proof.
  induction l as [|o l IH]; intros id s R G; simpl.
  - split; [exact G|]. intros t Hc. unfold do_get. destruct G as [_ [_ G3]].
    destruct (lookup id (t_table t)) as [d|] eqn:E; [|reflexivity].
    exfalso. apply (G3 t Hc). eapply lookup_In_ids. exact E.
  - apply IH; [apply reachable_step; exact R|]. apply gone_step; [apply inv_reach; exact R|exact G].
Qed.
