(* C15 model: built-in key types -- values, encodings, byte-level comparison and separators.
   Definitions only (proofs in KeyTypesP.v) so the model still extracts when a proof breaks. *)
From RV Require Import Base.Bytes.
Open Scope N_scope.

Inductive kty := TU64 | TBytes.

Inductive val := VU64 (n : N) | VBytes (b : bytes).

Definition has_type (t : kty) (v : val) : Prop :=
  match t, v with
  | TU64, VU64 n => n < 2 ^ 64
  | TBytes, VBytes b => all_bytes b = true
  | _, _ => False
  end.

Definition encode (t : kty) (v : val) : bytes :=
  match v with
  | VU64 n => le_encode 8 n
  | VBytes b => b
  end.

Definition decode (t : kty) (b : bytes) : option val :=
  match t with
  | TU64 => if Nat.eqb (length b) 8 then Some (VU64 (le_decode b)) else None
  | TBytes => Some (VBytes b)
  end.

(* the order of the VALUES *)
Definition vcompare (t : kty) (a b : val) : comparison :=
  match a, b with
  | VU64 x, VU64 y => x ?= y
  | VBytes x, VBytes y => lex_cmp x y
  | VU64 _, VBytes _ => Lt
  | VBytes _, VU64 _ => Gt
  end.

(* the byte-level comparison the Rust code performs on encodings (Key::compare) *)
Definition kcompare (t : kty) (d1 d2 : bytes) : comparison :=
  match t with
  | TU64 => le_decode d1 ?= le_decode d2       (* u64::from_le_bytes(d1).cmp(..) *)
  | TBytes => lex_cmp d1 d2                      (* data1.cmp(data2) *)
  end.

(* Key::separator *)
Definition separator (t : kty) (l r : bytes) : bytes :=
  match t with
  | TU64 => l                                    (* default impl: left *)
  | TBytes =>
      let n := S (common_prefix_len l r) in
      if andb (Nat.ltb n (length l)) (Nat.ltb n (length r)) then firstn n r else l
  end.
