(* C15 model: redb's built-in key types -- values, encodings (Value::as_bytes), strict decoding
   (Value::from_bytes on well-formed input), the order of the VALUES, and the byte-level
   Key::compare / Key::separator / Key::min_encoded_key / Value::fixed_width / branch_separator,
   by structural recursion on the type, so every nesting is covered.
   Sources mirrored: src/types.rs, src/tuple_types.rs, src/complex_types.rs (varint),
   src/types/uuid.rs, src/tree_store/btree_base.rs (branch_separator).
   Definitions only (proofs in KeyTypesP.v) so the model still extracts when a proof breaks. *)
From RV Require Import Base.Bytes.
From RV.Types Require Import Utf8.
Open Scope N_scope.

(* ---------------------------------------------------------------- types and values *)

Inductive kty :=
| TUnit                        (* ()                                  *)
| TBool                        (* bool                                *)
| TChar                        (* char: 3 bytes LE                    *)
| TU (w : nat)                 (* u8..u128: w = 1,2,4,8,16 bytes LE   *)
| TI (w : nat)                 (* i8..i128: two's complement LE       *)
| TStr                         (* &str and String (same encoding)     *)
| TBytes                       (* &[u8]                               *)
| TFixedBytes (n : nat)        (* &[u8; N]                            *)
| TOpt (t : kty)               (* Option<T>                           *)
| TArr (n : nat) (t : kty)     (* [T; N]                              *)
| TTup (ts : list kty).        (* (T0,), (T0,T1), ... (T0..T11)       *)

(* uuid::Uuid (feature "uuid"): 16 bytes compared as bytes -- the same codec as &[u8;16] *)
Definition TUuid : kty := TFixedBytes 16.

Inductive val :=
| VUnit
| VBool (b : bool)
| VChar (c : N)                (* Unicode scalar value *)
| VU (n : N)
| VI (z : Z)
| VStr (s : list N)            (* the string's chars as Unicode scalar values *)
| VBytes (b : bytes)
| VNone
| VSome (v : val)
| VList (vs : list val).       (* arrays and tuples *)

(* the Rust types that exist: integer widths, tuple arity 1..12 *)
Definition int_width (w : nat) : bool :=
  match w with 1 | 2 | 4 | 8 | 16 => true | _ => false end%nat.

Fixpoint wf_ty (t : kty) : bool :=
  match t with
  | TU w | TI w => int_width w
  | TOpt t' => wf_ty t'
  | TArr _ t' => wf_ty t'
  | TTup ts => Nat.leb 1 (length ts) && Nat.leb (length ts) 12 && forallb wf_ty ts
  | _ => true
  end.

(* ---------------------------------------------------------------- small helpers *)

Definition blen (b : bytes) : N := N.of_nat (length b).

Definition zipw {A B C} (f : A -> B -> C) : list A -> list B -> list C :=
  fix go (l1 : list A) (l2 : list B) : list C :=
    match l1, l2 with
    | a :: l1', b :: l2' => f a b :: go l1' l2'
    | _, _ => []
    end.

Definition opt_all {A} : list (option A) -> option (list A) :=
  fix go (l : list (option A)) : option (list A) :=
    match l with
    | [] => Some []
    | Some a :: r => option_map (cons a) (go r)
    | None :: _ => None
    end.

(* lexicographic comparison with a per-position comparison function *)
Definition lexc3 {T A} (f : T -> A -> A -> comparison) : list T -> list A -> list A -> comparison :=
  fix go (ts : list T) (a b : list A) : comparison :=
    match ts, a, b with
    | t :: ts', x :: a', y :: b' => match f t x y with Eq => go ts' a' b' | c => c end
    | _, _, _ => Eq
    end.

Definition sum_widths : list (option nat) -> option nat :=
  fix go (l : list (option nat)) : option nat :=
    match l with
    | [] => Some O
    | Some a :: r => option_map (Nat.add a) (go r)
    | None :: _ => None
    end.

Definition is_some {A} (o : option A) : bool := match o with Some _ => true | None => false end.

Definition bytes_eqb (a b : bytes) : bool := match lex_cmp a b with Eq => true | _ => false end.

(* ---------------------------------------------------------------- Value::fixed_width *)

Fixpoint fixed_width (t : kty) : option nat :=
  match t with
  | TUnit => Some 0%nat
  | TBool => Some 1%nat
  | TChar => Some 3%nat
  | TU w | TI w => Some w
  | TStr | TBytes => None
  | TFixedBytes n => Some n
  | TOpt t' => option_map S (fixed_width t')
  | TArr n t' => option_map (fun x => (x * n)%nat) (fixed_width t')
  | TTup ts => sum_widths (map fixed_width ts)
  end.

(* ---------------------------------------------------------------- complex_types.rs: varint lengths *)

Definition encode_varint_len (n : N) : bytes :=
  if n <? 254 then [n]
  else if n <=? 65535 then 254 :: le_encode 2 n
  else 255 :: le_encode 4 n.

(* (decoded length, rest of the data after the varint) *)
Definition decode_varint_len (d : bytes) : option (N * bytes) :=
  match d with
  | [] => None
  | b :: r =>
      if b <? 254 then Some (b, r)
      else if b =? 254 then
        (if Nat.leb 2 (length r) then Some (le_decode (firstn 2 r), skipn 2 r) else None)
      else
        (if Nat.leb 4 (length r) then Some (le_decode (firstn 4 r), skipn 4 r) else None)
  end.

(* ---------------------------------------------------------------- arrays of variable width elements:
   N little-endian u32 END offsets, then the elements *)

Fixpoint arr_offsets (start : N) (es : list bytes) : bytes :=
  match es with
  | [] => []
  | e :: r => let e' := start + blen e in le_encode 4 e' ++ arr_offsets e' r
  end.

Definition arr_assemble (es : list bytes) : bytes :=
  arr_offsets (4 * N.of_nat (length es)) es ++ concat es.

Fixpoint arr_ends (n : nat) (d : bytes) : list N :=
  match n with
  | O => []
  | S n' => le_decode (firstn 4 d) :: arr_ends n' (skipn 4 d)
  end.

Fixpoint arr_slices (d : bytes) (start : N) (ends : list N) : option (list bytes) :=
  match ends with
  | [] => if start =? blen d then Some [] else None
  | e :: r =>
      if (start <=? e) && (e <=? blen d)
      then option_map (cons (firstn (N.to_nat (e - start)) (skipn (N.to_nat start) d))) (arr_slices d e r)
      else None
  end.

(* the elements of an array encoding (array_element for every index), None when malformed *)
Definition arr_split (n : nat) (d : bytes) : option (list bytes) :=
  if Nat.leb (4 * n) (length d) then arr_slices d (4 * N.of_nat n) (arr_ends n d) else None.

(* fixed width elements: n chunks of w bytes *)
Fixpoint chunks (n w : nat) (d : bytes) : list bytes :=
  match n with
  | O => []
  | S n' => firstn w d :: chunks n' w (skipn w d)
  end.

(* ---------------------------------------------------------------- tuples:
   varint lengths of every variable width element except the last, then the elements *)

Fixpoint tup_header (fws : list (option nat)) (es : list bytes) : bytes :=
  match fws, es with
  | fw :: fws', e :: es' =>
      match fws' with
      | [] => []
      | _ => (match fw with None => encode_varint_len (blen e) | Some _ => [] end) ++ tup_header fws' es'
      end
  | _, _ => []
  end.

(* parse_lens: the lengths of all but the last element, and the data after the header *)
Fixpoint tup_lens (fws : list (option nat)) (d : bytes) : option (list nat * bytes) :=
  match fws with
  | [] => Some ([], d)
  | fw :: fws' =>
      match fws' with
      | [] => Some ([], d)
      | _ =>
        match fw with
        | Some w => match tup_lens fws' d with Some (ls, d') => Some (w :: ls, d') | None => None end
        | None =>
            match decode_varint_len d with
            | Some (len, d1) =>
                if len <=? blen d1
                then match tup_lens fws' d1 with Some (ls, d') => Some (N.to_nat len :: ls, d') | None => None end
                else None
            | None => None
            end
        end
      end
  end.

(* consecutive slices of the given lengths, the last element takes the rest *)
Fixpoint take_seq (ls : list nat) (d : bytes) : option (list bytes) :=
  match ls with
  | [] => Some [d]
  | n :: r => if Nat.leb n (length d) then option_map (cons (firstn n d)) (take_seq r (skipn n d)) else None
  end.

Definition tup_split (fws : list (option nat)) (d : bytes) : option (list bytes) :=
  match tup_lens fws d with
  | Some (ls, d') => take_seq ls d'
  | None => None
  end.

(* ---------------------------------------------------------------- Value::as_bytes *)

Definition int_mod (w : nat) : N := 256 ^ N.of_nat w.
Definition int_half (w : nat) : N := int_mod w / 2.

Fixpoint encode (t : kty) (v : val) : bytes :=
  match t, v with
  | TUnit, _ => []
  | TBool, VBool b => [if b then 1 else 0]
  | TChar, VChar c => le_encode 3 c
  | TU w, VU n => le_encode w n
  | TI w, VI z => le_encode w (Z.to_N (z mod Z.of_N (int_mod w)))
  | TStr, VStr s => utf8_encode s
  | TBytes, VBytes b => b
  | TFixedBytes _, VBytes b => b
  | TOpt t', VNone => 0 :: match fixed_width t' with Some w => repeat 0 w | None => [] end
  | TOpt t', VSome x => 1 :: encode t' x
  | TArr n t', VList vs =>
      let es := map (encode t') vs in
      match fixed_width t' with
      | Some _ => concat es
      | None => arr_assemble es
      end
  | TTup ts, VList vs =>
      let es := zipw encode ts vs in
      tup_header (map fixed_width ts) es ++ concat es
  | _, _ => []
  end.

(* ---------------------------------------------------------------- has_type *)

Definition size_ok (b : bytes) : bool := blen b <? 4294967296.

Fixpoint wt (t : kty) (v : val) : bool :=
  match t, v with
  | TUnit, VUnit => true
  | TBool, VBool _ => true
  | TChar, VChar c => is_scalar c
  | TU w, VU n => n <? int_mod w
  | TI w, VI z => ((- Z.of_N (int_half w) <=? z) && (z <? Z.of_N (int_half w)))%Z
  | TStr, VStr s => forallb is_scalar s
  | TBytes, VBytes b => all_bytes b
  | TFixedBytes n, VBytes b => all_bytes b && Nat.eqb (length b) n
  | TOpt _, VNone => true
  | TOpt t', VSome x => wt t' x
  | TArr n t', VList vs =>
      Nat.eqb (length vs) n && forallb (wt t') vs &&
      (* end offsets are u32 (the Rust code panics beyond; keys are < 4 GiB anyway) *)
      size_ok (encode (TArr n t') (VList vs))
  | TTup ts, VList vs =>
      Nat.eqb (length vs) (length ts) && forallb (fun b : bool => b) (zipw wt ts vs) &&
      size_ok (encode (TTup ts) (VList vs))
  | _, _ => false
  end.

Definition has_type (t : kty) (v : val) : Prop := wt t v = true.

(* ---------------------------------------------------------------- Value::from_bytes (strict) *)

Definition to_signed (w : nat) (u : N) : Z :=
  if u <? int_half w then Z.of_N u else (Z.of_N u - Z.of_N (int_mod w))%Z.

Fixpoint decode (t : kty) (d : bytes) : option val :=
  match t with
  | TUnit => match d with [] => Some VUnit | _ => None end
  | TBool => match d with [b] => if b =? 0 then Some (VBool false) else if b =? 1 then Some (VBool true) else None | _ => None end
  | TChar => if Nat.eqb (length d) 3 && is_scalar (le_decode d) then Some (VChar (le_decode d)) else None
  | TU w => if Nat.eqb (length d) w then Some (VU (le_decode d)) else None
  | TI w => if Nat.eqb (length d) w then Some (VI (to_signed w (le_decode d))) else None
  | TStr => option_map VStr (utf8_decode d)
  | TBytes => Some (VBytes d)
  | TFixedBytes n => if Nat.eqb (length d) n then Some (VBytes d) else None
  | TOpt t' =>
      match d with
      | tag :: p =>
          if tag =? 0 then
            (if bytes_eqb p (match fixed_width t' with Some w => repeat 0 w | None => [] end)
             then Some VNone else None)
          else if tag =? 1 then option_map VSome (decode t' p)
          else None
      | [] => None
      end
  | TArr n t' =>
      match fixed_width t' with
      | Some w =>
          if Nat.eqb (length d) (w * n)
          then option_map VList (opt_all (map (decode t') (chunks n w d)))
          else None
      | None =>
          match arr_split n d with
          | Some es => option_map VList (opt_all (map (decode t') es))
          | None => None
          end
      end
  | TTup ts =>
      match tup_split (map fixed_width ts) d with
      | Some es => if Nat.eqb (length es) (length ts) then option_map VList (opt_all (zipw decode ts es)) else None
      | None => None
      end
  end.

(* ---------------------------------------------------------------- the order of the VALUES *)

Definition bool_cmp (a b : bool) : comparison :=
  match a, b with
  | false, true => Lt
  | true, false => Gt
  | _, _ => Eq
  end.

Fixpoint vcompare (t : kty) (a b : val) : comparison :=
  match t, a, b with
  | TBool, VBool x, VBool y => bool_cmp x y            (* false < true *)
  | TChar, VChar x, VChar y => x ?= y                  (* by scalar value *)
  | TU _, VU x, VU y => x ?= y                         (* numerically *)
  | TI _, VI x, VI y => (x ?= y)%Z                     (* numerically, signed *)
  | TStr, VStr x, VStr y => lexc N.compare x y         (* lexicographic by char *)
  | TBytes, VBytes x, VBytes y => lex_cmp x y          (* lexicographic by byte *)
  | TFixedBytes _, VBytes x, VBytes y => lex_cmp x y
  | TOpt _, VNone, VNone => Eq                         (* None < Some _ *)
  | TOpt _, VNone, VSome _ => Lt
  | TOpt _, VSome _, VNone => Gt
  | TOpt t', VSome x, VSome y => vcompare t' x y
  | TArr _ t', VList x, VList y => lexc (vcompare t') x y     (* lexicographic by element *)
  | TTup ts, VList x, VList y => lexc3 vcompare ts x y
  | _, _, _ => Eq
  end.

(* ---------------------------------------------------------------- Key::compare on encodings *)

Fixpoint kcompare (t : kty) (d1 d2 : bytes) : comparison :=
  match t with
  | TUnit => Eq
  | TBool => hd 0 d1 ?= hd 0 d2                         (* from_bytes(data)[0] as bool, then cmp *)
  | TChar => le_decode (firstn 3 d1) ?= le_decode (firstn 3 d2)
  | TU _ => le_decode d1 ?= le_decode d2
  | TI w => (to_signed w (le_decode d1) ?= to_signed w (le_decode d2))%Z
  | TStr => lex_cmp d1 d2                               (* str::cmp compares the UTF-8 bytes *)
  | TBytes => lex_cmp d1 d2
  | TFixedBytes _ => lex_cmp d1 d2
  | TOpt t' =>
      if hd 0 d1 =? 0 then (if hd 0 d2 =? 0 then Eq else Lt)
      else if hd 0 d2 =? 0 then Gt else kcompare t' (tl d1) (tl d2)
  | TArr n t' =>
      match fixed_width t' with
      | Some w => lexc (kcompare t') (chunks n w d1) (chunks n w d2)
      | None =>
          match arr_split n d1, arr_split n d2 with
          | Some e1, Some e2 => lexc (kcompare t') e1 e2
          | _, _ => Eq     (* the Rust code panics on a malformed encoding *)
          end
      end
  | TTup ts =>
      match tup_split (map fixed_width ts) d1, tup_split (map fixed_width ts) d2 with
      | Some e1, Some e2 => lexc3 kcompare ts e1 e2
      | _, _ => Eq
      end
  end.

(* ---------------------------------------------------------------- Key::min_encoded_key *)

Fixpoint min_encoded_key (t : kty) : option bytes :=
  match t with
  | TStr | TBytes => Some []
  | TOpt t' => Some (0 :: match fixed_width t' with Some w => repeat 0 w | None => [] end)
  | TTup [t'] => min_encoded_key t'
  | _ => None
  end.

(* ---------------------------------------------------------------- Key::separator *)

(* <&[u8]>::separator *)
Definition bytes_sep (l r : bytes) : bytes :=
  let n := S (common_prefix_len l r) in
  if (Nat.ltb n (length l) && Nat.ltb n (length r))%bool then firstn n r else l.

(* the element list of <[T;N]>::separator: elements before the first differing one from `left`,
   the element separator, then the tail (replaced by the minimum when allowed) *)
Definition arr_sep_elems (cmp : bytes -> bytes -> comparison) (sep : bytes -> bytes -> bytes)
                         (minkey : option bytes) : list bytes -> list bytes -> option (list bytes) :=
  fix go (els ers : list bytes) : option (list bytes) :=
    match els, ers with
    | le :: els', re :: ers' =>
        match cmp le re with
        | Eq => option_map (cons le) (go els' ers')
        | _ =>
            let s := sep le re in
            let replaces_tail :=
              (match els' with [] => false | _ => true end) &&
              (match cmp le s with Lt => true | _ => false end) in
            let tail :=
              match (if replaces_tail then minkey else None) with
              | Some m => map (fun _ => m) els'
              | None => els'
              end in
            Some (s :: tail)
        end
    | _, _ => None
    end.

Fixpoint separator (t : kty) (l r : bytes) : bytes :=
  match t with
  | TBytes => bytes_sep l r
  | TStr => str_sep l r
  | TOpt t' =>
      match fixed_width t' with
      | Some _ => l
      | None =>
          match l with
          | [] => l
          | tag :: lp =>
              if tag =? 0 then l
              else
                let p := separator t' lp (tl r) in
                if Nat.leb (length l) (S (length p)) then l else 1 :: p
          end
      end
  | TArr n t' =>
      match fixed_width t' with
      | Some _ => l
      | None =>
          match arr_split n l, arr_split n r with
          | Some els, Some ers =>
              match arr_sep_elems (kcompare t') (separator t') (min_encoded_key t') els ers with
              | Some elements =>
                  if Nat.leb (length l) (4 * n + length (concat elements)) then l
                  else arr_assemble elements
              | None => l
              end
          | _, _ => l
          end
      end
  | _ => l       (* default implementation (all fixed width types, and tuples) *)
  end.

(* ---------------------------------------------------------------- btree_base.rs: branch_separator *)

Definition branch_separator (t : kty) (l r : bytes) : bytes :=
  match fixed_width t with
  | Some _ => l
  | None => separator t l r
  end.
