(* UTF-8 as used by Rust's `str`: encoding of Unicode scalar values, a strict decoder
   (= core::str::from_utf8 followed by chars()), and the continuation-byte test used by
   redb's `round_up_to_char_boundary`.  Definitions only; proofs in Utf8P.v. *)
From RV Require Import Base.Bytes.
Open Scope N_scope.

(* a Unicode scalar value: 0..0x10FFFF without the surrogates D800..DFFF *)
Definition is_scalar (c : N) : bool :=
  (c <? 55296) || ((57344 <=? c) && (c <? 1114112)).

Definition utf8_char (c : N) : bytes :=
  if c <? 128 then [c]
  else if c <? 2048 then [192 + c / 64; 128 + c mod 64]
  else if c <? 65536 then [224 + c / 4096; 128 + (c / 64) mod 64; 128 + c mod 64]
  else [240 + c / 262144; 128 + (c / 4096) mod 64; 128 + (c / 64) mod 64; 128 + c mod 64].

Definition utf8_encode (s : list N) : bytes := flat_map utf8_char s.

(* `b & 0b1100_0000 == 0b1000_0000` *)
Definition is_cont (b : N) : bool := N.land b 192 =? 128.
(* the same test by range (equal on bytes, see Utf8P.is_cont_range) *)
Definition is_contr (b : N) : bool := (128 <=? b) && (b <? 192).

(* strict decoder: shortest form only, no surrogates, nothing above 0x10FFFF *)
Fixpoint utf8_decode (d : bytes) : option (list N) :=
  match d with
  | [] => Some []
  | b0 :: r0 =>
    if b0 <? 128 then option_map (cons b0) (utf8_decode r0)
    else if b0 <? 192 then None
    else if b0 <? 224 then
      match r0 with
      | b1 :: r1 =>
        let c := (b0 - 192) * 64 + (b1 - 128) in
        if is_contr b1 && (128 <=? c) then option_map (cons c) (utf8_decode r1) else None
      | _ => None
      end
    else if b0 <? 240 then
      match r0 with
      | b1 :: b2 :: r2 =>
        let c := (b0 - 224) * 4096 + (b1 - 128) * 64 + (b2 - 128) in
        if is_contr b1 && is_contr b2 && (2048 <=? c) && is_scalar c
        then option_map (cons c) (utf8_decode r2) else None
      | _ => None
      end
    else if b0 <? 248 then
      match r0 with
      | b1 :: b2 :: b3 :: r3 =>
        let c := (b0 - 240) * 262144 + (b1 - 128) * 4096 + (b2 - 128) * 64 + (b3 - 128) in
        if is_contr b1 && is_contr b2 && is_contr b3 && (65536 <=? c) && is_scalar c
        then option_map (cons c) (utf8_decode r3) else None
      | _ => None
      end
    else None
  end.

(* number of leading continuation bytes *)
Fixpoint count_cont (l : bytes) : nat :=
  match l with
  | b :: r => if is_cont b then S (count_cont r) else O
  | [] => O
  end.

(* round_up_to_char_boundary(utf8, index): index advanced past continuation bytes (or to the end) *)
Definition round_up_to_char_boundary (d : bytes) (index : nat) : nat :=
  index + count_cont (skipn index d).

(* lexicographic comparison of lists with an element comparison *)
Definition lexc {A} (f : A -> A -> comparison) : list A -> list A -> comparison :=
  fix go (a b : list A) : comparison :=
    match a, b with
    | [], [] => Eq
    | [], _ :: _ => Lt
    | _ :: _, [] => Gt
    | x :: a', y :: b' => match f x y with Eq => go a' b' | c => c end
    end.

(* <&str as Key>::separator on UTF-8 encodings *)
Definition str_sep (l r : bytes) : bytes :=
  let n := round_up_to_char_boundary r (S (common_prefix_len l r)) in
  if (Nat.ltb n (length l) && Nat.ltb n (length r))%bool then firstn n r else l.
