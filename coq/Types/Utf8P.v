From RV Require Import Base.Bytes Base.BytesP.
From RV.Types Require Import Utf8.
Open Scope N_scope.

Ltac dlia := zify; Z.to_euclidean_division_equations; lia.

Ltac b2p :=
  repeat match goal with
  | H : _ && _ = true |- _ => apply andb_true_iff in H; destruct H
  | H : _ || _ = true |- _ => apply orb_true_iff in H
  | H : (_ <? _) = true |- _ => apply N.ltb_lt in H
  | H : (_ <? _) = false |- _ => apply N.ltb_ge in H
  | H : (_ <=? _) = true |- _ => apply N.leb_le in H
  | H : (_ <=? _) = false |- _ => apply N.leb_gt in H
  | H : (_ =? _) = true |- _ => apply N.eqb_eq in H
  | H : (_ =? _) = false |- _ => apply N.eqb_neq in H
  end.

Lemma is_scalar_lt c : is_scalar c = true -> c < 1114112.
Proof. unfold is_scalar. intros H. b2p. destruct H; b2p; lia. Qed.

Lemma is_scalar_nosurr c : is_scalar c = true -> c < 55296 \/ 57344 <= c.
Proof. unfold is_scalar. intros H. b2p. destruct H; b2p; lia. Qed.

(* ---- is_cont by mask = by range, on bytes *)
Lemma is_cont_range b : b < 256 -> is_cont b = is_contr b.
Proof.
  intros Hb.
  assert (H : forallb (fun n => Bool.eqb (is_cont (N.of_nat n)) (is_contr (N.of_nat n))) (seq 0 256) = true)
    by (vm_compute; reflexivity).
  rewrite forallb_forall in H.
  specialize (H (N.to_nat b)). rewrite N2Nat.id in H.
  apply eqb_prop. apply H. apply in_seq. lia.
Qed.

Ltac ltb_dec :=
  match goal with
  | |- context [?a <? ?b] =>
      first [ replace (a <? b) with true by (symmetry; apply N.ltb_lt; dlia)
            | replace (a <? b) with false by (symmetry; apply N.ltb_ge; dlia) ]
  | |- context [?a <=? ?b] =>
      first [ replace (a <=? b) with true by (symmetry; apply N.leb_le; dlia)
            | replace (a <=? b) with false by (symmetry; apply N.leb_gt; dlia) ]
  end.

Lemma utf8_decode_char c rest : is_scalar c = true ->
  utf8_decode (utf8_char c ++ rest) = option_map (cons c) (utf8_decode rest).
Proof.
  intros Hs. pose proof (is_scalar_lt c Hs) as Hlt.
  unfold utf8_char.
  destruct (c <? 128) eqn:E1; [|destruct (c <? 2048) eqn:E2; [|destruct (c <? 65536) eqn:E3]]; b2p;
    cbn [app utf8_decode]; unfold is_contr.
  - rewrite (proj2 (N.ltb_lt _ _) E1). reflexivity.
  - replace ((192 + c / 64 - 192) * 64 + (128 + c mod 64 - 128)) with c by dlia.
    repeat ltb_dec. reflexivity.
  - replace ((224 + c / 4096 - 224) * 4096 + (128 + (c / 64) mod 64 - 128) * 64 + (128 + c mod 64 - 128)) with c by dlia.
    repeat ltb_dec. rewrite Hs. reflexivity.
  - replace ((240 + c / 262144 - 240) * 262144 + (128 + (c / 4096) mod 64 - 128) * 4096 + (128 + (c / 64) mod 64 - 128) * 64 + (128 + c mod 64 - 128)) with c by dlia.
    repeat ltb_dec. rewrite Hs. reflexivity.
Qed.

Lemma utf8_roundtrip s : forallb is_scalar s = true -> utf8_decode (utf8_encode s) = Some s.
Proof.
  induction s as [|c s IH]; cbn [forallb utf8_encode flat_map]; [reflexivity|].
  intros H. b2p. rewrite utf8_decode_char by assumption.
  fold (utf8_encode s). rewrite IH by assumption. reflexivity.
Qed.

(* ---- shape of one character's encoding *)
Lemma utf8_char_shape c : is_scalar c = true ->
  exists h t, utf8_char c = h :: t /\ is_cont h = false /\ forallb is_cont t = true /\ all_bytes (h :: t) = true.
Proof.
  intros Hs. pose proof (is_scalar_lt c Hs) as Hlt.
  unfold utf8_char.
  destruct (c <? 128) eqn:E1; [|destruct (c <? 2048) eqn:E2; [|destruct (c <? 65536) eqn:E3]]; b2p;
    eexists; eexists; (split; [reflexivity|]);
    cbn [forallb all_bytes]; unfold is_byte;
    repeat (rewrite is_cont_range by dlia); unfold is_contr;
    repeat ltb_dec; repeat split; reflexivity.
Qed.

Lemma utf8_char_len_pos c : (0 < length (utf8_char c))%nat.
Proof. unfold utf8_char. repeat destruct (_ <? _); cbn; lia. Qed.

Lemma utf8_encode_all_bytes s : forallb is_scalar s = true -> all_bytes (utf8_encode s) = true.
Proof.
  induction s as [|c s IH]; cbn [forallb utf8_encode flat_map]; [reflexivity|].
  intros H. b2p. fold (utf8_encode s). unfold all_bytes in *. rewrite forallb_app, IH by assumption.
  destruct (utf8_char_shape c H) as (h & t & -> & _ & _ & Hb). unfold all_bytes in Hb. now rewrite Hb.
Qed.

Lemma utf8_encode_nil s : utf8_encode s = [] -> s = [].
Proof.
  destruct s as [|c s]; [reflexivity|]. cbn. intros H.
  pose proof (utf8_char_len_pos c). destruct (utf8_char c); cbn in *; [lia|discriminate].
Qed.

(* ---- order *)
Lemma lex_cons_lt a b u v : a < b -> lex_cmp (a :: u) (b :: v) = Lt.
Proof. intros H. cbn. apply N.compare_lt_iff in H. now rewrite H. Qed.
Lemma lex_cons_eq a u v : lex_cmp (a :: u) (a :: v) = lex_cmp u v.
Proof. cbn. now rewrite N.compare_refl. Qed.

Ltac lexstep :=
  first [ apply lex_cons_lt; dlia
        | match goal with |- lex_cmp (?a :: _) (?b :: _) = Lt =>
            let H1 := fresh "Hlt_" in let H2 := fresh "Heq_" in let H3 := fresh "Hgt_" in
            destruct (N.lt_trichotomy a b) as [H1|[H2|H3]];
            [ apply lex_cons_lt; exact H1 | rewrite H2, lex_cons_eq | exfalso; dlia ]
          end ].

Lemma utf8_char_lt x y u v : is_scalar x = true -> is_scalar y = true -> x < y ->
  lex_cmp (utf8_char x ++ u) (utf8_char y ++ v) = Lt.
Proof.
  intros Hx Hy Hxy. pose proof (is_scalar_lt y Hy) as Hlt.
  unfold utf8_char.
  destruct (x <? 128) eqn:X1; [|destruct (x <? 2048) eqn:X2; [|destruct (x <? 65536) eqn:X3]];
  (destruct (y <? 128) eqn:Y1; [|destruct (y <? 2048) eqn:Y2; [|destruct (y <? 65536) eqn:Y3]]);
  b2p; try lia; cbn [app]; repeat lexstep.
Qed.

Lemma utf8_order a b : forallb is_scalar a = true -> forallb is_scalar b = true ->
  lex_cmp (utf8_encode a) (utf8_encode b) = lexc N.compare a b.
Proof.
  revert b; induction a as [|x a IH]; intros [|y b]; cbn [forallb utf8_encode flat_map lexc]; intros Ha Hb; b2p.
  - reflexivity.
  - destruct (utf8_char_shape y H) as (h & t & -> & _). reflexivity.
  - destruct (utf8_char_shape x H) as (h & t & -> & _). reflexivity.
  - fold (utf8_encode a) (utf8_encode b).
    destruct (N.compare_spec x y) as [->|Hlt|Hgt].
    + clear H. induction (utf8_char y) as [|c l IHl]; cbn [app]; [now apply IH|].
      now rewrite lex_cons_eq.
    + now apply utf8_char_lt.
    + rewrite lex_cmp_antisym. rewrite (utf8_char_lt y x); auto.
Qed.
(* ---- prefix freedom: two different characters' encodings first differ inside both *)
Lemma utf8_char_cpl x y u v : is_scalar x = true -> is_scalar y = true -> x <> y ->
  (common_prefix_len (utf8_char x ++ u) (utf8_char y ++ v) < length (utf8_char y))%nat.
Proof.
  intros Hx Hy Hxy. pose proof (is_scalar_lt y Hy) as Hlt. pose proof (is_scalar_lt x Hx) as Hltx.
  unfold utf8_char.
  destruct (x <? 128) eqn:X1; [|destruct (x <? 2048) eqn:X2; [|destruct (x <? 65536) eqn:X3]];
  (destruct (y <? 128) eqn:Y1; [|destruct (y <? 2048) eqn:Y2; [|destruct (y <? 65536) eqn:Y3]]);
  b2p; cbn [app common_prefix_len length];
  repeat match goal with |- context [if ?a =? ?b then _ else _] => destruct (a =? b) eqn:? end;
  b2p; try lia; exfalso; dlia.
Qed.
Lemma cpl_app p l r : common_prefix_len (p ++ l) (p ++ r) = (length p + common_prefix_len l r)%nat.
Proof. induction p as [|c p IH]; cbn; [reflexivity|]. now rewrite N.eqb_refl, IH. Qed.

Lemma round_up_app p r k : round_up_to_char_boundary (p ++ r) (length p + k) = (length p + round_up_to_char_boundary r k)%nat.
Proof.
  unfold round_up_to_char_boundary. rewrite skipn_app.
  replace (length p + k - length p)%nat with k by lia.
  rewrite skipn_all2 by lia. cbn [app]. lia.
Qed.

Lemma str_sep_app p l r : str_sep (p ++ l) (p ++ r) = p ++ str_sep l r.
Proof.
  unfold str_sep. rewrite cpl_app. rewrite plus_n_Sm, round_up_app, !app_length.
  set (n := round_up_to_char_boundary r _).
  replace (length p + n <? length p + length l)%nat with (n <? length l)%nat
    by (destruct (Nat.ltb_spec n (length l)); symmetry; [apply Nat.ltb_lt|apply Nat.ltb_ge]; lia).
  replace (length p + n <? length p + length r)%nat with (n <? length r)%nat
    by (destruct (Nat.ltb_spec n (length r)); symmetry; [apply Nat.ltb_lt|apply Nat.ltb_ge]; lia).
  destruct (_ && _)%bool; [|reflexivity].
  rewrite firstn_app. replace (length p + n - length p)%nat with n by lia.
  rewrite firstn_all2 by lia. reflexivity.
Qed.

Lemma count_cont_app t rest : forallb is_cont t = true ->
  (rest = [] \/ exists h r, rest = h :: r /\ is_cont h = false) ->
  count_cont (t ++ rest) = length t.
Proof.
  intros Ht Hr. induction t as [|c t IH]; cbn [app count_cont length].
  - destruct Hr as [->|(h & r & -> & Hh)]; cbn; [reflexivity|now rewrite Hh].
  - cbn in Ht. apply andb_true_iff in Ht as [H1 H2]. now rewrite H1, IH.
Qed.

Lemma forallb_skipn {A} (f : A -> bool) n l : forallb f l = true -> forallb f (skipn n l) = true.
Proof.
  revert n; induction l as [|x l IH]; intros [|n]; cbn; auto.
  intros H. apply andb_true_iff in H as [_ H]. auto.
Qed.

Lemma utf8_encode_head s : forallb is_scalar s = true ->
  utf8_encode s = [] \/ exists h r, utf8_encode s = h :: r /\ is_cont h = false.
Proof.
  destruct s as [|c s]; [now left|]. cbn [forallb utf8_encode flat_map]. intros H. b2p.
  destruct (utf8_char_shape c H) as (h & t & -> & Hh & _). right. cbn. eauto.
Qed.

(* the boundary after the first differing character of the right string *)
Lemma round_up_first_diff x y u b' :
  is_scalar x = true -> is_scalar y = true -> x <> y -> forallb is_scalar b' = true ->
  round_up_to_char_boundary (utf8_char y ++ utf8_encode b')
     (S (common_prefix_len (utf8_char x ++ u) (utf8_char y ++ utf8_encode b'))) = length (utf8_char y).
Proof.
  intros Hx Hy Hxy Hb.
  pose proof (utf8_char_cpl x y u (utf8_encode b') Hx Hy Hxy) as Hj.
  set (j := common_prefix_len _ _) in *.
  destruct (utf8_char_shape y Hy) as (h & t & E & Hh & Ht & _). rewrite E in *. cbn [length] in *.
  unfold round_up_to_char_boundary. cbn [app skipn].
  rewrite skipn_app. replace (j - length t)%nat with O by lia. cbn [skipn].
  rewrite count_cont_app.
  - rewrite skipn_length. lia.
  - now apply forallb_skipn.
  - now apply utf8_encode_head.
Qed.

Definition scalars (s : list N) : Prop := forallb is_scalar s = true.

Lemma lexc_N_refl a : lexc N.compare a a = Eq.
Proof. induction a as [|x a IH]; cbn; [reflexivity|]. now rewrite N.compare_refl. Qed.

Theorem str_sep_valid a b : scalars a -> scalars b -> lexc N.compare a b = Lt ->
  exists sv, scalars sv /\ utf8_encode sv = str_sep (utf8_encode a) (utf8_encode b) /\
             lexc N.compare a sv <> Gt /\ lexc N.compare sv b = Lt /\
             (length (str_sep (utf8_encode a) (utf8_encode b)) <= length (utf8_encode a))%nat.
Proof.
  unfold scalars. revert b; induction a as [|x a IH]; intros [|y b]; cbn [lexc forallb]; intros Ha Hb Hlt; try discriminate.
  - (* left empty: nothing is shorter *)
    exists []. cbn [utf8_encode flat_map]. unfold str_sep. cbn [length]. 
    match goal with |- context [Nat.ltb ?n 0] => replace (Nat.ltb n 0) with false by (symmetry; apply Nat.ltb_ge; lia) end.
    cbn [andb]. repeat split; auto; discriminate.
  - apply andb_true_iff in Ha as [Hx Ha]. apply andb_true_iff in Hb as [Hy Hb].
    cbn [utf8_encode flat_map]. fold (utf8_encode a) (utf8_encode b).
    destruct (N.compare_spec x y) as [->|Hxy|Hxy]; try discriminate.
    + (* same first character *)
      destruct (IH b) as (sv & Hsv & Henc & H1 & H2 & H3); auto.
      exists (y :: sv). rewrite str_sep_app. cbn [forallb utf8_encode flat_map lexc].
      fold (utf8_encode sv). rewrite N.compare_refl, Henc, Hy, Hsv. repeat split; auto.
      rewrite !app_length. lia.
    + (* first difference: here *)
      unfold str_sep.
      rewrite round_up_first_diff by (auto; lia).
      destruct (_ && _)%bool eqn:G.
      * apply andb_true_iff in G as [G1 G2]. apply Nat.ltb_lt in G1, G2.
        exists [y]. cbn [forallb utf8_encode flat_map lexc]. rewrite app_nil_r.
        rewrite firstn_app, Nat.sub_diag, firstn_all, firstn_O, app_nil_r.
        rewrite Hy. apply N.compare_lt_iff in Hxy. rewrite Hxy, N.compare_refl.
        repeat split; auto; try discriminate; try lia.
        destruct b as [|z b]; [|reflexivity]. cbn in G2. rewrite app_nil_r in G2. lia.
      * exists (x :: a). cbn [forallb utf8_encode flat_map lexc]. fold (utf8_encode a).
        rewrite Hx, Ha, N.compare_refl, lexc_N_refl.
        apply N.compare_lt_iff in Hxy. rewrite Hxy. repeat split; auto; discriminate.
Qed.
