From RV Require Import Base.Bytes Base.BytesP Types.KeyTypes.
Open Scope N_scope.

Lemma roundtrip t v : has_type t v -> decode t (encode t v) = Some v.
Proof.
  destruct t, v; cbn [has_type]; try tauto; intros H.
  - unfold decode, encode. rewrite le_encode_length. cbn [Nat.eqb].
    rewrite le_decode_encode; [reflexivity|]. exact H.
Qed.

Lemma compare_is_value_order t a b :
  has_type t a -> has_type t b -> kcompare t (encode t a) (encode t b) = vcompare t a b.
Proof.
  destruct t, a, b; cbn [has_type]; try tauto; intros Ha Hb; unfold kcompare, encode, vcompare.
  rewrite !le_decode_encode; auto.
Qed.

(* bytes separator *)
Lemma firstn_S_cpl_between l r :
  lex_cmp l r = Lt ->
  (S (common_prefix_len l r) < length r)%nat ->
  lex_cmp l (firstn (S (common_prefix_len l r)) r) <> Gt /\
  lex_cmp (firstn (S (common_prefix_len l r)) r) r = Lt.
Proof.
  revert r; induction l as [|x l IH]; intros [|y r]; cbn [lex_cmp common_prefix_len length firstn]; try discriminate.
  - intros _ Hlen. split; [discriminate|].
    rewrite N.compare_refl. destruct r; [cbn in Hlen; lia|reflexivity].
  - destruct (x ?= y) eqn:E; try discriminate; intros Hlt Hlen.
    + apply N.compare_eq in E; subst. rewrite N.eqb_refl in *.
      cbn [firstn lex_cmp]. rewrite N.compare_refl.
      apply IH; [exact Hlt|]. cbn in Hlen. lia.
    + assert (Hne : x =? y = false) by (apply N.eqb_neq; rewrite N.compare_lt_iff in E; lia).
      rewrite Hne in *.
      cbn [firstn lex_cmp]. rewrite ?E, N.compare_refl. split; [discriminate|].
      destruct r; [cbn in Hlen; lia|reflexivity].
Qed.

Lemma all_bytes_firstn n l : all_bytes l = true -> all_bytes (firstn n l) = true.
Proof.
  revert n; induction l as [|x l IH]; intros [|n]; cbn; auto.
  intros H. apply andb_true_iff in H as [H1 H2]. now rewrite H1, IH.
Qed.

Lemma separator_valid t a b :
  has_type t a -> has_type t b -> vcompare t a b = Lt ->
  let s := separator t (encode t a) (encode t b) in
  exists sv, has_type t sv /\ encode t sv = s /\ vcompare t a sv <> Gt /\ vcompare t sv b = Lt
             /\ (length s <= length (encode t a))%nat.
Proof.
  destruct t, a as [x|x], b as [y|y]; cbn [has_type]; try tauto; intros Ha Hb Hlt; cbn zeta.
  - exists (VU64 x). cbn [separator encode has_type vcompare]. repeat split; auto.
    rewrite N.compare_refl; discriminate.
  - cbn [separator encode vcompare] in *.
    destruct (andb _ _) eqn:E.
    + apply andb_true_iff in E as [E1 E2]. apply Nat.ltb_lt in E1, E2.
      exists (VBytes (firstn (S (common_prefix_len x y)) y)).
      cbn [has_type encode vcompare].
      pose proof (firstn_S_cpl_between x y Hlt E2) as [H1 H2].
      repeat split; auto.
      * now apply all_bytes_firstn.
      * rewrite firstn_length. lia.
    + exists (VBytes x). cbn [has_type encode vcompare]. repeat split; auto.
      rewrite lex_cmp_refl; discriminate.
Qed.

Lemma vcompare_eq_encode t a b :
  has_type t a -> has_type t b -> vcompare t a b = Eq -> encode t a = encode t b.
Proof.
  destruct t, a as [x|x], b as [y|y]; cbn [has_type]; try tauto; intros Ha Hb H; cbn in H |- *.
  - apply N.compare_eq in H. now subst.
  - now apply lex_cmp_eq.
Qed.

Lemma vcompare_antisym t a b :
  has_type t a -> has_type t b -> vcompare t b a = CompOpp (vcompare t a b).
Proof.
  destruct t, a as [x|x], b as [y|y]; cbn [has_type]; try tauto; intros _ _; cbn.
  - apply N.compare_antisym.
  - apply lex_cmp_antisym.
Qed.

Lemma vcompare_trans t a b c :
  has_type t a -> has_type t b -> has_type t c ->
  vcompare t a b = Lt -> vcompare t b c = Lt -> vcompare t a c = Lt.
Proof.
  destruct t, a as [x|x], b as [y|y], c as [z|z]; cbn [has_type]; try tauto; intros _ _ _; cbn.
  - rewrite !N.compare_lt_iff. lia.
  - apply lex_cmp_trans_lt.
Qed.
