(* Proofs about the C15 model (Types/KeyTypes.v). *)
From RV Require Import Base.Bytes Base.BytesP.
From RV.Types Require Import Utf8 Utf8P KeyTypes.
Open Scope N_scope.

(* ================================================================ induction on kty (nested lists) *)
Section KtyInd.
  Variable P : kty -> Prop.
  Hypothesis HUnit : P TUnit.
  Hypothesis HBool : P TBool.
  Hypothesis HChar : P TChar.
  Hypothesis HU : forall w, P (TU w).
  Hypothesis HI : forall w, P (TI w).
  Hypothesis HStr : P TStr.
  Hypothesis HBytes : P TBytes.
  Hypothesis HFixed : forall n, P (TFixedBytes n).
  Hypothesis HOpt : forall t, P t -> P (TOpt t).
  Hypothesis HArr : forall n t, P t -> P (TArr n t).
  Hypothesis HTup : forall ts, Forall P ts -> P (TTup ts).
  Fixpoint kty_ind2 (t : kty) : P t :=
    match t with
    | TUnit => HUnit | TBool => HBool | TChar => HChar
    | TU w => HU w | TI w => HI w | TStr => HStr | TBytes => HBytes
    | TFixedBytes n => HFixed n
    | TOpt t' => HOpt t' (kty_ind2 t')
    | TArr n t' => HArr n t' (kty_ind2 t')
    | TTup ts => HTup ts ((fix go (l : list kty) : Forall P l :=
                            match l with
                            | [] => Forall_nil P
                            | x :: r => Forall_cons x (kty_ind2 x) (go r)
                            end) ts)
    end.
End KtyInd.

(* ================================================================ generic list helpers *)

Lemma blen_app a b : blen (a ++ b) = blen a + blen b.
Proof. unfold blen. rewrite app_length. lia. Qed.

Lemma blen_nat b : N.to_nat (blen b) = length b.
Proof. unfold blen. lia. Qed.

Lemma opt_all_map_some {A B} (f : A -> option B) (g : B -> A) l :
  (forall x, In x l -> f (g x) = Some x) -> opt_all (map f (map g l)) = Some l.
Proof.
  induction l as [|x l IH]; intros H; cbn; [reflexivity|].
  rewrite H by (now left). rewrite IH; [reflexivity|]. intros y Hy. apply H. now right.
Qed.

Lemma length_concat_const (es : list bytes) w :
  Forall (fun e => length e = w) es -> length (concat es) = (w * length es)%nat.
Proof.
  induction 1 as [|e es He _ IH]; cbn; [lia|]. rewrite app_length, IH, He. lia.
Qed.

Lemma firstn_len_app {A} n (a b : list A) : length a = n -> firstn n (a ++ b) = a.
Proof. intros <-. rewrite firstn_app, Nat.sub_diag, firstn_all. cbn. apply app_nil_r. Qed.
Lemma skipn_len_app {A} n (a b : list A) : length a = n -> skipn n (a ++ b) = b.
Proof. intros <-. rewrite skipn_app, Nat.sub_diag, skipn_all. reflexivity. Qed.

Lemma chunks_concat es w rest :
  Forall (fun e => length e = w) es -> chunks (length es) w (concat es ++ rest) = es.
Proof.
  induction 1 as [|e es He _ IH]; cbn [length chunks concat]; [reflexivity|].
  rewrite <- app_assoc. rewrite firstn_len_app, skipn_len_app by assumption. now rewrite IH.
Qed.

(* ================================================================ varint *)

Lemma le_decode_encode' w n : n < 256 ^ N.of_nat w -> le_decode (le_encode w n) = n.
Proof. apply le_decode_encode. Qed.

Lemma varint_roundtrip n rest : n < 4294967296 ->
  decode_varint_len (encode_varint_len n ++ rest) = Some (n, rest).
Proof.
  intros Hn. unfold encode_varint_len.
  destruct (n <? 254) eqn:E1; [|destruct (n <=? 65535) eqn:E2].
  - cbn. now rewrite E1.
  - apply N.ltb_ge in E1. apply N.leb_le in E2.
    cbn [app decode_varint_len]. cbn [N.ltb N.compare Pos.compare Pos.compare_cont N.eqb Pos.eqb].
    rewrite app_length, le_encode_length. cbn [Nat.leb Nat.add].
    rewrite firstn_len_app, skipn_len_app by apply le_encode_length.
    rewrite le_decode_encode; [reflexivity|]. cbn. lia.
  - apply N.ltb_ge in E1. apply N.leb_gt in E2.
    cbn [app decode_varint_len]. cbn [N.ltb N.compare Pos.compare Pos.compare_cont N.eqb Pos.eqb].
    rewrite app_length, le_encode_length. cbn [Nat.leb Nat.add].
    rewrite firstn_len_app, skipn_len_app by apply le_encode_length.
    rewrite le_decode_encode; [reflexivity|]. cbn. lia.
Qed.

(* ================================================================ arrays of variable width elements *)

Fixpoint ends_from (start : N) (es : list bytes) : list N :=
  match es with
  | [] => []
  | e :: r => (start + blen e) :: ends_from (start + blen e) r
  end.

Lemma arr_offsets_length start es : length (arr_offsets start es) = (4 * length es)%nat.
Proof.
  revert start; induction es as [|e es IH]; intros start; cbn [arr_offsets length]; [reflexivity|].
  rewrite app_length, le_encode_length, IH. lia.
Qed.

Lemma arr_ends_offsets es start rest : start + blen (concat es) < 4294967296 ->
  arr_ends (length es) (arr_offsets start es ++ rest) = ends_from start es.
Proof.
  revert start; induction es as [|e es IH]; intros start Hb; cbn [arr_offsets length arr_ends ends_from concat]; [reflexivity|].
  cbn [concat] in Hb. rewrite blen_app in Hb.
  rewrite <- app_assoc. rewrite firstn_len_app, skipn_len_app by apply le_encode_length.
  rewrite le_decode_encode by (cbn; lia). f_equal. apply IH. lia.
Qed.

Lemma arr_slices_ok pre es :
  arr_slices (pre ++ concat es) (blen pre) (ends_from (blen pre) es) = Some es.
Proof.
  revert pre; induction es as [|e es IH]; intros pre; cbn [ends_from arr_slices concat].
  - rewrite app_nil_r, N.eqb_refl. reflexivity.
  - replace ((blen pre <=? blen pre + blen e) && (blen pre + blen e <=? blen (pre ++ e ++ concat es)))%bool with true.
    2:{ symmetry. apply andb_true_iff. split; apply N.leb_le; rewrite ?blen_app; lia. }
    replace (N.to_nat (blen pre + blen e - blen pre)) with (length e) by (unfold blen; lia).
    rewrite blen_nat. rewrite skipn_len_app, firstn_len_app by reflexivity.
    rewrite app_assoc, <- blen_app, IH. reflexivity.
Qed.

Lemma arr_split_assemble es : size_ok (arr_assemble es) = true ->
  arr_split (length es) (arr_assemble es) = Some es.
Proof.
  unfold size_ok, arr_assemble, arr_split. intros Hs. apply N.ltb_lt in Hs.
  rewrite blen_app in Hs.
  assert (Hl : blen (arr_offsets (4 * N.of_nat (length es)) es) = 4 * N.of_nat (length es))
    by (unfold blen; rewrite arr_offsets_length; lia).
  rewrite Hl in Hs.
  replace (Nat.leb (4 * length es) _) with true
    by (symmetry; apply Nat.leb_le; rewrite app_length, arr_offsets_length; lia).
  rewrite arr_ends_offsets by lia.
  rewrite <- Hl at 2 3. apply arr_slices_ok.
Qed.

Lemma arr_assemble_length es : length (arr_assemble es) = (4 * length es + length (concat es))%nat.
Proof. unfold arr_assemble. now rewrite app_length, arr_offsets_length. Qed.

(* ================================================================ tuples *)

Definition fits (fw : option nat) (e : bytes) : Prop :=
  match fw with Some w => length e = w | None => True end.

Lemma tup_lens_header fws es rest :
  Forall2 fits fws es ->
  blen (concat (removelast es)) <= blen rest -> blen rest < 4294967296 ->
  tup_lens fws (tup_header fws es ++ rest) = Some (map (@length _) (removelast es), rest).
Proof.
  intros HF. revert rest. induction HF as [|fw e fws es Hfe HF IH]; intros rest Hb1 Hb2; [reflexivity|].
  cbn [tup_lens tup_header].
  destruct fws as [|fw2 fws].
  - inversion HF; subst. reflexivity.
  - destruct es as [|e2 es]; [inversion HF|].
    set (fws' := fw2 :: fws) in *. set (es' := e2 :: es) in *.
    change (removelast (e :: es')) with (e :: removelast es') in *. cbn [map].
    cbn [concat] in Hb1. rewrite blen_app in Hb1.
    destruct fw as [w|].
    + cbn [app] in *. rewrite IH by lia. now rewrite Hfe.
    + rewrite <- app_assoc. rewrite varint_roundtrip by lia.
      replace (blen e <=? blen (tup_header fws' es' ++ rest)) with true
        by (symmetry; apply N.leb_le; rewrite blen_app; lia).
      rewrite IH by lia. now rewrite blen_nat.
Qed.

Lemma take_seq_concat es : es <> [] ->
  take_seq (map (@length _) (removelast es)) (concat es) = Some es.
Proof.
  induction es as [|e es IH]; intros Hne; [congruence|].
  destruct es as [|e2 es].
  - cbn. now rewrite app_nil_r.
  - change (removelast (e :: e2 :: es)) with (e :: removelast (e2 :: es)).
    change (concat (e :: e2 :: es)) with (e ++ concat (e2 :: es)).
    set (es' := e2 :: es) in *.
    cbn [map take_seq].
    replace (Nat.leb (length e) (length (e ++ concat es'))) with true
      by (symmetry; apply Nat.leb_le; rewrite app_length; lia).
    rewrite firstn_len_app, skipn_len_app by reflexivity.
    rewrite IH by (subst es'; discriminate). reflexivity.
Qed.

Lemma blen_concat_removelast (es : list bytes) : blen (concat (removelast es)) <= blen (concat es).
Proof.
  induction es as [|e es IH]; [cbn; lia|].
  destruct es as [|e2 es]; [cbn; lia|].
  change (removelast (e :: e2 :: es)) with (e :: removelast (e2 :: es)).
  change (concat (e :: e2 :: es)) with (e ++ concat (e2 :: es)).
  change (concat (e :: removelast (e2 :: es))) with (e ++ concat (removelast (e2 :: es))).
  rewrite !blen_app. lia.
Qed.

Lemma tup_split_ok fws es :
  Forall2 fits fws es -> es <> [] ->
  size_ok (tup_header fws es ++ concat es) = true ->
  tup_split fws (tup_header fws es ++ concat es) = Some es.
Proof.
  intros HF Hne Hs. unfold size_ok in Hs. apply N.ltb_lt in Hs. rewrite blen_app in Hs.
  unfold tup_split. rewrite tup_lens_header; auto.
  - now apply take_seq_concat.
  - apply blen_concat_removelast.
  - lia.
Qed.

(* ================================================================ typing: inversion *)

Lemma zipw_wt_Forall2 ts vs :
  length vs = length ts -> forallb (fun b : bool => b) (zipw wt ts vs) = true -> Forall2 has_type ts vs.
Proof.
  revert vs; induction ts as [|t ts IH]; intros [|v vs]; cbn; try discriminate; intros Hl H.
  - constructor.
  - apply andb_true_iff in H as [H1 H2]. constructor; [exact H1|]. apply IH; auto.
Qed.

Lemma wt_tup_inv ts vs : has_type (TTup ts) (VList vs) ->
  Forall2 has_type ts vs /\ size_ok (encode (TTup ts) (VList vs)) = true.
Proof.
  unfold has_type. cbn [wt]. intros H.
  apply andb_true_iff in H as [H H3]. apply andb_true_iff in H as [H1 H2].
  apply Nat.eqb_eq in H1. split; [|exact H3]. now apply zipw_wt_Forall2.
Qed.

Lemma wt_arr_inv n t vs : has_type (TArr n t) (VList vs) ->
  length vs = n /\ Forall (has_type t) vs /\ size_ok (encode (TArr n t) (VList vs)) = true.
Proof.
  unfold has_type. cbn [wt]. intros H.
  apply andb_true_iff in H as [H H3]. apply andb_true_iff in H as [H1 H2].
  apply Nat.eqb_eq in H1. repeat split; auto.
  apply Forall_forall. now apply forallb_forall.
Qed.

Lemma Forall2_length' {A B} (R : A -> B -> Prop) l1 l2 : Forall2 R l1 l2 -> length l1 = length l2.
Proof. induction 1; cbn; auto. Qed.

Lemma zipw_length {A B C} (f : A -> B -> C) l1 l2 : length l1 = length l2 -> length (zipw f l1 l2) = length l1.
Proof. revert l2; induction l1 as [|a l1 IH]; intros [|b l2]; cbn; auto. Qed.

(* ================================================================ fixed width encodings have that width *)

Lemma sum_widths_fits fws es w :
  sum_widths fws = Some w -> Forall2 fits fws es -> tup_header fws es = [] /\ length (concat es) = w.
Proof.
  intros Hs HF. revert w Hs. induction HF as [|fw e fws es Hfe HF IH]; intros w Hs.
  - cbn in Hs. injection Hs as <-. now split.
  - cbn [sum_widths] in Hs. destruct fw as [w1|]; [|discriminate].
    destruct (sum_widths fws) as [w2|] eqn:E; [|discriminate]. cbn in Hs. injection Hs as <-.
    destruct (IH w2 eq_refl) as [IH1 IH2]. cbn [fits] in Hfe.
    split.
    + cbn [tup_header]. destruct fws; [reflexivity|]. now rewrite IH1.
    + cbn [concat]. rewrite app_length. lia.
Qed.

Definition fixed_len_ok (t : kty) : Prop :=
  forall v w, has_type t v -> fixed_width t = Some w -> length (encode t v) = w.

Lemma Forall2_fits ts vs :
  Forall fixed_len_ok ts -> Forall2 has_type ts vs ->
  Forall2 fits (map fixed_width ts) (zipw encode ts vs).
Proof.
  intros HP HF. induction HF as [|t v ts vs Htv HF IH]; cbn; constructor.
  - inversion HP; subst. unfold fits. destruct (fixed_width t) eqn:E; auto.
  - inversion HP; subst. auto.
Qed.

Lemma repeat_length' {A} (x : A) n : length (repeat x n) = n.
Proof. apply repeat_length. Qed.

Lemma encode_fixed_len t : fixed_len_ok t.
Proof.
  induction t using kty_ind2; intros v w0 Hv Hw; unfold has_type in Hv;
    destruct v; cbn [wt] in Hv; try discriminate; cbn [fixed_width] in Hw; try discriminate;
    try (injection Hw as <-); cbn [encode].
  - reflexivity.
  - reflexivity.
  - apply le_encode_length.
  - apply le_encode_length.
  - apply le_encode_length.
  - apply andb_true_iff in Hv as [_ Hv]. now apply Nat.eqb_eq in Hv.
  - destruct (fixed_width t) as [w1|] eqn:E; [|discriminate]. cbn in Hw. injection Hw as <-.
    cbn [length]. now rewrite repeat_length.
  - destruct (fixed_width t) as [w1|] eqn:E; [|discriminate]. cbn in Hw. injection Hw as <-.
    cbn [length]. f_equal. now apply IHt.
  - destruct (wt_arr_inv _ _ _ Hv) as (Hl & HF & _).
    destruct (fixed_width t) as [w1|] eqn:E; [|discriminate]. cbn in Hw. injection Hw as <-.
    rewrite (length_concat_const _ w1).
    + now rewrite map_length, Hl.
    + apply Forall_map. eapply Forall_impl; [|exact HF]. intros x Hx. now apply IHt.
  - destruct (wt_tup_inv _ _ Hv) as (HF & _).
    pose proof (Forall2_fits _ _ H HF) as Hfits.
    destruct (sum_widths_fits _ _ _ Hw Hfits) as [E1 E2]. now rewrite E1.
Qed.
(* ================================================================ signed integers *)

Lemma int_mod_half w : (0 < w)%nat -> int_mod w = 2 * int_half w.
Proof.
  unfold int_half, int_mod. destruct w as [|w]; [lia|]. intros _.
  rewrite Nat2N.inj_succ, N.pow_succ_r'.
  replace (256 * 256 ^ N.of_nat w) with ((128 * 256 ^ N.of_nat w) * 2) by lia.
  rewrite N.div_mul by lia. lia.
Qed.

Lemma int_half_0 : int_half 0 = 0.
Proof. reflexivity. Qed.

Lemma signed_roundtrip w z :
  (- Z.of_N (int_half w) <= z < Z.of_N (int_half w))%Z ->
  Z.to_N (z mod Z.of_N (int_mod w)) < int_mod w /\
  to_signed w (Z.to_N (z mod Z.of_N (int_mod w))) = z.
Proof.
  intros Hz. destruct w as [|w]; [rewrite int_half_0 in Hz; lia|].
  pose proof (int_mod_half (S w) ltac:(lia)) as HM.
  set (M := int_mod (S w)) in *. set (H := int_half (S w)) in *.
  unfold to_signed. fold M H.
  destruct (Z_lt_le_dec z 0) as [Hneg|Hpos].
  - assert (E : (z mod Z.of_N M = z + Z.of_N M)%Z).
    { symmetry. apply Z.mod_unique with (q := (-1)%Z); lia. }
    rewrite E. split; [lia|].
    replace (Z.to_N (z + Z.of_N M) <? H) with false by (symmetry; apply N.ltb_ge; lia). lia.
  - rewrite Z.mod_small by lia. split; [lia|].
    replace (Z.to_N z <? H) with true by (symmetry; apply N.ltb_lt; lia). lia.
Qed.

(* ================================================================ roundtrip *)

Definition roundtrip_ok (t : kty) : Prop := forall v, has_type t v -> decode t (encode t v) = Some v.

Lemma bytes_eqb_refl p : bytes_eqb p p = true.
Proof. unfold bytes_eqb. now rewrite lex_cmp_refl. Qed.

Lemma opt_all_zipw_roundtrip ts vs :
  Forall roundtrip_ok ts -> Forall2 has_type ts vs ->
  opt_all (zipw decode ts (zipw encode ts vs)) = Some vs.
Proof.
  intros HP HF. induction HF as [|t v ts vs Htv HF IH]; cbn; [reflexivity|].
  inversion HP; subst. rewrite H1 by assumption. rewrite IH by assumption. reflexivity.
Qed.

Lemma wf_tup_inv ts : wf_ty (TTup ts) = true -> ts <> [] /\ Forall (fun t => wf_ty t = true) ts.
Proof.
  cbn [wf_ty]. intros H. apply andb_true_iff in H as [H H2]. apply andb_true_iff in H as [H0 H1].
  split.
  - destruct ts; [discriminate|discriminate].
  - apply Forall_forall. now apply forallb_forall.
Qed.

Lemma roundtrip t : wf_ty t = true -> roundtrip_ok t.
Proof.
  induction t using kty_ind2; intros Hwf v Hv; pose proof Hv as Hv0; unfold has_type in Hv;
    destruct v; cbn [wt] in Hv; try discriminate; cbn [encode decode].
  - reflexivity.
  - destruct b; reflexivity.
  - rewrite le_encode_length. cbn [Nat.eqb].
    rewrite le_decode_encode by (apply is_scalar_lt in Hv; cbn; lia). now rewrite Hv.
  - apply N.ltb_lt in Hv. rewrite le_encode_length, Nat.eqb_refl, le_decode_encode; auto.
  - apply andb_true_iff in Hv as [H1 H2]. apply Z.leb_le in H1. apply Z.ltb_lt in H2.
    destruct (signed_roundtrip w z (conj H1 H2)) as [Hlt Hs].
    rewrite le_encode_length, Nat.eqb_refl, le_decode_encode by exact Hlt. now rewrite Hs.
  - now rewrite utf8_roundtrip.
  - reflexivity.
  - apply andb_true_iff in Hv as [_ Hv]. now rewrite Hv.
  - cbn. now rewrite bytes_eqb_refl.
  - cbn. rewrite IHt; auto.
  - destruct (wt_arr_inv _ _ _ Hv0) as (Hl & HF & Hs). cbn [encode] in Hs.
    assert (Hrt : opt_all (map (decode t) (map (encode t) vs)) = Some vs).
    { apply opt_all_map_some. intros x Hx. apply IHt; auto. rewrite Forall_forall in HF. auto. }
    destruct (fixed_width t) as [w1|] eqn:E.
    + assert (HFl : Forall (fun e => length e = w1) (map (encode t) vs)).
      { apply Forall_map. eapply Forall_impl; [|exact HF]. intros x Hx. now apply encode_fixed_len. }
      rewrite (length_concat_const _ w1) by assumption. rewrite map_length, Hl, Nat.eqb_refl.
      rewrite <- (app_nil_r (concat _)). rewrite <- Hl at 1. rewrite <- (map_length (encode t) vs).
      rewrite chunks_concat by assumption. now rewrite Hrt.
    + rewrite <- Hl. rewrite <- (map_length (encode t) vs). rewrite arr_split_assemble by assumption.
      now rewrite Hrt.
  - destruct (wt_tup_inv _ _ Hv0) as (HF & Hs). cbn [encode] in Hs.
    destruct (wf_tup_inv _ Hwf) as (Hne & Hwfs).
    assert (HR : Forall roundtrip_ok ts).
    { rewrite Forall_forall in *. intros x Hx. apply H; auto. }
    assert (Hlen : length ts = length vs) by (eapply Forall2_length'; eauto).
    rewrite tup_split_ok; auto.
    + rewrite zipw_length by assumption. rewrite Nat.eqb_refl.
      now rewrite opt_all_zipw_roundtrip.
    + apply Forall2_fits; auto. apply Forall_forall. intros x _. apply encode_fixed_len.
    + destruct ts; [congruence|]. destruct vs; [discriminate|]. discriminate.
Qed.
(* ================================================================ Key::compare = order of the values *)

Definition cmp_ok (t : kty) : Prop :=
  forall a b, has_type t a -> has_type t b -> kcompare t (encode t a) (encode t b) = vcompare t a b.

Lemma lexc_map_encode t xs ys : cmp_ok t -> Forall (has_type t) xs -> Forall (has_type t) ys ->
  lexc (kcompare t) (map (encode t) xs) (map (encode t) ys) = lexc (vcompare t) xs ys.
Proof.
  intros Hc HX. revert ys. induction HX as [|x xs Hx HX IH]; intros ys HY; destruct HY as [|y ys Hy HY]; cbn; auto.
  rewrite (Hc x y) by assumption. destruct (vcompare t x y); auto.
Qed.

Lemma lexc3_zipw_encode ts xs ys : Forall cmp_ok ts -> Forall2 has_type ts xs -> Forall2 has_type ts ys ->
  lexc3 kcompare ts (zipw encode ts xs) (zipw encode ts ys) = lexc3 vcompare ts xs ys.
Proof.
  intros HP HX. revert ys. induction HX as [|t x ts xs Hx HX IH]; intros ys HY; inversion HY; subst; cbn; auto.
  inversion HP; subst. match goal with Hc : cmp_ok t |- _ => rewrite (Hc x y) by assumption end. destruct (vcompare t x y); auto.
Qed.

Lemma compare_is_value_order t : wf_ty t = true -> cmp_ok t.
Proof.
  induction t using kty_ind2; intros Hwf a b Ha Hb; pose proof Ha as Ha0; pose proof Hb as Hb0;
    unfold has_type in Ha, Hb;
    destruct a; cbn [wt] in Ha; try discriminate; destruct b; cbn [wt] in Hb; try discriminate;
    cbn [encode kcompare vcompare].
  - reflexivity.
  - destruct b, b0; reflexivity.
  - rewrite !firstn_all2 by (rewrite le_encode_length; lia).
    apply is_scalar_lt in Ha, Hb.
    rewrite !le_decode_encode; auto; cbn; lia.
  - apply N.ltb_lt in Ha, Hb. rewrite !le_decode_encode; auto.
  - apply andb_true_iff in Ha as [A1 A2]. apply Z.leb_le in A1. apply Z.ltb_lt in A2.
    apply andb_true_iff in Hb as [B1 B2]. apply Z.leb_le in B1. apply Z.ltb_lt in B2.
    destruct (signed_roundtrip w z (conj A1 A2)) as [Hlt1 Hs1].
    destruct (signed_roundtrip w z0 (conj B1 B2)) as [Hlt2 Hs2].
    rewrite !le_decode_encode by assumption. now rewrite Hs1, Hs2.
  - now apply utf8_order.
  - reflexivity.
  - reflexivity.
  - reflexivity.
  - reflexivity.
  - reflexivity.
  - cbn. apply IHt; auto.
  - destruct (wt_arr_inv _ _ _ Ha0) as (Hl1 & HF1 & Hs1). cbn [encode] in Hs1.
    destruct (wt_arr_inv _ _ _ Hb0) as (Hl2 & HF2 & Hs2). cbn [encode] in Hs2.
    specialize (IHt Hwf).
    destruct (fixed_width t) as [w1|] eqn:E.
    + assert (HFl : forall xs, Forall (has_type t) xs -> Forall (fun e => length e = w1) (map (encode t) xs)).
      { intros xs HF. apply Forall_map. eapply Forall_impl; [|exact HF]. intros x Hx. now apply encode_fixed_len. }
      rewrite <- (app_nil_r (concat (map (encode t) vs))), <- (app_nil_r (concat (map (encode t) vs0))).
      rewrite <- Hl1 at 1. rewrite <- Hl2. rewrite <- (map_length (encode t) vs), <- (map_length (encode t) vs0).
      rewrite !chunks_concat by auto. now apply lexc_map_encode.
    + rewrite <- Hl1 at 1. rewrite <- Hl2. rewrite <- (map_length (encode t) vs), <- (map_length (encode t) vs0).
      rewrite !arr_split_assemble by assumption. now apply lexc_map_encode.
  - destruct (wt_tup_inv _ _ Ha0) as (HF1 & Hs1). cbn [encode] in Hs1.
    destruct (wt_tup_inv _ _ Hb0) as (HF2 & Hs2). cbn [encode] in Hs2.
    destruct (wf_tup_inv _ Hwf) as (Hne & Hwfs).
    assert (HR : Forall cmp_ok ts).
    { rewrite Forall_forall in *. intros x Hx. apply H; auto. }
    assert (Hfl : Forall fixed_len_ok ts) by (apply Forall_forall; intros x _; apply encode_fixed_len).
    assert (Hne' : forall xs, Forall2 has_type ts xs -> zipw encode ts xs <> []).
    { intros xs HX. destruct HX; [congruence|discriminate]. }
    rewrite !tup_split_ok; auto using Forall2_fits.
    now apply lexc3_zipw_encode.
Qed.
(* ================================================================ the value order is a total order *)

Section Lexc.
  Context {A : Type} (f : A -> A -> comparison) (P : A -> Prop).
  Hypothesis f_eq : forall x y, P x -> P y -> f x y = Eq -> x = y.
  Hypothesis f_refl : forall x, P x -> f x x = Eq.
  Hypothesis f_anti : forall x y, P x -> P y -> f y x = CompOpp (f x y).
  Hypothesis f_trans : forall x y z, P x -> P y -> P z -> f x y = Lt -> f y z = Lt -> f x z = Lt.

  Lemma lexc_eq xs ys : Forall P xs -> Forall P ys -> lexc f xs ys = Eq -> xs = ys.
  Proof.
    intros HX. revert ys. induction HX as [|x xs Hx HX IH]; intros ys HY; destruct HY as [|y ys Hy HY]; cbn; try discriminate; auto.
    destruct (f x y) eqn:E; try discriminate. intros H. apply f_eq in E; auto. subst. f_equal. auto.
  Qed.

  Lemma lexc_refl xs : Forall P xs -> lexc f xs xs = Eq.
  Proof. induction 1 as [|x xs Hx HX IH]; cbn; auto. now rewrite f_refl. Qed.

  Lemma lexc_anti xs ys : Forall P xs -> Forall P ys -> lexc f ys xs = CompOpp (lexc f xs ys).
  Proof.
    intros HX. revert ys. induction HX as [|x xs Hx HX IH]; intros ys HY; destruct HY as [|y ys Hy HY]; cbn; auto.
    rewrite (f_anti x y) by assumption. destruct (f x y); cbn; auto.
  Qed.

  Lemma lexc_trans xs ys zs : Forall P xs -> Forall P ys -> Forall P zs ->
    lexc f xs ys = Lt -> lexc f ys zs = Lt -> lexc f xs zs = Lt.
  Proof.
    intros HX. revert ys zs. induction HX as [|x xs Hx HX IH]; intros ys zs HY HZ;
      destruct HY as [|y ys Hy HY]; destruct HZ as [|z zs Hz HZ]; cbn; try discriminate; auto.
    destruct (f x y) eqn:E1; try discriminate; destruct (f y z) eqn:E2; try discriminate; intros H1 H2.
    - apply f_eq in E1; auto. apply f_eq in E2; auto. subst. rewrite f_refl by assumption. eauto.
    - apply f_eq in E1; auto. subst. now rewrite E2.
    - apply f_eq in E2; auto. subst. now rewrite E1.
    - now rewrite (f_trans x y z).
  Qed.
End Lexc.

Record ord_ok (t : kty) : Prop := {
  o_eq : forall a b, has_type t a -> has_type t b -> vcompare t a b = Eq -> a = b;
  o_refl : forall a, has_type t a -> vcompare t a a = Eq;
  o_anti : forall a b, has_type t a -> has_type t b -> vcompare t b a = CompOpp (vcompare t a b);
  o_trans : forall a b c, has_type t a -> has_type t b -> has_type t c ->
            vcompare t a b = Lt -> vcompare t b c = Lt -> vcompare t a c = Lt }.

Lemma N_trans_lt x y z : (x ?= y) = Lt -> (y ?= z) = Lt -> (x ?= z) = Lt.
Proof. rewrite !N.compare_lt_iff. lia. Qed.

Lemma Ntrue : forall l : list N, Forall (fun _ => True) l.
Proof. intros l. apply Forall_forall. auto. Qed.

(* tuples: position-wise *)
Lemma lexc3_eq ts xs ys : Forall ord_ok ts -> Forall2 has_type ts xs -> Forall2 has_type ts ys ->
  lexc3 vcompare ts xs ys = Eq -> xs = ys.
Proof.
  intros HP HX. revert ys. induction HX as [|t x ts xs Hx HX IH]; intros ys HY; inversion HY; subst; cbn; auto.
  inversion HP; subst.
  destruct (vcompare t x y) eqn:E; try discriminate. intros H.
  apply (o_eq t) in E; auto. subst. f_equal. auto.
Qed.

Lemma lexc3_refl ts xs : Forall ord_ok ts -> Forall2 has_type ts xs -> lexc3 vcompare ts xs xs = Eq.
Proof.
  intros HP HX. induction HX as [|t x ts xs Hx HX IH]; cbn; auto.
  inversion HP; subst. rewrite (o_refl t) by assumption. auto.
Qed.

Lemma lexc3_anti ts xs ys : Forall ord_ok ts -> Forall2 has_type ts xs -> Forall2 has_type ts ys ->
  lexc3 vcompare ts ys xs = CompOpp (lexc3 vcompare ts xs ys).
Proof.
  intros HP HX. revert ys. induction HX as [|t x ts xs Hx HX IH]; intros ys HY; inversion HY; subst; cbn; auto.
  inversion HP; subst.
  match goal with Ho : ord_ok t |- _ => rewrite (o_anti t Ho x y) by assumption end. destruct (vcompare t x y); cbn; auto.
Qed.

Lemma lexc3_trans ts xs ys zs : Forall ord_ok ts ->
  Forall2 has_type ts xs -> Forall2 has_type ts ys -> Forall2 has_type ts zs ->
  lexc3 vcompare ts xs ys = Lt -> lexc3 vcompare ts ys zs = Lt -> lexc3 vcompare ts xs zs = Lt.
Proof.
  intros HP HX. revert ys zs. induction HX as [|t x ts xs Hx HX IH]; intros ys zs HY HZ;
    inversion HY; subst; inversion HZ; subst; cbn; try discriminate.
  inversion HP; subst. rename y0 into z.
  destruct (vcompare t x y) eqn:E1; try discriminate; destruct (vcompare t y z) eqn:E2; try discriminate; intros G1 G2.
  - apply (o_eq t) in E1; auto. apply (o_eq t) in E2; auto. subst. rewrite (o_refl t) by assumption. eauto.
  - apply (o_eq t) in E1; auto. subst. now rewrite E2.
  - apply (o_eq t) in E2; auto. subst. now rewrite E1.
  - match goal with Ho : ord_ok t |- _ => now rewrite (o_trans t Ho x y z) end.
Qed.

Lemma order_ok t : ord_ok t.
Proof.
  induction t using kty_ind2.
  - (* unit *) split; intros; repeat match goal with H : has_type _ ?v |- _ => unfold has_type in H; destruct v; cbn [wt] in H; try discriminate end; cbn in *; congruence.
  - (* bool *) split; intros; repeat match goal with H : has_type _ ?v |- _ => unfold has_type in H; destruct v; cbn [wt] in H; try discriminate end;
      repeat match goal with b : bool |- _ => destruct b end; cbn in *; congruence.
  - (* char *) split; intros; repeat match goal with H : has_type _ ?v |- _ => unfold has_type in H; destruct v; cbn [wt] in H; try discriminate end; cbn [vcompare] in *.
    + f_equal. now apply N.compare_eq.
    + apply N.compare_refl.
    + apply N.compare_antisym.
    + eapply N_trans_lt; eauto.
  - (* unsigned *) split; intros; repeat match goal with H : has_type _ ?v |- _ => unfold has_type in H; destruct v; cbn [wt] in H; try discriminate end; cbn [vcompare] in *.
    + f_equal. now apply N.compare_eq.
    + apply N.compare_refl.
    + apply N.compare_antisym.
    + eapply N_trans_lt; eauto.
  - (* signed *) split; intros; repeat match goal with H : has_type _ ?v |- _ => unfold has_type in H; destruct v; cbn [wt] in H; try discriminate end; cbn [vcompare] in *.
    + f_equal. now apply Z.compare_eq.
    + apply Z.compare_refl.
    + apply Z.compare_antisym.
    + rewrite Z.compare_lt_iff in *. lia.
  - (* str *) split; intros; repeat match goal with H : has_type _ ?v |- _ => unfold has_type in H; destruct v; cbn [wt] in H; try discriminate end; cbn [vcompare] in *.
    + f_equal. eapply (lexc_eq N.compare (fun _ => True)); eauto using Ntrue. intros. now apply N.compare_eq.
    + eapply (lexc_refl N.compare (fun _ => True)); eauto using Ntrue. intros. apply N.compare_refl.
    + eapply (lexc_anti N.compare (fun _ => True)); eauto using Ntrue. intros. apply N.compare_antisym.
    + eapply (lexc_trans N.compare (fun _ => True)); eauto using Ntrue.
      * intros. now apply N.compare_eq.
      * intros. apply N.compare_refl.
      * intros. eapply N_trans_lt; eauto.
  - (* bytes *) split; intros; repeat match goal with H : has_type _ ?v |- _ => unfold has_type in H; destruct v; cbn [wt] in H; try discriminate end; cbn [vcompare] in *.
    + f_equal. now apply lex_cmp_eq.
    + apply lex_cmp_refl.
    + apply lex_cmp_antisym.
    + eapply lex_cmp_trans_lt; eauto.
  - (* fixed bytes *) split; intros; repeat match goal with H : has_type _ ?v |- _ => unfold has_type in H; destruct v; cbn [wt] in H; try discriminate end; cbn [vcompare] in *.
    + f_equal. now apply lex_cmp_eq.
    + apply lex_cmp_refl.
    + apply lex_cmp_antisym.
    + eapply lex_cmp_trans_lt; eauto.
  - (* option *) destruct IHt as [Ieq Irefl Ianti Itrans].
    split; intros; repeat match goal with H : has_type _ ?v |- _ => unfold has_type in H; destruct v; cbn [wt] in H; try discriminate end; cbn [vcompare] in *;
      try discriminate; try reflexivity.
    + f_equal. now apply Ieq.
    + now apply Irefl.
    + now apply Ianti.
    + match goal with H1 : vcompare t ?x ?y = Lt, H2 : vcompare t ?y ?z = Lt |- _ => apply (Itrans x y z); assumption end.
  - (* array *) destruct IHt as [Ieq Irefl Ianti Itrans].
    split; intros;
      repeat match goal with H : has_type _ ?v |- _ =>
        let H' := fresh "T" in pose proof H as H'; unfold has_type in H; destruct v; cbn [wt] in H; try discriminate; clear H;
        apply wt_arr_inv in H'; destruct H' as (? & ? & ?) end; cbn [vcompare] in *.
    + f_equal. eapply (lexc_eq (vcompare t) (has_type t)); eauto.
    + eapply (lexc_refl (vcompare t) (has_type t)); eauto.
    + eapply (lexc_anti (vcompare t) (has_type t)); eauto.
    + match goal with H1 : lexc _ ?x ?y = Lt, H2 : lexc _ ?y ?z = Lt |- _ => apply (lexc_trans (vcompare t) (has_type t) Ieq Irefl Itrans x y z); assumption end.
  - (* tuple *)
    split; intros;
      repeat match goal with H : has_type _ ?v |- _ =>
        let H' := fresh "T" in pose proof H as H'; unfold has_type in H; destruct v; cbn [wt] in H; try discriminate; clear H;
        apply wt_tup_inv in H'; destruct H' as (? & ?) end; cbn [vcompare] in *.
    + f_equal. eapply lexc3_eq; eauto.
    + eapply lexc3_refl; eauto.
    + eapply lexc3_anti; eauto.
    + match goal with H1 : lexc3 _ _ ?x ?y = Lt, H2 : lexc3 _ _ ?y ?z = Lt |- _ => apply (lexc3_trans ts x y z); assumption end.
Qed.
(* ================================================================ min_encoded_key *)

Lemma lexc_nil_le {A} (f : A -> A -> comparison) l : lexc f [] l <> Gt.
Proof. destruct l; cbn; discriminate. Qed.
Lemma lex_cmp_nil_le l : lex_cmp [] l <> Gt.
Proof. destruct l; cbn; discriminate. Qed.

Lemma min_key_valid t : forall m, wf_ty t = true -> min_encoded_key t = Some m -> size_ok m = true ->
  exists mv, has_type t mv /\ encode t mv = m /\ forall v, has_type t v -> vcompare t mv v <> Gt.
Proof.
  induction t using kty_ind2; intros m Hwf Hm Hs; cbn [min_encoded_key] in Hm; try discriminate.
  - injection Hm as <-. exists (VStr []). repeat split. intros v Hv.
    unfold has_type in Hv. destruct v; cbn [wt] in Hv; try discriminate. cbn. apply (lexc_nil_le N.compare).
  - injection Hm as <-. exists (VBytes []). repeat split. intros v Hv.
    unfold has_type in Hv. destruct v; cbn [wt] in Hv; try discriminate. cbn. apply lex_cmp_nil_le.
  - injection Hm as <-. exists VNone. repeat split. intros v Hv.
    unfold has_type in Hv. destruct v; cbn [wt] in Hv; try discriminate; cbn; discriminate.
  - destruct ts as [|t1 [|t2 ts]]; try discriminate.
    inversion H as [|? ? IH1 _]; subst.
    destruct (wf_tup_inv _ Hwf) as (_ & Hwfs). inversion Hwfs; subst.
    destruct (IH1 m) as (mv & Hmv & He & Hle); auto.
    exists (VList [mv]).
    assert (Henc : encode (TTup [t1]) (VList [mv]) = m) by (cbn; now rewrite app_nil_r).
    repeat split.
    + unfold has_type. cbn [wt]. rewrite Henc, Hs. cbn. now rewrite Hmv.
    + exact Henc.
    + intros v Hv. pose proof Hv as Hv0. unfold has_type in Hv. destruct v; cbn [wt] in Hv; try discriminate.
      destruct (wt_tup_inv _ _ Hv0) as (HF & _). inversion HF as [|? y ? ys Hy HF']; subst. inversion HF'; subst.
      cbn. specialize (Hle y Hy). destruct (vcompare t1 mv y); auto.
Qed.

(* ================================================================ separators *)

Definition sep_ok (t : kty) : Prop :=
  forall a b, has_type t a -> has_type t b -> vcompare t a b = Lt ->
  let s := separator t (encode t a) (encode t b) in
  exists sv, has_type t sv /\ encode t sv = s /\ vcompare t a sv <> Gt /\ vcompare t sv b = Lt
             /\ (length s <= length (encode t a))%nat.

(* returning `left` is always valid *)
Lemma sep_left t a b : has_type t a -> vcompare t a b = Lt ->
  exists sv, has_type t sv /\ encode t sv = encode t a /\ vcompare t a sv <> Gt /\ vcompare t sv b = Lt
             /\ (length (encode t a) <= length (encode t a))%nat.
Proof.
  intros Ha Hlt. exists a. repeat split; auto.
  rewrite (o_refl t (order_ok t)) by assumption. discriminate.
Qed.

(* <&[u8]>::separator *)
Lemma firstn_S_cpl_between l r :
  lex_cmp l r = Lt ->
  (S (common_prefix_len l r) < length r)%nat ->
  lex_cmp l (firstn (S (common_prefix_len l r)) r) <> Gt /\
  lex_cmp (firstn (S (common_prefix_len l r)) r) r = Lt.
Proof.
  revert r; induction l as [|x l IH]; intros [|y r]; cbn [lex_cmp common_prefix_len length firstn]; try discriminate.
  - intros _ Hlen. split; [discriminate|].
    rewrite N.compare_refl. destruct r; [cbn in Hlen; lia|reflexivity].
  - destruct (x ?= y) eqn:E; try discriminate; intros Hlt Hlen.
    + apply N.compare_eq in E; subst. rewrite N.eqb_refl in *.
      cbn [firstn lex_cmp]. rewrite N.compare_refl.
      apply IH; [exact Hlt|]. cbn in Hlen. lia.
    + assert (Hne : x =? y = false) by (apply N.eqb_neq; rewrite N.compare_lt_iff in E; lia).
      rewrite Hne in *.
      cbn [firstn lex_cmp]. rewrite ?E, N.compare_refl. split; [discriminate|].
      destruct r; [cbn in Hlen; lia|reflexivity].
Qed.

Lemma all_bytes_firstn n l : all_bytes l = true -> all_bytes (firstn n l) = true.
Proof.
  revert n; induction l as [|x l IH]; intros [|n]; cbn; auto.
  intros H. apply andb_true_iff in H as [H1 H2]. now rewrite H1, IH.
Qed.

Lemma In_blen_concat (e : bytes) es : In e es -> blen e <= blen (concat es).
Proof.
  induction es as [|x es IH]; cbn [In concat]; [tauto|]. rewrite blen_app. intros [->|H]; [lia|].
  specialize (IH H). lia.
Qed.

(* the element list of the array separator *)
Lemma arr_sep_elems_ok t xs : sep_ok t -> cmp_ok t -> wf_ty t = true ->
  forall ys, Forall (has_type t) xs -> Forall (has_type t) ys -> length xs = length ys ->
  lexc (vcompare t) xs ys = Lt ->
  exists els,
    arr_sep_elems (kcompare t) (separator t) (min_encoded_key t) (map (encode t) xs) (map (encode t) ys) = Some els /\
    length els = length xs /\
    (Forall (fun e => size_ok e = true) els ->
     exists svs, Forall (has_type t) svs /\ map (encode t) svs = els /\
                 lexc (vcompare t) xs svs <> Gt /\ lexc (vcompare t) svs ys = Lt).
Proof.
  intros Hsep Hcmp Hwf. pose proof (order_ok t) as [Oeq Orefl Oanti Otrans].
  induction xs as [|x xs IH]; intros ys HX HY Hlen Hlt; destruct ys as [|y ys]; cbn [lexc] in Hlt; try discriminate.
  cbn [length] in Hlen. apply Nat.succ_inj in Hlen.
  pose proof (Forall_inv HX) as Hx; pose proof (Forall_inv_tail HX) as HX'.
  pose proof (Forall_inv HY) as Hy; pose proof (Forall_inv_tail HY) as HY'.
  cbn [map arr_sep_elems]. rewrite (Hcmp x y) by assumption.
  destruct (vcompare t x y) eqn:E; try discriminate.
  - (* equal elements: keep left's, go on *)
    apply Oeq in E; auto. subst y.
    destruct (IH ys HX' HY' Hlen Hlt) as (els & He & Hl & Hs). rewrite He.
    exists (encode t x :: els). cbn [option_map length]. repeat split; auto.
    intros Hsz. pose proof (Forall_inv_tail Hsz) as Hsz'.
    destruct (Hs Hsz') as (svs & S1 & S2 & S3 & S4).
    exists (x :: svs). cbn [map lexc]. rewrite Orefl by assumption. repeat split; auto. now rewrite S2.
  - (* first differing element *)
    destruct (Hsep x y Hx Hy E) as (sv & Hsv & Hse & Hle & Hlt' & Hsl). cbn zeta in *.
    rewrite <- Hse. rewrite (Hcmp x sv) by assumption.
    eexists. split; [reflexivity|]. split; [destruct (_ && _)%bool; [destruct (min_encoded_key t)|]; cbn [length]; now rewrite ?map_length|].
    intros Hsz.
    destruct ((match map (encode t) xs with [] => false | _ => true end) && (match vcompare t x sv with Lt => true | _ => false end))%bool eqn:R.
    + apply andb_true_iff in R as [R1 R2].
      destruct (vcompare t x sv) eqn:Exs; try discriminate.
      destruct (min_encoded_key t) as [m|] eqn:Em.
      * (* tail replaced by the minimum *)
        assert (Hm : size_ok m = true).
        { pose proof (Forall_inv_tail Hsz) as Hsz'. destruct xs as [|x2 xs]; [discriminate|]. cbn [map] in Hsz'. exact (Forall_inv Hsz'). }
        destruct (min_key_valid t m Hwf Em Hm) as (mv & Hmv & Hme & _).
        exists (sv :: map (fun _ => mv) xs). cbn [map lexc]. rewrite Exs, Hlt'.
        repeat split; try discriminate.
        -- constructor; auto. apply Forall_forall. intros z Hz. apply in_map_iff in Hz as (? & <- & _). exact Hmv.
        -- f_equal. rewrite !map_map. apply map_ext. intros _. exact Hme.
      * exists (sv :: xs). cbn [map lexc]. rewrite Exs, Hlt'. repeat split; auto; try discriminate.
    + exists (sv :: xs). cbn [map lexc]. rewrite Hlt'. repeat split; auto.
      destruct (vcompare t x sv); try congruence.
      rewrite (lexc_refl (vcompare t) (has_type t)); auto; try discriminate.
Qed.

Lemma arr_split_enc n t xs : length xs = n -> size_ok (arr_assemble (map (encode t) xs)) = true ->
  arr_split n (arr_assemble (map (encode t) xs)) = Some (map (encode t) xs).
Proof. intros Hl Hs. pose proof (arr_split_assemble _ Hs) as X. now rewrite map_length, Hl in X. Qed.

Lemma separator_valid t : wf_ty t = true -> sep_ok t.
Proof.
  induction t using kty_ind2; intros Hwf a b Ha Hb Hlt;
    try (cbn [separator]; now apply sep_left).
  - (* &str *)
    pose proof Ha as Ha0; pose proof Hb as Hb0. unfold has_type in Ha, Hb.
    destruct a; cbn [wt] in Ha; try discriminate; destruct b; cbn [wt] in Hb; try discriminate.
    cbn [vcompare] in Hlt. cbn [separator encode]. cbn zeta.
    destruct (str_sep_valid s s0 Ha Hb Hlt) as (sv & S1 & S2 & S3 & S4 & S5).
    exists (VStr sv). cbn [encode vcompare]. repeat split; auto.
  - (* &[u8] *)
    pose proof Ha as Ha0; pose proof Hb as Hb0. unfold has_type in Ha, Hb.
    destruct a as [| | | | | |x| | |]; cbn [wt] in Ha; try discriminate; destruct b as [| | | | | |y| | |]; cbn [wt] in Hb; try discriminate.
    cbn [vcompare] in Hlt. cbn [separator encode]. cbn zeta. unfold bytes_sep.
    destruct (andb _ _) eqn:E.
    + apply andb_true_iff in E as [E1 E2]. apply Nat.ltb_lt in E1, E2.
      exists (VBytes (firstn (S (common_prefix_len x y)) y)).
      cbn [encode vcompare].
      pose proof (firstn_S_cpl_between x y Hlt E2) as [H1 H2].
      repeat split; auto.
      * unfold has_type. cbn [wt]. now apply all_bytes_firstn.
      * rewrite firstn_length. lia.
    + exists (VBytes x). cbn [encode vcompare]. repeat split; auto.
      rewrite lex_cmp_refl; discriminate.
  - (* Option<T> *)
    cbn [separator]. destruct (fixed_width t) eqn:Efw; [now apply sep_left|].
    pose proof Ha as Ha0; pose proof Hb as Hb0. unfold has_type in Ha, Hb.
    destruct a; cbn [wt] in Ha; try discriminate; destruct b; cbn [wt] in Hb; try discriminate;
      cbn [vcompare] in Hlt; try discriminate.
    + (* None < Some: left is the tag alone *)
      pose proof (sep_left (TOpt t) VNone (VSome b) Ha0 eq_refl) as X.
      cbn [encode] in *. rewrite Efw in *. cbn [N.eqb]. exact X.
    + cbn [encode tl]. cbn [N.eqb Pos.eqb].
      destruct (IHt Hwf a b Ha Hb Hlt) as (sv & S1 & S2 & S3 & S4 & S5). cbn zeta in *.
      destruct (Nat.leb _ _) eqn:G.
      * pose proof (sep_left (TOpt t) (VSome a) (VSome b) Ha0 Hlt) as X. cbn [encode] in X. exact X.
      * apply Nat.leb_gt in G. exists (VSome sv). cbn [encode vcompare]. rewrite S2. repeat split; auto.
        cbn [length] in *. lia.
  - (* [T; N] *)
    cbn [separator]. destruct (fixed_width t) eqn:Efw; [now apply sep_left|].
    pose proof Ha as Ha0; pose proof Hb as Hb0. unfold has_type in Ha, Hb.
    destruct a as [| | | | | | | | |xs]; cbn [wt] in Ha; try discriminate; destruct b as [| | | | | | | | |ys]; cbn [wt] in Hb; try discriminate.
    destruct (wt_arr_inv _ _ _ Ha0) as (Hl1 & HF1 & Hs1).
    destruct (wt_arr_inv _ _ _ Hb0) as (Hl2 & HF2 & Hs2).
    cbn [vcompare] in Hlt.
    cbn [encode] in *. rewrite Efw in *.
    rewrite !arr_split_enc by assumption.
    destruct (arr_sep_elems_ok t xs (IHt Hwf) (compare_is_value_order t Hwf) Hwf ys HF1 HF2 ltac:(lia) Hlt) as (els & He & Hle & Hs).
    rewrite He. cbn zeta.
    destruct (Nat.leb _ _) eqn:G.
    + apply (sep_left (TArr n t) (VList xs) (VList ys)) in Hlt; auto. cbn [encode] in Hlt. now rewrite Efw in Hlt.
    + apply Nat.leb_gt in G.
      assert (Hsz : size_ok (arr_assemble els) = true).
      { unfold size_ok in *. apply N.ltb_lt. apply N.ltb_lt in Hs1. unfold blen in *.
        rewrite arr_assemble_length. rewrite Hle, Hl1. lia. }
      destruct Hs as (svs & S1 & S2 & S3 & S4).
      { apply Forall_forall. intros e He'. unfold size_ok in *. apply N.ltb_lt. apply N.ltb_lt in Hsz.
        pose proof (In_blen_concat e els He'). unfold arr_assemble in Hsz. rewrite blen_app in Hsz. lia. }
      assert (Hlen : length svs = n) by (rewrite <- (map_length (encode t) svs), S2; lia).
      exists (VList svs). cbn [encode vcompare]. rewrite ?Efw, S2.
      repeat split; auto.
      * unfold has_type. cbn [wt encode]. rewrite Efw, S2, Hsz, Hlen, Nat.eqb_refl. cbn [andb].
        rewrite andb_true_r. apply forallb_forall. rewrite Forall_forall in S1. exact S1.
      * rewrite arr_assemble_length. rewrite Hle, Hl1. lia.
Qed.
(* ================================================================ consequences *)

Lemma vcompare_eq_encode t a b :
  has_type t a -> has_type t b -> vcompare t a b = Eq -> encode t a = encode t b.
Proof. intros Ha Hb H. now rewrite (o_eq t (order_ok t) a b Ha Hb H). Qed.

(* a <= b, b < c  ->  a < c     and     a < b, b <= c -> a < c *)
Lemma vcompare_le_lt t a b c : has_type t a -> has_type t b -> has_type t c ->
  vcompare t a b <> Gt -> vcompare t b c = Lt -> vcompare t a c = Lt.
Proof.
  intros Ha Hb Hc H1 H2. destruct (order_ok t) as [Oeq _ _ Otr].
  destruct (vcompare t a b) eqn:E; try congruence.
  - apply Oeq in E; auto. now subst.
  - apply (Otr a b c); auto.
Qed.

Lemma vcompare_lt_le t a b c : has_type t a -> has_type t b -> has_type t c ->
  vcompare t a b = Lt -> vcompare t b c <> Gt -> vcompare t a c = Lt.
Proof.
  intros Ha Hb Hc H1 H2. destruct (order_ok t) as [Oeq _ _ Otr].
  destruct (vcompare t b c) eqn:E; try congruence.
  - apply Oeq in E; auto. now subst.
  - apply (Otr a b c); auto.
Qed.

Lemma vcompare_le_le t a b c : has_type t a -> has_type t b -> has_type t c ->
  vcompare t a b <> Gt -> vcompare t b c <> Gt -> vcompare t a c <> Gt.
Proof.
  intros Ha Hb Hc H1 H2. destruct (order_ok t) as [Oeq _ _ Otr].
  destruct (vcompare t a b) eqn:E; try congruence.
  - apply Oeq in E; auto. now subst.
  - rewrite (vcompare_lt_le t a b c); auto; discriminate.
Qed.

(* the separator is an encoding Key::compare / from_bytes accept *)
Lemma separator_decodes t a b : wf_ty t = true ->
  has_type t a -> has_type t b -> vcompare t a b = Lt ->
  exists sv, has_type t sv /\ decode t (separator t (encode t a) (encode t b)) = Some sv.
Proof.
  intros Hwf Ha Hb Hlt. destruct (separator_valid t Hwf a b Ha Hb Hlt) as (sv & S1 & S2 & _).
  exists sv. split; auto. cbn zeta in S2. rewrite <- S2. now apply roundtrip.
Qed.

(* lookups route correctly: with the separator s between a child whose greatest key is a and the next
   child whose least key is b, every key k <= a compares <= s and every key k >= b compares > s,
   under the byte-level Key::compare *)
Lemma routing_ok t a b k : wf_ty t = true ->
  has_type t a -> has_type t b -> has_type t k -> vcompare t a b = Lt ->
  let s := separator t (encode t a) (encode t b) in
  (vcompare t k a <> Gt -> kcompare t (encode t k) s <> Gt) /\
  (vcompare t b k <> Gt -> kcompare t s (encode t k) = Lt).
Proof.
  intros Hwf Ha Hb Hk Hlt. cbn zeta.
  destruct (separator_valid t Hwf a b Ha Hb Hlt) as (sv & S1 & S2 & S3 & S4 & _). cbn zeta in S2.
  rewrite <- S2. rewrite !compare_is_value_order by assumption. split; intros H.
  - apply (vcompare_le_le t k a sv); auto.
  - apply (vcompare_lt_le t sv b k); auto.
Qed.

(* sorting by Key::compare on encodings = sorting by value *)
Lemma kcompare_trans t a b c : wf_ty t = true -> has_type t a -> has_type t b -> has_type t c ->
  kcompare t (encode t a) (encode t b) = Lt -> kcompare t (encode t b) (encode t c) = Lt ->
  kcompare t (encode t a) (encode t c) = Lt.
Proof.
  intros Hwf Ha Hb Hc. rewrite !compare_is_value_order by assumption. apply (o_trans t (order_ok t)); auto.
Qed.

(* branch_separator: fixed width types keep the whole key, the others use Key::separator *)
Lemma branch_separator_fixed t l r w : fixed_width t = Some w -> branch_separator t l r = l.
Proof. unfold branch_separator. now intros ->. Qed.

Lemma branch_separator_valid t : wf_ty t = true ->
  forall a b, has_type t a -> has_type t b -> vcompare t a b = Lt ->
  let s := branch_separator t (encode t a) (encode t b) in
  exists sv, has_type t sv /\ encode t sv = s /\ vcompare t a sv <> Gt /\ vcompare t sv b = Lt
             /\ (length s <= length (encode t a))%nat
             /\ (forall w, fixed_width t = Some w -> length s = w).
Proof.
  intros Hwf a b Ha Hb Hlt. unfold branch_separator. destruct (fixed_width t) as [w|] eqn:E.
  - destruct (sep_left t a b Ha Hlt) as (sv & S1 & S2 & S3 & S4 & S5). exists sv. cbn zeta.
    repeat split; auto. intros w' Hw'. injection Hw' as <-. now apply encode_fixed_len.
  - destruct (separator_valid t Hwf a b Ha Hb Hlt) as (sv & S1 & S2 & S3 & S4 & S5). exists sv. cbn zeta in *.
    repeat split; auto. discriminate.
Qed.
