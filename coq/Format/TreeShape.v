(* C10 writer model, part 2: from C04's logical B-tree (Btree/Tree.v, abstract keys and values) to the
   tree the writer is given.  Definitions only.

   shape_of kenc venc t w : w is t with every key/value replaced by its byte encoding (Key::as_bytes /
   Value::as_bytes) and SOME page number attached to every node.  Quantifying over w with shape_of t w
   is quantifying over every assignment of page numbers to the nodes of t. *)
From Coq Require Import String.
From RV Require Import Base.Bytes Gen.Consts Format.Xxh3 Format.Codec Format.Pages Format.Records
  Format.KeyCmp Format.Decode Format.WF Format.TreeWriter Btree.Tree.
Open Scope N_scope.

Section Shape.
  Context {K V : Type}.
  Variable kenc : K -> bytes.
  Variable venc : V -> bytes.

  Definition enc_entry (e : K * V) : bytes * bytes := (kenc (fst e), venc (snd e)).

  Inductive shape_of : @node K V -> wtree -> Prop :=
  | shape_leaf p es : shape_of (Leaf es) (WLeaf p (map enc_entry es))
  | shape_branch p c0 rest w0 ws :
      shape_of c0 w0 ->
      Forall2 (fun kc w => shape_of (snd kc) w) rest ws ->
      shape_of (Branch c0 rest) (WBranch p (w0 :: ws) (map (fun kc => kenc (fst kc)) rest)).

  (* an executable page assignment: page numbers handed out in pre-order from a list *)
  Fixpoint place (t : @node K V) (pns : list pagenum) : option (wtree * list pagenum) :=
    match pns with
    | [] => None
    | p :: pns1 =>
        match t with
        | Leaf es => Some (WLeaf p (map enc_entry es), pns1)
        | Branch c0 rest =>
            match place c0 pns1 with
            | None => None
            | Some (w0, pns2) =>
                match (fix go (l : list (K * @node K V)) (q : list pagenum) : option (list wtree * list pagenum) :=
                         match l with
                         | [] => Some ([], q)
                         | (_, c) :: l' =>
                             match place c q with
                             | None => None
                             | Some (w, q') =>
                                 match go l' q' with
                                 | None => None
                                 | Some (ws, q'') => Some (w :: ws, q'')
                                 end
                             end
                         end) rest pns2 with
                | None => None
                | Some (ws, pns3) => Some (WBranch p (w0 :: ws) (map (fun kc => kenc (fst kc)) rest), pns3)
                end
            end
        end
    end.
End Shape.

(* the reader's depth limit as a bool on the writer's input, together with the codec limits *)
Definition writer_okb (f : N) (ks vs : width) (w : wtree) : bool :=
  limits_okb f ks vs w && Nat.ltb (wheight w) DEPTH_FUEL.
