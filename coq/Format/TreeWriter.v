(* C10 writer model, part 1: writing one table tree.  Definitions only.

   wtree     a logical B+tree whose nodes carry the page number they are to be written to
             (keys and values are the encoded byte strings; children and routing keys as the page stores them)
   finalize  = UntypedBtreeMut::finalize_dirty_checksums: bottom-up, a leaf's checksum is XXH3-128 of its
             covered bytes, a branch first receives the checksums of its children, then its own covered
             bytes (which include them) are hashed.  The result is the tree decorated with page number,
             covered length and checksum -- the very type the reader (Format/Decode.v) produces.
   node_bytes / tree_image  the page contents (covered prefix) written for each node: the page encoders of
             Format/Pages.v (LeafBuilder / BranchBuilder layouts)
   encode_tree  the pages and the root BtreeHeader (root page, root checksum, number of entries)
   write_pages  patching the pages into an image at their byte ranges *)
From Coq Require Import String.
From RV Require Import Base.Bytes Gen.Consts Format.Xxh3 Format.Codec Format.Pages Format.Records
  Format.KeyCmp Format.Decode Format.WF.
Open Scope N_scope.

Inductive wtree :=
| WLeaf (p : pagenum) (es : list (bytes * bytes))
| WBranch (p : pagenum) (cs : list wtree) (ks : list bytes).

Definition wpn (t : wtree) : pagenum := match t with WLeaf p _ => p | WBranch p _ _ => p end.

Fixpoint wentries (t : wtree) : list (bytes * bytes) :=
  match t with
  | WLeaf _ es => es
  | WBranch _ cs _ => flat_map wentries cs
  end.

Fixpoint wpages (t : wtree) : list pagenum :=
  match t with
  | WLeaf p _ => [p]
  | WBranch p cs _ => p :: flat_map wpages cs
  end.

Fixpoint wheight (t : wtree) : nat :=
  match t with
  | WLeaf _ _ => O
  | WBranch _ cs _ => S (fold_right (fun c a => Nat.max (wheight c) a) O cs)
  end.

(* ---- the page layouts with the RESERVED bytes explicit.  LeafBuilder / BranchBuilder never write byte 1 of a
   page nor bytes 4..7 of a branch page; they keep what the freshly allocated page memory holds: 0x00 in
   release builds (PagedCachedFile::write(.., overwrite = true) zero-fills) and 0xFF in builds with
   debug_assertions (allocate_helper poisons new pages).  These bytes lie inside the range the checksum
   covers, so the fill byte `f` is a parameter of the writer; readers ignore it.
   encode_leaf_f 0 = Pages.encode_leaf and encode_branch_f 0 = Pages.encode_branch (TreeWriterP.v). *)
Definition encode_leaf_f (f : N) (ks vs : width) (es : list (bytes * bytes)) : bytes :=
  let n := lenN es in
  let keys := map fst es in
  let vals := map snd es in
  let voff := 4 + (match ks with None => 4 * n | Some _ => 0 end) in
  let kstart := voff + (match vs with None => 4 * n | Some _ => 0 end) in
  let kends := ends_of kstart keys in
  let vstart := last_or kends kstart in
  let vends := ends_of vstart vals in
  [LEAF; f] ++ le_encode 2 n
  ++ (match ks with None => u32s kends | Some _ => [] end)
  ++ (match vs with None => u32s vends | Some _ => [] end)
  ++ concat keys ++ concat vals.

Definition encode_branch_f (f : N) (ks : width) (children : list (N * pagenum)) (keys : list bytes) : bytes :=
  let n := lenN keys in
  let cc := n + 1 in
  let eoff := 8 + 24 * cc in
  let kstart := eoff + (match ks with None => 4 * n | Some _ => 0 end) in
  [BRANCH; f] ++ le_encode 2 n ++ [f; f; f; f]
  ++ flat_map (fun c => le_encode 16 (fst c)) children
  ++ flat_map (fun c => encode_pagenum (snd c)) children
  ++ (match ks with None => u32s (ends_of kstart keys) | Some _ => [] end)
  ++ concat keys.

(* the child array of a branch page: (stored checksum, page number) per child *)
Definition child_refs (cs : list (N * tree)) : list (N * pagenum) :=
  map (fun c => (fst c, tree_pn (snd c))) cs.

(* the covered bytes of the page of a (decorated) node *)
Definition node_bytes (f : N) (ks vs : width) (t : tree) : bytes :=
  match t with
  | TLeaf _ _ _ es => encode_leaf_f f ks vs es
  | TBranch _ _ _ cs keys => encode_branch_f f ks (child_refs cs) keys
  end.

(* checksums bottom-up *)
Fixpoint finalize (f : N) (ks vs : width) (t : wtree) : tree :=
  match t with
  | WLeaf p es =>
      let b := encode_leaf_f f ks vs es in
      TLeaf p (lenN b) (xxh3_128 b) es
  | WBranch p cs keys =>
      let ds := map (finalize f ks vs) cs in
      let stored := map (fun d => (tree_sum d, d)) ds in       (* write_child_page(i, page, checksum) *)
      let b := encode_branch_f f ks (child_refs stored) keys in
      TBranch p (lenN b) (xxh3_128 b) stored keys
  end.

(* every page of the tree with the bytes written to it, in pre-order *)
Fixpoint tree_image (f : N) (ks vs : width) (t : tree) : list (pagenum * bytes) :=
  match t with
  | TLeaf p _ _ _ => [(p, node_bytes f ks vs t)]
  | TBranch p _ _ cs _ => (p, node_bytes f ks vs t) :: flat_map (fun c => tree_image f ks vs (snd c)) cs
  end.

Definition tree_header (t : tree) : bhdr :=
  {| bh_root := tree_pn t; bh_sum := tree_sum t; bh_len := lenN (entries t) |}.

Definition encode_tree (f : N) (ks vs : width) (t : wtree) : list (pagenum * bytes) * bhdr :=
  let d := finalize f ks vs t in (tree_image f ks vs d, tree_header d).

(* ---- what the codec needs of a node (u16 entry count, u32 offsets, fixed widths) *)
Definition width_fitsb (w : width) (items : list bytes) : bool :=
  match w with Some x => forallb (fun i => lenN i =? x) items | None => true end.

Definition nonemptyb {A} (l : list A) : bool := match l with [] => false | _ => true end.

Definition TWO16 : N := 65536.
Definition TWO32 : N := 4294967296.

(* length of a branch page's covered bytes: independent of the checksum values *)
Definition wnode_len (f : N) (ks vs : width) (t : wtree) : N :=
  match t with
  | WLeaf _ es => lenN (encode_leaf_f f ks vs es)
  | WBranch _ cs keys => lenN (encode_branch_f f ks (map (fun c => (0, wpn c)) cs) keys)
  end.

Fixpoint limits_okb (f : N) (ks vs : width) (t : wtree) : bool :=
  match t with
  | WLeaf _ es =>
      nonemptyb es && (lenN es <? TWO16) && width_fitsb ks (map fst es) && width_fitsb vs (map snd es)
      && (wnode_len f ks vs t <? TWO32)
  | WBranch _ cs keys =>
      nonemptyb keys && (lenN keys <? TWO16) && Nat.eqb (length cs) (S (length keys)) && width_fitsb ks keys
      && (wnode_len f ks vs t <? TWO32)
      && forallb (limits_okb f ks vs) cs
  end.

(* ---- placement: every node's bytes fit the page it is assigned; the pages are inside the layout and
   the file and pairwise disjoint *)
Fixpoint wnodes (t : wtree) : list wtree :=
  match t with
  | WLeaf _ _ => [t]
  | WBranch _ cs _ => t :: flat_map wnodes cs
  end.

Definition placement_okb (f : N) (g : geom) (file_len : N) (ks vs : width) (t : wtree) : bool :=
  forallb (fun n => wnode_len f ks vs n <=? page_len g (wpn n)) (wnodes t)
  && wf_pagesb g file_len (wpages t).

(* ---- patching pages into an image *)
Definition write_at (bs : bytes) (off : N) (b : bytes) : bytes :=
  takeN bs off ++ b ++ dropN bs (off + lenN b).

Fixpoint write_pages (g : geom) (bs : bytes) (ps : list (pagenum * bytes)) : bytes :=
  match ps with
  | [] => bs
  | (p, b) :: r => write_pages g (write_at bs (page_start g p) b) r
  end.

(* the image holds a page: the page's byte range starts with the written bytes *)
Definition holds (s : store) (pb : pagenum * bytes) : Prop :=
  exists pad, fetch s (fst pb) = Ok (snd pb ++ pad).
