(* C10 writer model, part 3: a whole single-table database image.  Definitions only.

   db1_image f g txid ts master_pn w : the bytes of a database with the region layout g whose primary commit
   slot (slot 0, transaction id txid) names a catalog ("data table tree") consisting of one leaf at
   master_pn with the single entry  table name -> InternalTableDefinition(root header of the table
   tree, length, widths, type names), the table tree w written by encode_tree, an empty system tree
   and an empty secondary slot.  It generalises Format/Example.v (there: one fixed tree). *)
From Coq Require Import String.
From RV Require Import Base.Bytes Gen.Consts Format.Xxh3 Format.Codec Format.Pages Format.Records
  Format.KeyCmp Format.Decode Format.WF Format.TreeWriter Format.TreeShape.
Open Scope N_scope.

Record table_spec := mkTs {
  ts_name : bytes;      (* table name (utf-8) *)
  ts_ktype : bytes;     (* TypeName of the key: classification byte :: name *)
  ts_vtype : bytes;
  ts_ks : width;        (* K::fixed_width() *)
  ts_vs : width
}.

Definition table_def (ts : table_spec) (hdr : bhdr) : tabledef :=
  {| td_kind := TABLE_NORMAL; td_len := bh_len hdr; td_root := Some hdr;
     td_ks := ts_ks ts; td_vs := ts_vs ts; td_kalign := ALIGNMENT; td_valign := ALIGNMENT;
     td_ktype := ts_ktype ts; td_vtype := ts_vtype ts |}.

Definition master_tree (ts : table_spec) (master_pn : pagenum) (hdr : bhdr) : wtree :=
  WLeaf master_pn [(ts_name ts, encode_tabledef (table_def ts hdr))].

Definition db1_header (g : geom) (txid : N) (mhdr : bhdr) : header :=
  {| h_god := 0; h_psz := g_psz g; h_hdr_pages := g_hdr_pages g; h_max_pages := g_max_pages g;
     h_full := g_full g; h_trailing := g_trailing g;
     h_slot0 := make_slot FILE_FORMAT_VERSION3 (Some mhdr) None txid;
     h_slot1 := make_slot FILE_FORMAT_VERSION3 None None 0 |}.

Definition db1_image (f : N) (g : geom) (txid : N) (ts : table_spec) (master_pn : pagenum) (w : wtree) : bytes :=
  let tp := encode_tree f (ts_ks ts) (ts_vs ts) w in
  let mp := encode_tree f None None (master_tree ts master_pn (snd tp)) in
  write_pages g
    (write_at (zeros (N.to_nat (layout_len g))) 0 (encode_header (db1_header g txid (snd mp))))
    (fst mp ++ fst tp).

(* what the reader is expected to return for it *)
Definition db1_decoded (f : N) (g : geom) (txid : N) (ts : table_spec) (master_pn : pagenum) (w : wtree) : db_image :=
  let d := finalize f (ts_ks ts) (ts_vs ts) w in
  let hdr := tree_header d in
  let m := finalize f None None (master_tree ts master_pn hdr) in
  let mhdr := tree_header m in
  let H := db1_header g txid mhdr in
  {| di_header := H; di_file_len := layout_len g; di_geom := g; di_slot_index := 0; di_slot := h_slot0 H;
     di_slot_sum := sl_sum (h_slot0 H); di_other_sum := sl_sum (h_slot1 H);
     di_data := {| fo_root := Some mhdr; fo_tree := Some m;
                   fo_tables := [ {| tb_name := ts_name ts; tb_def := table_def ts hdr; tb_tree := Some d; tb_colls := [] |} ] |};
     di_system := {| fo_root := None; fo_tree := None; fo_tables := [] |} |}.

Definition TWO64 : N := 18446744073709551616.
Definition width_okb (w : width) : bool := match w with Some x => x <? TWO32 | None => true end.

(* the side conditions on the writer's input: a valid geometry, format limits, and a placement of the
   catalog leaf and the tree nodes on pairwise disjoint pages of the layout that are large enough *)
Definition db1_okb (f : N) (g : geom) (txid : N) (ts : table_spec) (master_pn : pagenum) (w : wtree) : bool :=
  let ks := ts_ks ts in
  let vs := ts_vs ts in
  let m := master_tree ts master_pn (snd (encode_tree f ks vs w)) in
  geom_ok g && (g_psz g <? TWO32)
  && writer_okb f ks vs w && writer_okb f None None m
  && forallb (fun n => wnode_len f ks vs n <=? page_len g (wpn n)) (wnodes w)
  && (wnode_len f None None m <=? page_len g master_pn)
  && wf_pagesb g (layout_len g) (master_pn :: wpages w)
  && (lenN (wpages w) <=? total_pages g)
  && (txid <? TWO64) && (lenN (wentries w) <? TWO64)
  && width_okb ks && width_okb vs
  && (1 <=? lenN (ts_ktype ts)) && (lenN (ts_ktype ts) <? TWO32) && (1 <=? lenN (ts_vtype ts)).

(* the entries of a user table as the reader finds them in an image (primary slot) *)
Definition image_table_entries (bs : bytes) (name : bytes) : option (list (bytes * bytes)) :=
  match decode_db bs SlotPrimary with
  | Ok d => match find_table name (fo_tables (di_data d)) with
            | Some t => Some (table_entries (Some t))
            | None => None
            end
  | Err _ _ => None
  end.
