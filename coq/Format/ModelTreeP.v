(* C10 writer model, proofs part 3 (tree level): (b) a tree satisfying C04's invariant, written by the
   writer model to ANY pages of ANY image that then holds those pages, is read back by the reader as the
   finalized tree and satisfies the root/tree clauses of the specification wf_db; (c) in particular the
   tree left by EVERY program of the mutator model of C04 run from the empty table. *)
From Coq Require Import String Sorted.
From RV Require Import Base.Bytes Base.BytesP Base.SortedMap Base.SortedMapP Gen.Consts Format.Xxh3 Format.Xxh3P Format.Codec Format.Pages Format.Records
  Format.KeyCmp Format.Decode Format.DecodeP Format.WF Format.WFP Format.CodecP Format.ChunkP Format.TreeWriter Format.TreeWriterP
  Format.TreeShape Format.TreeShapeP Btree.Tree Btree.TreeP Btree.Read Btree.Mutator Btree.MutatorP Btree.DeleteP Btree.ProgramP.
Open Scope N_scope.

Lemma writer_okb_parts f ks vs w : writer_okb f ks vs w = true -> limits_okb f ks vs w = true /\ (wheight w < DEPTH_FUEL)%nat.
Proof.
  unfold writer_okb. intro H. apply andb_true_iff in H. destruct H as [H1 H2]. split; [exact H1|].
  now apply PeanoNat.Nat.ltb_lt.
Qed.

(* the root header the writer produces and the tree the reader returns, for any written tree *)
Theorem droot_encode_tree f ks vs s w budget :
  geom_ok (st_geom s) = true -> writer_okb f ks vs w = true -> lenN (wpages w) <= budget ->
  Forall (holds s) (fst (encode_tree f ks vs w)) ->
  droot s ks vs (Some (snd (encode_tree f ks vs w))) budget = Ok (Some (finalize f ks vs w), budget - lenN (wpages w)).
Proof.
  intros Hg Hok Hb Hh. destruct (writer_okb_parts _ _ _ _ Hok) as [Hlim Hd].
  unfold encode_tree in *. cbn [fst snd] in *. unfold droot. cbn [tree_header bh_root].
  rewrite finalize_pn. rewrite (dtree_finalize f ks vs s Hg w DEPTH_FUEL budget Hlim Hd Hb Hh). reflexivity.
Qed.

Section ModelTree.
  Context {K V : Type}.
  Variable cmp : K -> K -> comparison.
  Hypothesis laws : OrderLaws cmp.
  Variable kenc : K -> bytes.
  Variable venc : V -> bytes.
  Variable bcmp : cmp_fn.
  Hypothesis Hcmp : forall a b, bcmp (kenc a) (kenc b) = cmp a b.
  Variable f : N.

  Notation shape_of := (@shape_of K V kenc venc).
  Notation enc_entry := (@enc_entry K V kenc venc).

  (* (b) *)
  Theorem written_tree_wf ks vs (t : @node K V) w :
    BTreeInv cmp t -> shape_of t w ->
    let hdr := snd (encode_tree f ks vs w) in
    let d := finalize f ks vs w in
    wf_root (Some bcmp) (Some hdr) (Some d)
    /\ entries d = List.map enc_entry (abs t)
    /\ bh_len hdr = len (abs t)
    /\ tree_pages d = wpages w.
  Proof.
    intros [h Hi] Hs. cbn zeta. unfold encode_tree. cbn [snd].
    assert (He : entries (finalize f ks vs w) = List.map enc_entry (abs t)).
    { rewrite finalize_entries. apply (shape_entries kenc venc). exact Hs. }
    split; [|split; [exact He|split]].
    - cbn [wf_root tree_header bh_root bh_sum bh_len]. repeat split.
      exists h. eapply (inv_wf cmp laws kenc venc bcmp Hcmp f); eauto.
    - cbn [tree_header bh_len]. rewrite He. unfold lenN, len. now rewrite map_length.
    - apply finalize_pages.
  Qed.

  (* (a) + (b): reading back what was written *)
  Theorem written_tree_read_wf ks vs (t : @node K V) w s budget :
    BTreeInv cmp t -> shape_of t w ->
    geom_ok (st_geom s) = true -> writer_okb f ks vs w = true -> lenN (wpages w) <= budget ->
    Forall (holds s) (fst (encode_tree f ks vs w)) ->
    let hdr := snd (encode_tree f ks vs w) in
    exists d,
      droot s ks vs (Some hdr) budget = Ok (Some d, budget - lenN (wpages w))
      /\ wf_root (Some bcmp) (Some hdr) (Some d)
      /\ entries d = List.map enc_entry (abs t)
      /\ bh_len hdr = len (abs t)
      /\ tree_pages d = wpages w.
  Proof.
    intros Hi Hs Hg Hok Hb Hh. cbn zeta. exists (finalize f ks vs w). split.
    - now apply droot_encode_tree.
    - now apply written_tree_wf.
  Qed.

  (* (c): every program of C04's mutator model *)
  Section Programs.
    Variable ksize : K -> N.
    Variable vsize : V -> N.
    Variable fixed_k fixed_v : bool.
    Variable page_size : N.
    Variable sep : K -> K -> K.
    Variable inplace : list (K * V) -> K -> V -> bool.
    Hypothesis Hsep : valid_sep cmp sep.

    Notation run_tree := (run_tree cmp ksize vsize fixed_k fixed_v page_size sep inplace).

    Lemma program_tree_inv (ops : list (@tree_op K V)) : TreeInv cmp (snd (run_tree ops empty_tree)).
    Proof.
      pose proof (program_refines_partial_lemma cmp laws ksize vsize fixed_k fixed_v page_size sep inplace Hsep ops empty_tree) as H.
      destruct (run_tree ops empty_tree) as [xs bt]. apply H. reflexivity.
    Qed.

    Theorem model_tree_wf ks vs (ops : list (@tree_op K V)) t w s budget :
      let bt := snd (run_tree ops empty_tree) in
      bt_root bt = Some t -> shape_of t w ->
      geom_ok (st_geom s) = true -> writer_okb f ks vs w = true -> lenN (wpages w) <= budget ->
      Forall (holds s) (fst (encode_tree f ks vs w)) ->
      let hdr := snd (encode_tree f ks vs w) in
      exists d,
        droot s ks vs (Some hdr) budget = Ok (Some d, budget - lenN (wpages w))
        /\ wf_root (Some bcmp) (Some hdr) (Some d)
        /\ entries d = List.map enc_entry (abs t)
        /\ bh_len hdr = bt_len bt
        /\ tree_pages d = wpages w.
    Proof.
      intros bt Hroot Hs Hg Hok Hb Hh.
      pose proof (program_tree_inv ops) as Hinv. fold bt in Hinv. unfold TreeInv in Hinv. rewrite Hroot in Hinv.
      destruct Hinv as [Hbi Hlen].
      destruct (written_tree_read_wf ks vs t w s budget Hbi Hs Hg Hok Hb Hh) as (d & H1 & H2 & H3 & H4 & H5).
      exists d. split; [exact H1|]. split; [exact H2|]. split; [exact H3|]. split; [|exact H5].
      cbn zeta in H4. rewrite H4. symmetry. exact Hlen.
    Qed.
  End Programs.
End ModelTree.
