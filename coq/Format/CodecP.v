(* C10 proofs, part 2: codec round trips  decode_X (encode_X x) = x  for the structures of the v3
   format.  The encoders are the layouts the current writer produces (reserved bytes zero). *)
From Coq Require Import String.
From RV Require Import Base.Bytes Base.BytesP Gen.Consts Format.Xxh3 Format.Codec Format.Pages Format.Records.
Open Scope N_scope.

(* ---- lists *)
Lemma lenN_cons {A} (x : A) l : lenN (x :: l) = N.succ (lenN l).
Proof. unfold lenN. cbn [length]. apply Nat2N.inj_succ. Qed.

Lemma lenN_nil {A} : lenN (@nil A) = 0.
Proof. reflexivity. Qed.

Lemma lenN_app {A} (a b : list A) : lenN (a ++ b) = lenN a + lenN b.
Proof. unfold lenN. rewrite app_length. apply Nat2N.inj_add. Qed.

Lemma lenN_le_encode w n : lenN (le_encode w n) = N.of_nat w.
Proof. unfold lenN. now rewrite le_encode_length. Qed.

Lemma lenN_zeros n : lenN (zeros n) = N.of_nat n.
Proof. unfold lenN, zeros. now rewrite repeat_length. Qed.

Lemma dropN_0 {A} (l : list A) : dropN l 0 = l.
Proof. destruct l; reflexivity. Qed.

Lemma takeN_0 {A} (l : list A) : takeN l 0 = [].
Proof. destruct l; reflexivity. Qed.

Lemma dropN_succ {A} (x : A) l n : dropN (x :: l) (N.succ n) = dropN l n.
Proof.
  cbn [dropN]. destruct (N.succ n =? 0) eqn:E.
  - apply N.eqb_eq in E. lia.
  - now rewrite N.pred_succ.
Qed.

Lemma takeN_succ {A} (x : A) l n : takeN (x :: l) (N.succ n) = x :: takeN l n.
Proof.
  cbn [takeN]. destruct (N.succ n =? 0) eqn:E.
  - apply N.eqb_eq in E. lia.
  - now rewrite N.pred_succ.
Qed.

Lemma dropN_app {A} (a b : list A) : dropN (a ++ b) (lenN a) = b.
Proof.
  induction a as [|x a IH]; [apply dropN_0|].
  rewrite lenN_cons. cbn [app]. rewrite dropN_succ. exact IH.
Qed.

Lemma takeN_app {A} (a b : list A) : takeN (a ++ b) (lenN a) = a.
Proof.
  induction a as [|x a IH]; [apply takeN_0|].
  rewrite lenN_cons. cbn [app]. rewrite takeN_succ. now rewrite IH.
Qed.

Lemma takeN_all {A} (a : list A) : takeN a (lenN a) = a.
Proof. rewrite <- (app_nil_r a) at 1. apply takeN_app. Qed.

Lemma dropN_app_n {A} (a b : list A) n : lenN a = n -> dropN (a ++ b) n = b.
Proof. intros <-. apply dropN_app. Qed.

Lemma takeN_app_n {A} (a b : list A) n : lenN a = n -> takeN (a ++ b) n = a.
Proof. intros <-. apply takeN_app. Qed.

Lemma sub_at (pre x post : bytes) off w :
  lenN pre = off -> lenN x = w -> sub (pre ++ x ++ post) off w = Some x.
Proof.
  intros Ho Hw. unfold sub. rewrite (dropN_app_n pre _ off Ho). rewrite (takeN_app_n x post w Hw).
  rewrite Hw. now rewrite N.eqb_refl.
Qed.

Lemma sub_at_end (pre x : bytes) off w :
  lenN pre = off -> lenN x = w -> sub (pre ++ x) off w = Some x.
Proof. intros Ho Hw. pose proof (sub_at pre x [] off w Ho Hw) as E. rewrite app_nil_r in E. exact E. Qed.

Lemma u8_at_app (pre : bytes) b post off : lenN pre = off -> u8_at (pre ++ b :: post) off = Some b.
Proof. intros Ho. unfold u8_at. now rewrite (dropN_app_n pre _ off Ho). Qed.

Lemma uint_at_app w (pre post : bytes) n off :
  lenN pre = off -> n < 256 ^ N.of_nat w ->
  uint_at (N.of_nat w) (pre ++ le_encode w n ++ post) off = Some n.
Proof.
  intros Ho Hn. unfold uint_at. rewrite (sub_at pre (le_encode w n) post off (N.of_nat w) Ho (lenN_le_encode w n)).
  now rewrite le_decode_encode.
Qed.

(* ---- PageNumber *)
Lemma land_ones_low a n : N.land a (N.ones n) = a mod 2 ^ n.
Proof. apply N.land_ones. Qed.

Lemma MAX_PAGE_INDEX_ones : MAX_PAGE_INDEX = N.ones 20.
Proof. reflexivity. Qed.

Lemma shiftr_ones a b : b <= a -> N.shiftr (N.ones a) b = N.ones (a - b).
Proof.
  intro H. apply N.bits_inj. intro i. rewrite N.shiftr_spec by lia.
  destruct (N.lt_ge_cases i (a - b)).
  - rewrite !N.ones_spec_low by lia. reflexivity.
  - rewrite !N.ones_spec_high by lia. reflexivity.
Qed.

Theorem codec_roundtrip_pagenum p :
  pn_valid p = true -> decode_pagenum (encode_pagenum p) = Some p.
Proof.
  unfold pn_valid. intro H.
  apply andb_true_iff in H. destruct H as [H H3]. apply andb_true_iff in H. destruct H as [H1 H2].
  apply N.leb_le in H1, H3. apply N.ltb_lt in H2.
  destruct p as [r i o]. cbn [pn_region pn_index pn_order] in *.
  assert (Ho : o <= 20) by exact H1.
  assert (Hr : r < 2 ^ 20) by exact H2.
  rewrite MAX_PAGE_INDEX_ones in H3. rewrite (shiftr_ones 20 o Ho) in H3.
  assert (Hi : i < 2 ^ (20 - o)).
  { rewrite N.ones_equiv in H3. assert (0 < 2 ^ (20 - o)) by (apply N.neq_0_lt_0; apply N.pow_nonzero; lia). lia. }
  assert (Hi20 : i < 2 ^ 20).
  { eapply N.lt_le_trans; [exact Hi|]. apply N.pow_le_mono_r; lia. }
  unfold decode_pagenum, encode_pagenum. rewrite lenN_le_encode. cbn [N.of_nat Pos.of_succ_nat Pos.succ N.eqb Pos.eqb].
  unfold pagenum_to_u64. cbn [pn_region pn_index pn_order].
  rewrite MAX_PAGE_INDEX_ones. rewrite !land_ones_low.
  change 31 with (N.ones 5). rewrite land_ones_low.
  rewrite (N.mod_small i) by exact Hi20. rewrite (N.mod_small r) by exact Hr.
  rewrite (N.mod_small o) by (cbn; lia).
  rewrite !N.shiftl_mul_pow2.
  set (t := i + r * 2 ^ 20 + o * 2 ^ 59).
  assert (Ht : t < 256 ^ N.of_nat 8).
  { unfold t. change (256 ^ N.of_nat 8) with (2 ^ 64). change (2 ^ 64) with (2 ^ 59 * 32).
    assert (i + r * 2 ^ 20 < 2 ^ 59). { change (2^59) with (2^20 * 2^39). nia. } nia. }
  rewrite le_decode_encode by exact Ht.
  unfold pagenum_of_u64. rewrite !MAX_PAGE_INDEX_ones. f_equal.
  assert (Hlow : i + r * 2 ^ 20 < 2 ^ 59) by (change (2^59) with (2^20 * 2^39); nia).
  assert (Eo : N.shiftr t 59 = o).
  { rewrite N.shiftr_div_pow2. unfold t. symmetry. apply (N.div_unique _ _ _ (i + r * 2 ^ 20)); [exact Hlow | lia]. }
  rewrite Eo. f_equal.
  - (* region *)
    rewrite N.shiftr_div_pow2, land_ones_low.
    assert (E1 : t / 2 ^ 20 = r + o * 2 ^ 39).
    { symmetry. apply (N.div_unique _ _ _ i); [exact Hi20|]. unfold t. change (2 ^ 59) with (2 ^ 20 * 2 ^ 39). lia. }
    rewrite E1. symmetry. apply (N.mod_unique _ _ (o * 2 ^ 19)); [exact Hr|]. change (2 ^ 39) with (2 ^ 20 * 2 ^ 19). lia.
  - (* index *)
    rewrite (shiftr_ones 20 o Ho), land_ones_low.
    symmetry. apply (N.mod_unique _ _ ((r + o * 2 ^ 39) * 2 ^ o)); [exact Hi|].
    unfold t. assert (E2 : 2 ^ (20 - o) * 2 ^ o = 2 ^ 20). { rewrite <- N.pow_add_r. f_equal. lia. }
    change (2 ^ 59) with (2 ^ 20 * 2 ^ 39). rewrite <- E2. lia.
Qed.

Lemma lenN_MAGIC : lenN MAGICNUMBER = 9.
Proof. reflexivity. Qed.

(* ---- generic machinery: reading a field out of a concatenation of segments *)
Ltac len_solve :=
  repeat (rewrite ?lenN_app, ?lenN_le_encode, ?lenN_zeros, ?lenN_cons, ?lenN_nil, ?lenN_MAGIC);
  cbn [N.of_nat Pos.of_succ_nat Pos.succ];
  cbv delta [USER_ROOT_OFFSET SYSTEM_ROOT_OFFSET BHDR_SIZE TRANSACTION_ID_OFFSET SLOT_CHECKSUM_OFFSET
             TRANSACTION_SIZE TRANSACTION_0_OFFSET TRANSACTION_1_OFFSET DB_HEADER_SIZE GOD_BYTE_OFFSET
             PAGE_SIZE_OFFSET REGION_HEADER_PAGES_OFFSET REGION_MAX_DATA_PAGES_OFFSET NUM_FULL_REGIONS_OFFSET
             TRAILING_REGION_DATA_PAGES_OFFSET SAVEPOINT_SIZE];
  lia.

Ltac seg_walk :=
  first [ apply sub_at; [len_solve | len_solve]
        | rewrite <- app_assoc; seg_walk ].

(* goal: sub (s1 ++ s2 ++ ... ++ sn) off w = Some x *)
Ltac sub_solve :=
  repeat rewrite app_assoc;
  first [ apply sub_at_end; [len_solve | len_solve] | seg_walk ].

(* ---- BtreeHeader *)
Definition bhdr_ok (h : bhdr) : Prop :=
  pn_valid (bh_root h) = true /\ bh_sum h < 2 ^ 128 /\ bh_len h < 2 ^ 64.

Lemma lenN_encode_pagenum p : lenN (encode_pagenum p) = 8.
Proof. unfold encode_pagenum. now rewrite lenN_le_encode. Qed.

Lemma lenN_encode_bhdr h : lenN (encode_bhdr h) = 32.
Proof. unfold encode_bhdr. rewrite !lenN_app, lenN_encode_pagenum, !lenN_le_encode. reflexivity. Qed.

Theorem codec_roundtrip_bhdr h : bhdr_ok h -> decode_bhdr (encode_bhdr h) = Some h.
Proof.
  intros (Hp & Hs & Hl). unfold decode_bhdr. rewrite lenN_encode_bhdr.
  change (32 =? BHDR_SIZE) with true. cbv iota.
  unfold encode_bhdr.
  rewrite (takeN_app_n (encode_pagenum (bh_root h)) _ 8 (lenN_encode_pagenum _)).
  rewrite (codec_roundtrip_pagenum _ Hp).
  rewrite (dropN_app_n (encode_pagenum (bh_root h)) _ 8 (lenN_encode_pagenum _)).
  rewrite (takeN_app_n (le_encode 16 (bh_sum h)) _ 16 (lenN_le_encode 16 _)).
  rewrite app_assoc.
  rewrite (dropN_app_n (encode_pagenum (bh_root h) ++ le_encode 16 (bh_sum h)) _ 24)
    by (rewrite lenN_app, lenN_encode_pagenum, lenN_le_encode; reflexivity).
  rewrite !le_decode_encode by assumption.
  destruct h; reflexivity.
Qed.

(* ---- commit slot *)
Definition opt_bhdr_ok (o : option bhdr) : Prop := match o with Some h => bhdr_ok h | None => True end.
Definition slot_ok (s : slot) : Prop :=
  sl_version s < 256 /\ opt_bhdr_ok (sl_user s) /\ opt_bhdr_ok (sl_system s)
  /\ sl_txid s < 2 ^ 64 /\ sl_sum s < 2 ^ 128.

Lemma lenN_opt_bhdr_bytes o : lenN (opt_bhdr_bytes o) = 32.
Proof. destruct o; cbn [opt_bhdr_bytes]; [apply lenN_encode_bhdr | apply lenN_zeros]. Qed.

Lemma decode_opt_bhdr_roundtrip o :
  opt_bhdr_ok o -> decode_opt_bhdr (flag_byte o) (opt_bhdr_bytes o) = Some o.
Proof.
  destruct o as [h|]; cbn [flag_byte opt_bhdr_bytes opt_bhdr_ok]; intro H; unfold decode_opt_bhdr.
  - change (1 =? 0) with false. cbv iota. now rewrite codec_roundtrip_bhdr.
  - reflexivity.
Qed.

Lemma lenN_slot_body v u s t : lenN (slot_body v u s t) = 112.
Proof.
  unfold slot_body. rewrite !lenN_app, !lenN_opt_bhdr_bytes, lenN_zeros, lenN_le_encode. reflexivity.
Qed.

Lemma lenN_encode_slot s : lenN (encode_slot s) = 128.
Proof. unfold encode_slot. rewrite lenN_app, lenN_slot_body, lenN_le_encode. reflexivity. Qed.

Theorem codec_roundtrip_slot s : slot_ok s -> decode_slot (encode_slot s) = Some s.
Proof.
  intros (Hv & Hu & Hs & Ht & Hc). unfold decode_slot. rewrite lenN_encode_slot.
  change (128 =? TRANSACTION_SIZE) with true. cbv iota.
  unfold encode_slot, slot_body.
  set (U := opt_bhdr_bytes (sl_user s)). set (S := opt_bhdr_bytes (sl_system s)).
  assert (HU : lenN U = 32) by apply lenN_opt_bhdr_bytes.
  assert (HS : lenN S = 32) by apply lenN_opt_bhdr_bytes.
  set (P := [sl_version s; flag_byte (sl_user s); flag_byte (sl_system s); 0; 0; 0; 0; 0]).
  assert (E0 : u8_at ((P ++ U ++ S ++ zeros 32 ++ le_encode 8 (sl_txid s)) ++ le_encode 16 (sl_sum s)) VERSION_OFFSET = Some (sl_version s)) by reflexivity.
  assert (E1 : u8_at ((P ++ U ++ S ++ zeros 32 ++ le_encode 8 (sl_txid s)) ++ le_encode 16 (sl_sum s)) USER_ROOT_NON_NULL_OFFSET = Some (flag_byte (sl_user s))) by reflexivity.
  assert (E2 : u8_at ((P ++ U ++ S ++ zeros 32 ++ le_encode 8 (sl_txid s)) ++ le_encode 16 (sl_sum s)) SYSTEM_ROOT_NON_NULL_OFFSET = Some (flag_byte (sl_system s))) by reflexivity.
  rewrite E0, E1, E2.
  assert (E3 : sub ((P ++ U ++ S ++ zeros 32 ++ le_encode 8 (sl_txid s)) ++ le_encode 16 (sl_sum s)) USER_ROOT_OFFSET BHDR_SIZE = Some U).
  { unfold P. sub_solve. }
  assert (E4 : sub ((P ++ U ++ S ++ zeros 32 ++ le_encode 8 (sl_txid s)) ++ le_encode 16 (sl_sum s)) SYSTEM_ROOT_OFFSET BHDR_SIZE = Some S).
  { unfold P. sub_solve. }
  assert (E5 : sub ((P ++ U ++ S ++ zeros 32 ++ le_encode 8 (sl_txid s)) ++ le_encode 16 (sl_sum s)) TRANSACTION_ID_OFFSET 8 = Some (le_encode 8 (sl_txid s))).
  { unfold P. sub_solve. }
  assert (E6 : sub ((P ++ U ++ S ++ zeros 32 ++ le_encode 8 (sl_txid s)) ++ le_encode 16 (sl_sum s)) SLOT_CHECKSUM_OFFSET 16 = Some (le_encode 16 (sl_sum s))).
  { unfold P. sub_solve. }
  unfold u64_at, u128_at, uint_at. rewrite E3, E4, E5, E6.
  rewrite !le_decode_encode by assumption.
  unfold U, S. rewrite !decode_opt_bhdr_roundtrip by assumption.
  destruct s; reflexivity.
Qed.

(* ---- database header *)
Definition header_ok (h : header) : Prop :=
  h_god h < 256 /\ h_psz h < 2 ^ 32 /\ h_hdr_pages h < 2 ^ 32 /\ h_max_pages h < 2 ^ 32
  /\ h_full h < 2 ^ 32 /\ h_trailing h < 2 ^ 32 /\ slot_ok (h_slot0 h) /\ slot_ok (h_slot1 h).

Lemma bytes_eqb_refl a : bytes_eqb a a = true.
Proof. unfold bytes_eqb. now rewrite lex_cmp_refl. Qed.

Theorem codec_roundtrip_header h : header_ok h -> decode_header (encode_header h) = Ok h.
Proof.
  intros (Hg & Hp & Hh & Hm & Hf & Ht & H0 & H1).
  unfold decode_header, encode_header.
  set (S0 := encode_slot (h_slot0 h)). set (S1 := encode_slot (h_slot1 h)).
  assert (HS0 : lenN S0 = 128) by apply lenN_encode_slot.
  assert (HS1 : lenN S1 = 128) by apply lenN_encode_slot.
  set (b := MAGICNUMBER ++ [h_god h; 0; 0] ++ le_encode 4 (h_psz h) ++ le_encode 4 (h_hdr_pages h)
            ++ le_encode 4 (h_max_pages h) ++ le_encode 4 (h_full h) ++ le_encode 4 (h_trailing h)
            ++ zeros 32 ++ S0 ++ S1).
  assert (Hlen : lenN b = 320).
  { unfold b. rewrite !lenN_app, lenN_MAGIC, !lenN_le_encode, lenN_zeros, HS0, HS1. reflexivity. }
  rewrite Hlen. change (DB_HEADER_SIZE <=? 320) with true. cbn [guard bind].
  assert (Em : takeN b (lenN MAGICNUMBER) = MAGICNUMBER) by (unfold b; apply takeN_app).
  rewrite Em, bytes_eqb_refl. cbn [guard bind].
  assert (Eg : u8_at b GOD_BYTE_OFFSET = Some (h_god h)) by reflexivity.
  assert (E1 : u32_at b PAGE_SIZE_OFFSET = Some (h_psz h)).
  { unfold u32_at, uint_at. assert (E : sub b PAGE_SIZE_OFFSET 4 = Some (le_encode 4 (h_psz h))) by (unfold b; sub_solve).
    rewrite E. now rewrite le_decode_encode. }
  assert (E2 : u32_at b REGION_HEADER_PAGES_OFFSET = Some (h_hdr_pages h)).
  { unfold u32_at, uint_at. assert (E : sub b REGION_HEADER_PAGES_OFFSET 4 = Some (le_encode 4 (h_hdr_pages h))) by (unfold b; sub_solve).
    rewrite E. now rewrite le_decode_encode. }
  assert (E3 : u32_at b REGION_MAX_DATA_PAGES_OFFSET = Some (h_max_pages h)).
  { unfold u32_at, uint_at. assert (E : sub b REGION_MAX_DATA_PAGES_OFFSET 4 = Some (le_encode 4 (h_max_pages h))) by (unfold b; sub_solve).
    rewrite E. now rewrite le_decode_encode. }
  assert (E4 : u32_at b NUM_FULL_REGIONS_OFFSET = Some (h_full h)).
  { unfold u32_at, uint_at. assert (E : sub b NUM_FULL_REGIONS_OFFSET 4 = Some (le_encode 4 (h_full h))) by (unfold b; sub_solve).
    rewrite E. now rewrite le_decode_encode. }
  assert (E5 : u32_at b TRAILING_REGION_DATA_PAGES_OFFSET = Some (h_trailing h)).
  { unfold u32_at, uint_at. assert (E : sub b TRAILING_REGION_DATA_PAGES_OFFSET 4 = Some (le_encode 4 (h_trailing h))) by (unfold b; sub_solve).
    rewrite E. now rewrite le_decode_encode. }
  assert (E6 : sub b TRANSACTION_0_OFFSET TRANSACTION_SIZE = Some S0) by (unfold b; sub_solve).
  assert (E7 : sub b TRANSACTION_1_OFFSET TRANSACTION_SIZE = Some S1) by (unfold b; sub_solve).
  rewrite Eg, E1, E2, E3, E4, E5, E6, E7.
  unfold S0, S1. rewrite !codec_roundtrip_slot by assumption.
  destruct h; reflexivity.
Qed.

Lemma u8_at_sub l off b : sub l off 1 = Some [b] -> u8_at l off = Some b.
Proof.
  unfold sub, u8_at. destruct (dropN l off) as [|c r]; cbn.
  - discriminate.
  - rewrite takeN_0. cbn. intro H. inversion H. reflexivity.
Qed.

(* ---- table definition *)
Definition width_ok (o : width) : Prop := match o with Some w => w < 2 ^ 32 | None => True end.
Definition tabledef_ok (t : tabledef) : Prop :=
  (td_kind t = TABLE_NORMAL \/ td_kind t = TABLE_MULTIMAP) /\ td_len t < 2 ^ 64 /\ opt_bhdr_ok (td_root t)
  /\ width_ok (td_ks t) /\ width_ok (td_vs t) /\ td_kalign t < 2 ^ 32 /\ td_valign t < 2 ^ 32
  /\ 1 <= lenN (td_ktype t) < 2 ^ 32 /\ 1 <= lenN (td_vtype t).

Definition wval (o : width) : N := match o with Some w => w | None => 0 end.
Lemma opt_u32_bytes_shape o : opt_u32_bytes o = [flag_byte o] ++ le_encode 4 (wval o).
Proof. destruct o; reflexivity. Qed.

Lemma decode_width_roundtrip o : decode_width (flag_byte o) (wval o) = o.
Proof. destruct o; reflexivity. Qed.

Theorem codec_roundtrip_tabledef t : tabledef_ok t -> decode_tabledef (encode_tabledef t) = Ok t.
Proof.
  intros (Hk & Hl & Hr & Hks & Hvs & Hka & Hva & [Hkt1 Hkt2] & Hvt).
  unfold decode_tabledef, encode_tabledef. rewrite !opt_u32_bytes_shape.
  set (R := opt_bhdr_bytes (td_root t)).
  assert (HR : lenN R = 32) by apply lenN_opt_bhdr_bytes.
  set (KT := td_ktype t) in *. set (VT := td_vtype t) in *.
  set (b := [td_kind t] ++ le_encode 8 (td_len t) ++ [flag_byte (td_root t)] ++ R
            ++ ([flag_byte (td_ks t)] ++ le_encode 4 (wval (td_ks t)))
            ++ ([flag_byte (td_vs t)] ++ le_encode 4 (wval (td_vs t)))
            ++ le_encode 4 (td_kalign t) ++ le_encode 4 (td_valign t) ++ le_encode 4 (lenN KT) ++ KT ++ VT).
  assert (Hwk : wval (td_ks t) < 2 ^ 32) by (destruct (td_ks t); cbn in *; lia).
  assert (Hwv : wval (td_vs t) < 2 ^ 32) by (destruct (td_vs t); cbn in *; lia).
  assert (E0 : u8_at b 0 = Some (td_kind t)) by reflexivity.
  assert (E1 : u64_at b 1 = Some (td_len t)).
  { unfold u64_at, uint_at. assert (E : sub b 1 8 = Some (le_encode 8 (td_len t))) by (unfold b; sub_solve).
    rewrite E. now rewrite le_decode_encode. }
  assert (E2 : u8_at b 9 = Some (flag_byte (td_root t))) by (apply u8_at_sub; unfold b; sub_solve).
  assert (E3 : sub b 10 BHDR_SIZE = Some R) by (unfold b; sub_solve).
  assert (E4 : u8_at b 42 = Some (flag_byte (td_ks t))) by (apply u8_at_sub; unfold b; sub_solve).
  assert (E5 : u32_at b 43 = Some (wval (td_ks t))).
  { unfold u32_at, uint_at. assert (E : sub b 43 4 = Some (le_encode 4 (wval (td_ks t)))) by (unfold b; sub_solve).
    rewrite E. now rewrite le_decode_encode. }
  assert (E6 : u8_at b 47 = Some (flag_byte (td_vs t))) by (apply u8_at_sub; unfold b; sub_solve).
  assert (E7 : u32_at b 48 = Some (wval (td_vs t))).
  { unfold u32_at, uint_at. assert (E : sub b 48 4 = Some (le_encode 4 (wval (td_vs t)))) by (unfold b; sub_solve).
    rewrite E. now rewrite le_decode_encode. }
  assert (E8 : u32_at b 52 = Some (td_kalign t)).
  { unfold u32_at, uint_at. assert (E : sub b 52 4 = Some (le_encode 4 (td_kalign t))) by (unfold b; sub_solve).
    rewrite E. now rewrite le_decode_encode. }
  assert (E9 : u32_at b 56 = Some (td_valign t)).
  { unfold u32_at, uint_at. assert (E : sub b 56 4 = Some (le_encode 4 (td_valign t))) by (unfold b; sub_solve).
    rewrite E. now rewrite le_decode_encode. }
  assert (E10 : u32_at b 60 = Some (lenN KT)).
  { unfold u32_at, uint_at. assert (E : sub b 60 4 = Some (le_encode 4 (lenN KT))) by (unfold b; sub_solve).
    rewrite E. now rewrite le_decode_encode. }
  assert (E11 : sub b 64 (lenN KT) = Some KT) by (unfold b; sub_solve).
  assert (E12 : dropN b (64 + lenN KT) = VT).
  { unfold b. repeat rewrite app_assoc. apply dropN_app_n. len_solve. }
  rewrite E0, E1, E2, E3, E4, E5, E6, E7, E8, E9, E10.
  assert (Eg : (td_kind t =? TABLE_NORMAL) || (td_kind t =? TABLE_MULTIMAP) = true).
  { destruct Hk as [-> | ->]; reflexivity. }
  rewrite Eg. cbn [guard bind].
  unfold R. rewrite decode_opt_bhdr_roundtrip by assumption. cbn [of_opt bind].
  rewrite E11. cbn [of_opt bind]. rewrite E12.
  assert (Eg2 : (1 <=? lenN KT) && (1 <=? lenN VT) = true).
  { apply andb_true_iff. split; apply N.leb_le; assumption. }
  rewrite Eg2. cbn [guard bind].
  rewrite !decode_width_roundtrip. destruct t; reflexivity.
Qed.

(* ---- arrays of fixed-width items inside a concatenation *)
Lemma pn_rt p : pn_valid p = true -> pagenum_of_u64 (le_decode (encode_pagenum p)) = p.
Proof.
  intro H. pose proof (codec_roundtrip_pagenum p H) as E. unfold decode_pagenum in E.
  rewrite lenN_encode_pagenum in E. change (8 =? 8) with true in E. cbv iota in E. injection E as E'. exact E'.
Qed.

Lemma read_pagenums_app l : forall pre post,
  Forall (fun p => pn_valid p = true) l ->
  read_pagenums (pre ++ flat_map encode_pagenum l ++ post) (lenN pre) (length l) = Some l.
Proof.
  induction l as [|p l IH]; intros pre post Hv; [reflexivity|].
  inversion Hv as [|? ? Hp Hl]; subst.
  cbn [flat_map length read_pagenums].
  assert (E : u64_at (pre ++ (encode_pagenum p ++ flat_map encode_pagenum l) ++ post) (lenN pre)
              = Some (le_decode (encode_pagenum p))).
  { unfold u64_at, uint_at. rewrite <- app_assoc.
    rewrite (sub_at pre (encode_pagenum p) _ (lenN pre) 8 eq_refl (lenN_encode_pagenum p)). reflexivity. }
  rewrite E.
  assert (E2 : pre ++ (encode_pagenum p ++ flat_map encode_pagenum l) ++ post
               = (pre ++ encode_pagenum p) ++ flat_map encode_pagenum l ++ post).
  { now rewrite <- !app_assoc. }
  rewrite E2.
  assert (E3 : lenN pre + 8 = lenN (pre ++ encode_pagenum p)) by (rewrite lenN_app, lenN_encode_pagenum; reflexivity).
  rewrite E3, (IH _ _ Hl). now rewrite pn_rt.
Qed.

Lemma read_u32s_app l : forall pre post,
  Forall (fun x => x < 2 ^ 32) l ->
  read_u32s (pre ++ u32s l ++ post) (lenN pre) (length l) = Some l.
Proof.
  induction l as [|x l IH]; intros pre post Hv; [reflexivity|].
  inversion Hv as [|? ? Hx Hl]; subst.
  unfold u32s in *. cbn [flat_map length read_u32s].
  assert (E : u32_at (pre ++ (le_encode 4 x ++ flat_map (le_encode 4) l) ++ post) (lenN pre) = Some x).
  { unfold u32_at. rewrite <- app_assoc. apply (uint_at_app 4); auto. }
  rewrite E.
  assert (E2 : pre ++ (le_encode 4 x ++ flat_map (le_encode 4) l) ++ post
               = (pre ++ le_encode 4 x) ++ flat_map (le_encode 4) l ++ post).
  { now rewrite <- !app_assoc. }
  rewrite E2.
  assert (E3 : lenN pre + 4 = lenN (pre ++ le_encode 4 x)) by (rewrite lenN_app, lenN_le_encode; reflexivity).
  rewrite E3, (IH _ _ Hl). reflexivity.
Qed.

Lemma read_sums_app (l : list N) : forall pre post,
  Forall (fun x => x < 2 ^ 128) l ->
  read_sums (pre ++ flat_map (le_encode 16) l ++ post) (lenN pre) (length l) = Some l.
Proof.
  induction l as [|x l IH]; intros pre post Hv; [reflexivity|].
  inversion Hv as [|? ? Hx Hl]; subst.
  cbn [flat_map length read_sums].
  assert (E : u128_at (pre ++ (le_encode 16 x ++ flat_map (le_encode 16) l) ++ post) (lenN pre) = Some x).
  { unfold u128_at. rewrite <- app_assoc. apply (uint_at_app 16); auto. }
  rewrite E.
  assert (E2 : pre ++ (le_encode 16 x ++ flat_map (le_encode 16) l) ++ post
               = (pre ++ le_encode 16 x) ++ flat_map (le_encode 16) l ++ post).
  { now rewrite <- !app_assoc. }
  rewrite E2.
  assert (E3 : lenN pre + 16 = lenN (pre ++ le_encode 16 x)) by (rewrite lenN_app, lenN_le_encode; reflexivity).
  rewrite E3, (IH _ _ Hl). reflexivity.
Qed.

(* ---- page list *)
Theorem codec_roundtrip_page_list l :
  Forall (fun p => pn_valid p = true) l -> lenN l < 2 ^ 16 ->
  decode_page_list (encode_page_list l) = Ok l.
Proof.
  intros Hv Hn. unfold decode_page_list, encode_page_list.
  assert (E : u16_at (le_encode 2 (lenN l) ++ flat_map encode_pagenum l) 0 = Some (lenN l)).
  { unfold u16_at. apply (uint_at_app 2 [] _ (lenN l) 0); auto. }
  rewrite E. cbn [of_opt bind].
  replace (N.to_nat (lenN l)) with (length l) by (unfold lenN; now rewrite Nat2N.id).
  pose proof (read_pagenums_app l (le_encode 2 (lenN l)) [] Hv) as R.
  rewrite app_nil_r, lenN_le_encode in R. change (N.of_nat 2) with 2 in R. rewrite R. reflexivity.
Qed.

(* ---- savepoint record *)
Definition savepoint_ok (s : savepoint) : Prop :=
  sp_version s = FILE_FORMAT_VERSION3 /\ sp_id s < 2 ^ 64 /\ sp_txid s < 2 ^ 64 /\ opt_bhdr_ok (sp_root s).

Theorem codec_roundtrip_savepoint s : savepoint_ok s -> decode_savepoint (encode_savepoint s) = Ok s.
Proof.
  intros (Hv & Hi & Ht & Hr). unfold decode_savepoint, encode_savepoint.
  set (R := opt_bhdr_bytes (sp_root s)).
  assert (HR : lenN R = 32) by apply lenN_opt_bhdr_bytes.
  set (b := [sp_version s] ++ le_encode 8 (sp_id s) ++ le_encode 8 (sp_txid s) ++ [flag_byte (sp_root s)] ++ R).
  assert (Hlen : lenN b = SAVEPOINT_SIZE).
  { unfold b. rewrite !lenN_app, !lenN_le_encode, HR. reflexivity. }
  rewrite Hlen, N.eqb_refl. cbn [guard bind].
  assert (E0 : u8_at b 0 = Some (sp_version s)) by reflexivity.
  assert (E1 : u64_at b 1 = Some (sp_id s)).
  { unfold u64_at, uint_at. assert (E : sub b 1 8 = Some (le_encode 8 (sp_id s))) by (unfold b; sub_solve).
    rewrite E. now rewrite le_decode_encode. }
  assert (E2 : u64_at b 9 = Some (sp_txid s)).
  { unfold u64_at, uint_at. assert (E : sub b 9 8 = Some (le_encode 8 (sp_txid s))) by (unfold b; sub_solve).
    rewrite E. now rewrite le_decode_encode. }
  assert (E3 : u8_at b 17 = Some (flag_byte (sp_root s))) by (apply u8_at_sub; unfold b; sub_solve).
  assert (E4 : sub b 18 BHDR_SIZE = Some R) by (unfold b; sub_solve).
  rewrite E0, E1, E2, E3, E4. rewrite Hv, N.eqb_refl. cbn [guard bind].
  assert (Ef : flag_byte (sp_root s) <=? 1 = true) by (destruct (sp_root s); reflexivity).
  rewrite Ef. cbn [guard bind].
  unfold R. rewrite decode_opt_bhdr_roundtrip by assumption. cbn [of_opt bind].
  destruct s; cbn in *; subst; reflexivity.
Qed.

(* ---- multimap value collection, page-list keys, allocator-state keys *)
Theorem codec_roundtrip_collection c :
  match c with CollInline _ => True | CollSubtree h => bhdr_ok h end ->
  decode_collection (encode_collection c) = Ok c.
Proof.
  destruct c as [lf | h]; intro H; cbn [encode_collection decode_collection].
  - reflexivity.
  - change (COLL_SUBTREE =? COLL_INLINE) with false. rewrite N.eqb_refl. cbv iota.
    replace BHDR_SIZE with (lenN (encode_bhdr h)) by apply lenN_encode_bhdr.
    rewrite takeN_all. now rewrite codec_roundtrip_bhdr.
Qed.

Theorem codec_roundtrip_txn_page_key k :
  fst k < 2 ^ 64 -> snd k < 2 ^ 64 -> decode_txn_page_key (encode_txn_page_key k) = Some k.
Proof.
  intros H1 H2. unfold decode_txn_page_key, encode_txn_page_key.
  rewrite lenN_app, !lenN_le_encode. cbn [N.of_nat Pos.of_succ_nat Pos.succ N.add Pos.add N.eqb Pos.eqb]. 
  rewrite (takeN_app_n (le_encode 8 (fst k)) _ 8 (lenN_le_encode 8 _)).
  rewrite (dropN_app_n (le_encode 8 (fst k)) _ 8 (lenN_le_encode 8 _)).
  rewrite !le_decode_encode by assumption. destruct k; reflexivity.
Qed.

Theorem codec_roundtrip_alloc_key k :
  match k with AKRegion r => r < 2 ^ 32 | AKDeprecated => True | _ => True end ->
  decode_alloc_key (encode_alloc_key k) = Some k.
Proof.
  destruct k as [|r| |]; intro H; try reflexivity.
  unfold decode_alloc_key, encode_alloc_key. rewrite lenN_cons, lenN_le_encode.
  cbn [N.of_nat Pos.of_succ_nat Pos.succ N.succ N.eqb Pos.eqb].
  change (ALLOC_KEY_REGION <? ALLOC_KEY_REGION) with false. rewrite N.eqb_refl. cbv iota.
  now rewrite le_decode_encode.
Qed.

(* ---- leaf and branch pages *)
Lemma ends_of_length s items : length (ends_of s items) = length items.
Proof. revert s; induction items; intros; cbn; auto. Qed.

Lemma last_ends_of_ne items : forall s d, items <> [] -> last (ends_of s items) d = s + lenN (concat items).
Proof.
  induction items as [|x r IH]; intros s d Hne; [congruence|].
  destruct r as [|y r'].
  - cbn. rewrite app_nil_r. reflexivity.
  - change (ends_of s (x :: y :: r')) with ((s + lenN x) :: ends_of (s + lenN x) (y :: r')).
    assert (E : exists a l, ends_of (s + lenN x) (y :: r') = a :: l) by (eexists; eexists; reflexivity).
    destruct E as (a & l & E). rewrite E. change (last ((s + lenN x) :: a :: l) d) with (last (a :: l) d).
    rewrite <- E. rewrite IH by discriminate.
    change (concat (x :: y :: r')) with (x ++ concat (y :: r')). rewrite lenN_app. lia.
Qed.

Lemma last_ends_of items : forall s, last (ends_of s items) s = s + lenN (concat items).
Proof.
  intros s. destruct items as [|x r].
  - cbn. lia.
  - apply last_ends_of_ne. discriminate.
Qed.

Lemma last_default_irrelevant {A} (l : list A) a b : l <> [] -> last l a = last l b.
Proof. induction l as [|x [|y r] IH]; intro H; [congruence | reflexivity | ]. cbn [last] in *. apply IH. discriminate. Qed.

Lemma cut_ends_of items : forall pre post,
  cut (pre ++ concat items ++ post) (lenN pre) (ends_of (lenN pre) items) = Some items.
Proof.
  induction items as [|x r IH]; intros pre post; [reflexivity|].
  cbn [ends_of concat cut].
  assert (E0 : lenN pre <=? lenN pre + lenN x = true) by (apply N.leb_le; lia). rewrite E0.
  replace (lenN pre + lenN x - lenN pre) with (lenN x) by lia.
  rewrite <- app_assoc.
  rewrite (sub_at pre x _ (lenN pre) (lenN x) eq_refl eq_refl).
  assert (E2 : pre ++ x ++ concat r ++ post = (pre ++ x) ++ concat r ++ post) by now rewrite <- app_assoc.
  rewrite E2. rewrite <- lenN_app. now rewrite IH.
Qed.

Lemma fixed_ends_ends_of w items : forall s,
  Forall (fun x => lenN x = w) items -> fixed_ends (length items) s w = ends_of s items.
Proof.
  induction items as [|x r IH]; intros s H; [reflexivity|].
  inversion H; subst. cbn [length fixed_ends ends_of]. f_equal. now apply IH.
Qed.

Lemma lenN_u32s l : lenN (u32s l) = 4 * lenN l.
Proof.
  induction l as [|x l IH]; [reflexivity|].
  unfold u32s in *. cbn [flat_map]. rewrite lenN_app, lenN_le_encode, IH, lenN_cons. lia.
Qed.

Lemma lenN_map {A B} (f : A -> B) l : lenN (map f l) = lenN l.
Proof. unfold lenN. now rewrite map_length. Qed.

Lemma lenN_ends_of s items : lenN (ends_of s items) = lenN items.
Proof. unfold lenN. now rewrite ends_of_length. Qed.

Lemma combine_fst_snd {A B} (l : list (A * B)) : combine (map fst l) (map snd l) = l.
Proof. induction l as [|[a b] l IH]; cbn; [reflexivity | now rewrite IH]. Qed.

Lemma ends_of_bound items : forall s m, s + lenN (concat items) <= m -> Forall (fun e => e <= m) (ends_of s items).
Proof.
  induction items as [|x r IH]; intros s m H; cbn [ends_of]; constructor.
  - cbn [concat] in H. rewrite lenN_app in H. lia.
  - apply IH. cbn [concat] in H. rewrite lenN_app in H. lia.
Qed.

Definition width_fits (w : width) (items : list bytes) : Prop :=
  match w with Some x => Forall (fun i => lenN i = x) items | None => True end.

(* size of the end-offset array of n items *)
Definition ends_bytes (w : width) (n : N) : N := match w with None => 4 * n | Some _ => 0 end.

Theorem codec_roundtrip_leaf ks vs es pad :
  es <> [] -> lenN es < 2 ^ 16 ->
  width_fits ks (map fst es) -> width_fits vs (map snd es) ->
  lenN (encode_leaf ks vs es) < 2 ^ 32 ->
  decode_leaf ks vs (encode_leaf ks vs es ++ pad)
  = Ok {| lf_entries := es; lf_end := lenN (encode_leaf ks vs es) |}.
Proof.
  intros Hne Hn Hks Hvs Htot.
  unfold encode_leaf in *.
  set (n := lenN es) in *. set (keys := map fst es) in *. set (vals := map snd es) in *.
  set (voff := 4 + ends_bytes ks n).
  set (kstart := voff + ends_bytes vs n).
  change (4 + match ks with None => 4 * n | Some _ => 0 end) with voff in *.
  change (voff + match vs with None => 4 * n | Some _ => 0 end) with kstart in *.
  set (kends := ends_of kstart keys) in *.
  set (vstart := last_or kends kstart) in *.
  set (vends := ends_of vstart vals) in *.
  set (KE := match ks with None => u32s kends | Some _ => [] end) in *.
  set (VE := match vs with None => u32s vends | Some _ => [] end) in *.
  assert (Hnk : lenN keys = n) by (unfold keys; apply lenN_map).
  assert (Hnv : lenN vals = n) by (unfold vals; apply lenN_map).
  assert (HKE : lenN KE = ends_bytes ks n).
  { unfold KE, ends_bytes. destruct ks; [reflexivity|]. rewrite lenN_u32s. unfold kends. now rewrite lenN_ends_of, Hnk. }
  assert (HVE : lenN VE = ends_bytes vs n).
  { unfold VE, ends_bytes. destruct vs; [reflexivity|]. rewrite lenN_u32s. unfold vends. now rewrite lenN_ends_of, Hnv. }
  set (H4 := [LEAF; 0] ++ le_encode 2 n).
  assert (HH4 : lenN H4 = 4) by reflexivity.
  assert (Hvstart : vstart = kstart + lenN (concat keys)).
  { unfold vstart, last_or, kends. apply last_ends_of. }
  assert (Hend : last_or vends vstart = vstart + lenN (concat vals)).
  { unfold last_or, vends. apply last_ends_of. }
  assert (Hlen : lenN ((([LEAF; 0] ++ le_encode 2 n ++ KE ++ VE ++ concat keys ++ concat vals))) = vstart + lenN (concat vals)).
  { rewrite !lenN_app, lenN_le_encode, HKE, HVE, Hvstart. unfold kstart, voff. cbn [lenN length N.of_nat Pos.of_succ_nat Pos.succ]. lia. }
  rewrite Hlen in *.
  (* the page *)
  set (page := ([LEAF; 0] ++ le_encode 2 n ++ KE ++ VE ++ concat keys ++ concat vals) ++ pad).
  unfold decode_leaf.
  assert (E0 : u8_at page 0 = Some LEAF) by reflexivity. rewrite E0. cbn [of_opt bind].
  rewrite N.eqb_refl. cbn [guard bind].
  assert (E1 : u16_at page 2 = Some n).
  { unfold u16_at, uint_at. assert (E : sub page 2 2 = Some (le_encode 2 n)) by (unfold page; sub_solve).
    change (N.of_nat 2) with 2 in *. rewrite E. now rewrite le_decode_encode. }
  rewrite E1. cbn [of_opt bind].
  assert (Hn1 : 1 <=? n = true).
  { apply N.leb_le. unfold n. destruct es; [congruence|]. rewrite lenN_cons. lia. }
  rewrite Hn1. cbn [guard bind].
  assert (Hnn : N.to_nat n = length keys) by (rewrite <- Hnk; unfold lenN; now rewrite Nat2N.id).
  assert (Hnn2 : N.to_nat n = length vals) by (rewrite <- Hnv; unfold lenN; now rewrite Nat2N.id).
  fold voff. fold kstart.
  change (4 + match ks with None => 4 * n | Some _ => 0 end) with voff.
  change (voff + match vs with None => 4 * n | Some _ => 0 end) with kstart.
  (* key ends *)
  assert (Hkb : Forall (fun e => e < 2 ^ 32) kends).
  { eapply Forall_impl; [|apply (ends_of_bound keys kstart (vstart + lenN (concat vals)))]; [intros; cbn beta in *; lia | lia]. }
  assert (Hvb : Forall (fun e => e < 2 ^ 32) vends).
  { eapply Forall_impl; [|apply (ends_of_bound vals vstart (vstart + lenN (concat vals)))]; [intros; cbn beta in *; lia | lia]. }
  assert (EK : match ks with
               | Some w => Ok (fixed_ends (N.to_nat n) kstart w)
               | None => of_opt (read_u32s page 4 (N.to_nat n)) "leaf: key end array out of range"
               end = Ok kends).
  { destruct ks as [w|].
    - rewrite Hnn. unfold kends. f_equal. apply fixed_ends_ends_of. exact Hks.
    - assert (R : read_u32s page 4 (N.to_nat n) = Some kends).
      { unfold page, KE. rewrite Hnn, <- (ends_of_length kstart keys). fold kends.
        replace 4 with (lenN H4) by exact HH4.
        replace (([LEAF; 0] ++ le_encode 2 n ++ u32s kends ++ VE ++ concat keys ++ concat vals) ++ pad)
          with (H4 ++ u32s kends ++ (VE ++ concat keys ++ concat vals ++ pad))
          by (unfold H4; now rewrite <- !app_assoc).
        apply read_u32s_app. exact Hkb. }
      rewrite R. reflexivity. }
  rewrite EK. cbn [bind]. fold vstart.
  assert (EV : match vs with
               | Some w => Ok (fixed_ends (N.to_nat n) vstart w)
               | None => of_opt (read_u32s page voff (N.to_nat n)) "leaf: value end array out of range"
               end = Ok vends).
  { destruct vs as [w|].
    - rewrite Hnn2. unfold vends. f_equal. apply fixed_ends_ends_of. exact Hvs.
    - assert (R : read_u32s page voff (N.to_nat n) = Some vends).
      { unfold page, VE. rewrite Hnn2, <- (ends_of_length vstart vals). fold vends.
        replace voff with (lenN (H4 ++ KE)) by (rewrite lenN_app, HH4, HKE; reflexivity).
        replace (([LEAF; 0] ++ le_encode 2 n ++ KE ++ u32s vends ++ concat keys ++ concat vals) ++ pad)
          with ((H4 ++ KE) ++ u32s vends ++ (concat keys ++ concat vals ++ pad))
          by (unfold H4; now rewrite <- !app_assoc).
        apply read_u32s_app. exact Hvb. }
      rewrite R. reflexivity. }
  rewrite EV. cbn [bind].
  assert (CK : cut page kstart kends = Some keys).
  { unfold page, kends.
    replace kstart with (lenN (H4 ++ KE ++ VE)) by (rewrite !lenN_app, HH4, HKE, HVE; unfold kstart, voff; lia).
    replace (([LEAF; 0] ++ le_encode 2 n ++ KE ++ VE ++ concat keys ++ concat vals) ++ pad)
      with ((H4 ++ KE ++ VE) ++ concat keys ++ (concat vals ++ pad))
      by (unfold H4; now rewrite <- !app_assoc).
    apply cut_ends_of. }
  rewrite CK. cbn [of_opt bind].
  assert (CV : cut page vstart vends = Some vals).
  { unfold page, vends.
    replace vstart with (lenN ((H4 ++ KE ++ VE) ++ concat keys))
      by (rewrite !lenN_app, HH4, HKE, HVE, Hvstart; unfold kstart, voff; lia).
    replace (([LEAF; 0] ++ le_encode 2 n ++ KE ++ VE ++ concat keys ++ concat vals) ++ pad)
      with (((H4 ++ KE ++ VE) ++ concat keys) ++ concat vals ++ pad)
      by (unfold H4; now rewrite <- !app_assoc).
    apply cut_ends_of. }
  rewrite CV. cbn [of_opt bind].
  unfold keys, vals. rewrite combine_fst_snd. rewrite Hend. reflexivity.
Qed.

Lemma flat_map_map {A B C} (f : B -> list C) (g : A -> B) l : flat_map (fun x => f (g x)) l = flat_map f (map g l).
Proof. induction l; cbn; [reflexivity | now rewrite IHl]. Qed.

Lemma lenN_flat_map_const {A} (f : A -> bytes) w l :
  (forall x, lenN (f x) = w) -> lenN (flat_map f l) = w * lenN l.
Proof.
  intro H. induction l as [|x l IH]; [cbn; lia|].
  cbn [flat_map]. rewrite lenN_app, H, IH, lenN_cons. lia.
Qed.

Theorem codec_roundtrip_branch ks children keys pad :
  keys <> [] -> lenN keys < 2 ^ 16 -> length children = S (length keys) ->
  Forall (fun c => fst c < 2 ^ 128 /\ pn_valid (snd c) = true) children ->
  width_fits ks keys ->
  lenN (encode_branch ks children keys) < 2 ^ 32 ->
  decode_branch ks (encode_branch ks children keys ++ pad)
  = Ok {| br_children := children; br_keys := keys; br_end := lenN (encode_branch ks children keys) |}.
Proof.
  intros Hne Hn Hcc Hch Hks Htot.
  unfold encode_branch in *.
  set (n := lenN keys) in *.
  set (eoff := 8 + 24 * (n + 1)) in *.
  set (kstart := eoff + ends_bytes ks n).
  change (eoff + match ks with None => 4 * n | Some _ => 0 end) with kstart in *.
  set (kends := ends_of kstart keys) in *.
  set (KE := match ks with None => u32s kends | Some _ => [] end) in *.
  rewrite (flat_map_map (le_encode 16) fst children) in *.
  rewrite (flat_map_map encode_pagenum snd children) in *.
  set (sums := map fst children) in *. set (pns := map snd children) in *.
  assert (Hcn : lenN children = n + 1).
  { unfold lenN, n. rewrite Hcc. rewrite Nat2N.inj_succ. unfold lenN. lia. }
  assert (Hsn : lenN sums = n + 1) by (unfold sums; now rewrite lenN_map).
  assert (Hpn : lenN pns = n + 1) by (unfold pns; now rewrite lenN_map).
  set (SB := flat_map (le_encode 16) sums) in *. set (PB := flat_map encode_pagenum pns) in *.
  assert (HSB : lenN SB = 16 * (n + 1)).
  { unfold SB. rewrite (lenN_flat_map_const (le_encode 16) 16); [now rewrite Hsn|]. intro; apply lenN_le_encode. }
  assert (HPB : lenN PB = 8 * (n + 1)).
  { unfold PB. rewrite (lenN_flat_map_const encode_pagenum 8); [now rewrite Hpn|]. intro; apply lenN_encode_pagenum. }
  assert (HKE : lenN KE = ends_bytes ks n).
  { unfold KE, ends_bytes. destruct ks; [reflexivity|]. rewrite lenN_u32s. unfold kends. now rewrite lenN_ends_of. }
  set (H8 := [BRANCH; 0] ++ le_encode 2 n ++ [0; 0; 0; 0]).
  assert (HH8 : lenN H8 = 8) by reflexivity.
  assert (Hend : last_or kends kstart = kstart + lenN (concat keys)).
  { unfold last_or, kends. apply last_ends_of. }
  assert (Hlen : lenN ([BRANCH; 0] ++ le_encode 2 n ++ [0; 0; 0; 0] ++ SB ++ PB ++ KE ++ concat keys) = kstart + lenN (concat keys)).
  { rewrite !lenN_app, lenN_le_encode, HSB, HPB, HKE. unfold kstart, eoff. cbn [lenN length N.of_nat Pos.of_succ_nat Pos.succ]. lia. }
  rewrite Hlen in *.
  set (page := ([BRANCH; 0] ++ le_encode 2 n ++ [0; 0; 0; 0] ++ SB ++ PB ++ KE ++ concat keys) ++ pad).
  unfold decode_branch.
  assert (E0 : u8_at page 0 = Some BRANCH) by reflexivity. rewrite E0. cbn [of_opt bind].
  rewrite N.eqb_refl. cbn [guard bind].
  assert (E1 : u16_at page 2 = Some n).
  { unfold u16_at, uint_at. assert (E : sub page 2 2 = Some (le_encode 2 n)) by (unfold page; sub_solve).
    change (N.of_nat 2) with 2 in *. rewrite E. now rewrite le_decode_encode. }
  rewrite E1. cbn [of_opt bind].
  assert (Hn1 : 1 <=? n = true).
  { apply N.leb_le. unfold n. destruct keys; [congruence|]. rewrite lenN_cons. lia. }
  rewrite Hn1. cbn [guard bind].
  assert (Hnn : N.to_nat n = length keys) by (unfold n, lenN; now rewrite Nat2N.id).
  assert (Hls : S (N.to_nat n) = length sums) by (unfold sums; rewrite map_length, Hcc, Hnn; reflexivity).
  assert (Hlp : S (N.to_nat n) = length pns) by (unfold pns; rewrite map_length, Hcc, Hnn; reflexivity).
  assert (RS : read_sums page 8 (S (N.to_nat n)) = Some sums).
  { rewrite Hls. unfold page. replace 8 with (lenN H8) by exact HH8.
    replace (([BRANCH; 0] ++ le_encode 2 n ++ [0; 0; 0; 0] ++ SB ++ PB ++ KE ++ concat keys) ++ pad)
      with (H8 ++ SB ++ (PB ++ KE ++ concat keys ++ pad)) by (unfold H8; now rewrite <- !app_assoc).
    apply read_sums_app. unfold sums. rewrite Forall_map. eapply Forall_impl; [|exact Hch]. intros c [H _]; exact H. }
  rewrite RS. cbn [of_opt bind].
  assert (RP : read_pagenums page (8 + 16 * (n + 1)) (S (N.to_nat n)) = Some pns).
  { rewrite Hlp. unfold page. replace (8 + 16 * (n + 1)) with (lenN (H8 ++ SB)) by (rewrite lenN_app, HH8, HSB; reflexivity).
    replace (([BRANCH; 0] ++ le_encode 2 n ++ [0; 0; 0; 0] ++ SB ++ PB ++ KE ++ concat keys) ++ pad)
      with ((H8 ++ SB) ++ PB ++ (KE ++ concat keys ++ pad)) by (unfold H8; now rewrite <- !app_assoc).
    apply read_pagenums_app. unfold pns. rewrite Forall_map. eapply Forall_impl; [|exact Hch]. intros c [_ H]; exact H. }
  rewrite RP. cbn [of_opt bind].
  fold eoff. fold kstart.
  change (eoff + match ks with None => 4 * n | Some _ => 0 end) with kstart.
  assert (Hkb : Forall (fun e => e < 2 ^ 32) kends).
  { eapply Forall_impl; [|apply (ends_of_bound keys kstart (kstart + lenN (concat keys)))]; [intros; cbn beta in *; lia | lia]. }
  assert (EK : match ks with
               | Some w => Ok (fixed_ends (N.to_nat n) kstart w)
               | None => of_opt (read_u32s page eoff (N.to_nat n)) "branch: key end array out of range"
               end = Ok kends).
  { destruct ks as [w|].
    - rewrite Hnn. unfold kends. f_equal. apply fixed_ends_ends_of. exact Hks.
    - assert (R : read_u32s page eoff (N.to_nat n) = Some kends).
      { unfold page, KE. rewrite Hnn, <- (ends_of_length kstart keys). fold kends.
        replace eoff with (lenN (H8 ++ SB ++ PB)) by (rewrite !lenN_app, HH8, HSB, HPB; unfold eoff; lia).
        replace (([BRANCH; 0] ++ le_encode 2 n ++ [0; 0; 0; 0] ++ SB ++ PB ++ u32s kends ++ concat keys) ++ pad)
          with ((H8 ++ SB ++ PB) ++ u32s kends ++ (concat keys ++ pad))
          by (unfold H8; now rewrite <- !app_assoc).
        apply read_u32s_app. exact Hkb. }
      rewrite R. reflexivity. }
  rewrite EK. cbn [bind].
  assert (CK : cut page kstart kends = Some keys).
  { unfold page, kends.
    replace kstart with (lenN (H8 ++ SB ++ PB ++ KE)) by (rewrite !lenN_app, HH8, HSB, HPB, HKE; unfold kstart, eoff; lia).
    replace (([BRANCH; 0] ++ le_encode 2 n ++ [0; 0; 0; 0] ++ SB ++ PB ++ KE ++ concat keys) ++ pad)
      with ((H8 ++ SB ++ PB ++ KE) ++ concat keys ++ pad)
      by (unfold H8; now rewrite <- !app_assoc).
    apply cut_ends_of. }
  rewrite CK. cbn [of_opt bind].
  unfold sums, pns. rewrite combine_fst_snd. rewrite Hend. reflexivity.
Qed.
