(* C10 writer model, proofs part 2: the tree invariant C04 proves of its mutator model implies the
   well-formedness clauses of WF.v for the finalized (written, read back) tree. *)
From Coq Require Import String Sorted.
From RV Require Import Base.Bytes Base.BytesP Base.SortedMap Base.SortedMapP Gen.Consts Format.Xxh3 Format.Xxh3P Format.Codec Format.Pages Format.Records
  Format.KeyCmp Format.Decode Format.DecodeP Format.WF Format.WFP Format.CodecP Format.ChunkP Format.TreeWriter Format.TreeWriterP
  Format.TreeShape Btree.Tree Btree.TreeP.
Open Scope N_scope.

Section ShapeP.
  Context {K V : Type}.
  Variable cmp : K -> K -> comparison.
  Hypothesis laws : OrderLaws cmp.
  Variable kenc : K -> bytes.
  Variable venc : V -> bytes.
  Variable bcmp : cmp_fn.
  Hypothesis Hcmp : forall a b, bcmp (kenc a) (kenc b) = cmp a b.
  Variable f : N.
  Variable ks vs : width.

  Notation node := (@node K V).
  Notation shape_of := (@shape_of K V kenc venc).
  Notation enc_entry := (@enc_entry K V kenc venc).
  Notation oc := (Some bcmp).
  Notation fin := (finalize f ks vs).

  (* ---- contents *)
  Lemma Forall2_len {A B} (R : A -> B -> Prop) l1 l2 : Forall2 R l1 l2 -> length l1 = length l2.
  Proof. induction 1; cbn; congruence. Qed.

  Lemma Forall2_flat_map {A B C D} (R : A -> B -> Prop) (fm : A -> list C) (g : B -> list D) (h : C -> D) l1 l2 :
    Forall2 R l1 l2 -> (forall a b, In a l1 -> R a b -> g b = List.map h (fm a)) ->
    flat_map g l2 = List.map h (flat_map fm l1).
  Proof.
    induction 1 as [|a b l1 l2 Hab Hl IH]; intro Hf; [reflexivity|].
    cbn [flat_map]. rewrite map_app, (Hf a b) by (cbn; auto). rewrite IH; [reflexivity|].
    intros; apply Hf; cbn; auto.
  Qed.

  Lemma shape_entries : forall t w, shape_of t w -> wentries w = List.map enc_entry (abs t).
  Proof.
    induction t as [es|c0 rest IH0 IHr] using node_ind2; intros w Hs; inversion Hs; subst.
    - reflexivity.
    - cbn [wentries flat_map abs]. rewrite map_app. rewrite (IH0 _ H1). f_equal.
      apply (Forall2_flat_map (fun kc w => shape_of (snd kc) w) (fun p => abs (snd p))); [assumption|].
      intros a b Hin Hab. rewrite Forall_forall in IHr. apply (IHr a Hin). exact Hab.
  Qed.

  Lemma shape_height_both :
    (forall h lo hi t, inv cmp h lo hi t -> forall w, shape_of t w -> wheight w = h) /\
    (forall h lo hi c rest, chain cmp h lo hi c rest -> forall w0 ws, shape_of c w0 ->
        Forall2 (fun kc w => shape_of (snd kc) w) rest ws ->
        fold_right (fun c a => Nat.max (wheight c) a) O (w0 :: ws) = h).
  Proof.
    apply (inv_chain_ind K V cmp
      (fun h lo hi t _ => forall w, shape_of t w -> wheight w = h)
      (fun h lo hi c rest _ => forall w0 ws, shape_of c w0 -> Forall2 (fun kc w => shape_of (snd kc) w) rest ws ->
          fold_right (fun c a => Nat.max (wheight c) a) O (w0 :: ws) = h)).
    - intros lo0 hi0 es _ _ _ w Hs. inversion Hs; reflexivity.
    - intros h0 lo0 hi0 c0 rest _ _ IH w Hs. inversion Hs; subst. cbn [wheight]. f_equal. now apply IH.
    - intros h0 lo0 hi0 c _ IH w0 ws Hs Hf. inversion Hf; subst. cbn [fold_right]. rewrite (IH _ Hs). lia.
    - intros h0 lo0 hi0 c s c' rest _ IH1 _ IH2 w0 ws Hs Hf. inversion Hf as [|? w1 ? ws' Hs1 Hf']; subst.
      cbn [snd] in Hs1. change (fold_right (fun c a => Nat.max (wheight c) a) O (w0 :: w1 :: ws'))
        with (Nat.max (wheight w0) (fold_right (fun c a => Nat.max (wheight c) a) O (w1 :: ws'))).
      rewrite (IH1 _ Hs), (IH2 _ _ Hs1 Hf'). lia.
  Qed.

  Lemma shape_height h lo hi t w : inv cmp h lo hi t -> shape_of t w -> wheight w = h.
  Proof. intros Hi Hs. exact (proj1 shape_height_both h lo hi t Hi w Hs). Qed.

  (* ---- order facts transported to the encodings *)
  Lemma keys_fin w : keys (fin w) = List.map fst (wentries w).
  Proof. unfold keys. now rewrite finalize_entries. Qed.

  Lemma keys_shape t w : shape_of t w -> keys (fin w) = List.map kenc (List.map fst (abs t)).
  Proof.
    intro Hs. rewrite keys_fin, (shape_entries _ _ Hs), !map_map. reflexivity.
  Qed.

  Lemma sorted_increasing (es : list (K * V)) : sorted cmp es -> increasing oc (List.map fst (List.map enc_entry es)).
  Proof.
    induction 1 as [|e es Hs IH Hf]; [exact I|].
    destruct es as [|e2 es']; [exact I|].
    cbn [List.map increasing]. split; [|exact IH].
    inversion Hf; subst. cbn [klt fst enc_entry]. now rewrite Hcmp.
  Qed.

  Lemma chain_sep_lt h s hi (c' c'' : node) s' r : chain cmp h (Some s) hi c' ((s', c'') :: r) -> cmp s s' = Lt.
  Proof.
    intro H. inversion H; subst.
    match goal with Hi : Tree.inv cmp h (Some s) (Some s') c' |- _ =>
      pose proof (inv_nonempty cmp laws _ _ _ _ Hi) as Hne; pose proof (inv_bounds cmp laws _ _ _ _ Hi) as Hb end.
    destruct (abs c') as [|e l]; [congruence|]. inversion Hb as [|? ? [Hlo Hhi] _]; subst.
    cbn in Hlo, Hhi. eapply (cmp_lt_le_trans cmp laws); eauto.
  Qed.

  (* ---- the invariant of C04 gives the wf clauses of the finalized tree *)
  Lemma wf_stored h (ws : list wtree) :
    Forall (fun w => wf_tree oc (fin w) h) ws ->
    Forall (fun c : N * tree => wf_tree oc (snd c) h) (List.map (fun d => (tree_sum d, d)) (List.map fin ws)).
  Proof. intro H. rewrite !Forall_map. exact H. Qed.

  Lemma sums_stored (ds : list tree) :
    Forall (fun c : N * tree => fst c = tree_sum (snd c)) (List.map (fun d => (tree_sum d, d)) ds).
  Proof. rewrite Forall_map. apply Forall_forall. reflexivity. Qed.

  Lemma inv_wf_both :
    (forall h lo hi t, inv cmp h lo hi t -> forall w, shape_of t w -> wf_tree oc (fin w) h) /\
    (forall h lo hi c rest, chain cmp h lo hi c rest -> forall w0 ws, shape_of c w0 ->
        Forall2 (fun kc w => shape_of (snd kc) w) rest ws ->
        Forall (fun w => wf_tree oc (fin w) h) (w0 :: ws)
        /\ seps_ok oc (List.map fin (w0 :: ws)) (List.map (fun kc => kenc (fst kc)) rest)
        /\ increasing oc (List.map (fun kc => kenc (fst kc)) rest)).
  Proof.
    apply (inv_chain_ind K V cmp
      (fun h lo hi t _ => forall w, shape_of t w -> wf_tree oc (fin w) h)
      (fun h lo hi c rest _ => forall w0 ws, shape_of c w0 -> Forall2 (fun kc w => shape_of (snd kc) w) rest ws ->
          Forall (fun w => wf_tree oc (fin w) h) (w0 :: ws)
          /\ seps_ok oc (List.map fin (w0 :: ws)) (List.map (fun kc => kenc (fst kc)) rest)
          /\ increasing oc (List.map (fun kc => kenc (fst kc)) rest))).
    - (* leaf *)
      intros lo0 hi0 es Hne Hs _ w Hw. inversion Hw; subst. cbn [finalize]. constructor.
      + destruct es; cbn; congruence.
      + now apply sorted_increasing.
    - (* branch *)
      intros h0 lo0 hi0 c0 rest Hne Hc IH w Hw. inversion Hw as [|p c0' rest' w0 ws Hs0 Hf]; subst.
      destruct (IH _ _ Hs0 Hf) as (Hall & Hseps & Hinc).
      cbn [finalize]. constructor.
      + destruct rest; cbn; congruence.
      + rewrite !map_length. cbn [length]. f_equal. symmetry. eapply Forall2_len; eauto.
      + now apply wf_stored.
      + apply sums_stored.
      + rewrite map_snd_stored. exact Hseps.
      + exact Hinc.
    - (* chain_last *)
      intros h0 lo0 hi0 c Hi0 IH w0 ws Hs Hf. inversion Hf; subst. cbn [List.map]. repeat split; auto.
    - (* chain_cons *)
      intros h0 lo0 hi0 c s c' rest Hi0 IH1 Hc IH2 w0 ws Hs Hf.
      inversion Hf as [|? w1 ? ws' Hs1 Hf']; subst. cbn [snd] in Hs1.
      destruct (IH2 _ _ Hs1 Hf') as (Hall & Hseps & Hinc).
      split; [constructor; auto|]. split.
      + cbn [List.map fst]. change (List.map fin (w1 :: ws')) with (fin w1 :: List.map fin ws') in Hseps.
        cbn [seps_ok]. split; [|split; [|exact Hseps]].
        * rewrite (keys_shape _ _ Hs), !Forall_map.
          eapply Forall_impl; [|exact (inv_bounds cmp laws _ _ _ _ Hi0)].
          intros e [_ Hhi]. cbn in Hhi. cbn [kle]. now rewrite Hcmp.
        * rewrite (keys_shape _ _ Hs1), !Forall_map.
          pose proof (chain_bounds cmp laws _ _ _ _ _ Hc) as Hb. apply Forall_app in Hb. destruct Hb as [Hb _].
          eapply Forall_impl; [|exact Hb]. intros e [Hlo _]. cbn in Hlo. cbn [klt]. now rewrite Hcmp.
      + cbn [List.map fst]. destruct rest as [|[s' c''] r]; [exact I|].
        cbn [List.map fst increasing] in *. split; [|exact Hinc].
        cbn [klt]. rewrite Hcmp. eapply chain_sep_lt; eauto.
  Qed.

  Theorem inv_wf h lo hi t w : inv cmp h lo hi t -> shape_of t w -> wf_tree oc (fin w) h.
  Proof. intros Hi Hs. exact (proj1 inv_wf_both h lo hi t Hi w Hs). Qed.

End ShapeP.

Section PlaceP.
  Context {K V : Type}.
  Variable kenc : K -> bytes.
  Variable venc : V -> bytes.
  Notation shape_of := (@shape_of K V kenc venc).
  Notation place := (@place K V kenc venc).

  (* the executable pre-order page assignment is one of the assignments quantified over *)
  Lemma place_shape : forall t pns w r, place t pns = Some (w, r) -> shape_of t w.
  Proof.
    induction t as [es|c0 rest IH0 IHr] using node_ind2; intros pns w r Hp.
    - destruct pns as [|p pns]; [discriminate|]. cbn in Hp. inversion Hp; subst. constructor.
    - destruct pns as [|p pns]; [discriminate|]. cbn [TreeShape.place] in Hp.
      destruct (place c0 pns) as [[w0 q0]|] eqn:E0; [|discriminate].
      match type of Hp with match ?go rest q0 with _ => _ end = _ => destruct (go rest q0) as [[ws q1]|] eqn:Eg; [|discriminate] end.
      inversion Hp; subst. constructor; [eapply IH0; eauto|].
      clear Hp E0 IH0. revert q0 ws r Eg.
      induction IHr as [|[k c] l Hc _ IHl]; intros q0 ws r Eg.
      + inversion Eg; subst. constructor.
      + destruct (place c q0) as [[w1 q']|] eqn:E1; [|discriminate].
        match type of Eg with match ?go l q' with _ => _ end = _ => destruct (go l q') as [[ws' q'']|] eqn:Eg'; [|discriminate] end.
        inversion Eg; subst. constructor; [cbn [snd]; eapply Hc; eauto|]. eapply IHl; eauto.
  Qed.
End PlaceP.
