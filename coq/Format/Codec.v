(* v3 file format, part 1: byte slicing, integers, PageNumber, BtreeHeader, commit slot, database
   header, region layout and page addresses.  Written from docs/design.md and the codecs
   (header.rs, base.rs, layout.rs, btree_base.rs); shares no code with redb.  Definitions only. *)
From Coq Require Import String.
From RV Require Import Base.Bytes Gen.Consts Format.Xxh3.
Open Scope N_scope.

(* Err msg loc: loc is a numeric context (usually region, index, order of the page concerned) *)
Inductive result (A : Type) : Type :=
| Ok (a : A)
| Err (msg : string) (loc : list N).
Arguments Ok {A} a.
Arguments Err {A} msg loc.

Definition bind {A B} (r : result A) (f : A -> result B) : result B :=
  match r with Ok a => f a | Err m l => Err m l end.
Notation "'do' x <- r ; k" := (bind r (fun x => k)) (at level 200, x pattern, r at level 100, k at level 200).

Definition of_opt {A} (o : option A) (msg : string) : result A :=
  match o with Some a => Ok a | None => Err msg [] end.
Definition guard (b : bool) (msg : string) : result unit := if b then Ok tt else Err msg [].
(* attach a location to an error that has none yet *)
Definition at_loc {A} (loc : list N) (r : result A) : result A :=
  match r with Err m [] => Err m loc | _ => r end.

(* ---- slicing *)
Definition lenN {A} (l : list A) : N := N.of_nat (length l).

Fixpoint dropN {A} (l : list A) (n : N) : list A :=
  match l with
  | [] => []
  | _ :: r => if n =? 0 then l else dropN r (N.pred n)
  end.

Fixpoint takeN {A} (l : list A) (n : N) : list A :=
  match l with
  | [] => []
  | x :: r => if n =? 0 then [] else x :: takeN r (N.pred n)
  end.

(* exactly len bytes at off, or None *)
Definition sub (l : bytes) (off len : N) : option bytes :=
  let s := takeN (dropN l off) len in
  if lenN s =? len then Some s else None.

Definition u8_at (l : bytes) (off : N) : option N :=
  match dropN l off with b :: _ => Some b | [] => None end.
Definition uint_at (w : N) (l : bytes) (off : N) : option N :=
  match sub l off w with Some s => Some (le_decode s) | None => None end.
Definition u16_at := uint_at 2.
Definition u32_at := uint_at 4.
Definition u64_at := uint_at 8.
Definition u128_at := uint_at 16.

Definition zeros (n : nat) : bytes := repeat 0 n.

(* ---- PageNumber: low 20 bits index (only 20-order read), next 20 bits region, top 5 bits order *)
Record pagenum := mkPn { pn_region : N; pn_index : N; pn_order : N }.

Definition pagenum_eqb (a b : pagenum) : bool :=
  (pn_region a =? pn_region b) && (pn_index a =? pn_index b) && (pn_order a =? pn_order b).

Definition pn_valid (p : pagenum) : bool :=
  (pn_order p <=? MAX_MAX_PAGE_ORDER) && (pn_region p <? MAX_REGIONS)
  && (pn_index p <=? N.shiftr MAX_PAGE_INDEX (pn_order p)).

Definition pagenum_to_u64 (p : pagenum) : N :=
  N.land (pn_index p) MAX_PAGE_INDEX
  + N.shiftl (N.land (pn_region p) MAX_PAGE_INDEX) 20
  + N.shiftl (N.land (pn_order p) 31) 59.

Definition pagenum_of_u64 (t : N) : pagenum :=
  let order := N.shiftr t 59 in
  {| pn_region := N.land (N.shiftr t 20) MAX_PAGE_INDEX;
     pn_index := N.land t (N.shiftr MAX_PAGE_INDEX order);
     pn_order := order |}.

Definition encode_pagenum (p : pagenum) : bytes := le_encode 8 (pagenum_to_u64 p).
Definition decode_pagenum (b : bytes) : option pagenum :=
  if lenN b =? 8 then Some (pagenum_of_u64 (le_decode b)) else None.

(* ---- BtreeHeader: root page number (8), checksum (16), length (8) *)
Record bhdr := mkBh { bh_root : pagenum; bh_sum : N; bh_len : N }.

Definition BHDR_SIZE : N := 32.
Definition encode_bhdr (h : bhdr) : bytes :=
  encode_pagenum (bh_root h) ++ le_encode 16 (bh_sum h) ++ le_encode 8 (bh_len h).
Definition decode_bhdr (b : bytes) : option bhdr :=
  if lenN b =? BHDR_SIZE then
    match decode_pagenum (takeN b 8) with
    | Some p => Some {| bh_root := p; bh_sum := le_decode (takeN (dropN b 8) 16); bh_len := le_decode (dropN b 24) |}
    | None => None
    end
  else None.

(* ---- commit slot (128 bytes) *)
Record slot := mkSlot {
  sl_version : N;
  sl_user : option bhdr;
  sl_system : option bhdr;
  sl_txid : N;
  sl_sum : N          (* stored slot checksum *)
}.

Definition opt_bhdr_bytes (o : option bhdr) : bytes :=
  match o with Some h => encode_bhdr h | None => zeros 32 end.
Definition flag_byte {A} (o : option A) : N := match o with Some _ => 1 | None => 0 end.

(* the first SLOT_CHECKSUM_OFFSET (112) bytes of a slot, as the current writer lays them out *)
Definition slot_body (version : N) (user system : option bhdr) (txid : N) : bytes :=
  [version; flag_byte user; flag_byte system; 0; 0; 0; 0; 0]
  ++ opt_bhdr_bytes user ++ opt_bhdr_bytes system ++ zeros 32 ++ le_encode 8 txid.

Definition encode_slot (s : slot) : bytes :=
  slot_body (sl_version s) (sl_user s) (sl_system s) (sl_txid s) ++ le_encode 16 (sl_sum s).

(* a slot whose checksum is the hash of its body, as a correct writer produces *)
Definition make_slot (version : N) (user system : option bhdr) (txid : N) : slot :=
  {| sl_version := version; sl_user := user; sl_system := system; sl_txid := txid;
     sl_sum := xxh3_128 (slot_body version user system txid) |}.

Definition decode_opt_bhdr (flag : N) (b : bytes) : option (option bhdr) :=
  if flag =? 0 then Some None
  else match decode_bhdr b with Some h => Some (Some h) | None => None end.

Definition decode_slot (b : bytes) : option slot :=
  if lenN b =? TRANSACTION_SIZE then
    match u8_at b VERSION_OFFSET, u8_at b USER_ROOT_NON_NULL_OFFSET, u8_at b SYSTEM_ROOT_NON_NULL_OFFSET,
          sub b USER_ROOT_OFFSET BHDR_SIZE, sub b SYSTEM_ROOT_OFFSET BHDR_SIZE,
          u64_at b TRANSACTION_ID_OFFSET, u128_at b SLOT_CHECKSUM_OFFSET with
    | Some v, Some fu, Some fs, Some ub, Some sb, Some tx, Some ck =>
        match decode_opt_bhdr fu ub, decode_opt_bhdr fs sb with
        | Some u, Some s => Some {| sl_version := v; sl_user := u; sl_system := s; sl_txid := tx; sl_sum := ck |}
        | _, _ => None
        end
    | _, _, _, _, _, _, _ => None
    end
  else None.

(* checksum of the bytes a slot's checksum covers *)
Definition slot_sum_computed (b : bytes) : N := xxh3_128 (takeN b SLOT_CHECKSUM_OFFSET).

(* ---- database header (first DB_HEADER_SIZE = 320 bytes) *)
Record header := mkHeader {
  h_god : N;
  h_psz : N;
  h_hdr_pages : N;       (* region header pages *)
  h_max_pages : N;       (* region max data pages *)
  h_full : N;            (* number of full regions *)
  h_trailing : N;        (* data pages in trailing partial region *)
  h_slot0 : slot;
  h_slot1 : slot
}.

Definition encode_header (h : header) : bytes :=
  MAGICNUMBER ++ [h_god h; 0; 0]
  ++ le_encode 4 (h_psz h) ++ le_encode 4 (h_hdr_pages h) ++ le_encode 4 (h_max_pages h)
  ++ le_encode 4 (h_full h) ++ le_encode 4 (h_trailing h) ++ zeros 32
  ++ encode_slot (h_slot0 h) ++ encode_slot (h_slot1 h).

Definition bytes_eqb (a b : bytes) : bool :=
  match lex_cmp a b with Eq => true | _ => false end.

Definition decode_header (b : bytes) : result header :=
  do _ <- guard (DB_HEADER_SIZE <=? lenN b) "file shorter than the database header";
  do _ <- guard (bytes_eqb (takeN b (lenN MAGICNUMBER)) MAGICNUMBER) "bad magic number";
  match u8_at b GOD_BYTE_OFFSET, u32_at b PAGE_SIZE_OFFSET, u32_at b REGION_HEADER_PAGES_OFFSET,
        u32_at b REGION_MAX_DATA_PAGES_OFFSET, u32_at b NUM_FULL_REGIONS_OFFSET,
        u32_at b TRAILING_REGION_DATA_PAGES_OFFSET,
        sub b TRANSACTION_0_OFFSET TRANSACTION_SIZE, sub b TRANSACTION_1_OFFSET TRANSACTION_SIZE with
  | Some god, Some psz, Some hp, Some mp, Some fr, Some tr, Some b0, Some b1 =>
      match decode_slot b0, decode_slot b1 with
      | Some s0, Some s1 =>
          Ok {| h_god := god; h_psz := psz; h_hdr_pages := hp; h_max_pages := mp; h_full := fr;
                h_trailing := tr; h_slot0 := s0; h_slot1 := s1 |}
      | _, _ => Err "commit slot does not decode" []
      end
  | _, _, _, _, _, _, _, _ => Err "header fields out of range" []
  end.

Definition god_primary (god : N) : N := N.land god PRIMARY_BIT.            (* 0 or 1 *)
Definition god_recovery (god : N) : bool := negb (N.land god RECOVERY_REQUIRED =? 0).
Definition god_2pc (god : N) : bool := negb (N.land god TWO_PHASE_COMMIT =? 0).

(* ---- layout *)
Record geom := mkGeom {
  g_psz : N; g_hdr_pages : N; g_max_pages : N; g_full : N; g_trailing : N
}.

Definition region_len (g : geom) : N := (g_hdr_pages g + g_max_pages g) * g_psz g.
Definition num_regions (g : geom) : N := g_full g + (if g_trailing g =? 0 then 0 else 1).
Definition region_pages (g : geom) (r : N) : N :=
  if r <? g_full g then g_max_pages g
  else if (r =? g_full g) && negb (g_trailing g =? 0) then g_trailing g else 0.
Definition layout_len (g : geom) : N :=
  g_psz g + g_full g * region_len g
  + (if g_trailing g =? 0 then 0 else (g_hdr_pages g + g_trailing g) * g_psz g).

(* DatabaseLayout::recalculate: the layout implied by a file length *)
Definition geom_of_len (psz hdr_pages max_pages file_len : N) : geom :=
  let remaining := file_len - psz in
  let rl := (hdr_pages + max_pages) * psz in
  let full := remaining / rl in
  let remaining := remaining - full * rl in
  let trailing := if (hdr_pages + 1) * psz <=? remaining then (remaining - hdr_pages * psz) / psz else 0 in
  {| g_psz := psz; g_hdr_pages := hdr_pages; g_max_pages := max_pages; g_full := full; g_trailing := trailing |}.

Definition geom_of_header (h : header) : geom :=
  {| g_psz := h_psz h; g_hdr_pages := h_hdr_pages h; g_max_pages := h_max_pages h;
     g_full := h_full h; g_trailing := h_trailing h |}.

Definition geom_ok (g : geom) : bool :=
  (DB_HEADER_SIZE <=? g_psz g) && (1 <=? g_max_pages g) && (g_max_pages g <=? MAX_PAGE_INDEX + 1)
  && (g_hdr_pages g <=? MAX_PAGE_INDEX + 1) && (g_trailing g <=? g_max_pages g)
  && (1 <=? num_regions g) && (num_regions g <=? MAX_REGIONS).

Definition page_pages (p : pagenum) : N := N.shiftl 1 (pn_order p).      (* order-0 pages covered *)
Definition page_len (g : geom) (p : pagenum) : N := g_psz g * page_pages p.
Definition page_start (g : geom) (p : pagenum) : N :=
  g_psz g + pn_region p * region_len g + g_hdr_pages g * g_psz g + pn_index p * page_len g p.
Definition page_end (g : geom) (p : pagenum) : N := page_start g p + page_len g p.

Definition in_layout (g : geom) (p : pagenum) : bool :=
  (pn_order p <=? MAX_MAX_PAGE_ORDER) && (pn_region p <? num_regions g)
  && ((pn_index p + 1) * page_pages p <=? region_pages g (pn_region p)).

(* first order-0 page index (file-wide, counting the super-header page as 0) of a page *)
Definition page_first_chunk (g : geom) (p : pagenum) : N := page_start g p / g_psz g.
