(* C10 proofs, part 1: the executable checker is sound for the specification wf_db, and
   well-formed images have pairwise disjoint page byte ranges inside the file. *)
From Coq Require Import String.
From RV Require Import Base.Bytes Gen.Consts Format.Xxh3 Format.Codec Format.Pages Format.Records
  Format.KeyCmp Format.Decode Format.WF.
Open Scope N_scope.

(* ---- induction principle for the nested tree type *)
Section TreeInd.
  Variable P : tree -> Prop.
  Hypothesis Hl : forall p c s es, P (TLeaf p c s es).
  Hypothesis Hb : forall p c s cs ks, Forall (fun x => P (snd x)) cs -> P (TBranch p c s cs ks).
  Fixpoint tree_ind2 (t : tree) : P t :=
    match t with
    | TLeaf p c s es => Hl p c s es
    | TBranch p c s cs ks =>
        Hb p c s cs ks
          ((fix go (l : list (N * tree)) : Forall (fun x => P (snd x)) l :=
              match l with
              | [] => Forall_nil _
              | x :: r => Forall_cons x (tree_ind2 (snd x)) (go r)
              end) cs)
    end.
End TreeInd.

Lemma kltb_sound oc a b : kltb oc a b = true -> klt oc a b.
Proof. unfold kltb, klt. destruct oc; auto. destruct (c a b); congruence. Qed.

Lemma kleb_sound oc a b : kleb oc a b = true -> kle oc a b.
Proof. unfold kleb, kle. destruct oc; auto. destruct (c a b); congruence. Qed.

Lemma increasingb_sound oc l : increasingb oc l = true -> increasing oc l.
Proof.
  induction l as [|a l IH]; simpl; auto.
  destruct l as [|b l']; auto.
  intro H. apply andb_true_iff in H. destruct H as [H1 H2].
  split; [apply kltb_sound; auto | apply IH; auto].
Qed.

Lemma forallb_Forall {A} (f : A -> bool) (Q : A -> Prop) l :
  (forall x, f x = true -> Q x) -> forallb f l = true -> Forall Q l.
Proof.
  intros Hf. induction l; simpl; intro H; constructor.
  - apply Hf. apply andb_true_iff in H. tauto.
  - apply IHl. apply andb_true_iff in H. tauto.
Qed.

Lemma seps_okb_sound oc cs : forall ks, seps_okb oc cs ks = true -> seps_ok oc cs ks.
Proof.
  induction cs as [|c1 cs IH]; intros ks; simpl; auto.
  destruct cs as [|c2 cs']; auto.
  destruct ks as [|k ks']; auto.
  intro H. apply andb_true_iff in H. destruct H as [H H3].
  apply andb_true_iff in H. destruct H as [H1 H2].
  repeat split.
  - eapply forallb_Forall; [|exact H1]. intros x. apply kleb_sound.
  - eapply forallb_Forall; [|exact H2]. intros x. apply kltb_sound.
  - apply IH. exact H3.
Qed.

Lemma opt_nat_eqb_sound a h : opt_nat_eqb a (Some h) = true -> a = Some h.
Proof. destruct a; simpl; try congruence. intro H. apply PeanoNat.Nat.eqb_eq in H. congruence. Qed.

Lemma wf_treeb_sound oc : forall t h, wf_treeb oc t = Some h -> wf_tree oc t h.
Proof.
  induction t as [p c s es | p c s cs ks IH] using tree_ind2; intros h H.
  - simpl in H.
    destruct (negb match es with [] => true | _ :: _ => false end && increasingb oc (map fst es)) eqn:E; [|discriminate].
    inversion H; subst. apply andb_true_iff in E. destruct E as [E1 E2].
    constructor.
    + destruct es; simpl in E1; congruence.
    + apply increasingb_sound; auto.
  - simpl in H.
    destruct (map (fun c0 : N * tree => wf_treeb oc (snd c0)) cs) as [|o hs] eqn:Ehs; [discriminate|].
    destruct o as [h0|]; [|discriminate].
    match type of H with (if ?b then _ else _) = _ => destruct b eqn:E; [|discriminate] end.
    inversion H; subst; clear H.
    repeat (apply andb_true_iff in E; destruct E as [E ?]).
    constructor.
    + destruct ks; simpl in E; congruence.
    + apply PeanoNat.Nat.eqb_eq; auto.
    + (* all children have height h0 *)
      assert (Hall : Forall (fun x => x = Some h0) (map (fun c0 : N * tree => wf_treeb oc (snd c0)) cs)).
      { rewrite Ehs. eapply forallb_Forall; [|eassumption]. intros x. apply opt_nat_eqb_sound. }
      clear - IH Hall. induction cs as [|x cs IHcs]; constructor.
      * inversion IH; subst. simpl in Hall. inversion Hall; subst. auto.
      * inversion IH; subst. simpl in Hall. inversion Hall; subst. apply IHcs; auto.
    + eapply forallb_Forall; [|eassumption]. intros x Hx. apply N.eqb_eq; auto.
    + apply seps_okb_sound; auto.
    + apply increasingb_sound; auto.
Qed.

Lemma pagenum_eqb_eq a b : pagenum_eqb a b = true -> a = b.
Proof.
  unfold pagenum_eqb. intro H.
  apply andb_true_iff in H. destruct H as [H H3]. apply andb_true_iff in H. destruct H as [H1 H2].
  apply N.eqb_eq in H1, H2, H3. destruct a, b; simpl in *; congruence.
Qed.

Lemma wf_rootb_sound oc r t : wf_rootb oc r t = true -> wf_root oc r t.
Proof.
  unfold wf_rootb, wf_root. destruct r as [h|], t as [t|]; auto; try discriminate.
  intro H.
  apply andb_true_iff in H; destruct H as [H H4].
  apply andb_true_iff in H; destruct H as [H H3].
  apply andb_true_iff in H; destruct H as [H1 H2].
  destruct (wf_treeb oc t) as [d|] eqn:E; [|discriminate].
  split; [|split; [|split]].
  - apply pagenum_eqb_eq; auto.
  - apply N.eqb_eq; auto.
  - apply N.eqb_eq; auto.
  - exists d. apply wf_treeb_sound; auto.
Qed.

Lemma wf_collb_sound vc c : wf_collb vc c = true -> wf_coll vc c.
Proof.
  destruct c as [lf | h t]; simpl.
  - intro H. apply andb_true_iff in H. destruct H as [H1 H2]. split.
    + destruct (lf_entries lf); simpl in H1; congruence.
    + apply increasingb_sound; auto.
  - intro H. apply (wf_rootb_sound vc (Some h) (Some t)). exact H.
Qed.

Lemma wf_tableb_sound t : wf_tableb t = true -> wf_table t.
Proof.
  unfold wf_tableb, wf_table. intro H.
  apply andb_true_iff in H; destruct H as [H H5].
  apply andb_true_iff in H; destruct H as [H H4].
  apply andb_true_iff in H; destruct H as [H H3].
  apply andb_true_iff in H; destruct H as [H1 H2].
  split; [|split; [|split; [|split]]].
  - apply wf_rootb_sound; auto.
  - apply N.eqb_eq; auto.
  - intro Hk. rewrite Hk in *. rewrite N.eqb_refl in *.
    eapply forallb_Forall; [|eassumption]. intros x. apply wf_collb_sound.
  - apply N.eqb_eq; auto.
  - apply N.eqb_eq; auto.
Qed.

Lemma wf_forestb_sound f : wf_forestb f = true -> wf_forest f.
Proof.
  unfold wf_forestb, wf_forest. intro H. apply andb_true_iff in H. destruct H as [H1 H2]. split.
  - apply wf_rootb_sound; auto.
  - eapply forallb_Forall; [|eassumption]. apply wf_tableb_sound.
Qed.

Lemma pages_disjointb_sound a b : pages_disjointb a b = true -> pages_disjoint a b.
Proof.
  unfold pages_disjointb, pages_disjoint. intro H.
  apply orb_true_iff in H. destruct H as [H|H]; [apply orb_true_iff in H; destruct H as [H|H]|].
  - left. apply negb_true_iff in H. apply N.eqb_neq; auto.
  - right; left. apply N.leb_le; auto.
  - right; right. apply N.leb_le; auto.
Qed.

Lemma pairwiseb_sound {A} (f : A -> A -> bool) (R : A -> A -> Prop) l :
  (forall a b, f a b = true -> R a b) -> pairwiseb f l = true -> ForallOrdPairs R l.
Proof.
  intro Hf. induction l as [|a l IH]; simpl; intro H; constructor.
  - apply andb_true_iff in H. destruct H as [H _].
    eapply forallb_Forall; [|exact H]. intros x. apply Hf.
  - apply IH. apply andb_true_iff in H. tauto.
Qed.

Lemma wf_pagesb_sound g fl ps : wf_pagesb g fl ps = true -> wf_pages g fl ps.
Proof.
  unfold wf_pagesb, wf_pages. intro H. apply andb_true_iff in H. destruct H as [H1 H2]. split.
  - eapply forallb_Forall; [|exact H1]. intros p Hp. unfold page_okb in Hp. unfold page_ok.
    apply andb_true_iff in Hp. destruct Hp as [Ha Hb]. split; auto. apply N.leb_le; auto.
  - eapply pairwiseb_sound; [|exact H2]. apply pages_disjointb_sound.
Qed.

Theorem wf_dbb_sound d : wf_dbb d = true -> wf_db d.
Proof.
  unfold wf_dbb, wf_db. intro H.
  apply andb_true_iff in H; destruct H as [H H7].
  apply andb_true_iff in H; destruct H as [H H6].
  apply andb_true_iff in H; destruct H as [H H5].
  apply andb_true_iff in H; destruct H as [H H4].
  apply andb_true_iff in H; destruct H as [H H3].
  apply andb_true_iff in H; destruct H as [H1 H2].
  split; [exact H1|].
  split; [apply N.eqb_eq; exact H2|].
  split; [apply N.eqb_eq; exact H3|].
  split; [apply N.eqb_eq; exact H4|].
  split; [apply wf_forestb_sound; exact H5|].
  split; [apply wf_forestb_sound; exact H6|].
  apply wf_pagesb_sound; exact H7.
Qed.

Theorem wf_imageb_sound bs : wf_imageb bs = true -> wf_image bs.
Proof.
  unfold wf_imageb, wf_image. destruct (decode_db bs SlotPrimary) as [d|]; [|discriminate].
  intro H. exists d. split; auto. apply wf_dbb_sound; auto.
Qed.

(* ---- reach_disjoint *)
Definition ranges_disjoint (g : geom) (a b : pagenum) : Prop :=
  page_end g a <= page_start g b \/ page_end g b <= page_start g a.

Lemma region_pages_le g r : g_trailing g <= g_max_pages g -> region_pages g r <= g_max_pages g.
Proof.
  intro H. unfold region_pages.
  destruct (r <? g_full g); [lia|].
  destruct ((r =? g_full g) && negb (g_trailing g =? 0)); lia.
Qed.

Lemma in_layout_bound g p :
  in_layout g p = true -> (pn_index p + 1) * page_pages p <= region_pages g (pn_region p).
Proof.
  unfold in_layout. intro H. apply andb_true_iff in H. destruct H as [_ H]. apply N.leb_le; auto.
Qed.

Lemma page_end_in_region g p :
  g_trailing g <= g_max_pages g -> in_layout g p = true ->
  page_end g p <= g_psz g + (pn_region p + 1) * region_len g.
Proof.
  intros Ht Hin. pose proof (in_layout_bound g p Hin) as Hb.
  pose proof (region_pages_le g (pn_region p) Ht) as Hr.
  unfold page_end, page_start, page_len, region_len.
  set (P := page_pages p) in *. set (i := pn_index p) in *. set (r := pn_region p) in *.
  assert ((i + 1) * P <= g_max_pages g) by lia.
  nia.
Qed.

Lemma page_start_in_region g p : g_psz g + pn_region p * region_len g <= page_start g p.
Proof. unfold page_start. lia. Qed.

Lemma disjoint_ranges g a b :
  g_trailing g <= g_max_pages g -> in_layout g a = true -> in_layout g b = true ->
  pages_disjoint a b -> ranges_disjoint g a b.
Proof.
  intros Ht Ha Hb Hd. unfold ranges_disjoint.
  destruct (N.lt_trichotomy (pn_region a) (pn_region b)) as [Hlt | [Heq | Hgt]].
  - left. pose proof (page_end_in_region g a Ht Ha). pose proof (page_start_in_region g b).
    assert ((pn_region a + 1) * region_len g <= pn_region b * region_len g) by (apply N.mul_le_mono_r; lia).
    lia.
  - destruct Hd as [Hd | Hd]; [congruence|].
    unfold page_end, page_start, page_len, span_hi, span_lo in *. rewrite Heq.
    set (Pa := page_pages a) in *. set (Pb := page_pages b) in *.
    destruct Hd as [Hd | Hd]; [left | right]; nia.
  - right. pose proof (page_end_in_region g b Ht Hb). pose proof (page_start_in_region g a).
    assert ((pn_region b + 1) * region_len g <= pn_region a * region_len g) by (apply N.mul_le_mono_r; lia).
    lia.
Qed.

Lemma FOP_map {A} (R R' : A -> A -> Prop) (P : A -> Prop) l :
  (forall a b, P a -> P b -> R a b -> R' a b) ->
  Forall P l -> ForallOrdPairs R l -> ForallOrdPairs R' l.
Proof.
  intros Himp HP HR. induction HR as [|a l Ha HR IH]; constructor.
  - inversion HP as [|x y Hpa Hpl]; subst.
    rewrite Forall_forall in *. intros b Hb. apply Himp; auto.
  - inversion HP; subst. apply IH; auto.
Qed.

Lemma geom_ok_trailing g : geom_ok g = true -> g_trailing g <= g_max_pages g.
Proof.
  unfold geom_ok. intro H.
  repeat (apply andb_true_iff in H; destruct H as [H ?]).
  apply N.leb_le; auto.
Qed.

(* the reachable pages of a well-formed image occupy pairwise disjoint byte ranges, all of them
   after the super-header page and inside the file *)
Theorem reach_disjoint d :
  wf_db d ->
  Forall (fun p => g_psz (di_geom d) <= page_start (di_geom d) p /\ page_end (di_geom d) p <= di_file_len d) (reach d)
  /\ ForallOrdPairs (ranges_disjoint (di_geom d)) (reach d).
Proof.
  intros (Hg & _ & _ & _ & _ & _ & Hp & Hd).
  pose proof (geom_ok_trailing _ Hg) as Ht.
  split.
  - eapply Forall_impl; [|exact Hp]. intros p [Hin Hend]. split; auto.
    unfold page_start. lia.
  - eapply FOP_map; [|exact Hp|exact Hd].
    intros a b [Ha _] [Hb _] Hab. apply disjoint_ranges; auto.
Qed.
