(* C10: well-formedness of a committed image.
   wf_db   : Prop   -- the specification, over the decoded forest
   wf_dbb  : bool   -- the executable checker (soundness: Format/WFP.v)
   wf_image / wf_imageb : the same on raw bytes for the slot the god byte designates
   wf_explain : unverified diagnostics listing the failing conditions with locations.
   Definitions only. *)
From Coq Require Import String.
From RV Require Import Base.Bytes Gen.Consts Format.Xxh3 Format.Codec Format.Pages Format.Records
  Format.KeyCmp Format.Decode.
Open Scope N_scope.

(* ---- ordering under an optional comparator (None = key type unknown to the model: no claim) *)
Definition klt (oc : option cmp_fn) (a b : bytes) : Prop :=
  match oc with Some c => c a b = Lt | None => True end.
Definition kle (oc : option cmp_fn) (a b : bytes) : Prop :=
  match oc with Some c => c a b <> Gt | None => True end.
Definition kltb (oc : option cmp_fn) (a b : bytes) : bool :=
  match oc with Some c => match c a b with Lt => true | _ => false end | None => true end.
Definition kleb (oc : option cmp_fn) (a b : bytes) : bool :=
  match oc with Some c => match c a b with Gt => false | _ => true end | None => true end.

(* strictly increasing: every adjacent pair *)
Fixpoint increasing (oc : option cmp_fn) (l : list bytes) : Prop :=
  match l with
  | a :: ((b :: _) as r) => klt oc a b /\ increasing oc r
  | _ => True
  end.
Fixpoint increasingb (oc : option cmp_fn) (l : list bytes) : bool :=
  match l with
  | a :: ((b :: _) as r) => kltb oc a b && increasingb oc r
  | _ => true
  end.

Definition keys (t : tree) : list bytes := map fst (entries t).

(* routing keys bound the subtrees on either side: every key of child i <= sep i < every key of child i+1 *)
Fixpoint seps_ok (oc : option cmp_fn) (cs : list tree) (ks : list bytes) : Prop :=
  match cs, ks with
  | c1 :: ((c2 :: _) as r), k :: ks' =>
      Forall (fun x => kle oc x k) (keys c1) /\ Forall (fun x => klt oc k x) (keys c2) /\ seps_ok oc r ks'
  | _, _ => True
  end.
Fixpoint seps_okb (oc : option cmp_fn) (cs : list tree) (ks : list bytes) : bool :=
  match cs, ks with
  | c1 :: ((c2 :: _) as r), k :: ks' =>
      forallb (fun x => kleb oc x k) (keys c1) && forallb (fun x => kltb oc k x) (keys c2) && seps_okb oc r ks'
  | _, _ => true
  end.

(* wf_tree oc t h: t is a well-formed B+tree of height h (all leaves at depth h) *)
Inductive wf_tree (oc : option cmp_fn) : tree -> nat -> Prop :=
| wf_leaf : forall p cov sum es,
    es <> [] -> increasing oc (map fst es) ->
    wf_tree oc (TLeaf p cov sum es) 0
| wf_branch : forall p cov sum cs ks h,
    ks <> [] -> length cs = S (length ks) ->
    Forall (fun c => wf_tree oc (snd c) h) cs ->          (* equal leaf depth *)
    Forall (fun c => fst c = tree_sum (snd c)) cs ->       (* stored child checksum = hash of the child's covered bytes *)
    seps_ok oc (map snd cs) ks ->
    increasing oc ks ->
    wf_tree oc (TBranch p cov sum cs ks) (S h).

Definition opt_nat_eqb (a b : option nat) : bool :=
  match a, b with Some x, Some y => Nat.eqb x y | _, _ => false end.

(* returns the height when well-formed *)
Fixpoint wf_treeb (oc : option cmp_fn) (t : tree) : option nat :=
  match t with
  | TLeaf _ _ _ es =>
      if negb (match es with [] => true | _ => false end) && increasingb oc (map fst es) then Some O else None
  | TBranch _ _ _ cs ks =>
      let hs := map (fun c => wf_treeb oc (snd c)) cs in
      match hs with
      | Some h :: _ =>
          if negb (match ks with [] => true | _ => false end)
             && Nat.eqb (length cs) (S (length ks))
             && forallb (fun x => opt_nat_eqb x (Some h)) hs
             && forallb (fun c => fst c =? tree_sum (snd c)) cs
             && seps_okb oc (map snd cs) ks
             && increasingb oc ks
          then Some (S h) else None
      | _ => None
      end
  end.

(* a root header against the tree it points to; len = the entry count the header must store *)
Definition wf_root (oc : option cmp_fn) (root : option bhdr) (t : option tree) : Prop :=
  match root, t with
  | None, None => True
  | Some h, Some t =>
      tree_pn t = bh_root h /\ bh_sum h = tree_sum t /\ bh_len h = lenN (entries t)
      /\ exists d, wf_tree oc t d
  | _, _ => False
  end.
Definition wf_rootb (oc : option cmp_fn) (root : option bhdr) (t : option tree) : bool :=
  match root, t with
  | None, None => true
  | Some h, Some t =>
      pagenum_eqb (tree_pn t) (bh_root h) && (bh_sum h =? tree_sum t) && (bh_len h =? lenN (entries t))
      && match wf_treeb oc t with Some _ => true | None => false end
  | _, _ => false
  end.

(* multimap value collections *)
Definition wf_coll (vc : option cmp_fn) (c : coll) : Prop :=
  match c with
  | CInline lf => lf_entries lf <> [] /\ increasing vc (map fst (lf_entries lf))
  | CSubtree h t => wf_root vc (Some h) (Some t)
  end.
Definition wf_collb (vc : option cmp_fn) (c : coll) : bool :=
  match c with
  | CInline lf => negb (match lf_entries lf with [] => true | _ => false end) && increasingb vc (map fst (lf_entries lf))
  | CSubtree h t => wf_rootb vc (Some h) (Some t)
  end.

Definition sumN (l : list N) : N := fold_right N.add 0 l.
Definition table_num_values (t : table) : N :=
  if td_kind (tb_def t) =? TABLE_MULTIMAP then sumN (map (fun kc => lenN (coll_values (snd kc))) (tb_colls t))
  else lenN (match tb_tree t with Some tr => entries tr | None => [] end).

Definition wf_table (t : table) : Prop :=
  let d := tb_def t in
  let kc := cmp_of_typename (td_ktype d) in
  let vc := cmp_of_typename (td_vtype d) in
  wf_root kc (td_root d) (tb_tree t)
  /\ td_len d = table_num_values t                                  (* stored count = entries present *)
  /\ (td_kind d = TABLE_MULTIMAP -> Forall (fun x => wf_coll vc (snd x)) (tb_colls t))
  /\ td_kalign d = ALIGNMENT /\ td_valign d = ALIGNMENT.
Definition wf_tableb (t : table) : bool :=
  let d := tb_def t in
  let kc := cmp_of_typename (td_ktype d) in
  let vc := cmp_of_typename (td_vtype d) in
  wf_rootb kc (td_root d) (tb_tree t)
  && (td_len d =? table_num_values t)
  && (if td_kind d =? TABLE_MULTIMAP then forallb (fun x => wf_collb vc (snd x)) (tb_colls t) else true)
  && (td_kalign d =? ALIGNMENT) && (td_valign d =? ALIGNMENT).

(* table names are &str: ordered bytewise *)
Definition name_cmp : option cmp_fn := Some lex_cmp.

Definition wf_forest (f : forest) : Prop :=
  wf_root name_cmp (fo_root f) (fo_tree f) /\ Forall wf_table (fo_tables f).
Definition wf_forestb (f : forest) : bool :=
  wf_rootb name_cmp (fo_root f) (fo_tree f) && forallb wf_tableb (fo_tables f).

(* ---- pages: inside the layout and the file, no two overlapping (hence none referenced twice) *)
Definition span_lo (p : pagenum) : N := pn_index p * page_pages p.
Definition span_hi (p : pagenum) : N := (pn_index p + 1) * page_pages p.
(* order-0 page index ranges [lo, hi) inside a region *)
Definition pages_disjoint (a b : pagenum) : Prop :=
  pn_region a <> pn_region b \/ span_hi a <= span_lo b \/ span_hi b <= span_lo a.
Definition pages_disjointb (a b : pagenum) : bool :=
  negb (pn_region a =? pn_region b) || (span_hi a <=? span_lo b) || (span_hi b <=? span_lo a).

Fixpoint pairwiseb {A} (f : A -> A -> bool) (l : list A) : bool :=
  match l with
  | [] => true
  | a :: r => forallb (f a) r && pairwiseb f r
  end.

Definition page_ok (g : geom) (file_len : N) (p : pagenum) : Prop :=
  in_layout g p = true /\ page_end g p <= file_len.
Definition page_okb (g : geom) (file_len : N) (p : pagenum) : bool :=
  in_layout g p && (page_end g p <=? file_len).

Definition wf_pages (g : geom) (file_len : N) (ps : list pagenum) : Prop :=
  Forall (page_ok g file_len) ps /\ ForallOrdPairs pages_disjoint ps.
Definition wf_pagesb (g : geom) (file_len : N) (ps : list pagenum) : bool :=
  forallb (page_okb g file_len) ps && pairwiseb pages_disjointb ps.

(* ---- whole image *)
Definition wf_db (d : db_image) : Prop :=
  geom_ok (di_geom d) = true
  /\ layout_len (di_geom d) = di_file_len d
  /\ sl_version (di_slot d) = FILE_FORMAT_VERSION3
  /\ sl_sum (di_slot d) = di_slot_sum d                       (* slot checksum = hash of its first 112 bytes *)
  /\ wf_forest (di_data d) /\ wf_forest (di_system d)
  /\ wf_pages (di_geom d) (di_file_len d) (reach d).

Definition wf_dbb (d : db_image) : bool :=
  geom_ok (di_geom d)
  && (layout_len (di_geom d) =? di_file_len d)
  && (sl_version (di_slot d) =? FILE_FORMAT_VERSION3)
  && (sl_sum (di_slot d) =? di_slot_sum d)
  && wf_forestb (di_data d) && wf_forestb (di_system d)
  && wf_pagesb (di_geom d) (di_file_len d) (reach d).

(* ---- slot choice *)
Inductive slot_choice := SlotPrimary | SlotSecondary | SlotIndex (i : N) | SlotRecover.

Definition primary_index (hb : bytes) : N :=
  match u8_at hb GOD_BYTE_OFFSET with Some g => god_primary g | None => 0 end.

(* SlotRecover: the slot recovery would use: with the 2PC flag the primary; otherwise the primary
   unless its slot checksum is bad, or the secondary is newer with a good slot checksum, or (when
   recovery is required) the primary's forest does not verify -- then the secondary. *)
Definition decode_chunks (hb : bytes) (file_len : N) (chunks : list bytes) (c : slot_choice) : result db_image :=
  let p := primary_index hb in
  let at_ i := decode_chunks_at hb file_len chunks i in
  match c with
  | SlotPrimary => at_ p
  | SlotSecondary => at_ (1 - p)
  | SlotIndex i => at_ (if i =? 0 then 0 else 1)
  | SlotRecover =>
      do h <- decode_header hb;
      if god_2pc (h_god h) then at_ p
      else
        let sp := slot_of h p in
        let ss := slot_of h (1 - p) in
        let sum i := slot_sum_computed (takeN (dropN hb (slot_offset i)) TRANSACTION_SIZE) in
        let p_bad := negb (sl_sum sp =? sum p) in
        let s_good := sl_sum ss =? sum (1 - p) in
        if p_bad then at_ (1 - p)
        else if (sl_txid sp <? sl_txid ss) && s_good then at_ (1 - p)
        else if god_recovery (h_god h) then
          match at_ p with
          | Ok d => if wf_dbb d then Ok d else at_ (1 - p)
          | Err _ _ => at_ (1 - p)
          end
        else at_ p
  end.

Definition decode_db (bs : bytes) (c : slot_choice) : result db_image :=
  decode_chunks (header_bytes bs) (lenN bs) (chunks_of bs) c.

(* on raw bytes, for the primary slot (the one the god byte designates) *)
Definition wf_image (bs : bytes) : Prop :=
  exists d, decode_db bs SlotPrimary = Ok d /\ wf_db d.
Definition wf_imageb (bs : bytes) : bool :=
  match decode_db bs SlotPrimary with Ok d => wf_dbb d | Err _ _ => false end.

(* ---- diagnostics (not verified): every failing condition with a location *)
Definition diag := (string * list N)%type.

Fixpoint explain_tree (oc : option cmp_fn) (t : tree) : list diag :=
  match t with
  | TLeaf p _ _ es =>
      (if match es with [] => true | _ => false end then [("leaf has no entries"%string, pn_loc p)] else [])
      ++ (if increasingb oc (map fst es) then [] else [("leaf keys not strictly increasing"%string, pn_loc p)])
  | TBranch p _ _ cs ks =>
      let hs := map (fun c => wf_treeb oc (snd c)) cs in
      (if Nat.eqb (length cs) (S (length ks)) then [] else [("branch child/key count mismatch"%string, pn_loc p)])
      ++ (if forallb (fun c => fst c =? tree_sum (snd c)) cs then []
          else map (fun c => ("stored child checksum does not match the child's bytes"%string, pn_loc (tree_pn (snd c))))
                   (filter (fun c => negb (fst c =? tree_sum (snd c))) cs))
      ++ (if seps_okb oc (map snd cs) ks then [] else [("routing key does not bound its neighbouring subtrees"%string, pn_loc p)])
      ++ (if increasingb oc ks then [] else [("branch keys not strictly increasing"%string, pn_loc p)])
      ++ (match hs with
          | Some h :: _ => if forallb (fun x => opt_nat_eqb x (Some h)) hs then []
                           else [("leaves at different depths below this branch (or a malformed child)"%string, pn_loc p)]
          | _ => []
          end)
      ++ flat_map (fun c => explain_tree oc (snd c)) cs
  end.

Definition explain_root (what : string) (oc : option cmp_fn) (root : option bhdr) (t : option tree) : list diag :=
  match root, t with
  | None, None => []
  | Some h, Some t =>
      (if pagenum_eqb (tree_pn t) (bh_root h) then [] else [(append what ": root page mismatch", pn_loc (bh_root h))])
      ++ (if bh_sum h =? tree_sum t then [] else [(append what ": root checksum does not match the root page bytes", pn_loc (bh_root h))])
      ++ (if bh_len h =? lenN (entries t) then [] else [(append what ": stored entry count differs from entries present", [bh_len h; lenN (entries t)])])
      ++ explain_tree oc t
  | _, _ => [(append what ": root header and tree disagree", [])]
  end.

Definition explain_coll (vc : option cmp_fn) (c : coll) : list diag :=
  match c with
  | CInline lf => if wf_collb vc c then [] else [("inline multimap values empty or not strictly increasing"%string, [])]
  | CSubtree h t => explain_root "multimap subtree" vc (Some h) (Some t)
  end.

Definition explain_table (t : table) : list diag :=
  let d := tb_def t in
  let kc := cmp_of_typename (td_ktype d) in
  let vc := cmp_of_typename (td_vtype d) in
  explain_root "table" kc (td_root d) (tb_tree t)
  ++ (if td_len d =? table_num_values t then [] else [("table length differs from entries present"%string, [td_len d; table_num_values t])])
  ++ (if td_kind d =? TABLE_MULTIMAP then flat_map (fun x => explain_coll vc (snd x)) (tb_colls t) else [])
  ++ (if (td_kalign d =? ALIGNMENT) && (td_valign d =? ALIGNMENT) then [] else [("table alignment is not 1"%string, [])]).

Definition explain_forest (what : string) (f : forest) : list diag :=
  explain_root what name_cmp (fo_root f) (fo_tree f) ++ flat_map explain_table (fo_tables f).

Fixpoint explain_overlaps (l : list pagenum) : list diag :=
  match l with
  | [] => []
  | a :: r =>
      map (fun b => ("two reachable pages overlap (page referenced twice?)"%string, pn_loc a ++ pn_loc b))
          (filter (fun b => negb (pages_disjointb a b)) r)
      ++ explain_overlaps r
  end.

Definition wf_explain (d : db_image) : list diag :=
  (if geom_ok (di_geom d) then [] else [("region geometry invalid"%string, [])])
  ++ (if layout_len (di_geom d) =? di_file_len d then [] else [("file length is not the length of the layout"%string, [layout_len (di_geom d); di_file_len d])])
  ++ (if sl_sum (di_slot d) =? di_slot_sum d then [] else [("slot checksum does not match the slot bytes"%string, [di_slot_index d])])
  ++ explain_forest "data tree" (di_data d) ++ explain_forest "system tree" (di_system d)
  ++ map (fun p => ("page outside layout or file"%string, pn_loc p))
         (filter (fun p => negb (page_okb (di_geom d) (di_file_len d) p)) (reach d))
  ++ explain_overlaps (reach d).

(* tables whose key (or multimap value) type the model has no comparator for: their ordering is not checked *)
Definition unknown_order_tables (d : db_image) : list bytes :=
  let unk t := match cmp_of_typename (td_ktype (tb_def t)) with
               | None => true
               | Some _ => (td_kind (tb_def t) =? TABLE_MULTIMAP)
                           && match cmp_of_typename (td_vtype (tb_def t)) with None => true | Some _ => false end
               end in
  map tb_name (filter unk (fo_tables (di_data d) ++ fo_tables (di_system d))).
