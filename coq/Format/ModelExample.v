(* A concrete instance of the writer-model theorems (non-vacuity): keys and values are byte strings
   (&[u8] -> &[u8], variable width, ordered bytewise); a program of C04's mutator model (inserts, a
   remove, pops) at page size 512 that leaves a two-level tree; pages handed out in pre-order.
   Definitions only. *)
From Coq Require Import String.
From RV Require Import Base.Bytes Base.SortedMap Gen.Consts Format.Xxh3 Format.Codec Format.Pages Format.Records
  Format.KeyCmp Format.Decode Format.WF Format.TreeWriter Format.TreeShape Format.ImageWriter
  Btree.Tree Btree.Read Btree.Mutator.
Open Scope N_scope.

Definition mx_id (b : bytes) : bytes := b.
Definition mx_sep (l r : bytes) : bytes := l.
Definition mx_inplace (es : list (bytes * bytes)) (k v : bytes) : bool := false.
Definition mx_val (i : N) : bytes := repeat i 100.

Definition mx_ops : list (@tree_op bytes bytes) :=
  List.map (fun i => TInsert [i; 7] (mx_val i)) [5; 1; 9; 3; 7; 2; 8; 4; 6; 10; 12; 11; 13; 14]
  ++ [TRemove [9; 7]; TPopFirst; TInsert [3; 7] (mx_val 33); TPopLast].

Definition mx_run := run_tree lex_cmp lenN lenN false false 512 mx_sep mx_inplace mx_ops empty_tree.
Definition mx_bt : @btree bytes bytes := Eval vm_compute in snd mx_run.
Definition mx_root : option (@node bytes bytes) := bt_root mx_bt.

Definition mx_pg (i : N) : pagenum := {| pn_region := 0; pn_index := i; pn_order := 0 |}.
Definition mx_pages : list pagenum := List.map mx_pg [3; 1; 7; 2; 9; 5; 4; 8; 6; 10].

Definition mx_w : option wtree :=
  match mx_root with
  | Some t => match place mx_id mx_id t mx_pages with Some (w, _) => Some w | None => None end
  | None => None
  end.

Definition mx_geom : geom := {| g_psz := 512; g_hdr_pages := 1; g_max_pages := 32; g_full := 0; g_trailing := 12 |}.
Definition mx_ts : table_spec :=
  {| ts_name := ascii_bytes "t"; ts_ktype := TYPE_CLASS_INTERNAL :: T_BYTES; ts_vtype := TYPE_CLASS_INTERNAL :: T_BYTES;
     ts_ks := None; ts_vs := None |}.

Definition mx_image : bytes :=
  match mx_w with Some w => db1_image 255 mx_geom 7 mx_ts (mx_pg 0) w | None => [] end.
