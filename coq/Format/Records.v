(* v3 file format, part 3: records stored inside leaves: table definitions, multimap value
   collections, and the system tables' keys/values (page lists, savepoints, allocator-state keys).
   From table_tree_base.rs, multimap_btree.rs, transactions.rs, savepoint.rs.  Definitions only. *)
From Coq Require Import String.
From RV Require Import Base.Bytes Gen.Consts Format.Xxh3 Format.Codec Format.Pages.
Open Scope N_scope.

(* ---- InternalTableDefinition *)
Record tabledef := mkTd {
  td_kind : N;                 (* TABLE_NORMAL = 3 | TABLE_MULTIMAP = 4 *)
  td_len : N;
  td_root : option bhdr;
  td_ks : width;
  td_vs : width;
  td_kalign : N;
  td_valign : N;
  td_ktype : bytes;            (* classification byte :: utf8 name *)
  td_vtype : bytes
}.

Definition opt_u32_bytes (o : width) : bytes :=
  match o with Some w => 1 :: le_encode 4 w | None => 0 :: zeros 4 end.

Definition encode_tabledef (t : tabledef) : bytes :=
  [td_kind t] ++ le_encode 8 (td_len t)
  ++ [flag_byte (td_root t)] ++ opt_bhdr_bytes (td_root t)
  ++ opt_u32_bytes (td_ks t) ++ opt_u32_bytes (td_vs t)
  ++ le_encode 4 (td_kalign t) ++ le_encode 4 (td_valign t)
  ++ le_encode 4 (lenN (td_ktype t)) ++ td_ktype t ++ td_vtype t.

Definition decode_width (flag : N) (v : N) : width := if flag =? 0 then None else Some v.

Definition decode_tabledef (b : bytes) : result tabledef :=
  match u8_at b 0, u64_at b 1, u8_at b 9, sub b 10 BHDR_SIZE,
        u8_at b 42, u32_at b 43, u8_at b 47, u32_at b 48,
        u32_at b 52, u32_at b 56, u32_at b 60 with
  | Some kind, Some len, Some rf, Some rb, Some kf, Some kw, Some vf, Some vw, Some ka, Some va, Some ktl =>
      do _ <- guard ((kind =? TABLE_NORMAL) || (kind =? TABLE_MULTIMAP)) "table definition: unknown table type byte";
      do root <- of_opt (decode_opt_bhdr rf rb) "table definition: root header";
      do kt <- of_opt (sub b 64 ktl) "table definition: key type name out of range";
      let vt := dropN b (64 + ktl) in
      do _ <- guard ((1 <=? ktl) && (1 <=? lenN vt)) "table definition: empty type name";
      Ok {| td_kind := kind; td_len := len; td_root := root;
            td_ks := decode_width kf kw; td_vs := decode_width vf vw;
            td_kalign := ka; td_valign := va; td_ktype := kt; td_vtype := vt |}
  | _, _, _, _, _, _, _, _, _, _, _ => Err "table definition: record too short" []
  end.

(* ---- DynamicCollection (multimap values): tag LEAF = inline leaf follows; tag 3 = subtree header *)
Inductive collection :=
| CollInline (lf : bytes)          (* an inline leaf page: keys = the values, values = () *)
| CollSubtree (h : bhdr).

Definition encode_collection (c : collection) : bytes :=
  match c with
  | CollInline lf => COLL_INLINE :: lf
  | CollSubtree h => COLL_SUBTREE :: encode_bhdr h
  end.

Definition decode_collection (b : bytes) : result collection :=
  match b with
  | [] => Err "collection: empty" []
  | t :: r =>
      if t =? COLL_INLINE then Ok (CollInline r)
      else if t =? COLL_SUBTREE then
        match decode_bhdr (takeN r BHDR_SIZE) with
        | Some h => Ok (CollSubtree h)
        | None => Err "collection: subtree header too short" []
        end
      else Err "collection: unknown tag" []
  end.

(* ---- PageList: u16 count, then count page numbers (the value may have spare capacity behind) *)
Definition encode_page_list (l : list pagenum) : bytes :=
  le_encode 2 (lenN l) ++ flat_map encode_pagenum l.

Definition decode_page_list (b : bytes) : result (list pagenum) :=
  do n <- of_opt (u16_at b 0) "page list: no count";
  of_opt (read_pagenums b 2 (N.to_nat n)) "page list: shorter than its count".

(* ---- TransactionIdWithPagination key: u64 transaction id, u64 pagination id *)
Definition encode_txn_page_key (k : N * N) : bytes := le_encode 8 (fst k) ++ le_encode 8 (snd k).
Definition decode_txn_page_key (b : bytes) : option (N * N) :=
  if lenN b =? 16 then Some (le_decode (takeN b 8), le_decode (dropN b 8)) else None.

(* ---- persistent savepoint record *)
Record savepoint := mkSp { sp_version : N; sp_id : N; sp_txid : N; sp_root : option bhdr }.

Definition SAVEPOINT_SIZE : N := 50.
Definition encode_savepoint (s : savepoint) : bytes :=
  [sp_version s] ++ le_encode 8 (sp_id s) ++ le_encode 8 (sp_txid s)
  ++ [flag_byte (sp_root s)] ++ opt_bhdr_bytes (sp_root s).

Definition decode_savepoint (b : bytes) : result savepoint :=
  do _ <- guard (lenN b =? SAVEPOINT_SIZE) "savepoint: wrong record length";
  match u8_at b 0, u64_at b 1, u64_at b 9, u8_at b 17, sub b 18 BHDR_SIZE with
  | Some v, Some id, Some tx, Some f, Some rb =>
      do _ <- guard (v =? FILE_FORMAT_VERSION3) "savepoint: version";
      do _ <- guard (f <=? 1) "savepoint: null marker";
      do r <- of_opt (decode_opt_bhdr f rb) "savepoint: root header";
      Ok {| sp_version := v; sp_id := id; sp_txid := tx; sp_root := r |}
  | _, _, _, _, _ => Err "savepoint: short" []
  end.

(* ---- AllocatorStateKey: tag byte + u32 *)
Inductive alloc_key := AKDeprecated | AKRegion (r : N) | AKTracker | AKTxnId.

Definition encode_alloc_key (k : alloc_key) : bytes :=
  match k with
  | AKDeprecated => 0 :: zeros 4
  | AKRegion r => ALLOC_KEY_REGION :: le_encode 4 r
  | AKTracker => ALLOC_KEY_TRACKER :: zeros 4
  | AKTxnId => ALLOC_KEY_TXNID :: zeros 4
  end.

Definition decode_alloc_key (b : bytes) : option alloc_key :=
  if lenN b =? 5 then
    match b with
    | t :: r =>
        if t <? ALLOC_KEY_REGION then Some AKDeprecated
        else if t =? ALLOC_KEY_REGION then Some (AKRegion (le_decode r))
        else if t =? ALLOC_KEY_TRACKER then Some AKTracker
        else if t =? ALLOC_KEY_TXNID then Some AKTxnId
        else None
    | [] => None
    end
  else None.

(* system table names NAME_* come from Gen/Consts.v (regenerated from transactions.rs) *)
Definition ascii_bytes (s : string) : bytes :=
  map (fun c => N.of_nat (Ascii.nat_of_ascii c)) (list_ascii_of_string s).
