(* v3 file format, part 4: decoding a whole database image.
   decode_db_at bytes slot_index walks, for the chosen commit slot, the data (user) table tree, the
   system table tree, every table's tree and every multimap subtree, using only the stored
   fixed_key_size / fixed_value_size.  Keys and values stay raw bytes.  Definitions only. *)
From Coq Require Import String.
From RV Require Import Base.Bytes Gen.Consts Format.Xxh3 Format.Codec Format.Pages Format.Records Format.KeyCmp.
Open Scope N_scope.

(* a decoded tree: every node remembers its page, the length its checksum covers (cov), and the
   checksum computed from the bytes (sum); a branch keeps the checksums it stores for its children *)
Inductive tree :=
| TLeaf (pn : pagenum) (cov : N) (sum : N) (es : list (bytes * bytes))
| TBranch (pn : pagenum) (cov : N) (sum : N) (cs : list (N * tree)) (ks : list bytes).

Definition tree_pn (t : tree) : pagenum :=
  match t with TLeaf p _ _ _ => p | TBranch p _ _ _ _ => p end.
Definition tree_sum (t : tree) : N :=
  match t with TLeaf _ _ s _ => s | TBranch _ _ s _ _ => s end.
Definition tree_cov (t : tree) : N :=
  match t with TLeaf _ c _ _ => c | TBranch _ c _ _ _ => c end.

Fixpoint entries (t : tree) : list (bytes * bytes) :=
  match t with
  | TLeaf _ _ _ es => es
  | TBranch _ _ _ cs _ => flat_map (fun c => entries (snd c)) cs
  end.

Fixpoint tree_pages (t : tree) : list pagenum :=
  match t with
  | TLeaf p _ _ _ => [p]
  | TBranch p _ _ cs _ => p :: flat_map (fun c => tree_pages (snd c)) cs
  end.

(* ---- the image as a store of pages *)
Record store := mkStore { st_geom : geom; st_file_len : N; st_chunks : list bytes }.

Fixpoint chunk (fuel : nat) (psz : N) (l : bytes) : list bytes :=
  match fuel with
  | O => []
  | S f => match l with [] => [] | _ => takeN l psz :: chunk f psz (dropN l psz) end
  end.

Definition pn_loc (p : pagenum) : list N := [pn_region p; pn_index p; pn_order p].

Definition fetch (s : store) (p : pagenum) : result bytes :=
  let g := st_geom s in
  at_loc (pn_loc p)
    (do _ <- guard (in_layout g p) "page number outside the region layout";
     do _ <- guard (page_end g p <=? st_file_len s) "page beyond the end of the file";
     Ok (concat (takeN (dropN (st_chunks s) (page_first_chunk g p)) (page_pages p)))).

(* ---- tree walk.  fuel bounds the depth (MAX_BTREE_DEPTH); budget bounds the total number of page
   visits by the number of pages the file can hold, so a cyclic or heavily shared structure is
   rejected instead of being unfolded *)
Fixpoint dtree (fuel : nat) (s : store) (ks vs : width) (p : pagenum) (budget : N) : result (tree * N) :=
  match fuel with
  | O => Err "tree deeper than MAX_BTREE_DEPTH" (pn_loc p)
  | S f =>
      do _ <- at_loc (pn_loc p) (guard (1 <=? budget) "more page references than pages in the file (cycle or sharing)");
      do page <- fetch s p;
      let k := page_kind page in
      if k =? LEAF then
        do lf <- at_loc (pn_loc p) (decode_leaf ks vs page);
        Ok (TLeaf p (lf_end lf) (xxh3_128 (takeN page (lf_end lf))) (lf_entries lf), budget - 1)
      else if k =? BRANCH then
        do br <- at_loc (pn_loc p) (decode_branch ks page);
        do r <- (fix go (cs : list (N * pagenum)) (b : N) : result (list (N * tree) * N) :=
                   match cs with
                   | [] => Ok ([], b)
                   | (ck, c) :: rest =>
                       do tb <- dtree f s ks vs c b;
                       do rb <- go rest (snd tb);
                       Ok ((ck, fst tb) :: fst rb, snd rb)
                   end) (br_children br) (budget - 1);
        Ok (TBranch p (br_end br) (xxh3_128 (takeN page (br_end br))) (fst r) (br_keys br), snd r)
      else Err "page is neither a leaf nor a branch" (pn_loc p)
  end.

Definition DEPTH_FUEL : nat := Eval vm_compute in N.to_nat MAX_BTREE_DEPTH.

Definition droot (s : store) (ks vs : width) (root : option bhdr) (budget : N) : result (option tree * N) :=
  match root with
  | None => Ok (None, budget)
  | Some h => do tb <- dtree DEPTH_FUEL s ks vs (bh_root h) budget; Ok (Some (fst tb), snd tb)
  end.

(* ---- multimap value collections *)
Inductive coll :=
| CInline (lf : leaf)                 (* inline leaf: its keys are the values *)
| CSubtree (h : bhdr) (t : tree).     (* subtree: its keys are the values *)

Definition coll_values (c : coll) : list bytes :=
  match c with
  | CInline lf => map fst (lf_entries lf)
  | CSubtree _ t => map fst (entries t)
  end.

Definition UNIT_WIDTH : width := Some 0.

Fixpoint dcolls (s : store) (vw : width) (es : list (bytes * bytes)) (budget : N)
  : result (list (bytes * coll) * N) :=
  match es with
  | [] => Ok ([], budget)
  | (k, v) :: rest =>
      do c <- decode_collection v;
      do cb <- match c with
               | CollInline lfb => do lf <- decode_leaf vw UNIT_WIDTH lfb; Ok (CInline lf, budget)
               | CollSubtree h => do tb <- dtree DEPTH_FUEL s vw UNIT_WIDTH (bh_root h) budget;
                                  Ok (CSubtree h (fst tb), snd tb)
               end;
      do rb <- dcolls s vw rest (snd cb);
      Ok ((k, fst cb) :: fst rb, snd rb)
  end.

(* ---- tables and forests *)
Record table := mkTable {
  tb_name : bytes;
  tb_def : tabledef;
  tb_tree : option tree;
  tb_colls : list (bytes * coll)      (* multimap only: key -> collection, in key order *)
}.

Definition dtable (s : store) (name defbytes : bytes) (budget : N) : result (table * N) :=
  do d <- decode_tabledef defbytes;
  if td_kind d =? TABLE_MULTIMAP then
    do tb <- droot s (td_ks d) None (td_root d) budget;
    do cb <- dcolls s (td_vs d) (match fst tb with Some t => entries t | None => [] end) (snd tb);
    Ok ({| tb_name := name; tb_def := d; tb_tree := fst tb; tb_colls := fst cb |}, snd cb)
  else
    do tb <- droot s (td_ks d) (td_vs d) (td_root d) budget;
    Ok ({| tb_name := name; tb_def := d; tb_tree := fst tb; tb_colls := [] |}, snd tb).

Fixpoint dtables (s : store) (es : list (bytes * bytes)) (budget : N) : result (list table * N) :=
  match es with
  | [] => Ok ([], budget)
  | (name, defb) :: rest =>
      do tb <- dtable s name defb budget;
      do rb <- dtables s rest (snd tb);
      Ok (fst tb :: fst rb, snd rb)
  end.

Record forest := mkForest {
  fo_root : option bhdr;
  fo_tree : option tree;            (* the table tree: name -> table definition *)
  fo_tables : list table
}.

Definition dforest (s : store) (root : option bhdr) (budget : N) : result (forest * N) :=
  do tb <- droot s None None root budget;
  do ts <- dtables s (match fst tb with Some t => entries t | None => [] end) (snd tb);
  Ok ({| fo_root := root; fo_tree := fst tb; fo_tables := fst ts |}, snd ts).

(* ---- whole image *)
Record db_image := mkDb {
  di_header : header;
  di_file_len : N;
  di_geom : geom;               (* the layout used: from the file length when recovery is required or the stored one is stale *)
  di_slot_index : N;
  di_slot : slot;
  di_slot_sum : N;              (* checksum computed over the chosen slot's first 112 bytes *)
  di_other_sum : N;             (* same for the other slot *)
  di_data : forest;
  di_system : forest
}.

Definition slot_of (h : header) (i : N) : slot := if i =? 0 then h_slot0 h else h_slot1 h.
Definition slot_offset (i : N) : N := if i =? 0 then TRANSACTION_0_OFFSET else TRANSACTION_1_OFFSET.

Definition choose_geom (h : header) (file_len : N) : geom :=
  let stored := geom_of_header h in
  if god_recovery (h_god h) || negb (layout_len stored =? file_len)
  then geom_of_len (h_psz h) (h_hdr_pages h) (h_max_pages h) file_len
  else stored.

Definition total_pages (g : geom) : N := g_full g * g_max_pages g + g_trailing g.

(* the image given as: its first DB_HEADER_SIZE bytes, its length, and its bytes cut into
   page-size chunks (chunk 0 = the super-header page).  The command-line tool cuts the file itself
   and enters here; decode_db_at below is the same thing on a flat byte string. *)
Definition decode_chunks_at (hb : bytes) (file_len : N) (chunks : list bytes) (idx : N) : result db_image :=
  do h <- decode_header hb;
  do _ <- guard ((DB_HEADER_SIZE <=? h_psz h) && (1 <=? h_max_pages h)) "header: page size or region size out of range";
  do _ <- guard (2 * h_psz h <=? file_len) "file shorter than two pages";
  let g := choose_geom h file_len in
  let s := {| st_geom := g; st_file_len := file_len; st_chunks := chunks |} in
  let sl := slot_of h idx in
  let sum i := slot_sum_computed (takeN (dropN hb (slot_offset i)) TRANSACTION_SIZE) in
  do _ <- guard (sl_version sl =? FILE_FORMAT_VERSION3) "slot: file format version is not 3";
  do db <- dforest s (sl_user sl) (total_pages g + 1);
  do sb <- dforest s (sl_system sl) (snd db);
  Ok {| di_header := h; di_file_len := file_len; di_geom := g; di_slot_index := idx; di_slot := sl;
        di_slot_sum := sum idx; di_other_sum := sum (1 - idx);
        di_data := fst db; di_system := fst sb |}.

Definition header_bytes (bs : bytes) : bytes := takeN bs DB_HEADER_SIZE.
Definition chunks_of (bs : bytes) : list bytes :=
  match decode_header (header_bytes bs) with
  | Ok h => if h_psz h =? 0 then [] else chunk (S (N.to_nat (lenN bs / h_psz h))) (h_psz h) bs
  | Err _ _ => []
  end.

Definition decode_db_at (bs : bytes) (idx : N) : result db_image :=
  decode_chunks_at (header_bytes bs) (lenN bs) (chunks_of bs) idx.

(* ---- derived views *)
Definition coll_pages (c : coll) : list pagenum :=
  match c with CInline _ => [] | CSubtree _ t => tree_pages t end.
Definition opt_tree_pages (o : option tree) : list pagenum :=
  match o with Some t => tree_pages t | None => [] end.
Definition table_pages (t : table) : list pagenum :=
  opt_tree_pages (tb_tree t) ++ flat_map (fun kc => coll_pages (snd kc)) (tb_colls t).
Definition forest_pages (f : forest) : list pagenum :=
  opt_tree_pages (fo_tree f) ++ flat_map table_pages (fo_tables f).
(* every page reachable from the chosen slot *)
Definition reach (d : db_image) : list pagenum := forest_pages (di_data d) ++ forest_pages (di_system d).

(* logical contents of a table: normal -> (key, [value]); multimap -> (key, values in order) *)
Definition table_contents (t : table) : list (bytes * list bytes) :=
  if td_kind (tb_def t) =? TABLE_MULTIMAP then map (fun kc => (fst kc, coll_values (snd kc))) (tb_colls t)
  else map (fun e => (fst e, [snd e])) (match tb_tree t with Some tr => entries tr | None => [] end).

Fixpoint find_table (name : bytes) (ts : list table) : option table :=
  match ts with
  | [] => None
  | t :: r => if bytes_eqb (tb_name t) name then Some t else find_table name r
  end.

(* ---- typed contents of the system tables *)
Fixpoint dpagelists (es : list (bytes * bytes)) : result (list (N * N * list pagenum)) :=
  match es with
  | [] => Ok []
  | (k, v) :: r =>
      do key <- of_opt (decode_txn_page_key k) "page list table: key is not 16 bytes";
      do l <- decode_page_list v;
      do rest <- dpagelists r;
      Ok ((fst key, snd key, l) :: rest)
  end.

Definition table_entries (o : option table) : list (bytes * bytes) :=
  match o with
  | Some t => match tb_tree t with Some tr => entries tr | None => [] end
  | None => []
  end.

Definition pagelist_table (d : db_image) (name : bytes) : result (list (N * N * list pagenum)) :=
  dpagelists (table_entries (find_table name (fo_tables (di_system d)))).

Fixpoint dsavepoints (es : list (bytes * bytes)) : result (list savepoint) :=
  match es with
  | [] => Ok []
  | (_, v) :: r => do s <- decode_savepoint v; do rest <- dsavepoints r; Ok (s :: rest)
  end.
Definition savepoints (d : db_image) : result (list savepoint) :=
  dsavepoints (table_entries (find_table NAME_SAVEPOINTS (fo_tables (di_system d)))).

Fixpoint dallocstate (es : list (bytes * bytes)) : result (list (alloc_key * bytes)) :=
  match es with
  | [] => Ok []
  | (k, v) :: r =>
      do key <- of_opt (decode_alloc_key k) "allocator state table: bad key";
      do rest <- dallocstate r;
      Ok ((key, v) :: rest)
  end.
Definition alloc_state (d : db_image) : result (list (alloc_key * bytes)) :=
  dallocstate (table_entries (find_table NAME_ALLOCATOR_STATE (fo_tables (di_system d)))).

Definition next_savepoint_id (d : db_image) : option N :=
  match table_entries (find_table NAME_NEXT_SAVEPOINT (fo_tables (di_system d))) with
  | (_, v) :: _ => Some (le_decode v)
  | [] => None
  end.

Definition pending_free (d : db_image) : result (list pagenum) :=
  do a <- pagelist_table d NAME_DATA_FREED;
  do b <- pagelist_table d NAME_SYSTEM_FREED;
  Ok (flat_map snd a ++ flat_map snd b).
