(* v3 file format, part 2: B+tree leaf and branch pages (docs/design.md "B+tree pages",
   btree_base.rs LeafAccessor/BranchAccessor/RawLeafBuilder/RawBranchBuilder).  Definitions only. *)
From Coq Require Import String.
From RV Require Import Base.Bytes Gen.Consts Format.Xxh3 Format.Codec.
Open Scope N_scope.

(* widths: Some w = fixed width w (no end array stored), None = variable width *)
Definition width := option N.

(* ---- generic: cut a byte string into consecutive pieces ending at the given offsets *)
(* ends are absolute offsets; start is the offset where the first piece begins.
   Fails if an end precedes its start or lies beyond the data. *)
Fixpoint cut (l : bytes) (start : N) (ends : list N) : option (list bytes) :=
  match ends with
  | [] => Some []
  | e :: r =>
      if start <=? e then
        match sub l start (e - start), cut l e r with
        | Some p, Some ps => Some (p :: ps)
        | _, _ => None
        end
      else None
  end.

(* ends of n items: fixed width w -> start + w*(i+1); variable -> u32 array at arr_off *)
Fixpoint fixed_ends (n : nat) (start w : N) : list N :=
  match n with
  | O => []
  | S n' => (start + w) :: fixed_ends n' (start + w) w
  end.

Fixpoint read_u32s (l : bytes) (off : N) (n : nat) : option (list N) :=
  match n with
  | O => Some []
  | S n' =>
      match u32_at l off, read_u32s l (off + 4) n' with
      | Some x, Some xs => Some (x :: xs)
      | _, _ => None
      end
  end.

Definition last_or {A} (l : list A) (d : A) : A := last l d.

(* ---- leaf *)
Record leaf := mkLeaf { lf_entries : list (bytes * bytes); lf_end : N }.

Definition decode_leaf (ks vs : width) (page : bytes) : result leaf :=
  do ty <- of_opt (u8_at page 0) "leaf: empty page";
  do _ <- guard (ty =? LEAF) "leaf: type byte is not LEAF";
  do n <- of_opt (u16_at page 2) "leaf: no entry count";
  do _ <- guard (1 <=? n) "leaf: zero entries";
  let nn := N.to_nat n in
  let koff := 4 in
  let voff := 4 + (match ks with None => 4 * n | Some _ => 0 end) in
  let kstart := voff + (match vs with None => 4 * n | Some _ => 0 end) in
  do kends <- match ks with
              | Some w => Ok (fixed_ends nn kstart w)
              | None => of_opt (read_u32s page koff nn) "leaf: key end array out of range"
              end;
  let vstart := last_or kends kstart in
  do vends <- match vs with
              | Some w => Ok (fixed_ends nn vstart w)
              | None => of_opt (read_u32s page voff nn) "leaf: value end array out of range"
              end;
  do keys <- of_opt (cut page kstart kends) "leaf: key offsets not monotone or out of range";
  do vals <- of_opt (cut page vstart vends) "leaf: value offsets not monotone or out of range";
  Ok {| lf_entries := combine keys vals; lf_end := last_or vends vstart |}.

Fixpoint ends_of (start : N) (items : list bytes) : list N :=
  match items with
  | [] => []
  | x :: r => (start + lenN x) :: ends_of (start + lenN x) r
  end.

Definition u32s (l : list N) : bytes := flat_map (le_encode 4) l.

(* the covered prefix of a leaf page as the writer lays it out (reserved byte 1 = 0) *)
Definition encode_leaf (ks vs : width) (es : list (bytes * bytes)) : bytes :=
  let n := lenN es in
  let keys := map fst es in
  let vals := map snd es in
  let voff := 4 + (match ks with None => 4 * n | Some _ => 0 end) in
  let kstart := voff + (match vs with None => 4 * n | Some _ => 0 end) in
  let kends := ends_of kstart keys in
  let vstart := last_or kends kstart in
  let vends := ends_of vstart vals in
  [LEAF; 0] ++ le_encode 2 n
  ++ (match ks with None => u32s kends | Some _ => [] end)
  ++ (match vs with None => u32s vends | Some _ => [] end)
  ++ concat keys ++ concat vals.

(* ---- branch *)
Record branch := mkBranch {
  br_children : list (N * pagenum);      (* stored child checksum, child page number *)
  br_keys : list bytes;
  br_end : N
}.

Fixpoint read_sums (l : bytes) (off : N) (n : nat) : option (list N) :=
  match n with
  | O => Some []
  | S n' =>
      match u128_at l off, read_sums l (off + 16) n' with
      | Some x, Some xs => Some (x :: xs)
      | _, _ => None
      end
  end.

Fixpoint read_pagenums (l : bytes) (off : N) (n : nat) : option (list pagenum) :=
  match n with
  | O => Some []
  | S n' =>
      match u64_at l off, read_pagenums l (off + 8) n' with
      | Some x, Some xs => Some (pagenum_of_u64 x :: xs)
      | _, _ => None
      end
  end.

Definition decode_branch (ks : width) (page : bytes) : result branch :=
  do ty <- of_opt (u8_at page 0) "branch: empty page";
  do _ <- guard (ty =? BRANCH) "branch: type byte is not BRANCH";
  do n <- of_opt (u16_at page 2) "branch: no key count";
  do _ <- guard (1 <=? n) "branch: zero keys";
  let nn := N.to_nat n in
  let cc := n + 1 in
  do sums <- of_opt (read_sums page 8 (S nn)) "branch: checksum array out of range";
  do pns <- of_opt (read_pagenums page (8 + 16 * cc) (S nn)) "branch: page number array out of range";
  let eoff := 8 + 24 * cc in
  let kstart := eoff + (match ks with None => 4 * n | Some _ => 0 end) in
  do kends <- match ks with
              | Some w => Ok (fixed_ends nn kstart w)
              | None => of_opt (read_u32s page eoff nn) "branch: key end array out of range"
              end;
  do keys <- of_opt (cut page kstart kends) "branch: key offsets not monotone or out of range";
  Ok {| br_children := combine sums pns; br_keys := keys; br_end := last_or kends kstart |}.

Definition encode_branch (ks : width) (children : list (N * pagenum)) (keys : list bytes) : bytes :=
  let n := lenN keys in
  let cc := n + 1 in
  let eoff := 8 + 24 * cc in
  let kstart := eoff + (match ks with None => 4 * n | Some _ => 0 end) in
  [BRANCH; 0] ++ le_encode 2 n ++ [0; 0; 0; 0]
  ++ flat_map (fun c => le_encode 16 (fst c)) children
  ++ flat_map (fun c => encode_pagenum (snd c)) children
  ++ (match ks with None => u32s (ends_of kstart keys) | Some _ => [] end)
  ++ concat keys.

Definition page_kind (page : bytes) : N := match page with b :: _ => b | [] => 0 end.
