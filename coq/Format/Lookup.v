(* C19: "a v3 reader" for point lookups = any program that routes through branch pages by comparing
   the query with the stored routing keys, never decoding them.  Definitions only. *)
From RV Require Import Base.Bytes Format.Codec Format.KeyCmp Format.Decode.
Open Scope N_scope.

Section Lookup.
  Variable cmp : cmp_fn.

  Fixpoint leaf_get (es : list (bytes * bytes)) (k : bytes) : option bytes :=
    match es with
    | [] => None
    | (k', v) :: r => match cmp k k' with Eq => Some v | _ => leaf_get r k end
    end.

  (* descend into the first child whose routing key is >= the query (the last child if none) *)
  Fixpoint lookup (t : tree) (k : bytes) : option bytes :=
    match t with
    | TLeaf _ _ _ es => leaf_get es k
    | TBranch _ _ _ cs ks =>
        (fix go (cs : list (N * tree)) (ks : list bytes) : option bytes :=
           match cs with
           | [] => None
           | c :: cs' =>
               match ks with
               | [] => lookup (snd c) k
               | s :: ks' => match cmp k s with Gt => go cs' ks' | _ => lookup (snd c) k end
               end
           end) cs ks
    end.
End Lookup.
