(* C10 writer model, proofs part 6: model_images_wf.  For EVERY program of C04's mutator model run from the
   empty table, every assignment of page numbers to the nodes of the resulting tree, every region
   geometry (page size, region sizes), every table name / type names, the single-table database image
   assembled by the writer model is a well-formed, checksummed forest (wf_image), and the reader
   decodes from it exactly the encoded contents the sorted-map specification says the program leaves. *)
From Coq Require Import String Sorted.
From RV Require Import Base.Bytes Base.BytesP Base.SortedMap Base.SortedMapP Gen.Consts Format.Xxh3 Format.Xxh3P Format.Codec Format.Pages Format.Records
  Format.KeyCmp Format.Decode Format.DecodeP Format.WF Format.WFP Format.CodecP Format.ChunkP Format.TreeWriter Format.TreeWriterP
  Format.TreeShape Format.TreeShapeP Format.ModelTreeP Format.WritePagesP Format.ImageWriter Format.ImageWriterP
  Btree.Tree Btree.TreeP Btree.Read Btree.Mutator Btree.MutatorP Btree.DeleteP Btree.ProgramP.
Open Scope N_scope.

Section ModelImages.
  Context {K V : Type}.
  Variable cmp : K -> K -> comparison.
  Hypothesis laws : OrderLaws cmp.
  Variable kenc : K -> bytes.             (* Key::as_bytes *)
  Variable venc : V -> bytes.             (* Value::as_bytes *)
  Variable bcmp : cmp_fn.                 (* the byte-level comparator of the key type *)
  Hypothesis Hcmp : forall a b, bcmp (kenc a) (kenc b) = cmp a b.
  Variable f : N.                         (* reserved-byte fill of new pages: 0 (release) / 255 (debug_assertions) *)

  Notation shape_of := (@shape_of K V kenc venc).
  Notation enc_entry := (@enc_entry K V kenc venc).

  (* any tree satisfying C04's invariant *)
  Theorem inv_image_wf (t : @node K V) w g txid ts master_pn :
    BTreeInv cmp t -> shape_of t w ->
    db1_okb f g txid ts master_pn w = true ->
    cmp_of_typename (ts_ktype ts) = Some bcmp ->
    wf_image (db1_image f g txid ts master_pn w)
    /\ image_table_entries (db1_image f g txid ts master_pn w) (ts_name ts) = Some (List.map enc_entry (abs t)).
  Proof.
    intros [h Hi] Hs Hok Hc. split.
    - apply (db1_image_wf f g txid ts master_pn w Hok). rewrite Hc. exists h.
      eapply (inv_wf cmp laws kenc venc bcmp Hcmp f); eauto.
    - unfold image_table_entries. rewrite (decode_db1 f g txid ts master_pn w Hok).
      unfold db1_decoded. cbn [di_data fo_tables find_table tb_name]. rewrite bytes_eqb_refl.
      cbn [table_entries tb_tree]. rewrite finalize_entries. f_equal. apply (shape_entries kenc venc). exact Hs.
  Qed.

  Section Programs.
    Variable ksize : K -> N.
    Variable vsize : V -> N.
    Variable fixed_k fixed_v : bool.
    Variable page_size : N.
    Variable sep : K -> K -> K.
    Variable inplace : list (K * V) -> K -> V -> bool.
    Hypothesis Hsep : valid_sep cmp sep.

    Notation run_tree := (run_tree cmp ksize vsize fixed_k fixed_v page_size sep inplace).

    Theorem model_images_wf (ops : list (@tree_op K V)) t w g txid ts master_pn :
      bt_root (snd (run_tree ops empty_tree)) = Some t ->
      shape_of t w ->
      db1_okb f g txid ts master_pn w = true ->
      cmp_of_typename (ts_ktype ts) = Some bcmp ->
      wf_image (db1_image f g txid ts master_pn w)
      /\ image_table_entries (db1_image f g txid ts master_pn w) (ts_name ts)
         = Some (List.map enc_entry (snd (run cmp (List.map spec_op ops) []))).
    Proof.
      intros Hroot Hs Hok Hc.
      pose proof (program_refines_partial_lemma cmp laws ksize vsize fixed_k fixed_v page_size sep inplace Hsep ops empty_tree) as Hp.
      destruct (run_tree ops empty_tree) as [xs bt] eqn:E. cbn [snd] in Hroot.
      destruct Hp as [Hinv Hrun]; [reflexivity|].
      unfold TreeInv in Hinv. rewrite Hroot in Hinv. destruct Hinv as [Hbi _].
      destruct (inv_image_wf t w g txid ts master_pn Hbi Hs Hok Hc) as [H1 H2].
      split; [exact H1|]. rewrite H2. f_equal. f_equal.
      change (abs_tree empty_tree) with (@nil (K * V)) in Hrun.
      rewrite <- Hrun. cbn [snd]. unfold abs_tree. now rewrite Hroot.
    Qed.
  End Programs.
End ModelImages.
