(* Byte-level comparators of the built-in key types, chosen from the TypeName stored in a table
   definition (classification byte :: utf8 name).  Unknown type -> None: the decoder then skips the
   ordering checks of that table and counts it.  Definitions only.
   (u64 and &[u8] agree with Types/KeyTypes.kcompare TU64 / TBytes of C15.) *)
From Coq Require Import String.
From RV Require Import Base.Bytes Gen.Consts Format.Codec Format.Records.
Open Scope N_scope.

Definition cmp_fn := bytes -> bytes -> comparison.

Definition cmp_unsigned : cmp_fn := fun a b => le_decode a ?= le_decode b.

(* two's complement, little endian, width = length of the encoding: flip the sign bit, compare unsigned *)
Definition signed_key (a : bytes) : N :=
  let w := 8 * lenN a in
  let x := le_decode a in
  if w =? 0 then 0 else N.lxor x (N.shiftl 1 (w - 1)).
Definition cmp_signed : cmp_fn := fun a b => signed_key a ?= signed_key b.

Definition cmp_unit : cmp_fn := fun _ _ => Eq.

Definition cmp_pair_u64 : cmp_fn := fun a b =>
  match le_decode (takeN a 8) ?= le_decode (takeN b 8) with
  | Eq => le_decode (dropN a 8) ?= le_decode (dropN b 8)
  | c => c
  end.

(* derive(Ord) on AllocatorStateKey: Deprecated < Region(n) < RegionTracker < TransactionId *)
Definition alloc_key_rank (a : bytes) : N * N :=
  match decode_alloc_key a with
  | Some AKDeprecated => (0, 0)
  | Some (AKRegion r) => (1, r)
  | Some AKTracker => (2, 0)
  | Some AKTxnId => (3, 0)
  | None => (4, 0)
  end.
Definition cmp_alloc_key : cmp_fn := fun a b =>
  let '(ra, pa) := alloc_key_rank a in
  let '(rb, pb) := alloc_key_rank b in
  match ra ?= rb with Eq => pa ?= pb | c => c end.

Definition T_U8 := Eval vm_compute in ascii_bytes "u8".
Definition T_U16 := Eval vm_compute in ascii_bytes "u16".
Definition T_U32 := Eval vm_compute in ascii_bytes "u32".
Definition T_U64 := Eval vm_compute in ascii_bytes "u64".
Definition T_U128 := Eval vm_compute in ascii_bytes "u128".
Definition T_I8 := Eval vm_compute in ascii_bytes "i8".
Definition T_I16 := Eval vm_compute in ascii_bytes "i16".
Definition T_I32 := Eval vm_compute in ascii_bytes "i32".
Definition T_I64 := Eval vm_compute in ascii_bytes "i64".
Definition T_I128 := Eval vm_compute in ascii_bytes "i128".
Definition T_STR := Eval vm_compute in ascii_bytes "&str".
Definition T_STRING := Eval vm_compute in ascii_bytes "String".
Definition T_BYTES := Eval vm_compute in ascii_bytes "&[u8]".
Definition T_UNIT := Eval vm_compute in ascii_bytes "()".
Definition T_BOOL := Eval vm_compute in ascii_bytes "bool".
Definition T_CHAR := Eval vm_compute in ascii_bytes "char".
Definition T_U8ARR_PREFIX := Eval vm_compute in ascii_bytes "[u8;".
Definition T_TXNPAGE := Eval vm_compute in ascii_bytes "redb::TransactionIdWithPagination".
Definition T_SAVEPOINT_ID := Eval vm_compute in ascii_bytes "redb::SavepointId".
Definition T_ALLOC_KEY := Eval vm_compute in ascii_bytes "redb::AllocatorStateKey".

Fixpoint is_prefix (p l : bytes) : bool :=
  match p, l with
  | [], _ => true
  | x :: p', y :: l' => (x =? y) && is_prefix p' l'
  | _ :: _, [] => false
  end.

Fixpoint first_match (name : bytes) (tbl : list (bytes * cmp_fn)) : option cmp_fn :=
  match tbl with
  | [] => None
  | (n, f) :: r => if bytes_eqb n name then Some f else first_match name r
  end.

Definition internal_cmps : list (bytes * cmp_fn) :=
  [ (T_U8, cmp_unsigned); (T_U16, cmp_unsigned); (T_U32, cmp_unsigned); (T_U64, cmp_unsigned);
    (T_U128, cmp_unsigned); (T_I8, cmp_signed); (T_I16, cmp_signed); (T_I32, cmp_signed);
    (T_I64, cmp_signed); (T_I128, cmp_signed); (T_STR, lex_cmp); (T_STRING, lex_cmp);
    (T_BYTES, lex_cmp); (T_UNIT, cmp_unit); (T_BOOL, cmp_unsigned); (T_CHAR, cmp_unsigned);
    (T_TXNPAGE, cmp_pair_u64); (T_SAVEPOINT_ID, cmp_unsigned); (T_ALLOC_KEY, cmp_alloc_key) ].

(* tn = classification byte :: name *)
Definition cmp_of_typename (tn : bytes) : option cmp_fn :=
  match tn with
  | [] => None
  | c :: name =>
      if c =? TYPE_CLASS_INTERNAL then
        match first_match name internal_cmps with
        | Some f => Some f
        | None => if is_prefix T_U8ARR_PREFIX name then Some lex_cmp else None
        end
      else if c =? TYPE_CLASS_INTERNAL3 then
        if is_prefix T_U8ARR_PREFIX name then Some lex_cmp else None   (* [u8;N] written by 4.2+ *)
      else None
  end.
