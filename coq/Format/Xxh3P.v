(* XXH3-128 model: the result is a 128-bit number (needed by the writer model: a checksum is stored in
   16 bytes, so the stored value equals the computed one only if it fits). *)
From RV Require Import Base.Bytes Format.Xxh3.
Open Scope N_scope.

Lemma lt_pow2_log2 a n : a < 2 ^ n <-> (a = 0 \/ N.log2 a < n).
Proof.
  destruct (N.eq_dec a 0) as [->|Ha].
  - split; [auto|]. intros _. apply N.neq_0_lt_0. apply N.pow_nonzero. lia.
  - split.
    + intro H. right. apply N.log2_lt_pow2; lia.
    + intros [H|H]; [contradiction|]. apply N.log2_lt_pow2; lia.
Qed.

Lemma lxor_lt_pow2 a b n : a < 2 ^ n -> b < 2 ^ n -> N.lxor a b < 2 ^ n.
Proof.
  intros Ha Hb. apply lt_pow2_log2.
  destruct (N.eq_dec (N.lxor a b) 0) as [E|E]; [left; exact E|right].
  pose proof (N.log2_lxor a b) as H.
  apply lt_pow2_log2 in Ha, Hb.
  destruct Ha as [->|Ha], Hb as [->|Hb].
  - rewrite N.lxor_0_l in E. congruence.
  - rewrite N.lxor_0_l in *. exact Hb.
  - rewrite N.lxor_0_r in *. exact Ha.
  - lia.
Qed.

Lemma shiftr_le a s : N.shiftr a s <= a.
Proof.
  rewrite N.shiftr_div_pow2.
  assert (0 < 2 ^ s) by (apply N.neq_0_lt_0; apply N.pow_nonzero; lia).
  apply N.div_le_upper_bound; [lia|]. nia.
Qed.

Lemma w64_lt x : w64 x < 2 ^ 64.
Proof. unfold w64. change mask64 with (N.ones 64). rewrite N.land_ones. apply N.mod_lt. apply N.pow_nonzero. lia. Qed.

Lemma xorshift_lt x s : x < 2 ^ 64 -> xorshift x s < 2 ^ 64.
Proof.
  intro H. unfold xorshift. apply lxor_lt_pow2; [exact H|].
  eapply N.le_lt_trans; [apply shiftr_le|exact H].
Qed.

Lemma mul64_lt a b : mul64 a b < 2 ^ 64.
Proof. apply w64_lt. Qed.

Lemma xxh64_avalanche_lt x : xxh64_avalanche x < 2 ^ 64.
Proof. unfold xxh64_avalanche. apply xorshift_lt. apply mul64_lt. Qed.

Lemma xxh3_avalanche_lt x : xxh3_avalanche x < 2 ^ 64.
Proof. unfold xxh3_avalanche. apply xorshift_lt. apply mul64_lt. Qed.

Lemma join128_lt lo hi : lo < 2 ^ 64 -> hi < 2 ^ 64 -> join128 lo hi < 2 ^ 128.
Proof.
  intros H1 H2. unfold join128. change two64 with (2 ^ 64). change (2 ^ 128) with (2 ^ 64 * 2 ^ 64). nia.
Qed.

Lemma finish_mid_lt st len : finish_mid st len < 2 ^ 128.
Proof.
  destruct st as [s0 s1]. unfold finish_mid. apply join128_lt; [apply xxh3_avalanche_lt|].
  unfold neg64. apply w64_lt.
Qed.

Theorem xxh3_128_bound d : xxh3_128 d < 2 ^ 128.
Proof.
  unfold xxh3_128.
  destruct (Nat.eqb (length d) 0).
  { unfold h128_0. apply join128_lt; apply xxh64_avalanche_lt. }
  destruct (Nat.ltb (length d) 4).
  { unfold h128_1to3. apply join128_lt; apply xxh64_avalanche_lt. }
  destruct (Nat.leb (length d) 8).
  { unfold h128_4to8. apply join128_lt; [|apply xxh3_avalanche_lt].
    apply xorshift_lt. apply mul64_lt. }
  destruct (Nat.leb (length d) 16).
  { unfold h128_9to16. apply join128_lt; apply xxh3_avalanche_lt. }
  destruct (Nat.leb (length d) 128).
  { unfold h128_17to128. apply finish_mid_lt. }
  destruct (Nat.leb (length d) 240).
  { unfold h128_129to240. apply finish_mid_lt. }
  unfold h128_large.
  destruct (acc_blocks _ _ _) as [acc ws1].
  destruct (acc_stripes _ _ _ _) as [acc2 x].
  apply join128_lt; apply xxh3_avalanche_lt.
Qed.
