(* C10 proofs, part 3: the tree walk is faithful to the bytes -- every node of a decoded tree is the
   decoding of the page at its page number, its `sum` is XXH3-128 of exactly the covered prefix of
   that page, and a branch's children are the pages its child array names, with the stored
   checksums kept verbatim.  (So `fst c = tree_sum (snd c)` in wf_tree really says: the checksum
   stored in the parent equals the hash of the child page's covered bytes.) *)
From Coq Require Import String.
From RV Require Import Base.Bytes Gen.Consts Format.Xxh3 Format.Codec Format.Pages Format.Records
  Format.KeyCmp Format.Decode.
Open Scope N_scope.

Inductive node_ok (s : store) (ks vs : width) : tree -> Prop :=
| nok_leaf : forall p page lf,
    fetch s p = Ok page -> page_kind page = LEAF -> decode_leaf ks vs page = Ok lf ->
    node_ok s ks vs (TLeaf p (lf_end lf) (xxh3_128 (takeN page (lf_end lf))) (lf_entries lf))
| nok_branch : forall p page br cs,
    fetch s p = Ok page -> page_kind page = BRANCH -> decode_branch ks page = Ok br ->
    map (fun c => (fst c, tree_pn (snd c))) cs = br_children br ->
    Forall (fun c => node_ok s ks vs (snd c)) cs ->
    node_ok s ks vs (TBranch p (br_end br) (xxh3_128 (takeN page (br_end br))) cs (br_keys br)).

Lemma bind_ok {A B} (r : result A) (f : A -> result B) b :
  bind r f = Ok b -> exists a, r = Ok a /\ f a = Ok b.
Proof. destruct r; cbn; intro H; [eauto | discriminate]. Qed.

Lemma at_loc_ok {A} loc (r : result A) a : at_loc loc r = Ok a -> r = Ok a.
Proof. destruct r as [x|m l]; cbn; [auto|]. destruct l; discriminate. Qed.

Theorem dtree_faithful : forall fuel s ks vs p b t b',
  dtree fuel s ks vs p b = Ok (t, b') -> node_ok s ks vs t /\ tree_pn t = p.
Proof.
  induction fuel as [|f IH]; intros s ks vs p b t b' H; [discriminate|].
  cbn [dtree] in H.
  apply bind_ok in H. destruct H as (u & _ & H).
  apply bind_ok in H. destruct H as (page & Hfetch & H).
  destruct (page_kind page =? LEAF) eqn:Ek.
  - apply bind_ok in H. destruct H as (lf & Hlf & H). apply at_loc_ok in Hlf.
    inversion H; subst. split; [|reflexivity].
    econstructor; eauto. apply N.eqb_eq; exact Ek.
  - destruct (page_kind page =? BRANCH) eqn:Eb; [|discriminate].
    apply bind_ok in H. destruct H as (br & Hbr & H). apply at_loc_ok in Hbr.
    apply bind_ok in H. destruct H as (r & Hgo & H).
    inversion H; subst. split; [|reflexivity].
    (* the inner loop over the child array *)
    assert (Hloop : forall (cs : list (N * pagenum)) b0 r0,
      (fix go (cs : list (N * pagenum)) (b : N) {struct cs} : result (list (N * tree) * N) :=
         match cs with
         | [] => Ok ([], b)
         | (ck, c) :: rest =>
             do tb <- dtree f s ks vs c b; do rb <- go rest (snd tb); Ok ((ck, fst tb) :: fst rb, snd rb)
         end) cs b0 = Ok r0 ->
      map (fun c => (fst c, tree_pn (snd c))) (fst r0) = cs
      /\ Forall (fun c => node_ok s ks vs (snd c)) (fst r0)).
    { induction cs as [|[ck c] rest IHr]; intros b0 r0 Hr.
      - inversion Hr; subst. cbn. split; constructor.
      - apply bind_ok in Hr. destruct Hr as ([t1 b1] & Hd & Hr).
        apply bind_ok in Hr. destruct Hr as (rb & Hrest & Hr).
        inversion Hr; subst. cbn [fst snd map].
        destruct (IH _ _ _ _ _ _ _ Hd) as [Hn Hp].
        destruct (IHr _ _ Hrest) as [Hm Hf].
        split.
        + cbn [fst snd]. rewrite Hp, Hm. reflexivity.
        + constructor; auto. }
    destruct (Hloop _ _ _ Hgo) as [Hm Hf].
    econstructor; eauto. apply N.eqb_eq; exact Eb.
Qed.
