(* A small concrete v3 image assembled with the encoders of the model (the "model writer"), used for
   non-vacuity: it is accepted by wf_imageb, decodes to the intended contents, and single-byte
   damage is rejected.  One table u64 -> u64 whose tree has a branch root and two leaves. *)
From Coq Require Import String.
From RV Require Import Base.Bytes Gen.Consts Format.Xxh3 Format.Codec Format.Pages Format.Records
  Format.KeyCmp Format.Decode Format.WF.
Open Scope N_scope.

Definition k8 (n : N) : bytes := le_encode 8 n.
Definition pg (i : N) : pagenum := {| pn_region := 0; pn_index := i; pn_order := 0 |}.

Definition ex_leaf1 : bytes := encode_leaf (Some 8) (Some 8) [(k8 1, k8 10); (k8 2, k8 20)].
Definition ex_leaf2 : bytes := encode_leaf (Some 8) (Some 8) [(k8 3, k8 30); (k8 7, k8 70)].
(* the separator 2 <= s < 3 is the left child's greatest key *)
Definition ex_branch : bytes :=
  encode_branch (Some 8) [(xxh3_128 ex_leaf1, pg 2); (xxh3_128 ex_leaf2, pg 3)] [k8 2].
Definition ex_tdef : tabledef :=
  {| td_kind := TABLE_NORMAL; td_len := 4;
     td_root := Some {| bh_root := pg 1; bh_sum := xxh3_128 ex_branch; bh_len := 4 |};
     td_ks := Some 8; td_vs := Some 8; td_kalign := 1; td_valign := 1;
     td_ktype := TYPE_CLASS_INTERNAL :: T_U64; td_vtype := TYPE_CLASS_INTERNAL :: T_U64 |}.
Definition ex_master : bytes := encode_leaf None None [(ascii_bytes "t", encode_tabledef ex_tdef)].
Definition ex_header (psz god : N) : header :=
  {| h_god := god; h_psz := psz; h_hdr_pages := 0; h_max_pages := 64; h_full := 0; h_trailing := 4;
     h_slot0 := make_slot FILE_FORMAT_VERSION3
                  (Some {| bh_root := pg 0; bh_sum := xxh3_128 ex_master; bh_len := 1 |}) None 1;
     h_slot1 := make_slot FILE_FORMAT_VERSION3 None None 0 |}.

(* the image for a page size and a god byte (the real crates are given god = RECOVERY_REQUIRED so
   that they rebuild their allocator state by walking the trees) *)
Definition ex_image_of (psz god : N) : bytes :=
  let pad_page l := l ++ zeros (N.to_nat (psz - lenN l)) in
  pad_page (encode_header (ex_header psz god)) ++ pad_page ex_master ++ pad_page ex_branch
  ++ pad_page ex_leaf1 ++ pad_page ex_leaf2.

Definition ex_image : bytes := ex_image_of 512 0.

(* the same image with byte number i replaced by b *)
Fixpoint set_byte (l : bytes) (i : nat) (b : N) : bytes :=
  match l, i with
  | [], _ => []
  | _ :: r, O => b :: r
  | x :: r, S i' => x :: set_byte r i' b
  end.

Definition ex_contents : result (list (bytes * list (bytes * list bytes))) :=
  match decode_db ex_image SlotPrimary with
  | Ok d => Ok (map (fun t => (tb_name t, table_contents t)) (fo_tables (di_data d)))
  | Err m l => Err m l
  end.
