(* C10 writer model, proofs part 1: what finalize/tree_image write is read back by the reader
   (Format/Decode.v dtree) as exactly the finalized tree -- for every tree, every page assignment. *)
From Coq Require Import String.
From RV Require Import Base.Bytes Base.BytesP Gen.Consts Format.Xxh3 Format.Xxh3P Format.Codec Format.Pages Format.Records
  Format.KeyCmp Format.Decode Format.DecodeP Format.WF Format.WFP Format.CodecP Format.ChunkP Format.TreeWriter.
Open Scope N_scope.

(* ---- page round trips with an arbitrary reserved-byte fill (the proofs of CodecP.v, the reserved bytes generalised) *)
Theorem roundtrip_leaf_f f ks vs es pad :
  es <> [] -> lenN es < 2 ^ 16 ->
  width_fits ks (map fst es) -> width_fits vs (map snd es) ->
  lenN (encode_leaf_f f ks vs es) < 2 ^ 32 ->
  decode_leaf ks vs (encode_leaf_f f ks vs es ++ pad)
  = Ok {| lf_entries := es; lf_end := lenN (encode_leaf_f f ks vs es) |}.
Proof.
  intros Hne Hn Hks Hvs Htot.
  unfold encode_leaf_f in *.
  set (n := lenN es) in *. set (keys := map fst es) in *. set (vals := map snd es) in *.
  set (voff := 4 + ends_bytes ks n).
  set (kstart := voff + ends_bytes vs n).
  change (4 + match ks with None => 4 * n | Some _ => 0 end) with voff in *.
  change (voff + match vs with None => 4 * n | Some _ => 0 end) with kstart in *.
  set (kends := ends_of kstart keys) in *.
  set (vstart := last_or kends kstart) in *.
  set (vends := ends_of vstart vals) in *.
  set (KE := match ks with None => u32s kends | Some _ => [] end) in *.
  set (VE := match vs with None => u32s vends | Some _ => [] end) in *.
  assert (Hnk : lenN keys = n) by (unfold keys; apply lenN_map).
  assert (Hnv : lenN vals = n) by (unfold vals; apply lenN_map).
  assert (HKE : lenN KE = ends_bytes ks n).
  { unfold KE, ends_bytes. destruct ks; [reflexivity|]. rewrite lenN_u32s. unfold kends. now rewrite lenN_ends_of, Hnk. }
  assert (HVE : lenN VE = ends_bytes vs n).
  { unfold VE, ends_bytes. destruct vs; [reflexivity|]. rewrite lenN_u32s. unfold vends. now rewrite lenN_ends_of, Hnv. }
  set (H4 := [LEAF; f] ++ le_encode 2 n).
  assert (HH4 : lenN H4 = 4) by reflexivity.
  assert (Hvstart : vstart = kstart + lenN (concat keys)).
  { unfold vstart, last_or, kends. apply last_ends_of. }
  assert (Hend : last_or vends vstart = vstart + lenN (concat vals)).
  { unfold last_or, vends. apply last_ends_of. }
  assert (Hlen : lenN ((([LEAF; f] ++ le_encode 2 n ++ KE ++ VE ++ concat keys ++ concat vals))) = vstart + lenN (concat vals)).
  { rewrite !lenN_app, lenN_le_encode, HKE, HVE, Hvstart. unfold kstart, voff. cbn [lenN length N.of_nat Pos.of_succ_nat Pos.succ]. lia. }
  rewrite Hlen in *.
  (* the page *)
  set (page := ([LEAF; f] ++ le_encode 2 n ++ KE ++ VE ++ concat keys ++ concat vals) ++ pad).
  unfold decode_leaf.
  assert (E0 : u8_at page 0 = Some LEAF) by reflexivity. rewrite E0. cbn [of_opt bind].
  rewrite N.eqb_refl. cbn [guard bind].
  assert (E1 : u16_at page 2 = Some n).
  { unfold u16_at, uint_at. assert (E : sub page 2 2 = Some (le_encode 2 n)) by (unfold page; sub_solve).
    change (N.of_nat 2) with 2 in *. rewrite E. now rewrite le_decode_encode. }
  rewrite E1. cbn [of_opt bind].
  assert (Hn1 : 1 <=? n = true).
  { apply N.leb_le. unfold n. destruct es; [congruence|]. rewrite lenN_cons. lia. }
  rewrite Hn1. cbn [guard bind].
  assert (Hnn : N.to_nat n = length keys) by (rewrite <- Hnk; unfold lenN; now rewrite Nat2N.id).
  assert (Hnn2 : N.to_nat n = length vals) by (rewrite <- Hnv; unfold lenN; now rewrite Nat2N.id).
  fold voff. fold kstart.
  change (4 + match ks with None => 4 * n | Some _ => 0 end) with voff.
  change (voff + match vs with None => 4 * n | Some _ => 0 end) with kstart.
  (* key ends *)
  assert (Hkb : Forall (fun e => e < 2 ^ 32) kends).
  { eapply Forall_impl; [|apply (ends_of_bound keys kstart (vstart + lenN (concat vals)))]; [intros; cbn beta in *; lia | lia]. }
  assert (Hvb : Forall (fun e => e < 2 ^ 32) vends).
  { eapply Forall_impl; [|apply (ends_of_bound vals vstart (vstart + lenN (concat vals)))]; [intros; cbn beta in *; lia | lia]. }
  assert (EK : match ks with
               | Some w => Ok (fixed_ends (N.to_nat n) kstart w)
               | None => of_opt (read_u32s page 4 (N.to_nat n)) "leaf: key end array out of range"
               end = Ok kends).
  { destruct ks as [w|].
    - rewrite Hnn. unfold kends. f_equal. apply fixed_ends_ends_of. exact Hks.
    - assert (R : read_u32s page 4 (N.to_nat n) = Some kends).
      { unfold page, KE. rewrite Hnn, <- (ends_of_length kstart keys). fold kends.
        replace 4 with (lenN H4) by exact HH4.
        replace (([LEAF; f] ++ le_encode 2 n ++ u32s kends ++ VE ++ concat keys ++ concat vals) ++ pad)
          with (H4 ++ u32s kends ++ (VE ++ concat keys ++ concat vals ++ pad))
          by (unfold H4; now rewrite <- !app_assoc).
        apply read_u32s_app. exact Hkb. }
      rewrite R. reflexivity. }
  rewrite EK. cbn [bind]. fold vstart.
  assert (EV : match vs with
               | Some w => Ok (fixed_ends (N.to_nat n) vstart w)
               | None => of_opt (read_u32s page voff (N.to_nat n)) "leaf: value end array out of range"
               end = Ok vends).
  { destruct vs as [w|].
    - rewrite Hnn2. unfold vends. f_equal. apply fixed_ends_ends_of. exact Hvs.
    - assert (R : read_u32s page voff (N.to_nat n) = Some vends).
      { unfold page, VE. rewrite Hnn2, <- (ends_of_length vstart vals). fold vends.
        replace voff with (lenN (H4 ++ KE)) by (rewrite lenN_app, HH4, HKE; reflexivity).
        replace (([LEAF; f] ++ le_encode 2 n ++ KE ++ u32s vends ++ concat keys ++ concat vals) ++ pad)
          with ((H4 ++ KE) ++ u32s vends ++ (concat keys ++ concat vals ++ pad))
          by (unfold H4; now rewrite <- !app_assoc).
        apply read_u32s_app. exact Hvb. }
      rewrite R. reflexivity. }
  rewrite EV. cbn [bind].
  assert (CK : cut page kstart kends = Some keys).
  { unfold page, kends.
    replace kstart with (lenN (H4 ++ KE ++ VE)) by (rewrite !lenN_app, HH4, HKE, HVE; unfold kstart, voff; lia).
    replace (([LEAF; f] ++ le_encode 2 n ++ KE ++ VE ++ concat keys ++ concat vals) ++ pad)
      with ((H4 ++ KE ++ VE) ++ concat keys ++ (concat vals ++ pad))
      by (unfold H4; now rewrite <- !app_assoc).
    apply cut_ends_of. }
  rewrite CK. cbn [of_opt bind].
  assert (CV : cut page vstart vends = Some vals).
  { unfold page, vends.
    replace vstart with (lenN ((H4 ++ KE ++ VE) ++ concat keys))
      by (rewrite !lenN_app, HH4, HKE, HVE, Hvstart; unfold kstart, voff; lia).
    replace (([LEAF; f] ++ le_encode 2 n ++ KE ++ VE ++ concat keys ++ concat vals) ++ pad)
      with (((H4 ++ KE ++ VE) ++ concat keys) ++ concat vals ++ pad)
      by (unfold H4; now rewrite <- !app_assoc).
    apply cut_ends_of. }
  rewrite CV. cbn [of_opt bind].
  unfold keys, vals. rewrite combine_fst_snd. rewrite Hend. reflexivity.
Qed.


Theorem roundtrip_branch_f f ks children keys pad :
  keys <> [] -> lenN keys < 2 ^ 16 -> length children = S (length keys) ->
  Forall (fun c => fst c < 2 ^ 128 /\ pn_valid (snd c) = true) children ->
  width_fits ks keys ->
  lenN (encode_branch_f f ks children keys) < 2 ^ 32 ->
  decode_branch ks (encode_branch_f f ks children keys ++ pad)
  = Ok {| br_children := children; br_keys := keys; br_end := lenN (encode_branch_f f ks children keys) |}.
Proof.
  intros Hne Hn Hcc Hch Hks Htot.
  unfold encode_branch_f in *.
  set (n := lenN keys) in *.
  set (eoff := 8 + 24 * (n + 1)) in *.
  set (kstart := eoff + ends_bytes ks n).
  change (eoff + match ks with None => 4 * n | Some _ => 0 end) with kstart in *.
  set (kends := ends_of kstart keys) in *.
  set (KE := match ks with None => u32s kends | Some _ => [] end) in *.
  rewrite (flat_map_map (le_encode 16) fst children) in *.
  rewrite (flat_map_map encode_pagenum snd children) in *.
  set (sums := map fst children) in *. set (pns := map snd children) in *.
  assert (Hcn : lenN children = n + 1).
  { unfold lenN, n. rewrite Hcc. rewrite Nat2N.inj_succ. unfold lenN. lia. }
  assert (Hsn : lenN sums = n + 1) by (unfold sums; now rewrite lenN_map).
  assert (Hpn : lenN pns = n + 1) by (unfold pns; now rewrite lenN_map).
  set (SB := flat_map (le_encode 16) sums) in *. set (PB := flat_map encode_pagenum pns) in *.
  assert (HSB : lenN SB = 16 * (n + 1)).
  { unfold SB. rewrite (lenN_flat_map_const (le_encode 16) 16); [now rewrite Hsn|]. intro; apply lenN_le_encode. }
  assert (HPB : lenN PB = 8 * (n + 1)).
  { unfold PB. rewrite (lenN_flat_map_const encode_pagenum 8); [now rewrite Hpn|]. intro; apply lenN_encode_pagenum. }
  assert (HKE : lenN KE = ends_bytes ks n).
  { unfold KE, ends_bytes. destruct ks; [reflexivity|]. rewrite lenN_u32s. unfold kends. now rewrite lenN_ends_of. }
  set (H8 := [BRANCH; f] ++ le_encode 2 n ++ [f; f; f; f]).
  assert (HH8 : lenN H8 = 8) by reflexivity.
  assert (Hend : last_or kends kstart = kstart + lenN (concat keys)).
  { unfold last_or, kends. apply last_ends_of. }
  assert (Hlen : lenN ([BRANCH; f] ++ le_encode 2 n ++ [f; f; f; f] ++ SB ++ PB ++ KE ++ concat keys) = kstart + lenN (concat keys)).
  { rewrite !lenN_app, lenN_le_encode, HSB, HPB, HKE. unfold kstart, eoff. cbn [lenN length N.of_nat Pos.of_succ_nat Pos.succ]. lia. }
  rewrite Hlen in *.
  set (page := ([BRANCH; f] ++ le_encode 2 n ++ [f; f; f; f] ++ SB ++ PB ++ KE ++ concat keys) ++ pad).
  unfold decode_branch.
  assert (E0 : u8_at page 0 = Some BRANCH) by reflexivity. rewrite E0. cbn [of_opt bind].
  rewrite N.eqb_refl. cbn [guard bind].
  assert (E1 : u16_at page 2 = Some n).
  { unfold u16_at, uint_at. assert (E : sub page 2 2 = Some (le_encode 2 n)) by (unfold page; sub_solve).
    change (N.of_nat 2) with 2 in *. rewrite E. now rewrite le_decode_encode. }
  rewrite E1. cbn [of_opt bind].
  assert (Hn1 : 1 <=? n = true).
  { apply N.leb_le. unfold n. destruct keys; [congruence|]. rewrite lenN_cons. lia. }
  rewrite Hn1. cbn [guard bind].
  assert (Hnn : N.to_nat n = length keys) by (unfold n, lenN; now rewrite Nat2N.id).
  assert (Hls : S (N.to_nat n) = length sums) by (unfold sums; rewrite map_length, Hcc, Hnn; reflexivity).
  assert (Hlp : S (N.to_nat n) = length pns) by (unfold pns; rewrite map_length, Hcc, Hnn; reflexivity).
  assert (RS : read_sums page 8 (S (N.to_nat n)) = Some sums).
  { rewrite Hls. unfold page. replace 8 with (lenN H8) by exact HH8.
    replace (([BRANCH; f] ++ le_encode 2 n ++ [f; f; f; f] ++ SB ++ PB ++ KE ++ concat keys) ++ pad)
      with (H8 ++ SB ++ (PB ++ KE ++ concat keys ++ pad)) by (unfold H8; now rewrite <- !app_assoc).
    apply read_sums_app. unfold sums. rewrite Forall_map. eapply Forall_impl; [|exact Hch]. intros c [H _]; exact H. }
  rewrite RS. cbn [of_opt bind].
  assert (RP : read_pagenums page (8 + 16 * (n + 1)) (S (N.to_nat n)) = Some pns).
  { rewrite Hlp. unfold page. replace (8 + 16 * (n + 1)) with (lenN (H8 ++ SB)) by (rewrite lenN_app, HH8, HSB; reflexivity).
    replace (([BRANCH; f] ++ le_encode 2 n ++ [f; f; f; f] ++ SB ++ PB ++ KE ++ concat keys) ++ pad)
      with ((H8 ++ SB) ++ PB ++ (KE ++ concat keys ++ pad)) by (unfold H8; now rewrite <- !app_assoc).
    apply read_pagenums_app. unfold pns. rewrite Forall_map. eapply Forall_impl; [|exact Hch]. intros c [_ H]; exact H. }
  rewrite RP. cbn [of_opt bind].
  fold eoff. fold kstart.
  change (eoff + match ks with None => 4 * n | Some _ => 0 end) with kstart.
  assert (Hkb : Forall (fun e => e < 2 ^ 32) kends).
  { eapply Forall_impl; [|apply (ends_of_bound keys kstart (kstart + lenN (concat keys)))]; [intros; cbn beta in *; lia | lia]. }
  assert (EK : match ks with
               | Some w => Ok (fixed_ends (N.to_nat n) kstart w)
               | None => of_opt (read_u32s page eoff (N.to_nat n)) "branch: key end array out of range"
               end = Ok kends).
  { destruct ks as [w|].
    - rewrite Hnn. unfold kends. f_equal. apply fixed_ends_ends_of. exact Hks.
    - assert (R : read_u32s page eoff (N.to_nat n) = Some kends).
      { unfold page, KE. rewrite Hnn, <- (ends_of_length kstart keys). fold kends.
        replace eoff with (lenN (H8 ++ SB ++ PB)) by (rewrite !lenN_app, HH8, HSB, HPB; unfold eoff; lia).
        replace (([BRANCH; f] ++ le_encode 2 n ++ [f; f; f; f] ++ SB ++ PB ++ u32s kends ++ concat keys) ++ pad)
          with ((H8 ++ SB ++ PB) ++ u32s kends ++ (concat keys ++ pad))
          by (unfold H8; now rewrite <- !app_assoc).
        apply read_u32s_app. exact Hkb. }
      rewrite R. reflexivity. }
  rewrite EK. cbn [bind].
  assert (CK : cut page kstart kends = Some keys).
  { unfold page, kends.
    replace kstart with (lenN (H8 ++ SB ++ PB ++ KE)) by (rewrite !lenN_app, HH8, HSB, HPB, HKE; unfold kstart, eoff; lia).
    replace (([BRANCH; f] ++ le_encode 2 n ++ [f; f; f; f] ++ SB ++ PB ++ KE ++ concat keys) ++ pad)
      with ((H8 ++ SB ++ PB ++ KE) ++ concat keys ++ pad)
      by (unfold H8; now rewrite <- !app_assoc).
    apply cut_ends_of. }
  rewrite CK. cbn [of_opt bind].
  unfold sums, pns. rewrite combine_fst_snd. rewrite Hend. reflexivity.
Qed.

Lemma encode_leaf_f_0 ks vs es : encode_leaf_f 0 ks vs es = encode_leaf ks vs es.
Proof. reflexivity. Qed.

Lemma encode_branch_f_0 ks cs keys : encode_branch_f 0 ks cs keys = encode_branch ks cs keys.
Proof. reflexivity. Qed.

(* ---- induction principle for the nested writer tree *)
Section WTreeInd.
  Variable P : wtree -> Prop.
  Hypothesis Hl : forall p es, P (WLeaf p es).
  Hypothesis Hb : forall p cs ks, Forall P cs -> P (WBranch p cs ks).
  Fixpoint wtree_ind2 (t : wtree) : P t :=
    match t with
    | WLeaf p es => Hl p es
    | WBranch p cs ks =>
        Hb p cs ks
          ((fix go (l : list wtree) : Forall P l :=
              match l with
              | [] => Forall_nil _
              | x :: r => Forall_cons x (wtree_ind2 x) (go r)
              end) cs)
    end.
End WTreeInd.

Section Fill.
Variable f : N.

(* ---- structure of the finalized tree *)
Lemma finalize_pn ks vs t : tree_pn (finalize f ks vs t) = wpn t.
Proof. destruct t; reflexivity. Qed.

Lemma map_snd_stored (ds : list tree) : map snd (map (fun d => (tree_sum d, d)) ds) = ds.
Proof. induction ds; cbn; [reflexivity | now rewrite IHds]. Qed.

Lemma flat_map_stored {B} (fm : tree -> list B) (ds : list tree) :
  flat_map (fun c : N * tree => fm (snd c)) (map (fun d => (tree_sum d, d)) ds) = flat_map fm ds.
Proof. induction ds; cbn; [reflexivity | now rewrite IHds]. Qed.

Lemma flat_map_map_ext {A B C} (fm : B -> list C) (g : A -> B) (h : A -> list C) l :
  Forall (fun x => fm (g x) = h x) l -> flat_map fm (map g l) = flat_map h l.
Proof. induction 1; cbn; [reflexivity | now rewrite H, IHForall]. Qed.

Lemma finalize_entries ks vs : forall t, entries (finalize f ks vs t) = wentries t.
Proof.
  induction t as [p es | p cs keys IH] using wtree_ind2; [reflexivity|].
  cbn [finalize entries wentries]. rewrite (flat_map_stored entries). now apply flat_map_map_ext.
Qed.

Lemma finalize_pages ks vs : forall t, tree_pages (finalize f ks vs t) = wpages t.
Proof.
  induction t as [p es | p cs keys IH] using wtree_ind2; [reflexivity|].
  cbn [finalize tree_pages wpages]. f_equal. rewrite (flat_map_stored tree_pages). now apply flat_map_map_ext.
Qed.

Lemma child_refs_stored ks vs cs :
  child_refs (map (fun d => (tree_sum d, d)) (map (finalize f ks vs) cs))
  = map (fun c => (tree_sum (finalize f ks vs c), wpn c)) cs.
Proof.
  unfold child_refs. rewrite !map_map. apply map_ext. intro c. cbn [fst snd]. now rewrite finalize_pn.
Qed.

(* the length of a branch page does not depend on the checksum values *)
Lemma lenN_encode_branch ks ch keys :
  lenN (encode_branch_f f ks ch keys)
  = 8 + 24 * lenN ch
    + lenN (match ks with None => u32s (ends_of (8 + 24 * (lenN keys + 1) + ends_bytes ks (lenN keys)) keys) | Some _ => [] end)
    + lenN (concat keys).
Proof.
  unfold encode_branch_f, ends_bytes. rewrite !lenN_app.
  rewrite (lenN_flat_map_const (fun c : N * pagenum => le_encode 16 (fst c)) 16) by (intro; apply lenN_le_encode).
  rewrite (lenN_flat_map_const (fun c : N * pagenum => encode_pagenum (snd c)) 8) by (intro; apply lenN_encode_pagenum).
  rewrite lenN_le_encode. cbn [lenN length N.of_nat Pos.of_succ_nat Pos.succ]. lia.
Qed.

Lemma lenN_encode_branch_indep ks (A : Type) (f0 g : A -> N * pagenum) (l : list A) keys :
  lenN (encode_branch_f f ks (map f0 l) keys) = lenN (encode_branch_f f ks (map g l) keys).
Proof. rewrite !lenN_encode_branch, !lenN_map. reflexivity. Qed.

Lemma finalize_node_len ks vs t : lenN (node_bytes f ks vs (finalize f ks vs t)) = wnode_len f ks vs t.
Proof.
  destruct t as [p es | p cs keys]; [reflexivity|].
  cbn [finalize node_bytes wnode_len]. rewrite child_refs_stored. apply lenN_encode_branch_indep.
Qed.

Lemma finalize_cov ks vs t : tree_cov (finalize f ks vs t) = lenN (node_bytes f ks vs (finalize f ks vs t)).
Proof. destruct t; reflexivity. Qed.

Lemma finalize_sum ks vs t : tree_sum (finalize f ks vs t) = xxh3_128 (node_bytes f ks vs (finalize f ks vs t)).
Proof. destruct t; reflexivity. Qed.

(* ---- layout facts *)
Lemma fetch_ok_in_layout s p page : fetch s p = Ok page -> in_layout (st_geom s) p = true /\ page_end (st_geom s) p <= st_file_len s.
Proof.
  unfold fetch. intro H. apply at_loc_ok in H.
  destruct (in_layout (st_geom s) p); cbn [guard bind] in H; [|discriminate].
  destruct (page_end (st_geom s) p <=? st_file_len s) eqn:E; cbn [guard bind] in H; [|discriminate].
  split; [reflexivity|]. now apply N.leb_le.
Qed.

Lemma geom_ok_parts g : geom_ok g = true ->
  g_max_pages g <= MAX_PAGE_INDEX + 1 /\ g_trailing g <= g_max_pages g /\ num_regions g <= MAX_REGIONS.
Proof.
  unfold geom_ok. intro H. repeat (apply andb_true_iff in H; destruct H as [H ?]).
  repeat match goal with H : (_ <=? _) = true |- _ => apply N.leb_le in H end. auto.
Qed.

Lemma in_layout_pn_valid g p : geom_ok g = true -> in_layout g p = true -> pn_valid p = true.
Proof.
  intros Hg Hin. destruct (geom_ok_parts g Hg) as (Hm & Ht & Hr).
  pose proof (in_layout_bound g p Hin) as Hb.
  pose proof (region_pages_le g (pn_region p) Ht) as Hrp.
  unfold in_layout in Hin. apply andb_true_iff in Hin. destruct Hin as [Hin _].
  apply andb_true_iff in Hin. destruct Hin as [Ho Hreg]. apply N.leb_le in Ho. apply N.ltb_lt in Hreg.
  unfold pn_valid. change MAX_MAX_PAGE_ORDER with 20 in *. change MAX_REGIONS with 1048576 in *. rewrite (proj2 (N.leb_le _ _) Ho). cbn [andb].
  assert (Hr2 : pn_region p <? 1048576 = true) by (apply N.ltb_lt; lia). rewrite Hr2. cbn [andb].
  apply N.leb_le.
  rewrite MAX_PAGE_INDEX_ones, (shiftr_ones 20 (pn_order p)) by exact Ho.
  rewrite N.ones_equiv.
  unfold page_pages in Hb. rewrite N.shiftl_1_l in Hb.
  assert (E : 2 ^ (20 - pn_order p) * 2 ^ pn_order p = 2 ^ 20) by (rewrite <- N.pow_add_r; f_equal; lia).
  change (MAX_PAGE_INDEX + 1) with (2 ^ 20) in Hm.
  assert (0 < 2 ^ pn_order p) by (apply N.neq_0_lt_0; apply N.pow_nonzero; lia).
  assert (Hlt : (pn_index p + 1) * 2 ^ pn_order p <= 2 ^ (20 - pn_order p) * 2 ^ pn_order p) by lia.
  apply N.mul_le_mono_pos_r in Hlt; [|assumption]. lia.
Qed.

(* ---- page level *)
Lemma page_kind_leaf ks vs es pad : page_kind (encode_leaf_f f ks vs es ++ pad) = LEAF.
Proof. reflexivity. Qed.

Lemma page_kind_branch ks cs keys pad : page_kind (encode_branch_f f ks cs keys ++ pad) = BRANCH.
Proof. reflexivity. Qed.

Lemma width_fitsb_sound w l : width_fitsb w l = true -> width_fits w l.
Proof.
  destruct w as [x|]; cbn; [|auto]. intro H.
  eapply forallb_Forall; [|exact H]. intros i Hi. now apply N.eqb_eq.
Qed.

Lemma nonemptyb_sound {A} (l : list A) : nonemptyb l = true -> l <> [].
Proof. destruct l; cbn; congruence. Qed.

Lemma Forall_flat_map {A B} (P : B -> Prop) (fm : A -> list B) l :
  Forall P (flat_map fm l) <-> Forall (fun x => Forall P (fm x)) l.
Proof.
  induction l as [|x l IH]; cbn.
  - split; constructor.
  - rewrite Forall_app, IH. split.
    + intros [H1 H2]. constructor; auto.
    + intro H. inversion H; subst. auto.
Qed.

Lemma wheight_child p cs keys c : In c cs -> (wheight c < wheight (WBranch p cs keys))%nat.
Proof.
  cbn [wheight]. induction cs as [|x cs IH]; [contradiction|].
  intros [->|Hin]; cbn [fold_right]; [lia|]. specialize (IH Hin). lia.
Qed.

Lemma lenN_flat_map_cons {A B} (fm : A -> list B) x l : lenN (flat_map fm (x :: l)) = lenN (fm x) + lenN (flat_map fm l).
Proof. cbn [flat_map]. apply lenN_app. Qed.

(* ---- the tree-level round trip *)
Theorem dtree_finalize ks vs s : geom_ok (st_geom s) = true ->
  forall t fuel budget,
  limits_okb f ks vs t = true ->
  (wheight t < fuel)%nat ->
  lenN (wpages t) <= budget ->
  Forall (holds s) (tree_image f ks vs (finalize f ks vs t)) ->
  dtree fuel s ks vs (wpn t) budget = Ok (finalize f ks vs t, budget - lenN (wpages t)).
Proof.
  intros Hg.
  induction t as [p es | p cs keys IH] using wtree_ind2; intros fuel budget Hlim Hfuel Hbud Hholds.
  - (* leaf *)
    destruct fuel as [|fu]; [lia|].
    cbn [limits_okb] in Hlim. repeat (apply andb_true_iff in Hlim; destruct Hlim as [Hlim ?]).
    cbn [finalize tree_image node_bytes] in Hholds. inversion Hholds as [|? ? [pad Hpad] _]; subst.
    cbn [fst snd] in Hpad.
    cbn [wpages] in Hbud. change (lenN [p]) with 1 in *.
    cbn [dtree wpn].
    rewrite (proj2 (N.leb_le 1 budget) Hbud). cbn [guard at_loc bind].
    rewrite Hpad. cbn [bind]. rewrite page_kind_leaf, N.eqb_refl.
    rewrite roundtrip_leaf_f.
    + cbn [at_loc bind lf_end lf_entries]. rewrite takeN_app. reflexivity.
    + now apply nonemptyb_sound.
    + now apply N.ltb_lt.
    + now apply width_fitsb_sound.
    + now apply width_fitsb_sound.
    + now apply N.ltb_lt.
  - (* branch *)
    destruct fuel as [|fu]; [lia|].
    cbn [limits_okb] in Hlim. repeat (apply andb_true_iff in Hlim; destruct Hlim as [Hlim ?]).
    rename H into Hkids, H0 into Hsz, H1 into Hkw, H2 into Hcc, H3 into Hn16.
    cbn [finalize tree_image] in Hholds.
    inversion Hholds as [|? ? [pad Hpad] Hrest]; subst. cbn [fst snd] in Hpad.
    rewrite (flat_map_stored (tree_image f ks vs)) in Hrest.
    cbn [finalize node_bytes] in Hpad.
    set (ds := map (finalize f ks vs) cs) in *.
    set (stored := map (fun d => (tree_sum d, d)) ds) in *.
    cbn [wpages] in Hbud. rewrite lenN_cons in Hbud.
    cbn [dtree wpn].
    assert (Hb1 : 1 <=? budget = true) by (apply N.leb_le; lia).
    rewrite Hb1. cbn [guard at_loc bind].
    rewrite Hpad. cbn [bind]. rewrite page_kind_branch.
    change (BRANCH =? LEAF) with false. cbv iota. rewrite N.eqb_refl.
    (* every child page is held by the image, so its page number is valid *)
    assert (Hheld : Forall (fun c => Forall (holds s) (tree_image f ks vs (finalize f ks vs c))) cs).
    { apply Forall_flat_map in Hrest. unfold ds in Hrest. rewrite Forall_map in Hrest. exact Hrest. }
    assert (Hvalid : Forall (fun c : N * pagenum => fst c < 2 ^ 128 /\ pn_valid (snd c) = true) (child_refs stored)).
    { unfold stored, ds. rewrite child_refs_stored. rewrite Forall_map.
      eapply Forall_impl; [|exact Hheld]. intros c Hc. cbn [fst snd]. split.
      - rewrite finalize_sum. apply xxh3_128_bound.
      - assert (Hh : holds s (wpn c, node_bytes f ks vs (finalize f ks vs c))).
        { destruct c; cbn [finalize tree_image] in Hc; inversion Hc; subst; assumption. }
        destruct Hh as [pd Hf]. cbn [fst] in Hf. apply fetch_ok_in_layout in Hf.
        eapply in_layout_pn_valid; [exact Hg | tauto]. }
    rewrite roundtrip_branch_f.
    + cbn [at_loc bind br_children br_keys br_end]. rewrite takeN_app.
      (* the loop over the children *)
      assert (Hloop : forall (l : list wtree) b,
        Forall (fun t => forall fuel budget, limits_okb f ks vs t = true -> (wheight t < fuel)%nat ->
                  lenN (wpages t) <= budget -> Forall (holds s) (tree_image f ks vs (finalize f ks vs t)) ->
                  dtree fuel s ks vs (wpn t) budget = Ok (finalize f ks vs t, budget - lenN (wpages t))) l ->
        Forall (fun c => limits_okb f ks vs c = true) l ->
        Forall (fun c => (wheight c < fu)%nat) l ->
        Forall (fun c => Forall (holds s) (tree_image f ks vs (finalize f ks vs c))) l ->
        lenN (flat_map wpages l) <= b ->
        (fix go (cs : list (N * pagenum)) (b : N) {struct cs} : result (list (N * tree) * N) :=
           match cs with
           | [] => Ok ([], b)
           | (ck, c) :: rest =>
               do tb <- dtree fu s ks vs c b; do rb <- go rest (snd tb); Ok ((ck, fst tb) :: fst rb, snd rb)
           end) (child_refs (map (fun d => (tree_sum d, d)) (map (finalize f ks vs) l))) b
        = Ok (map (fun d => (tree_sum d, d)) (map (finalize f ks vs) l), b - lenN (flat_map wpages l))).
      { induction l as [|c l IHl]; intros b HIH Hl Hh Hhd Hb.
        - cbn. f_equal. f_equal. lia.
        - inversion HIH; subst. inversion Hl; subst. inversion Hh; subst. inversion Hhd; subst.
          rewrite lenN_flat_map_cons in Hb.
          cbn [map child_refs fst snd]. rewrite finalize_pn.
          match goal with H : forall fuel budget, _ |- _ => rewrite (H fu b) by (auto; lia) end.
          cbn [bind fst snd].
          fold (child_refs (map (fun d => (tree_sum d, d)) (map (finalize f ks vs) l))).
          rewrite IHl by (auto; lia). cbn [bind fst snd]. rewrite lenN_flat_map_cons.
          f_equal. f_equal. lia. }
      unfold stored, ds. rewrite Hloop.
      * cbn [bind fst snd finalize wpages]. rewrite lenN_cons. f_equal. f_equal. lia.
      * exact IH.
      * eapply forallb_Forall; [|exact Hkids]. auto.
      * rewrite Forall_forall. intros c Hc. pose proof (wheight_child p cs keys c Hc). lia.
      * exact Hheld.
      * lia.
    + now apply nonemptyb_sound.
    + now apply N.ltb_lt.
    + unfold child_refs, stored, ds. rewrite !map_length. now apply PeanoNat.Nat.eqb_eq.
    + exact Hvalid.
    + now apply width_fitsb_sound.
    + unfold stored, ds. rewrite child_refs_stored.
      cbn [wnode_len] in Hsz. apply N.ltb_lt in Hsz.
      erewrite lenN_encode_branch_indep. exact Hsz.
Qed.
End Fill.
