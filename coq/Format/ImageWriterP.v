(* C10 writer model, proofs part 5: the single-table database image assembled by the writer model is
   decoded by the reader to the expected forest and satisfies the specification wf_db -- hence
   wf_image -- for every table tree satisfying C04's invariant, every placement, every geometry. *)
From Coq Require Import String Sorted.
From RV Require Import Base.Bytes Base.BytesP Base.SortedMap Base.SortedMapP Gen.Consts Format.Xxh3 Format.Xxh3P Format.Codec Format.Pages Format.Records
  Format.KeyCmp Format.Decode Format.DecodeP Format.WF Format.WFP Format.CodecP Format.ChunkP Format.TreeWriter Format.TreeWriterP
  Format.TreeShape Format.TreeShapeP Format.ModelTreeP Format.WritePagesP Format.ImageWriter.
Open Scope N_scope.

(* ---- the pages of a finalized tree, node by node *)
Lemma tree_image_nodes f ks vs : forall w,
  tree_image f ks vs (finalize f ks vs w)
  = List.map (fun n => (wpn n, node_bytes f ks vs (finalize f ks vs n))) (wnodes w).
Proof.
  induction w as [p es | p cs keys IH] using wtree_ind2; [reflexivity|].
  cbn [finalize tree_image wnodes List.map wpn]. f_equal.
  rewrite (flat_map_stored (tree_image f ks vs)).
  induction IH as [|c cs Hc _ IHl]; [reflexivity|].
  cbn [List.map flat_map]. rewrite map_app, Hc, IHl. reflexivity.
Qed.

Lemma wnodes_pages : forall w, List.map wpn (wnodes w) = wpages w.
Proof.
  induction w as [p es | p cs keys IH] using wtree_ind2; [reflexivity|].
  cbn [wnodes wpages List.map wpn]. f_equal.
  induction IH as [|c cs Hc _ IHl]; [reflexivity|].
  cbn [flat_map]. rewrite map_app, Hc, IHl. reflexivity.
Qed.

Lemma tree_image_pages f ks vs w : List.map fst (tree_image f ks vs (finalize f ks vs w)) = wpages w.
Proof. rewrite tree_image_nodes, map_map. cbn [fst]. apply wnodes_pages. Qed.

Lemma FOP_map_iff {A B} (R : B -> B -> Prop) (fm : A -> B) l :
  ForallOrdPairs R (List.map fm l) -> ForallOrdPairs (fun a b => R (fm a) (fm b)) l.
Proof.
  induction l as [|a l IH]; cbn [List.map]; intro H; [constructor|].
  inversion H; subst. constructor; [|auto]. now rewrite Forall_map in *.
Qed.

Lemma page_start_ge g p : g_psz g <= page_start g p.
Proof. unfold page_start. lia. Qed.

(* ---- written pages are held by the store the reader builds from the image *)
Lemma write_pages_holds g base ps :
  0 < g_psz g -> geom_ok g = true ->
  Forall (fun pb => in_layout g (fst pb) = true /\ page_end g (fst pb) <= lenN base
                    /\ lenN (snd pb) <= page_len g (fst pb)) ps ->
  ForallOrdPairs pages_disjoint (List.map fst ps) ->
  lenN (write_pages g base ps) = lenN base
  /\ Forall (holds (store_of (write_pages g base ps) g)) ps
  /\ (forall o n, o + n <= g_psz g -> slice (write_pages g base ps) o n = slice base o n).
Proof.
  intros Hp Hg Hall Hdis.
  pose proof (geom_ok_trailing _ Hg) as Ht.
  assert (Hin : Forall (fun pb => snd (wrange g pb) <= lenN base) ps).
  { eapply Forall_impl; [|exact Hall]. intros [p b] (H1 & H2 & H3). cbn [wrange fst snd] in *.
    unfold page_end in H2. lia. }
  assert (Hap : ForallOrdPairs (fun a b => ranges_apart (wrange g a) (wrange g b)) ps).
  { apply FOP_map_iff in Hdis.
    eapply FOP_map; [|exact Hall|exact Hdis].
    intros [p b] [q c] (A1 & A2 & A3) (B1 & B2 & B3) Hd. cbn [fst snd] in *.
    pose proof (disjoint_ranges g p q Ht A1 B1 Hd) as Hr. unfold ranges_disjoint, page_end in Hr.
    unfold ranges_apart. cbn [wrange fst snd]. lia. }
  pose proof (write_pages_len g ps base Hin) as Hlen.
  split; [exact Hlen|]. split.
  - pose proof (write_pages_reads g ps base Hin Hap) as Hr.
    rewrite Forall_forall in *. intros [p b] Hpb. specialize (Hr _ Hpb). destruct (Hall _ Hpb) as (H1 & H2 & H3).
    cbn [fst snd] in *. unfold holds. cbn [fst snd].
    exists (slice (write_pages g base ps) (page_start g p + lenN b) (page_len g p - lenN b)).
    rewrite fetch_store_of; [|exact Hp|exact H1|rewrite Hlen; exact H2].
    f_equal. replace (page_len g p) with (lenN b + (page_len g p - lenN b)) at 1 by lia.
    rewrite slice_split, Hr. reflexivity.
  - intros o n Hon. apply write_pages_frame; [exact Hin|].
    eapply Forall_impl; [|exact Hall]. intros [p b] _. unfold ranges_apart. cbn [wrange fst snd].
    pose proof (page_start_ge g p). lia.
Qed.

(* ---- small codec facts *)
Lemma sub_some l o n x : sub l o n = Some x -> takeN (dropN l o) n = x.
Proof. unfold sub. destruct (lenN (takeN (dropN l o) n) =? n); congruence. Qed.

Lemma header_slot0 h : takeN (dropN (encode_header h) TRANSACTION_0_OFFSET) TRANSACTION_SIZE = encode_slot (h_slot0 h).
Proof.
  apply sub_some. unfold encode_header.
  pose proof (lenN_encode_slot (h_slot0 h)) as H0. pose proof (lenN_encode_slot (h_slot1 h)) as H1.
  set (S0 := encode_slot (h_slot0 h)) in *. set (S1 := encode_slot (h_slot1 h)) in *.
  sub_solve.
Qed.

Lemma header_slot1 h : takeN (dropN (encode_header h) TRANSACTION_1_OFFSET) TRANSACTION_SIZE = encode_slot (h_slot1 h).
Proof.
  apply sub_some. unfold encode_header.
  pose proof (lenN_encode_slot (h_slot0 h)) as H0. pose proof (lenN_encode_slot (h_slot1 h)) as H1.
  set (S0 := encode_slot (h_slot0 h)) in *. set (S1 := encode_slot (h_slot1 h)) in *.
  sub_solve.
Qed.

Lemma make_slot_sum v u s t : slot_sum_computed (encode_slot (make_slot v u s t)) = sl_sum (make_slot v u s t).
Proof.
  unfold slot_sum_computed, encode_slot, make_slot. cbn [sl_version sl_user sl_system sl_txid sl_sum].
  rewrite (takeN_app_n (slot_body v u s t) _ SLOT_CHECKSUM_OFFSET (lenN_slot_body v u s t)). reflexivity.
Qed.

Lemma lenN_encode_header h : lenN (encode_header h) = DB_HEADER_SIZE.
Proof.
  unfold encode_header. rewrite !lenN_app, lenN_MAGIC, !lenN_le_encode, lenN_zeros, !lenN_encode_slot. reflexivity.
Qed.

Lemma god_of_header h : u8_at (encode_header h) GOD_BYTE_OFFSET = Some (h_god h).
Proof. reflexivity. Qed.

Lemma wpages_head w : exists r, wpages w = wpn w :: r.
Proof. destruct w; cbn; eauto. Qed.

Lemma geom_of_db1_header g txid mhdr : geom_of_header (db1_header g txid mhdr) = g.
Proof. destruct g; reflexivity. Qed.

Lemma width_okb_sound w : width_okb w = true -> width_ok w.
Proof. destruct w; cbn; [|auto]. intro H. now apply N.ltb_lt in H. Qed.

Lemma layout_len_ge g : geom_ok g = true -> 2 * g_psz g <= layout_len g.
Proof.
  unfold geom_ok. intro H. repeat (apply andb_true_iff in H; destruct H as [H ?]).
  repeat match goal with H : (_ <=? _) = true |- _ => apply N.leb_le in H end.
  unfold layout_len, num_regions, region_len in *.
  destruct (g_trailing g =? 0) eqn:E; rewrite ?E in *.
  - assert (1 <= g_full g) by lia.
    assert (g_psz g * 1 <= g_psz g * (g_full g * (g_hdr_pages g + g_max_pages g))) by (apply N.mul_le_mono_l; nia).
    lia.
  - apply N.eqb_neq in E.
    assert (g_psz g * 1 <= g_psz g * (g_hdr_pages g + g_trailing g)) by (apply N.mul_le_mono_l; lia).
    lia.
Qed.

Section Db1.
  Variable f : N.
  Variable g : geom.
  Variable txid : N.
  Variable ts : table_spec.
  Variable master_pn : pagenum.
  Variable w : wtree.
  Hypothesis Hok : db1_okb f g txid ts master_pn w = true.

  Notation ks := (ts_ks ts).
  Notation vs := (ts_vs ts).
  Let d := finalize f ks vs w.
  Let hdr := tree_header d.
  Let td := table_def ts hdr.
  Let mw := master_tree ts master_pn hdr.
  Let m := finalize f None None mw.
  Let mhdr := tree_header m.
  Let H := db1_header g txid mhdr.
  Let base := write_at (zeros (N.to_nat (layout_len g))) 0 (encode_header H).
  Let ps := tree_image f None None m ++ tree_image f ks vs d.
  Let bs := db1_image f g txid ts master_pn w.

  Lemma bs_eq : bs = write_pages g base ps.
  Proof. reflexivity. Qed.

  Lemma ok_parts :
    geom_ok g = true /\ g_psz g < 2 ^ 32 /\ writer_okb f ks vs w = true /\ writer_okb f None None mw = true
    /\ Forall (fun n => wnode_len f ks vs n <= page_len g (wpn n)) (wnodes w)
    /\ wnode_len f None None mw <= page_len g master_pn
    /\ wf_pages g (layout_len g) (master_pn :: wpages w)
    /\ lenN (wpages w) <= total_pages g
    /\ txid < 2 ^ 64 /\ lenN (wentries w) < 2 ^ 64
    /\ width_ok ks /\ width_ok vs
    /\ 1 <= lenN (ts_ktype ts) < 2 ^ 32 /\ 1 <= lenN (ts_vtype ts).
  Proof.
    pose proof Hok as E. unfold db1_okb in E.
    do 14 (apply andb_true_iff in E; destruct E as [E ?]).
    repeat match goal with
           | X : (_ <=? _) = true |- _ => apply N.leb_le in X
           | X : (_ <? _) = true |- _ => apply N.ltb_lt in X
           end.
    split; [exact E|]. split; [assumption|]. split; [assumption|]. split; [assumption|].
    split; [eapply forallb_Forall; [|eassumption]; intros n Hn; now apply N.leb_le|].
    split; [assumption|].
    split; [now apply wf_pagesb_sound|].
    split; [assumption|]. split; [assumption|]. split; [assumption|].
    split; [now apply width_okb_sound|]. split; [now apply width_okb_sound|].
    split; [split; assumption|assumption].
  Qed.

  Let Hg : geom_ok g = true := proj1 ok_parts.

  Lemma psz_ge : DB_HEADER_SIZE <= g_psz g.
  Proof.
    pose proof Hg as E. unfold geom_ok in E. repeat (apply andb_true_iff in E; destruct E as [E ?]).
    now apply N.leb_le.
  Qed.

  Lemma psz_pos : 0 < g_psz g.
  Proof. pose proof psz_ge. change DB_HEADER_SIZE with 320 in *. lia. Qed.

  Lemma lenN_base : lenN base = layout_len g.
  Proof.
    unfold base. rewrite write_at_len; rewrite lenN_zeros, N2Nat.id; [reflexivity|].
    rewrite lenN_encode_header. pose proof (layout_len_ge g Hg). pose proof psz_ge. lia.
  Qed.

  Lemma ps_pages : List.map fst ps = master_pn :: wpages w.
  Proof. unfold ps. rewrite map_app. unfold d. rewrite tree_image_pages. reflexivity. Qed.

  Lemma ps_facts :
    Forall (fun pb => in_layout g (fst pb) = true /\ page_end g (fst pb) <= lenN base
                      /\ lenN (snd pb) <= page_len g (fst pb)) ps.
  Proof.
    pose proof ok_parts as (_ & _ & _ & _ & Hsz & Hmsz & [Hpok _] & _).
    rewrite lenN_base. inversion Hpok as [|? ? [Hm1 Hm2] Hrest]; subst.
    unfold ps. apply Forall_app. split.
    - constructor; [|constructor]. cbn [fst snd]. split; [exact Hm1|]. split; [exact Hm2|]. exact Hmsz.
    - unfold d. rewrite tree_image_nodes, Forall_map. cbn [fst snd].
      rewrite <- wnodes_pages, Forall_map in Hrest.
      rewrite Forall_forall in *. intros n Hn. destruct (Hrest n Hn) as [A B].
      repeat split; auto. rewrite finalize_node_len. now apply Hsz.
  Qed.

  Lemma ps_disjoint : ForallOrdPairs pages_disjoint (List.map fst ps).
  Proof. rewrite ps_pages. pose proof ok_parts as (_ & _ & _ & _ & _ & _ & [_ Hd] & _). exact Hd. Qed.

  Lemma bs_len : lenN bs = layout_len g.
  Proof.
    rewrite bs_eq. destruct (write_pages_holds g base ps psz_pos Hg ps_facts ps_disjoint) as (Hl & _ & _).
    rewrite Hl. apply lenN_base.
  Qed.

  Lemma bs_holds : Forall (holds (store_of bs g)) ps.
  Proof. rewrite bs_eq. now destruct (write_pages_holds g base ps psz_pos Hg ps_facts ps_disjoint) as (_ & Hh & _). Qed.

  Lemma bs_header : header_bytes bs = encode_header H.
  Proof.
    unfold header_bytes. rewrite <- (dropN_0 bs). fold (slice bs 0 DB_HEADER_SIZE). rewrite bs_eq.
    destruct (write_pages_holds g base ps psz_pos Hg ps_facts ps_disjoint) as (_ & _ & Hf).
    rewrite Hf by (pose proof psz_ge; lia).
    unfold base. rewrite <- (lenN_encode_header H). apply slice_write_same.
    rewrite lenN_zeros, N2Nat.id, lenN_encode_header. pose proof (layout_len_ge g Hg). pose proof psz_ge. lia.
  Qed.

  Lemma root_pages_valid : pn_valid master_pn = true /\ pn_valid (wpn w) = true.
  Proof.
    pose proof ok_parts as (_ & _ & _ & _ & _ & _ & [Hpok _] & _).
    destruct (wpages_head w) as [r Hr]. rewrite Hr in Hpok.
    inversion Hpok as [|? ? [A _] Hrest]; subst. inversion Hrest as [|? ? [B _] _]; subst.
    split; eapply in_layout_pn_valid; eauto.
  Qed.

  Lemma hdr_ok : bhdr_ok hdr.
  Proof.
    pose proof ok_parts as (_ & _ & _ & _ & _ & _ & _ & _ & _ & Hn & _).
    unfold bhdr_ok, hdr, tree_header, d. cbn [bh_root bh_sum bh_len].
    rewrite finalize_pn, finalize_sum, finalize_entries. split; [apply root_pages_valid|].
    split; [apply xxh3_128_bound|exact Hn].
  Qed.

  Lemma mhdr_ok : bhdr_ok mhdr.
  Proof.
    unfold bhdr_ok, mhdr, tree_header, m, mw, master_tree. cbn [finalize tree_pn tree_sum entries bh_root bh_sum bh_len].
    split; [apply root_pages_valid|]. split; [apply xxh3_128_bound|]. cbn. lia.
  Qed.

  Lemma H_ok : header_ok H.
  Proof.
    pose proof ok_parts as (_ & Hp & _ & _ & _ & _ & _ & _ & Htx & _).
    destruct (geom_ok_parts g Hg) as (Hm & Ht & Hr).
    pose proof Hg as E. unfold geom_ok in E. repeat (apply andb_true_iff in E; destruct E as [E ?]).
    repeat match goal with X : (_ <=? _) = true |- _ => apply N.leb_le in X end.
    change (MAX_PAGE_INDEX + 1) with 1048576 in *. change MAX_REGIONS with 1048576 in *.
    unfold header_ok, H, db1_header. cbn [h_god h_psz h_hdr_pages h_max_pages h_full h_trailing h_slot0 h_slot1].
    split; [lia|]. split; [exact Hp|]. split; [lia|]. split; [lia|].
    split; [unfold num_regions in *; destruct (g_trailing g =? 0); lia|]. split; [lia|].
    split.
    - unfold slot_ok, make_slot. cbn [sl_version sl_user sl_system sl_txid sl_sum opt_bhdr_ok].
      split; [reflexivity|]. split; [apply mhdr_ok|]. split; [exact I|]. split; [exact Htx|apply xxh3_128_bound].
    - unfold slot_ok, make_slot. cbn [sl_version sl_user sl_system sl_txid sl_sum opt_bhdr_ok].
      split; [reflexivity|]. split; [exact I|]. split; [exact I|]. split; [reflexivity|apply xxh3_128_bound].
  Qed.

  Lemma td_ok : tabledef_ok td.
  Proof.
    pose proof ok_parts as (_ & _ & _ & _ & _ & _ & _ & _ & _ & Hn & Hks & Hvs & Hkt & Hvt).
    unfold tabledef_ok, td, table_def. cbn [td_kind td_len td_root td_ks td_vs td_kalign td_valign td_ktype td_vtype opt_bhdr_ok].
    split; [left; reflexivity|]. split; [apply hdr_ok|]. split; [apply hdr_ok|].
    split; [exact Hks|]. split; [exact Hvs|]. split; [reflexivity|]. split; [reflexivity|]. split; [exact Hkt|exact Hvt].
  Qed.

  Lemma geom_of_H : geom_of_header H = g.
  Proof. apply geom_of_db1_header. Qed.

  Lemma chunks_eq : chunks_of bs = st_chunks (store_of bs g).
  Proof.
    unfold chunks_of. rewrite bs_header, (codec_roundtrip_header H H_ok).
    change (h_psz H) with (g_psz g).
    assert (E : g_psz g =? 0 = false) by (apply N.eqb_neq; pose proof psz_pos; lia).
    rewrite E. reflexivity.
  Qed.

  Lemma store_eq : {| st_geom := g; st_file_len := lenN bs; st_chunks := chunks_of bs |} = store_of bs g.
  Proof. unfold store_of. now rewrite chunks_eq. Qed.

  Lemma holds_master : Forall (holds (store_of bs g)) (fst (encode_tree f None None mw)).
  Proof. pose proof bs_holds as Hh. unfold ps in Hh. apply Forall_app in Hh. exact (proj1 Hh). Qed.

  Lemma holds_tree : Forall (holds (store_of bs g)) (fst (encode_tree f ks vs w)).
  Proof. pose proof bs_holds as Hh. unfold ps in Hh. apply Forall_app in Hh. exact (proj2 Hh). Qed.

  Theorem decode_db1 : decode_db bs SlotPrimary = Ok (db1_decoded f g txid ts master_pn w).
  Proof.
    pose proof ok_parts as (_ & _ & Hwok & Hmok & _ & _ & _ & Hbud & _).
    unfold decode_db, decode_chunks. rewrite bs_header. unfold primary_index. rewrite god_of_header.
    change (god_primary (h_god H)) with 0.
    unfold decode_chunks_at. rewrite (codec_roundtrip_header H H_ok). cbn [bind].
    change (h_psz H) with (g_psz g). change (h_max_pages H) with (g_max_pages g).
    assert (G1 : (DB_HEADER_SIZE <=? g_psz g) && (1 <=? g_max_pages g) = true).
    { pose proof Hg as E. unfold geom_ok in E. repeat (apply andb_true_iff in E; destruct E as [E ?]).
      apply andb_true_iff. split; assumption. }
    rewrite G1. cbn [guard bind].
    assert (G2 : 2 * g_psz g <=? lenN bs = true).
    { apply N.leb_le. rewrite bs_len. apply layout_len_ge. exact Hg. }
    rewrite G2. cbn [guard bind].
    assert (G3 : choose_geom H (lenN bs) = g).
    { unfold choose_geom. rewrite geom_of_H, bs_len, N.eqb_refl. reflexivity. }
    rewrite G3. rewrite store_eq.
    change (slot_of H 0) with (h_slot0 H).
    change (sl_version (h_slot0 H) =? FILE_FORMAT_VERSION3) with true. cbn [guard bind].
    change (sl_user (h_slot0 H)) with (Some mhdr). change (sl_system (h_slot0 H)) with (@None bhdr).
    (* the data forest *)
    unfold dforest at 1.
    assert (D1 : droot (store_of bs g) None None (Some mhdr) (total_pages g + 1)
                 = Ok (Some m, total_pages g + 1 - 1)).
    { apply (droot_encode_tree f None None (store_of bs g) mw (total_pages g + 1) Hg Hmok); [cbn; lia|exact holds_master]. }
    rewrite D1. cbn [bind fst snd].
    change (entries m) with [(ts_name ts, encode_tabledef td)].
    cbn [dtables]. unfold dtable at 1. rewrite (codec_roundtrip_tabledef td td_ok). cbn [bind].
    change (td_kind td =? TABLE_MULTIMAP) with false. cbv iota.
    change (td_ks td) with ks. change (td_vs td) with vs. change (td_root td) with (Some hdr).
    assert (D2 : droot (store_of bs g) ks vs (Some hdr) (total_pages g + 1 - 1)
                 = Ok (Some d, total_pages g + 1 - 1 - lenN (wpages w))).
    { apply (droot_encode_tree f ks vs (store_of bs g) w (total_pages g + 1 - 1) Hg Hwok); [lia|exact holds_tree]. }
    rewrite D2. cbn [bind fst snd].
    (* the (empty) system forest *)
    unfold dforest. cbn [droot bind fst snd dtables].
    (* the record *)
    unfold db1_decoded. fold d. fold hdr. fold mw. fold m. fold mhdr. fold H. fold td.
    rewrite bs_len. cbn [slot_offset N.eqb]. change (1 - 0) with 1. cbn [N.eqb slot_offset].
    rewrite header_slot0. change (slot_offset 1) with TRANSACTION_1_OFFSET. rewrite header_slot1.
    unfold H at 4 6. cbn [h_slot0 h_slot1 db1_header]. rewrite !make_slot_sum. reflexivity.
  Qed.

  Theorem db1_decoded_wf :
    (exists h, wf_tree (cmp_of_typename (ts_ktype ts)) (finalize f ks vs w) h) ->
    wf_db (db1_decoded f g txid ts master_pn w).
  Proof.
    intros Hwf. pose proof ok_parts as (_ & _ & _ & _ & _ & _ & Hpages & _).
    unfold wf_db, db1_decoded. fold d. fold hdr. fold mw. fold m. fold mhdr. fold H. fold td.
    cbn [di_geom di_file_len di_slot di_slot_sum di_data di_system].
    split; [exact Hg|]. split; [reflexivity|]. split; [reflexivity|]. split; [reflexivity|].
    split; [|split].
    - (* data forest *)
      unfold wf_forest. cbn [fo_root fo_tree fo_tables]. split.
      + cbn [wf_root]. split; [reflexivity|]. split; [reflexivity|]. split; [reflexivity|].
        exists O. unfold m, mw, master_tree. cbn [finalize]. constructor; [discriminate|exact I].
      + constructor; [|constructor]. unfold wf_table. cbn [tb_def tb_tree tb_colls].
        change (td_ktype td) with (ts_ktype ts). change (td_root td) with (Some hdr).
        split; [|split; [|split; [|split]]].
        * cbn [wf_root]. split; [reflexivity|]. split; [reflexivity|]. split; [reflexivity|]. exact Hwf.
        * reflexivity.
        * intro E. discriminate E.
        * reflexivity.
        * reflexivity.
    - (* system forest *)
      unfold wf_forest. cbn [fo_root fo_tree fo_tables wf_root]. split; [exact I|constructor].
    - (* pages *)
      unfold reach, forest_pages, table_pages. cbn [di_data di_system fo_tree fo_tables opt_tree_pages flat_map tb_tree tb_colls].
      rewrite !app_nil_r. unfold d. rewrite finalize_pages. exact Hpages.
  Qed.

  Theorem db1_image_wf :
    (exists h, wf_tree (cmp_of_typename (ts_ktype ts)) (finalize f ks vs w) h) ->
    wf_image bs.
  Proof. intro Hwf. exists (db1_decoded f g txid ts master_pn w). split; [exact decode_db1|now apply db1_decoded_wf]. Qed.
End Db1.
