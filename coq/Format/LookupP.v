(* C19: routing keys are only compared, so ANY routing key s with  max(left) <= s < min(right)
   gives every lookup the same answer as a scan of the leaves -- shortened (prefix) separators that
   are not keys of the table cannot change what a v3 reader returns. *)
From RV Require Import Base.Bytes Base.BytesP Format.Codec Format.KeyCmp Format.Decode Format.WF Format.WFP Format.Lookup.
Open Scope N_scope.

Section LookupP.
  Variable cmp : cmp_fn.
  (* cmp is a total preorder presented as a three-way comparison *)
  Hypothesis cmp_anti : forall a b, cmp b a = CompOpp (cmp a b).
  Hypothesis cmp_trans : forall a b c, cmp a b = Lt -> cmp b c = Lt -> cmp a c = Lt.
  Hypothesis cmp_eq_l : forall a b c, cmp a b = Eq -> cmp a c = cmp b c.

  Lemma le_lt_trans k s x : cmp k s <> Gt -> cmp s x = Lt -> cmp k x = Lt.
  Proof.
    intros H1 H2. destruct (cmp k s) eqn:E; try congruence.
    - rewrite (cmp_eq_l k s x E). exact H2.
    - eapply cmp_trans; eauto.
  Qed.

  Lemma gt_ge_trans k s x : cmp k s = Gt -> cmp x s <> Gt -> cmp k x = Gt.
  Proof.
    intros H1 H2.
    assert (Hsk : cmp s k = Lt) by (rewrite (cmp_anti k s), H1; reflexivity).
    assert (Hxk : cmp x k = Lt).
    { destruct (cmp x s) eqn:E; try congruence.
      - rewrite (cmp_eq_l x s k E). exact Hsk.
      - eapply cmp_trans; eauto. }
    rewrite (cmp_anti x k), Hxk. reflexivity.
  Qed.

  Lemma leaf_get_app_none es1 es2 k :
    Forall (fun x => cmp k x <> Eq) (map fst es1) -> leaf_get cmp (es1 ++ es2) k = leaf_get cmp es2 k.
  Proof.
    induction es1 as [|[k' v] r IH]; intro H; [reflexivity|].
    inversion H; subst. cbn [app leaf_get]. cbn [fst] in *.
    destruct (cmp k k') eqn:E; try congruence; apply IH; assumption.
  Qed.

  Lemma leaf_get_app_l es1 es2 k :
    Forall (fun x => cmp k x <> Eq) (map fst es2) -> leaf_get cmp (es1 ++ es2) k = leaf_get cmp es1 k.
  Proof.
    intro H. induction es1 as [|[k' v] r IH].
    - cbn [app]. rewrite <- (app_nil_r es2). rewrite leaf_get_app_none by assumption. reflexivity.
    - cbn [app leaf_get]. destruct (cmp k k'); auto.
  Qed.

  Definition child_keys (cs : list (N * tree)) : list bytes := flat_map (fun c => keys (snd c)) cs.

  Lemma keys_flat cs : map fst (flat_map (fun c => entries (snd c)) cs) = child_keys cs.
  Proof.
    unfold child_keys, keys. induction cs as [|c cs IH]; [reflexivity|].
    cbn [flat_map]. rewrite map_app, IH. reflexivity.
  Qed.

  (* every key in the children after a routing key s is above s *)
  Lemma above_rest : forall (cs : list (N * tree)) (ks : list bytes) c1 s,
    seps_ok (Some cmp) (map snd (c1 :: cs)) (s :: ks) -> increasing (Some cmp) (s :: ks) ->
    length cs = S (length ks) ->
    Forall (fun x => cmp s x = Lt) (child_keys cs).
  Proof.
    induction cs as [|c2 cs IH]; intros ks c1 s Hs Hi Hl; [constructor|].
    cbn [map seps_ok] in Hs. destruct Hs as (_ & H2 & Hrest).
    unfold child_keys. cbn [flat_map]. apply Forall_app. split; [exact H2|].
    destruct ks as [|s2 ks'].
    - destruct cs; [constructor | cbn in Hl; discriminate].
    - cbn [increasing] in Hi. destruct Hi as [Hlt Hi'].
      assert (IHs := IH ks' c2 s2 Hrest Hi').
      cbn [length] in Hl. injection Hl as Hl.
      specialize (IHs Hl).
      eapply Forall_impl; [|exact IHs]. intros x Hx. cbn [klt] in Hlt. eapply cmp_trans; eauto.
  Qed.

  Theorem lookup_scan : forall t h k,
    wf_tree (Some cmp) t h -> lookup cmp t k = leaf_get cmp (entries t) k.
  Proof.
    induction t as [p c s es | p c s cs ks IH] using tree_ind2; intros h k Hwf.
    - reflexivity.
    - inversion Hwf as [| ? ? ? ? ? h' Hne Hlen Hch Hsum Hseps Hinc]; subst.
      cbn [lookup entries].
      (* generalise the inner loop *)
      clear Hwf Hsum Hne.
      revert ks Hlen Hseps Hinc.
      induction cs as [|c1 cs IHcs]; intros ks Hlen Hseps Hinc; [reflexivity|].
      inversion IH as [|? ? IH1 IHr]; subst. inversion Hch as [|? ? Hc1 Hcr]; subst.
      cbn [flat_map].
      destruct ks as [|s1 ks'].
      + (* last child *)
        destruct cs; [|cbn in Hlen; discriminate].
        cbn [flat_map]. rewrite app_nil_r. eapply IH1; eauto.
      + cbn [length] in Hlen. injection Hlen as Hlen.
        pose proof (above_rest cs ks' c1 s1 Hseps Hinc Hlen) as Habove.
        destruct cs as [|c2 cs']; [cbn in Hlen; discriminate|].
        cbn [map seps_ok] in Hseps. destruct Hseps as (Hle & Hgt & Hrest).
        destruct (cmp k s1) eqn:E.
        * (* k = s1 : stay in c1; nothing to the right can match *)
          rewrite (IH1 h' k Hc1). symmetry. apply leaf_get_app_l.
          rewrite keys_flat. eapply Forall_impl; [|exact Habove].
          intros x Hx. assert (cmp k x = Lt) by (apply (le_lt_trans k s1 x); [congruence | exact Hx]). congruence.
        * rewrite (IH1 h' k Hc1). symmetry. apply leaf_get_app_l.
          rewrite keys_flat. eapply Forall_impl; [|exact Habove].
          intros x Hx. assert (cmp k x = Lt) by (apply (le_lt_trans k s1 x); [congruence | exact Hx]). congruence.
        * (* k > s1 : nothing in c1 can match *)
          rewrite leaf_get_app_none.
          2:{ fold (keys (snd c1)). eapply Forall_impl; [|exact Hle]. intros x Hx. cbn [kle] in Hx.
              assert (cmp k x = Gt) by (apply (gt_ge_trans k s1 x); assumption). congruence. }
          cbn [increasing] in Hinc.
          apply (IHcs IHr Hcr ks').
          -- exact Hlen.
          -- exact Hrest.
          -- destruct ks'; [exact I | tauto].
  Qed.
End LookupP.

(* the byte-wise order (&str, &[u8], String: the variable-width key types whose separators this
   version shortens) satisfies the hypotheses *)
Lemma lex_eq_l a b c : lex_cmp a b = Eq -> lex_cmp a c = lex_cmp b c.
Proof. intro H. apply lex_cmp_eq in H. now subst. Qed.

Theorem prefix_separators_legal_bytes : forall t h k,
  wf_tree (Some lex_cmp) t h -> lookup lex_cmp t k = leaf_get lex_cmp (entries t) k.
Proof. apply lookup_scan; [apply lex_cmp_antisym | apply lex_cmp_trans_lt | apply lex_eq_l]. Qed.
