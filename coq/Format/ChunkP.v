(* C10 proofs, part 4: cutting the file into page-size chunks and fetching a page from the chunks
   returns exactly the bytes of the file in the page's byte range [page_start, page_end). *)
From Coq Require Import String.
From RV Require Import Base.Bytes Base.BytesP Gen.Consts Format.Xxh3 Format.Codec Format.Pages Format.Records
  Format.KeyCmp Format.Decode Format.DecodeP Format.CodecP.
Open Scope N_scope.

Lemma takeN_nil {A} n : takeN (@nil A) n = [].
Proof. reflexivity. Qed.
Lemma dropN_nil {A} n : dropN (@nil A) n = [].
Proof. reflexivity. Qed.

Lemma takeN_add {A} (l : list A) : forall a b, takeN l (a + b) = takeN l a ++ takeN (dropN l a) b.
Proof.
  induction l as [|x l IH]; intros a b; [reflexivity|].
  destruct (N.eq_dec a 0) as [->|Ha].
  - rewrite N.add_0_l, takeN_0, dropN_0. reflexivity.
  - replace a with (N.succ (N.pred a)) by (apply N.succ_pred; exact Ha).
    rewrite N.add_succ_l, !takeN_succ, dropN_succ, IH. reflexivity.
Qed.

Lemma dropN_add {A} (l : list A) : forall a b, dropN l (a + b) = dropN (dropN l a) b.
Proof.
  induction l as [|x l IH]; intros a b; [reflexivity|].
  destruct (N.eq_dec a 0) as [->|Ha].
  - rewrite N.add_0_l, dropN_0. reflexivity.
  - replace a with (N.succ (N.pred a)) by (apply N.succ_pred; exact Ha).
    rewrite N.add_succ_l, !dropN_succ, IH. reflexivity.
Qed.

Lemma lenN_dropN {A} (l : list A) : forall n, lenN (dropN l n) = lenN l - n.
Proof.
  induction l as [|x l IH]; intros n; [reflexivity|].
  destruct (N.eq_dec n 0) as [->|Hn].
  - rewrite dropN_0. lia.
  - replace n with (N.succ (N.pred n)) by (apply N.succ_pred; exact Hn).
    rewrite dropN_succ, IH, lenN_cons. lia.
Qed.

Lemma chunk_spec : forall fuel psz l,
  0 < psz -> lenN l <= N.of_nat fuel * psz ->
  forall n k, (k + n) * psz <= lenN l ->
  concat (takeN (dropN (chunk fuel psz l) k) n) = takeN (dropN l (k * psz)) (n * psz).
Proof.
  induction fuel as [|f IH]; intros psz l Hp Hl n k Hkn.
  - cbn in Hl. assert (lenN l = 0) by lia. assert (k + n = 0) by nia.
    assert (k = 0) by lia. assert (n = 0) by lia. subst. cbn. rewrite takeN_0. reflexivity.
  - cbn [chunk]. destruct l as [|x l']; [|set (l := x :: l') in *].
    + cbn in Hkn. assert (k + n = 0) by nia. assert (k = 0) by lia. assert (n = 0) by lia. subst. reflexivity.
    + assert (Hl' : lenN (dropN l psz) <= N.of_nat f * psz).
      { rewrite lenN_dropN. rewrite Nat2N.inj_succ in Hl. lia. }
      destruct (N.eq_dec k 0) as [->|Hk].
      * rewrite dropN_0, N.mul_0_l, dropN_0.
        destruct (N.eq_dec n 0) as [->|Hn].
        -- rewrite N.mul_0_l, !takeN_0. reflexivity.
        -- replace n with (N.succ (N.pred n)) by (apply N.succ_pred; exact Hn).
           rewrite takeN_succ. cbn [concat].
           assert (Hle : (0 + N.pred n) * psz <= lenN (dropN l psz)).
           { rewrite lenN_dropN. nia. }
           pose proof (IH psz (dropN l psz) Hp Hl' (N.pred n) 0 Hle) as E.
           rewrite dropN_0, N.mul_0_l, dropN_0 in E. rewrite E.
           rewrite N.mul_succ_l. rewrite (N.add_comm (N.pred n * psz) psz). rewrite takeN_add. reflexivity.
      * replace k with (N.succ (N.pred k)) by (apply N.succ_pred; exact Hk).
        rewrite dropN_succ.
        assert (Hle : (N.pred k + n) * psz <= lenN (dropN l psz)).
        { rewrite lenN_dropN. nia. }
        rewrite (IH psz (dropN l psz) Hp Hl' n (N.pred k) Hle).
        rewrite N.mul_succ_l. rewrite (N.add_comm (N.pred k * psz) psz). rewrite dropN_add. reflexivity.
Qed.

(* the store decode_db_at builds from a byte string *)
Definition store_of (bs : bytes) (g : geom) : store :=
  {| st_geom := g; st_file_len := lenN bs;
     st_chunks := chunk (S (N.to_nat (lenN bs / g_psz g))) (g_psz g) bs |}.

Theorem fetch_spec : forall bs g p page,
  0 < g_psz g ->
  fetch (store_of bs g) p = Ok page ->
  page = takeN (dropN bs (page_start g p)) (page_len g p) /\ page_end g p <= lenN bs.
Proof.
  intros bs g p page Hp H. unfold fetch in H. apply DecodeP.at_loc_ok in H.
  cbn [st_geom st_file_len st_chunks store_of] in H.
  destruct (in_layout g p) eqn:Ein; cbn [guard bind] in H; [|discriminate].
  destruct (page_end g p <=? lenN bs) eqn:Ee; cbn [guard bind] in H; [|discriminate].
  apply N.leb_le in Ee. injection H as <-. split; [|exact Ee].
  set (psz := g_psz g) in *.
  assert (Hstart : page_start g p = page_first_chunk g p * psz).
  { unfold page_first_chunk. fold psz.
    assert (Hd : page_start g p = psz * (1 + pn_region p * (g_hdr_pages g + g_max_pages g) + g_hdr_pages g + pn_index p * page_pages p)).
    { unfold page_start, page_len, region_len. fold psz. lia. }
    rewrite Hd. rewrite N.mul_comm. rewrite N.div_mul by lia. lia. }
  assert (Hlen : page_len g p = page_pages p * psz) by (unfold page_len; fold psz; lia).
  rewrite Hstart, Hlen.
  apply (chunk_spec (S (N.to_nat (lenN bs / psz))) psz bs).
  - exact Hp.
  - rewrite Nat2N.inj_succ, N2Nat.id.
    pose proof (N.div_mod (lenN bs) psz ltac:(lia)). pose proof (N.mod_lt (lenN bs) psz ltac:(lia)). nia.
  - unfold page_end in Ee. rewrite Hstart, Hlen in Ee. lia.
Qed.
