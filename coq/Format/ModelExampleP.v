(* Non-vacuity of the writer-model theorems on the instance of Format/ModelExample.v: every hypothesis of
   model_images_wf is satisfied by a concrete program whose tree has two levels. *)
From Coq Require Import String Sorted.
From RV Require Import Base.Bytes Base.BytesP Base.SortedMap Base.SortedMapP Gen.Consts Format.Xxh3 Format.Codec Format.Pages Format.Records
  Format.KeyCmp Format.Decode Format.WF Format.WFP Format.TreeWriter Format.TreeShape Format.TreeShapeP
  Format.ImageWriter Format.ImageWriterP Format.ModelImagesP Format.ModelExample
  Btree.Tree Btree.Read Btree.Mutator.
Open Scope N_scope.

Lemma mx_laws : OrderLaws lex_cmp.
Proof.
  constructor; [exact lex_cmp_eq | exact lex_cmp_refl | exact lex_cmp_antisym | exact lex_cmp_trans_lt].
Qed.

Lemma mx_valid_sep : valid_sep lex_cmp mx_sep.
Proof. intros l r H. unfold mx_sep. split; [rewrite lex_cmp_refl; discriminate | exact H]. Qed.

Lemma map_enc_id (l : list (bytes * bytes)) : List.map (enc_entry mx_id mx_id) l = l.
Proof. induction l as [|[a b] l IH]; [reflexivity|]. cbn [List.map]. rewrite IH. reflexivity. Qed.

Lemma mx_run_bt : snd mx_run = mx_bt.
Proof. vm_compute. reflexivity. Qed.

Theorem mx_image_wf :
  wf_image mx_image
  /\ image_table_entries mx_image (ascii_bytes "t")
     = Some (snd (run lex_cmp (List.map spec_op mx_ops) [])).
Proof.
  destruct mx_w as [w|] eqn:Ew; [|vm_compute in Ew; discriminate].
  destruct mx_root as [t|] eqn:Et; [|vm_compute in Et; discriminate].
  assert (Hshape : shape_of mx_id mx_id t w).
  { unfold mx_w in Ew. rewrite Et in Ew.
    destruct (place mx_id mx_id t mx_pages) as [[w' r]|] eqn:Ep; [|discriminate].
    inversion Ew; subst. eapply place_shape; eauto. }
  assert (Hok : db1_okb 255 mx_geom 7 mx_ts (mx_pg 0) w = true).
  { assert (E : match mx_w with Some w => db1_okb 255 mx_geom 7 mx_ts (mx_pg 0) w | None => false end = true)
      by (vm_compute; reflexivity).
    rewrite Ew in E. exact E. }
  assert (Eroot : bt_root (snd (run_tree lex_cmp lenN lenN false false 512 mx_sep mx_inplace mx_ops empty_tree)) = Some t).
  { fold mx_run. rewrite mx_run_bt. exact Et. }
  pose proof (@model_images_wf bytes bytes lex_cmp mx_laws mx_id mx_id lex_cmp (fun a b => eq_refl) 255
                lenN lenN false false 512 mx_sep mx_inplace mx_valid_sep mx_ops t w mx_geom 7 mx_ts (mx_pg 0)
                Eroot Hshape Hok eq_refl) as [H1 H2].
  unfold mx_image. rewrite Ew. split; [exact H1|].
  cbn [ts_name mx_ts] in H2. rewrite H2. now rewrite map_enc_id.
Qed.
