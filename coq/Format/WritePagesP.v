(* C10 writer model, proofs part 4: patching pages into an image.  After write_pages of pages whose byte
   ranges are pairwise disjoint and inside the file, the reader's fetch returns, for every written page,
   the written bytes followed by whatever the rest of the page holds; the file length and every byte
   outside the written ranges (in particular the database header) are unchanged. *)
From Coq Require Import String.
From RV Require Import Base.Bytes Base.BytesP Gen.Consts Format.Xxh3 Format.Codec Format.Pages Format.Records
  Format.KeyCmp Format.Decode Format.DecodeP Format.WF Format.WFP Format.CodecP Format.ChunkP Format.TreeWriter.
Open Scope N_scope.

(* ---- takeN / dropN are firstn / skipn *)
Lemma takeN_firstn {A} (l : list A) : forall n, takeN l n = firstn (N.to_nat n) l.
Proof.
  induction l as [|x l IH]; intro n; [now destruct (N.to_nat n)|].
  destruct (N.eq_dec n 0) as [->|Hn]; [reflexivity|].
  replace n with (N.succ (N.pred n)) by (apply N.succ_pred; exact Hn).
  rewrite takeN_succ, N2Nat.inj_succ. cbn [firstn]. now rewrite IH.
Qed.

Lemma dropN_skipn {A} (l : list A) : forall n, dropN l n = skipn (N.to_nat n) l.
Proof.
  induction l as [|x l IH]; intro n; [now destruct (N.to_nat n)|].
  destruct (N.eq_dec n 0) as [->|Hn]; [reflexivity|].
  replace n with (N.succ (N.pred n)) by (apply N.succ_pred; exact Hn).
  rewrite dropN_succ, N2Nat.inj_succ. cbn [skipn]. now rewrite IH.
Qed.

Lemma skipn_skipn' {A} (l : list A) : forall a b, skipn b (skipn a l) = skipn (a + b) l.
Proof.
  induction l as [|x l IH]; intros a b; [now rewrite !skipn_nil|].
  destruct a; [reflexivity|]. cbn [skipn Nat.add]. apply IH.
Qed.

Definition slice (bs : bytes) (o n : N) : bytes := takeN (dropN bs o) n.

Lemma slice_nat bs o n : slice bs o n = firstn (N.to_nat n) (skipn (N.to_nat o) bs).
Proof. unfold slice. now rewrite takeN_firstn, dropN_skipn. Qed.

Lemma write_at_nat bs off b :
  write_at bs off b = firstn (N.to_nat off) bs ++ b ++ skipn (N.to_nat off + length b) bs.
Proof.
  unfold write_at. rewrite takeN_firstn, dropN_skipn. unfold lenN.
  now rewrite N2Nat.inj_add, Nat2N.id.
Qed.

Lemma lenN_nat {A} (l : list A) : N.to_nat (lenN l) = length l.
Proof. unfold lenN. apply Nat2N.id. Qed.

Lemma write_at_len bs off b : off + lenN b <= lenN bs -> lenN (write_at bs off b) = lenN bs.
Proof.
  intro H. rewrite write_at_nat. unfold lenN in *.
  rewrite !app_length, firstn_length, skipn_length. lia.
Qed.

Lemma slice_write_same bs off b : off + lenN b <= lenN bs -> slice (write_at bs off b) off (lenN b) = b.
Proof.
  intro H. rewrite slice_nat, write_at_nat, lenN_nat.
  assert (Hl : length (firstn (N.to_nat off) bs) = N.to_nat off).
  { rewrite firstn_length. unfold lenN in H. lia. }
  rewrite skipn_app, Hl, Nat.sub_diag. cbn [skipn].
  rewrite skipn_all2 by lia. cbn [app].
  rewrite firstn_app, Nat.sub_diag. cbn [firstn]. rewrite firstn_all, app_nil_r. reflexivity.
Qed.

Lemma slice_write_other bs off b o n :
  off + lenN b <= lenN bs -> (o + n <= off \/ off + lenN b <= o) ->
  slice (write_at bs off b) o n = slice bs o n.
Proof.
  intros H Hd. rewrite !slice_nat, write_at_nat.
  assert (Hl : length (firstn (N.to_nat off) bs) = N.to_nat off).
  { rewrite firstn_length. unfold lenN in H. lia. }
  destruct Hd as [Hd|Hd].
  - (* before the written range *)
    rewrite skipn_app, Hl. replace (N.to_nat o - N.to_nat off)%nat with O by lia. cbn [skipn].
    rewrite firstn_app.
    rewrite skipn_length, Hl.
    replace (N.to_nat n - (N.to_nat off - N.to_nat o))%nat with O by lia. cbn [firstn]. rewrite app_nil_r.
    rewrite !firstn_skipn_comm. rewrite firstn_firstn. f_equal. f_equal. lia.
  - (* behind it *)
    unfold lenN in Hd.
    rewrite skipn_app, Hl. rewrite (skipn_all2 (firstn (N.to_nat off) bs)) by lia. cbn [app].
    rewrite skipn_app. rewrite (skipn_all2 b) by lia. cbn [app].
    rewrite skipn_skipn'. f_equal. f_equal. lia.
Qed.

Lemma slice_split bs o a b : slice bs o (a + b) = slice bs o a ++ slice bs (o + a) b.
Proof. unfold slice. now rewrite takeN_add, dropN_add. Qed.

Lemma lenN_slice bs o n : o + n <= lenN bs -> lenN (slice bs o n) = n.
Proof.
  intro H. rewrite slice_nat. unfold lenN in *. rewrite firstn_length, skipn_length. lia.
Qed.

(* ---- fetch from the store decode_db builds *)
Lemma fetch_store_of bs g p :
  0 < g_psz g -> in_layout g p = true -> page_end g p <= lenN bs ->
  fetch (store_of bs g) p = Ok (slice bs (page_start g p) (page_len g p)).
Proof.
  intros Hp Hin He. unfold fetch. cbn [st_geom st_file_len st_chunks store_of].
  rewrite Hin. cbn [guard bind]. rewrite (proj2 (N.leb_le _ _) He). cbn [guard bind at_loc].
  f_equal.
  set (psz := g_psz g) in *.
  assert (Hstart : page_start g p = page_first_chunk g p * psz).
  { unfold page_first_chunk. fold psz.
    assert (Hd : page_start g p = psz * (1 + pn_region p * (g_hdr_pages g + g_max_pages g) + g_hdr_pages g + pn_index p * page_pages p)).
    { unfold page_start, page_len, region_len. fold psz. lia. }
    rewrite Hd. rewrite N.mul_comm. rewrite N.div_mul by lia. lia. }
  assert (Hlen : page_len g p = page_pages p * psz) by (unfold page_len; fold psz; lia).
  unfold slice. rewrite Hstart, Hlen.
  apply (chunk_spec (S (N.to_nat (lenN bs / psz))) psz bs).
  - exact Hp.
  - rewrite Nat2N.inj_succ, N2Nat.id.
    pose proof (N.div_mod (lenN bs) psz ltac:(lia)). pose proof (N.mod_lt (lenN bs) psz ltac:(lia)). nia.
  - unfold page_end in He. rewrite Hstart, Hlen in He. lia.
Qed.

(* ---- write_pages *)
Definition wrange (g : geom) (pb : pagenum * bytes) : N * N := (page_start g (fst pb), page_start g (fst pb) + lenN (snd pb)).
Definition ranges_apart (a b : N * N) : Prop := snd a <= fst b \/ snd b <= fst a.

Lemma write_pages_len g ps : forall bs,
  Forall (fun pb => snd (wrange g pb) <= lenN bs) ps -> lenN (write_pages g bs ps) = lenN bs.
Proof.
  induction ps as [|[p b] ps IH]; intros bs H; [reflexivity|].
  inversion H as [|? ? H1 H2]; subst. cbn [write_pages]. cbn [wrange fst snd] in H1.
  rewrite IH.
  - now apply write_at_len.
  - rewrite write_at_len by exact H1. exact H2.
Qed.

(* a range untouched by every write keeps its bytes *)
Lemma write_pages_frame g ps : forall bs o n,
  Forall (fun pb => snd (wrange g pb) <= lenN bs) ps ->
  Forall (fun pb => ranges_apart (wrange g pb) (o, o + n)) ps ->
  slice (write_pages g bs ps) o n = slice bs o n.
Proof.
  induction ps as [|[p b] ps IH]; intros bs o n Hin Hap; [reflexivity|].
  inversion Hin as [|? ? H1 H2]; subst. inversion Hap as [|? ? A1 A2]; subst.
  cbn [write_pages]. cbn [wrange fst snd] in H1. unfold ranges_apart in A1. cbn [wrange fst snd] in A1.
  rewrite IH.
  - apply slice_write_other; [exact H1|]. lia.
  - rewrite write_at_len by exact H1. exact H2.
  - exact A2.
Qed.

(* every written page reads back *)
Lemma write_pages_reads g ps : forall bs,
  Forall (fun pb => snd (wrange g pb) <= lenN bs) ps ->
  ForallOrdPairs (fun a b => ranges_apart (wrange g a) (wrange g b)) ps ->
  Forall (fun pb => slice (write_pages g bs ps) (page_start g (fst pb)) (lenN (snd pb)) = snd pb) ps.
Proof.
  induction ps as [|[p b] ps IH]; intros bs Hin Hap; [constructor|].
  inversion Hin as [|? ? H1 H2]; subst. inversion Hap as [|? ? A1 A2]; subst.
  cbn [wrange fst snd] in H1. cbn [write_pages].
  constructor.
  - cbn [fst snd]. rewrite write_pages_frame.
    + now apply slice_write_same.
    + rewrite write_at_len by exact H1. exact H2.
    + eapply Forall_impl; [|exact A1]. intros pb Hpb. unfold ranges_apart in *. cbn [wrange fst snd] in *. lia.
  - apply IH; [|exact A2]. rewrite write_at_len by exact H1. exact H2.
Qed.
