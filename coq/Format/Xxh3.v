(* XXH3-128 with seed 0 (the checksum of every redb page and commit slot), executable over N with
   explicit reduction mod 2^64.  Written from the XXH3 specification / the algorithm description;
   tied to the code only by correspondence (differential test against redb::verif::xxh3_128 over all
   length classes 0, 1-3, 4-8, 9-16, 17-128, 129-240, >240).  Definitions only. *)
From RV Require Import Base.Bytes.
Open Scope N_scope.

Definition mask64 : N := 18446744073709551615.
Definition mask32 : N := 4294967295.
Definition two64 : N := 18446744073709551616.

Definition w64 (x : N) : N := N.land x mask64.
Definition add64 (a b : N) : N := w64 (a + b).
Definition mul64 (a b : N) : N := w64 (a * b).
(* a - b mod 2^64 for a, b < 2^64 *)
Definition sub64 (a b : N) : N := w64 (a + two64 - b).
Definition neg64 (a : N) : N := w64 (two64 - a).
Definition not64 (a : N) : N := mask64 - a.
Definition xorshift (x s : N) : N := N.lxor x (N.shiftr x s).
Definition rotl64 (x r : N) : N := w64 (N.lor (N.shiftl x r) (N.shiftr x (64 - r))).
Definition rotl32 (x r : N) : N := N.land (N.lor (N.shiftl x r) (N.shiftr x (32 - r))) mask32.
Definition bswap64 (x : N) : N := le_decode (rev (le_encode 8 x)).
Definition bswap32 (x : N) : N := le_decode (rev (le_encode 4 x)).

Definition u64at (l : bytes) (off : nat) : N := le_decode (firstn 8 (skipn off l)).
Definition u32at (l : bytes) (off : nat) : N := le_decode (firstn 4 (skipn off l)).

Definition xsecret : bytes :=
  [ 184; 254; 108; 57; 35; 164; 75; 190; 124; 1; 129; 44; 247; 33; 173; 28;
    222; 212; 109; 233; 131; 144; 151; 219; 114; 64; 164; 164; 183; 179; 103; 31;
    203; 121; 230; 78; 204; 192; 229; 120; 130; 90; 208; 125; 204; 255; 114; 33;
    184; 8; 70; 116; 247; 67; 36; 142; 224; 53; 144; 230; 129; 58; 38; 76;
    60; 40; 82; 187; 145; 195; 0; 203; 136; 208; 101; 139; 27; 83; 46; 163;
    113; 100; 72; 151; 162; 13; 249; 78; 56; 25; 239; 70; 169; 222; 172; 216;
    168; 250; 118; 63; 227; 156; 52; 63; 249; 220; 187; 199; 199; 11; 79; 29;
    138; 81; 224; 75; 205; 180; 89; 49; 200; 159; 126; 201; 217; 120; 115; 100;
    234; 197; 172; 131; 52; 211; 235; 195; 197; 129; 160; 255; 250; 19; 99; 235;
    23; 13; 221; 81; 183; 240; 218; 73; 211; 22; 85; 38; 41; 212; 104; 158;
    43; 22; 190; 88; 125; 71; 161; 252; 143; 248; 184; 209; 122; 208; 49; 206;
    69; 203; 58; 143; 149; 22; 4; 40; 175; 215; 251; 202; 187; 75; 64; 126 ].

Definition P32_1 : N := 2654435761.   (* 0x9E3779B1 *)
Definition P32_2 : N := 2246822519.   (* 0x85EBCA77 *)
Definition P32_3 : N := 3266489917.   (* 0xC2B2AE3D *)
Definition P64_1 : N := 11400714785074694791. (* 0x9E3779B185EBCA87 *)
Definition P64_2 : N := 14029467366897019727. (* 0xC2B2AE3D27D4EB4F *)
Definition P64_3 : N := 1609587929392839161.  (* 0x165667B19E3779F9 *)
Definition P64_4 : N := 9650029242287828579.  (* 0x85EBCA77C2B2AE63 *)
Definition P64_5 : N := 2870177450012600261.  (* 0x27D4EB2F165667C5 *)
Definition PMX1 : N := 1609587791953885689.   (* 0x165667919E3779F9 *)
Definition PMX2 : N := 11507291218515648293.  (* 0x9FB21C651E98DF25 *)

Definition xxh64_avalanche (x : N) : N :=
  let x := xorshift x 33 in
  let x := mul64 x P64_2 in
  let x := xorshift x 29 in
  let x := mul64 x P64_3 in
  xorshift x 32.

Definition xxh3_avalanche (x : N) : N :=
  let x := xorshift x 37 in
  let x := mul64 x PMX1 in
  xorshift x 32.

Definition mul128_fold (x y : N) : N :=
  let z := x * y in N.lxor (w64 z) (N.shiftr z 64).

Definition join128 (lo hi : N) : N := lo + two64 * hi.

(* ---- 0 bytes *)
Definition h128_0 : N :=
  let lo := xxh64_avalanche (N.lxor (u64at xsecret 64) (u64at xsecret 72)) in
  let hi := xxh64_avalanche (N.lxor (u64at xsecret 80) (u64at xsecret 88)) in
  join128 lo hi.

(* ---- 1..3 bytes *)
Definition h128_1to3 (d : bytes) : N :=
  let len := length d in
  let x1 := nth 0 d 0 in
  let x2 := nth (Nat.div2 len) d 0 in
  let x3 := nth (len - 1)%nat d 0 in
  let x4 := N.of_nat len in
  let clow := N.lor (N.lor (N.shiftl x1 16) (N.shiftl x2 24)) (N.lor x3 (N.shiftl x4 8)) in
  let chigh := rotl32 (bswap32 clow) 13 in
  let slow := N.lxor (u32at xsecret 0) (u32at xsecret 4) in
  let shigh := N.lxor (u32at xsecret 8) (u32at xsecret 12) in
  join128 (xxh64_avalanche (N.lxor clow slow)) (xxh64_avalanche (N.lxor chigh shigh)).

(* ---- 4..8 bytes *)
Definition h128_4to8 (d : bytes) : N :=
  let len := length d in
  let xlow := u32at d 0 in
  let xhigh := u32at d (len - 4)%nat in
  let x := N.lor xlow (N.shiftl xhigh 32) in
  let s := N.lxor (u64at xsecret 16) (u64at xsecret 24) in
  let y := (N.lxor x s) * (add64 P64_1 (N.shiftl (N.of_nat len) 2)) in
  let rlow := w64 y in
  let rhigh := N.shiftr y 64 in
  let rhigh := add64 rhigh (w64 (N.shiftl rlow 1)) in
  let rlow := N.lxor rlow (N.shiftr rhigh 3) in
  let rlow := xorshift rlow 35 in
  let rlow := mul64 rlow PMX2 in
  let rlow := xorshift rlow 28 in
  join128 rlow (xxh3_avalanche rhigh).

(* ---- 9..16 bytes *)
Definition h128_9to16 (d : bytes) : N :=
  let len := length d in
  let slow := N.lxor (u64at xsecret 32) (u64at xsecret 40) in
  let shigh := N.lxor (u64at xsecret 48) (u64at xsecret 56) in
  let xlow := u64at d 0 in
  let xhigh := u64at d (len - 8)%nat in
  let mixed := N.lxor (N.lxor xlow xhigh) slow in
  let xhigh := N.lxor xhigh shigh in
  let r := mixed * P64_1 in
  let rlow := w64 r in
  let rhigh := N.shiftr r 64 in
  let rlow := add64 rlow (w64 (N.shiftl (N.of_nat len - 1) 54)) in
  let rhigh := add64 rhigh xhigh in
  let rhigh := add64 rhigh (mul64 (N.land xhigh mask32) (P32_2 - 1)) in
  let rlow := N.lxor rlow (bswap64 rhigh) in
  let r2 := rlow * P64_2 in
  let r2low := w64 r2 in
  let r2high := add64 (N.shiftr r2 64) (mul64 rhigh P64_2) in
  join128 (xxh3_avalanche r2low) (xxh3_avalanche r2high).

(* ---- 17..240 bytes *)
Definition mix16 (d : bytes) (doff : nat) (soff : nat) : N :=
  mul128_fold (N.lxor (u64at d doff) (u64at xsecret soff))
              (N.lxor (u64at d (doff + 8)%nat) (u64at xsecret (soff + 8)%nat)).

Definition mix32 (st : N * N) (d : bytes) (o1 o2 : nat) (soff : nat) : N * N :=
  let '(rl, rh) := st in
  let rl := add64 rl (mix16 d o1 soff) in
  let rl := N.lxor rl (add64 (u64at d o2) (u64at d (o2 + 8)%nat)) in
  let rh := add64 rh (mix16 d o2 (soff + 16)%nat) in
  let rh := N.lxor rh (add64 (u64at d o1) (u64at d (o1 + 8)%nat)) in
  (rl, rh).

Definition finish_mid (st : N * N) (len : N) : N :=
  let '(s0, s1) := st in
  let rlow := add64 s0 s1 in
  let rhigh := add64 (add64 (mul64 s0 P64_1) (mul64 s1 P64_4)) (mul64 len P64_2) in
  join128 (xxh3_avalanche rlow) (neg64 (xxh3_avalanche rhigh)).

Definition h128_17to128 (d : bytes) : N :=
  let len := length d in
  let st := (mul64 P64_1 (N.of_nat len), 0) in
  let st := if Nat.ltb 96 len then mix32 st d 48 (len - 64)%nat 96 else st in
  let st := if Nat.ltb 64 len then mix32 st d 32 (len - 48)%nat 64 else st in
  let st := if Nat.ltb 32 len then mix32 st d 16 (len - 32)%nat 32 else st in
  let st := mix32 st d 0 (len - 16)%nat 0 in
  finish_mid st (N.of_nat len).

Fixpoint mid_loop (n : nat) (i : nat) (st : N * N) (d : bytes) : N * N :=
  match n with
  | O => st
  | S n' => mid_loop n' (S i) (mix32 st d (32 * i)%nat (32 * i + 16)%nat (3 + 32 * (i - 4))%nat) d
  end.

Definition h128_129to240 (d : bytes) : N :=
  let len := length d in
  let iters := Nat.div len 32 in
  let st := (mul64 P64_1 (N.of_nat len), 0) in
  let st := mix32 st d 0 16 0 in
  let st := mix32 st d 32 48 32 in
  let st := mix32 st d 64 80 64 in
  let st := mix32 st d 96 112 96 in
  let st := (xxh3_avalanche (fst st), xxh3_avalanche (snd st)) in
  let st := mid_loop (iters - 4)%nat 4 st d in
  let st := mix32 st d (len - 16)%nat (len - 32)%nat 103 in
  finish_mid st (N.of_nat len).

(* ---- > 240 bytes *)
Definition init_acc : list N := [P32_3; P64_1; P64_2; P64_3; P64_4; P32_2; P64_5; P32_1].

(* secret words: sw k = u64 at byte 8k of the secret (k = 0..23) *)
Definition sec_words_at (off : nat) (n : nat) : list N :=
  map (fun k => u64at xsecret (off + 8 * k)%nat) (seq 0 n).
Definition sw : list N := Eval vm_compute in sec_words_at 0 24.
Definition sw_last : list N := Eval vm_compute in sec_words_at 121 8.     (* secret[192-64-7 ..] *)
Definition sw_scramble : list N := Eval vm_compute in sec_words_at 128 8. (* secret[192-64 ..] *)
Definition sw_merge_lo : list N := Eval vm_compute in sec_words_at 11 8.
Definition sw_merge_hi : list N := Eval vm_compute in sec_words_at 117 8. (* secret[192-64-11 ..] *)

(* bytes -> aligned little-endian 64-bit words (a trailing partial word is dropped) *)
Fixpoint words_of (l : bytes) : list N :=
  match l with
  | b0 :: b1 :: b2 :: b3 :: b4 :: b5 :: b6 :: b7 :: r =>
      (b0 + 256 * (b1 + 256 * (b2 + 256 * (b3 + 256 * (b4 + 256 * (b5 + 256 * (b6 + 256 * b7)))))))
      :: words_of r
  | _ => []
  end.

Definition lane (a x_other x s : N) : N :=
  let y := N.lxor x s in
  add64 (add64 a x_other) (N.land y mask32 * N.shiftr y 32).

(* one stripe: accumulators, 8 data words, 8 secret words (extra elements ignored) *)
Fixpoint acc_stripe (acc xs ss : list N) : list N :=
  match acc, xs, ss with
  | a0 :: a1 :: acc', x0 :: x1 :: xs', s0 :: s1 :: ss' =>
      lane a0 x1 x0 s0 :: lane a1 x0 x1 s1 :: acc_stripe acc' xs' ss'
  | _, _, _ => []
  end.

Fixpoint scramble (acc ss : list N) : list N :=
  match acc, ss with
  | a :: acc', s :: ss' => mul64 (N.lxor (xorshift a 47) s) P32_1 :: scramble acc' ss'
  | _, _ => []
  end.

(* n stripes from the word list ws, stripe i using secret words i .. i+7 *)
Fixpoint acc_stripes (n : nat) (acc ws sec : list N) : list N * list N :=
  match n with
  | O => (acc, ws)
  | S n' => acc_stripes n' (acc_stripe acc ws sec) (skipn 8 ws) (tl sec)
  end.

Fixpoint acc_blocks (n : nat) (acc ws : list N) : list N * list N :=
  match n with
  | O => (acc, ws)
  | S n' => let '(acc1, ws1) := acc_stripes 16 acc ws sw in
            acc_blocks n' (scramble acc1 sw_scramble) ws1
  end.

Fixpoint merge_acc (acc ss : list N) (r : N) : N :=
  match acc, ss with
  | a0 :: a1 :: acc', s0 :: s1 :: ss' => merge_acc acc' ss' (add64 r (mul128_fold (N.lxor a0 s0) (N.lxor a1 s1)))
  | _, _ => r
  end.

Definition h128_large (d : bytes) : N :=
  let len := length d in
  let nblocks := Nat.div (len - 1)%nat 1024 in
  let ws := words_of d in
  let '(acc, ws1) := acc_blocks nblocks init_acc ws in
  let nstripes := Nat.div ((len - 1) - 1024 * nblocks)%nat 64 in
  let '(acc, _) := acc_stripes nstripes acc ws1 sw in
  let acc := acc_stripe acc (words_of (skipn (len - 64)%nat d)) sw_last in
  let lo := xxh3_avalanche (merge_acc acc sw_merge_lo (mul64 P64_1 (N.of_nat len))) in
  let hi := xxh3_avalanche (merge_acc acc sw_merge_hi (not64 (mul64 P64_2 (N.of_nat len)))) in
  join128 lo hi.

Definition xxh3_128 (d : bytes) : N :=
  let len := length d in
  if Nat.eqb len 0 then h128_0
  else if Nat.ltb len 4 then h128_1to3 d
  else if Nat.leb len 8 then h128_4to8 d
  else if Nat.leb len 16 then h128_9to16 d
  else if Nat.leb len 128 then h128_17to128 d
  else if Nat.leb len 240 then h128_129to240 d
  else h128_large d.
