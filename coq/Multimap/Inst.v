(* C09: the concrete key/value universe used by the correspondence: byte strings ordered
   lexicographically (&[u8], &str) and unsigned integers ordered numerically (u64). *)
From RV Require Import Base.Bytes Base.BytesP Multimap.Spec.
Open Scope N_scope.

Inductive kv := KB (b : bytes) | KU (n : N).

Definition kv_cmp (a b : kv) : comparison :=
  match a, b with
  | KB x, KB y => lex_cmp x y
  | KU x, KU y => x ?= y
  | KB _, KU _ => Lt
  | KU _, KB _ => Gt
  end.

(* length of the encoding: V::as_bytes(v).len() *)
Definition kv_len (a : kv) : N :=
  match a with KB x => N.of_nat (length x) | KU _ => 8 end.

Lemma kv_cmp_laws : ord_laws kv_cmp.
Proof.
  constructor.
  - intros [x|x] [y|y]; simpl; split; intros H; try discriminate.
    + f_equal. now apply lex_cmp_eq.
    + injection H as ->. apply lex_cmp_refl.
    + f_equal. now apply N.compare_eq_iff.
    + injection H as ->. apply N.compare_refl.
  - intros [x|x] [y|y]; simpl; auto.
    + apply lex_cmp_antisym.
    + apply N.compare_antisym.
  - intros [x|x] [y|y] [z|z]; simpl; auto; try discriminate.
    + apply lex_cmp_trans_lt.
    + rewrite !N.compare_lt_iff. apply N.lt_trans.
Qed.
