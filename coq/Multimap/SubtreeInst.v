(* C09, two-level model: the concrete instance the correspondence replays against redb.
   Keys and values are Inst.kv (byte strings / u64); both trees are C04's SHAPE model (Btree/Shape.v: the
   logical tree plus dirty flag and allocated length per page, which is what the in-place decisions of
   btree_mutator.rs depend on), with the sizes and separators of the table's types:
     inner tree  BtreeMut<V, ()>                     key size = |V::as_bytes|, value size 0 (fixed width Some(0))
     outer tree  BtreeMut<K, &DynamicCollection<V>>  value size = 1 + inline leaf image | 1 + 32 (BtreeHeader)
   Separators as in Btree/ShapeInst.v: C15's bytes_sep / str_sep behind a validity guard, `left` for u64.
   Definitions only. *)
From Coq Require Import List NArith Bool.
From RV Require Base.SortedMap Btree.Tree Btree.Shape.
From RV Require Import Base.Bytes Types.Utf8 Types.KeyTypes.
From RV Require Import Multimap.Spec Multimap.Model Multimap.Inst Multimap.Subtree.
Import ListNotations.
Open Scope N_scope.

Definition kv_guarded (f : kv -> kv -> kv) (l r : kv) : kv :=
  let s := f l r in
  if SortedMap.kle kv_cmp l s && SortedMap.klt kv_cmp s r then s else l.
Definition kv_raw_sep_bytes (l r : kv) : kv := match l, r with KB a, KB b => KB (bytes_sep a b) | _, _ => l end.
Definition kv_raw_sep_str (l r : kv) : kv := match l, r with KB a, KB b => KB (str_sep a b) | _, _ => l end.
(* mode 0: fixed-width key (branch_separator returns left), 1: &[u8], 2: &str *)
Definition kv_sep (mode : N) : kv -> kv -> kv :=
  match mode with
  | 0 => fun l _ => l
  | 1 => kv_guarded kv_raw_sep_bytes
  | _ => kv_guarded kv_raw_sep_str
  end.

Definition kv_cfg (ps : N) (vfixed : bool) : cfg := {| page_size := ps; vwidth := if vfixed then Some 8 else None |}.

Definition inner_t : Type := @Shape.sbtree kv unit.
Definition kv_coll : Type := @ocoll kv inner_t.
Definition outer_t : Type := @Shape.sbtree kv kv_coll.

Definition kv_coll_size (c : cfg) (cl : kv_coll) : N :=
  match cl with
  | OInline l => 1 + leaf_len kv_len c l          (* DynamicCollection::make_inline_data *)
  | OSub _ _ => 33                                 (* make_subtree_data: tag + BtreeHeader (8 + 16 + 8) *)
  end.

Definition kv_inner (ps : N) (vfixed : bool) (vmode : N) : tree_impl kv unit inner_t :=
  shape_impl kv_cmp kv_len (fun _ : unit => 0) vfixed true ps (kv_sep vmode).
Definition kv_outer (ps : N) (kfixed : bool) (kmode : N) (vfixed : bool) : tree_impl kv kv_coll outer_t :=
  shape_impl kv_cmp kv_len (kv_coll_size (kv_cfg ps vfixed)) kfixed false ps (kv_sep kmode).

Definition kv_state : Type := @tl_state outer_t.
Definition kv_tl_empty : kv_state := tl_empty (kv_outer 4096 false 1 false).   (* the empty tree does not depend on the parameters *)

Definition kv_tl_step (ps : N) (kfixed : bool) (kmode : N) (vfixed : bool) (vmode : N)
    (o : op kv kv) (s : kv_state) : kv_state * out kv kv :=
  tl_step kv_cmp kv_len (kv_outer ps kfixed kmode vfixed) (kv_inner ps vfixed vmode) (kv_cfg ps vfixed) o s.

Definition kv_tl_run (ps : N) (kfixed : bool) (kmode : N) (vfixed : bool) (vmode : N)
    (ops : list (op kv kv)) (s : kv_state) : kv_state * list (out kv kv) :=
  tl_run kv_cmp kv_len (kv_outer ps kfixed kmode vfixed) (kv_inner ps vfixed vmode) (kv_cfg ps vfixed) ops s.

Definition kv_tl_rep (ps : N) (kfixed : bool) (kmode : N) (vfixed : bool) (vmode : N) (k : kv) (s : kv_state)
    : option (bool * N * bool * N) :=
  tl_rep kv_len (kv_outer ps kfixed kmode vfixed) (kv_inner ps vfixed vmode) (kv_cfg ps vfixed) k (tl_cur s).

Definition kv_tl_abs (s : kv_state) : @sstate kv kv :=
  tl_abs (kv_outer 4096 false 1 false) (kv_inner 4096 false 1) s.

(* run-time self-check of the replayed state (executable versions of state_wf's tree parts): the erased outer
   tree and every erased inner tree pass C04's verified checker *)
Definition kv_coll_check (cl : kv_coll) : bool :=
  match cl with
  | OInline l => match l with [] => false | _ => true end
  | OSub _ t => Tree.tree_checkb kv_cmp (Shape.erase_tree t)
  end.
Definition kv_tl_check (s : kv_state) : bool :=
  let ot := Shape.erase_tree (tl_tree (tl_cur s)) in
  Tree.tree_checkb kv_cmp ot && forallb (fun e => kv_coll_check (snd e)) (Tree.abs_tree ot).

(* height of the key's subtree (evidence: multi-level subtrees) *)
Definition kv_sub_height (k : kv) (s : kv_state) : option nat :=
  match Read.tget kv_cmp (Shape.erase_tree (tl_tree (tl_cur s))) k with
  | Some (OSub _ t) => match Shape.sb_root t with Some r => Some (Tree.height (Shape.erase r)) | None => Some O end
  | _ => None
  end.
