(* C09 specification object: a multimap is a sorted association list  key |-> sorted duplicate-free
   non-empty list of values.  Keys and values are abstract types with comparison functions; the laws
   a comparison has to satisfy are in [ord_laws] (used by the proofs in SpecP.v / ModelP.v).
   Definitions only. *)
From Coq Require Export List NArith Bool Lia.
Export ListNotations.
Open Scope N_scope.

Record ord_laws {A : Type} (cmp : A -> A -> comparison) : Prop := {
  ol_eq : forall a b, cmp a b = Eq <-> a = b;
  ol_anti : forall a b, cmp b a = CompOpp (cmp a b);
  ol_trans : forall a b c, cmp a b = Lt -> cmp b c = Lt -> cmp a c = Lt }.

(* ---------------------------------------------------------------- sorted sets (lists) *)
Section SetOps.
  Context {A : Type} (cmp : A -> A -> comparison).

  (* returns the new list and whether x was already present *)
  Fixpoint set_insert (x : A) (l : list A) : list A * bool :=
    match l with
    | [] => ([x], false)
    | y :: r =>
        match cmp x y with
        | Lt => (x :: l, false)
        | Eq => (l, true)
        | Gt => let (r', b) := set_insert x r in (y :: r', b)
        end
    end.

  (* returns the new list and whether x was present *)
  Fixpoint set_remove (x : A) (l : list A) : list A * bool :=
    match l with
    | [] => ([], false)
    | y :: r =>
        match cmp x y with
        | Lt => (l, false)
        | Eq => (r, true)
        | Gt => let (r', b) := set_remove x r in (y :: r', b)
        end
    end.

  Fixpoint set_mem (x : A) (l : list A) : bool :=
    match l with
    | [] => false
    | y :: r => match cmp x y with Lt => false | Eq => true | Gt => set_mem x r end
    end.

  (* strictly increasing *)
  Fixpoint sorted (l : list A) : Prop :=
    match l with
    | [] => True
    | x :: r => match r with [] => True | y :: _ => cmp x y = Lt end /\ sorted r
    end.
End SetOps.

(* ---------------------------------------------------------------- sorted association lists *)
Section MapOps.
  Context {K : Type} (kcmp : K -> K -> comparison).

  Fixpoint am_find {B : Type} (k : K) (m : list (K * B)) : option B :=
    match m with
    | [] => None
    | (k', b) :: r => match kcmp k k' with Lt => None | Eq => Some b | Gt => am_find k r end
    end.

  (* insert or replace (the stored key becomes k, as BtreeMut::insert does) *)
  Fixpoint am_put {B : Type} (k : K) (b : B) (m : list (K * B)) : list (K * B) :=
    match m with
    | [] => [(k, b)]
    | (k', b') :: r =>
        match kcmp k k' with
        | Lt => (k, b) :: m
        | Eq => (k, b) :: r
        | Gt => (k', b') :: am_put k b r
        end
    end.

  Fixpoint am_del {B : Type} (k : K) (m : list (K * B)) : list (K * B) :=
    match m with
    | [] => []
    | (k', b') :: r =>
        match kcmp k k' with
        | Lt => m
        | Eq => r
        | Gt => (k', b') :: am_del k r
        end
    end.

  Inductive bound := BUnb | BIncl (k : K) | BExcl (k : K).

  Definition above (lo : bound) (k : K) : bool :=
    match lo with
    | BUnb => true
    | BIncl b => match kcmp k b with Lt => false | _ => true end
    | BExcl b => match kcmp k b with Gt => true | _ => false end
    end.
  Definition below (hi : bound) (k : K) : bool :=
    match hi with
    | BUnb => true
    | BIncl b => match kcmp k b with Gt => false | _ => true end
    | BExcl b => match kcmp k b with Lt => true | _ => false end
    end.

  Definition am_range {B : Type} (lo hi : bound) (m : list (K * B)) : list (K * B) :=
    filter (fun e => above lo (fst e) && below hi (fst e)) m.
End MapOps.
Arguments BUnb {K}.
Arguments BIncl {K} k.
Arguments BExcl {K} k.

(* a double-ended iterator over l: optionally reversed, nf items taken from the front, then nb items
   taken from the back (never crossing); returns (front items, back items in the order they are yielded) *)
Definition consume {A : Type} (rev : bool) (nf nb : N) (l : list A) : list A * list A :=
  let l' := if rev then List.rev l else l in
  (firstn (N.to_nat nf) l', firstn (N.to_nat nb) (List.rev (skipn (N.to_nat nf) l'))).

Fixpoint sum_lengths {K B : Type} (len : B -> N) (m : list (K * B)) : N :=
  match m with
  | [] => 0
  | (_, b) :: r => len b + sum_lengths len r
  end.

(* ---------------------------------------------------------------- operations and outputs *)
Section MM.
  Context {K V : Type}.

  Inductive op :=
  | OpInsert (k : K) (v : V)
  | OpRemove (k : K) (v : V) (root_is_leaf : bool)   (* the bool is an observation about the inner B-tree,
                                                        ignored by the spec, see Model.v *)
  | OpRemoveAll (k : K) (rev : bool) (nf nb : N)
  | OpGet (k : K) (rev : bool) (nf nb : N)
  | OpRange (lo hi : @bound K) (rev : bool) (nf nb : N)
  | OpLen
  | OpIsEmpty
  | OpCommit
  | OpAbort.

  (* an iterator result: items yielded from the front, from the back, and the length the iterator reported
     before being consumed (MultimapValue::len) *)
  Inductive out :=
  | OBool (b : bool)
  | OVals (front back : list V) (reported_len : N)
  | ORange (front back : list (K * (list V * N)))
  | ONum (n : N)
  | OUnit.

  Variable kcmp : K -> K -> comparison.
  Variable vcmp : V -> V -> comparison.

  Definition smap := list (K * list V).
  Definition nlen (l : list V) : N := N.of_nat (length l).

  Record sstate := { s_cur : smap; s_committed : smap }.
  Definition s_empty : sstate := {| s_cur := []; s_committed := [] |}.

  Definition s_insert (k : K) (v : V) (m : smap) : smap * bool :=
    match am_find kcmp k m with
    | None => (am_put kcmp k [v] m, false)
    | Some vs => let (vs', b) := set_insert vcmp v vs in if b then (m, true) else (am_put kcmp k vs' m, false)
    end.

  Definition s_remove (k : K) (v : V) (m : smap) : smap * bool :=
    match am_find kcmp k m with
    | None => (m, false)
    | Some vs =>
        let (vs', b) := set_remove vcmp v vs in
        if b then (match vs' with [] => am_del kcmp k m | _ => am_put kcmp k vs' m end, true)
        else (m, false)
    end.

  Definition s_get (k : K) (m : smap) : list V :=
    match am_find kcmp k m with None => [] | Some vs => vs end.

  Definition s_len (m : smap) : N := sum_lengths nlen m.

  Definition spec_step (o : op) (s : sstate) : sstate * out :=
    let m := s_cur s in
    let upd m' := {| s_cur := m'; s_committed := s_committed s |} in
    match o with
    | OpInsert k v => let (m', b) := s_insert k v m in (upd m', OBool b)
    | OpRemove k v _ => let (m', b) := s_remove k v m in (upd m', OBool b)
    | OpRemoveAll k rev nf nb =>
        let vs := s_get k m in
        let (f, b) := consume rev nf nb vs in
        (upd (am_del kcmp k m), OVals f b (nlen vs))
    | OpGet k rev nf nb =>
        let vs := s_get k m in
        let (f, b) := consume rev nf nb vs in (s, OVals f b (nlen vs))
    | OpRange lo hi rev nf nb =>
        let l := map (fun e => (fst e, (snd e, nlen (snd e)))) (am_range kcmp lo hi m) in
        let (f, b) := consume rev nf nb l in (s, ORange f b)
    | OpLen => (s, ONum (s_len m))
    | OpIsEmpty => (s, OBool (match m with [] => true | _ => false end))
    | OpCommit => ({| s_cur := m; s_committed := m |}, OUnit)
    | OpAbort => ({| s_cur := s_committed s; s_committed := s_committed s |}, OUnit)
    end.

  Fixpoint spec_run (ops : list op) (s : sstate) : sstate * list out :=
    match ops with
    | [] => (s, [])
    | o :: r => let (s', x) := spec_step o s in let (s'', xs) := spec_run r s' in (s'', x :: xs)
    end.

  (* well-formedness of a spec state: keys strictly increasing, each value list strictly increasing and non-empty *)
  Definition smap_wf (m : smap) : Prop :=
    sorted kcmp (map fst m) /\ Forall (fun e => sorted vcmp (snd e) /\ snd e <> []) m.
End MM.
Arguments op : clear implicits.
Arguments out : clear implicits.
