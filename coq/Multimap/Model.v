(* C09 model: the representation logic of src/multimap_table.rs.
   Per key the outer tree stores a DynamicCollection: either an inline leaf image (here: the sorted list of
   values it contains) or a subtree header (root, checksum, COUNT) (here: the stored count and the set of
   values held by the inner B-tree).  The inner B-tree itself is not modelled: the only fact about its
   shape that multimap_table.rs looks at -- "is the root page a LEAF after this removal?" -- is an input
   of the step ([OpRemove _ _ root_is_leaf]); the theorems quantify over every such input.
   Definitions only. *)
From RV Require Import Multimap.Spec.
Open Scope N_scope.

Section Model.
  Context {K V : Type}.
  Variable kcmp : K -> K -> comparison.
  Variable vcmp : V -> V -> comparison.
  Variable vlen : V -> N.              (* length of V::as_bytes(v) *)

  Inductive coll :=
  | Inline (l : list V)                (* DynamicCollectionType::Inline: a leaf image with these keys *)
  | Subtree (count : N) (l : list V).  (* SubtreeV2: BtreeHeader.length = count; l = contents of the subtree *)

  Definition vals (c : coll) : list V := match c with Inline l => l | Subtree _ l => l end.
  (* DynamicCollection::get_num_values *)
  Definition stored_count (c : coll) : N := match c with Inline l => nlen l | Subtree n _ => n end.
  Definition is_subtree (c : coll) : bool := match c with Inline _ => false | Subtree _ _ => true end.

  Record cfg := { page_size : N; vwidth : option N (* V::fixed_width() *) }.

  Definition U16_MAX : N := 65535.
  Definition sum_vlen (l : list V) : N := fold_right (fun v a => vlen v + a) 0 l.
  (* RawLeafBuilder::required_bytes(num_pairs, bytes, V::fixed_width(), Some(0))  ( <() as Value>::fixed_width() = Some(0) ) *)
  Definition required_bytes (c : cfg) (num_pairs bytes : N) : N :=
    4 + (match vwidth c with None => 4 * num_pairs | Some _ => 0 end) + bytes.
  (* LeafAccessor::total_length of a leaf holding exactly l (= required_bytes of it) *)
  Definition leaf_len (c : cfg) (l : list V) : N := required_bytes c (nlen l) (sum_vlen l).
  Definition half_page (c : cfg) : N := page_size c / 2.

  Record mtable := { t_entries : list (K * coll); t_num : N (* MultimapTable::num_values *) }.
  Record mstate := { m_cur : mtable; m_committed : mtable }.
  Definition t_empty : mtable := {| t_entries := []; t_num := 0 |}.
  Definition m_empty : mstate := {| m_cur := t_empty; m_committed := t_empty |}.

  (* MultimapTable::insert *)
  Definition m_insert (c : cfg) (k : K) (v : V) (t : mtable) : mtable * bool :=
    let es := t_entries t in
    match am_find kcmp k es with
    | Some (Inline l) =>
        let (l', found) := set_insert vcmp v l in
        if found then (t, true)                                   (* early return Ok(true) *)
        else
          let new_pairs := nlen l + 1 in
          let new_pair_bytes := sum_vlen l + vlen v in
          let req := required_bytes c new_pairs new_pair_bytes in
          if (req <? half_page c) && (new_pairs <=? U16_MAX)
          then ({| t_entries := am_put kcmp k (Inline l') es; t_num := t_num t + 1 |}, false)
          else (* convert: BtreeHeader::new(page, 0, num_pairs), then subtree.insert -> length + 1 *)
               ({| t_entries := am_put kcmp k (Subtree (nlen l + 1) l') es; t_num := t_num t + 1 |}, false)
    | Some (Subtree n l) =>
        let (l', existed) := set_insert vcmp v l in
        let n' := if existed then n else n + 1 in
        ({| t_entries := am_put kcmp k (Subtree n' l') es;
            t_num := if existed then t_num t else t_num t + 1 |}, existed)
    | None =>
        let req := required_bytes c 1 (vlen v) in
        if req <? half_page c
        then ({| t_entries := am_put kcmp k (Inline [v]) es; t_num := t_num t + 1 |}, false)
        else ({| t_entries := am_put kcmp k (Subtree 1 [v]) es; t_num := t_num t + 1 |}, false)
    end.

  (* MultimapTable::remove; root_is_leaf: page.memory()[0] == LEAF for the subtree's new root *)
  Definition m_remove (c : cfg) (k : K) (v : V) (root_is_leaf : bool) (t : mtable) : mtable * bool :=
    let es := t_entries t in
    match am_find kcmp k es with
    | None => (t, false)
    | Some (Inline l) =>
        let (l', found) := set_remove vcmp v l in
        if found then
          if nlen l =? 1
          then ({| t_entries := am_del kcmp k es; t_num := t_num t - 1 |}, true)
          else ({| t_entries := am_put kcmp k (Inline l') es; t_num := t_num t - 1 |}, true)
        else (t, false)
    | Some (Subtree n l) =>
        let (l', existed) := set_remove vcmp v l in
        if negb existed then (t, false)                           (* early return, nothing rewritten *)
        else
          match l' with
          | [] => ({| t_entries := am_del kcmp k es; t_num := t_num t - 1 |}, true)   (* get_root() = None *)
          | _ =>
              let coll' :=
                if root_is_leaf then
                  (* a LEAF page holds at most u16::MAX pairs; the implementation gets the third conjunct
                     from the page format *)
                  if (leaf_len c l' <? half_page c) && (nlen l' <=? U16_MAX)
                  then Inline l'
                  else Subtree (nlen l') l'                       (* accessor.num_pairs() *)
                else Subtree (n - 1) l'                           (* new_length of the BtreeMut *)
              in ({| t_entries := am_put kcmp k coll' es; t_num := t_num t - 1 |}, true)
          end
    end.

  (* MultimapTable::remove_all: returns the removed collection *)
  Definition m_remove_all (k : K) (t : mtable) : mtable * option coll :=
    let es := t_entries t in
    match am_find kcmp k es with
    | None => (t, None)
    | Some cl => ({| t_entries := am_del kcmp k es; t_num := t_num t - stored_count cl |}, Some cl)
    end.

  (* MultimapValue::from_collection: values in order, remaining = get_num_values *)
  Definition coll_out (rev : bool) (nf nb : N) (oc : option coll) : out K V :=
    match oc with
    | None => OVals [] [] 0
    | Some cl => let (f, b) := consume rev nf nb (vals cl) in OVals f b (stored_count cl)
    end.

  Definition model_step (c : cfg) (o : op K V) (s : mstate) : mstate * out K V :=
    let t := m_cur s in
    let upd t' := {| m_cur := t'; m_committed := m_committed s |} in
    match o with
    | OpInsert k v => let (t', b) := m_insert c k v t in (upd t', OBool b)
    | OpRemove k v leaf => let (t', b) := m_remove c k v leaf t in (upd t', OBool b)
    | OpRemoveAll k rev nf nb => let (t', oc) := m_remove_all k t in (upd t', coll_out rev nf nb oc)
    | OpGet k rev nf nb => (s, coll_out rev nf nb (am_find kcmp k (t_entries t)))
    | OpRange lo hi rev nf nb =>
        let l := map (fun e => (fst e, (vals (snd e), stored_count (snd e)))) (am_range kcmp lo hi (t_entries t)) in
        let (f, b) := consume rev nf nb l in (s, ORange f b)
    | OpLen => (s, ONum (t_num t))
    | OpIsEmpty => (s, OBool (t_num t =? 0))                      (* ReadableTableMetadata::is_empty: len()? == 0 *)
    | OpCommit => ({| m_cur := t; m_committed := t |}, OUnit)
    | OpAbort => ({| m_cur := m_committed s; m_committed := m_committed s |}, OUnit)
    end.

  Fixpoint model_run (c : cfg) (ops : list (op K V)) (s : mstate) : mstate * list (out K V) :=
    match ops with
    | [] => (s, [])
    | o :: r => let (s', x) := model_step c o s in let (s'', xs) := model_run c r s' in (s'', x :: xs)
    end.

  (* ------------------------------------------------------------ representation invariant *)
  Definition coll_ok (c : cfg) (cl : coll) : Prop :=
    vals cl <> [] /\
    match cl with
    | Inline l => leaf_len c l < half_page c /\ nlen l <= U16_MAX
    | Subtree n l => n = nlen l
    end.

  Definition table_inv (c : cfg) (t : mtable) : Prop :=
    Forall (fun e => coll_ok c (snd e)) (t_entries t) /\
    t_num t = sum_lengths (fun cl => nlen (vals cl)) (t_entries t).

  Definition mm_inv_def (c : cfg) (s : mstate) : Prop := table_inv c (m_cur s) /\ table_inv c (m_committed s).

  (* abstraction to the specification state *)
  Definition abs_table (t : mtable) : smap (K:=K) (V:=V) := map (fun e => (fst e, vals (snd e))) (t_entries t).
  Definition abs_state (s : mstate) : sstate (K:=K) (V:=V) :=
    {| s_cur := abs_table (m_cur s); s_committed := abs_table (m_committed s) |}.

  (* what the correspondence compares: tag and stored count per key *)
  Definition rep_of (k : K) (t : mtable) : option (bool * N) :=
    match am_find kcmp k (t_entries t) with
    | None => None
    | Some cl => Some (is_subtree cl, stored_count cl)
    end.
End Model.
