(* C09, two-level model: the multimap table as src/multimap_table.rs composes it out of TWO B-trees.

     OUTER tree   BtreeMut<K, DynamicCollection<V>> : key |-> collection
     collection   Inline (a leaf image: the sorted values)  |  Subtree header of an
     INNER tree   BtreeMut<V, ()>                    : value |-> ()

   Both trees are taken through one interface, [tree_impl] (what multimap_table.rs uses of a BtreeMut:
   get, range, insert, remove, get_root() = None, the root page being a LEAF and its entries, a header
   over a freshly written leaf page, the header length), so that the same definitions run over
     * C04's logical B-tree (Btree/Mutator.v, any in-place oracle)  -- object of c09_two_level_refines
     * C04's shape model    (Btree/Shape.v: dirty / allocated length) -- what the check replays against redb.
   The laws an implementation has to satisfy ([tree_laws]) are exactly the statements of C04's theorems
   (c04_read_correct, c04_insert_refines, c04_delete_refines and their shape versions).
   The inline/subtree decisions are those of Model.v (the representation model), function by function.
   Definitions only; proofs in SubtreeP.v. *)
From Coq Require Import List NArith Bool.
From RV Require Base.SortedMap Btree.Tree Btree.Read Btree.Mutator Btree.Shape.
From RV Require Import Multimap.Spec Multimap.Model.
Import ListNotations.
Open Scope N_scope.

(* ---------------------------------------------------------------- what multimap_table.rs uses of a BtreeMut *)
Record tree_impl (K V T : Type) : Type := mk_impl {
  ti_empty : T;                                              (* BtreeMut::new(None, ..) *)
  ti_abs : T -> list (K * V);                                (* specification only: in-order contents *)
  ti_len : T -> N;                                           (* BtreeHeader.length *)
  ti_is_none : T -> bool;                                    (* get_root() = None *)
  ti_get : T -> K -> option V;
  ti_range : T -> SortedMap.bound K -> SortedMap.bound K -> list (K * V);
  ti_insert : T -> K -> V -> T * option V;
  ti_delete : T -> K -> T * option V;
  ti_root_leaf : T -> option (list (K * V));                 (* Some es: the root page is a LEAF holding es *)
  ti_of_leaf : list (K * V) -> N -> T;                       (* BtreeHeader::new(fresh page with this leaf, 0, n) *)
  ti_set_len : T -> N -> T;                                  (* BtreeHeader::new(root, checksum, n) *)
  ti_commit : T -> T }.                                      (* every page becomes a committed page *)
Arguments ti_empty {K V T}. Arguments ti_abs {K V T}. Arguments ti_len {K V T}. Arguments ti_is_none {K V T}.
Arguments ti_get {K V T}. Arguments ti_range {K V T}. Arguments ti_insert {K V T}. Arguments ti_delete {K V T}.
Arguments ti_root_leaf {K V T}. Arguments ti_of_leaf {K V T}. Arguments ti_set_len {K V T}. Arguments ti_commit {K V T}.

(* the statements of C04's theorems, as an interface *)
Record tree_laws {K V T : Type} (cmp : K -> K -> comparison) (I : tree_impl K V T) (inv : T -> Prop) : Prop := {
  law_inv_empty : inv (ti_empty I);
  law_abs_empty : ti_abs I (ti_empty I) = [];
  law_sorted : forall t, inv t -> SortedMap.sorted cmp (ti_abs I t);
  law_len : forall t, inv t -> ti_len I t = SortedMap.len (ti_abs I t);
  law_none : forall t, inv t -> ti_is_none I t = match ti_abs I t with [] => true | _ => false end;
  law_get : forall t k, inv t -> ti_get I t k = SortedMap.get cmp (ti_abs I t) k;
  law_range : forall t lo hi, inv t -> ti_range I t lo hi = SortedMap.range cmp (ti_abs I t) lo hi;
  law_insert : forall t k v, inv t ->
    inv (fst (ti_insert I t k v)) /\
    ti_abs I (fst (ti_insert I t k v)) = SortedMap.insert cmp (ti_abs I t) k v /\
    snd (ti_insert I t k v) = SortedMap.get cmp (ti_abs I t) k;
  law_delete : forall t k, inv t ->
    inv (fst (ti_delete I t k)) /\
    ti_abs I (fst (ti_delete I t k)) = SortedMap.remove cmp (ti_abs I t) k /\
    snd (ti_delete I t k) = SortedMap.get cmp (ti_abs I t) k;
  law_root_leaf : forall t es, ti_root_leaf I t = Some es -> ti_abs I t = es;
  law_of_leaf : forall es, es <> [] -> SortedMap.sorted cmp es ->
    inv (ti_of_leaf I es (SortedMap.len es)) /\ ti_abs I (ti_of_leaf I es (SortedMap.len es)) = es;
  law_set_len : forall t n, inv t -> n = SortedMap.len (ti_abs I t) ->
    inv (ti_set_len I t n) /\ ti_abs I (ti_set_len I t n) = ti_abs I t;
  law_commit : forall t, inv t -> inv (ti_commit I t) /\ ti_abs I (ti_commit I t) = ti_abs I t }.

(* ---------------------------------------------------------------- instance 1: the logical B-tree of C04 *)
Section MutImpl.
  Context {K V : Type}.
  Variable cmp : K -> K -> comparison.
  Variable ksize : K -> N.
  Variable vsize : V -> N.
  Variable fixed_k fixed_v : bool.
  Variable page_size : N.
  Variable sep : K -> K -> K.
  Variable inplace : list (K * V) -> K -> V -> bool.

  Definition bt_root_leaf (bt : @Tree.btree K V) : option (list (K * V)) :=
    match Tree.bt_root bt with Some (Tree.Leaf es) => Some es | _ => None end.

  Definition mut_impl : tree_impl K V (@Tree.btree K V) := {|
    ti_empty := Tree.empty_tree;
    ti_abs := Tree.abs_tree;
    ti_len := @Tree.bt_len K V;
    ti_is_none := fun bt => match Tree.bt_root bt with None => true | Some _ => false end;
    ti_get := Read.tget cmp;
    ti_range := Read.trange cmp;
    ti_insert := Mutator.insert cmp ksize vsize fixed_k fixed_v page_size sep inplace;
    ti_delete := Mutator.delete cmp ksize vsize fixed_k fixed_v page_size sep;
    ti_root_leaf := bt_root_leaf;
    ti_of_leaf := fun es n => Tree.mk_btree (Some (Tree.Leaf es)) n;
    ti_set_len := fun bt n => Tree.mk_btree (Tree.bt_root bt) n;
    ti_commit := fun bt => bt |}.

  (* ---------------------------------------------------------------- instance 2: the shape model of C04 *)
  Definition sb_root_leaf (st : @Shape.sbtree K V) : option (list (K * V)) :=
    match Shape.sb_root st with Some (Shape.SLeaf _ _ es) => Some es | _ => None end.

  Definition shape_impl : tree_impl K V (@Shape.sbtree K V) := {|
    ti_empty := Shape.sempty;
    ti_abs := fun st => Tree.abs_tree (Shape.erase_tree st);
    ti_len := @Shape.sb_len K V;
    ti_is_none := fun st => match Shape.sb_root st with None => true | Some _ => false end;
    ti_get := fun st => Read.tget cmp (Shape.erase_tree st);
    ti_range := fun st => Read.trange cmp (Shape.erase_tree st);
    ti_insert := Shape.s_insert cmp ksize vsize fixed_k fixed_v page_size sep;
    ti_delete := Shape.s_delete cmp ksize vsize fixed_k fixed_v page_size sep;
    ti_root_leaf := sb_root_leaf;
    (* page_allocator.allocate(leaf_data.len()) + copy: an uncommitted page allocated for exactly this leaf *)
    ti_of_leaf := fun es n => Shape.mk_sbtree (Some (Shape.mk_leaf ksize vsize fixed_k fixed_v page_size es)) n;
    ti_set_len := fun st n => Shape.mk_sbtree (Shape.sb_root st) n;
    ti_commit := @Shape.s_commit K V |}.
End MutImpl.

(* ---------------------------------------------------------------- the multimap table over two trees *)
Section TwoLevel.
  Context {K V OT IT : Type}.
  Variable kcmp : K -> K -> comparison.
  Variable vcmp : V -> V -> comparison.
  Variable vlen : V -> N.

  (* DynamicCollection<V>: an inline leaf image or the header of the key's own tree.  [stamp] = the write
     transaction that stored the header: the pages of a subtree stored by an earlier transaction are all
     committed pages (PageAllocator::uncommitted is false for them), see [fresh]. *)
  Inductive ocoll : Type :=
  | OInline (l : list V)
  | OSub (stamp : N) (t : IT).

  Variable outer : tree_impl K ocoll OT.
  Variable inner : tree_impl V unit IT.

  Definition units (l : list V) : list (V * unit) := List.map (fun v => (v, tt)) l.
  Definition keys (es : list (V * unit)) : list V := List.map fst es.

  (* MultimapValue::from_collection: the values in order (a full-range cursor over the subtree) and the
     length the iterator reports, get_num_values() *)
  Definition o_vals (cl : ocoll) : list V :=
    match cl with
    | OInline l => l
    | OSub _ t => keys (ti_range inner t SortedMap.Unbounded SortedMap.Unbounded)
    end.
  Definition o_count (cl : ocoll) : N :=
    match cl with OInline l => Spec.nlen l | OSub _ t => ti_len inner t end.

  Record tl_table : Type := { tl_tree : OT; tl_num : N (* MultimapTable::num_values *) }.
  Record tl_state : Type := { tl_cur : tl_table; tl_com : tl_table; tl_txn : N }.
  Definition tl_t_empty : tl_table := {| tl_tree := ti_empty outer; tl_num := 0 |}.
  Definition tl_empty : tl_state := {| tl_cur := tl_t_empty; tl_com := tl_t_empty; tl_txn := 0 |}.

  (* BtreeMut::new(Some(header), ..) in transaction [txn] over a subtree stored by transaction [stamp] *)
  Definition fresh (txn stamp : N) (t : IT) : IT := if stamp <? txn then ti_commit inner t else t.

  Definition o_put (t : tl_table) (k : K) (cl : ocoll) (num : N) : tl_table :=
    {| tl_tree := fst (ti_insert outer (tl_tree t) k cl); tl_num := num |}.
  Definition o_del (t : tl_table) (k : K) (num : N) : tl_table :=
    {| tl_tree := fst (ti_delete outer (tl_tree t) k); tl_num := num |}.

  (* MultimapTable::insert *)
  Definition tl_insert (c : cfg) (txn : N) (k : K) (v : V) (t : tl_table) : tl_table * bool :=
    match ti_get outer (tl_tree t) k with
    | Some (OInline l) =>
        let (l', found) := set_insert vcmp v l in
        if found then (t, true)
        else
          let new_pairs := Spec.nlen l + 1 in
          let req := required_bytes c new_pairs (sum_vlen vlen l + vlen v) in
          if (req <? half_page c) && (new_pairs <=? U16_MAX)
          then (o_put t k (OInline l') (tl_num t + 1), false)
          else
            (* the leaf image is copied to a fresh page, BtreeHeader::new(page, 0, num_pairs), subtree.insert *)
            let sub := ti_of_leaf inner (units l) (Spec.nlen l) in
            (o_put t k (OSub txn (fst (ti_insert inner sub v tt))) (tl_num t + 1), false)
    | Some (OSub st it) =>
        let (it', old) := ti_insert inner (fresh txn st it) v tt in
        let existed := match old with Some _ => true | None => false end in
        (o_put t k (OSub txn it') (if existed then tl_num t else tl_num t + 1), existed)
    | None =>
        let req := required_bytes c 1 (vlen v) in
        if req <? half_page c
        then (o_put t k (OInline [v]) (tl_num t + 1), false)
        else (o_put t k (OSub txn (fst (ti_insert inner (ti_empty inner) v tt))) (tl_num t + 1), false)
    end.

  (* what MultimapTable::remove stores for the key after a successful removal from its subtree *)
  Definition after_subtree_remove (c : cfg) (txn : N) (it' : IT) : ocoll :=
    match ti_root_leaf inner it' with
    | Some es =>                                             (* page.memory()[0] == LEAF *)
        let l' := keys es in
        if (leaf_len vlen c l' <? half_page c) && (Spec.nlen l' <=? U16_MAX)
        then OInline l'                                      (* back inline, the page is freed *)
        else OSub txn (ti_set_len inner it' (Spec.nlen l'))  (* accessor.num_pairs() *)
    | None => OSub txn it'                                   (* BRANCH: the header as the BtreeMut left it *)
    end.

  (* MultimapTable::remove *)
  Definition tl_remove (c : cfg) (txn : N) (k : K) (v : V) (t : tl_table) : tl_table * bool :=
    match ti_get outer (tl_tree t) k with
    | None => (t, false)
    | Some (OInline l) =>
        let (l', found) := set_remove vcmp v l in
        if found then
          if Spec.nlen l =? 1 then (o_del t k (tl_num t - 1), true)
          else (o_put t k (OInline l') (tl_num t - 1), true)
        else (t, false)
    | Some (OSub st it) =>
        let (it', old) := ti_delete inner (fresh txn st it) v in
        match old with
        | None => (t, false)                                 (* early return, nothing rewritten *)
        | Some _ =>
            if ti_is_none inner it' then (o_del t k (tl_num t - 1), true)
            else (o_put t k (after_subtree_remove c txn it') (tl_num t - 1), true)
        end
    end.

  (* MultimapTable::remove_all *)
  Definition tl_remove_all (k : K) (t : tl_table) : tl_table * option ocoll :=
    let (ot', old) := ti_delete outer (tl_tree t) k in
    match old with
    | None => (t, None)
    | Some cl => ({| tl_tree := ot'; tl_num := tl_num t - o_count cl |}, Some cl)
    end.

  Definition tl_coll_out (rev : bool) (nf nb : N) (oc : option ocoll) : out K V :=
    match oc with
    | None => OVals [] [] 0
    | Some cl => let (f, b) := consume rev nf nb (o_vals cl) in OVals f b (o_count cl)
    end.

  Definition conv_bound (b : @Spec.bound K) : SortedMap.bound K :=
    match b with BUnb => SortedMap.Unbounded | BIncl k => SortedMap.Included k | BExcl k => SortedMap.Excluded k end.

  (* the leaf bit of an OpRemove is ignored: the two-level model looks at its own inner tree *)
  Definition tl_step (c : cfg) (o : op K V) (s : tl_state) : tl_state * out K V :=
    let t := tl_cur s in
    let upd t' := {| tl_cur := t'; tl_com := tl_com s; tl_txn := tl_txn s |} in
    match o with
    | OpInsert k v => let (t', b) := tl_insert c (tl_txn s) k v t in (upd t', OBool b)
    | OpRemove k v _ => let (t', b) := tl_remove c (tl_txn s) k v t in (upd t', OBool b)
    | OpRemoveAll k rev nf nb => let (t', oc) := tl_remove_all k t in (upd t', tl_coll_out rev nf nb oc)
    | OpGet k rev nf nb => (s, tl_coll_out rev nf nb (ti_get outer (tl_tree t) k))
    | OpRange lo hi rev nf nb =>
        let l := List.map (fun e => (fst e, (o_vals (snd e), o_count (snd e))))
                          (ti_range outer (tl_tree t) (conv_bound lo) (conv_bound hi)) in
        let (f, b) := consume rev nf nb l in (s, ORange f b)
    | OpLen => (s, ONum (tl_num t))
    | OpIsEmpty => (s, OBool (tl_num t =? 0))
    | OpCommit =>
        let t' := {| tl_tree := ti_commit outer (tl_tree t); tl_num := tl_num t |} in
        ({| tl_cur := t'; tl_com := t'; tl_txn := tl_txn s + 1 |}, OUnit)
    | OpAbort => ({| tl_cur := tl_com s; tl_com := tl_com s; tl_txn := tl_txn s + 1 |}, OUnit)
    end.

  Fixpoint tl_run (c : cfg) (ops : list (op K V)) (s : tl_state) : tl_state * list (out K V) :=
    match ops with
    | [] => (s, [])
    | o :: r => let (s', x) := tl_step c o s in let (s'', xs) := tl_run c r s' in (s'', x :: xs)
    end.

  (* ---------------------------------------------------------------- abstraction to the representation model *)
  Definition coll_abs (cl : ocoll) : @coll V :=
    match cl with
    | OInline l => Inline l
    | OSub _ t => Subtree (ti_len inner t) (keys (ti_abs inner t))
    end.
  Definition abs_tab (t : tl_table) : @mtable K V :=
    {| t_entries := List.map (fun e => (fst e, coll_abs (snd e))) (ti_abs outer (tl_tree t)); t_num := tl_num t |}.
  Definition abs2 (s : tl_state) : @mstate K V := {| m_cur := abs_tab (tl_cur s); m_committed := abs_tab (tl_com s) |}.
  (* "the outer tree's contents with each collection expanded to its sorted value set" *)
  Definition tl_abs (s : tl_state) : @sstate K V := abs_state (abs2 s).

  (* the observation Model.v takes as an input: is the subtree's new root a LEAF page? *)
  Definition tl_leafbit (txn : N) (k : K) (v : V) (t : tl_table) : bool :=
    match ti_get outer (tl_tree t) k with
    | Some (OSub st it) =>
        match ti_root_leaf inner (fst (ti_delete inner (fresh txn st it) v)) with Some _ => true | None => false end
    | _ => false
    end.
  Definition tl_resolve (o : op K V) (s : tl_state) : op K V :=
    match o with
    | OpRemove k v _ => OpRemove k v (tl_leafbit (tl_txn s) k v (tl_cur s))
    | o' => o'
    end.
  Fixpoint tl_trace (c : cfg) (ops : list (op K V)) (s : tl_state) : list (op K V) :=
    match ops with
    | [] => []
    | o :: r => tl_resolve o s :: tl_trace c r (fst (tl_step c o s))
    end.

  (* ---------------------------------------------------------------- well-formedness of a two-level state *)
  Variable o_inv : OT -> Prop.
  Variable i_inv : IT -> Prop.

  Definition coll_wf (cl : ocoll) : Prop :=
    match cl with
    | OInline l => l <> [] /\ SortedMap.sorted vcmp (units l)
    | OSub _ t => i_inv t
    end.
  Definition table_wf (t : tl_table) : Prop :=
    o_inv (tl_tree t) /\ Forall (fun e => coll_wf (snd e)) (ti_abs outer (tl_tree t)).
  Definition state_wf (s : tl_state) : Prop := table_wf (tl_cur s) /\ table_wf (tl_com s).

  (* the bookkeeping: the count stored in every subtree header is the number of values in that subtree, and
     num_values is the number of pairs present *)
  Definition counts_exact (t : tl_table) : Prop :=
    Forall (fun e => match snd e with
                     | OSub _ it => ti_len inner it = Spec.nlen (keys (ti_abs inner it))
                     | OInline _ => True
                     end) (ti_abs outer (tl_tree t)) /\
    tl_num t = sum_lengths (fun cl => Spec.nlen (vals (coll_abs cl))) (ti_abs outer (tl_tree t)).

  (* what the correspondence compares per key: tag, stored count, is the subtree's root a leaf, byte length of
     the inline leaf / of the subtree's root leaf (0 for a branch root) -- MultimapTable::verif_collection_info *)
  Definition tl_rep (c : cfg) (k : K) (t : tl_table) : option (bool * N * bool * N) :=
    match ti_get outer (tl_tree t) k with
    | None => None
    | Some (OInline l) => Some (false, Spec.nlen l, true, leaf_len vlen c l)
    | Some (OSub _ it) =>
        match ti_root_leaf inner it with
        | Some es => Some (true, ti_len inner it, true, leaf_len vlen c (keys es))
        | None => Some (true, ti_len inner it, false, 0)
        end
    end.
End TwoLevel.
Arguments OInline {V IT} l.
Arguments OSub {V IT} stamp t.
