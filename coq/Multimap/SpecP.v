(* C09: facts about the specification object itself -- it maintains sorted keys / sorted duplicate-free
   non-empty value lists, and its operations have plain set semantics. *)
From RV Require Import Multimap.Spec Multimap.Model Multimap.ModelP.
Open Scope N_scope.

Local Arguments sorted : simpl never.

Section SetP.
  Context {A : Type} (cmp : A -> A -> comparison) (HL : ord_laws cmp).

  Definition hd_lt (z : A) (l : list A) : Prop := match l with [] => True | y :: _ => cmp z y = Lt end.

  Lemma sorted_cons x r : sorted cmp (x :: r) = (hd_lt x r /\ sorted cmp r).
  Proof. reflexivity. Qed.

  Lemma cmp_refl a : cmp a a = Eq.
  Proof. now apply (ol_eq _ HL). Qed.

  Lemma cmp_gt_lt a b : cmp a b = Gt -> cmp b a = Lt.
  Proof. intros H. rewrite (ol_anti _ HL), H. reflexivity. Qed.

  Lemma cmp_lt_neq a b : cmp a b = Lt -> a <> b.
  Proof. intros H ->. rewrite cmp_refl in H. discriminate. Qed.

  Lemma cmp_gt_neq a b : cmp a b = Gt -> a <> b.
  Proof. intros H ->. rewrite cmp_refl in H. discriminate. Qed.

  Lemma hd_lt_trans z x l : cmp z x = Lt -> hd_lt x l -> hd_lt z l.
  Proof. destruct l; simpl; auto. intros. eapply (ol_trans _ HL); eauto. Qed.

  Lemma sorted_all_lt x r : hd_lt x r -> sorted cmp r -> forall y, In y r -> cmp x y = Lt.
  Proof.
    revert x. induction r as [|y0 r IH]; intros x Hh Hs y Hin; [destruct Hin|].
    rewrite sorted_cons in Hs. destruct Hs as [Hh' Hs]. simpl in Hh.
    destruct Hin as [->|Hin]; auto.
    apply IH; auto. eapply hd_lt_trans; eauto.
  Qed.

  Lemma set_insert_hd z x l : cmp z x = Lt -> hd_lt z l -> hd_lt z (fst (set_insert cmp x l)).
  Proof.
    destruct l as [|y r]; simpl; auto.
    destruct (cmp x y); simpl; auto. destruct (set_insert cmp x r); simpl; auto.
  Qed.

  Lemma set_insert_sorted x l : sorted cmp l -> sorted cmp (fst (set_insert cmp x l)).
  Proof.
    induction l as [|y r IH]; [intros; compute; auto|].
    rewrite sorted_cons. intros [Hh Hs]. simpl.
    destruct (cmp x y) eqn:E; simpl.
    - rewrite sorted_cons; auto.
    - rewrite !sorted_cons. simpl. auto.
    - pose proof (set_insert_hd y x r (cmp_gt_lt _ _ E) Hh) as H1. specialize (IH Hs).
      destruct (set_insert cmp x r); simpl in *. rewrite sorted_cons; auto.
  Qed.

  Lemma set_remove_hd z x l : hd_lt z l -> sorted cmp l -> hd_lt z (fst (set_remove cmp x l)).
  Proof.
    destruct l as [|y r]; simpl; auto. intros Hz [Hh Hs].
    destruct (cmp x y); simpl; auto.
    - eapply hd_lt_trans; eauto.
    - destruct (set_remove cmp x r); simpl; auto.
  Qed.

  Lemma set_remove_sorted x l : sorted cmp l -> sorted cmp (fst (set_remove cmp x l)).
  Proof.
    induction l as [|y r IH]; [intros; compute; auto|].
    rewrite sorted_cons. intros [Hh Hs]. simpl.
    destruct (cmp x y) eqn:E; simpl; auto.
    - rewrite sorted_cons; auto.
    - pose proof (set_remove_hd y x r Hh Hs) as H1. specialize (IH Hs).
      destruct (set_remove cmp x r); simpl in *. rewrite sorted_cons; auto.
  Qed.

  Lemma set_insert_In x l y : In y (fst (set_insert cmp x l)) <-> y = x \/ In y l.
  Proof.
    induction l as [|y0 r IH]; simpl; [intuition|].
    destruct (cmp x y0) eqn:E; simpl.
    - apply (ol_eq _ HL) in E. subst. intuition.
    - intuition.
    - destruct (set_insert cmp x r); simpl in *. intuition.
  Qed.

  Lemma set_insert_true_In x l : snd (set_insert cmp x l) = true -> In x l.
  Proof.
    induction l as [|y0 r IH]; simpl; [discriminate|].
    destruct (cmp x y0) eqn:E; simpl; try discriminate.
    - apply (ol_eq _ HL) in E. auto.
    - destruct (set_insert cmp x r); simpl in *. auto.
  Qed.

  Lemma set_remove_In x l y : sorted cmp l -> (In y (fst (set_remove cmp x l)) <-> In y l /\ y <> x).
  Proof.
    induction l as [|y0 r IH]; [simpl; intuition|].
    rewrite sorted_cons. intros [Hh Hs]. simpl.
    pose proof (sorted_all_lt y0 r Hh Hs) as Hall.
    destruct (cmp x y0) eqn:E; simpl.
    - apply (ol_eq _ HL) in E. subst y0. split.
      + intros Hin. split; auto. apply not_eq_sym, cmp_lt_neq; auto.
      + intros [[->|Hin] Hne]; [congruence|auto].
    - split; [|tauto]. intros Hin. split; auto. apply not_eq_sym. destruct Hin as [->|Hin].
      + now apply cmp_lt_neq.
      + apply cmp_lt_neq. eapply (ol_trans _ HL); eauto.
    - specialize (IH Hs). destruct (set_remove cmp x r); simpl in *.
      split.
      + intros [->|Hin]; [split; auto; apply not_eq_sym, cmp_gt_neq; auto|]. apply IH in Hin. tauto.
      + intros [[->|Hin] Hne]; auto. right. apply IH. auto.
  Qed.

  Lemma set_remove_false_notin x l : sorted cmp l -> snd (set_remove cmp x l) = false -> ~ In x l.
  Proof.
    intros Hs Hf Hin. pose proof (set_remove_In x l x Hs) as H.
    rewrite (set_remove_notfound cmp x l Hf) in H. apply H in Hin. tauto.
  Qed.

  Lemma find_none_hd {B} (k : A) (m : list (A * B)) : hd_lt k (map fst m) -> am_find cmp k m = None.
  Proof. destruct m as [|[k0 b0] r]; simpl; auto. intros ->. reflexivity. Qed.

  (* keys of put/del are set_insert/set_remove of the keys *)
  Lemma keys_put {B} k (b : B) m : map fst (am_put cmp k b m) = fst (set_insert cmp k (map fst m)).
  Proof.
    induction m as [|[k0 b0] r IH]; simpl; auto.
    destruct (cmp k k0) eqn:E; simpl; auto.
    - apply (ol_eq _ HL) in E. now subst.
    - rewrite IH. destruct (set_insert cmp k (map fst r)); reflexivity.
  Qed.

  Lemma keys_del {B} k (m : list (A * B)) : map fst (am_del cmp k m) = fst (set_remove cmp k (map fst m)).
  Proof.
    induction m as [|[k0 b0] r IH]; simpl; auto.
    destruct (cmp k k0) eqn:E; simpl; auto.
    rewrite IH. destruct (set_remove cmp k (map fst r)); reflexivity.
  Qed.

  Lemma am_find_put {B} k' k (b : B) m :
    am_find cmp k' (am_put cmp k b m) = match cmp k' k with Eq => Some b | _ => am_find cmp k' m end.
  Proof.
    induction m as [|[k0 b0] r IH]; simpl.
    - destruct (cmp k' k); reflexivity.
    - destruct (cmp k k0) eqn:E; simpl.
      + apply (ol_eq _ HL) in E. subst k0. destruct (cmp k' k); reflexivity.
      + destruct (cmp k' k) eqn:E2; auto.
        rewrite (ol_trans _ HL _ _ _ E2 E). reflexivity.
      + destruct (cmp k' k0) eqn:E2.
        * apply (ol_eq _ HL) in E2. subst k0. rewrite (cmp_gt_lt _ _ E). reflexivity.
        * rewrite (ol_trans _ HL _ _ _ E2 (cmp_gt_lt _ _ E)). reflexivity.
        * apply IH.
  Qed.

  Lemma am_find_del {B} k' k (m : list (A * B)) :
    sorted cmp (map fst m) ->
    am_find cmp k' (am_del cmp k m) = match cmp k' k with Eq => None | _ => am_find cmp k' m end.
  Proof.
    induction m as [|[k0 b0] r IH]; simpl map.
    - simpl. destruct (cmp k' k); reflexivity.
    - rewrite sorted_cons. intros [Hh Hs]. simpl.
      destruct (cmp k k0) eqn:E; simpl.
      + apply (ol_eq _ HL) in E. subst k0.
        destruct (cmp k' k) eqn:E2; auto.
        * apply (ol_eq _ HL) in E2. subst. now apply find_none_hd.
        * apply find_none_hd. eapply hd_lt_trans; eauto.
      + destruct (cmp k' k) eqn:E2; auto.
        apply (ol_eq _ HL) in E2. subst. rewrite E. reflexivity.
      + destruct (cmp k' k0) eqn:E2.
        * apply (ol_eq _ HL) in E2. subst k0. rewrite (cmp_gt_lt _ _ E). reflexivity.
        * rewrite (ol_trans _ HL _ _ _ E2 (cmp_gt_lt _ _ E)). reflexivity.
        * apply IH; auto.
  Qed.
End SetP.

Section SpecSem.
  Context {K V : Type}.
  Variable kcmp : K -> K -> comparison.
  Variable vcmp : V -> V -> comparison.
  Hypothesis Hk : ord_laws kcmp.
  Hypothesis Hv : ord_laws vcmp.

  Notation smap := (@smap K V).
  Notation wf := (smap_wf kcmp vcmp).

  Lemma wf_find (m : smap) k vs : wf m -> am_find kcmp k m = Some vs -> sorted vcmp vs /\ vs <> [].
  Proof.
    intros [_ Hall] Hf. destruct (am_find_In kcmp _ _ _ Hf) as [k' Hin].
    rewrite Forall_forall in Hall. exact (Hall _ Hin).
  Qed.

  Lemma wf_put (m : smap) k vs : wf m -> sorted vcmp vs -> vs <> [] -> wf (am_put kcmp k vs m).
  Proof.
    intros [Hs Hall] H1 H2. split.
    - rewrite (keys_put kcmp Hk). now apply set_insert_sorted.
    - apply Forall_put; auto.
  Qed.

  Lemma wf_del (m : smap) k : wf m -> wf (am_del kcmp k m).
  Proof.
    intros [Hs Hall]. split.
    - rewrite keys_del. now apply set_remove_sorted.
    - now apply Forall_del.
  Qed.

  Lemma s_insert_wf k v (m : smap) : wf m -> wf (fst (s_insert kcmp vcmp k v m)).
  Proof.
    intros Hw. unfold s_insert. destruct (am_find kcmp k m) as [vs|] eqn:Hf.
    - destruct (wf_find _ _ _ Hw Hf) as [Hs Hne].
      pose proof (set_insert_sorted vcmp Hv v vs Hs) as H1.
      pose proof (set_insert_nonempty vcmp v vs) as H2.
      destruct (set_insert vcmp v vs) as [vs' b]; simpl in *. destruct b; simpl; auto.
      apply wf_put; auto.
    - simpl. apply wf_put; auto; [compute; auto|discriminate].
  Qed.

  Lemma s_remove_wf k v (m : smap) : wf m -> wf (fst (s_remove kcmp vcmp k v m)).
  Proof.
    intros Hw. unfold s_remove. destruct (am_find kcmp k m) as [vs|] eqn:Hf; simpl; auto.
    destruct (wf_find _ _ _ Hw Hf) as [Hs Hne].
    pose proof (set_remove_sorted vcmp Hv v vs Hs) as H1.
    destruct (set_remove vcmp v vs) as [vs' b]; simpl in *. destruct b; simpl; auto.
    destruct vs' eqn:E; simpl.
    - now apply wf_del.
    - apply wf_put; auto. discriminate.
  Qed.

  Lemma spec_step_wf o (s : sstate) :
    wf (s_cur s) /\ wf (s_committed s) ->
    wf (s_cur (fst (spec_step kcmp vcmp o s))) /\ wf (s_committed (fst (spec_step kcmp vcmp o s))).
  Proof.
    intros [H1 H2]. destruct o; simpl; auto.
    - pose proof (s_insert_wf k v _ H1). destruct (s_insert kcmp vcmp k v (s_cur s)); simpl in *; auto.
    - pose proof (s_remove_wf k v _ H1). destruct (s_remove kcmp vcmp k v (s_cur s)); simpl in *; auto.
    - destruct (consume rev nf nb (s_get kcmp k (s_cur s))); simpl. split; auto. now apply wf_del.
  Qed.

  Lemma spec_run_wf_from ops : forall (s : sstate),
    wf (s_cur s) /\ wf (s_committed s) ->
    wf (s_cur (fst (spec_run kcmp vcmp ops s))) /\ wf (s_committed (fst (spec_run kcmp vcmp ops s))).
  Proof.
    induction ops as [|o r IH]; intros s Hs; simpl; auto.
    pose proof (spec_step_wf o s Hs) as H.
    destruct (spec_step kcmp vcmp o s) as [s' x]; simpl in *.
    specialize (IH s' H). destruct (spec_run kcmp vcmp r s'); simpl in *. auto.
  Qed.

  Lemma wf_nil : wf [].
  Proof. split; [compute; auto|constructor]. Qed.

  Lemma spec_run_wf ops :
    wf (s_cur (fst (spec_run kcmp vcmp ops s_empty))) /\ wf (s_committed (fst (spec_run kcmp vcmp ops s_empty))).
  Proof. apply spec_run_wf_from. simpl. split; apply wf_nil. Qed.

  (* ---- set semantics *)
  Lemma s_get_put k' k vs (m : smap) :
    s_get kcmp k' (am_put kcmp k vs m) = match kcmp k' k with Eq => vs | _ => s_get kcmp k' m end.
  Proof. unfold s_get. rewrite (am_find_put kcmp Hk). destruct (kcmp k' k); reflexivity. Qed.

  Lemma s_get_del k' k (m : smap) : wf m ->
    s_get kcmp k' (am_del kcmp k m) = match kcmp k' k with Eq => [] | _ => s_get kcmp k' m end.
  Proof. intros [Hs _]. unfold s_get. rewrite (am_find_del kcmp Hk); auto. destruct (kcmp k' k); reflexivity. Qed.

  Lemma keq_dec k' k : (kcmp k' k = Eq /\ k' = k) \/ (kcmp k' k <> Eq /\ k' <> k).
  Proof.
    destruct (kcmp k' k) eqn:E.
    - left. split; auto. now apply (ol_eq _ Hk).
    - right. split; [discriminate|]. now apply (cmp_lt_neq kcmp Hk).
    - right. split; [discriminate|]. now apply (cmp_gt_neq kcmp Hk).
  Qed.

  Lemma s_insert_sem (m : smap) k v k' v' : wf m ->
    (In v' (s_get kcmp k' (fst (s_insert kcmp vcmp k v m))) <-> (k' = k /\ v' = v) \/ In v' (s_get kcmp k' m)).
  Proof.
    intros Hw. unfold s_insert. destruct (am_find kcmp k m) as [vs|] eqn:Hf.
    - pose proof (set_insert_In vcmp Hv v vs v') as HIn.
      pose proof (set_insert_true_In vcmp Hv v vs) as HT.
      destruct (set_insert vcmp v vs) as [vs' b]; simpl in *. destruct b; simpl.
      + split; auto. intros [[-> ->]|H]; auto. unfold s_get. rewrite Hf. auto.
      + rewrite s_get_put. destruct (keq_dec k' k) as [[E ->]|[E Hne]].
        * rewrite E, HIn. unfold s_get. rewrite Hf. tauto.
        * destruct (kcmp k' k); try congruence; tauto.
    - simpl. rewrite s_get_put. destruct (keq_dec k' k) as [[E ->]|[E Hne]].
      + rewrite E. unfold s_get. rewrite Hf. simpl. intuition.
      + destruct (kcmp k' k); try congruence; tauto.
  Qed.

  Lemma s_remove_sem (m : smap) k v k' v' : wf m ->
    (In v' (s_get kcmp k' (fst (s_remove kcmp vcmp k v m))) <-> In v' (s_get kcmp k' m) /\ ~ (k' = k /\ v' = v)).
  Proof.
    intros Hw. unfold s_remove. destruct (am_find kcmp k m) as [vs|] eqn:Hf; simpl.
    - destruct (wf_find _ _ _ Hw Hf) as [Hs Hne].
      pose proof (set_remove_In vcmp Hv v vs v' Hs) as HIn.
      pose proof (set_remove_false_notin vcmp Hv v vs Hs) as HF.
      destruct (set_remove vcmp v vs) as [vs' b]; simpl in *. destruct b; simpl.
      + match goal with |- In v' (s_get kcmp k' ?X) <-> _ =>
          assert (s_get kcmp k' X = match kcmp k' k with Eq => vs' | _ => s_get kcmp k' m end) as ->
        end.
        { destruct vs'; [rewrite s_get_del; auto | rewrite s_get_put; auto]. }
        destruct (keq_dec k' k) as [[E ->]|[E Hne']].
        * rewrite E, HIn. unfold s_get. rewrite Hf. tauto.
        * destruct (kcmp k' k); try congruence; tauto.
      + split; [|tauto]. intros H. split; auto. intros [-> ->].
        unfold s_get in H. rewrite Hf in H. now apply HF.
    - split; [|tauto]. intros H. split; auto. intros [-> ->]. unfold s_get in H. rewrite Hf in H. destruct H.
  Qed.

  Lemma s_remove_all_sem (m : smap) k k' v' : wf m ->
    (In v' (s_get kcmp k' (am_del kcmp k m)) <-> In v' (s_get kcmp k' m) /\ k' <> k).
  Proof.
    intros Hw. rewrite s_get_del; auto. destruct (keq_dec k' k) as [[E ->]|[E Hne]].
    - rewrite E. simpl. tauto.
    - destruct (kcmp k' k); try congruence; tauto.
  Qed.
End SpecSem.
