(* C09, two-level model at the concrete instance the check replays: the separators are valid for every
   input (validity guard), hence two_level_shape_refines applies with no premises left. *)
From Coq Require Import List NArith Bool.
From RV Require Base.SortedMap Base.SortedMapP Btree.Tree Btree.Mutator Btree.Shape Btree.ShapeRefP.
From RV Require Import Multimap.Spec Multimap.Model Multimap.ModelP Multimap.Inst Multimap.Subtree Multimap.SubtreeP
  Multimap.SubtreeInst.
Import ListNotations.
Open Scope N_scope.

Lemma kv_order_laws : SortedMap.OrderLaws kv_cmp.
Proof. exact (laws_of_ord kv_cmp kv_cmp_laws). Qed.

Lemma kv_guarded_valid f : Mutator.valid_sep kv_cmp (kv_guarded f).
Proof.
  intros l r Hlt. unfold kv_guarded.
  destruct (SortedMap.kle kv_cmp l (f l r) && SortedMap.klt kv_cmp (f l r) r) eqn:E.
  - apply andb_true_iff in E. destruct E as [E1 E2].
    split; [now apply (SortedMapP.kle_iff kv_cmp)|now apply (SortedMapP.klt_iff kv_cmp)].
  - split; [|exact Hlt]. rewrite (SortedMap.cmp_refl _ kv_order_laws). discriminate.
Qed.

Lemma kv_sep_valid mode : Mutator.valid_sep kv_cmp (kv_sep mode).
Proof.
  destruct mode as [|[p|p|]]; try apply kv_guarded_valid.
  intros l r Hlt. split; [|exact Hlt]. rewrite (SortedMap.cmp_refl _ kv_order_laws). discriminate.
Qed.

Theorem kv_two_level_refines (ps : N) (kfixed : bool) (kmode : N) (vfixed : bool) (vmode : N) (ops : list (op kv kv)) :
  let r := kv_tl_run ps kfixed kmode vfixed vmode ops kv_tl_empty in
  spec_run kv_cmp kv_cmp ops s_empty = (kv_tl_abs (fst r), snd r) /\
  state_wf kv_cmp (kv_outer ps kfixed kmode vfixed) (ShapeRefP.SInv kv_cmp) (ShapeRefP.SInv kv_cmp) (fst r) /\
  counts_exact (kv_outer ps kfixed kmode vfixed) (kv_inner ps vfixed vmode) (tl_cur (fst r)) /\
  counts_exact (kv_outer ps kfixed kmode vfixed) (kv_inner ps vfixed vmode) (tl_com (fst r)).
Proof.
  exact (two_level_shape_refines kv_cmp kv_cmp kv_cmp_laws kv_cmp_laws
           kv_len (kv_coll_size (kv_cfg ps vfixed)) kfixed false ps (kv_sep kmode)
           kv_len (fun _ : unit => 0) vfixed true ps (kv_sep vmode)
           kv_len (kv_cfg ps vfixed) ops (kv_sep_valid kmode) (kv_sep_valid vmode)).
Qed.
