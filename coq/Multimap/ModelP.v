(* C09 proofs: the model of multimap_table.rs refines the sorted-map-of-sorted-sets specification for
   every operation sequence, every page size / value width, and every behaviour of the inner B-tree
   (the root_is_leaf observations); the representation invariant is preserved. *)
From RV Require Import Multimap.Spec Multimap.Model.
Open Scope N_scope.

Section Generic.
  Context {K : Type} (kcmp : K -> K -> comparison).
  Context {B C : Type} (f : B -> C).
  Let F := fun e : K * B => (fst e, f (snd e)).

  Lemma am_find_map k m : am_find kcmp k (map F m) = option_map f (am_find kcmp k m).
  Proof.
    induction m as [|[k' b] r IH]; simpl; auto.
    destruct (kcmp k k'); simpl; auto.
  Qed.

  Lemma am_put_map k b m : map F (am_put kcmp k b m) = am_put kcmp k (f b) (map F m).
  Proof.
    induction m as [|[k' b'] r IH]; simpl; auto.
    destruct (kcmp k k'); simpl; auto. now rewrite IH.
  Qed.

  Lemma am_del_map k m : map F (am_del kcmp k m) = am_del kcmp k (map F m).
  Proof.
    induction m as [|[k' b'] r IH]; simpl; auto.
    destruct (kcmp k k'); simpl; auto. now rewrite IH.
  Qed.

  Lemma am_range_map lo hi m : map F (am_range kcmp lo hi m) = am_range kcmp lo hi (map F m).
  Proof.
    unfold am_range. induction m as [|[k' b'] r IH]; simpl; auto.
    destruct (above kcmp lo k' && below kcmp hi k'); simpl; now rewrite IH.
  Qed.

  Lemma sum_lengths_map (len : C -> N) m : sum_lengths len (map F m) = sum_lengths (fun b => len (f b)) m.
  Proof. induction m as [|[k' b'] r IH]; simpl; auto. now rewrite IH. Qed.
End Generic.

Section Sums.
  Context {K : Type} (kcmp : K -> K -> comparison).
  Context {B : Type} (len : B -> N).

  Definition found_len k (m : list (K * B)) : N :=
    match am_find kcmp k m with Some b => len b | None => 0 end.

  Lemma sum_put k b m : sum_lengths len (am_put kcmp k b m) + found_len k m = sum_lengths len m + len b.
  Proof.
    unfold found_len. induction m as [|[k' b'] r IH]; simpl; [lia|].
    destruct (kcmp k k'); simpl; lia.
  Qed.

  Lemma sum_del k m : sum_lengths len (am_del kcmp k m) + found_len k m = sum_lengths len m.
  Proof.
    unfold found_len. induction m as [|[k' b'] r IH]; simpl; [lia|].
    destruct (kcmp k k'); simpl; lia.
  Qed.

  Lemma am_find_In k (m : list (K * B)) (b : B) : am_find kcmp k m = Some b -> exists k', In (k', b) m.
  Proof.
    induction m as [|[k' b'] r IH]; simpl; [discriminate|].
    destruct (kcmp k k'); try discriminate.
    - intros [= ->]. eauto.
    - intros H. destruct (IH H) as [k2 ?]. eauto.
  Qed.

  Lemma Forall_put (P : K * B -> Prop) k (b : B) m :
    (forall k', P (k', b)) -> Forall P m -> Forall P (am_put kcmp k b m).
  Proof.
    intros Hb. induction 1 as [|[k' b'] r Hx Hr IH]; simpl; [repeat constructor; auto|].
    destruct (kcmp k k'); repeat constructor; auto.
  Qed.

  Lemma Forall_del (P : K * B -> Prop) k m : Forall P m -> Forall P (am_del kcmp k m).
  Proof.
    induction 1 as [|[k' b'] r Hx Hr IH]; simpl; [constructor|].
    destruct (kcmp k k'); repeat constructor; auto.
  Qed.
End Sums.

Section SetLemmas.
  Context {A : Type} (cmp : A -> A -> comparison).

  Lemma set_insert_length x l :
    nlen (fst (set_insert cmp x l)) = if snd (set_insert cmp x l) then nlen l else nlen l + 1.
  Proof.
    unfold nlen. induction l as [|y r IH]; simpl; [reflexivity|].
    destruct (cmp x y); simpl; try lia.
    destruct (set_insert cmp x r) as [r' b]; simpl in *. destruct b; lia.
  Qed.

  Lemma set_insert_nonempty x l : fst (set_insert cmp x l) <> [].
  Proof.
    destruct l as [|y r]; simpl; [discriminate|].
    destruct (cmp x y); try discriminate. destruct (set_insert cmp x r); discriminate.
  Qed.

  Lemma set_remove_length x l :
    nlen l = if snd (set_remove cmp x l) then nlen (fst (set_remove cmp x l)) + 1 else nlen (fst (set_remove cmp x l)).
  Proof.
    unfold nlen. induction l as [|y r IH]; simpl; [reflexivity|].
    destruct (cmp x y); simpl; try lia.
    destruct (set_remove cmp x r) as [r' b]; simpl in *. destruct b; lia.
  Qed.

  Lemma set_remove_notfound x l : snd (set_remove cmp x l) = false -> fst (set_remove cmp x l) = l.
  Proof.
    induction l as [|y r IH]; simpl; auto.
    destruct (cmp x y); simpl; auto; try discriminate.
    destruct (set_remove cmp x r) as [r' b]; simpl in *. intros ->. now rewrite IH.
  Qed.
End SetLemmas.

Lemma consume_nil {A} rev nf nb : consume rev nf nb (@nil A) = ([], []).
Proof. unfold consume. destruct rev; simpl; rewrite firstn_nil, skipn_nil; simpl; now rewrite firstn_nil. Qed.

Local Opaque consume.

Section Refinement.
  Context {K V : Type}.
  Variable kcmp : K -> K -> comparison.
  Variable vcmp : V -> V -> comparison.
  Variable vlen : V -> N.
  Hypothesis Hk : ord_laws kcmp.

  Notation coll := (@coll V).
  Notation mtable := (@mtable K V).
  Notation mstate := (@mstate K V).
  Notation abs_table := (@abs_table K V).
  Notation abs_state := (@abs_state K V).
  Notation table_inv := (@table_inv K V vlen).
  Notation vl := (fun cl : coll => nlen (vals cl)).

  Lemma am_put_same {B} k (b : B) m : am_find kcmp k m = Some b -> am_put kcmp k b m = m.
  Proof.
    induction m as [|[k' b'] r IH]; simpl; [discriminate|].
    destruct (kcmp k k') eqn:E; try discriminate.
    - intros [= ->]. apply (ol_eq _ Hk) in E. now subst.
    - intros H. now rewrite IH.
  Qed.

  Lemma set_insert_found x l : snd (set_insert vcmp x l) = true -> fst (set_insert vcmp x l) = l.
  Proof.
    induction l as [|y r IH]; simpl; [discriminate|].
    destruct (vcmp x y); simpl; auto; try discriminate.
    destruct (set_insert vcmp x r) as [r' b]; simpl in *. intros ->. now rewrite IH.
  Qed.

  Lemma sum_vlen_remove_le x l : sum_vlen vlen (fst (set_remove vcmp x l)) <= sum_vlen vlen l.
  Proof.
    induction l as [|y r IH]; simpl; [lia|].
    destruct (vcmp x y); simpl; try lia.
    destruct (set_remove vcmp x r) as [r' b]; simpl in *. lia.
  Qed.

  Lemma sum_vlen_insert x l :
    sum_vlen vlen (fst (set_insert vcmp x l)) =
    if snd (set_insert vcmp x l) then sum_vlen vlen l else sum_vlen vlen l + vlen x.
  Proof.
    induction l as [|y r IH]; simpl; [lia|].
    destruct (vcmp x y); simpl; try lia.
    destruct (set_insert vcmp x r) as [r' b]; simpl in *. destruct b; lia.
  Qed.

  Lemma abs_find k (t : mtable) :
    am_find kcmp k (abs_table t) = option_map vals (am_find kcmp k (t_entries t)).
  Proof. apply (am_find_map kcmp (@vals V)). Qed.

  Lemma abs_put k cl es :
    map (fun e : K * coll => (fst e, vals (snd e))) (am_put kcmp k cl es) =
    am_put kcmp k (vals cl) (map (fun e : K * coll => (fst e, vals (snd e))) es).
  Proof. apply (am_put_map kcmp (@vals V)). Qed.

  Lemma abs_del k es :
    map (fun e : K * coll => (fst e, vals (snd e))) (am_del kcmp k es) =
    am_del kcmp k (map (fun e : K * coll => (fst e, vals (snd e))) es).
  Proof. apply (am_del_map kcmp (@vals V)). Qed.

  Lemma inv_find c (t : mtable) k cl :
    table_inv c t -> am_find kcmp k (t_entries t) = Some cl -> coll_ok vlen c cl.
  Proof.
    intros [Hf _] H. destruct (am_find_In kcmp _ _ _ H) as [k' Hin].
    rewrite Forall_forall in Hf. exact (Hf _ Hin).
  Qed.

  Lemma s_len_abs (t : mtable) : s_len (abs_table t) = sum_lengths vl (t_entries t).
  Proof. unfold s_len, Model.abs_table. apply (sum_lengths_map (@vals V)). Qed.

  Lemma required_mono c n1 b1 n2 b2 :
    n1 <= n2 -> b1 <= b2 -> required_bytes c n1 b1 <= required_bytes c n2 b2.
  Proof. unfold required_bytes. destruct (vwidth c); lia. Qed.

  Ltac inv_put :=
    split; [ apply Forall_put; [intros; simpl; try (split; [auto|]) | assumption ] | simpl ].

  (* ---- insert *)
  Lemma insert_sim c k v (t : mtable) :
    table_inv c t ->
    s_insert kcmp vcmp k v (abs_table t) =
      (abs_table (fst (m_insert kcmp vcmp vlen c k v t)), snd (m_insert kcmp vcmp vlen c k v t))
    /\ table_inv c (fst (m_insert kcmp vcmp vlen c k v t)).
  Proof.
    intros Hinv. pose proof Hinv as [Hall Hnum].
    unfold m_insert, s_insert. rewrite abs_find.
    pose proof (sum_put kcmp vl k) as Hsum. unfold found_len in Hsum.
    destruct (am_find kcmp k (t_entries t)) as [cl|] eqn:Hf; simpl.
    - pose proof (inv_find _ _ _ _ Hinv Hf) as [Hne Hok].
      destruct cl as [l | n l]; simpl in *.
      + pose proof (set_insert_length vcmp v l) as Hlen.
        pose proof (set_insert_nonempty vcmp v l) as Hne'.
        pose proof (sum_vlen_insert v l) as Hsv.
        destruct (set_insert vcmp v l) as [l' found]; simpl in *.
        destruct found; simpl; [split; auto|].
        destruct ((required_bytes c (nlen l + 1) (sum_vlen vlen l + vlen v) <? half_page c) && (nlen l + 1 <=? U16_MAX)) eqn:Et;
          simpl; unfold Model.abs_table; simpl; rewrite abs_put; simpl; (split; [reflexivity|]).
        * apply andb_true_iff in Et. destruct Et as [E1 E2].
          apply N.ltb_lt in E1. apply N.leb_le in E2.
          split; [apply Forall_put; auto; intros; simpl; split; auto |].
          { unfold leaf_len. rewrite Hlen, Hsv. split; assumption. }
          simpl. specialize (Hsum (Inline l') (t_entries t)); rewrite Hf in Hsum; simpl in Hsum. lia.
        * split; [apply Forall_put; auto; intros; simpl; split; auto |].
          simpl. specialize (Hsum (Subtree (nlen l + 1) l') (t_entries t)); rewrite Hf in Hsum; simpl in Hsum. lia.
      + pose proof (set_insert_length vcmp v l) as Hlen.
        pose proof (set_insert_nonempty vcmp v l) as Hne'.
        pose proof (set_insert_found v l) as Hfd.
        destruct (set_insert vcmp v l) as [l' existed]; simpl in *.
        destruct existed; simpl.
        * rewrite (Hfd eq_refl). rewrite (am_put_same _ _ _ Hf).
          destruct t; simpl in *. split; auto.
        * unfold Model.abs_table; simpl; rewrite abs_put; simpl. split; [reflexivity|].
          split; [apply Forall_put; auto; intros; simpl; split; auto; lia |].
          simpl. specialize (Hsum (Subtree (n + 1) l') (t_entries t)); rewrite Hf in Hsum; simpl in Hsum. lia.
    - destruct (required_bytes c 1 (vlen v) <? half_page c) eqn:Et;
        simpl; unfold Model.abs_table; simpl; rewrite abs_put; simpl; (split; [reflexivity|]).
      + apply N.ltb_lt in Et.
        split; [apply Forall_put; auto; intros; simpl; split; [discriminate|] |].
        { unfold leaf_len, nlen; simpl. rewrite N.add_0_r. split; [assumption | unfold U16_MAX; lia]. }
        simpl. specialize (Hsum (Inline [v]) (t_entries t)); rewrite Hf in Hsum; simpl in Hsum. unfold nlen in *; simpl in *. lia.
      + split; [apply Forall_put; auto; intros; simpl; split; [discriminate|reflexivity] |].
        simpl. specialize (Hsum (Subtree 1 [v]) (t_entries t)); rewrite Hf in Hsum; simpl in Hsum. unfold nlen in *; simpl in *. lia.
  Qed.

  Lemma nlen_zero (l : list V) : nlen l = 0 -> l = [].
  Proof. destruct l; [auto|]. unfold nlen; simpl; lia. Qed.

  Lemma nlen_pos (l : list V) : l <> [] -> 1 <= nlen l.
  Proof. destruct l; [congruence|]. unfold nlen; simpl; lia. Qed.

  Lemma am_del_none {B} k (m : list (K * B)) : am_find kcmp k m = None -> am_del kcmp k m = m.
  Proof.
    induction m as [|[k' b'] r IH]; simpl; auto.
    destruct (kcmp k k'); try discriminate; auto. intros H. now rewrite IH.
  Qed.

  (* ---- remove *)
  Lemma remove_sim c k v leaf (t : mtable) :
    table_inv c t ->
    s_remove kcmp vcmp k v (abs_table t) =
      (abs_table (fst (m_remove kcmp vcmp vlen c k v leaf t)), snd (m_remove kcmp vcmp vlen c k v leaf t))
    /\ table_inv c (fst (m_remove kcmp vcmp vlen c k v leaf t)).
  Proof.
    intros Hinv. pose proof Hinv as [Hall Hnum].
    unfold m_remove, s_remove. rewrite abs_find.
    pose proof (sum_put kcmp vl k) as Hsum. unfold found_len in Hsum.
    pose proof (sum_del kcmp vl k (t_entries t)) as Hdel. unfold found_len in Hdel.
    destruct (am_find kcmp k (t_entries t)) as [cl|] eqn:Hf; simpl; [|split; auto].
    pose proof (inv_find _ _ _ _ Hinv Hf) as [Hne Hok].
    destruct cl as [l | n l]; simpl in *.
    - pose proof (set_remove_length vcmp v l) as Hlen.
      pose proof (sum_vlen_remove_le v l) as Hsv.
      destruct (set_remove vcmp v l) as [l' found]; simpl in *.
      destruct found; simpl; [|split; auto].
      destruct (nlen l =? 1) eqn:E1.
      + apply N.eqb_eq in E1. assert (l' = []) as -> by (apply nlen_zero; lia).
        simpl. unfold Model.abs_table; simpl. rewrite abs_del. split; [reflexivity|].
        split; [apply Forall_del; auto|]. simpl. lia.
      + apply N.eqb_neq in E1.
        assert (l' <> []) as Hne' by (intros ->; unfold nlen in *; simpl in *; lia).
        simpl. unfold Model.abs_table; simpl. rewrite abs_put; simpl.
        split; [destruct l'; [congruence|reflexivity]|].
        split; [apply Forall_put; auto; intros; simpl; split; auto |].
        { destruct Hok as [H1 H2]. split; [|lia].
          eapply N.le_lt_trans; [|exact H1]. unfold leaf_len. apply required_mono; lia. }
        simpl. specialize (Hsum (Inline l') (t_entries t)); rewrite Hf in Hsum; simpl in Hsum. lia.
    - pose proof (set_remove_length vcmp v l) as Hlen.
      destruct (set_remove vcmp v l) as [l' existed]; simpl in *.
      destruct existed; simpl; [|split; auto].
      destruct l' as [|x r'] eqn:El'.
      + simpl. unfold Model.abs_table; simpl. rewrite abs_del. split; [reflexivity|].
        split; [apply Forall_del; auto|]. simpl. unfold nlen in *; simpl in *. lia.
      + set (l0 := x :: r') in *. assert (l0 <> []) as Hne' by (subst l0; discriminate).
        match goal with |- context [am_put kcmp k ?X (t_entries t)] => set (cl' := X) end.
        assert (vals cl' = l0 /\ coll_ok vlen c cl') as [Hv Hc].
        { subst cl'. destruct leaf.
          - destruct ((leaf_len vlen c l0 <? half_page c) && (nlen l0 <=? U16_MAX)) eqn:Et; simpl.
            + apply andb_true_iff in Et. destruct Et as [E1 E2].
              apply N.ltb_lt in E1. apply N.leb_le in E2. repeat split; auto.
            + repeat split; auto.
          - simpl. repeat split; auto. lia. }
        simpl. unfold Model.abs_table; simpl. rewrite abs_put, Hv.
        split; [subst l0; reflexivity|].
        split; [apply Forall_put; auto|].
        simpl. specialize (Hsum cl' (t_entries t)); rewrite Hf in Hsum; simpl in Hsum. rewrite Hv in Hsum. lia.
  Qed.

  Lemma stored_count_ok c cl : coll_ok vlen c cl -> stored_count cl = nlen (vals cl).
  Proof. destruct cl; simpl; intros [_ H]; auto. Qed.

  Lemma sum_zero_nil c (es : list (K * coll)) :
    Forall (fun e => coll_ok vlen c (snd e)) es -> (sum_lengths vl es =? 0) = match es with [] => true | _ => false end.
  Proof.
    destruct 1 as [|[k cl] r [Hne _] _]; simpl; auto.
    apply N.eqb_neq. pose proof (nlen_pos _ Hne). simpl in *. lia.
  Qed.

  Lemma range_abs c lo hi (t : mtable) :
    table_inv c t ->
    map (fun e : K * list V => (fst e, (snd e, nlen (snd e)))) (am_range kcmp lo hi (abs_table t)) =
    map (fun e : K * coll => (fst e, (vals (snd e), stored_count (snd e)))) (am_range kcmp lo hi (t_entries t)).
  Proof.
    intros [Hall _]. unfold Model.abs_table.
    rewrite <- (am_range_map kcmp (@vals V)). rewrite map_map. apply map_ext_in.
    intros [k cl] Hin. simpl. unfold am_range in Hin. apply filter_In in Hin. destruct Hin as [Hin _].
    rewrite Forall_forall in Hall. specialize (Hall _ Hin). simpl in Hall.
    now rewrite (stored_count_ok _ _ Hall).
  Qed.

  (* ---- one step *)
  Lemma step_sim c o (s : mstate) :
    mm_inv_def vlen c s ->
    spec_step kcmp vcmp o (abs_state s) =
      (abs_state (fst (model_step kcmp vcmp vlen c o s)), snd (model_step kcmp vcmp vlen c o s))
    /\ mm_inv_def vlen c (fst (model_step kcmp vcmp vlen c o s)).
  Proof.
    intros [Hc Hm]. destruct s as [cur com]; simpl in Hc, Hm. destruct o; simpl.
    - destruct (insert_sim c k v _ Hc) as [E I]. unfold abs_state at 1; simpl. rewrite E.
      destruct (m_insert kcmp vcmp vlen c k v cur); simpl. split; [reflexivity|split; auto].
    - destruct (remove_sim c k v root_is_leaf _ Hc) as [E I]. unfold abs_state at 1; simpl. rewrite E.
      destruct (m_remove kcmp vcmp vlen c k v root_is_leaf cur); simpl. split; [reflexivity|split; auto].
    - unfold m_remove_all, s_get. simpl. rewrite abs_find.
      pose proof (sum_del kcmp vl k (t_entries cur)) as Hdel. unfold found_len in Hdel.
      destruct (am_find kcmp k (t_entries cur)) as [cl|] eqn:Hf; simpl.
      + pose proof (inv_find _ _ _ _ Hc Hf) as Hok. rewrite (stored_count_ok _ _ Hok).
        destruct (consume rev nf nb (vals cl)); simpl.
        unfold abs_state, Model.abs_table; simpl. rewrite abs_del. split; [reflexivity|].
        split; auto. destruct Hc as [Hall Hnum]. split; [apply Forall_del; auto|]. simpl. lia.
      + rewrite consume_nil. simpl. unfold abs_state; simpl.
        rewrite am_del_none; [|rewrite abs_find, Hf; reflexivity].
        split; [reflexivity|split; auto].
    - unfold s_get. simpl. rewrite abs_find.
      destruct (am_find kcmp k (t_entries cur)) as [cl|] eqn:Hf; simpl.
      + pose proof (inv_find _ _ _ _ Hc Hf) as Hok. rewrite (stored_count_ok _ _ Hok).
        destruct (consume rev nf nb (vals cl)); simpl. split; [reflexivity|split; auto].
      + rewrite consume_nil. simpl. split; [reflexivity|split; auto].
    - rewrite (range_abs c lo hi cur Hc).
      match goal with |- context [consume rev nf nb ?X] => destruct (consume rev nf nb X) end.
      simpl. split; [reflexivity|split; auto].
    - rewrite s_len_abs. pose proof Hc as [_ Hnum]. rewrite Hnum. split; [reflexivity|split; auto].
    - pose proof Hc as [Hall Hnum]. rewrite Hnum, (sum_zero_nil c _ Hall).
      split; [|split; auto].
      unfold Model.abs_table. destruct (t_entries cur); reflexivity.
    - split; [reflexivity|split; auto].
    - split; [reflexivity|split; auto].
  Qed.

  Lemma run_sim c ops : forall (s : mstate),
    mm_inv_def vlen c s ->
    spec_run kcmp vcmp ops (abs_state s) =
      (abs_state (fst (model_run kcmp vcmp vlen c ops s)), snd (model_run kcmp vcmp vlen c ops s))
    /\ mm_inv_def vlen c (fst (model_run kcmp vcmp vlen c ops s)).
  Proof.
    induction ops as [|o r IH]; intros s Hs; simpl; [split; auto|].
    destruct (step_sim c o s Hs) as [E I]. rewrite E.
    destruct (model_step kcmp vcmp vlen c o s) as [s' x]; simpl in *.
    destruct (IH s' I) as [E' I']. rewrite E'.
    destruct (model_run kcmp vcmp vlen c r s') as [s'' xs]; simpl in *. split; auto.
  Qed.

  Lemma inv_empty c : mm_inv_def vlen c (@m_empty K V).
  Proof. split; (split; [constructor|reflexivity]). Qed.
End Refinement.

(* ---------------------------------------------------------------- closed statements used by Props/C09.v *)
Section Closed.
  Context {K V : Type}.
  Variable kcmp : K -> K -> comparison.
  Variable vcmp : V -> V -> comparison.

  (* the spec ignores the inner-tree observation carried by OpRemove *)
  Definition erase_op (o : op K V) : op K V :=
    match o with OpRemove k v _ => OpRemove k v false | o' => o' end.

  Lemma spec_step_erase o s : spec_step kcmp vcmp (erase_op o) s = spec_step kcmp vcmp o s.
  Proof. destruct o; reflexivity. Qed.

  Lemma spec_run_erase ops : forall s, spec_run kcmp vcmp (map erase_op ops) s = spec_run kcmp vcmp ops s.
  Proof.
    induction ops as [|o r IH]; intros s; simpl; auto.
    rewrite spec_step_erase. destruct (spec_step kcmp vcmp o s) as [s' x]. now rewrite IH.
  Qed.

  Theorem program_refines (Hk : ord_laws kcmp) (vlen : V -> N) (c : cfg) (ops : list (op K V)) :
    spec_run kcmp vcmp ops s_empty =
      (abs_state (fst (model_run kcmp vcmp vlen c ops m_empty)), snd (model_run kcmp vcmp vlen c ops m_empty)).
  Proof. exact (proj1 (run_sim kcmp vcmp vlen Hk c ops m_empty (inv_empty vlen c))). Qed.

  Theorem inv_reachable (Hk : ord_laws kcmp) (vlen : V -> N) (c : cfg) (ops : list (op K V)) :
    mm_inv_def vlen c (fst (model_run kcmp vcmp vlen c ops m_empty)).
  Proof. exact (proj2 (run_sim kcmp vcmp vlen Hk c ops m_empty (inv_empty vlen c))). Qed.

  Theorem representation_independent (Hk : ord_laws kcmp) (vlen1 vlen2 : V -> N) (c1 c2 : cfg)
      (ops1 ops2 : list (op K V)) :
    map erase_op ops1 = map erase_op ops2 ->
    snd (model_run kcmp vcmp vlen1 c1 ops1 m_empty) = snd (model_run kcmp vcmp vlen2 c2 ops2 m_empty) /\
    abs_state (fst (model_run kcmp vcmp vlen1 c1 ops1 m_empty)) = abs_state (fst (model_run kcmp vcmp vlen2 c2 ops2 m_empty)).
  Proof.
    intros E.
    pose proof (program_refines Hk vlen1 c1 ops1) as H1.
    pose proof (program_refines Hk vlen2 c2 ops2) as H2.
    rewrite <- spec_run_erase in H1. rewrite <- spec_run_erase in H2. rewrite E in H1. rewrite H1 in H2.
    apply pair_equal_spec in H2. destruct H2 as [Ha Hb]. split; [exact Hb|exact Ha].
  Qed.
End Closed.
