(* C09, two-level model: proofs.  The multimap table over two B-trees refines the representation model
   (Model.v) step by step, hence -- composed with ModelP.program_refines -- the sorted-map-of-sorted-sets
   specification.  Everything about B-trees enters through [tree_laws], whose two instances are obtained
   from C04's theorems (tget_correct / trange_correct / insert_refines_lemma / delete_refines_lemma and
   their shape versions); no B-tree fact is re-proved here. *)
From Coq Require Import List NArith Bool Lia Sorted.
From RV Require Base.SortedMap Base.SortedMapP Btree.Tree Btree.TreeP Btree.Read Btree.ReadP Btree.Mutator
  Btree.MutatorP Btree.DeleteP Btree.ProgramP Btree.Shape Btree.ShapeP Btree.ShapeRefP.
From RV Require Import Multimap.Spec Multimap.Model Multimap.ModelP Multimap.Subtree.
Import ListNotations.
Open Scope N_scope.

Definition is_some {A} (o : option A) : bool := match o with Some _ => true | None => false end.

(* ---------------------------------------------------------------- the two vocabularies (Spec.v / SortedMap.v) *)
Section Bridge.
  Context {A : Type} (cmp : A -> A -> comparison).

  Lemma laws_of_ord : ord_laws cmp -> SortedMap.OrderLaws cmp.
  Proof.
    intros [E An T]. constructor; auto.
    - intros a b H. now apply E.
    - intros a. now apply E.
  Qed.

  Hypothesis laws : SortedMap.OrderLaws cmp.

  Lemma get_none_lt {B} k (m : list (A * B)) :
    Forall (fun e => cmp k (fst e) = Lt) m -> SortedMap.get cmp m k = None.
  Proof. induction 1 as [|[k' b] r H _ IH]; simpl; auto. simpl in H. now rewrite H. Qed.

  Lemma remove_none_lt {B} k (m : list (A * B)) :
    Forall (fun e => cmp k (fst e) = Lt) m -> SortedMap.remove cmp m k = m.
  Proof. induction 1 as [|[k' b] r H _ IH]; simpl; auto. simpl in H. rewrite H. now rewrite IH. Qed.

  Lemma lt_all {B} k k' (m : list (A * B)) :
    cmp k k' = Lt -> Forall (fun e => cmp k' (fst e) = Lt) m -> Forall (fun e => cmp k (fst e) = Lt) m.
  Proof.
    intros H F. eapply Forall_impl; [|exact F]. intros e He. simpl in *.
    eapply (SortedMap.cmp_trans _ laws); eauto.
  Qed.

  Lemma am_find_get {B} k (m : list (A * B)) :
    SortedMap.sorted cmp m -> am_find cmp k m = SortedMap.get cmp m k.
  Proof.
    induction m as [|[k' b] r IH]; simpl; auto. intros Hs.
    apply SortedMapP.sorted_cons_inv in Hs. destruct Hs as [Hs Hlt]. simpl in Hlt.
    destruct (cmp k k') eqn:E; auto.
    symmetry. apply get_none_lt. eapply lt_all; eauto.
  Qed.

  Lemma am_put_insert {B} k (b : B) (m : list (A * B)) : am_put cmp k b m = SortedMap.insert cmp m k b.
  Proof. induction m as [|[k' b'] r IH]; simpl; auto. destruct (cmp k k'); auto. now rewrite IH. Qed.

  Lemma am_del_remove {B} k (m : list (A * B)) :
    SortedMap.sorted cmp m -> am_del cmp k m = SortedMap.remove cmp m k.
  Proof.
    induction m as [|[k' b] r IH]; simpl; auto. intros Hs.
    apply SortedMapP.sorted_cons_inv in Hs. destruct Hs as [Hs Hlt]. simpl in Hlt.
    destruct (cmp k k') eqn:E; auto.
    - rewrite remove_none_lt; auto. eapply lt_all; eauto.
    - now rewrite IH.
  Qed.

  Lemma in_range_conv (lo hi : @Spec.bound A) k :
    above cmp lo k && below cmp hi k = SortedMap.in_range cmp (conv_bound lo) (conv_bound hi) k.
  Proof.
    unfold SortedMap.in_range. f_equal.
    - destruct lo as [|b|b]; simpl; auto; unfold SortedMap.kle, SortedMap.klt;
        rewrite (SortedMap.cmp_antisym _ laws k b); destruct (cmp k b); reflexivity.
    - destruct hi as [|b|b]; simpl; auto.
  Qed.

  (* sets of values = maps from values to unit *)
  Notation units := (@units A).
  Notation keys := (@keys A).

  Lemma units_keys (es : list (A * unit)) : units (keys es) = es.
  Proof. induction es as [|[x []] r IH]; simpl; auto. now rewrite IH. Qed.

  Lemma keys_units (l : list A) : keys (units l) = l.
  Proof. induction l as [|x r IH]; simpl; auto. now rewrite IH. Qed.

  Lemma nlen_keys (es : list (A * unit)) : Spec.nlen (keys es) = SortedMap.len es.
  Proof. unfold Spec.nlen, SortedMap.len, Subtree.keys. now rewrite map_length. Qed.

  Lemma keys_nil (es : list (A * unit)) : keys es = [] -> es = [].
  Proof. destruct es; [auto|discriminate]. Qed.

  Lemma keys_insert es v : keys (SortedMap.insert cmp es v tt) = fst (set_insert cmp v (keys es)).
  Proof.
    induction es as [|[y []] r IH]; simpl; auto.
    destruct (cmp v y) eqn:E; simpl; auto.
    - apply (SortedMap.cmp_eq _ laws) in E. now subst.
    - fold (keys r) in *. destruct (set_insert cmp v (keys r)) as [r' b]; simpl in *. now rewrite IH.
  Qed.

  Lemma get_set_insert es v :
    SortedMap.sorted cmp es -> is_some (SortedMap.get cmp es v) = snd (set_insert cmp v (keys es)).
  Proof.
    induction es as [|[y []] r IH]; simpl; auto. intros Hs.
    apply SortedMapP.sorted_cons_inv in Hs. destruct Hs as [Hs Hlt]. simpl in Hlt.
    destruct (cmp v y) eqn:E; simpl; auto.
    - rewrite get_none_lt; auto. eapply lt_all; eauto.
    - fold (keys r) in *. destruct (set_insert cmp v (keys r)) as [r' b]; simpl in *. auto.
  Qed.

  Lemma keys_remove es v :
    SortedMap.sorted cmp es -> keys (SortedMap.remove cmp es v) = fst (set_remove cmp v (keys es)).
  Proof.
    induction es as [|[y []] r IH]; simpl; auto. intros Hs.
    apply SortedMapP.sorted_cons_inv in Hs. destruct Hs as [Hs Hlt]. simpl in Hlt.
    destruct (cmp v y) eqn:E; simpl; auto.
    - rewrite remove_none_lt; auto. eapply lt_all; eauto.
    - fold (keys r) in *. destruct (set_remove cmp v (keys r)) as [r' b]; simpl in *. now rewrite IH.
  Qed.

  Lemma get_set_remove es v :
    SortedMap.sorted cmp es -> is_some (SortedMap.get cmp es v) = snd (set_remove cmp v (keys es)).
  Proof.
    induction es as [|[y []] r IH]; simpl; auto. intros Hs.
    apply SortedMapP.sorted_cons_inv in Hs. destruct Hs as [Hs Hlt]. simpl in Hlt.
    destruct (cmp v y) eqn:E; simpl; auto.
    - rewrite get_none_lt; auto. eapply lt_all; eauto.
    - fold (keys r) in *. destruct (set_remove cmp v (keys r)) as [r' b]; simpl in *. auto.
  Qed.

  Lemma sorted_set_insert l v :
    SortedMap.sorted cmp (units l) -> SortedMap.sorted cmp (units (fst (set_insert cmp v l))).
  Proof.
    intros Hs. rewrite <- (keys_units l) at 1. rewrite <- keys_insert, units_keys.
    now apply SortedMapP.sorted_insert.
  Qed.

  Lemma sorted_set_remove l v :
    SortedMap.sorted cmp (units l) -> SortedMap.sorted cmp (units (fst (set_remove cmp v l))).
  Proof.
    intros Hs. rewrite <- (keys_units l) at 1. rewrite <- keys_remove by exact Hs. rewrite units_keys.
    now apply SortedMapP.sorted_remove.
  Qed.
End Bridge.

(* ---------------------------------------------------------------- the two instances satisfy the laws (from C04) *)
Section Instances.
  Context {K V : Type}.
  Variable cmp : K -> K -> comparison.
  Hypothesis laws : SortedMap.OrderLaws cmp.
  Variable ksize : K -> N.
  Variable vsize : V -> N.
  Variable fixed_k fixed_v : bool.
  Variable page_size : N.
  Variable sep : K -> K -> K.
  Variable inplace : list (K * V) -> K -> V -> bool.
  Hypothesis Hsep : Mutator.valid_sep cmp sep.

  Lemma leaf_tree_inv (es : list (K * V)) :
    es <> [] -> SortedMap.sorted cmp es -> Tree.TreeInv cmp (Tree.mk_btree (Some (Tree.Leaf es)) (SortedMap.len es)).
  Proof.
    intros Hne Hs. split; [|reflexivity]. exists O. constructor; auto.
    apply Forall_forall. intros e _. split; exact I.
  Qed.

  Lemma root_none_abs (bt : @Tree.btree K V) : Tree.TreeInv cmp bt ->
    (match Tree.bt_root bt with None => true | Some _ => false end) =
    (match Tree.abs_tree bt with [] => true | _ => false end).
  Proof.
    unfold Tree.TreeInv, Tree.abs_tree. destruct (Tree.bt_root bt) as [t|]; auto.
    intros [[h Hi] _]. pose proof (@TreeP.inv_nonempty K V cmp laws _ _ _ _ Hi) as Hne.
    destruct (Tree.abs t); congruence.
  Qed.

  Lemma mut_laws :
    tree_laws cmp (mut_impl cmp ksize vsize fixed_k fixed_v page_size sep inplace) (Tree.TreeInv cmp).
  Proof.
    constructor; simpl.
    - reflexivity.
    - reflexivity.
    - intros t Hi. now apply ProgramP.TreeInv_sorted.
    - intros t Hi. now apply (@ReadP.tlen_correct K V cmp).
    - intros t Hi. now apply root_none_abs.
    - intros t k Hi. now apply ReadP.tget_correct.
    - intros t lo hi Hi. now apply ReadP.trange_correct.
    - intros t k v Hi.
      pose proof (@MutatorP.insert_refines_lemma K V cmp laws ksize vsize fixed_k fixed_v page_size sep inplace Hsep t k v Hi) as H.
      destruct (Mutator.insert cmp ksize vsize fixed_k fixed_v page_size sep inplace t k v) as [bt' old]. exact H.
    - intros t k Hi.
      pose proof (@DeleteP.delete_refines_lemma K V cmp laws ksize vsize fixed_k fixed_v page_size sep Hsep t k Hi) as H.
      destruct (Mutator.delete cmp ksize vsize fixed_k fixed_v page_size sep t k) as [bt' old]. exact H.
    - intros t es. unfold bt_root_leaf, Tree.abs_tree. destruct (Tree.bt_root t) as [[es'|]|]; try discriminate.
      now intros [= ->].
    - intros es Hne Hs. split; [now apply leaf_tree_inv|reflexivity].
    - intros t n Hi ->. split; [|reflexivity].
      unfold Tree.TreeInv in *. simpl. unfold Tree.abs_tree. destruct (Tree.bt_root t); [|reflexivity].
      destruct Hi as [Hb _]. split; [exact Hb|reflexivity].
    - intros t Hi. split; [exact Hi|reflexivity].
  Qed.

  Lemma shape_laws :
    tree_laws cmp (shape_impl cmp ksize vsize fixed_k fixed_v page_size sep) (ShapeRefP.SInv cmp).
  Proof.
    constructor; simpl; unfold ShapeRefP.SInv.
    - reflexivity.
    - reflexivity.
    - intros t Hi. now apply ProgramP.TreeInv_sorted.
    - intros t Hi. exact (@ReadP.tlen_correct K V cmp (Shape.erase_tree t) Hi).
    - intros t Hi. pose proof (root_none_abs _ Hi) as H. unfold Shape.erase_tree in H at 1. simpl in H.
      destruct (Shape.sb_root t); exact H.
    - intros t k Hi. now apply ReadP.tget_correct.
    - intros t lo hi Hi. now apply ReadP.trange_correct.
    - intros t k v Hi.
      pose proof (@ShapeRefP.shape_insert_refines_lemma K V cmp laws ksize vsize fixed_k fixed_v page_size sep Hsep t k v Hi) as H.
      destruct (Shape.s_insert cmp ksize vsize fixed_k fixed_v page_size sep t k v) as [st' old]. exact H.
    - intros t k Hi.
      pose proof (@ShapeRefP.shape_delete_refines_lemma K V cmp laws ksize vsize fixed_k fixed_v page_size sep Hsep t k Hi) as H.
      destruct (Shape.s_delete cmp ksize vsize fixed_k fixed_v page_size sep t k) as [st' old]. exact H.
    - intros t es. unfold sb_root_leaf, Shape.erase_tree, Tree.abs_tree. simpl.
      destruct (Shape.sb_root t) as [[d a es'|]|]; try discriminate. now intros [= ->].
    - intros es Hne Hs. split; [now apply leaf_tree_inv|reflexivity].
    - intros t n Hi ->. split; [|reflexivity].
      unfold Tree.TreeInv, Shape.erase_tree, Tree.abs_tree in *. simpl in *.
      destruct (Shape.sb_root t); simpl in *; [|reflexivity].
      destruct Hi as [Hb _]. split; [exact Hb|reflexivity].
    - intros t Hi. exact (@ShapeRefP.shape_commit_refines_lemma K V cmp t Hi).
  Qed.
End Instances.

(* ---------------------------------------------------------------- the two-level table simulates Model.v *)
Section Sim.
  Context {K V OT IT : Type}.
  Variable kcmp : K -> K -> comparison.
  Variable vcmp : V -> V -> comparison.
  Variable vlen : V -> N.
  Hypothesis Hk : SortedMap.OrderLaws kcmp.
  Hypothesis Hv : SortedMap.OrderLaws vcmp.
  Variable outer : tree_impl K (@ocoll V IT) OT.
  Variable inner : tree_impl V unit IT.
  Variable o_inv : OT -> Prop.
  Variable i_inv : IT -> Prop.
  Hypothesis LO : tree_laws kcmp outer o_inv.
  Hypothesis LI : tree_laws vcmp inner i_inv.

  Notation ocoll := (@ocoll V IT).
  Notation cabs := (coll_abs inner).
  Notation atab := (abs_tab outer inner).
  Notation twf := (table_wf vcmp outer o_inv i_inv).
  Notation cwf := (coll_wf vcmp i_inv).
  Notation keys := (@keys V).
  Notation units := (@units V).
  Notation tl_table := (@tl_table OT).
  Notation tl_state := (@tl_state OT).

  Local Arguments Subtree.abs_tab : simpl never.

  Definition FF (e : K * ocoll) : K * @coll V := (fst e, cabs (snd e)).

  Lemma atab_entries (t : tl_table) : t_entries (atab t) = List.map FF (ti_abs outer (tl_tree t)).
  Proof. reflexivity. Qed.

  (* ---- the inner tree as a set *)
  Lemma inner_insert_ok it v : i_inv it ->
    let r := ti_insert inner it v tt in
    let s := set_insert vcmp v (keys (ti_abs inner it)) in
    i_inv (fst r) /\ keys (ti_abs inner (fst r)) = fst s /\ is_some (snd r) = snd s /\
    ti_len inner (fst r) = (if snd s then ti_len inner it else ti_len inner it + 1).
  Proof.
    intros Hi r s. destruct (law_insert _ _ _ LI it v tt Hi) as (H1 & H2 & H3). fold r in H1, H2, H3.
    assert (E2 : keys (ti_abs inner (fst r)) = fst s) by (rewrite H2; apply keys_insert; exact Hv).
    assert (E3 : is_some (snd r) = snd s).
    { rewrite H3. apply get_set_insert; [exact Hv|]. now apply (law_sorted _ _ _ LI). }
    repeat split; auto.
    rewrite (law_len _ _ _ LI _ H1), (law_len _ _ _ LI _ Hi), <- !nlen_keys, E2.
    subst s. apply set_insert_length.
  Qed.

  Lemma inner_delete_ok it v : i_inv it ->
    let r := ti_delete inner it v in
    let s := set_remove vcmp v (keys (ti_abs inner it)) in
    i_inv (fst r) /\ keys (ti_abs inner (fst r)) = fst s /\ is_some (snd r) = snd s /\
    ti_len inner it = (if snd s then ti_len inner (fst r) + 1 else ti_len inner (fst r)).
  Proof.
    intros Hi r s. destruct (law_delete _ _ _ LI it v Hi) as (H1 & H2 & H3). fold r in H1, H2, H3.
    pose proof (law_sorted _ _ _ LI _ Hi) as Hs.
    assert (E2 : keys (ti_abs inner (fst r)) = fst s) by (rewrite H2; apply keys_remove; auto).
    assert (E3 : is_some (snd r) = snd s) by (rewrite H3; apply get_set_remove; auto).
    repeat split; auto.
    rewrite (law_len _ _ _ LI _ H1), (law_len _ _ _ LI _ Hi), <- !nlen_keys, E2.
    subst s. apply set_remove_length.
  Qed.

  Lemma fresh_ok txn st it : i_inv it ->
    i_inv (fresh inner txn st it) /\ ti_abs inner (fresh inner txn st it) = ti_abs inner it /\
    ti_len inner (fresh inner txn st it) = ti_len inner it.
  Proof.
    intros Hi. unfold fresh. destruct (st <? txn); [|auto].
    destruct (law_commit _ _ _ LI it Hi) as [H1 H2]. repeat split; auto.
    now rewrite (law_len _ _ _ LI _ H1), (law_len _ _ _ LI _ Hi), H2.
  Qed.

  (* ---- the outer tree as an association list *)
  Lemma find_abs (t : tl_table) k : twf t ->
    am_find kcmp k (t_entries (atab t)) = option_map cabs (ti_get outer (tl_tree t) k).
  Proof.
    intros [Ho _]. rewrite atab_entries. unfold FF. rewrite (am_find_map kcmp cabs).
    rewrite (am_find_get kcmp Hk) by (now apply (law_sorted _ _ _ LO)).
    now rewrite (law_get _ _ _ LO).
  Qed.

  Lemma wf_found (t : tl_table) k cl : twf t -> ti_get outer (tl_tree t) k = Some cl -> cwf cl.
  Proof.
    intros [Ho Hf] G. rewrite (law_get _ _ _ LO) in G by exact Ho.
    apply (SortedMapP.get_In kcmp Hk) in G. rewrite Forall_forall in Hf. exact (Hf _ G).
  Qed.

  Lemma put_ok (t : tl_table) k cl num : twf t -> cwf cl ->
    atab (o_put outer t k cl num) = {| t_entries := am_put kcmp k (cabs cl) (t_entries (atab t)); t_num := num |} /\
    twf (o_put outer t k cl num).
  Proof.
    intros [Ho Hf] Hc. destruct (law_insert _ _ _ LO (tl_tree t) k cl Ho) as (H1 & H2 & _).
    split.
    - unfold Subtree.abs_tab, o_put; simpl. rewrite H2. f_equal.
      rewrite <- (am_put_insert kcmp). apply (am_put_map kcmp cabs).
    - split; simpl; [exact H1|]. rewrite H2. apply SortedMapP.insert_Forall; auto.
  Qed.

  Lemma del_ok (t : tl_table) k num : twf t ->
    atab (o_del outer t k num) = {| t_entries := am_del kcmp k (t_entries (atab t)); t_num := num |} /\
    twf (o_del outer t k num).
  Proof.
    intros [Ho Hf]. destruct (law_delete _ _ _ LO (tl_tree t) k Ho) as (H1 & H2 & _).
    pose proof (law_sorted _ _ _ LO _ Ho) as Hs.
    split.
    - unfold Subtree.abs_tab, o_del; simpl. rewrite H2. f_equal.
      rewrite <- (am_del_remove kcmp Hk) by exact Hs. apply (am_del_map kcmp cabs).
    - split; simpl; [exact H1|]. rewrite H2. apply SortedMapP.remove_Forall; auto.
  Qed.

  Lemma vals_abs cl : cwf cl -> vals (cabs cl) = o_vals inner cl.
  Proof.
    destruct cl as [l|st it]; simpl; auto. intros Hi.
    rewrite (law_range _ _ _ LI) by exact Hi. now rewrite SortedMapP.range_full.
  Qed.

  Lemma count_abs cl : stored_count (cabs cl) = o_count inner cl.
  Proof. destruct cl; reflexivity. Qed.

  Lemma coll_out_abs rev nf nb oc : (forall cl, oc = Some cl -> cwf cl) ->
    coll_out (K:=K) rev nf nb (option_map cabs oc) = tl_coll_out inner rev nf nb oc.
  Proof.
    destruct oc as [cl|]; simpl; auto. intros H.
    now rewrite (vals_abs cl (H _ eq_refl)), count_abs.
  Qed.

  Lemma nlen_units (l : list V) : SortedMap.len (units l) = Spec.nlen l.
  Proof. unfold SortedMap.len, Spec.nlen, Subtree.units. now rewrite map_length. Qed.

  Lemma units_nil (l : list V) : l <> [] -> units l <> [].
  Proof. destruct l; [congruence|discriminate]. Qed.

  (* ---- insert *)
  Lemma tl_insert_sim c txn k v (t : tl_table) : twf t ->
    m_insert kcmp vcmp vlen c k v (atab t) =
      (atab (fst (tl_insert vcmp vlen outer inner c txn k v t)), snd (tl_insert vcmp vlen outer inner c txn k v t)) /\
    twf (fst (tl_insert vcmp vlen outer inner c txn k v t)).
  Proof.
    intros W. unfold m_insert, tl_insert. rewrite (find_abs t k W).
    destruct (ti_get outer (tl_tree t) k) as [[l|st it]|] eqn:G; simpl.
    - destruct (wf_found _ _ _ W G) as [Hne Hs].
      pose proof (sorted_set_insert vcmp Hv l v Hs) as Hs'.
      pose proof (set_insert_nonempty vcmp v l) as Hne'.
      pose proof (set_insert_length vcmp v l) as Hlen.
      destruct (set_insert vcmp v l) as [l' found] eqn:S; simpl in *.
      destruct found; [split; auto|].
      destruct ((required_bytes c (Spec.nlen l + 1) (sum_vlen vlen l + vlen v) <? half_page c) && (Spec.nlen l + 1 <=? U16_MAX)); simpl.
      + destruct (put_ok t k (OInline l') (tl_num t + 1) W) as [E W']; [split; auto|].
        rewrite E. split; auto.
      + set (sub := ti_of_leaf inner (units l) (Spec.nlen l)).
        assert (Hsub : i_inv sub /\ ti_abs inner sub = units l).
        { subst sub. rewrite <- nlen_units. apply (law_of_leaf _ _ _ LI); [now apply units_nil|exact Hs]. }
        destruct Hsub as [Hsi Hsa].
        destruct (inner_insert_ok sub v Hsi) as (I1 & I2 & I3 & I4). rewrite Hsa, keys_units, S in I2, I3, I4. simpl in *.
        destruct (put_ok t k (OSub txn (fst (ti_insert inner sub v tt))) (tl_num t + 1) W I1) as [E W'].
        rewrite E. split; auto. simpl. rewrite I2, I4.
        rewrite (law_len _ _ _ LI _ Hsi), Hsa, nlen_units. reflexivity.
    - pose proof (wf_found _ _ _ W G) as Hi. simpl in Hi.
      destruct (fresh_ok txn st it Hi) as (F1 & F2 & F3).
      destruct (inner_insert_ok _ v F1) as (I1 & I2 & I3 & I4). rewrite F2 in I2, I3, I4. rewrite F3 in I4.
      destruct (ti_insert inner (fresh inner txn st it) v tt) as [it' old]; simpl in *.
      destruct (set_insert vcmp v (keys (ti_abs inner it))) as [l' existed]; simpl in *.
      assert (Eo : match old with Some _ => true | None => false end = existed) by exact I3.
      rewrite Eo.
      destruct (put_ok t k (OSub txn it') (if existed then tl_num t else tl_num t + 1) W I1) as [E W'].
      rewrite E. split; auto. simpl. rewrite I2, I4. reflexivity.
    - destruct (required_bytes c 1 (vlen v) <? half_page c); simpl.
      + destruct (put_ok t k (OInline [v]) (tl_num t + 1) W) as [E W'].
        { split; [discriminate|]. repeat constructor. }
        rewrite E. split; auto.
      + pose proof (law_inv_empty _ _ _ LI) as He.
        destruct (inner_insert_ok _ v He) as (I1 & I2 & I3 & I4).
        rewrite (law_abs_empty _ _ _ LI) in I2, I3, I4. simpl in *.
        destruct (put_ok t k (OSub txn (fst (ti_insert inner (ti_empty inner) v tt))) (tl_num t + 1) W I1) as [E W'].
        rewrite E. split; auto. simpl. rewrite I2, I4.
        rewrite (law_len _ _ _ LI _ He), (law_abs_empty _ _ _ LI). reflexivity.
  Qed.

  (* ---- remove *)
  Lemma tl_remove_sim c txn k v (t : tl_table) : twf t ->
    m_remove kcmp vcmp vlen c k v (tl_leafbit outer inner txn k v t) (atab t) =
      (atab (fst (tl_remove vcmp vlen outer inner c txn k v t)), snd (tl_remove vcmp vlen outer inner c txn k v t)) /\
    twf (fst (tl_remove vcmp vlen outer inner c txn k v t)).
  Proof.
    intros W. unfold m_remove, tl_remove, tl_leafbit. rewrite (find_abs t k W).
    destruct (ti_get outer (tl_tree t) k) as [[l|st it]|] eqn:G; simpl; [| |split; auto].
    - destruct (wf_found _ _ _ W G) as [Hne Hs].
      pose proof (sorted_set_remove vcmp Hv l v Hs) as Hs'.
      pose proof (set_remove_length vcmp v l) as Hlen.
      destruct (set_remove vcmp v l) as [l' found] eqn:S; simpl in *.
      destruct found; [|split; auto].
      destruct (Spec.nlen l =? 1) eqn:E1.
      + cbn [fst snd]. destruct (del_ok t k (tl_num t - 1) W) as [E W']. rewrite E. split; auto.
      + cbn [fst snd]. apply N.eqb_neq in E1.
        assert (Hne' : l' <> []) by (intros ->; unfold Spec.nlen in *; simpl in *; lia).
        destruct (put_ok t k (OInline l') (tl_num t - 1) W) as [E W']; [split; auto|].
        rewrite E. split; auto.
    - pose proof (wf_found _ _ _ W G) as Hi. simpl in Hi.
      destruct (fresh_ok txn st it Hi) as (F1 & F2 & F3).
      destruct (inner_delete_ok _ v F1) as (I1 & I2 & I3 & I4). rewrite F2 in I2, I3, I4. rewrite F3 in I4.
      destruct (ti_delete inner (fresh inner txn st it) v) as [it' old]; simpl in *.
      destruct (set_remove vcmp v (keys (ti_abs inner it))) as [l' existed]; simpl in *.
      destruct old as [u|]; simpl in I3; subst existed; simpl; [|split; auto].
      rewrite (law_none _ _ _ LI _ I1).
      destruct (ti_abs inner it') as [|e es'] eqn:Ea.
      + simpl in I2. subst l'. cbn [fst snd]. destruct (del_ok t k (tl_num t - 1) W) as [E W']. rewrite E. split; auto.
      + assert (Hl' : l' = fst e :: keys es') by (now rewrite <- I2).
        assert (Hc : cabs (after_subtree_remove vlen inner c txn it') =
                     (if match ti_root_leaf inner it' with Some _ => true | None => false end
                      then if (leaf_len vlen c l' <? half_page c) && (Spec.nlen l' <=? U16_MAX) then Inline l' else Subtree (Spec.nlen l') l'
                      else Subtree (ti_len inner it - 1) l') /\
                     cwf (after_subtree_remove vlen inner c txn it')).
        { unfold after_subtree_remove. destruct (ti_root_leaf inner it') as [es|] eqn:R.
          - pose proof (law_root_leaf _ _ _ LI _ _ R) as Hes. rewrite Ea in Hes. subst es.
            change (keys (e :: es')) with (fst e :: keys es'). rewrite <- Hl'.
            destruct ((leaf_len vlen c l' <? half_page c) && (Spec.nlen l' <=? U16_MAX)); simpl.
            + split; auto. split; [rewrite Hl'; discriminate|].
              rewrite Hl'. change (fst e :: keys es') with (keys (e :: es')). rewrite units_keys, <- Ea.
              now apply (law_sorted _ _ _ LI).
            + assert (En : Spec.nlen l' = SortedMap.len (ti_abs inner it')) by (rewrite Ea, Hl'; apply (nlen_keys (e :: es'))).
              destruct (law_set_len _ _ _ LI it' (Spec.nlen l') I1 En) as [S1 S2].
              split; auto. rewrite (law_len _ _ _ LI _ S1), S2, <- En, Ea. simpl. now rewrite Hl'.
          - simpl. split; auto. rewrite Ea. simpl. rewrite <- Hl'. f_equal. rewrite I4. lia. }
        destruct Hc as [Hc Hw].
        destruct (put_ok t k (after_subtree_remove vlen inner c txn it') (tl_num t - 1) W Hw) as [E W'].
        cbn [fst snd]. rewrite E, Hc. rewrite Hl'. split; auto.
  Qed.

  (* ---- remove_all *)
  Lemma tl_remove_all_sim k (t : tl_table) : twf t ->
    m_remove_all kcmp k (atab t) =
      (atab (fst (tl_remove_all outer inner k t)), option_map cabs (snd (tl_remove_all outer inner k t))) /\
    twf (fst (tl_remove_all outer inner k t)) /\
    (forall cl, snd (tl_remove_all outer inner k t) = Some cl -> cwf cl).
  Proof.
    intros W. unfold m_remove_all, tl_remove_all. rewrite (find_abs t k W).
    pose proof W as [Ho Hf]. destruct (law_delete _ _ _ LO (tl_tree t) k Ho) as (H1 & H2 & H3).
    pose proof (law_get _ _ _ LO (tl_tree t) k Ho) as Hg.
    pose proof (del_ok t k) as D. unfold o_del in D.
    destruct (ti_delete outer (tl_tree t) k) as [ot' old]; cbn [fst snd] in *.
    rewrite Hg, <- H3.
    destruct old as [cl|]; cbn [fst snd option_map].
    - assert (Hc : cwf cl) by (apply (wf_found t k cl W); rewrite Hg, <- H3; reflexivity).
      destruct (D (tl_num t - o_count inner cl) W) as [E W']. rewrite E, count_abs.
      split; [reflexivity|]. split; [exact W'|]. now intros cl' [= <-].
    - split; [reflexivity|]. split; [exact W|]. discriminate.
  Qed.

  (* ---- one step, runs *)
  Notation swf := (state_wf vcmp outer o_inv i_inv).
  Notation a2 := (abs2 outer inner).
  Notation tstep := (tl_step vcmp vlen outer inner).
  Notation trun := (tl_run vcmp vlen outer inner).
  Notation ttrace := (tl_trace vcmp vlen outer inner).

  Lemma range_sim lo hi (t : tl_table) : twf t ->
    List.map (fun e : K * @coll V => (fst e, (vals (snd e), stored_count (snd e)))) (am_range kcmp lo hi (t_entries (atab t))) =
    List.map (fun e : K * ocoll => (fst e, (o_vals inner (snd e), o_count inner (snd e))))
             (ti_range outer (tl_tree t) (conv_bound lo) (conv_bound hi)).
  Proof.
    intros [Ho Hf]. rewrite atab_entries. unfold FF. rewrite <- (am_range_map kcmp cabs). rewrite map_map. simpl.
    rewrite (law_range _ _ _ LO) by exact Ho. unfold am_range, SortedMap.range.
    rewrite (filter_ext _ (fun e => SortedMap.in_range kcmp (conv_bound lo) (conv_bound hi) (fst e)))
      by (intros e; apply (in_range_conv kcmp Hk)).
    apply map_ext_in. intros [k cl] Hin. simpl. apply filter_In in Hin. destruct Hin as [Hin _].
    rewrite Forall_forall in Hf. specialize (Hf _ Hin). simpl in Hf.
    now rewrite (vals_abs cl Hf), count_abs.
  Qed.

  Lemma tl_step_sim c o (s : tl_state) : swf s ->
    model_step kcmp vcmp vlen c (tl_resolve outer inner o s) (a2 s) = (a2 (fst (tstep c o s)), snd (tstep c o s)) /\
    swf (fst (tstep c o s)).
  Proof.
    intros [Wc Wm]. destruct s as [cur com txn]; simpl in Wc, Wm. destruct o; simpl.
    - destruct (tl_insert_sim c txn k v cur Wc) as [E W]. rewrite E.
      destruct (tl_insert vcmp vlen outer inner c txn k v cur); simpl in *. split; [reflexivity|split; auto].
    - destruct (tl_remove_sim c txn k v cur Wc) as (E & W). rewrite E.
      destruct (tl_remove vcmp vlen outer inner c txn k v cur); simpl in *. split; [reflexivity|split; auto].
    - destruct (tl_remove_all_sim k cur Wc) as (E & W & Hc). rewrite E.
      destruct (tl_remove_all outer inner k cur) as [t' oc]; cbn [fst snd] in *.
      rewrite (coll_out_abs rev nf nb oc Hc). split; [reflexivity|split; auto].
    - change (List.map (fun e : K * ocoll => (fst e, cabs (snd e))) (ti_abs outer (tl_tree cur))) with (t_entries (atab cur)).
      rewrite (find_abs cur k Wc).
      rewrite (coll_out_abs rev nf nb (ti_get outer (tl_tree cur) k)) by (intros cl; apply (wf_found cur k cl Wc)).
      split; [reflexivity|split; auto].
    - change (List.map (fun e : K * ocoll => (fst e, cabs (snd e))) (ti_abs outer (tl_tree cur))) with (t_entries (atab cur)).
      rewrite (range_sim lo hi cur Wc). split; [reflexivity|split; auto].
    - split; [reflexivity|split; auto].
    - split; [reflexivity|split; auto].
    - destruct Wc as [Ho Hf]. destruct (law_commit _ _ _ LO (tl_tree cur) Ho) as [C1 C2].
      assert (Ea : atab {| tl_tree := ti_commit outer (tl_tree cur); tl_num := tl_num cur |} = atab cur)
        by (unfold Subtree.abs_tab; simpl; now rewrite C2).
      unfold Subtree.abs2; simpl. rewrite Ea. split; [reflexivity|].
      split; split; simpl; auto; now rewrite C2.
    - split; [reflexivity|split; auto].
  Qed.

  Lemma tl_run_sim c ops : forall (s : tl_state), swf s ->
    model_run kcmp vcmp vlen c (ttrace c ops s) (a2 s) = (a2 (fst (trun c ops s)), snd (trun c ops s)) /\
    swf (fst (trun c ops s)).
  Proof.
    induction ops as [|o r IH]; intros s Hs; simpl; [split; auto|].
    destruct (tl_step_sim c o s Hs) as [E W]. rewrite E.
    destruct (tstep c o s) as [s' x]; simpl in *.
    destruct (IH s' W) as [E' W']. rewrite E'.
    destruct (trun c r s') as [s'' xs]; simpl in *. split; auto.
  Qed.

  Lemma trace_erase c ops : forall (s : tl_state), List.map erase_op (ttrace c ops s) = List.map erase_op ops.
  Proof.
    induction ops as [|o r IH]; intros s; simpl; auto. rewrite IH. f_equal. destruct o; reflexivity.
  Qed.

  Lemma wf_empty : swf (tl_empty outer).
  Proof.
    split; (split; simpl; [apply (law_inv_empty _ _ _ LO)|rewrite (law_abs_empty _ _ _ LO); constructor]).
  Qed.

  Lemma a2_empty : a2 (tl_empty outer) = m_empty.
  Proof. unfold Subtree.abs2, Subtree.abs_tab, m_empty, t_empty; simpl. now rewrite (law_abs_empty _ _ _ LO). Qed.

  Lemma counts_of_inv c (t : tl_table) : twf t -> table_inv vlen c (atab t) -> counts_exact outer inner t.
  Proof.
    intros [Ho Hf] [_ Hn]. split.
    - eapply Forall_impl; [|exact Hf]. intros [k [l|st it]]; simpl; auto.
      intros Hi. rewrite (law_len _ _ _ LI _ Hi). symmetry. apply nlen_keys.
    - simpl in Hn. rewrite Hn. apply (sum_lengths_map cabs).
  Qed.

  (* the composition: two-level model -> representation model (above) -> specification (ModelP.program_refines) *)
  Theorem two_level_refines_gen c (ops : list (op K V)) :
    let r := trun c ops (tl_empty outer) in
    spec_run kcmp vcmp ops s_empty = (tl_abs outer inner (fst r), snd r) /\
    swf (fst r) /\
    counts_exact outer inner (tl_cur (fst r)) /\ counts_exact outer inner (tl_com (fst r)).
  Proof.
    intros r. destruct (tl_run_sim c ops (tl_empty outer) wf_empty) as [E W]. fold r in E, W.
    rewrite a2_empty in E.
    assert (Hko : ord_laws kcmp).
    { destruct Hk as [e rf an tr]. constructor; auto. intros a b; split; [apply e|intros ->; apply rf]. }
    pose proof (program_refines kcmp vcmp Hko vlen c (ttrace c ops (tl_empty outer))) as P.
    pose proof (inv_reachable kcmp vcmp Hko vlen c (ttrace c ops (tl_empty outer))) as [I1 I2].
    rewrite E in P, I1, I2. simpl in P, I1, I2.
    rewrite <- (spec_run_erase kcmp vcmp), trace_erase, spec_run_erase in P.
    split; [exact P|]. split; [exact W|]. destruct W as [W1 W2].
    split; eapply counts_of_inv; eauto.
  Qed.
End Sim.

(* ---------------------------------------------------------------- closed statements used by Props/C09.v *)
Section ClosedTwoLevel.
  Context {K V : Type}.
  Variable kcmp : K -> K -> comparison.
  Variable vcmp : V -> V -> comparison.
  Hypothesis Hk : ord_laws kcmp.
  Hypothesis Hv : ord_laws vcmp.

  Notation inner_bt := (@Tree.btree V unit).
  Notation outer_bt := (@Tree.btree K (@ocoll V inner_bt)).

  (* both levels are C04's logical B-tree (Mutator.v), each with its own page size, size functions,
     fixed-width flags, separator function and in-place oracle *)
  Theorem two_level_refines
      (oksize : K -> N) (ovsize : @ocoll V inner_bt -> N) (ofk ofv : bool) (ops_ : N) (osep : K -> K -> K)
      (oinplace : list (K * @ocoll V inner_bt) -> K -> @ocoll V inner_bt -> bool)
      (iksize : V -> N) (ivsize : unit -> N) (ifk ifv : bool) (ips : N) (isep : V -> V -> V)
      (iinplace : list (V * unit) -> V -> unit -> bool)
      (vlen : V -> N) (c : cfg) (ops : list (op K V)) :
    Mutator.valid_sep kcmp osep -> Mutator.valid_sep vcmp isep ->
    let outer := mut_impl kcmp oksize ovsize ofk ofv ops_ osep oinplace in
    let inner := mut_impl vcmp iksize ivsize ifk ifv ips isep iinplace in
    let r := tl_run vcmp vlen outer inner c ops (tl_empty outer) in
    spec_run kcmp vcmp ops s_empty = (tl_abs outer inner (fst r), snd r) /\
    state_wf vcmp outer (Tree.TreeInv kcmp) (Tree.TreeInv vcmp) (fst r) /\
    counts_exact outer inner (tl_cur (fst r)) /\ counts_exact outer inner (tl_com (fst r)).
  Proof.
    intros Hos His outer inner.
    exact (two_level_refines_gen kcmp vcmp vlen (laws_of_ord kcmp Hk) (laws_of_ord vcmp Hv) outer inner
             (Tree.TreeInv kcmp) (Tree.TreeInv vcmp)
             (mut_laws kcmp (laws_of_ord kcmp Hk) oksize ovsize ofk ofv ops_ osep oinplace Hos)
             (mut_laws vcmp (laws_of_ord vcmp Hv) iksize ivsize ifk ifv ips isep iinplace His) c ops).
  Qed.

  Notation inner_sb := (@Shape.sbtree V unit).
  Notation outer_sb := (@Shape.sbtree K (@ocoll V inner_sb)).

  (* both levels are C04's shape model (the trees the check compares with redb) *)
  Theorem two_level_shape_refines
      (oksize : K -> N) (ovsize : @ocoll V inner_sb -> N) (ofk ofv : bool) (ops_ : N) (osep : K -> K -> K)
      (iksize : V -> N) (ivsize : unit -> N) (ifk ifv : bool) (ips : N) (isep : V -> V -> V)
      (vlen : V -> N) (c : cfg) (ops : list (op K V)) :
    Mutator.valid_sep kcmp osep -> Mutator.valid_sep vcmp isep ->
    let outer := shape_impl kcmp oksize ovsize ofk ofv ops_ osep in
    let inner := shape_impl vcmp iksize ivsize ifk ifv ips isep in
    let r := tl_run vcmp vlen outer inner c ops (tl_empty outer) in
    spec_run kcmp vcmp ops s_empty = (tl_abs outer inner (fst r), snd r) /\
    state_wf vcmp outer (ShapeRefP.SInv kcmp) (ShapeRefP.SInv vcmp) (fst r) /\
    counts_exact outer inner (tl_cur (fst r)) /\ counts_exact outer inner (tl_com (fst r)).
  Proof.
    intros Hos His outer inner.
    exact (two_level_refines_gen kcmp vcmp vlen (laws_of_ord kcmp Hk) (laws_of_ord vcmp Hv) outer inner
             (ShapeRefP.SInv kcmp) (ShapeRefP.SInv vcmp)
             (shape_laws kcmp (laws_of_ord kcmp Hk) oksize ovsize ofk ofv ops_ osep Hos)
             (shape_laws vcmp (laws_of_ord vcmp Hv) iksize ivsize ifk ifv ips isep His) c ops).
  Qed.
End ClosedTwoLevel.
