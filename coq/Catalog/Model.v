(* C17 model: the table catalog of a write transaction.
   Mirrors  src/tree_store/table_tree.rs (TableTreeMut: master tree, pending_table_updates, get_table(_untyped),
   get_or_create_table, rename_table, delete_table, flush_table_root_updates, list_tables; TableTree: read side),
   src/tree_store/table_tree_base.rs (InternalTableDefinition, check_match, check_match_untyped),
   src/transactions.rs (TableNamespace: open_tables, inner_open, inner_rename, inner_delete, close_table),
   src/types.rs (TypeName equality, matches_legacy).
   A table's B-tree root is abstracted to its contents (a sorted list of (key bytes, value bytes)); pages are C06's subject.
   Definitions only. *)
From RV Require Import Base.Bytes Gen.Consts Multimap.Spec.
Open Scope N_scope.

Definition name := bytes.                       (* table name (UTF-8 bytes); the master tree is ordered by &str = byte order *)
Definition ncmp : name -> name -> comparison := lex_cmp.
Definition bytes_eqb (a b : bytes) : bool := match lex_cmp a b with Eq => true | _ => false end.

Inductive kind := Normal | Multimap.
Definition kind_eqb (a b : kind) : bool :=
  match a, b with Normal, Normal | Multimap, Multimap => true | _, _ => false end.

(* TypeName as serialized: classification byte + name; equality is on-disk identity *)
Record tname := { tn_class : N; tn_name : bytes }.
Definition tname_eqb (a b : tname) : bool := (tn_class a =? tn_class b) && bytes_eqb (tn_name a) (tn_name b).

(* what a Rust type K contributes to an open call: K::type_name() (with the in-memory legacy
   classification of composites) and K::fixed_width() *)
Record rtype := { rt_name : tname; rt_legacy : option N; rt_width : option N }.

(* TypeName::matches_legacy *)
Definition matches_legacy (expected : rtype) (stored : tname) : bool :=
  match rt_legacy expected with
  | Some natural => (natural =? tn_class stored) && bytes_eqb (tn_name (rt_name expected)) (tn_name stored)
  | None => false
  end.
Definition type_matches (expected : rtype) (stored : tname) : bool :=
  tname_eqb stored (rt_name expected) || matches_legacy expected stored.

Definition optN_eqb (a b : option N) : bool :=
  match a, b with Some x, Some y => x =? y | None, None => true | _, _ => false end.

(* contents of a table: sorted by key bytes (normal) / by (key, value) bytes (multimap) *)
Definition contents := list (bytes * bytes).
Definition pair_cmp (a b : bytes * bytes) : comparison :=
  match lex_cmp (fst a) (fst b) with Eq => lex_cmp (snd a) (snd b) | c => c end.
Definition c_put (k : kind) (key value : bytes) (c : contents) : contents :=
  match k with
  | Normal => am_put lex_cmp key value c
  | Multimap => fst (set_insert pair_cmp (key, value) c)
  end.
Definition c_del (k : kind) (key value : bytes) (c : contents) : contents :=
  match k with
  | Normal => am_del lex_cmp key c
  | Multimap => fst (set_remove pair_cmp (key, value) c)
  end.
Definition c_len (c : contents) : N := N.of_nat (length c).

(* InternalTableDefinition *)
Record tdef := {
  d_kind : kind;
  d_ktype : tname; d_vtype : tname;
  d_kw : option N; d_vw : option N;           (* fixed_key_size, fixed_value_size *)
  d_kalign : N; d_valign : N;
  d_root : contents;                          (* table_root *)
  d_len : N }.                                (* table_length *)

Definition set_header (d : tdef) (r : contents) (l : N) : tdef :=
  {| d_kind := d_kind d; d_ktype := d_ktype d; d_vtype := d_vtype d; d_kw := d_kw d; d_vw := d_vw d;
     d_kalign := d_kalign d; d_valign := d_valign d; d_root := r; d_len := l |}.

(* InternalTableDefinition::new::<K, V>(table_type, None, 0) *)
Definition new_def (k : kind) (K V : rtype) : tdef :=
  {| d_kind := k; d_ktype := rt_name K; d_vtype := rt_name V; d_kw := rt_width K; d_vw := rt_width V;
     d_kalign := ALIGNMENT; d_valign := ALIGNMENT; d_root := []; d_len := 0 |}.

Inductive cerr :=
| ETypeMismatch (table : name) (key value : tname)
| EIsMultimap (table : name)
| EIsNotMultimap (table : name)
| ETypeDefChanged (t : tname) (alignment : N) (width : option N)
| EAlreadyOpen (table : name)
| EDoesNotExist (table : name)
| EExists (table : name).

(* check_match_untyped *)
Definition check_untyped (d : tdef) (k : kind) (nm : name) : option cerr :=
  if negb (kind_eqb (d_kind d) k) then
    Some (match d_kind d with Multimap => EIsMultimap nm | Normal => EIsNotMultimap nm end)
  else if negb (d_kalign d =? ALIGNMENT) then Some (ETypeDefChanged (d_ktype d) (d_kalign d) (d_kw d))
  else if negb (d_valign d =? ALIGNMENT) then Some (ETypeDefChanged (d_vtype d) (d_valign d) (d_vw d))
  else None.

(* check_match::<K, V> *)
Definition check_typed (d : tdef) (k : kind) (nm : name) (K V : rtype) : option cerr :=
  match check_untyped d k nm with
  | Some e => Some e
  | None =>
      if negb (type_matches K (d_ktype d)) || negb (type_matches V (d_vtype d))
      then Some (ETypeMismatch nm (d_ktype d) (d_vtype d))
      else if negb (optN_eqb (d_kw d) (rt_width K)) then Some (ETypeDefChanged (rt_name K) (d_kalign d) (d_kw d))
      else if negb (optN_eqb (d_vw d) (rt_width V)) then Some (ETypeDefChanged (rt_name V) (d_valign d) (d_vw d))
      else None
  end.

Definition catalog := list (name * tdef).       (* the master tree: sorted by name *)

(* ------------------------------------------------------------------ model state *)
Record cstate := {
  master : catalog;                             (* TableTreeMut::tree of the running write transaction *)
  pending : list (name * (contents * N));       (* pending_table_updates (root, length); the dirty flag only
                                                   decides whether checksums are re-finalized *)
  opened : list (name * (kind * (contents * N))); (* open_tables, together with the live root/length held by the handle *)
  committed : catalog }.                        (* master tree of the last commit *)

Definition c_init : cstate := {| master := []; pending := []; opened := []; committed := [] |}.

Inductive cop :=
| COpen (nm : name) (k : kind) (K V : rtype)   (* WriteTransaction::open_table / open_multimap_table *)
| CClose (nm : name)                            (* drop of the table handle *)
| CPut (nm : name) (key value : bytes)          (* insert through the open handle *)
| CDel (nm : name) (key value : bytes)          (* remove through the open handle *)
| CRead (nm : name)                             (* contents + len through the open handle *)
| CRename (k : kind) (from to : name)           (* rename_table / rename_multimap_table *)
| CDelete (k : kind) (nm : name)                (* delete_table / delete_multimap_table *)
| CList (k : kind)                              (* list_tables / list_multimap_tables *)
| CCommit
| CAbort
| CROpen (nm : name) (k : kind) (K V : rtype)   (* ReadTransaction::open_table / open_multimap_table (committed state) *)
| CROpenUntyped (nm : name) (k : kind)          (* ReadTransaction::open_untyped_(multimap_)table *)
| CRList (k : kind).                            (* ReadTransaction::list_(multimap_)tables *)

Inductive cres :=
| ROk
| RBool (b : bool)
| RNames (l : list name)
| RContents (c : contents) (len : N)
| RErr (e : cerr)
| RBad.                                          (* an op the API cannot express (e.g. commit with an open handle) or a
                                                    panic of the implementation (unwrap on a missing entry) *)

(* TableTree::get_table_untyped on a catalog *)
Definition tt_get_untyped (m : catalog) (nm : name) (k : kind) : option cerr + option tdef :=
  match am_find ncmp nm m with
  | Some d => match check_untyped d k nm with Some e => inl (Some e) | None => inr (Some d) end
  | None => inr None
  end.
(* TableTree::get_table::<K,V> *)
Definition tt_get_typed (m : catalog) (nm : name) (k : kind) (K V : rtype) : option cerr + option tdef :=
  match am_find ncmp nm m with
  | Some d => match check_typed d k nm K V with Some e => inl (Some e) | None => inr (Some d) end
  | None => inr None
  end.

(* TableTreeMut::get_table(_untyped): the stored definition with the staged header overlaid *)
Definition overlay_pending (s : cstate) (nm : name) (d : tdef) : tdef :=
  match am_find ncmp nm (pending s) with Some (r, l) => set_header d r l | None => d end.

Definition names_of_kind (k : kind) (m : catalog) : list name :=
  map fst (filter (fun e => kind_eqb (d_kind (snd e)) k) m).

(* flush_table_root_updates: None = the implementation would panic (unwrap on a missing entry) *)
Fixpoint flush (p : list (name * (contents * N))) (m : catalog) : option catalog :=
  match p with
  | [] => Some m
  | (nm, (r, l)) :: rest =>
      match am_find ncmp nm m with
      | Some d => flush rest (am_put ncmp nm (set_header d r l) m)
      | None => None
      end
  end.

Definition is_open (s : cstate) (nm : name) : bool :=
  match am_find ncmp nm (opened s) with Some _ => true | None => false end.

Definition with_handle (s : cstate) (nm : name) (f : kind -> contents -> contents) : cstate * cres :=
  match am_find ncmp nm (opened s) with
  | Some (k, (c, _)) =>
      let c' := f k c in
      ({| master := master s; pending := pending s;
          opened := am_put ncmp nm (k, (c', c_len c')) (opened s); committed := committed s |}, ROk)
  | None => (s, RBad)
  end.

Definition model_step (o : cop) (s : cstate) : cstate * cres :=
  match o with
  | COpen nm k K V =>
      (* TableNamespace::inner_open *)
      if is_open s nm then (s, RErr (EAlreadyOpen nm))
      else
        (* get_or_create_table::<K, V> *)
        match tt_get_typed (master s) nm k K V with
        | inl (Some e) => (s, RErr e)
        | inl None => (s, RBad)
        | inr (Some d) =>
            let d' := overlay_pending s nm d in
            ({| master := master s; pending := am_del ncmp nm (pending s);          (* clear_pending_table_update *)
                opened := am_put ncmp nm (k, (d_root d', d_len d')) (opened s); committed := committed s |}, ROk)
        | inr None =>
            ({| master := am_put ncmp nm (new_def k K V) (master s); pending := am_del ncmp nm (pending s);
                opened := am_put ncmp nm (k, ([], 0)) (opened s); committed := committed s |}, ROk)
        end
  | CClose nm =>
      (* TableNamespace::close_table: open_tables.remove(name); stage_update_table_root *)
      match am_find ncmp nm (opened s) with
      | Some (_, (c, l)) =>
          ({| master := master s; pending := am_put ncmp nm (c, l) (pending s);
              opened := am_del ncmp nm (opened s); committed := committed s |}, ROk)
      | None => (s, RBad)
      end
  | CPut nm key value => with_handle s nm (fun k c => c_put k key value c)
  | CDel nm key value => with_handle s nm (fun k c => c_del k key value c)
  | CRead nm =>
      match am_find ncmp nm (opened s) with
      | Some (_, (c, l)) => (s, RContents c l)
      | None => (s, RBad)
      end
  | CRename k from to =>
      (* inner_rename + TableTreeMut::rename_table *)
      if is_open s from then (s, RErr (EAlreadyOpen from))
      else
        match am_find ncmp from (master s) with
        | None => (s, RErr (EDoesNotExist from))
        | Some d =>
            match check_untyped d k from with
            | Some e => (s, RErr e)
            | None =>
                if bytes_eqb from to then (s, ROk)
                else
                  match tt_get_untyped (master s) to k with
                  | inl (Some e) => (s, RErr e)
                  | inl None => (s, RBad)
                  | inr (Some _) => (s, RErr (EExists to))
                  | inr None =>
                      let p' := match am_find ncmp from (pending s) with
                                | Some u => am_put ncmp to u (am_del ncmp from (pending s))
                                | None => pending s
                                end in
                      ({| master := am_put ncmp to d (am_del ncmp from (master s)); pending := p';
                          opened := opened s; committed := committed s |}, ROk)
                  end
            end
        end
  | CDelete k nm =>
      (* inner_delete + TableTreeMut::delete_table *)
      if is_open s nm then (s, RErr (EAlreadyOpen nm))
      else
        match tt_get_untyped (master s) nm k with
        | inl (Some e) => (s, RErr e)
        | inl None => (s, RBad)
        | inr None => (s, RBool false)
        | inr (Some _) =>
            ({| master := am_del ncmp nm (master s); pending := am_del ncmp nm (pending s);
                opened := opened s; committed := committed s |}, RBool true)
        end
  | CList k => (s, RNames (names_of_kind k (master s)))
  | CCommit =>
      match opened s with
      | [] =>
          match flush (pending s) (master s) with
          | Some m' => ({| master := m'; pending := []; opened := []; committed := m' |}, ROk)
          | None => (s, RBad)
          end
      | _ => (s, RBad)                            (* a live handle borrows the transaction: cannot be written in Rust *)
      end
  | CAbort =>
      match opened s with
      | [] => ({| master := committed s; pending := []; opened := []; committed := committed s |}, ROk)
      | _ => (s, RBad)
      end
  | CROpen nm k K V =>
      match tt_get_typed (committed s) nm k K V with
      | inl (Some e) => (s, RErr e)
      | inl None => (s, RBad)
      | inr None => (s, RErr (EDoesNotExist nm))
      | inr (Some d) => (s, RContents (d_root d) (d_len d))
      end
  | CROpenUntyped nm k =>
      match tt_get_untyped (committed s) nm k with
      | inl (Some e) => (s, RErr e)
      | inl None => (s, RBad)
      | inr None => (s, RErr (EDoesNotExist nm))
      | inr (Some d) => (s, RContents (d_root d) (d_len d))
      end
  | CRList k => (s, RNames (names_of_kind k (committed s)))
  end.

Fixpoint model_run (ops : list cop) (s : cstate) : cstate * list cres :=
  match ops with
  | [] => (s, [])
  | o :: r => let (s', x) := model_step o s in let (s'', xs) := model_run r s' in (s'', x :: xs)
  end.
