(* C17 proofs: the catalog model (master tree + pending_table_updates + open handles) refines the atomic
   catalog specification for every operation sequence; the model invariant is preserved; opening is type safe. *)
From RV Require Import Base.Bytes Base.BytesP Gen.Consts Multimap.Spec Multimap.ModelP Multimap.SpecP Catalog.Model Catalog.Spec.
Open Scope N_scope.

Local Arguments sorted : simpl never.

Lemma ncmp_laws : ord_laws ncmp.
Proof.
  constructor.
  - intros a b. split; [apply lex_cmp_eq | intros ->; apply lex_cmp_refl].
  - apply lex_cmp_antisym.
  - apply lex_cmp_trans_lt.
Qed.

Lemma bytes_eqb_eq a b : bytes_eqb a b = true <-> a = b.
Proof.
  unfold bytes_eqb. destruct (lex_cmp a b) eqn:E; split; intros H; try discriminate; auto.
  - now apply lex_cmp_eq.
  - subst. rewrite lex_cmp_refl in E. discriminate.
  - subst. rewrite lex_cmp_refl in E. discriminate.
Qed.

Lemma ncmp_eq a b : ncmp a b = Eq <-> a = b.
Proof. apply (ol_eq _ ncmp_laws). Qed.

Lemma ncmp_refl a : ncmp a a = Eq.
Proof. now apply ncmp_eq. Qed.

(* ------------------------------------------------------------------ key-dependent maps over sorted association lists *)
Section MapK.
  Context {B C : Type} (f : name -> B -> C).
  Let F := fun e : name * B => (fst e, f (fst e) (snd e)).

  Lemma keys_mapk m : map fst (map F m) = map fst m.
  Proof. induction m as [|[k b] r IH]; simpl; auto. now rewrite IH. Qed.

  Lemma am_find_mapk k m : am_find ncmp k (map F m) = option_map (f k) (am_find ncmp k m).
  Proof.
    induction m as [|[k' b] r IH]; simpl; auto.
    destruct (ncmp k k') eqn:E; simpl; auto. apply ncmp_eq in E. now subst.
  Qed.

  Lemma am_put_mapk k b m : map F (am_put ncmp k b m) = am_put ncmp k (f k b) (map F m).
  Proof.
    induction m as [|[k' b'] r IH]; simpl; auto.
    destruct (ncmp k k'); simpl; auto. now rewrite IH.
  Qed.

  Lemma am_del_mapk k m : map F (am_del ncmp k m) = am_del ncmp k (map F m).
  Proof.
    induction m as [|[k' b'] r IH]; simpl; auto.
    destruct (ncmp k k'); simpl; auto. now rewrite IH.
  Qed.
End MapK.

Section SortedFacts.
  Context {B : Type}.

  Lemma In_find (m : list (name * B)) x b : sorted ncmp (map fst m) -> In (x, b) m -> am_find ncmp x m = Some b.
  Proof.
    induction m as [|[k0 b0] r IH]; simpl map; [intros _ []|].
    rewrite (sorted_cons ncmp). intros [Hh Hs] [H|H].
    - injection H as -> ->. simpl. now rewrite ncmp_refl.
    - simpl. assert (ncmp k0 x = Lt) as E.
      { apply (sorted_all_lt ncmp ncmp_laws k0 (map fst r) Hh Hs). now apply (in_map fst) in H. }
      rewrite (ol_anti _ ncmp_laws), E. simpl. auto.
  Qed.

  Lemma find_In_key (m : list (name * B)) x b : am_find ncmp x m = Some b -> In (x, b) m.
  Proof.
    induction m as [|[k0 b0] r IH]; simpl; [discriminate|].
    destruct (ncmp x k0) eqn:E; try discriminate.
    - apply ncmp_eq in E. subst. intros [= ->]. auto.
    - auto.
  Qed.

  Lemma find_none_notin (m : list (name * B)) x : sorted ncmp (map fst m) -> am_find ncmp x m = None -> ~ In x (map fst m).
  Proof.
    intros Hs Hf Hin. apply in_map_iff in Hin. destruct Hin as [[k b] [E Hin]]. simpl in E. subst k.
    rewrite (In_find _ _ _ Hs Hin) in Hf. discriminate.
  Qed.
End SortedFacts.

Section Update.
  Context {B C : Type} (f g : name -> B -> C).

  (* changing the function at one existing key = am_put of the new value *)
  Lemma map_update_put (m : list (name * B)) nm b0 :
    sorted ncmp (map fst m) -> am_find ncmp nm m = Some b0 ->
    (forall x b, In (x, b) m -> x <> nm -> g x b = f x b) ->
    map (fun e => (fst e, g (fst e) (snd e))) m = am_put ncmp nm (g nm b0) (map (fun e => (fst e, f (fst e) (snd e))) m).
  Proof.
    induction m as [|[k0 b1] r IH]; simpl map; [discriminate|].
    rewrite (sorted_cons ncmp). intros [Hh Hs] Hf Hext. simpl in Hf |- *.
    destruct (ncmp nm k0) eqn:E; try discriminate.
    - apply ncmp_eq in E. subst k0. injection Hf as ->. f_equal.
      apply map_ext_in. intros [x b] Hin. simpl. f_equal. apply Hext; [now right|].
      intros ->. assert (ncmp nm nm = Lt) as E.
      { apply (sorted_all_lt ncmp ncmp_laws nm (map fst r) Hh Hs). now apply (in_map fst) in Hin. }
      rewrite ncmp_refl in E. discriminate.
    - f_equal.
      + f_equal. apply Hext; [now left|]. intros ->. rewrite ncmp_refl in E. discriminate.
      + apply IH; auto. intros x b Hin. apply Hext. now right.
  Qed.

  (* deleting a key forgets how the function differs at that key *)
  Lemma del_map_ext (m : list (name * B)) nm :
    sorted ncmp (map fst m) ->
    (forall x b, In (x, b) m -> x <> nm -> g x b = f x b) ->
    am_del ncmp nm (map (fun e => (fst e, g (fst e) (snd e))) m) = am_del ncmp nm (map (fun e => (fst e, f (fst e) (snd e))) m).
  Proof.
    induction m as [|[k0 b1] r IH]; simpl map; auto.
    rewrite (sorted_cons ncmp). intros [Hh Hs] Hext. simpl.
    pose proof (sorted_all_lt ncmp ncmp_laws k0 (map fst r) Hh Hs) as Hall.
    assert (forall x b, In (x, b) r -> ncmp k0 x = Lt) as Hr.
    { intros x b Hin. apply Hall. now apply (in_map fst) in Hin. }
    destruct (ncmp nm k0) eqn:E.
    - apply ncmp_eq in E. subst k0.
      apply map_ext_in. intros [x b] Hin. simpl. f_equal. apply Hext; [now right|].
      intros ->. pose proof (Hr _ _ Hin) as R. rewrite ncmp_refl in R. discriminate.
    - f_equal; [f_equal; apply Hext; [now left|]; intros ->; rewrite ncmp_refl in E; discriminate|].
      apply map_ext_in. intros [x b] Hin. simpl. f_equal. apply Hext; [now right|].
      intros ->. pose proof (ol_trans _ ncmp_laws _ _ _ E (Hr _ _ Hin)) as T. rewrite ncmp_refl in T. discriminate.
    - f_equal; [f_equal; apply Hext; [now left|]; intros ->; rewrite ncmp_refl in E; discriminate|].
      apply IH; auto. intros x b Hin. apply Hext. now right.
  Qed.
End Update.

(* ------------------------------------------------------------------ find after put / del *)
Lemma name_dec (x y : name) : {x = y} + {x <> y}.
Proof.
  destruct (ncmp x y) eqn:E.
  - left. now apply ncmp_eq.
  - right. intros ->. rewrite ncmp_refl in E. discriminate.
  - right. intros ->. rewrite ncmp_refl in E. discriminate.
Qed.

Section FindFacts.
  Context {B : Type}.
  Implicit Types m : list (name * B).

  Lemma find_put_eq nm b m : am_find ncmp nm (am_put ncmp nm b m) = Some b.
  Proof. rewrite (am_find_put ncmp ncmp_laws). now rewrite ncmp_refl. Qed.

  Lemma find_put_ne x nm b m : x <> nm -> am_find ncmp x (am_put ncmp nm b m) = am_find ncmp x m.
  Proof.
    intros H. rewrite (am_find_put ncmp ncmp_laws).
    destruct (ncmp x nm) eqn:E; auto. apply ncmp_eq in E. contradiction.
  Qed.

  Lemma find_del_eq nm m : sorted ncmp (map fst m) -> am_find ncmp nm (am_del ncmp nm m) = None.
  Proof. intros H. rewrite (am_find_del ncmp ncmp_laws); auto. now rewrite ncmp_refl. Qed.

  Lemma find_del_ne x nm m : sorted ncmp (map fst m) -> x <> nm -> am_find ncmp x (am_del ncmp nm m) = am_find ncmp x m.
  Proof.
    intros Hs H. rewrite (am_find_del ncmp ncmp_laws); auto.
    destruct (ncmp x nm) eqn:E; auto. apply ncmp_eq in E. contradiction.
  Qed.

  Lemma sorted_put nm b m : sorted ncmp (map fst m) -> sorted ncmp (map fst (am_put ncmp nm b m)).
  Proof. intros H. rewrite (keys_put ncmp ncmp_laws). now apply set_insert_sorted; [apply ncmp_laws|]. Qed.

  Lemma sorted_del nm m : sorted ncmp (map fst m) -> sorted ncmp (map fst (am_del ncmp nm m)).
  Proof. intros H. rewrite (keys_del ncmp). now apply set_remove_sorted; [apply ncmp_laws|]. Qed.
End FindFacts.

(* ------------------------------------------------------------------ checks do not look at root/length *)
Lemma set_header_same d : set_header d (d_root d) (d_len d) = d.
Proof. destruct d; reflexivity. Qed.

Lemma set_header_twice d r l r' l' : set_header (set_header d r l) r' l' = set_header d r' l'.
Proof. reflexivity. Qed.

Lemma check_untyped_header d r l k nm : check_untyped (set_header d r l) k nm = check_untyped d k nm.
Proof. reflexivity. Qed.

Lemma check_typed_header d r l k nm K V : check_typed (set_header d r l) k nm K V = check_typed d k nm K V.
Proof. reflexivity. Qed.

Lemma eff_cases s nm d : eff s nm d = d \/ exists r l, eff s nm d = set_header d r l.
Proof.
  unfold eff, overlay_pending. destruct (am_find ncmp nm (opened s)) as [[k [c l]]|]; [right; eauto|].
  destruct (am_find ncmp nm (pending s)) as [[r l]|]; [right; eauto|auto].
Qed.

Lemma check_untyped_eff s x d k nm : check_untyped (eff s x d) k nm = check_untyped d k nm.
Proof. destruct (eff_cases s x d) as [->|[r [l ->]]]; reflexivity. Qed.

Lemma check_typed_eff s x d k nm K V : check_typed (eff s x d) k nm K V = check_typed d k nm K V.
Proof. destruct (eff_cases s x d) as [->|[r [l ->]]]; reflexivity. Qed.

Lemma kind_eff s x d : d_kind (eff s x d) = d_kind d.
Proof. destruct (eff_cases s x d) as [->|[r [l ->]]]; reflexivity. Qed.

Notation FE s := (fun e : name * tdef => (fst e, eff s (fst e) (snd e))).
Notation GO := (fun e : name * (kind * (contents * N)) => (fst e, fst (snd e))).

Lemma names_of_kind_abs s k m : names_of_kind k (map (FE s) m) = names_of_kind k m.
Proof.
  unfold names_of_kind. induction m as [|[x d] r IH]; simpl; auto.
  rewrite kind_eff. destruct (kind_eqb (d_kind d) k); simpl; now rewrite IH.
Qed.

Lemma find_abs s nm : am_find ncmp nm (map (FE s) (master s)) = option_map (eff s nm) (am_find ncmp nm (master s)).
Proof. apply (am_find_mapk (eff s)). Qed.

Lemma is_open_abs s nm : sp_is_open (abs_state s) nm = is_open s nm.
Proof.
  unfold sp_is_open, is_open, abs_state. simpl.
  rewrite (am_find_map ncmp (fun v : kind * (contents * N) => fst v)).
  destruct (am_find ncmp nm (opened s)); reflexivity.
Qed.

Lemma find_open_abs s nm :
  am_find ncmp nm (sp_open (abs_state s)) = option_map fst (am_find ncmp nm (opened s)).
Proof. unfold abs_state. simpl. apply (am_find_map ncmp (fun v : kind * (contents * N) => fst v)). Qed.

Lemma eff_ext s s' x d :
  am_find ncmp x (opened s') = am_find ncmp x (opened s) ->
  am_find ncmp x (pending s') = am_find ncmp x (pending s) -> eff s' x d = eff s x d.
Proof. intros H1 H2. unfold eff, overlay_pending. now rewrite H1, H2. Qed.

Lemma eff_open s x d k c l : am_find ncmp x (opened s) = Some (k, (c, l)) -> eff s x d = set_header d c l.
Proof. intros H. unfold eff. now rewrite H. Qed.

Lemma eff_closed s x d : am_find ncmp x (opened s) = None -> eff s x d = overlay_pending s x d.
Proof. intros H. unfold eff. now rewrite H. Qed.

Lemma not_none_some {A} (o : option A) : o <> None -> exists a, o = Some a.
Proof. destruct o; [eauto|congruence]. Qed.

(* ------------------------------------------------------------------ simulation, operation by operation *)
Definition sim (o : cop) (s : cstate) : Prop :=
  spec_step o (abs_state s) = (abs_state (fst (model_step o s)), snd (model_step o s)) /\ cinv (fst (model_step o s)).

Lemma is_open_false s nm : is_open s nm = false -> am_find ncmp nm (opened s) = None.
Proof. unfold is_open. destruct (am_find ncmp nm (opened s)); [discriminate|auto]. Qed.

Lemma sim_open nm k K V s : cinv s -> sim (COpen nm k K V) s.
Proof.
  intros (Hm & Hp & Ho & Hc & Hpm & Hom & Hop). unfold sim. simpl.
  rewrite is_open_abs. destruct (is_open s nm) eqn:Hopen; [split; [reflexivity|repeat split; auto]|].
  apply is_open_false in Hopen.
  unfold tt_get_typed. unfold abs_state at 1. simpl sp_cur. rewrite find_abs.
  destruct (am_find ncmp nm (master s)) as [d|] eqn:Hf; simpl.
  - rewrite check_typed_eff. destruct (check_typed d k nm K V) as [e|] eqn:Hck; simpl;
      [split; [reflexivity|repeat split; auto]|].
    split.
    + unfold abs_state; simpl. f_equal. f_equal.
      * (* the effective catalog is unchanged *)
        symmetry. apply map_ext_in. intros [x d0] Hin. simpl. f_equal.
        destruct (name_dec x nm) as [->|Hne].
        -- rewrite (In_find _ _ _ Hm Hin) in Hf. injection Hf as ->.
           erewrite eff_open; [|simpl; apply find_put_eq].
           rewrite eff_closed; auto. unfold overlay_pending.
           destruct (am_find ncmp nm (pending s)) as [[r l]|]; [reflexivity|apply set_header_same].
        -- apply eff_ext; simpl; [now apply find_put_ne | now apply find_del_ne].
      * symmetry. apply (am_put_map ncmp (fun v : kind * (contents * N) => fst v)).
    + unfold cinv; simpl. repeat split; auto.
      * now apply sorted_del.
      * now apply sorted_put.
      * intros x Hx. destruct (name_dec x nm) as [->|Hne]; [rewrite find_del_eq in Hx; auto; congruence|].
        rewrite find_del_ne in Hx; auto.
      * intros x Hx. destruct (name_dec x nm) as [->|Hne]; [congruence|].
        rewrite find_put_ne in Hx; auto.
      * intros x Hx. destruct (name_dec x nm) as [->|Hne]; [now apply find_del_eq|].
        rewrite find_put_ne in Hx; auto. rewrite find_del_ne; auto.
  - assert (am_find ncmp nm (pending s) = None) as Hpn.
    { destruct (am_find ncmp nm (pending s)) eqn:E; auto. exfalso. apply (Hpm nm); congruence. }
    split.
    + unfold abs_state; simpl. f_equal. f_equal.
      * rewrite (am_put_mapk (eff _)). f_equal.
        -- erewrite eff_open; [|simpl; apply find_put_eq]. reflexivity.
        -- symmetry. apply map_ext_in. intros [x d0] Hin. simpl. f_equal.
           assert (x <> nm) as Hne. { intros ->. rewrite (In_find _ _ _ Hm Hin) in Hf. discriminate. }
           apply eff_ext; simpl; [now apply find_put_ne | now apply find_del_ne].
      * symmetry. apply (am_put_map ncmp (fun v : kind * (contents * N) => fst v)).
    + unfold cinv; simpl. repeat split; auto.
      * now apply sorted_put.
      * now apply sorted_del.
      * now apply sorted_put.
      * intros x Hx. destruct (name_dec x nm) as [->|Hne]; [rewrite find_put_eq; congruence|].
        rewrite find_put_ne; auto. rewrite find_del_ne in Hx; auto.
      * intros x Hx. destruct (name_dec x nm) as [->|Hne]; [rewrite find_put_eq; congruence|].
        rewrite find_put_ne; auto. rewrite find_put_ne in Hx; auto.
      * intros x Hx. destruct (name_dec x nm) as [->|Hne]; [now apply find_del_eq|].
        rewrite find_put_ne in Hx; auto. rewrite find_del_ne; auto.
Qed.

Lemma sim_close nm s : cinv s -> sim (CClose nm) s.
Proof.
  intros (Hm & Hp & Ho & Hc & Hpm & Hom & Hop). unfold sim. simpl.
  rewrite is_open_abs. unfold is_open.
  destruct (am_find ncmp nm (opened s)) as [[k [c l]]|] eqn:Hf; simpl; [|split; [reflexivity|repeat split; auto]].
  split.
  - unfold abs_state; simpl. f_equal. f_equal.
    + symmetry. apply map_ext_in. intros [x d0] Hin. simpl. f_equal.
      destruct (name_dec x nm) as [->|Hne].
      * rewrite (eff_open _ _ _ _ _ _ Hf). rewrite eff_closed; [|simpl; now apply find_del_eq].
        unfold overlay_pending. simpl. now rewrite find_put_eq.
      * apply eff_ext; simpl; [now apply find_del_ne | now apply find_put_ne].
    + symmetry. apply (am_del_map ncmp (fun v : kind * (contents * N) => fst v)).
  - unfold cinv; simpl. repeat split; auto.
    + now apply sorted_put.
    + now apply sorted_del.
    + intros x Hx. destruct (name_dec x nm) as [->|Hne]; [apply Hom; congruence|].
      rewrite find_put_ne in Hx; auto.
    + intros x Hx. destruct (name_dec x nm) as [->|Hne]; [rewrite find_del_eq in Hx; auto; congruence|].
      rewrite find_del_ne in Hx; auto.
    + intros x Hx. destruct (name_dec x nm) as [->|Hne]; [rewrite find_del_eq in Hx; auto; congruence|].
      rewrite find_del_ne in Hx; auto. rewrite find_put_ne; auto.
Qed.

Lemma sim_with_handle nm f s :
  cinv s ->
  sp_with_handle (abs_state s) nm f = (abs_state (fst (with_handle s nm f)), snd (with_handle s nm f)) /\
  cinv (fst (with_handle s nm f)).
Proof.
  intros (Hm & Hp & Ho & Hc & Hpm & Hom & Hop). unfold sp_with_handle, with_handle.
  rewrite find_open_abs. unfold abs_state at 1. simpl sp_cur. rewrite find_abs.
  destruct (am_find ncmp nm (opened s)) as [[k [c l]]|] eqn:Hf; simpl; [|split; [reflexivity|repeat split; auto]].
  destruct (not_none_some _ (Hom nm ltac:(congruence))) as [d Hd]. rewrite Hd. simpl.
  rewrite (eff_open _ _ _ _ _ _ Hf). simpl.
  split.
  - unfold abs_state; simpl. f_equal. f_equal.
    + symmetry.
      set (s' := {| master := master s; pending := pending s;
                    opened := am_put ncmp nm (k, (f k c, c_len (f k c))) (opened s); committed := committed s |}).
      rewrite (map_update_put (eff s) (eff s') (master s) nm d Hm Hd).
      * f_equal. erewrite eff_open; [|subst s'; simpl; apply find_put_eq]. reflexivity.
      * intros x b _ Hne. apply eff_ext; subst s'; simpl; [now apply find_put_ne | reflexivity].
    + symmetry. rewrite (am_put_map ncmp (fun v : kind * (contents * N) => fst v)). simpl.
      apply am_put_same; [apply ncmp_laws|].
      rewrite (am_find_map ncmp (fun v : kind * (contents * N) => fst v)), Hf. reflexivity.
  - unfold cinv; simpl. repeat split; auto.
    + now apply sorted_put.
    + intros x Hx. destruct (name_dec x nm) as [->|Hne]; [congruence|]. rewrite find_put_ne in Hx; auto.
    + intros x Hx. destruct (name_dec x nm) as [->|Hne]; [apply Hop; congruence|]. rewrite find_put_ne in Hx; auto.
Qed.

Lemma sim_read nm s : cinv s -> sim (CRead nm) s.
Proof.
  intros (Hm & Hp & Ho & Hc & Hpm & Hom & Hop). unfold sim, spec_step, model_step.
  rewrite find_open_abs. unfold abs_state at 1. simpl sp_cur. rewrite find_abs.
  destruct (am_find ncmp nm (opened s)) as [[k [c l]]|] eqn:Hf; simpl; [|split; [reflexivity|repeat split; auto]].
  destruct (not_none_some _ (Hom nm ltac:(congruence))) as [d Hd]. rewrite Hd. simpl.
  rewrite (eff_open _ _ _ _ _ _ Hf). simpl. split; [reflexivity|repeat split; auto].
Qed.

Lemma keep_state_sim s (r : cres) : cinv s -> (abs_state s, r) = (abs_state s, r) /\ cinv s.
Proof. auto. Qed.

Lemma sim_rename k from to s : cinv s -> sim (CRename k from to) s.
Proof.
  intros Hinv. pose proof Hinv as (Hm & Hp & Ho & Hc & Hpm & Hom & Hop). unfold sim, spec_step, model_step.
  rewrite is_open_abs. destruct (is_open s from) eqn:Hopen; [now apply keep_state_sim|].
  apply is_open_false in Hopen.
  unfold abs_state at 1. simpl sp_cur. rewrite find_abs.
  destruct (am_find ncmp from (master s)) as [d|] eqn:Hf; simpl option_map; cbv iota; [|now apply keep_state_sim].
  rewrite check_untyped_eff.
  destruct (check_untyped d k from) as [e|] eqn:Hck; [now apply keep_state_sim|].
  destruct (bytes_eqb from to) eqn:Heq; [now apply keep_state_sim|].
  assert (from <> to) as Hft. { intros E. apply bytes_eqb_eq in E. congruence. }
  unfold tt_get_untyped. unfold abs_state at 1. simpl sp_cur. rewrite find_abs.
  destruct (am_find ncmp to (master s)) as [d2|] eqn:Hf2; simpl option_map; cbv iota.
  { rewrite check_untyped_eff. destruct (check_untyped d2 k to); now apply keep_state_sim. }
  (* the rename happens *)
  assert (am_find ncmp to (opened s) = None) as Hto_o.
  { destruct (am_find ncmp to (opened s)) eqn:E; auto. exfalso. apply (Hom to); congruence. }
  assert (am_find ncmp to (pending s) = None) as Hto_p.
  { destruct (am_find ncmp to (pending s)) eqn:E; auto. exfalso. apply (Hpm to); congruence. }
  assert (forall x b, In (x, b) (master s) -> x <> to) as Hin_to.
  { intros x b Hin ->. rewrite (In_find _ _ _ Hm Hin) in Hf2. discriminate. }
  set (p' := match am_find ncmp from (pending s) with
             | Some u => am_put ncmp to u (am_del ncmp from (pending s))
             | None => pending s end).
  set (s' := {| master := am_put ncmp to d (am_del ncmp from (master s)); pending := p';
                opened := opened s; committed := committed s |}).
  assert (forall x, x <> from -> x <> to -> am_find ncmp x p' = am_find ncmp x (pending s)) as Hp'.
  { intros x H1 H2. subst p'. destruct (am_find ncmp from (pending s)); auto.
    rewrite find_put_ne; auto. now apply find_del_ne. }
  assert (am_find ncmp to p' = am_find ncmp from (pending s)) as Hp'to.
  { subst p'. destruct (am_find ncmp from (pending s)) eqn:E; [apply find_put_eq|auto]. }
  assert (am_find ncmp from p' = None) as Hp'from.
  { subst p'. destruct (am_find ncmp from (pending s)) eqn:E; auto.
    rewrite find_put_ne; auto. now apply find_del_eq. }
  simpl fst. simpl snd. split.
  - unfold abs_state; simpl. f_equal. f_equal.
    fold s'. rewrite (am_put_mapk (eff s')). rewrite (am_del_mapk (eff s')). f_equal.
    + rewrite (eff_closed s from); auto. rewrite (eff_closed s' to); [|exact Hto_o].
      unfold overlay_pending. simpl pending. now rewrite Hp'to.
    + symmetry. apply del_map_ext; auto.
      intros x b Hin Hne. apply eff_ext; [reflexivity|]. simpl. apply Hp'; auto. eapply Hin_to; eauto.
  - unfold cinv; simpl. repeat split; auto.
    + apply sorted_put. now apply sorted_del.
    + subst p'. destruct (am_find ncmp from (pending s)); auto. apply sorted_put. now apply sorted_del.
    + intros x Hx. destruct (name_dec x to) as [->|Hne]; [rewrite find_put_eq; congruence|].
      rewrite find_put_ne; auto.
      destruct (name_dec x from) as [->|Hne2]; [congruence|].
      rewrite find_del_ne; auto. apply Hpm. rewrite <- Hp'; auto.
    + intros x Hx.
      assert (x <> from) by (intros ->; congruence).
      assert (x <> to) by (intros ->; congruence).
      rewrite find_put_ne; auto. rewrite find_del_ne; auto.
    + intros x Hx.
      assert (x <> from) by (intros ->; congruence).
      assert (x <> to) by (intros ->; congruence).
      rewrite Hp'; auto.
Qed.

Lemma sim_delete k nm s : cinv s -> sim (CDelete k nm) s.
Proof.
  intros Hinv. pose proof Hinv as (Hm & Hp & Ho & Hc & Hpm & Hom & Hop). unfold sim, spec_step, model_step.
  rewrite is_open_abs. destruct (is_open s nm) eqn:Hopen; [now apply keep_state_sim|].
  apply is_open_false in Hopen.
  unfold tt_get_untyped. unfold abs_state at 1. simpl sp_cur. rewrite find_abs.
  destruct (am_find ncmp nm (master s)) as [d|] eqn:Hf; simpl option_map; cbv iota; [|now apply keep_state_sim].
  rewrite check_untyped_eff. destruct (check_untyped d k nm); [now apply keep_state_sim|].
  simpl fst. simpl snd.
  set (s' := {| master := am_del ncmp nm (master s); pending := am_del ncmp nm (pending s);
                opened := opened s; committed := committed s |}).
  split.
  - unfold abs_state; simpl. f_equal. f_equal. fold s'. rewrite (am_del_mapk (eff s')).
    symmetry. apply del_map_ext; auto.
    intros x b Hin Hne. apply eff_ext; [reflexivity|]. simpl. now apply find_del_ne.
  - unfold cinv; simpl. repeat split; auto.
    + now apply sorted_del.
    + now apply sorted_del.
    + intros x Hx. destruct (name_dec x nm) as [->|Hne]; [rewrite find_del_eq in Hx; auto; congruence|].
      rewrite find_del_ne in Hx; auto. rewrite find_del_ne; auto.
    + intros x Hx. assert (x <> nm) by (intros ->; congruence). rewrite find_del_ne; auto.
    + intros x Hx. assert (x <> nm) by (intros ->; congruence). rewrite find_del_ne; auto.
Qed.

Lemma map_same {A} (f : A -> A) l : (forall x, f x = x) -> map f l = l.
Proof. intros H. induction l; simpl; congruence. Qed.

(* ------------------------------------------------------------------ commit: flushing the staged roots *)
Definition ov (p : list (name * (contents * N))) (nm : name) (d : tdef) : tdef :=
  match am_find ncmp nm p with Some (r, l) => set_header d r l | None => d end.

Lemma flush_ok p : forall (m : catalog),
  sorted ncmp (map fst p) -> sorted ncmp (map fst m) ->
  (forall x, am_find ncmp x p <> None -> am_find ncmp x m <> None) ->
  flush p m = Some (map (fun e => (fst e, ov p (fst e) (snd e))) m).
Proof.
  induction p as [|[nm [r l]] rest IH]; intros m Hp Hm Hsub.
  - simpl. f_equal. symmetry. apply map_same. intros [x d]. reflexivity.
  - simpl map in Hp. rewrite (sorted_cons ncmp) in Hp. destruct Hp as [Hh Hs].
    assert (am_find ncmp nm rest = None) as Hnr by (now apply (find_none_hd ncmp)).
    assert (forall x, am_find ncmp x rest <> None -> ncmp nm x = Lt) as Hgt.
    { intros x Hx. destruct (not_none_some _ Hx) as [u Hu]. apply find_In_key in Hu.
      apply (sorted_all_lt ncmp ncmp_laws nm (map fst rest) Hh Hs). now apply (in_map fst) in Hu. }
    simpl flush.
    destruct (not_none_some _ (Hsub nm ltac:(simpl; rewrite ncmp_refl; congruence))) as [d Hd]. rewrite Hd.
    rewrite (IH (am_put ncmp nm (set_header d r l) m)); auto.
    + f_equal. rewrite (am_put_mapk (ov rest)).
      replace (ov rest nm (set_header d r l)) with (ov ((nm, (r, l)) :: rest) nm d)
        by (unfold ov; simpl; rewrite ncmp_refl, Hnr; reflexivity).
      symmetry. apply map_update_put; auto.
      intros x b _ Hne. unfold ov. simpl.
      destruct (ncmp x nm) eqn:E.
      * apply ncmp_eq in E. contradiction.
      * (* x < nm: not in rest either *)
        destruct (am_find ncmp x rest) eqn:E2; auto.
        pose proof (Hgt x ltac:(congruence)) as G. rewrite (ol_anti _ ncmp_laws), G in E. discriminate.
      * reflexivity.
    + now apply sorted_put.
    + intros x Hx. pose proof (Hgt x Hx) as G.
      assert (x <> nm) by (intros ->; rewrite ncmp_refl in G; discriminate).
      rewrite find_put_ne; auto. apply Hsub. simpl.
      rewrite (ol_anti _ ncmp_laws), G. simpl. exact Hx.
Qed.

Lemma eff_no_open s x d : opened s = [] -> eff s x d = ov (pending s) x d.
Proof. intros H. unfold eff, overlay_pending, ov. rewrite H. reflexivity. Qed.

Lemma sim_commit s : cinv s -> sim CCommit s.
Proof.
  intros Hinv. pose proof Hinv as (Hm & Hp & Ho & Hc & Hpm & Hom & Hop). unfold sim, spec_step, model_step.
  unfold abs_state at 1. simpl sp_open.
  destruct (opened s) as [|e r] eqn:Hopen; simpl map; cbv iota; [|now apply keep_state_sim].
  rewrite (flush_ok (pending s) (master s) Hp Hm Hpm). simpl fst. simpl snd.
  assert (map (fun e => (fst e, ov (pending s) (fst e) (snd e))) (master s) =
          map (fun e => (fst e, eff s (fst e) (snd e))) (master s)) as E.
  { apply map_ext. intros [x d]. simpl. now rewrite eff_no_open. }
  split.
  - unfold abs_state; simpl. rewrite <- E.
    f_equal. f_equal.
    symmetry. apply map_same. intros [x d]. reflexivity.
  - unfold cinv; simpl. rewrite (keys_mapk (ov (pending s))).
    repeat split; auto; try (compute; auto; fail); intros x Hx; simpl in Hx; congruence.
Qed.

Lemma sim_abort s : cinv s -> sim CAbort s.
Proof.
  intros Hinv. pose proof Hinv as (Hm & Hp & Ho & Hc & Hpm & Hom & Hop). unfold sim, spec_step, model_step.
  unfold abs_state at 1. simpl sp_open.
  destruct (opened s) as [|e r] eqn:Hopen; simpl map; cbv iota; [|now apply keep_state_sim].
  simpl fst. simpl snd. split.
  - unfold abs_state; simpl. f_equal. f_equal.
    symmetry. apply map_same. intros [x d]. reflexivity.
  - unfold cinv; simpl.
    repeat split; auto; try (compute; auto; fail); intros x Hx; simpl in Hx; congruence.
Qed.

Lemma step_sim o s : cinv s -> sim o s.
Proof.
  intros Hinv. destruct o.
  - now apply sim_open.
  - now apply sim_close.
  - unfold sim. simpl. now apply sim_with_handle.
  - unfold sim. simpl. now apply sim_with_handle.
  - now apply sim_read.
  - now apply sim_rename.
  - now apply sim_delete.
  - unfold sim. simpl. unfold abs_state at 1. simpl. rewrite names_of_kind_abs. now apply keep_state_sim.
  - now apply sim_commit.
  - now apply sim_abort.
  - unfold sim. simpl.
    destruct (tt_get_typed (committed s) nm k K V) as [[e|]|[d|]]; now apply keep_state_sim.
  - unfold sim. simpl.
    destruct (tt_get_untyped (committed s) nm k) as [[e|]|[d|]]; now apply keep_state_sim.
  - unfold sim. simpl. now apply keep_state_sim.
Qed.

Lemma run_sim ops : forall s, cinv s ->
  spec_run ops (abs_state s) = (abs_state (fst (model_run ops s)), snd (model_run ops s)) /\ cinv (fst (model_run ops s)).
Proof.
  induction ops as [|o r IH]; intros s Hs; simpl; [split; auto|].
  destruct (step_sim o s Hs) as [E I]. rewrite E.
  destruct (model_step o s) as [s' x]; simpl in *.
  destruct (IH s' I) as [E' I']. rewrite E'.
  destruct (model_run r s') as [s'' xs]; simpl in *. split; auto.
Qed.

Lemma cinv_init : cinv c_init.
Proof. unfold cinv, c_init; simpl. repeat split; try (compute; auto; fail); intros x Hx; simpl in Hx; congruence. Qed.

Theorem catalog_refines_thm ops :
  spec_run ops sp_init = (abs_state (fst (model_run ops c_init)), snd (model_run ops c_init)).
Proof. exact (proj1 (run_sim ops c_init cinv_init)). Qed.

Theorem catalog_inv_thm ops : cinv (fst (model_run ops c_init)).
Proof. exact (proj2 (run_sim ops c_init cinv_init)). Qed.

(* ------------------------------------------------------------------ type safety of open *)
(* stored name acceptable for the requested Rust type: identical on disk, or the documented legacy spelling
   (same name string, classification = the one older versions stored for this composite) *)
Definition type_ok (expected : rtype) (stored : tname) : Prop :=
  stored = rt_name expected \/
  (exists c, rt_legacy expected = Some c /\ tn_class stored = c /\ tn_name stored = tn_name (rt_name expected)).

Lemma tname_eqb_eq a b : tname_eqb a b = true <-> a = b.
Proof.
  unfold tname_eqb. rewrite andb_true_iff, N.eqb_eq, bytes_eqb_eq. destruct a, b; simpl.
  split; [intros [-> ->]; reflexivity | intros [= -> ->]; auto].
Qed.

Lemma type_matches_ok K stored : type_matches K stored = true <-> type_ok K stored.
Proof.
  unfold type_matches, type_ok, matches_legacy. rewrite orb_true_iff, tname_eqb_eq.
  split; (intros [H|H]; [left; exact H|right]).
  - destruct (rt_legacy K) as [c|]; [|discriminate].
    apply andb_true_iff in H. destruct H as [H1 H2]. apply N.eqb_eq in H1. apply bytes_eqb_eq in H2.
    exists c. auto.
  - destruct H as (c & -> & H1 & H2). apply andb_true_iff. split; [now apply N.eqb_eq | apply bytes_eqb_eq; auto].
Qed.

Lemma optN_eqb_eq a b : optN_eqb a b = true <-> a = b.
Proof.
  destruct a, b; simpl; split; intros H; try discriminate; auto.
  - apply N.eqb_eq in H. now subst.
  - injection H as ->. apply N.eqb_refl.
Qed.

Lemma kind_eqb_eq a b : kind_eqb a b = true <-> a = b.
Proof. destruct a, b; simpl; split; intros H; try discriminate; auto. Qed.

Definition def_matches (d : tdef) (k : kind) (K V : rtype) : Prop :=
  d_kind d = k /\ type_ok K (d_ktype d) /\ type_ok V (d_vtype d) /\
  d_kw d = rt_width K /\ d_vw d = rt_width V /\ d_kalign d = ALIGNMENT /\ d_valign d = ALIGNMENT.

Lemma check_typed_none d k nm K V : check_typed d k nm K V = None <-> def_matches d k K V.
Proof.
  unfold check_typed, check_untyped, def_matches.
  rewrite <- !type_matches_ok, <- !optN_eqb_eq, <- kind_eqb_eq, <- !N.eqb_eq.
  destruct (kind_eqb (d_kind d) k), (d_kalign d =? ALIGNMENT), (d_valign d =? ALIGNMENT),
    (type_matches K (d_ktype d)), (type_matches V (d_vtype d)), (optN_eqb (d_kw d) (rt_width K)),
    (optN_eqb (d_vw d) (rt_width V)); simpl; split; intros H; try discriminate; try tauto;
    try (destruct (d_kind d); discriminate);
    repeat match goal with H : _ /\ _ |- _ => destruct H end; try discriminate.
Qed.

(* the order of the checks: kind first, then alignment, then type names, then widths *)
Lemma check_typed_kind d k nm K V : d_kind d <> k ->
  check_typed d k nm K V = Some (match d_kind d with Multimap => EIsMultimap nm | Normal => EIsNotMultimap nm end).
Proof.
  intros H. unfold check_typed, check_untyped.
  destruct (kind_eqb (d_kind d) k) eqn:E; [apply kind_eqb_eq in E; contradiction|reflexivity].
Qed.

Lemma check_typed_names d k nm K V :
  d_kind d = k -> d_kalign d = ALIGNMENT -> d_valign d = ALIGNMENT ->
  ~ (type_ok K (d_ktype d) /\ type_ok V (d_vtype d)) ->
  check_typed d k nm K V = Some (ETypeMismatch nm (d_ktype d) (d_vtype d)).
Proof.
  intros H1 H2 H3 H4. unfold check_typed, check_untyped.
  apply kind_eqb_eq in H1. apply N.eqb_eq in H2. apply N.eqb_eq in H3. rewrite H1, H2, H3. simpl.
  rewrite <- !type_matches_ok in H4.
  destruct (type_matches K (d_ktype d)), (type_matches V (d_vtype d)); simpl; auto. tauto.
Qed.

Theorem open_type_safe_thm nm k K V s :
  let r := model_step (COpen nm k K V) s in
  (snd r = ROk ->
     is_open s nm = false /\
     match am_find ncmp nm (master s) with
     | Some d => def_matches d k K V /\ master (fst r) = master s
     | None => master (fst r) = am_put ncmp nm (new_def k K V) (master s)
     end /\
     is_open (fst r) nm = true) /\
  (snd r <> ROk ->
     fst r = s /\
     ((is_open s nm = true /\ snd r = RErr (EAlreadyOpen nm)) \/
      (is_open s nm = false /\ exists d e, am_find ncmp nm (master s) = Some d /\
                                            check_typed d k nm K V = Some e /\ snd r = RErr e))).
Proof.
  simpl. destruct (is_open s nm) eqn:Ho; simpl.
  - split; [discriminate|]. intros _. split; auto.
  - unfold tt_get_typed. destruct (am_find ncmp nm (master s)) as [d|] eqn:Hf.
    + destruct (check_typed d k nm K V) as [e|] eqn:Hc; simpl.
      * split; [discriminate|]. intros _. split; auto. right. split; auto. exists d, e. auto.
      * split; [|congruence]. intros _. split; auto. split.
        -- split; auto. now apply (check_typed_none d k nm K V).
        -- unfold is_open. simpl. now rewrite find_put_eq.
    + simpl. split; [|congruence]. intros _. split; auto. split; auto.
      unfold is_open. simpl. now rewrite find_put_eq.
Qed.

(* ------------------------------------------------------------------ a table can be open at most once *)
Lemma step_keeps_open o s nm :
  cinv s -> is_open s nm = true -> o <> CClose nm -> is_open (fst (model_step o s)) nm = true.
Proof.
  intros Hinv Hopen Hne. pose proof Hinv as (Hm & Hp & Ho & Hc & Hpm & Hom & Hop).
  assert (opened s <> []) as Hnonempty.
  { unfold is_open in Hopen. destruct (opened s); [discriminate|congruence]. }
  unfold is_open in *.
  destruct o; simpl; auto.
  - destruct (is_open s nm0); simpl; auto.
    destruct (tt_get_typed (master s) nm0 k K V) as [[e|]|[d|]]; simpl; auto.
      all: (destruct (name_dec nm nm0) as [->|Hn]; [now rewrite find_put_eq | rewrite find_put_ne; auto]).
  - destruct (am_find ncmp nm0 (opened s)) as [[k [c l]]|] eqn:E; simpl; auto.
    assert (nm <> nm0) by (intros ->; congruence). rewrite find_del_ne; auto.
  - unfold with_handle. destruct (am_find ncmp nm0 (opened s)) as [[k [c l]]|] eqn:E; simpl; auto.
    destruct (name_dec nm nm0) as [->|Hn]; [now rewrite find_put_eq | rewrite find_put_ne; auto].
  - unfold with_handle. destruct (am_find ncmp nm0 (opened s)) as [[k [c l]]|] eqn:E; simpl; auto.
    destruct (name_dec nm nm0) as [->|Hn]; [now rewrite find_put_eq | rewrite find_put_ne; auto].
  - destruct (am_find ncmp nm0 (opened s)) as [[k [c l]]|]; simpl; auto.
  - destruct (is_open s from); simpl; auto.
    destruct (am_find ncmp from (master s)); simpl; auto.
    destruct (check_untyped t k from); simpl; auto.
    destruct (bytes_eqb from to); simpl; auto.
    destruct (tt_get_untyped (master s) to k) as [[e|]|[d|]]; simpl; auto.
  - destruct (is_open s nm0); simpl; auto.
    destruct (tt_get_untyped (master s) nm0 k) as [[e|]|[d|]]; simpl; auto.
  - destruct (opened s) eqn:E; [congruence|]. simpl. rewrite E. exact Hopen.
  - destruct (opened s) eqn:E; [congruence|]. simpl. rewrite E. exact Hopen.
  - destruct (tt_get_typed (committed s) nm0 k K V) as [[e|]|[d|]]; simpl; auto.
  - destruct (tt_get_untyped (committed s) nm0 k) as [[e|]|[d|]]; simpl; auto.
Qed.

Theorem open_once_thm nm ops : forall s,
  cinv s -> is_open s nm = true -> ~ In (CClose nm) ops ->
  forall k K V, model_step (COpen nm k K V) (fst (model_run ops s)) = (fst (model_run ops s), RErr (EAlreadyOpen nm)).
Proof.
  induction ops as [|o r IH]; intros s Hinv Hopen Hnot k K V.
  - simpl. now rewrite Hopen.
  - simpl.
    pose proof (step_keeps_open o s nm Hinv Hopen ltac:(intros ->; apply Hnot; now left)) as Hk.
    destruct (step_sim o s Hinv) as [_ Hinv'].
    destruct (model_step o s) as [s' x]; simpl in *.
    specialize (IH s' Hinv' Hk ltac:(intros H; apply Hnot; now right) k K V).
    destruct (model_run r s') as [s'' xs]; simpl in *. exact IH.
Qed.

(* ------------------------------------------------------------------ the committed catalog changes only at commit *)
Theorem committed_only_at_commit_thm o s : o <> CCommit -> committed (fst (model_step o s)) = committed s.
Proof.
  intros Hne. destruct o; simpl; auto; try congruence.
  - destruct (is_open s nm); simpl; auto. destruct (tt_get_typed (master s) nm k K V) as [[e|]|[d|]]; simpl; auto.
  - destruct (am_find ncmp nm (opened s)) as [[k [c l]]|]; simpl; auto.
  - unfold with_handle. destruct (am_find ncmp nm (opened s)) as [[k [c l]]|]; simpl; auto.
  - unfold with_handle. destruct (am_find ncmp nm (opened s)) as [[k [c l]]|]; simpl; auto.
  - destruct (am_find ncmp nm (opened s)) as [[k [c l]]|]; simpl; auto.
  - destruct (is_open s from); simpl; auto. destruct (am_find ncmp from (master s)); simpl; auto.
    destruct (check_untyped t k from); simpl; auto. destruct (bytes_eqb from to); simpl; auto.
    destruct (tt_get_untyped (master s) to k) as [[e|]|[d|]]; simpl; auto.
  - destruct (is_open s nm); simpl; auto. destruct (tt_get_untyped (master s) nm k) as [[e|]|[d|]]; simpl; auto.
  - destruct (opened s); simpl; auto.
  - destruct (tt_get_typed (committed s) nm k K V) as [[e|]|[d|]]; simpl; auto.
  - destruct (tt_get_untyped (committed s) nm k) as [[e|]|[d|]]; simpl; auto.
Qed.

Theorem abort_restores_thm s : opened s = [] ->
  abs_state (fst (model_step CAbort s)) = {| sp_cur := committed s; sp_open := []; sp_committed := committed s |}.
Proof.
  intros H. simpl. rewrite H. unfold abs_state; simpl. f_equal. apply map_same. intros [x d]. reflexivity.
Qed.
