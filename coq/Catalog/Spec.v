(* C17 specification: the catalog is ONE map  name |-> definition (kind, key type, value type, widths,
   contents, length)  that every operation of the write transaction updates directly, plus the set of names
   currently open; the committed map changes only at commit, atomically; abort restores it.
   There are no staged roots and no per-handle copies here: a write through a handle is a write to the map.
   Definitions only. *)
From RV Require Import Base.Bytes Gen.Consts Multimap.Spec Catalog.Model.
Open Scope N_scope.

Record spstate := {
  sp_cur : catalog;                       (* what this write transaction sees and will commit *)
  sp_open : list (name * kind);           (* names currently open (with the kind they were opened as) *)
  sp_committed : catalog }.               (* what read transactions see *)

Definition sp_init : spstate := {| sp_cur := []; sp_open := []; sp_committed := [] |}.

Definition sp_is_open (s : spstate) (nm : name) : bool :=
  match am_find ncmp nm (sp_open s) with Some _ => true | None => false end.

Definition sp_with_handle (s : spstate) (nm : name) (f : kind -> contents -> contents) : spstate * cres :=
  match am_find ncmp nm (sp_open s), am_find ncmp nm (sp_cur s) with
  | Some k, Some d =>
      let c' := f k (d_root d) in
      ({| sp_cur := am_put ncmp nm (set_header d c' (c_len c')) (sp_cur s); sp_open := sp_open s;
          sp_committed := sp_committed s |}, ROk)
  | _, _ => (s, RBad)
  end.

Definition spec_step (o : cop) (s : spstate) : spstate * cres :=
  match o with
  | COpen nm k K V =>
      if sp_is_open s nm then (s, RErr (EAlreadyOpen nm))
      else
        match tt_get_typed (sp_cur s) nm k K V with
        | inl (Some e) => (s, RErr e)
        | inl None => (s, RBad)
        | inr (Some _) =>
            ({| sp_cur := sp_cur s; sp_open := am_put ncmp nm k (sp_open s); sp_committed := sp_committed s |}, ROk)
        | inr None =>
            ({| sp_cur := am_put ncmp nm (new_def k K V) (sp_cur s); sp_open := am_put ncmp nm k (sp_open s);
                sp_committed := sp_committed s |}, ROk)
        end
  | CClose nm =>
      if sp_is_open s nm
      then ({| sp_cur := sp_cur s; sp_open := am_del ncmp nm (sp_open s); sp_committed := sp_committed s |}, ROk)
      else (s, RBad)
  | CPut nm key value => sp_with_handle s nm (fun k c => c_put k key value c)
  | CDel nm key value => sp_with_handle s nm (fun k c => c_del k key value c)
  | CRead nm =>
      match am_find ncmp nm (sp_open s), am_find ncmp nm (sp_cur s) with
      | Some _, Some d => (s, RContents (d_root d) (d_len d))
      | _, _ => (s, RBad)
      end
  | CRename k from to =>
      if sp_is_open s from then (s, RErr (EAlreadyOpen from))
      else
        match am_find ncmp from (sp_cur s) with
        | None => (s, RErr (EDoesNotExist from))
        | Some d =>
            match check_untyped d k from with
            | Some e => (s, RErr e)
            | None =>
                if bytes_eqb from to then (s, ROk)
                else
                  match tt_get_untyped (sp_cur s) to k with
                  | inl (Some e) => (s, RErr e)
                  | inl None => (s, RBad)
                  | inr (Some _) => (s, RErr (EExists to))
                  | inr None =>
                      ({| sp_cur := am_put ncmp to d (am_del ncmp from (sp_cur s)); sp_open := sp_open s;
                          sp_committed := sp_committed s |}, ROk)
                  end
            end
        end
  | CDelete k nm =>
      if sp_is_open s nm then (s, RErr (EAlreadyOpen nm))
      else
        match tt_get_untyped (sp_cur s) nm k with
        | inl (Some e) => (s, RErr e)
        | inl None => (s, RBad)
        | inr None => (s, RBool false)
        | inr (Some _) =>
            ({| sp_cur := am_del ncmp nm (sp_cur s); sp_open := sp_open s; sp_committed := sp_committed s |}, RBool true)
        end
  | CList k => (s, RNames (names_of_kind k (sp_cur s)))
  | CCommit =>
      match sp_open s with
      | [] => ({| sp_cur := sp_cur s; sp_open := []; sp_committed := sp_cur s |}, ROk)
      | _ => (s, RBad)
      end
  | CAbort =>
      match sp_open s with
      | [] => ({| sp_cur := sp_committed s; sp_open := []; sp_committed := sp_committed s |}, ROk)
      | _ => (s, RBad)
      end
  | CROpen nm k K V =>
      match tt_get_typed (sp_committed s) nm k K V with
      | inl (Some e) => (s, RErr e)
      | inl None => (s, RBad)
      | inr None => (s, RErr (EDoesNotExist nm))
      | inr (Some d) => (s, RContents (d_root d) (d_len d))
      end
  | CROpenUntyped nm k =>
      match tt_get_untyped (sp_committed s) nm k with
      | inl (Some e) => (s, RErr e)
      | inl None => (s, RBad)
      | inr None => (s, RErr (EDoesNotExist nm))
      | inr (Some d) => (s, RContents (d_root d) (d_len d))
      end
  | CRList k => (s, RNames (names_of_kind k (sp_committed s)))
  end.

Fixpoint spec_run (ops : list cop) (s : spstate) : spstate * list cres :=
  match ops with
  | [] => (s, [])
  | o :: r => let (s', x) := spec_step o s in let (s'', xs) := spec_run r s' in (s'', x :: xs)
  end.

(* ------------------------------------------------------------------ abstraction model -> spec *)
(* the definition of nm as the transaction sees it: the live handle wins, else the staged root, else the stored one *)
Definition eff (s : cstate) (nm : name) (d : tdef) : tdef :=
  match am_find ncmp nm (opened s) with
  | Some (_, (c, l)) => set_header d c l
  | None => overlay_pending s nm d
  end.

Definition abs_state (s : cstate) : spstate :=
  {| sp_cur := map (fun e => (fst e, eff s (fst e) (snd e))) (master s);
     sp_open := map (fun e => (fst e, fst (snd e))) (opened s);
     sp_committed := committed s |}.

(* invariant of the model state (the comment on pending_table_updates in table_tree.rs states the third one) *)
Definition cinv (s : cstate) : Prop :=
  sorted ncmp (map fst (master s)) /\ sorted ncmp (map fst (pending s)) /\ sorted ncmp (map fst (opened s)) /\
  sorted ncmp (map fst (committed s)) /\
  (forall nm, am_find ncmp nm (pending s) <> None -> am_find ncmp nm (master s) <> None) /\
  (forall nm, am_find ncmp nm (opened s) <> None -> am_find ncmp nm (master s) <> None) /\
  (forall nm, am_find ncmp nm (opened s) <> None -> am_find ncmp nm (pending s) = None).
