(* C13 model: compaction = relocation of pages by a renaming map, plus the guards of Database::compact.
   Definitions only (proofs in ModelP.v).

   A tree of pages (master table -> table roots -> branch / leaf pages -> multimap subtrees) is a rose
   tree whose nodes carry their page id, their own key/value payload and their child pages.
   [reloc] mirrors UntypedBtreeMut::relocate_helper (btree.rs) and relocate_subtrees (multimap_btree.rs):
   a page that the map names is copied to its target with the child pointers rewritten to wherever the
   children went, and the old page is freed; a page the map does NOT name is left alone AND NOT
   DESCENDED INTO (both functions return early) -- which is why compact_pages (transactions.rs) inserts
   every ancestor of a moved page into the map. *)
From Coq Require Import List NArith Bool.
Import ListNotations.
Open Scope N_scope.

Inductive ptree := PNode (id : N) (payload : list (N * N)) (children : list ptree).

Definition root_id (t : ptree) : N := match t with PNode i _ _ => i end.

Fixpoint ids (t : ptree) : list N :=
  match t with PNode i _ cs => i :: flat_map ids cs end.

(* logical contents: payloads in document order *)
Fixpoint abs (t : ptree) : list (N * N) :=
  match t with PNode _ p cs => p ++ flat_map abs cs end.

(* the shape without page ids: what a reader sees apart from where pages live *)
Inductive shape := SNode (payload : list (N * N)) (children : list shape).
Fixpoint shape_of (t : ptree) : shape :=
  match t with PNode _ p cs => SNode p (map shape_of cs) end.

Definition rmap := list (N * N).
Definition mget (m : rmap) (x : N) : option N :=
  match find (fun p => N.eqb (fst p) x) m with Some p => Some (snd p) | None => None end.
Definition in_dom (m : rmap) (x : N) : bool := match mget m x with Some _ => true | None => false end.

Fixpoint reloc (m : rmap) (t : ptree) : ptree :=
  match t with
  | PNode i p cs =>
    match mget m i with
    | Some i' => PNode i' p (map (reloc m) cs)
    | None => t
    end
  end.

(* pages freed (old copies) and pages written (targets) by the relocation *)
Fixpoint freed (m : rmap) (t : ptree) : list N :=
  match t with
  | PNode i _ cs => match mget m i with Some _ => i :: flat_map (freed m) cs | None => [] end
  end.
Fixpoint written (m : rmap) (t : ptree) : list N :=
  match t with
  | PNode i _ cs => match mget m i with Some i' => i' :: flat_map (written m) cs | None => [] end
  end.

(* every page of t that the map names *)
Definition named (m : rmap) (t : ptree) : list N := filter (in_dom m) (ids t).

(* the map is closed under ancestors within t: a named page below an unnamed one does not occur *)
Fixpoint closed_anc (m : rmap) (t : ptree) : bool :=
  match t with
  | PNode i _ cs =>
    if in_dom m i then forallb (closed_anc m) cs
    else forallb (fun c => negb (existsb (in_dom m) (ids c))) cs
  end.

Definition memN (x : N) (l : list N) : bool := existsb (N.eqb x) l.
Fixpoint nodupb (l : list N) : bool :=
  match l with [] => true | x :: r => negb (memN x r) && nodupb r end.
Definition disjointb (a b : list N) : bool := forallb (fun x => negb (memN x b)) a.

Definition wf (t : ptree) : bool := nodupb (ids t).
Definition targets (m : rmap) : list N := map snd m.
(* what compact_pages guarantees about its map: targets are distinct pages that were free *)
Definition map_ok (m : rmap) (t : ptree) : bool :=
  nodupb (map fst m) && nodupb (targets m) && disjointb (targets m) (ids t).

(* ---- guards of Database::compact (db.rs), checked before begin_write and again inside the transaction *)
Record tracker := mkTracker { persistent_sp : N; ephemeral_sp : N; user_reads : N }.
Inductive cerr := EPersistent | EEphemeral | EInProgress.
Definition guard (k : tracker) : option cerr :=
  if negb (N.eqb (persistent_sp k) 0) then Some EPersistent
  else if negb (N.eqb (ephemeral_sp k) 0) then Some EEphemeral
  else if negb (N.eqb (user_reads k) 0) then Some EInProgress
  else None.

(* one compact() call on (tracker, tree): refuses, or relocates with the map the allocator produced *)
Definition compact (k : tracker) (m : rmap) (t : ptree) : (tracker * ptree) * option cerr :=
  match guard k with
  | Some e => ((k, t), Some e)
  | None => ((k, reloc m t), None)
  end.

