(* C13 model, part 3: the pass loop of Database::compact (db.rs) / WriteTransaction::compact_pages
   (transactions.rs) at the level of page POSITIONS.  Definitions only (proofs in PassP.v).

   State: a forest of page trees (Model.v: ptree; one tree per table, multimap subtrees hanging below the leaf
   that holds their root, the master trees as trees of their own); the id of a page is its position in the file
   in order-0 units (PageNumber's ordering = starting address).  All pages are order 0 in this model; space is
   unbounded upwards (allocate_lowest grows the file when nothing is free).

   One pass (compact_pages):
     * highest_index_pages: every page with its path (ancestors, root first), the [cap] highest positions
       (MAX_PAGES_PER_COMPACTION), visited from the highest downwards;
     * a page already in the relocation map (as somebody's ancestor) is skipped; otherwise allocate_lowest
       probes the lowest free position t (old copies stay allocated during the pass, earlier targets are
       taken); if t < p the page is mapped to t and EVERY ancestor not yet in the map is mapped to the lowest
       free position WHATEVER that is (the code does not compare for parents); if not, the probe is freed and
       the pass stops looking;
     * progress <=> the map is not empty; relocate_tables applies the map (Model.reloc), the commit and the
       drain free the old copies.
   Database::compact repeats passes until one reports no progress (there is no numeric bound on the number of
   passes in the code; the only constant is MAX_PAGES_PER_COMPACTION per pass).

   Outside this model: page orders > 0 and buddy alignment, regions and their headers, the pages the commits
   themselves allocate and free in the system tree (freed-page tables, allocator state) and in the master tree
   (table roots are re-inserted copy-on-write), growth of the file by whole regions and try_shrink. *)
From Coq Require Import List NArith Bool.
From RV Require Import Compact.Model.
Import ListNotations.
Open Scope N_scope.

(* ------------------------------------------------------------------ forests *)
Definition forest := list ptree.
Definition fids (f : forest) : list N := flat_map ids f.
Definition fabs (f : forest) : list (N * N) := flat_map abs f.
Definition fshape (f : forest) : list shape := map shape_of f.
Definition freloc (m : rmap) (f : forest) : forest := map (reloc m) f.
Definition wfF (f : forest) : bool := nodupb (fids f).

(* ------------------------------------------------------------------ page paths (PagePath) *)
Definition pentry := (N * list N)%type.          (* page, its ancestors root first *)
Fixpoint paths_from (anc : list N) (t : ptree) : list pentry :=
  match t with PNode i _ cs => (i, anc) :: flat_map (paths_from (anc ++ [i])) cs end.
Definition fpaths (f : forest) : list pentry := flat_map (paths_from []) f.
Definition pkeys (ps : list pentry) : list N := map fst ps.
Definition depth_of (e : pentry) : nat := length (snd e).

(* ------------------------------------------------------------------ allocate_lowest *)
Fixpoint lf_go (fuel : nat) (occ : list N) (n : N) : N :=
  match fuel with
  | O => n
  | S k => if memN n occ then lf_go k occ (n + 1) else n
  end.
Definition lowest_free (occ : list N) : N := lf_go (length occ) occ 0.

(* ------------------------------------------------------------------ one pass *)
Fixpoint add_parents (occ : list N) (m : rmap) (anc : list N) : rmap :=
  match anc with
  | [] => m
  | a :: r => if in_dom m a then add_parents occ m r
              else add_parents occ ((a, lowest_free (occ ++ targets m)) :: m) r
  end.

Fixpoint build (occ : list N) (m : rmap) (cands : list pentry) : rmap :=
  match cands with
  | [] => m
  | e :: rest =>
    if in_dom m (fst e) then build occ m rest
    else let t := lowest_free (occ ++ targets m) in
      if t <? fst e then build occ (add_parents occ ((fst e, t) :: m) (snd e)) rest
      else m
  end.

Fixpoint insert_desc (x : pentry) (l : list pentry) : list pentry :=
  match l with
  | [] => [x]
  | y :: r => if fst y <=? fst x then x :: l else y :: insert_desc x r
  end.
Definition sort_desc (l : list pentry) : list pentry := fold_right insert_desc [] l.

Definition candidates (cap : nat) (ps : list pentry) : list pentry := firstn cap (sort_desc ps).
Definition pass_map (cap : nat) (f : forest) : rmap := build (fids f) [] (candidates cap (fpaths f)).
Definition is_nil {A} (l : list A) : bool := match l with [] => true | _ => false end.
Definition pass (cap : nat) (f : forest) : forest * bool :=
  let m := pass_map cap f in (freloc m f, negb (is_nil m)).

(* Database::compact: passes until one reports no progress.
   result: final forest, number of passes that made progress, whether the closing pass was reached *)
Fixpoint compact_loop (fuel : nat) (cap : nat) (f : forest) : forest * nat * bool :=
  match fuel with
  | O => (f, O, false)
  | S k => let (f', pr) := pass cap f in
           if pr then let '(g, n, fin) := compact_loop k cap f' in (g, S n, fin)
           else (f', O, true)
  end.

(* ------------------------------------------------------------------ the flat view and the measure *)
Definition ren (m : rmap) (x : N) : N := match mget m x with Some y => y | None => x end.
Definition ren_entry (m : rmap) (e : pentry) : pentry := (ren m (fst e), map (ren m) (snd e)).
Definition ren_paths (m : rmap) (ps : list pentry) : list pentry := map (ren_entry m) ps.

Definition sumN (l : list N) : N := fold_right N.add 0 l.
Definition maxN (l : list N) : N := fold_right N.max 0 l.
Definition at_depth (d : nat) (ps : list pentry) : list pentry := filter (fun e => Nat.eqb (depth_of e) d) ps.
Definition lsum (d : nat) (ps : list pentry) : N := sumN (pkeys (at_depth d ps)).
Definition pheight (ps : list pentry) : nat := S (fold_right Nat.max O (map depth_of ps)).
(* sums of positions per depth, DEEPEST level first: compared lexicographically *)
Definition msr (ps : list pentry) : list N := map (fun d => lsum d ps) (rev (seq 0 (pheight ps))).

Inductive lexlt : list N -> list N -> Prop :=
| lex_hd : forall a b l l', a < b -> length l = length l' -> lexlt (a :: l) (b :: l')
| lex_tl : forall a l l', lexlt l l' -> lexlt (a :: l) (a :: l').

(* executable comparison (for the harness) *)
Fixpoint lexltb (l l' : list N) : bool :=
  match l, l' with
  | a :: r, b :: r' => if a <? b then Nat.eqb (length r) (length r') else if a =? b then lexltb r r' else false
  | _, _ => false
  end.

(* ------------------------------------------------------------------ the checker of an OBSERVED pass
   input: the page paths before the pass and the relocation that was observed (old position -> new position) *)
Definition paths_wfb (ps : list pentry) : bool :=
  nodupb (pkeys ps)
  && forallb (fun e => forallb (fun k => existsb (fun e' => N.eqb (fst e') k && Nat.ltb (depth_of e') (depth_of e)) ps) (snd e)) ps.
(* every key is a page, keys distinct, targets distinct and free before the pass *)
Definition map_okP (m : rmap) (ps : list pentry) : bool :=
  nodupb (map fst m) && nodupb (targets m) && disjointb (targets m) (pkeys ps)
  && forallb (fun kv => memN (fst kv) (pkeys ps)) m.
(* a moved page's ancestors all move *)
Definition closedP (m : rmap) (ps : list pentry) : bool :=
  forallb (fun e => negb (in_dom m (fst e)) || forallb (in_dom m) (snd e)) ps.
(* a moved page goes DOWN unless it moved as the ancestor of another moved page *)
Definition has_named_desc (m : rmap) (ps : list pentry) (k : N) : bool :=
  existsb (fun e => memN k (snd e) && in_dom m (fst e)) ps.
Definition down_okP (m : rmap) (ps : list pentry) : bool :=
  forallb (fun kv => (snd kv <? fst kv) || has_named_desc m ps (fst kv)) m.
Definition pass_okP (m : rmap) (ps : list pentry) : bool :=
  paths_wfb ps && map_okP m ps && closedP m ps && down_okP m ps.

(* nothing is free below the highest page *)
Definition packedb (l : list N) : bool := N.leb (maxN l) (lowest_free l).
