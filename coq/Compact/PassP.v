(* Proofs about the pass loop model (Pass.v). *)
From Coq Require Import List NArith Bool Lia Arith Wellfounded Permutation.
From RV Require Import Compact.Model Compact.ModelP Compact.Pass.
Import ListNotations.
Open Scope N_scope.

(* ================================================================== S1. allocate_lowest *)
Lemma lf_go_spec : forall fuel occ n, (forall x, x < n -> In x occ) ->
  let r := lf_go fuel occ n in
  n <= r /\ r <= n + N.of_nat fuel /\ (forall x, x < r -> In x occ) /\ (~ In r occ \/ r = n + N.of_nat fuel).
Proof.
  induction fuel as [|k IH]; intros occ n H; simpl.
  - repeat split; try lia; auto.
  - destruct (memN n occ) eqn:E.
    + apply memN_In in E.
      assert (forall x, x < n + 1 -> In x occ) as H'.
      { intros x Hx. destruct (N.eq_dec x n) as [->|Hn]; [exact E|]. apply H. lia. }
      specialize (IH occ (n + 1) H'). simpl in IH. destruct IH as (A & B & C & D).
      repeat split; try lia; auto. destruct D as [D|D]; [left; exact D|right; lia].
    + repeat split; try lia; auto. left. intros X. apply memN_In in X. congruence.
Qed.

Lemma pigeon : forall occ : list N, ~ (forall x, x < N.of_nat (S (length occ)) -> In x occ).
Proof.
  intros occ H.
  set (s := map N.of_nat (seq 0 (S (length occ)))).
  assert (NoDup s) as ND.
  { apply FinFun.Injective_map_NoDup; [intros a b; apply Nat2N.inj|apply seq_NoDup]. }
  assert (incl s occ) as I.
  { intros x Hx. unfold s in Hx. apply in_map_iff in Hx. destruct Hx as (k & <- & Hk).
    apply in_seq in Hk. apply H. lia. }
  pose proof (NoDup_incl_length ND I) as L. unfold s in L. rewrite map_length, seq_length in L. lia.
Qed.

Lemma lowest_free_spec : forall occ,
  ~ In (lowest_free occ) occ /\ (forall x, x < lowest_free occ -> In x occ)
  /\ lowest_free occ <= N.of_nat (length occ).
Proof.
  intros occ. unfold lowest_free.
  destruct (lf_go_spec (length occ) occ 0) as (A & B & C & D); [intros x Hx; lia|].
  simpl in *. repeat split; auto; try lia.
  destruct D as [D|D]; [exact D|]. intros X.
  apply (pigeon occ). intros x Hx.
  destruct (N.eq_dec x (lf_go (length occ) occ 0)) as [->|Hn]; [exact X|]. apply C. lia.
Qed.

(* ================================================================== small facts about maps *)
Lemma in_dom_In : forall (m : rmap) x, in_dom m x = true <-> In x (map fst m).
Proof.
  intros m x. unfold in_dom, mget. induction m as [|[k v] m IH]; simpl.
  - split; [discriminate|tauto].
  - destruct (N.eqb k x) eqn:E; simpl.
    + apply N.eqb_eq in E. subst. split; auto.
    + apply N.eqb_neq in E. rewrite IH. split; [auto|intros [X|X]; [congruence|exact X]].
Qed.

Lemma in_dom_false : forall (m : rmap) x, in_dom m x = false <-> ~ In x (map fst m).
Proof.
  intros m x. rewrite <- in_dom_In. destruct (in_dom m x); split; intros; try congruence; try tauto.
Qed.

Lemma mget_some_dom : forall m x y, mget m x = Some y -> in_dom m x = true.
Proof. intros m x y H. unfold in_dom. rewrite H. reflexivity. Qed.

Lemma mget_In_nodup : forall (m : rmap) x y, NoDup (map fst m) -> In (x, y) m -> mget m x = Some y.
Proof.
  intros m x y. unfold mget. induction m as [|[k v] m IH]; simpl; intros ND H; [tauto|].
  inversion ND as [|? ? N1 N2]; subst.
  destruct H as [H|H].
  - inversion H; subst. rewrite N.eqb_refl. reflexivity.
  - destruct (N.eqb k x) eqn:E.
    + apply N.eqb_eq in E. subst. exfalso. apply N1. apply in_map_iff. exists (x, y). split; auto.
    + apply IH; auto.
Qed.

Lemma in_dom_cons : forall (m : rmap) k v x, in_dom ((k, v) :: m) x = true <-> (k = x \/ in_dom m x = true).
Proof. intros. rewrite !in_dom_In. simpl. tauto. Qed.

Lemma ren_rename : forall m x, ren m x = rename m x.
Proof. reflexivity. Qed.

Lemma ren_unnamed : forall m x, in_dom m x = false -> ren m x = x.
Proof. intros m x H. unfold ren. unfold in_dom in H. destruct (mget m x); [discriminate|reflexivity]. Qed.

(* ================================================================== S2. what build guarantees about its map *)
Definition minv (occ : list N) (m : rmap) : Prop :=
  NoDup (map fst m) /\ NoDup (targets m) /\ (forall t, In t (targets m) -> ~ In t occ).

Lemma minv_nil : forall occ, minv occ [].
Proof. intros occ. repeat split; simpl; try constructor; tauto. Qed.

Lemma minv_add : forall occ m k, minv occ m -> in_dom m k = false ->
  minv occ ((k, lowest_free (occ ++ targets m)) :: m).
Proof.
  intros occ m k (A & B & C) D. apply in_dom_false in D.
  destruct (lowest_free_spec (occ ++ targets m)) as (F & _ & _).
  unfold minv, targets in *. simpl. repeat split.
  - constructor; auto.
  - constructor; auto. intros X. apply F. apply in_or_app. right. exact X.
  - intros t [<-|Ht]; [intros X; apply F; apply in_or_app; left; exact X|apply C; exact Ht].
Qed.

(* the map only grows, and its domain after add_parents is what it was plus the ancestors *)
Lemma add_parents_dom : forall occ anc m x,
  in_dom (add_parents occ m anc) x = true <-> (in_dom m x = true \/ In x anc).
Proof.
  intros occ anc. induction anc as [|a r IH]; intros m x; simpl; [tauto|].
  destruct (in_dom m a) eqn:E.
  - rewrite IH. split; [tauto|]. intros [H|[<-|H]]; auto.
  - rewrite IH, in_dom_cons. split; [tauto|]. intros [H|[<-|H]]; auto.
Qed.

Lemma add_parents_minv : forall occ anc m, minv occ m -> minv occ (add_parents occ m anc).
Proof.
  intros occ anc. induction anc as [|a r IH]; intros m H; simpl; [exact H|].
  destruct (in_dom m a) eqn:E; [apply IH; exact H|]. apply IH. apply minv_add; auto.
Qed.

Lemma add_parents_incl : forall occ anc m, incl m (add_parents occ m anc).
Proof.
  intros occ anc. induction anc as [|a r IH]; intros m; simpl; [apply incl_refl|].
  destruct (in_dom m a); [apply IH|]. eapply incl_tran; [|apply IH]. apply incl_tl, incl_refl.
Qed.

Lemma build_minv : forall occ cands m, minv occ m -> minv occ (build occ m cands).
Proof.
  intros occ cands. induction cands as [|e rest IH]; intros m H; simpl; [exact H|].
  destruct (in_dom m (fst e)) eqn:E; [apply IH; exact H|].
  destruct (lowest_free (occ ++ targets m) <? fst e); [|exact H].
  apply IH. apply add_parents_minv. apply minv_add; auto.
Qed.

Lemma build_incl : forall occ cands m, incl m (build occ m cands).
Proof.
  intros occ cands. induction cands as [|e rest IH]; intros m; simpl; [apply incl_refl|].
  destruct (in_dom m (fst e)); [apply IH|].
  destruct (lowest_free (occ ++ targets m) <? fst e); [|apply incl_refl].
  eapply incl_tran; [|apply IH]. eapply incl_tran; [|apply add_parents_incl]. apply incl_tl, incl_refl.
Qed.

Lemma in_dom_incl : forall (m m' : rmap) x, incl m m' -> in_dom m x = true -> in_dom m' x = true.
Proof.
  intros m m' x I H. apply in_dom_In in H. apply in_dom_In. apply in_map_iff in H.
  destruct H as ((k, v) & <- & H). apply in_map_iff. exists (k, v). split; auto.
Qed.

(* ---- invariants that speak about the page paths [ps] the candidates come from *)
(* paths as visit_all_pages produces them: distinct pages; every ancestor is a page whose own path is
   shorter and contained in the descendant's *)
Definition paths_wf0 (ps : list pentry) : Prop :=
  NoDup (pkeys ps)
  /\ forall e, In e ps -> forall a, In a (snd e) ->
       exists e', In e' ps /\ fst e' = a /\ (depth_of e' < depth_of e)%nat.

Definition paths_wf (ps : list pentry) : Prop :=
  NoDup (pkeys ps)
  /\ forall e, In e ps -> forall a, In a (snd e) ->
       exists e', In e' ps /\ fst e' = a /\ (depth_of e' < depth_of e)%nat /\ incl (snd e') (snd e).

Lemma entry_unique : forall (ps : list pentry) e e', NoDup (pkeys ps) -> In e ps -> In e' ps -> fst e = fst e' -> e = e'.
Proof.
  intros ps e e'. unfold pkeys. induction ps as [|x ps IH]; simpl; intros ND H H' E; [tauto|].
  inversion ND as [|? ? N1 N2]; subst.
  destruct H as [->|H]; destruct H' as [->|H']; auto.
  - exfalso. apply N1. rewrite E. apply in_map. exact H'.
  - exfalso. apply N1. rewrite <- E. apply in_map. exact H.
Qed.

(* a named page's ancestors are all named *)
Definition closedI (ps : list pentry) (m : rmap) : Prop :=
  forall e, In e ps -> in_dom m (fst e) = true -> forall a, In a (snd e) -> in_dom m a = true.
(* a named page goes down, or is an ancestor of a named page *)
Definition downI (ps : list pentry) (m : rmap) : Prop :=
  forall k v, In (k, v) m -> v < k \/ exists e, In e ps /\ In k (snd e) /\ in_dom m (fst e) = true.
(* every named page is a page *)
Definition keysI (ps : list pentry) (m : rmap) : Prop := forall k v, In (k, v) m -> In k (pkeys ps).

Definition binv (ps : list pentry) (m : rmap) : Prop := closedI ps m /\ downI ps m /\ keysI ps m.

Lemma binv_nil : forall ps, binv ps [].
Proof.
  intros ps. repeat split.
  - intros e _ H. discriminate.
  - intros k v [].
  - intros k v [].
Qed.

Lemma downI_mono : forall ps (m m' : rmap), incl m m' ->
  (forall k v, In (k, v) m' -> In (k, v) m \/ v < k \/ exists e, In e ps /\ In k (snd e) /\ in_dom m' (fst e) = true) ->
  downI ps m -> downI ps m'.
Proof.
  intros ps m m' I N D k v H. destruct (N k v H) as [X|X]; [|exact X].
  destruct (D k v X) as [Y|(e & E1 & E2 & E3)]; [left; exact Y|].
  right. exists e. repeat split; auto. eapply in_dom_incl; eauto.
Qed.

(* adding a page that goes down together with all its ancestors *)
Lemma add_parents_entries : forall occ anc m k v, In (k, v) (add_parents occ m anc) -> In (k, v) m \/ In k anc.
Proof.
  intros occ anc. induction anc as [|a r IH]; intros m k v H; simpl in H; [auto|].
  destruct (in_dom m a).
  - destruct (IH _ _ _ H); [left; auto|right; right; auto].
  - destruct (IH _ _ _ H) as [[X|X]|X]; [inversion X; subst; right; left; reflexivity|left; exact X|right; right; exact X].
Qed.

Lemma binv_step : forall ps occ m e t, paths_wf ps -> In e ps -> binv ps m -> t < fst e ->
  binv ps (add_parents occ ((fst e, t) :: m) (snd e)).
Proof.
  intros ps occ m e t (ND & AN) He (C & D & K) Ht.
  set (m' := add_parents occ ((fst e, t) :: m) (snd e)).
  assert (forall x, in_dom m' x = true <-> (fst e = x \/ in_dom m x = true \/ In x (snd e))) as Dom.
  { intros x. unfold m'. rewrite add_parents_dom, in_dom_cons. tauto. }
  assert (incl m m') as I.
  { unfold m'. eapply incl_tran; [|apply add_parents_incl]. apply incl_tl, incl_refl. }
  repeat split.
  - (* closed *) intros e0 H0 N0 a Ha. apply Dom. apply Dom in N0. destruct N0 as [N0|[N0|N0]].
    + assert (e0 = e) by (apply (entry_unique ps); auto). subst e0. right; right; exact Ha.
    + right; left. eapply C; eauto.
    + destruct (AN e He _ N0) as (e' & E1 & E2 & _ & E4).
      assert (e0 = e') by (apply (entry_unique ps); auto; congruence). subst e0.
      right; right. apply E4. exact Ha.
  - (* down *) intros k v H. unfold m' in H. apply add_parents_entries in H. destruct H as [[H|H]|H].
    + inversion H; subst. left. exact Ht.
    + destruct (D k v H) as [X|(e1 & X1 & X2 & X3)]; [left; exact X|].
      right. exists e1. repeat split; auto. eapply in_dom_incl; eauto.
    + right. exists e. repeat split; auto. apply Dom. left. reflexivity.
  - (* keys *) intros k v H. unfold m' in H. apply add_parents_entries in H. destruct H as [[H|H]|H].
    + inversion H; subst. apply in_map. exact He.
    + eapply K; eauto.
    + destruct (AN e He _ H) as (e' & E1 & E2 & _). rewrite <- E2. apply in_map. exact E1.
Qed.

Lemma build_binv : forall ps occ cands m, paths_wf ps -> incl cands ps -> binv ps m -> binv ps (build occ m cands).
Proof.
  intros ps occ cands. induction cands as [|e rest IH]; intros m W I B; simpl; [exact B|].
  assert (incl rest ps) as I' by (intros x Hx; apply I; right; exact Hx).
  destruct (in_dom m (fst e)) eqn:E; [apply IH; auto|].
  destruct (lowest_free (occ ++ targets m) <? fst e) eqn:L; [|exact B].
  apply IH; auto. apply binv_step; auto; [apply I; left; reflexivity|apply N.ltb_lt; exact L].
Qed.

(* ================================================================== S3. candidates *)
Lemma insert_desc_In : forall x l y, In y (insert_desc x l) <-> (y = x \/ In y l).
Proof.
  intros x l. induction l as [|z r IH]; intros y; simpl.
  - split; [intros [H|[]]; auto|intros [H|[]]; auto].
  - destruct (fst z <=? fst x); simpl.
    + split; [intros [H|[H|H]]; auto|intros [H|[H|H]]; auto].
    + rewrite IH. split; [intros [H|[H|H]]; auto|intros [H|[H|H]]; auto].
Qed.

Lemma sort_desc_In : forall l y, In y (sort_desc l) <-> In y l.
Proof.
  induction l as [|x l IH]; intros y; simpl; [tauto|]. rewrite insert_desc_In, IH. split; [intros [H|H]; auto|intros [H|H]; auto].
Qed.

Definition head_max (l : list pentry) : Prop :=
  match l with [] => True | e :: _ => forall x, In x l -> fst x <= fst e end.

Lemma insert_desc_head : forall x l, head_max l -> head_max (insert_desc x l).
Proof.
  intros x l H. destruct l as [|z r]; simpl.
  - intros y [<-|[]]. lia.
  - destruct (fst z <=? fst x) eqn:E.
    + apply N.leb_le in E. intros y [<-|Hy]; [lia|]. specialize (H y Hy). lia.
    + apply N.leb_gt in E. intros y [<-|Hy]; [lia|]. apply insert_desc_In in Hy. destruct Hy as [->|Hy]; [lia|].
      apply H. right. exact Hy.
Qed.

Lemma sort_desc_head : forall l, head_max (sort_desc l).
Proof. induction l as [|x l IH]; simpl; [exact I|]. apply insert_desc_head. exact IH. Qed.

Lemma firstn_In : forall {A} n (l : list A) x, In x (firstn n l) -> In x l.
Proof.
  intros A n. induction n as [|n IH]; intros l x H; simpl in H; [tauto|].
  destruct l as [|y l]; [tauto|]. destruct H as [H|H]; [left; exact H|right; apply IH; exact H].
Qed.

Lemma candidates_incl : forall cap ps, incl (candidates cap ps) ps.
Proof.
  intros cap ps x H. unfold candidates in H. apply sort_desc_In. eapply firstn_In; eauto.
Qed.

(* ================================================================== S4. the paths of a forest *)
Lemma paths_from_keys : forall t A, pkeys (paths_from A t) = ids t.
Proof.
  induction t as [i p cs IH] using ptree_ind'. intros A. unfold pkeys in *. simpl. f_equal.
  generalize (A ++ [i]). induction IH as [|c cs Hc _ IHcs]; intros B; simpl; [reflexivity|].
  rewrite map_app, Hc, IHcs. reflexivity.
Qed.

Lemma fpaths_keys : forall f, pkeys (fpaths f) = fids f.
Proof.
  induction f as [|t f IH]; [reflexivity|]. unfold pkeys, fpaths, fids in *. simpl.
  rewrite map_app. f_equal; [apply paths_from_keys|exact IH].
Qed.

(* every entry below [t] carries the prefix it was started with *)
Lemma paths_from_prefix : forall t A e, In e (paths_from A t) -> exists B, snd e = A ++ B.
Proof.
  induction t as [i p cs IH] using ptree_ind'. intros A e H. simpl in H. destruct H as [<-|H].
  - exists []. simpl. rewrite app_nil_r. reflexivity.
  - apply in_flat_map in H. destruct H as (c & Hc & He).
    rewrite Forall_forall in IH. destruct (IH c Hc _ _ He) as (B & EB).
    exists ([i] ++ B). rewrite EB, app_assoc. reflexivity.
Qed.

Lemma paths_from_anc : forall t A e, In e (paths_from A t) -> forall a, In a (snd e) ->
  In a A \/ exists e', In e' (paths_from A t) /\ fst e' = a /\ (depth_of e' < depth_of e)%nat /\ incl (snd e') (snd e).
Proof.
  induction t as [i p cs IH] using ptree_ind'. intros A e H a Ha. simpl in H. destruct H as [<-|H].
  - left. exact Ha.
  - apply in_flat_map in H. destruct H as (c & Hc & He).
    rewrite Forall_forall in IH. destruct (IH c Hc _ _ He a Ha) as [X|(e' & E1 & E2 & E3 & E4)].
    + apply in_app_or in X. destruct X as [X|[<-|[]]]; [left; exact X|].
      right. exists (i, A). destruct (paths_from_prefix c _ _ He) as (B & EB).
      repeat split; simpl; auto.
      * unfold depth_of. simpl. rewrite EB, !app_length. simpl. lia.
      * rewrite EB. intros x Hx. apply in_or_app. left. apply in_or_app. left. exact Hx.
    + right. exists e'. repeat split; auto. simpl. right. apply in_flat_map. exists c. split; auto.
Qed.

Lemma fpaths_anc : forall f e, In e (fpaths f) -> forall a, In a (snd e) ->
  exists e', In e' (fpaths f) /\ fst e' = a /\ (depth_of e' < depth_of e)%nat /\ incl (snd e') (snd e).
Proof.
  intros f e H a Ha. unfold fpaths in *. apply in_flat_map in H. destruct H as (t & Ht & He).
  destruct (paths_from_anc t [] e He a Ha) as [[]|(e' & E1 & E2 & E3 & E4)].
  exists e'. repeat split; auto. apply in_flat_map. exists t. split; auto.
Qed.

Lemma fpaths_wf : forall f, wfF f = true -> paths_wf (fpaths f).
Proof.
  intros f W. split.
  - rewrite fpaths_keys. apply nodupb_NoDup. exact W.
  - apply fpaths_anc.
Qed.

(* ================================================================== S5. the measure on the flat view *)
Lemma depth_ren : forall m e, depth_of (ren_entry m e) = depth_of e.
Proof. intros m e. unfold depth_of, ren_entry. simpl. apply map_length. Qed.

Lemma filter_map_comm : forall {A} (f : A -> bool) (g : A -> A) l,
  (forall x, f (g x) = f x) -> filter f (map g l) = map g (filter f l).
Proof.
  intros A f g l H. induction l as [|x l IH]; simpl; [reflexivity|].
  rewrite H. destruct (f x); simpl; rewrite IH; reflexivity.
Qed.

Lemma at_depth_ren : forall m d ps, at_depth d (ren_paths m ps) = ren_paths m (at_depth d ps).
Proof.
  intros m d ps. unfold at_depth, ren_paths. apply filter_map_comm. intros x. rewrite depth_ren. reflexivity.
Qed.

Lemma pkeys_ren : forall m ps, pkeys (ren_paths m ps) = map (ren m) (pkeys ps).
Proof. intros m ps. unfold pkeys, ren_paths. rewrite !map_map. reflexivity. Qed.

Lemma lsum_ren : forall m d ps, lsum d (ren_paths m ps) = sumN (map (ren m) (pkeys (at_depth d ps))).
Proof. intros m d ps. unfold lsum. rewrite at_depth_ren, pkeys_ren. reflexivity. Qed.

Lemma pheight_ren : forall m ps, pheight (ren_paths m ps) = pheight ps.
Proof.
  intros m ps. unfold pheight, ren_paths. rewrite map_map. f_equal. f_equal.
  apply map_ext. intros e. apply depth_ren.
Qed.

Lemma sumN_map_le : forall (f : N -> N) l, (forall x, In x l -> f x <= x) -> sumN (map f l) <= sumN l.
Proof.
  intros f l. induction l as [|x l IH]; simpl; intros H; [lia|].
  assert (f x <= x) by (apply H; left; reflexivity).
  assert (sumN (map f l) <= sumN l) by (apply IH; intros y Hy; apply H; right; exact Hy). lia.
Qed.

Lemma sumN_map_lt : forall (f : N -> N) l, (forall x, In x l -> f x <= x) -> (exists x, In x l /\ f x < x) ->
  sumN (map f l) < sumN l.
Proof.
  intros f l. induction l as [|x l IH]; simpl; intros H (y & Hy & Hlt); [tauto|].
  assert (f x <= x) by (apply H; left; reflexivity).
  assert (forall z, In z l -> f z <= z) as H' by (intros z Hz; apply H; right; exact Hz).
  pose proof (sumN_map_le f l H'). destruct Hy as [<-|Hy]; [lia|].
  assert (sumN (map f l) < sumN l) by (apply IH; auto; exists y; auto). lia.
Qed.

Lemma max_ge : forall l x, In x l -> (x <= fold_right Nat.max O l)%nat.
Proof. induction l as [|y l IH]; simpl; intros x H; [tauto|]. destruct H as [<-|H]; [lia|]. specialize (IH x H). lia. Qed.

Lemma max_attained : forall l, l <> [] -> In (fold_right Nat.max O l) l.
Proof.
  induction l as [|y l IH]; intros H; [congruence|]. simpl.
  destruct l as [|z l']; [left; simpl; lia|].
  assert (In (fold_right Nat.max O (z :: l')) (z :: l')) as X by (apply IH; discriminate).
  destruct (Nat.max_spec y (fold_right Nat.max O (z :: l'))) as [[_ E]|[_ E]]; rewrite E; [right; exact X|left; reflexivity].
Qed.

Lemma in_at_depth : forall d ps e, In e (at_depth d ps) <-> (In e ps /\ depth_of e = d).
Proof. intros d ps e. unfold at_depth. rewrite filter_In, Nat.eqb_eq. tauto. Qed.

Lemma paths_wf_wf0 : forall ps, paths_wf ps -> paths_wf0 ps.
Proof.
  intros ps (ND & AN). split; [exact ND|]. intros e He a Ha. destruct (AN e He a Ha) as (e' & E1 & E2 & E3 & _).
  exists e'. auto.
Qed.

Lemma flat_decrease : forall ps m, paths_wf0 ps -> downI ps m ->
  (exists e, In e ps /\ in_dom m (fst e) = true) ->
  exists D, (D < pheight ps)%nat /\ lsum D (ren_paths m ps) < lsum D ps
            /\ forall d, (D < d)%nat -> lsum d (ren_paths m ps) = lsum d ps.
Proof.
  intros ps m (ND & AN) DI (e0 & He0 & Ne0).
  set (named := filter (fun e => in_dom m (fst e)) ps).
  set (D := fold_right Nat.max O (map depth_of named)).
  assert (In e0 named) as Hn0 by (apply filter_In; auto).
  assert (forall e, In e ps -> in_dom m (fst e) = true -> (depth_of e <= D)%nat) as Dmax.
  { intros e He Ne. apply max_ge. apply in_map. apply filter_In. auto. }
  assert (exists eD, In eD ps /\ in_dom m (fst eD) = true /\ depth_of eD = D) as (eD & HeD & NeD & DeD).
  { assert (In D (map depth_of named)) as X.
    { apply max_attained. intros X. destruct named; [inversion Hn0|discriminate]. }
    apply in_map_iff in X. destruct X as (e & E1 & E2). apply filter_In in E2. exists e. tauto. }
  (* a named page at the deepest named level goes down *)
  assert (forall e, In e ps -> depth_of e = D -> in_dom m (fst e) = true -> ren m (fst e) < fst e) as Down.
  { intros e He De Ne. unfold ren. unfold in_dom in Ne. destruct (mget m (fst e)) as [v|] eqn:G; [|discriminate].
    destruct (DI _ _ (mget_In _ _ _ G)) as [X|(e1 & X1 & X2 & X3)]; [exact X|].
    exfalso. destruct (AN e1 X1 _ X2) as (e' & E1 & E2 & E3).
    assert (e' = e) by (apply (entry_unique ps); auto). subst e'.
    specialize (Dmax e1 X1 X3). lia. }
  exists D. repeat split.
  - unfold pheight. assert (depth_of eD <= fold_right Nat.max O (map depth_of ps))%nat by (apply max_ge; apply in_map; exact HeD). lia.
  - rewrite lsum_ren. unfold lsum. apply sumN_map_lt.
    + intros k Hk. unfold pkeys in Hk. apply in_map_iff in Hk. destruct Hk as (e & <- & He). apply in_at_depth in He.
      destruct He as [He De]. destruct (in_dom m (fst e)) eqn:Ne.
      * apply N.lt_le_incl. apply Down; auto.
      * rewrite ren_unnamed; auto. lia.
    + exists (fst eD). split; [|apply Down; auto]. unfold pkeys. apply in_map. apply in_at_depth. auto.
  - intros d Hd. rewrite lsum_ren. unfold lsum. f_equal. rewrite <- (map_id (pkeys (at_depth d ps))) at 2.
    apply map_ext_in. intros k Hk. unfold pkeys in Hk. apply in_map_iff in Hk. destruct Hk as (e & <- & He).
    apply in_at_depth in He. destruct He as [He De]. apply ren_unnamed.
    destruct (in_dom m (fst e)) eqn:Ne; [|reflexivity]. specialize (Dmax e He Ne). lia.
Qed.

Lemma lexlt_levels : forall (g g' : nat -> N) H D, (D < H)%nat -> g' D < g D -> (forall d, (D < d)%nat -> g' d = g d) ->
  lexlt (map g' (rev (seq 0 H))) (map g (rev (seq 0 H))).
Proof.
  intros g g'. induction H as [|H IH]; intros D L1 L2 L3; [lia|].
  rewrite seq_S, rev_app_distr. simpl.
  destruct (Nat.eq_dec D H) as [->|Hn].
  - apply lex_hd; [exact L2|]. rewrite !map_length. reflexivity.
  - rewrite (L3 H) by lia. apply lex_tl. apply (IH D); auto. lia.
Qed.

Theorem flat_msr_decreases : forall ps m, paths_wf0 ps -> downI ps m ->
  (exists e, In e ps /\ in_dom m (fst e) = true) -> lexlt (msr (ren_paths m ps)) (msr ps).
Proof.
  intros ps m W DI Ex. destruct (flat_decrease ps m W DI Ex) as (D & D1 & D2 & D3).
  unfold msr. rewrite pheight_ren. apply (lexlt_levels (fun d => lsum d ps) (fun d => lsum d (ren_paths m ps)) _ D); auto.
Qed.

Lemma ren_paths_id : forall ps m, (forall e, In e ps -> in_dom m (fst e) = false) ->
  (forall e, In e ps -> forall a, In a (snd e) -> In a (pkeys ps)) -> ren_paths m ps = ps.
Proof.
  intros ps m H A. unfold ren_paths. rewrite <- (map_id ps) at 2. apply map_ext_in. intros e He.
  assert (forall k, In k (pkeys ps) -> ren m k = k) as R.
  { intros k Hk. unfold pkeys in Hk. apply in_map_iff in Hk. destruct Hk as (e' & <- & He'). apply ren_unnamed. auto. }
  unfold ren_entry. destruct e as [k anc]. simpl. f_equal.
  - apply R. unfold pkeys. apply in_map_iff. exists (k, anc). auto.
  - rewrite <- (map_id anc) at 2. apply map_ext_in. intros a Ha. apply R. apply (A _ He). exact Ha.
Qed.

(* ================================================================== S6. the lexicographic order is well founded *)
Lemma lexlt_length : forall l l', lexlt l l' -> length l = length l'.
Proof. induction 1; simpl; congruence. Qed.

Lemma lexlt_acc_cons : forall n, (forall l, length l = n -> Acc lexlt l) ->
  forall a t, length t = n -> Acc lexlt (a :: t).
Proof.
  intros n IH a. induction a as [a IHa] using (well_founded_induction N.lt_wf_0).
  intros t Hl. pose proof (IH t Hl) as At. revert Hl. induction At as [t _ IHt]. intros Hl.
  constructor. intros y Hy. inversion Hy as [b a' l l' Hlt Hlen E1 E2|a' l l' Hlex E1 E2].
  - apply IHa; [exact Hlt|]. rewrite Hlen. exact Hl.
  - apply IHt; [exact Hlex|]. rewrite (lexlt_length _ _ Hlex). exact Hl.
Qed.

Lemma lexlt_wf_n : forall n l, length l = n -> Acc lexlt l.
Proof.
  induction n as [|n IH]; intros l Hl.
  - destruct l; [|discriminate]. constructor. intros y Hy. inversion Hy.
  - destruct l as [|a t]; [discriminate|]. injection Hl as Hl. apply (lexlt_acc_cons n IH). exact Hl.
Qed.

Theorem lexlt_wf : well_founded lexlt.
Proof. intros l. apply (lexlt_wf_n (length l)). reflexivity. Qed.

Lemma lexltb_sound : forall l l', lexltb l l' = true -> lexlt l l'.
Proof.
  induction l as [|a r IH]; intros l' H; simpl in H; [discriminate|].
  destruct l' as [|b r']; [discriminate|].
  destruct (a <? b) eqn:E.
  - apply N.ltb_lt in E. apply Nat.eqb_eq in H. apply lex_hd; auto.
  - destruct (a =? b) eqn:E2; [|discriminate]. apply N.eqb_eq in E2. subst. apply lex_tl. apply IH. exact H.
Qed.

(* ================================================================== S7. bridge: trees <-> paths *)
Lemma NoDup_nodupb : forall l, NoDup l -> nodupb l = true.
Proof.
  induction l as [|x l IH]; intros H; simpl; [reflexivity|]. inversion H; subst.
  apply andb_true_iff. split; [|apply IH; assumption].
  apply negb_true_iff. destruct (memN x l) eqn:E; [|reflexivity]. apply memN_In in E. contradiction.
Qed.

Lemma paths_child_in : forall i p cs A c e, In c cs -> In e (paths_from (A ++ [i]) c) -> In e (paths_from A (PNode i p cs)).
Proof. intros. simpl. right. apply in_flat_map. exists c. split; assumption. Qed.

Lemma closedI_closed_anc : forall m t A,
  (forall e, In e (paths_from A t) -> in_dom m (fst e) = true -> forall a, In a (snd e) -> in_dom m a = true) ->
  closed_anc m t = true.
Proof.
  intros m. induction t as [i p cs IH] using ptree_ind'. intros A H. simpl.
  rewrite Forall_forall in IH.
  destruct (in_dom m i) eqn:E.
  - apply forallb_forall. intros c Hc. apply (IH c Hc (A ++ [i])).
    intros e He. apply H. eapply paths_child_in; eauto.
  - apply forallb_forall. intros c Hc. apply negb_true_iff.
    destruct (existsb (in_dom m) (ids c)) eqn:X; [|reflexivity]. exfalso.
    apply existsb_exists in X. destruct X as (q & Hq & Nq).
    rewrite <- (paths_from_keys c (A ++ [i])) in Hq. unfold pkeys in Hq. apply in_map_iff in Hq.
    destruct Hq as (e & <- & He).
    destruct (paths_from_prefix c _ _ He) as (B & EB).
    assert (in_dom m i = true) as Y.
    { apply (H e); [eapply paths_child_in; eauto|exact Nq|]. rewrite EB. apply in_or_app. left. apply in_or_app. right. left. reflexivity. }
    congruence.
Qed.

Lemma closedI_forest : forall m f, closedI (fpaths f) m -> forall t, In t f -> closed_anc m t = true.
Proof.
  intros m f C t Ht. apply (closedI_closed_anc m t []). intros e He. apply C.
  unfold fpaths. apply in_flat_map. exists t. split; assumption.
Qed.

Lemma flat_map_ext_in : forall {A B} (f g : A -> list B) l, (forall x, In x l -> f x = g x) -> flat_map f l = flat_map g l.
Proof. intros A B f g l H. induction l as [|x l IH]; simpl; [reflexivity|]. rewrite H, IH; auto; [intros y Hy; apply H; right; exact Hy|left; reflexivity]. Qed.

Lemma ren_paths_flat_map : forall {A} m (g : A -> list pentry) l,
  ren_paths m (flat_map g l) = flat_map (fun x => ren_paths m (g x)) l.
Proof. intros A m g l. unfold ren_paths. induction l as [|x l IH]; simpl; [reflexivity|]. rewrite map_app, IH. reflexivity. Qed.

Lemma paths_unnamed : forall m t A, existsb (in_dom m) (ids t) = false ->
  paths_from (map (ren m) A) t = ren_paths m (paths_from A t).
Proof.
  intros m. induction t as [i p cs IH] using ptree_ind'. intros A H. simpl in H.
  apply orb_false_iff in H. destruct H as [Hi Hc]. simpl. unfold ren_entry at 1. simpl.
  rewrite (ren_unnamed m i Hi). f_equal.
  rewrite ren_paths_flat_map. apply flat_map_ext_in. intros c Hc'.
  rewrite Forall_forall in IH.
  assert (map (ren m) A ++ [i] = map (ren m) (A ++ [i])) as -> by (rewrite map_app; simpl; rewrite (ren_unnamed m i Hi); reflexivity).
  apply IH; auto. destruct (existsb (in_dom m) (ids c)) eqn:X; [|reflexivity].
  exfalso. apply existsb_exists in X. destruct X as (q & Hq & Nq).
  assert (existsb (in_dom m) (flat_map ids cs) = true) as Y.
  { apply existsb_exists. exists q. split; [apply in_flat_map; exists c; auto|exact Nq]. }
  congruence.
Qed.

Lemma paths_reloc : forall m t A, closed_anc m t = true ->
  paths_from (map (ren m) A) (reloc m t) = ren_paths m (paths_from A t).
Proof.
  intros m. induction t as [i p cs IH] using ptree_ind'. intros A C. simpl in C.
  rewrite Forall_forall in IH. simpl reloc.
  destruct (mget m i) as [i'|] eqn:E.
  - assert (in_dom m i = true) as D by (unfold in_dom; rewrite E; reflexivity). rewrite D in C.
    assert (ren m i = i') as R by (unfold ren; rewrite E; reflexivity).
    simpl. unfold ren_entry at 1. simpl. rewrite R. f_equal.
    rewrite ren_paths_flat_map. rewrite flat_map_concat_map, map_map, <- flat_map_concat_map.
    apply flat_map_ext_in. intros c Hc.
    assert (map (ren m) A ++ [i'] = map (ren m) (A ++ [i])) as -> by (rewrite map_app; simpl; rewrite R; reflexivity).
    apply IH; auto. rewrite forallb_forall in C. apply C. exact Hc.
  - assert (in_dom m i = false) as D by (unfold in_dom; rewrite E; reflexivity). rewrite D in C.
    apply paths_unnamed. simpl. rewrite D. simpl.
    destruct (existsb (in_dom m) (flat_map ids cs)) eqn:X; [|reflexivity]. exfalso.
    apply existsb_exists in X. destruct X as (q & Hq & Nq). apply in_flat_map in Hq. destruct Hq as (c & Hc & Hq).
    rewrite forallb_forall in C. specialize (C c Hc). apply negb_true_iff in C.
    assert (existsb (in_dom m) (ids c) = true) by (apply existsb_exists; exists q; auto). congruence.
Qed.

Lemma fpaths_reloc : forall m f, (forall t, In t f -> closed_anc m t = true) ->
  fpaths (freloc m f) = ren_paths m (fpaths f).
Proof.
  intros m f C. unfold fpaths, freloc. rewrite ren_paths_flat_map.
  rewrite flat_map_concat_map, map_map, <- flat_map_concat_map. apply flat_map_ext_in. intros t Ht.
  apply (paths_reloc m t []). apply C. exact Ht.
Qed.

Lemma fids_reloc : forall m f, (forall t, In t f -> closed_anc m t = true) ->
  fids (freloc m f) = map (ren m) (fids f).
Proof. intros m f C. rewrite <- !fpaths_keys, fpaths_reloc, pkeys_ren; auto. Qed.

Lemma freloc_abs : forall m f, fabs (freloc m f) = fabs f /\ fshape (freloc m f) = fshape f.
Proof.
  intros m f. unfold fabs, fshape, freloc. split.
  - rewrite flat_map_concat_map, map_map, <- flat_map_concat_map. apply flat_map_ext_in. intros t _. apply reloc_abs.
  - rewrite map_map. apply map_ext. intros t. apply reloc_shape.
Qed.

Lemma freloc_nil : forall f, freloc [] f = f.
Proof.
  intros f. unfold freloc. rewrite <- (map_id f) at 2. apply map_ext. intros t. destruct t. reflexivity.
Qed.

(* ================================================================== S8. the checker of an observed pass *)
Lemma paths_wfb_sound : forall ps, paths_wfb ps = true -> paths_wf0 ps.
Proof.
  intros ps H. unfold paths_wfb in H. apply andb_true_iff in H. destruct H as [H1 H2].
  split; [apply nodupb_NoDup; exact H1|].
  intros e He a Ha. rewrite forallb_forall in H2. specialize (H2 e He). rewrite forallb_forall in H2.
  specialize (H2 a Ha). apply existsb_exists in H2. destruct H2 as (e' & E1 & E2).
  apply andb_true_iff in E2. destruct E2 as [E2 E3]. apply N.eqb_eq in E2. apply Nat.ltb_lt in E3.
  exists e'. auto.
Qed.

Lemma paths_wfb_complete : forall ps, paths_wf0 ps -> paths_wfb ps = true.
Proof.
  intros ps (ND & AN). unfold paths_wfb. apply andb_true_iff. split; [apply NoDup_nodupb; exact ND|].
  apply forallb_forall. intros e He. apply forallb_forall. intros a Ha.
  destruct (AN e He a Ha) as (e' & E1 & E2 & E3). apply existsb_exists. exists e'. split; [exact E1|].
  apply andb_true_iff. split; [apply N.eqb_eq; exact E2|apply Nat.ltb_lt; exact E3].
Qed.

Lemma down_okP_sound : forall m ps, down_okP m ps = true -> downI ps m.
Proof.
  intros m ps H k v Hkv. unfold down_okP in H. rewrite forallb_forall in H. specialize (H _ Hkv). simpl in H.
  apply orb_true_iff in H. destruct H as [H|H]; [left; apply N.ltb_lt; exact H|].
  right. unfold has_named_desc in H. apply existsb_exists in H. destruct H as (e & E1 & E2).
  apply andb_true_iff in E2. destruct E2 as [E2 E3]. apply memN_In in E2. exists e. auto.
Qed.

Lemma down_okP_complete : forall m ps, downI ps m -> down_okP m ps = true.
Proof.
  intros m ps D. unfold down_okP. apply forallb_forall. intros [k v] Hkv. simpl.
  destruct (D k v Hkv) as [H|(e & E1 & E2 & E3)]; apply orb_true_iff; [left; apply N.ltb_lt; exact H|].
  right. unfold has_named_desc. apply existsb_exists. exists e. split; [exact E1|].
  apply andb_true_iff. split; [apply memN_In; exact E2|exact E3].
Qed.

Lemma closedP_complete : forall m ps, closedI ps m -> closedP m ps = true.
Proof.
  intros m ps C. unfold closedP. apply forallb_forall. intros e He.
  destruct (in_dom m (fst e)) eqn:E; simpl; [|reflexivity]. apply forallb_forall. intros a Ha. eapply C; eauto.
Qed.

Lemma closedP_sound : forall m ps, closedP m ps = true -> closedI ps m.
Proof.
  intros m ps C e He Ne a Ha. unfold closedP in C. rewrite forallb_forall in C. specialize (C e He).
  rewrite Ne in C. simpl in C. rewrite forallb_forall in C. apply C. exact Ha.
Qed.

Lemma disjointb_complete : forall a b, (forall x, In x a -> ~ In x b) -> disjointb a b = true.
Proof.
  intros a b H. unfold disjointb. apply forallb_forall. intros x Hx. apply negb_true_iff.
  destruct (memN x b) eqn:E; [|reflexivity]. apply memN_In in E. exfalso. eapply H; eauto.
Qed.

Lemma map_okP_complete : forall m ps, minv (pkeys ps) m -> keysI ps m -> map_okP m ps = true.
Proof.
  intros m ps (A & B & C) K. unfold map_okP. repeat (apply andb_true_iff; split).
  - apply NoDup_nodupb; exact A.
  - apply NoDup_nodupb; exact B.
  - apply disjointb_complete; exact C.
  - apply forallb_forall. intros [k v] Hkv. simpl. apply memN_In. eapply K; eauto.
Qed.

Lemma map_okP_sound : forall m ps, map_okP m ps = true -> minv (pkeys ps) m /\ keysI ps m.
Proof.
  intros m ps H. unfold map_okP in H. repeat (apply andb_true_iff in H; destruct H as [H ?]).
  split; [repeat split|].
  - apply nodupb_NoDup; assumption.
  - apply nodupb_NoDup; assumption.
  - apply disjointb_spec; assumption.
  - intros k v Hkv. rewrite forallb_forall in H0. specialize (H0 _ Hkv). simpl in H0. apply memN_In. exact H0.
Qed.

Lemma ren_inj_on : forall m l, minv l m -> forall x y, In x l -> In y l -> ren m x = ren m y -> x = y.
Proof. intros m l (_ & B & C). apply rename_inj_on; auto. Qed.

(* SOUNDNESS of the checker: an observed relocation that passes it leaves all positions distinct, overwrites
   no page of the old version, and (if anything moved) strictly decreases the measure *)
Theorem pass_okP_sound : forall m ps, pass_okP m ps = true ->
  NoDup (pkeys (ren_paths m ps))
  /\ (forall t, In t (targets m) -> ~ In t (pkeys ps))
  /\ ((exists e, In e ps /\ in_dom m (fst e) = true) -> lexlt (msr (ren_paths m ps)) (msr ps)).
Proof.
  intros m ps H. unfold pass_okP in H.
  apply andb_true_iff in H. destruct H as [H H0]. apply andb_true_iff in H. destruct H as [H H1].
  apply andb_true_iff in H. destruct H as [H H2].
  pose proof (paths_wfb_sound _ H) as W. destruct (map_okP_sound _ _ H2) as [MI KI].
  repeat split.
  - rewrite pkeys_ren. apply NoDup_map_inj_on; [apply (ren_inj_on m); exact MI|apply W].
  - apply MI.
  - intros Ex. apply flat_msr_decreases; auto. apply down_okP_sound. assumption.
Qed.

(* ================================================================== S9. one pass of the model *)
Lemma pass_map_facts : forall cap f, wfF f = true ->
  minv (fids f) (pass_map cap f) /\ binv (fpaths f) (pass_map cap f).
Proof.
  intros cap f W. unfold pass_map. split.
  - apply build_minv. apply minv_nil.
  - apply build_binv; [apply fpaths_wf; exact W|apply candidates_incl|apply binv_nil].
Qed.

(* the model's pass passes the checker *)
Theorem pass_map_checked : forall cap f, wfF f = true -> pass_okP (pass_map cap f) (fpaths f) = true.
Proof.
  intros cap f W. destruct (pass_map_facts cap f W) as (MI & C & D & K).
  unfold pass_okP. apply andb_true_iff; split; [apply andb_true_iff; split; [apply andb_true_iff; split|]|].
  - apply paths_wfb_complete. apply paths_wf_wf0. apply fpaths_wf. exact W.
  - apply map_okP_complete; [rewrite fpaths_keys; exact MI|exact K].
  - apply closedP_complete. exact C.
  - apply down_okP_complete. exact D.
Qed.

Lemma is_nil_false : forall {A} (l : list A), negb (is_nil l) = true -> exists x, In x l.
Proof. intros A [|x l] H; [discriminate|]. exists x. left. reflexivity. Qed.

Theorem pass_progress : forall cap f f', wfF f = true -> pass cap f = (f', true) ->
  wfF f' = true /\ fabs f' = fabs f /\ fshape f' = fshape f
  /\ length (fids f') = length (fids f)
  /\ lexlt (msr (fpaths f')) (msr (fpaths f))
  /\ (forall t, In t (targets (pass_map cap f)) -> ~ In t (fids f))
  /\ (forall t, In t f -> closed_anc (pass_map cap f) t = true).
Proof.
  intros cap f f' W P. unfold pass in P. injection P as <- Pr.
  destruct (pass_map_facts cap f W) as (MI & C & D & K).
  set (m := pass_map cap f) in *.
  pose proof (closedI_forest m f C) as CA.
  destruct (freloc_abs m f) as [Ab Sh].
  assert (fids (freloc m f) = map (ren m) (fids f)) as Ids by (apply fids_reloc; exact CA).
  repeat split; auto.
  - unfold wfF. rewrite Ids. apply NoDup_nodupb. apply NoDup_map_inj_on; [apply (ren_inj_on m); exact MI|].
    apply nodupb_NoDup. exact W.
  - rewrite Ids. apply map_length.
  - rewrite fpaths_reloc by exact CA. apply flat_msr_decreases; [apply paths_wf_wf0; apply fpaths_wf; exact W|exact D|].
    destruct (is_nil_false _ Pr) as ((k, v) & Hkv).
    pose proof (K k v Hkv) as Hk. unfold pkeys in Hk. apply in_map_iff in Hk. destruct Hk as (e & E1 & E2).
    exists e. split; [exact E2|]. rewrite E1. apply in_dom_In. apply in_map_iff. exists (k, v). auto.
  - apply MI.
Qed.

Lemma maxN_ge : forall l x, In x l -> x <= maxN l.
Proof. induction l as [|y l IH]; simpl; intros x H; [tauto|]. destruct H as [<-|H]; [lia|]. specialize (IH x H). lia. Qed.

Lemma maxN_le : forall l b, (forall x, In x l -> x <= b) -> maxN l <= b.
Proof.
  induction l as [|y l IH]; simpl; intros b H; [lia|].
  assert (y <= b) by (apply H; left; reflexivity).
  assert (maxN l <= b) by (apply IH; intros x Hx; apply H; right; exact Hx). lia.
Qed.

Lemma build_nonempty : forall occ cands m x, In x m -> In x (build occ m cands).
Proof. intros occ cands m x H. apply (build_incl occ cands m). exact H. Qed.

(* a pass that reports no progress changes nothing, and found nothing free below the highest page *)
Theorem pass_no_progress : forall cap f f', wfF f = true -> (1 <= cap)%nat -> pass cap f = (f', false) ->
  f' = f /\ (forall x, x < maxN (fids f) -> In x (fids f)).
Proof.
  intros cap f f' W Hc P. unfold pass in P. injection P as <- Pr.
  destruct (pass_map cap f) as [|kv m'] eqn:E; [|discriminate]. split; [apply freloc_nil|].
  unfold pass_map, candidates in E.
  destruct cap as [|c]; [lia|].
  pose proof (sort_desc_head (fpaths f)) as HM.
  destruct (sort_desc (fpaths f)) as [|e r] eqn:S.
  - (* no pages at all *)
    assert (fids f = []) as Z.
    { rewrite <- fpaths_keys. destruct (fpaths f) as [|x l] eqn:F; [reflexivity|].
      assert (In x (sort_desc (x :: l))) as X by (apply sort_desc_In; left; reflexivity). rewrite S in X. destruct X. }
    rewrite Z. simpl. intros x Hx. lia.
  - simpl in E. rewrite app_nil_r in E.
    destruct (lowest_free (fids f) <? fst e) eqn:L.
    + exfalso. assert (In (fst e, lowest_free (fids f)) []) as X.
      { rewrite <- E. apply build_nonempty. apply (add_parents_incl (fids f) (snd e)). left. reflexivity. }
      destruct X.
    + apply N.ltb_ge in L. intros x Hx.
      assert (maxN (fids f) <= fst e) as M.
      { apply maxN_le. intros y Hy. rewrite <- fpaths_keys in Hy. unfold pkeys in Hy. apply in_map_iff in Hy.
        destruct Hy as (ey & <- & Hey). apply HM. apply sort_desc_In in Hey. rewrite S in Hey. exact Hey. }
      destruct (lowest_free_spec (fids f)) as (_ & LF & _). apply LF. lia.
Qed.

(* ================================================================== S10. the loop of Database::compact *)
Lemma compact_loop_S : forall k cap f,
  compact_loop (S k) cap f =
  let (f', pr) := pass cap f in
  if pr then let '(g, n, fin) := compact_loop k cap f' in (g, S n, fin) else (f', O, true).
Proof. reflexivity. Qed.

(* TERMINATION: from every well-formed forest the loop reaches its closing pass *)
Theorem loop_terminates : forall cap f, wfF f = true -> exists fuel g n, compact_loop fuel cap f = (g, n, true).
Proof.
  intros cap f. pattern f.
  apply (well_founded_induction (wf_inverse_image _ _ lexlt (fun f => msr (fpaths f)) lexlt_wf)).
  clear f. intros f IH W.
  destruct (pass cap f) as [f' pr] eqn:P. destruct pr.
  - destruct (pass_progress cap f f' W P) as (W' & _ & _ & _ & L & _).
    destruct (IH f' L W') as (fuel & g & n & E).
    exists (S fuel), g, (S n). rewrite compact_loop_S, P, E. reflexivity.
  - exists 1%nat, f', O. rewrite compact_loop_S, P. reflexivity.
Qed.

(* every progressing pass strictly decreases the measure: no infinite sequence of progressing passes *)
Theorem progressing_passes_wf : forall cap,
  well_founded (fun f' f => wfF f = true /\ pass cap f = (f', true)).
Proof.
  intros cap. apply (wf_incl _ _ (fun f' f => lexlt (msr (fpaths f')) (msr (fpaths f)))).
  - intros f' f (W & P). destruct (pass_progress cap f f' W P) as (_ & _ & _ & _ & L & _). exact L.
  - apply (wf_inverse_image _ _ lexlt (fun f => msr (fpaths f)) lexlt_wf).
Qed.

Lemma loop_invariants : forall fuel cap f g n, wfF f = true -> (1 <= cap)%nat -> compact_loop fuel cap f = (g, n, true) ->
  wfF g = true /\ fabs g = fabs f /\ fshape g = fshape f /\ length (fids g) = length (fids f)
  /\ (forall x, x < maxN (fids g) -> In x (fids g)).
Proof.
  induction fuel as [|fuel IH]; intros cap f g n W Hc E; [inversion E|]. rewrite compact_loop_S in E.
  destruct (pass cap f) as [f' pr] eqn:P. destruct pr.
  - destruct (compact_loop fuel cap f') as [[g' n'] fin] eqn:L. inversion E; subst.
    destruct (pass_progress cap f f' W P) as (W' & A & S & Len & _).
    destruct (IH cap f' g n' W' Hc L) as (W2 & A2 & S2 & L2 & Pk).
    repeat split; auto; congruence.
  - inversion E; subst. destruct (pass_no_progress cap f g W Hc P) as [-> Pk]. repeat split; auto.
Qed.

Lemma maxN_In : forall l, l <> [] -> In (maxN l) l.
Proof.
  induction l as [|y l IH]; intros H; [congruence|]. simpl.
  destruct l as [|z l']; [left; simpl; lia|].
  assert (In (maxN (z :: l')) (z :: l')) as X by (apply IH; discriminate).
  destruct (N.max_spec y (maxN (z :: l'))) as [[_ E]|[_ E]]; rewrite E; [right; exact X|left; reflexivity].
Qed.

Lemma range_nodup : forall n, NoDup (map N.of_nat (seq 0 n)).
Proof. intros n. apply FinFun.Injective_map_NoDup; [intros a b; apply Nat2N.inj|apply seq_NoDup]. Qed.

Lemma range_in : forall n x, In x (map N.of_nat (seq 0 n)) <-> x < N.of_nat n.
Proof.
  intros n x. rewrite in_map_iff. split.
  - intros (k & <- & Hk). apply in_seq in Hk. lia.
  - intros H. exists (N.to_nat x). split; [apply N2Nat.id|]. apply in_seq. lia.
Qed.

(* n distinct positions reach at least up to n - 1; a packed set of n positions reaches exactly that far *)
Lemma packed_max_le : forall l l0, NoDup l -> NoDup l0 -> length l = length l0 ->
  (forall x, x < maxN l -> In x l) -> maxN l <= maxN l0.
Proof.
  intros l l0 ND ND0 Len Pk.
  destruct l as [|a l']; [simpl; lia|]. set (l := a :: l') in *.
  assert (In (maxN l) l) as Min by (apply maxN_In; discriminate).
  (* {0..max l} is inside l *)
  assert (incl (map N.of_nat (seq 0 (S (N.to_nat (maxN l))))) l) as I1.
  { intros x Hx. apply range_in in Hx. destruct (N.eq_dec x (maxN l)) as [->|Hn]; [exact Min|]. apply Pk. lia. }
  pose proof (NoDup_incl_length (range_nodup _) I1) as L1. rewrite map_length, seq_length in L1.
  (* l0 is inside {0..max l0} *)
  assert (incl l0 (map N.of_nat (seq 0 (S (N.to_nat (maxN l0)))))) as I0.
  { intros x Hx. apply range_in. pose proof (maxN_ge l0 x Hx). lia. }
  pose proof (NoDup_incl_length ND0 I0) as L0. rewrite map_length, seq_length in L0. lia.
Qed.

(* END TO END: when Database::compact returns, contents and shape are what they were, no page is used twice,
   nothing is free below the highest page, and the highest position is not above the highest position before
   the call -- although a single pass may raise it (Props: c13_pass_can_raise_the_highest_position). *)
Theorem loop_result : forall fuel cap f g n, wfF f = true -> (1 <= cap)%nat -> compact_loop fuel cap f = (g, n, true) ->
  wfF g = true /\ fabs g = fabs f /\ fshape g = fshape f
  /\ (forall x, x < maxN (fids g) -> In x (fids g))
  /\ maxN (fids g) <= maxN (fids f).
Proof.
  intros fuel cap f g n W Hc E. destruct (loop_invariants fuel cap f g n W Hc E) as (W' & A & S & L & Pk).
  repeat split; auto.
  apply packed_max_le; auto; apply nodupb_NoDup; assumption.
Qed.


(* how far a single pass can raise the highest position: every target is the lowest free position, so it lies
   below (pages + targets taken so far) *)
Definition tbound (occ : list N) (m : rmap) : Prop :=
  forall t, In t (targets m) -> t < N.of_nat (length occ + length m).

Lemma tbound_add : forall occ m k, tbound occ m -> tbound occ ((k, lowest_free (occ ++ targets m)) :: m).
Proof.
  intros occ m k H t Ht. unfold targets in *. simpl in *. destruct Ht as [<-|Ht].
  - destruct (lowest_free_spec (occ ++ map snd m)) as (_ & _ & L). rewrite app_length, map_length in L. lia.
  - specialize (H t Ht). lia.
Qed.

Lemma add_parents_tbound : forall occ anc m, tbound occ m -> tbound occ (add_parents occ m anc).
Proof.
  intros occ anc. induction anc as [|a r IH]; intros m H; simpl; [exact H|].
  destruct (in_dom m a); [apply IH; exact H|]. apply IH. apply tbound_add. exact H.
Qed.

Lemma build_tbound : forall occ cands m, tbound occ m -> tbound occ (build occ m cands).
Proof.
  intros occ cands. induction cands as [|e rest IH]; intros m H; simpl; [exact H|].
  destruct (in_dom m (fst e)); [apply IH; exact H|].
  destruct (lowest_free (occ ++ targets m) <? fst e); [|exact H].
  apply IH. apply add_parents_tbound. apply tbound_add. exact H.
Qed.

Theorem pass_growth_bound : forall cap f f' pr, wfF f = true -> pass cap f = (f', pr) ->
  forall x, In x (fids f') -> x <= maxN (fids f) \/ x < 2 * N.of_nat (length (fids f)).
Proof.
  intros cap f f' pr W P x Hx. unfold pass in P. injection P as <- _.
  destruct (pass_map_facts cap f W) as (MI & C & D & K).
  set (m := pass_map cap f) in *.
  rewrite (fids_reloc m f (closedI_forest m f C)) in Hx. apply in_map_iff in Hx. destruct Hx as (y & <- & Hy).
  unfold ren. destruct (mget m y) as [v|] eqn:G; [|left; apply maxN_ge; exact Hy].
  right. assert (tbound (fids f) m) as TB by (apply build_tbound; intros t []).
  assert (In v (targets m)) as Hv by (unfold targets; apply in_map_iff; exists (y, v); split; [reflexivity|apply mget_In; exact G]).
  specialize (TB v Hv).
  assert (length m <= length (fids f))%nat as Lm.
  { destruct MI as (ND & _). rewrite <- (map_length fst m). apply NoDup_incl_length; [exact ND|].
    intros k Hk. apply in_map_iff in Hk. destruct Hk as ((k', v') & <- & Hkv). rewrite <- fpaths_keys. eapply K; eauto. }
  lia.
Qed.
