From Coq Require Import List NArith Bool Lia.
From RV Require Import Compact.Model.
Import ListNotations.
Open Scope N_scope.

Lemma ptree_ind' (P : ptree -> Prop) :
  (forall i p cs, Forall P cs -> P (PNode i p cs)) -> forall t, P t.
Proof.
  intros H. fix IH 1. intros [i p cs]. apply H.
  induction cs as [|c cs IHcs]; constructor; [apply IH|exact IHcs].
Qed.

Lemma flat_map_ext_Forall : forall {A B} (f g : A -> list B) l,
  Forall (fun x => f x = g x) l -> flat_map f l = flat_map g l.
Proof. intros A B f g l H. induction H; simpl; [reflexivity|]. rewrite H, IHForall. reflexivity. Qed.

Lemma map_ext_Forall : forall {A B} (f g : A -> B) l,
  Forall (fun x => f x = g x) l -> map f l = map g l.
Proof. intros A B f g l H. induction H; simpl; [reflexivity|]. rewrite H, IHForall. reflexivity. Qed.

(* ------------------------------------------------------------------ contents and shape are preserved by ANY map *)
Theorem reloc_abs : forall m t, abs (reloc m t) = abs t.
Proof.
  intros m. induction t as [i p cs IH] using ptree_ind'. simpl.
  destruct (mget m i); simpl; [|reflexivity]. f_equal.
  rewrite flat_map_concat_map, map_map, <- flat_map_concat_map.
  apply flat_map_ext_Forall. exact IH.
Qed.

Theorem reloc_shape : forall m t, shape_of (reloc m t) = shape_of t.
Proof.
  intros m. induction t as [i p cs IH] using ptree_ind'. simpl.
  destruct (mget m i); simpl; [|reflexivity]. f_equal. rewrite map_map.
  apply map_ext_Forall. exact IH.
Qed.

(* ------------------------------------------------------------------ which pages move *)
Definition rename (m : rmap) (x : N) : N := match mget m x with Some y => y | None => x end.

Lemma existsb_false_forall : forall {A} (f : A -> bool) l, existsb f l = false -> forall x, In x l -> f x = false.
Proof.
  intros A f l H x Hin. destruct (f x) eqn:E; [|reflexivity].
  assert (existsb f l = true) by (apply existsb_exists; exists x; auto). congruence.
Qed.

Lemma unnamed_list : forall m l, (forall x, In x l -> in_dom m x = false) ->
  filter (in_dom m) l = [] /\ map (rename m) l = l.
Proof.
  intros m. induction l as [|x l IH]; intros F; simpl; [auto|].
  assert (in_dom m x = false) as Fx by (apply F; simpl; auto). rewrite Fx.
  destruct IH as [I1 I2]; [intros y Hy; apply F; simpl; auto|].
  split; [exact I1|]. unfold rename at 1. unfold in_dom in Fx. destruct (mget m x); [discriminate|].
  rewrite I2. reflexivity.
Qed.

Lemma unnamed_subtree : forall m t, existsb (in_dom m) (ids t) = false ->
  reloc m t = t /\ freed m t = [] /\ written m t = [] /\ named m t = [] /\ map (rename m) (ids t) = ids t.
Proof.
  intros m t H. pose proof (existsb_false_forall _ _ H) as F.
  destruct (unnamed_list m (ids t) F) as [U1 U2].
  assert (in_dom m (root_id t) = false) as R by (apply F; destruct t; simpl; auto).
  destruct t as [i p cs]. simpl in R. unfold in_dom in R. simpl. destruct (mget m i) eqn:E; [discriminate|].
  repeat split; auto.
Qed.

Lemma forallb_Forall : forall {A} (f : A -> bool) l, forallb f l = true -> Forall (fun x => f x = true) l.
Proof. intros A f l H. rewrite forallb_forall in H. apply Forall_forall. exact H. Qed.

(* With a map closed under ancestors, every page the map names is moved to its target: the freed pages
   are exactly the named ones, the written pages exactly their targets (no target is left allocated
   but unused), and the new tree's page ids are the old ones renamed. *)
Theorem reloc_complete : forall m t, closed_anc m t = true ->
  freed m t = named m t /\ written m t = map (rename m) (named m t)
  /\ ids (reloc m t) = map (rename m) (ids t).
Proof.
  intros m. induction t as [i p cs IH] using ptree_ind'. intros C. simpl in C.
  unfold named. simpl.
  destruct (mget m i) as [i'|] eqn:E.
  - assert (in_dom m i = true) as D by (unfold in_dom; rewrite E; reflexivity).
    assert (rename m i = i') as Rn by (unfold rename; rewrite E; reflexivity).
    rewrite D in *. apply forallb_Forall in C.
    assert (Forall (fun c => freed m c = named m c /\ written m c = map (rename m) (named m c)
                             /\ ids (reloc m c) = map (rename m) (ids c)) cs) as A.
    { clear E D Rn. induction cs as [|c cs IHcs]; constructor.
      - inversion IH; subst. inversion C; subst. auto.
      - inversion IH; subst. inversion C; subst. apply IHcs; auto. }
    simpl. rewrite Rn. repeat split; f_equal.
    + clear - A. induction A as [|c cs [A1 _] _ IHA]; simpl; [reflexivity|].
      rewrite filter_app. unfold named in A1. rewrite A1, IHA. reflexivity.
    + clear - A. induction A as [|c cs [_ [A2 _]] _ IHA]; simpl; [reflexivity|].
      rewrite filter_app, map_app. unfold named in A2. rewrite A2, IHA. reflexivity.
    + clear - A. rewrite flat_map_concat_map, map_map, <- flat_map_concat_map.
      induction A as [|c cs [_ [_ A3]] _ IHA]; simpl; [reflexivity|].
      rewrite map_app, A3, IHA. reflexivity.
  - assert (in_dom m i = false) as D by (unfold in_dom; rewrite E; reflexivity).
    rewrite D in *.
    assert (existsb (in_dom m) (flat_map ids cs) = false) as Z.
    { clear - C. induction cs as [|c cs IHcs]; simpl; [reflexivity|]. simpl in C.
      apply andb_true_iff in C. destruct C as [C1 C2]. rewrite existsb_app.
      apply negb_true_iff in C1. rewrite C1. simpl. apply IHcs. exact C2. }
    destruct (unnamed_list m (flat_map ids cs) (existsb_false_forall _ _ Z)) as [U1 U2].
    rewrite U1, U2. unfold rename. rewrite E. repeat split; reflexivity.
Qed.

(* ------------------------------------------------------------------ boolean helpers *)
Lemma memN_In : forall x l, memN x l = true <-> In x l.
Proof.
  intros x l. unfold memN. rewrite existsb_exists. split.
  - intros [y [Hy He]]. apply N.eqb_eq in He. subst. exact Hy.
  - intros H. exists x. split; [exact H|apply N.eqb_refl].
Qed.

Lemma nodupb_NoDup : forall l, nodupb l = true -> NoDup l.
Proof.
  induction l as [|x l IH]; simpl; intros H; constructor; apply andb_true_iff in H; destruct H as [H1 H2].
  - apply negb_true_iff in H1. intros Hin. apply memN_In in Hin. congruence.
  - apply IH. exact H2.
Qed.

Lemma disjointb_spec : forall a b, disjointb a b = true -> forall x, In x a -> ~ In x b.
Proof.
  intros a b H x Ha Hb. unfold disjointb in H. rewrite forallb_forall in H.
  specialize (H x Ha). apply negb_true_iff in H. apply memN_In in Hb. congruence.
Qed.

Lemma mget_In : forall m x y, mget m x = Some y -> In (x, y) m.
Proof.
  intros m x y H. unfold mget in H. destruct (find _ m) as [p|] eqn:E; [|discriminate].
  inversion H; subst. apply find_some in E. destruct E as [Hin He]. apply N.eqb_eq in He.
  destruct p; simpl in *; subst. exact Hin.
Qed.

Lemma NoDup_snd_inj : forall (m : rmap) x1 x2 y, NoDup (map snd m) -> In (x1, y) m -> In (x2, y) m -> x1 = x2.
Proof.
  induction m as [|[a b] m IH]; simpl; intros x1 x2 y ND H1 H2; [contradiction|].
  inversion ND; subst.
  destruct H1 as [H1|H1]; destruct H2 as [H2|H2].
  - congruence.
  - inversion H1; subst. exfalso. apply H3. change y with (snd (x2, y)). apply in_map. exact H2.
  - inversion H2; subst. exfalso. apply H3. change y with (snd (x1, y)). apply in_map. exact H1.
  - eapply IH; eauto.
Qed.

Lemma rename_inj_on : forall m l, NoDup (targets m) -> (forall x, In x (targets m) -> ~ In x l) ->
  forall x y, In x l -> In y l -> rename m x = rename m y -> x = y.
Proof.
  intros m l ND DJ x y Hx Hy E. unfold rename in E.
  destruct (mget m x) as [a|] eqn:Ex; destruct (mget m y) as [b|] eqn:Ey.
  - subst b. apply mget_In in Ex. apply mget_In in Ey. eapply NoDup_snd_inj; eauto.
  - subst y. exfalso. apply mget_In in Ex. apply (DJ a); [|exact Hy].
    unfold targets. change a with (snd (x, a)). apply in_map. exact Ex.
  - subst x. exfalso. apply mget_In in Ey. apply (DJ b); [|exact Hx].
    unfold targets. change b with (snd (y, b)). apply in_map. exact Ey.
  - exact E.
Qed.

Lemma NoDup_map_inj_on : forall {A B} (f : A -> B) l,
  (forall x y, In x l -> In y l -> f x = f y -> x = y) -> NoDup l -> NoDup (map f l).
Proof.
  intros A B f l. induction l as [|a l IH]; intros Inj ND; simpl; constructor; inversion ND; subst.
  - intros Hin. apply in_map_iff in Hin. destruct Hin as [y [E Hy]].
    assert (y = a) by (apply Inj; simpl; auto). subst. contradiction.
  - apply IH; auto. intros x y Hx Hy. apply Inj; simpl; auto.
Qed.

(* Well-formedness (no page used twice) is preserved, and no page of the old tree is overwritten:
   readers of the old version, and a crash before the commit, still see the old tree intact. *)
Theorem reloc_wf : forall m t, wf t = true -> map_ok m t = true -> closed_anc m t = true ->
  NoDup (ids (reloc m t)) /\ (forall x, In x (written m t) -> ~ In x (ids t)).
Proof.
  intros m t W MO C. unfold map_ok in MO. apply andb_true_iff in MO. destruct MO as [MO DJ].
  apply andb_true_iff in MO. destruct MO as [_ ND]. apply nodupb_NoDup in ND.
  pose proof (disjointb_spec _ _ DJ) as DJ'. apply nodupb_NoDup in W.
  destruct (reloc_complete m t C) as [_ [Wr Ids]]. split.
  - rewrite Ids. apply NoDup_map_inj_on; [|exact W]. apply rename_inj_on; auto.
  - intros x Hx. rewrite Wr in Hx. apply in_map_iff in Hx. destruct Hx as [y [E Hy]].
    unfold named in Hy. apply filter_In in Hy. destruct Hy as [Hy D]. unfold in_dom in D.
    unfold rename in E. destruct (mget m y) as [a|] eqn:Ea; [|discriminate]. subst x.
    apply DJ'. unfold targets. apply mget_In in Ea. change a with (snd (y, a)). apply in_map. exact Ea.
Qed.

(* ------------------------------------------------------------------ compact(): guards and contents *)
Theorem compact_refuses : forall k m t,
  (persistent_sp k <> 0 \/ ephemeral_sp k <> 0 \/ user_reads k <> 0) ->
  exists e, compact k m t = ((k, t), Some e)
    /\ (persistent_sp k <> 0 -> e = EPersistent)
    /\ (persistent_sp k = 0 -> ephemeral_sp k <> 0 -> e = EEphemeral)
    /\ (persistent_sp k = 0 -> ephemeral_sp k = 0 -> e = EInProgress).
Proof.
  intros k m t H. unfold compact, guard.
  destruct (N.eqb (persistent_sp k) 0) eqn:P; simpl.
  - apply N.eqb_eq in P. destruct (N.eqb (ephemeral_sp k) 0) eqn:E; simpl.
    + apply N.eqb_eq in E. destruct (N.eqb (user_reads k) 0) eqn:U; simpl.
      * apply N.eqb_eq in U. exfalso. destruct H as [H|[H|H]]; congruence.
      * eexists. split; [reflexivity|]. repeat split; intros; congruence.
    + apply N.eqb_neq in E. eexists. split; [reflexivity|]. repeat split; intros; congruence.
  - apply N.eqb_neq in P. eexists. split; [reflexivity|]. repeat split; intros; congruence.
Qed.

Theorem compact_contents : forall k m t,
  let r := compact k m t in
  fst (fst r) = k /\ abs (snd (fst r)) = abs t /\ shape_of (snd (fst r)) = shape_of t.
Proof.
  intros k m t. unfold compact. destruct (guard k); simpl; repeat split; auto using reloc_abs, reloc_shape.
Qed.

(* any number of passes, each with whatever map the allocator produced *)
Fixpoint compact_n (k : tracker) (ms : list rmap) (t : ptree) : ptree :=
  match ms with [] => t | m :: r => compact_n k r (snd (fst (compact k m t))) end.

Theorem compact_n_contents : forall ms k t, abs (compact_n k ms t) = abs t /\ shape_of (compact_n k ms t) = shape_of t.
Proof.
  induction ms as [|m ms IH]; intros k t; simpl; [auto|].
  destruct (compact_contents k m t) as [_ [A S]]. destruct (IH k (snd (fst (compact k m t)))) as [A2 S2].
  split; congruence.
Qed.

Theorem reloc_preserves : forall m t, abs (reloc m t) = abs t /\ shape_of (reloc m t) = shape_of t.
Proof. intros m t. split; [apply reloc_abs|apply reloc_shape]. Qed.
