(* C13 model, part 2: the guards of Database::compact (db.rs) as a STEP machine running against a concurrent
   writer.  Definitions only (proofs in GuardP.v).

   compact(&mut self) evaluates its guards twice: up front (so that it cannot deadlock on a write transaction
   of the caller) and again after begin_write() has returned, i.e. while it holds the write slot.  A
   WriteTransaction is not lifetime-bound to the Database, so ONE write transaction that was begun before the
   call can still be open on another thread while compact() runs; it can create savepoints (every savepoint
   also registers a read reference) and commit or abort while compact() waits for the slot.  Nothing else can
   begin while compact() runs: begin_read / begin_write need &Database, compact() holds &mut.  Objects that
   exist (savepoints, read transactions) can be dropped by their owners at any time.

   Program counter of compact():
     G1p G1e G1r   up-front checks: tracker persistent set / any valid savepoint / user read reference
     CWait         begin_write(): waits until the write slot is free, then takes it
     G2p G2e G2r   inside the write transaction: savepoint table on disk / any valid savepoint / read reference
     CRun          past the guards: abort the guard transaction, drain, relocate, commit ... (the loop)
     CRefused e    returned Err(e)        CDone  returned Ok(_)
   While compact() is in CRun the slot is modelled as held: it is released and re-acquired between its own
   transactions, but no other thread can begin a transaction (see above). *)
From Coq Require Import List NArith Bool.
From RV Require Import Compact.Model.
Import ListNotations.
Open Scope N_scope.

Inductive holder := HFree | HWriter | HCompact.

Inductive cpc :=
| G1p | G1e | G1r | CWait | G2p | G2e | G2r | CRun
| CRefused (e : cerr) | CDone.

(* g_trk: persistent_sp = the tracker's persistent set, ephemeral_sp = valid savepoints that are not
   persistent, user_reads = read transactions (references not owned by a savepoint).
   g_disk: persistent savepoints in the committed savepoint table (what list_persistent_savepoints reads in
   a fresh write transaction); g_wnew: persistent savepoints created by the open writer, not yet committed
   (registered in the tracker at creation, written to the table by its commit, rolled back by its abort). *)
Record gstate := mkG { g_trk : tracker; g_disk : N; g_wnew : N; g_slot : holder; g_pc : cpc }.

(* which of the three in-transaction re-checks the variant of compact() performs; the code: all three *)
Record variant := mkV { re_disk : bool; re_sp : bool; re_rd : bool }.
Definition v_code : variant := mkV true true true.
(* seeded change C13-sc2: only the on-disk part of the re-check is kept *)
Definition v_no_tracker_recheck : variant := mkV true false false.

Definition vs (k : tracker) : N := persistent_sp k + ephemeral_sp k.        (* valid_savepoints *)
Definition refs (k : tracker) : N := user_reads k + vs k.                     (* read references beyond pending commits *)

Inductive label :=
| LC          (* compact() takes its next step *)
| LEsp        (* the writer creates an ephemeral savepoint *)
| LPsp        (* the writer creates a persistent savepoint *)
| LCommit | LAbort
| LDropEsp    (* an ephemeral savepoint is dropped *)
| LDropRead.  (* a read transaction ends *)

Definition set_pc (s : gstate) (p : cpc) : gstate := mkG (g_trk s) (g_disk s) (g_wnew s) (g_slot s) p.
Definition refuse (s : gstate) (e : cerr) (release : bool) : gstate :=
  mkG (g_trk s) (g_disk s) (g_wnew s) (if release then HFree else g_slot s) (CRefused e).
Definition nz (n : N) : bool := negb (N.eqb n 0).

Definition cstep (v : variant) (s : gstate) : option gstate :=
  let k := g_trk s in
  match g_pc s with
  | G1p => Some (if nz (persistent_sp k) then refuse s EPersistent false else set_pc s G1e)
  | G1e => Some (if nz (vs k) then refuse s EEphemeral false else set_pc s G1r)
  | G1r => Some (if nz (refs k) then refuse s EInProgress false else set_pc s CWait)
  | CWait => match g_slot s with
             | HFree => Some (mkG k (g_disk s) (g_wnew s) HCompact G2p)
             | _ => None                                   (* asleep on the condition variable *)
             end
  | G2p => Some (if re_disk v && nz (g_disk s) then refuse s EPersistent true else set_pc s G2e)
  | G2e => Some (if re_sp v && nz (vs k) then refuse s EEphemeral true else set_pc s G2r)
  | G2r => Some (if re_rd v && nz (refs k) then refuse s EInProgress true else set_pc s CRun)
  | CRun => Some (mkG k (g_disk s) (g_wnew s) HFree CDone)
  | CRefused _ | CDone => Some s                           (* returned: further steps change nothing *)
  end.

Definition with_trk (s : gstate) (k : tracker) : gstate := mkG k (g_disk s) (g_wnew s) (g_slot s) (g_pc s).

Definition gstep (v : variant) (l : label) (s : gstate) : option gstate :=
  let k := g_trk s in
  match l with
  | LC => cstep v s
  | LEsp => match g_slot s with
            | HWriter => Some (with_trk s (mkTracker (persistent_sp k) (ephemeral_sp k + 1) (user_reads k)))
            | _ => None end
  | LPsp => match g_slot s with
            | HWriter => Some (mkG (mkTracker (persistent_sp k + 1) (ephemeral_sp k) (user_reads k))
                                   (g_disk s) (g_wnew s + 1) HWriter (g_pc s))
            | _ => None end
  | LCommit => match g_slot s with
               | HWriter => Some (mkG k (g_disk s + g_wnew s) 0 HFree (g_pc s))
               | _ => None end
  | LAbort => match g_slot s with
              | HWriter => Some (mkG (mkTracker (persistent_sp k - g_wnew s) (ephemeral_sp k) (user_reads k))
                                     (g_disk s) 0 HFree (g_pc s))
              | _ => None end
  | LDropEsp => if nz (ephemeral_sp k)
                then Some (with_trk s (mkTracker (persistent_sp k) (ephemeral_sp k - 1) (user_reads k))) else None
  | LDropRead => if nz (user_reads k)
                 then Some (with_trk s (mkTracker (persistent_sp k) (ephemeral_sp k) (user_reads k - 1))) else None
  end.

(* a schedule: None = some label was not enabled when its turn came *)
Fixpoint grun (v : variant) (ls : list label) (s : gstate) : option gstate :=
  match ls with
  | [] => Some s
  | l :: r => match gstep v l s with Some s' => grun v r s' | None => None end
  end.

(* the moment compact() is called: p persistent savepoints (all committed, all registered), e ephemeral
   savepoints, r read transactions; [w] = a write transaction begun earlier is still open, and has created
   wn persistent savepoints of its own so far *)
Definition ginit (p e r : N) (w : bool) (wn : N) : gstate :=
  mkG (mkTracker (p + (if w then wn else 0)) e r) p (if w then wn else 0) (if w then HWriter else HFree) G1p.

Definition quiet (s : gstate) : Prop :=
  persistent_sp (g_trk s) = 0 /\ ephemeral_sp (g_trk s) = 0 /\ user_reads (g_trk s) = 0 /\ g_disk s = 0.

(* what the caller of compact() sees *)
Inductive ganswer := ARan | ARefused (e : cerr) | APending.
Definition answer (s : gstate) : ganswer :=
  match g_pc s with CRun | CDone => ARan | CRefused e => ARefused e | _ => APending end.
