(* Proofs about the step model of compact()'s guards (Guard.v). *)
From Coq Require Import List NArith Bool Lia.
From RV Require Import Compact.Model Compact.Guard.
Import ListNotations.
Open Scope N_scope.

Lemma nz_true : forall n, nz n = true <-> n <> 0.
Proof. intros n. unfold nz. rewrite negb_true_iff, N.eqb_neq. reflexivity. Qed.
Lemma nz_false : forall n, nz n = false <-> n = 0.
Proof. intros n. unfold nz. rewrite negb_false_iff, N.eqb_eq. reflexivity. Qed.

(* what holds in every reachable state, per program counter of compact() *)
Definition pc_inv (v : variant) (s : gstate) : Prop :=
  let k := g_trk s in
  match g_pc s with
  | G1p | G1e | G1r => g_slot s <> HCompact
  | CWait => g_slot s <> HCompact /\ user_reads k = 0
  | G2p | G2e => g_slot s = HCompact /\ user_reads k = 0
  | G2r => g_slot s = HCompact /\ user_reads k = 0 /\ (re_sp v = true -> vs k = 0)
  | CRun => g_slot s = HCompact /\ quiet s
  | CDone => g_slot s = HFree /\ quiet s
  | CRefused _ => True
  end.

Definition ginv (v : variant) (s : gstate) : Prop :=
  persistent_sp (g_trk s) = g_disk s + g_wnew s
  /\ (g_slot s <> HWriter -> g_wnew s = 0)
  /\ pc_inv v s.

Lemma ginit_inv : forall v p e r w wn, ginv v (ginit p e r w wn).
Proof.
  intros v p e r w wn. unfold ginv, ginit, pc_inv. simpl. destruct w; simpl.
  - repeat split; try lia; try discriminate. intros H. exfalso. apply H. reflexivity.
  - repeat split; try lia; discriminate.
Qed.

Ltac nzs :=
  repeat match goal with
  | H : nz _ = true |- _ => apply nz_true in H
  | H : nz _ = false |- _ => apply nz_false in H
  | H : _ && _ = true |- _ => apply andb_true_iff in H; destruct H
  | H : _ && _ = false |- _ => apply andb_false_iff in H
  end.

Lemma cstep_inv : forall v s s', re_sp v || re_rd v = true -> ginv v s -> cstep v s = Some s' -> ginv v s'.
Proof.
  intros v [[p e r] d wn sl pc] s' Hv (A & B & C) H.
  unfold cstep in H. unfold ginv, pc_inv, quiet, refs, vs in *. simpl in *.
  destruct pc; simpl in *.
  - (* G1p *) destruct (nz p) eqn:E; injection H as <-; simpl; auto.
  - (* G1e *) destruct (nz (p + e)) eqn:E; injection H as <-; simpl; auto.
  - (* G1r *) destruct (nz (r + (p + e))) eqn:E; injection H as <-; simpl; auto.
    nzs. repeat split; auto. lia.
  - (* CWait *) destruct sl; try discriminate. injection H as <-; simpl.
    destruct C as [C1 C2]. repeat split; auto. intros _. apply B. discriminate.
  - (* G2p *) destruct C as [C1 C2].
    destruct (re_disk v && nz d) eqn:E; injection H as <-; simpl.
    + repeat split; auto. intros _. apply B. rewrite C1. discriminate.
    + repeat split; auto.
  - (* G2e *) destruct C as [C1 C2].
    destruct (re_sp v && nz (p + e)) eqn:E; injection H as <-; simpl.
    + repeat split; auto. intros _. apply B. rewrite C1. discriminate.
    + repeat split; auto. intros Hs. rewrite Hs in E. simpl in E. nzs. exact E.
  - (* G2r *) destruct C as (C1 & C2 & C3).
    assert (g_wn : wn = 0) by (apply B; rewrite C1; discriminate).
    destruct (re_rd v && nz (r + (p + e))) eqn:E; injection H as <-; simpl.
    + repeat split; auto.
    + assert (p + e = 0) as Z.
      { destruct (re_sp v) eqn:Es; [apply C3; reflexivity|]. simpl in Hv. rewrite Hv in E. simpl in E. nzs. lia. }
      repeat split; auto; lia.
  - (* CRun *) injection H as <-; simpl. destruct C as [C1 C2]. repeat split; try tauto.
    intros _. apply B. rewrite C1. discriminate.
  - (* CRefused *) injection H as <-; simpl; auto.
  - (* CDone *) injection H as <-; simpl; auto.
Qed.

(* the environment cannot create anything while compact() holds the slot; drops only remove *)
Ltac use_imps :=
  repeat match goal with
  | H : ?a <> ?b -> _ |- _ => specialize (H ltac:(discriminate))
  | H : ?a = ?a -> _ |- _ => specialize (H eq_refl)
  | H : ?x = true -> _, H' : ?x = true |- _ => specialize (H H')
  | H : HWriter <> HWriter -> _ |- _ => clear H
  | H : HCompact <> HCompact -> _ |- _ => clear H
  | H : HFree <> HFree -> _ |- _ => clear H
  end.
Ltac crush :=
  unfold ginv, pc_inv, quiet, refs, vs in *; simpl in *;
  repeat match goal with H : _ /\ _ |- _ => destruct H end;
  use_imps;
  repeat split; intros; use_imps; try discriminate; try congruence; try lia; try tauto; try (now auto).

Lemma gstep_inv : forall v l s s', re_sp v || re_rd v = true -> ginv v s -> gstep v l s = Some s' -> ginv v s'.
Proof.
  intros v l s s' Hv I H. destruct l; simpl in H.
  - eapply cstep_inv; eauto.
  - (* LEsp *) destruct s as [[p e r] d wn sl pc]. simpl in *.
    destruct sl; try discriminate. injection H as <-. destruct pc; crush.
  - (* LPsp *) destruct s as [[p e r] d wn sl pc]. simpl in *.
    destruct sl; try discriminate. injection H as <-. destruct pc; crush.
  - (* LCommit *) destruct s as [[p e r] d wn sl pc]. simpl in *.
    destruct sl; try discriminate. injection H as <-. destruct pc; crush.
  - (* LAbort *) destruct s as [[p e r] d wn sl pc]. simpl in *.
    destruct sl; try discriminate. injection H as <-. destruct pc; crush.
  - (* LDropEsp *) destruct s as [[p e r] d wn sl pc]. simpl in *.
    destruct (nz e) eqn:E; try discriminate. injection H as <-. apply nz_true in E.
    destruct pc; crush.
  - (* LDropRead *) destruct s as [[p e r] d wn sl pc]. simpl in *.
    destruct (nz r) eqn:E; try discriminate. injection H as <-. apply nz_true in E.
    destruct pc; crush.
Qed.

Lemma grun_inv : forall v ls s s', re_sp v || re_rd v = true -> ginv v s -> grun v ls s = Some s' -> ginv v s'.
Proof.
  intros v ls. induction ls as [|l ls IH]; intros s s' Hv I H; simpl in H.
  - inversion H; subst; exact I.
  - destruct (gstep v l s) as [s1|] eqn:E; [|discriminate].
    exact (IH s1 s' Hv (gstep_inv v l s s1 Hv I E) H).
Qed.

(* MAIN: for every interleaving of compact() with a writer that was already open, and with drops of existing
   objects, compact() gets past its guards only in a state without savepoints and readers, holding the write
   slot; this stays so until it returns.  It is enough that ONE of the two tracker re-checks is present. *)
Theorem guard_safe : forall v p e r w wn ls s,
  re_sp v || re_rd v = true ->
  grun v ls (ginit p e r w wn) = Some s -> answer s = ARan -> quiet s.
Proof.
  intros v p e r w wn ls s Hv H A.
  pose proof (grun_inv v ls _ _ Hv (ginit_inv v p e r w wn) H) as (_ & _ & C).
  unfold answer in A. unfold pc_inv in C. destruct (g_pc s); try discriminate; tauto.
Qed.

Corollary guard_safe_code : forall p e r w wn ls s,
  grun v_code ls (ginit p e r w wn) = Some s -> answer s = ARan -> quiet s /\ (g_pc s = CRun -> g_slot s = HCompact).
Proof.
  intros p e r w wn ls s H A. split; [exact (guard_safe v_code p e r w wn ls s eq_refl H A)|].
  pose proof (grun_inv v_code ls _ _ eq_refl (ginit_inv v_code p e r w wn) H) as (_ & _ & C).
  intros E. unfold pc_inv in C. rewrite E in C. tauto.
Qed.

(* the contrapositive the harness uses as its direct oracle: something exists when the run is decided =>
   the decision is a refusal *)
Corollary guard_refuses_live_object : forall p e r w wn ls s,
  grun v_code ls (ginit p e r w wn) = Some s ->
  (persistent_sp (g_trk s) <> 0 \/ ephemeral_sp (g_trk s) <> 0 \/ user_reads (g_trk s) <> 0) ->
  answer s <> ARan.
Proof.
  intros p e r w wn ls s H X A. destruct (guard_safe v_code p e r w wn ls s eq_refl H A) as (Q1 & Q2 & Q3 & _).
  tauto.
Qed.

(* refusing changes nothing but the program counter (and releases the slot if it was taken) *)
Lemma cstep_keeps_objects : forall v s s', cstep v s = Some s' ->
  g_trk s' = g_trk s /\ g_disk s' = g_disk s /\ g_wnew s' = g_wnew s.
Proof.
  intros v s s' H. unfold cstep in H.
  destruct (g_pc s); simpl in H;
    repeat match type of H with
    | context [if ?c then _ else _] => destruct c
    | context [match g_slot s with _ => _ end] => destruct (g_slot s)
    end; inversion H; subst; simpl; auto.
Qed.

(* the sequential guard of Model.v is the step machine run without interference *)
Lemma sequential_agrees : forall p e r,
  exists s, grun v_code [LC; LC; LC; LC; LC; LC; LC] (ginit p e r false 0) = Some s
    /\ answer s = match guard (mkTracker p e r) with Some x => ARefused x | None => ARan end.
Proof.
  intros p e r. unfold ginit, guard. simpl.
  unfold cstep at 1. simpl. rewrite N.add_0_r.
  destruct (nz p) eqn:E1; unfold nz in E1; rewrite E1; simpl.
  { eexists; split; reflexivity. }
  unfold cstep at 1; simpl. unfold vs; simpl.
  apply negb_false_iff, N.eqb_eq in E1. subst p. simpl.
  destruct (nz e) eqn:E2; unfold nz in E2; rewrite E2; simpl.
  { eexists; split; reflexivity. }
  apply negb_false_iff, N.eqb_eq in E2. subst e.
  unfold cstep at 1; simpl. unfold refs, vs; simpl. rewrite N.add_0_r.
  destruct (nz r) eqn:E3; unfold nz in E3; rewrite E3; simpl.
  { eexists; split; reflexivity. }
  apply negb_false_iff, N.eqb_eq in E3. subst r.
  eexists; split; reflexivity.
Qed.
