From Coq Require Import Extraction ExtrOcamlBasic.
From RV Require Import Conc.Shared Conc.Sched Conc.CommitGap.
Extraction Language OCaml.
Extraction "../ocaml/gen/c16_model.ml" sstep srun sinit sinit_tables sinit_full sblocked table_map lock_free
  ggrant gstart ginit faithful wf_init_b alloc_ok_b reach_ok_b.
