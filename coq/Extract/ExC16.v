From Coq Require Import Extraction ExtrOcamlBasic.
From RV Require Import Conc.Shared.
Extraction Language OCaml.
Extraction "../ocaml/gen/c16_model.ml" sstep srun sinit sinit_tables table_map lock_free.
