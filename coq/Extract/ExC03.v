From Coq Require Import Extraction ExtrOcamlBasic ExtrOcamlString.
From RV Require Import Conc.Sched Conc.Programs.
Extraction Language OCaml.
Extraction "../ocaml/gen/c03_model.ml" prun pstart init name_of steps_of close_steps.
