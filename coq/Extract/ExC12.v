From Coq Require Import Extraction ExtrOcamlBasic.
From RV Require Import Integrity.Merkle Integrity.Verdict.
Extraction Language OCaml.
Extraction "../ocaml/gen/c12_model.ml" verify read reach cov select recover slot_sum_ok trees_verify walk_depth
  hdr_ok stored_layout len_layout finalize_layout open_stage check_stage full.
