From Coq Require Import Extraction ExtrOcamlBasic.
From RV Require Import Integrity.Merkle.
Extraction Language OCaml.
Extraction "../ocaml/gen/c12_model.ml" verify read reach cov select recover slot_sum_ok trees_verify walk_depth.
