From Coq Require Import Extraction ExtrOcamlBasic.
From RV Require Import Compact.Model Compact.Guard Compact.Pass.
Extraction Language OCaml.
Extraction "../ocaml/gen/c13_model.ml" guard compact reloc abs grun ginit answer v_code
  pass_okP msr lexltb ren_paths pass compact_loop fpaths fids maxN packedb lowest_free.
