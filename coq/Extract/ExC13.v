From Coq Require Import Extraction ExtrOcamlBasic.
From RV Require Import Compact.Model.
Extraction Language OCaml.
Extraction "../ocaml/gen/c13_model.ml" guard compact reloc abs.
