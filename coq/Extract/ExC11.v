From Coq Require Import Extraction ExtrOcamlBasic.
From RV Require Import Reopen.Model Reopen.Snapshot.
Extraction Language OCaml.
Extraction "../ocaml/gen/c11_model.ml" open image_after_open primary check_integrity
  xstep xinit open_path closed_image commit_flags flag_image trusted required.
