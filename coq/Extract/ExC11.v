From Coq Require Import Extraction ExtrOcamlBasic.
From RV Require Import Reopen.Model.
Extraction Language OCaml.
Extraction "../ocaml/gen/c11_model.ml" open image_after_open primary check_integrity.
