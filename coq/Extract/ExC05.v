From Coq Require Import Extraction ExtrOcamlBasic.
From RV Require Import Txn.PSet Txn.Own Txn.Abandon Txn.Poison.
Extraction Language OCaml.
Extraction "../ocaml/gen/c05_model.ml" own_checkb step oracle_ok run abort bump pin_part is_body
  flags_after commit_result balb owned_c corrupt_outcome_ok corrupt_poison_ok.
