From Coq Require Import Extraction ExtrOcamlBasic.
From RV Require Import Storage.Latch Storage.Cache.
Extraction Language OCaml.
Extraction "../ocaml/gen/cache_model.ml"
  step run init_state o_none proto_step proto_fail g_init protocol_ok stripe STRIPES
  blen fread fget sum_rc sum_some.
