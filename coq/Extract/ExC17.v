From Coq Require Import Extraction ExtrOcamlBasic.
From RV Require Import Base.Bytes Multimap.Spec Catalog.Model Catalog.Spec.
Extraction Language OCaml.
Extraction "../ocaml/gen/c17_model.ml" Catalog.Model.model_step Catalog.Spec.spec_step c_init sp_init Catalog.Spec.abs_state.
