From Coq Require Import Extraction ExtrOcamlBasic.
From RV Require Import Base.Bytes Alloc.Bitmap Alloc.Buddy Alloc.Region.
Extraction Language OCaml.
Extraction "../ocaml/gen/c14_model.ml"
  u_new_full u_to_vec u_from_bytes u_from_bytes_pre u_get u_set u_clear u_resize u_count_unset u_any_unset
  bt_new bt_new_padded bt_from_bytes bt_to_vec bt_len bt_get bt_set bt_clear bt_alloc bt_find_first_unset
  bt_count_unset bt_has_unset bt_resize bt_resize_pre height_for_capacity
  buddy_new buddy_new_pre buddy_alloc buddy_alloc_lowest buddy_free buddy_free_pre buddy_record_alloc
  buddy_resize buddy_resize_pre highest_free_order count_free_pages count_allocated_pages find_free_order
  trailing_free_pages trailing_free_pages_pre consistentb buddy_to_vec buddy_from_bytes
  tracker_new tracker_to_vec tracker_from_bytes tracker_find_free tracker_mark_free tracker_mark_full
  tracker_resize tracker_len tracker_bit
  layout_calculate reduce_last_region num_regions region_pages allocators_new resize_to
  mem_new mem_allocate mem_free mem_record_alloc mem_try_shrink grow_layout initial_layout N.ltb.
