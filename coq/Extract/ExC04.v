From Coq Require Import Extraction ExtrOcamlBasic.
From RV Require Import Base.Bytes Base.SortedMap Btree.Tree Btree.Read Btree.Inst Btree.Mutator Btree.Shape Btree.ShapeInst Btree.Guard Btree.ShapeGuard Btree.Scan Btree.ShapeScan.
Extraction Language OCaml.
Extraction "../ocaml/gen/c04_model.ml"
  SortedMap.get SortedMap.insert SortedMap.remove SortedMap.range SortedMap.bounds_empty
  SortedMap.iter_next SortedMap.iter_next_back SortedMap.first SortedMap.last
  SortedMap.pop_first SortedMap.pop_last SortedMap.len SortedMap.retain SortedMap.retain_in
  SortedMap.ext_begin SortedMap.ext_next SortedMap.ext_next_back SortedMap.ext_finish SortedMap.sortedb
  Inst.key_cmp Inst.pred_mod Inst.key_of_u64_bytes Inst.key_size Inst.val_size
  Bytes.le_decode Bytes.le_encode
  Shape.erase_tree Shape.s_commit Shape.s_insert Shape.s_delete Shape.s_pop_first Shape.s_pop_last
  Tree.abs_tree Shape.s_insert_tag Shape.s_delete_tag_list
  ShapeScan.s_extract_new ShapeScan.s_extract_next ShapeScan.s_extract_close ShapeInst.entry_eqb
  ShapeScan.s_retain_in ShapeScan.sb_leaves Scan.scan_retain_in ShapeScan.s_seek ShapeScan.s_flush ShapeScan.s_splice
  ShapeScan.s_has_parent ShapeScan.s_more_children ShapeScan.s_underfilling ShapeScan.s_packs
  ShapeGuard.s_apply_gop ShapeGuard.s_get_mut ShapeGuard.s_guard_set ShapeGuard.s_guard_tag ShapeInst.m_apply_gop ShapeInst.blank_bytes
  Shape.s_oracle Shape.sempty Shape.order_for Shape.alloc_for
  ShapeInst.key_sep_left ShapeInst.key_sep_bytes ShapeInst.key_sep_str
  ShapeInst.m_insert ShapeInst.m_delete ShapeInst.m_tree_checkb
  ShapeInst.m_retain_in ShapeInst.m_extract_new ShapeInst.m_extract_next ShapeInst.m_extract_close
  Mutator.leaf_required Mutator.leaf_bytes Mutator.branch_required.
