From Coq Require Import Extraction ExtrOcamlBasic.
From RV Require Import Base.Bytes Base.SortedMap Btree.Tree Btree.Read Btree.Inst.
Extraction Language OCaml.
Extraction "../ocaml/gen/c04_model.ml"
  SortedMap.get SortedMap.insert SortedMap.remove SortedMap.range SortedMap.bounds_empty
  SortedMap.iter_next SortedMap.iter_next_back SortedMap.first SortedMap.last
  SortedMap.pop_first SortedMap.pop_last SortedMap.len SortedMap.retain SortedMap.retain_in
  SortedMap.ext_begin SortedMap.ext_next SortedMap.ext_next_back SortedMap.ext_finish SortedMap.sortedb
  Inst.key_cmp Inst.pred_mod Inst.key_of_u64_bytes Inst.key_size
  Bytes.le_decode Bytes.le_encode.
