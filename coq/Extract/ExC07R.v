From Coq Require Import Extraction ExtrOcamlBasic.
From RV Require Import Txn.PSet Txn.Own Txn.AllocRec.
Extraction Language OCaml.
Extraction "../ocaml/gen/c07r_model.ml" step2 oracle_ok2 rinv_checkb own_checkb restore_rec restore_rec_ge rinit init step oracle_ok
  balb inclb disjb seteqb nodupb pin_okb pend_okb keys_leb veqb
  owned_c owned_w cover_c cover_w scover_c scover_w
  sp_pinb nodupN rec_okb o5cb o5wb recs RC r_flush oldest_excl.
