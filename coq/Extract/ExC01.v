From Coq Require Import Extraction ExtrOcamlBasic.
From RV Require Import Base.Bytes Storage.Backend Storage.Header Storage.Window Storage.Protocol.
Extraction Language OCaml.
Extraction "../ocaml/gen/c01_model.ml"
  abs aop_of_write window_okb c_shape c_static c_uniform c_versions c_cow c_lens c_rr c_leaves c_new leaf_ok
  old_stat names_q first_is_q
  dP dQ dgod wgod wq next_hdr next_len hdrs pages setlens
  recover select cks_ok ver slot_at slot_txid god flag hget bytes_eqb finalize_ok geom_ok len_valid
  run_step recovery_run select_primary parse_hdr enc_hdr hm_god hm_slot cur_len a_start layout_at step_okb inv_b.
