From Coq Require Import Extraction ExtrOcamlBasic.
From RV Require Import Base.Bytes Storage.Backend Storage.Header Storage.Window Storage.Protocol Storage.Latch
  Storage.FaultCommit.
Extraction Language OCaml.
Extraction "../ocaml/gen/c08_model.ml"
  log_okb log_check l_init lstep lrun
  dstep drun d_open begin_write_allowed
  step_f commit_f close_f recovery_f fail_at first_fail step_calls recovery_calls nwindows_before f_init
  run_step recovery_run all_windows open_window select_primary parse_hdr enc_hdr hm_god hm_slot cur_len layout_at
  hget flag abs bytes_eqb.
