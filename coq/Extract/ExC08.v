From Coq Require Import Extraction ExtrOcamlBasic.
From RV Require Import Storage.Latch Storage.Contract.
Extraction Language OCaml.
Extraction "../ocaml/gen/c08_model.ml"
  log_okb log_check l_init lstep lrun
  dstep drun d_open begin_write_allowed
  contract_okb prefix_okb first_bad m_init.
