From Coq Require Import Extraction ExtrOcamlBasic.
From RV Require Import Base.Bytes Types.KeyTypes.
Extraction Language OCaml.
Extraction "../ocaml/gen/c15_model.ml" encode decode kcompare vcompare separator le_encode le_decode.
