From Coq Require Import Extraction ExtrOcamlBasic.
From RV Require Import Base.Bytes.
From RV.Types Require Import Utf8 KeyTypes.
Extraction Language OCaml.
Extraction "../ocaml/gen/c15_model.ml"
  wf_ty wt encode decode kcompare vcompare separator branch_separator min_encoded_key fixed_width
  le_encode le_decode utf8_encode utf8_decode.
