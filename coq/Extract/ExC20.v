From Coq Require Import Extraction ExtrOcamlBasic.
From RV Require Import Storage.Contract Storage.Layout Storage.Shutdown.
Extraction Language OCaml.
Extraction "../ocaml/gen/c20_model.ml"
  contract_okb prefix_okb first_bad m_init run_okb
  dl_calculate dl_recalculate dl_num_regions dl_len dl_usable dl_region_base dl_region_layout
  dl_reduce_last dl_norm layout_from_file_len address_range mem_address_range in_layoutb valid_layoutb
  hrun h_init h_quiescent
  model_steps s_new timing_check t_new trun expected_closes.
