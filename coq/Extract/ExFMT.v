From Coq Require Import Extraction ExtrOcamlBasic ExtrOcamlString.
From RV Require Import Base.Bytes Gen.Consts Format.Xxh3 Format.Codec Format.Pages Format.Records
  Format.KeyCmp Format.Decode Format.WF Format.Example Format.TreeWriter Format.TreeShape Format.ImageWriter.
Extraction Language OCaml.
Extraction "../ocaml/gen/fmt_model.ml"
  xxh3_128 decode_header decode_db decode_db_at decode_chunks decode_chunks_at header_bytes chunks_of wf_dbb wf_imageb wf_explain unknown_order_tables
  reach forest_pages table_pages table_contents table_num_values tree_pages entries
  pagelist_table savepoints alloc_state next_savepoint_id pending_free
  page_start page_end page_len layout_len geom_of_header choose_geom god_primary god_recovery god_2pc
  slot_of slot_sum_computed slot_offset
  encode_leaf encode_branch encode_tabledef encode_slot encode_header encode_pagenum decode_pagenum
  encode_bhdr decode_bhdr encode_page_list decode_page_list encode_savepoint decode_savepoint
  decode_leaf decode_branch decode_tabledef decode_collection cmp_of_typename
  NAME_DATA_FREED NAME_SYSTEM_FREED NAME_DATA_ALLOCATED NAME_SAVEPOINTS NAME_NEXT_SAVEPOINT NAME_ALLOCATOR_STATE
  ex_image_of TRANSACTION_SIZE le_encode le_decode takeN dropN lenN
  encode_tree finalize tree_image tree_header limits_okb writer_okb wnode_len wpages wnodes wheight find_table db1_image db1_okb.
