From Coq Require Import Extraction ExtrOcamlBasic.
From RV Require Import Base.Bytes Base.SortedMap Btree.Inst Btree.Tree Btree.Read Btree.Mutator Btree.Shape Btree.ShapeInst
                       Btree.Scan Btree.ShapeScan Btree.Cursor Btree.CursorSplice Btree.ShapeCursor Gen.Consts.
Extraction Language OCaml.
Extraction "../ocaml/gen/c18_model.ml"
  SortedMap.get SortedMap.insert SortedMap.remove SortedMap.range
  SortedMap.iter_next SortedMap.iter_next_back SortedMap.first SortedMap.last SortedMap.len SortedMap.sortedb
  SortedMap.seek_lower SortedMap.seek_upper SortedMap.cursor_map SortedMap.cursor_step
  Inst.key_cmp Inst.key_of_u64_bytes Inst.key_size Inst.val_size
  Bytes.le_decode Bytes.le_encode
  (* shape mode: the splice model on the decorated tree, its logical twin, the checker *)
  ShapeCursor.s_session ShapeCursor.s_splice_insert_run CursorSplice.t_session CursorSplice.open_pos CursorSplice.gap_pos
  Shape.erase_tree Shape.sempty Shape.order_for Shape.alloc_for Shape.keys_size ShapeScan.sb_leaves
  ShapeInst.key_sep_left ShapeInst.key_sep_bytes ShapeInst.key_sep_str ShapeInst.m_tree_checkb
  Tree.abs_tree Mutator.leaf_required Mutator.leaf_bytes Mutator.branch_required
  Consts.INSERT_FLUSH_BYTES.
