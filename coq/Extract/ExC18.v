From Coq Require Import Extraction ExtrOcamlBasic.
From RV Require Import Base.Bytes Base.SortedMap Btree.Inst.
Extraction Language OCaml.
Extraction "../ocaml/gen/c18_model.ml"
  SortedMap.get SortedMap.insert SortedMap.remove SortedMap.range
  SortedMap.iter_next SortedMap.iter_next_back SortedMap.first SortedMap.last SortedMap.len SortedMap.sortedb
  SortedMap.seek_lower SortedMap.seek_upper SortedMap.cursor_map SortedMap.cursor_step
  Inst.key_cmp Inst.key_of_u64_bytes Inst.key_size
  Bytes.le_decode Bytes.le_encode.
