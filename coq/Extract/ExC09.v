From Coq Require Import Extraction ExtrOcamlBasic.
From RV Require Import Base.Bytes Multimap.Spec Multimap.Model Multimap.Inst Multimap.Subtree Multimap.SubtreeInst.
Extraction Language OCaml.
Extraction "../ocaml/gen/c09_model.ml" spec_step model_step s_empty m_empty abs_state rep_of am_range kv_cmp kv_len vals stored_count
  kv_tl_step kv_tl_empty kv_tl_rep kv_tl_abs kv_tl_check kv_sub_height.
