From Coq Require Import Extraction ExtrOcamlBasic.
From RV Require Import Txn.PSet Txn.Own.
Extraction Language OCaml.
Extraction "../ocaml/gen/c06_model.ml" own_checkb step oracle_ok run init
  balb inclb disjb seteqb nodupb pin_okb pend_okb keys_leb veqb
  owned_c owned_w cover_c cover_w scover_c scover_w epilogue_runs commit_dur_mid.
