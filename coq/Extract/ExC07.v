From Coq Require Import Extraction ExtrOcamlBasic.
From RV Require Import Savepoint.Model.
Extraction Language OCaml.
Extraction "../ocaml/gen/c07_model.ml" init step run user_refs.
