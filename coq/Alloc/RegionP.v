(* C14 proofs, part 8: the optimistic region tracker.
   tracker_sound: the allocate / free / reserve bookkeeping of page_manager.rs (allocate_helper_retry,
   free_helper, mark_page_allocated) never leaves a region marked full at order k while it holds a free
   block of order >= k. *)
From Coq Require Import List NArith Bool Lia.
From RV Require Import Base.Bytes Gen.Consts Alloc.Bitmap Alloc.BitmapP Alloc.TreeP Alloc.Buddy Alloc.BuddyP
  Alloc.ResizeP Alloc.LowestP Alloc.Region.
Import ListNotations.
Open Scope N_scope.

(* ---------------------------------------------------------------- has_free only shrinks when space is taken *)

Lemma has_free_shrink L a a' j :
  BInvL L a -> shape L a' -> bmax a' = bmax a -> (forall p, pfree a' p -> pfree a p) ->
  has_free a' j -> exists j', j <= j' /\ has_free a j'.
Proof.
  intros Hinv Hs' Hmax Hsub [i F].
  destruct (fr_lt L a' j i Hs' F) as [Hj _].
  assert (blk_free a j i) as Hb.
  { intros p Hp. apply Hsub. eapply fr_pfree; eauto. }
  destruct (blk_free_marked L a Hinv j ltac:(lia) i Hb) as [j' [J1 [J2 J3]]].
  exists j'. split; [exact J1|]. eexists; eauto.
Qed.

Lemma has_free_after_free L a a' k i o j :
  BInvL L a -> BInvL L a' -> bmax a' = bmax a -> k <= o ->
  fr a' o (i / 2 ^ (o - k)) = true ->
  (forall p, pfree a' p <-> pfree a p \/ p / 2 ^ k = i) ->
  has_free a' j -> (exists j', j <= j' /\ has_free a j') \/ j = o.
Proof.
  intros Hinv Hinv' Hmax Hko Fo Hp [y F]. pose proof Hinv' as (Hs' & Hn' & _).
  destruct (fr_lt L a' j y Hs' F) as [Hj _].
  (* does block j/y touch the freed block? *)
  destruct (N.eq_dec ((y * 2 ^ j) / 2 ^ k) i) as [E|E]; [|destruct (N.le_gt_cases j k) as [Hjk|Hjk]].
  - (* page y*2^j lies in the freed block, hence in the merged block o: the same mark *)
    right. set (p := y * 2 ^ j) in *.
    assert (p / 2 ^ o = i / 2 ^ (o - k)) as Eo by (apply anc_contains; assumption).
    assert (p / 2 ^ j = y) as Ej by (apply mul_pow_div_same).
    apply (free_order_unique a' p j o Hn'); [now rewrite Ej|now rewrite Eo].
  - (* j <= k and the first page is outside the freed block: the whole block j/y is outside *)
    left. assert (blk_free a j y) as Hb.
    { intros p Ep. assert (pfree a' p) as Fp by (eapply fr_pfree; eauto).
      apply Hp in Fp. destruct Fp as [Fp|Fp]; [exact Fp|]. exfalso. apply E.
      rewrite <- Fp, <- Ep. rewrite mul_pow_div by exact Hjk.
      rewrite (div_pow_split p j k Hjk). reflexivity. }
    destruct (blk_free_marked L a Hinv j ltac:(lia) y Hb) as [j' [J1 [J2 J3]]].
    exists j'. split; [exact J1|]. eexists; eauto.
  - (* j > k: block j/y either contains the freed block or is disjoint from it *)
    destruct (N.eq_dec (i / 2 ^ (j - k)) y) as [Ey|Ey].
    + right. set (p := i * 2 ^ k).
      assert (p / 2 ^ k = i) as Ek by (apply mul_pow_div_same).
      assert (p / 2 ^ j = y) as Ej by (rewrite <- Ey; apply anc_contains; [lia|exact Ek]).
      assert (p / 2 ^ o = i / 2 ^ (o - k)) as Eo by (apply anc_contains; assumption).
      apply (free_order_unique a' p j o Hn'); [now rewrite Ej|now rewrite Eo].
    + left. assert (blk_free a j y) as Hb.
      { intros p Ep. assert (pfree a' p) as Fp by (eapply fr_pfree; eauto).
        apply Hp in Fp. destruct Fp as [Fp|Fp]; [exact Fp|]. exfalso. apply Ey.
        rewrite <- Ep. symmetry. apply anc_contains; [lia|exact Fp]. }
      destruct (blk_free_marked L a Hinv j ltac:(lia) y Hb) as [j' [J1 [J2 J3]]].
      exists j'. split; [exact J1|]. eexists; eauto.
Qed.

(* ---------------------------------------------------------------- tracker operations *)

(* well-formed tracker for R regions: every order's bitmap is a good tree with room for R regions *)
Definition twf (t : Tracker) (R : N) : Prop :=
  forall j, j < nlen t -> bt_ok (lget t j empty_bt) /\ R <= bt_len (lget t j empty_bt).

Lemma tracker_bit_lset t j b k r :
  j < nlen t -> tracker_bit (lset t j b) k r = if k =? j then bt_get b r else tracker_bit t k r.
Proof.
  intros H. unfold tracker_bit. rewrite lget_lset. apply N.ltb_lt in H. rewrite H, andb_true_r.
  destruct (k =? j); reflexivity.
Qed.

Lemma twf_lset t R j b : twf t R -> j < nlen t -> bt_ok b -> R <= bt_len b -> twf (lset t j b) R.
Proof.
  intros Hw Hj Hb Hl i Hi. rewrite nlen_lset in Hi. rewrite lget_lset.
  apply N.ltb_lt in Hj. rewrite Hj, andb_true_r. destruct (N.eqb_spec i j); [auto|]. apply Hw. exact Hi.
Qed.

Lemma mark_free_loop t R r : forall n lo,
  twf t R -> r < R -> lo + N.of_nat n <= nlen t ->
  let t' := fold_left (fun acc i => lset acc i (bt_clear (lget acc i empty_bt) r)) (orders_up n lo) t in
  twf t' R /\ nlen t' = nlen t
  /\ forall k r', tracker_bit t' k r' = if (lo <=? k) && (k <? lo + N.of_nat n) && (r' =? r) then false else tracker_bit t k r'.
Proof.
  intros n. revert t. induction n as [|n IH]; intros t lo Hw Hr Hn; cbn [orders_up fold_left].
  - split; [exact Hw|]. split; [reflexivity|]. intros k r'.
    replace (k <? lo + N.of_nat 0) with (k <? lo) by (f_equal; lia).
    destruct (N.leb_spec lo k), (N.ltb_spec k lo); try lia; reflexivity.
  - destruct (Hw lo ltac:(lia)) as [Hok Hl].
    assert (r < bt_len (lget t lo empty_bt)) as Hr' by lia.
    set (t1 := lset t lo (bt_clear (lget t lo empty_bt) r)).
    assert (twf t1 R) as Hw1.
    { apply twf_lset; [exact Hw|lia|now apply bt_clear_ok|]. rewrite bt_clear_len; [exact Hl|apply Hok|exact Hr']. }
    specialize (IH t1 (lo + 1) Hw1 Hr ltac:(unfold t1; rewrite nlen_lset; lia)).
    cbv zeta in IH. destruct IH as (I1 & I2 & I3).
    split; [exact I1|]. split; [rewrite I2; unfold t1; apply nlen_lset|].
    intros k r'. rewrite I3. unfold t1. rewrite tracker_bit_lset by lia.
    rewrite bt_clear_get; [|apply Hok|exact Hr'].
    destruct (N.eqb_spec k lo) as [->|Hne].
    + assert (lo + 1 <=? lo = false) as -> by (apply N.leb_gt; lia). cbn [andb].
      assert (lo <=? lo = true) as -> by (apply N.leb_le; lia).
      assert (lo <? lo + N.of_nat (S n) = true) as -> by (apply N.ltb_lt; lia). cbn [andb].
      unfold tracker_bit. destruct (r' =? r); reflexivity.
    + replace (lo + 1 + N.of_nat n) with (lo + N.of_nat (S n)) by lia.
      destruct (N.leb_spec (lo + 1) k), (N.leb_spec lo k); try lia; reflexivity.
Qed.

Lemma tracker_mark_free_spec t R k r :
  twf t R -> r < R -> k < nlen t ->
  let t' := tracker_mark_free t k r in
  twf t' R /\ nlen t' = nlen t
  /\ forall j r', tracker_bit t' j r' = if (j <=? k) && (r' =? r) then false else tracker_bit t j r'.
Proof.
  intros Hw Hr Hk. unfold tracker_mark_free.
  pose proof (mark_free_loop t R r (S (N.to_nat k)) 0 Hw Hr ltac:(lia)) as S. cbv zeta in S.
  destruct S as (S1 & S2 & S3). split; [exact S1|]. split; [exact S2|].
  intros j r'. rewrite S3.
  assert ((0 <=? j) && (j <? 0 + N.of_nat (S (N.to_nat k))) = (j <=? k)) as ->.
  { destruct (N.leb_spec 0 j), (N.ltb_spec j (0 + N.of_nat (S (N.to_nat k)))), (N.leb_spec j k); try lia; reflexivity. }
  reflexivity.
Qed.

Lemma mark_full_loop t R r : forall n lo,
  twf t R -> r < R -> lo + N.of_nat n <= nlen t ->
  let t' := fold_left (fun acc i => lset acc i (bt_set (lget acc i empty_bt) r)) (orders_up n lo) t in
  twf t' R /\ nlen t' = nlen t
  /\ forall k r', tracker_bit t' k r' = if (lo <=? k) && (k <? lo + N.of_nat n) && (r' =? r) then true else tracker_bit t k r'.
Proof.
  intros n. revert t. induction n as [|n IH]; intros t lo Hw Hr Hn; cbn [orders_up fold_left].
  - split; [exact Hw|]. split; [reflexivity|]. intros k r'.
    replace (k <? lo + N.of_nat 0) with (k <? lo) by (f_equal; lia).
    destruct (N.leb_spec lo k), (N.ltb_spec k lo); try lia; reflexivity.
  - destruct (Hw lo ltac:(lia)) as [Hok Hl].
    assert (r < bt_len (lget t lo empty_bt)) as Hr' by lia.
    set (t1 := lset t lo (bt_set (lget t lo empty_bt) r)).
    assert (twf t1 R) as Hw1.
    { apply twf_lset; [exact Hw|lia|now apply bt_set_ok|]. rewrite bt_set_len; [exact Hl|apply Hok|exact Hr']. }
    specialize (IH t1 (lo + 1) Hw1 Hr ltac:(unfold t1; rewrite nlen_lset; lia)).
    cbv zeta in IH. destruct IH as (I1 & I2 & I3).
    split; [exact I1|]. split; [rewrite I2; unfold t1; apply nlen_lset|].
    intros k r'. rewrite I3. unfold t1. rewrite tracker_bit_lset by lia.
    rewrite bt_set_get; [|apply Hok|exact Hr'].
    destruct (N.eqb_spec k lo) as [->|Hne].
    + assert (lo + 1 <=? lo = false) as -> by (apply N.leb_gt; lia). cbn [andb].
      assert (lo <=? lo = true) as -> by (apply N.leb_le; lia).
      assert (lo <? lo + N.of_nat (S n) = true) as -> by (apply N.ltb_lt; lia). cbn [andb].
      unfold tracker_bit. destruct (r' =? r); reflexivity.
    + replace (lo + 1 + N.of_nat n) with (lo + N.of_nat (S n)) by lia.
      destruct (N.leb_spec (lo + 1) k), (N.leb_spec lo k); try lia; reflexivity.
Qed.

Lemma tracker_mark_full_spec t R k r :
  twf t R -> r < R -> k <= nlen t ->
  let t' := tracker_mark_full t k r in
  twf t' R /\ nlen t' = nlen t
  /\ forall j r', tracker_bit t' j r' = if (k <=? j) && (j <? nlen t) && (r' =? r) then true else tracker_bit t j r'.
Proof.
  intros Hw Hr Hk. unfold tracker_mark_full.
  pose proof (mark_full_loop t R r (N.to_nat (nlen t - k)) k Hw Hr ltac:(lia)) as S. cbv zeta in S.
  destruct S as (S1 & S2 & S3). split; [exact S1|]. split; [exact S2|].
  intros j r'. rewrite S3. replace (k + N.of_nat (N.to_nat (nlen t - k))) with (nlen t) by lia. reflexivity.
Qed.

(* find_free returns a region whose bit is clear, or None when every bit is set *)
Lemma tracker_find_free_spec t R k :
  twf t R -> k < nlen t ->
  match tracker_find_free t k with
  | Some r => tracker_bit t k r = false
  | None => forall r, tracker_bit t k r = true
  end.
Proof.
  intros Hw Hk. unfold tracker_find_free, tracker_bit. destruct (Hw k Hk) as [Hok _].
  pose proof (bt_find_spec _ Hok) as S. destruct (bt_find_first_unset _); tauto.
Qed.

(* ---------------------------------------------------------------- the invariant *)

Definition reg (al : Allocators) (r : N) : Buddy := lget (regs al) r dummy_buddy.

Definition tinv (al : Allocators) : Prop :=
  let R := nlen (regs al) in
  twf (trk al) R
  /\ (forall r, r < R -> BInv (reg al r) /\ bmax (reg al r) < nlen (trk al))
  /\ (forall k r, R <= r -> tracker_bit (trk al) k r = true)                       (* non-existent regions are full *)
  /\ (forall r k, r < R -> (exists j, k <= j /\ has_free (reg al r) j) -> tracker_bit (trk al) k r = false).

Lemma reg_lset al r a r' :
  r < nlen (regs al) -> lget (lset (regs al) r a) r' dummy_buddy = if r' =? r then a else reg al r'.
Proof.
  intros H. unfold reg. rewrite lget_lset. apply N.ltb_lt in H. rewrite H, andb_true_r. reflexivity.
Qed.

(* taking space out of region r (alloc, alloc_lowest, record_alloc) keeps the invariant with the tracker untouched *)
Lemma tinv_take al r a' :
  tinv al -> r < nlen (regs al) ->
  BInv a' -> bmax a' = bmax (reg al r) -> blen a' = blen (reg al r) ->
  (forall p, pfree a' p -> pfree (reg al r) p) ->
  tinv (mkAllocators (trk al) (lset (regs al) r a')).
Proof.
  intros (T1 & T2 & T3 & T4) Hr Hinv Hmax Hlen Hsub. unfold tinv. cbn [trk regs]. rewrite nlen_lset.
  split; [exact T1|]. split; [|split; [exact T3|]].
  - intros r' Hr'. unfold reg. cbn [regs]. rewrite reg_lset by exact Hr.
    destruct (N.eqb_spec r' r) as [->|]; [|apply T2; exact Hr'].
    split; [exact Hinv|]. rewrite Hmax. apply T2. exact Hr.
  - intros r' k Hr' [j [Hj Hf]]. unfold reg in Hf. cbn [regs] in Hf. rewrite reg_lset in Hf by exact Hr.
    destruct (N.eqb_spec r' r) as [->|]; [|apply T4; [exact Hr'|eauto]].
    destruct (T2 r Hr) as [Hi _].
    assert (shape (blen (reg al r)) a') as Hs' by (destruct Hinv as [Hs' _]; rewrite <- Hlen; exact Hs').
    destruct (has_free_shrink _ (reg al r) a' j Hi Hs' Hmax Hsub Hf) as [j' [J1 J2]].
    apply T4; [exact Hr|]. exists j'. split; [lia|exact J2].
Qed.

(* a refusal by region r at order k justifies marking it full from k upwards *)
Lemma tinv_mark_full al r k :
  tinv al -> r < nlen (regs al) -> k < nlen (trk al) ->
  (forall j, k <= j -> ~ has_free (reg al r) j) ->
  tinv (mkAllocators (tracker_mark_full (trk al) k r) (regs al)).
Proof.
  intros (T1 & T2 & T3 & T4) Hr Hk Hnone. unfold tinv. cbn [trk regs].
  destruct (tracker_mark_full_spec (trk al) _ k r T1 Hr ltac:(lia)) as (M1 & M2 & M3).
  split; [exact M1|]. split; [intros r' Hr'; rewrite M2; apply T2; exact Hr'|]. split.
  - intros j r' Hr'. rewrite M3. destruct (_ && _); [reflexivity|]. apply T3. exact Hr'.
  - intros r' j Hr' Hex. rewrite M3.
    destruct ((k <=? j) && (j <? nlen (trk al)) && (r' =? r)) eqn:C; [|apply T4; assumption].
    exfalso. apply andb_true_iff in C. destruct C as [C C3]. apply andb_true_iff in C. destruct C as [C1 C2].
    apply N.leb_le in C1. apply N.eqb_eq in C3. subst r'.
    destruct Hex as [j' [J1 J2]]. apply (Hnone j'); [lia|exact J2].
Qed.

Theorem allocate_retry_tinv fuel : forall al k lowest,
  tinv al -> k < nlen (trk al) -> tinv (snd (allocate_retry fuel al k lowest)).
Proof.
  induction fuel as [|f IH]; intros al k lowest Hinv Hk; cbn [allocate_retry]; [exact Hinv|].
  pose proof Hinv as (T1 & T2 & T3 & T4).
  pose proof (tracker_find_free_spec (trk al) _ k T1 Hk) as Sf.
  destruct (tracker_find_free (trk al) k) as [r|]; [|exact Hinv].
  assert (r < nlen (regs al)) as Hr.
  { destruct (N.lt_ge_cases r (nlen (regs al))); [assumption|]. rewrite T3 in Sf by assumption. discriminate. }
  destruct (T2 r Hr) as [Hb Hm]. fold (reg al r).
  assert (match (if lowest then buddy_alloc_lowest (reg al r) k else buddy_alloc (reg al r) k) with
          | (Some x, a') => BInv a' /\ bmax a' = bmax (reg al r) /\ blen a' = blen (reg al r)
                            /\ (forall p, pfree a' p -> pfree (reg al r) p)
          | (None, a') => a' = reg al r /\ forall j, k <= j -> ~ has_free (reg al r) j
          end) as S.
  { destruct lowest.
    - pose proof (alloc_lowest_spec (reg al r) k Hb) as S. destruct (buddy_alloc_lowest (reg al r) k) as [[x|] a']; [|exact S].
      destruct S as (S1 & S2 & S3 & _ & _ & _ & S7). split; [exact S1|]. split; [exact S2|]. split; [exact S3|]. intros p Hp. apply S7 in Hp. tauto.
    - pose proof (alloc_spec (reg al r) k Hb) as S. destruct (buddy_alloc (reg al r) k) as [[x|] a']; [|exact S].
      destruct S as (S1 & S2 & S3 & _ & _ & _ & S7). split; [exact S1|]. split; [exact S2|]. split; [exact S3|]. intros p Hp. apply S7 in Hp. tauto. }
  destruct (if lowest then buddy_alloc_lowest (reg al r) k else buddy_alloc (reg al r) k) as [[x|] a'].
  - cbn [snd]. destruct S as (S1 & S2 & S3 & S4). now apply tinv_take.
  - destruct S as [-> Hnone].
    assert (lset (regs al) r (reg al r) = regs al) as E.
    { apply (list_ext _ _ dummy_buddy); [apply nlen_lset|]. intros i Hi. rewrite lget_lset.
      destruct (N.eqb_spec i r) as [->|]; [|reflexivity]. destruct (_ <? _); reflexivity. }
    rewrite E. apply IH.
    + now apply tinv_mark_full.
    + cbn [trk]. destruct (tracker_mark_full_spec (trk al) _ k r T1 Hr ltac:(lia)) as (_ & M2 & _). now rewrite M2.
Qed.

(* the file is grown only when no region has a free block of the order or above *)
Theorem retry_none_all_full al k :
  tinv al -> k < nlen (trk al) -> tracker_find_free (trk al) k = None ->
  forall r, r < nlen (regs al) -> forall j, k <= j -> ~ has_free (reg al r) j.
Proof.
  intros (T1 & T2 & T3 & T4) Hk Hnone r Hr j Hj Hf.
  pose proof (tracker_find_free_spec (trk al) _ k T1 Hk) as Sf. rewrite Hnone in Sf.
  specialize (Sf r). rewrite (T4 r k Hr) in Sf; [discriminate|eauto].
Qed.

(* free_helper: free in the region, then mark the region free at the merged order *)
Theorem mem_free_tinv m r i k :
  tinv (als m) -> r < nlen (regs (als m)) ->
  k <= bmax (reg (als m) r) -> i < blen (reg (als m) r) / 2 ^ k -> blk_used (reg (als m) r) k i ->
  tinv (als (mem_free m r i k)).
Proof.
  intros Hinv Hr Hk Hi Hu. pose proof Hinv as (T1 & T2 & T3 & T4). unfold mem_free. fold (reg (als m) r).
  destruct (T2 r Hr) as [Hb Hm].
  pose proof (free_spec (reg (als m) r) i k Hb Hk Hi Hu) as S.
  destruct (buddy_free (reg (als m) r) i k) as [o a']. cbn [als].
  destruct S as (S1 & S2 & S3 & S4 & S5 & S6 & S7 & _).
  destruct (tracker_mark_free_spec (trk (als m)) _ o r T1 Hr ltac:(lia)) as (M1 & M2 & M3).
  unfold tinv. cbn [trk regs]. rewrite nlen_lset.
  split; [exact M1|]. split; [|split].
  - intros r' Hr'. rewrite M2. unfold reg. cbn [regs]. rewrite reg_lset by exact Hr.
    destruct (N.eqb_spec r' r) as [->|]; [|apply T2; exact Hr']. split; [exact S1|lia].
  - intros j r' Hr'. rewrite M3. destruct (N.eqb_spec r' r) as [->|]; [lia|].
    rewrite andb_false_r. apply T3. exact Hr'.
  - intros r' j Hr' [j' [J1 J2]]. rewrite M3. unfold reg in J2. cbn [regs] in J2. rewrite reg_lset in J2 by exact Hr.
    destruct (N.eqb_spec r' r) as [->|Hne].
    + rewrite andb_true_r. destruct (N.leb_spec j o); [reflexivity|].
      assert (BInvL (blen (reg (als m) r)) a') as Hinv' by (unfold BInv in S1; rewrite S3 in S1; exact S1).
      destruct (has_free_after_free _ (reg (als m) r) a' k i o j' Hb Hinv' S2 S4 S6 S7 J2) as [[j2 [K1 K2]]|Ejo]; [|lia].
      apply T4; [exact Hr|]. exists j2. split; [lia|exact K2].
    + rewrite andb_false_r. apply T4; [exact Hr'|eauto].
Qed.

(* mark_page_allocated *)
Theorem mem_record_alloc_tinv m r i k : tinv (als m) -> tinv (als (snd (mem_record_alloc m r i k))).
Proof.
  intros Hinv. unfold mem_record_alloc.
  destruct (MAX_MAX_PAGE_ORDER <? k); [exact Hinv|].
  destruct (num_regions (lay m) <=? r); [exact Hinv|].
  destruct (region_pages (lay m) r <? (i + 1) * 2 ^ k); [exact Hinv|].
  fold (reg (als m) r).
  destruct (N.lt_ge_cases r (nlen (regs (als m)))) as [Hr|Hr].
  - pose proof Hinv as (_ & T2 & _). destruct (T2 r Hr) as [Hb _].
    pose proof (record_alloc_spec (reg (als m) r) i k Hb) as S.
    destruct (buddy_record_alloc (reg (als m) r) i k) as [[|] a']; [|exact Hinv]. cbn [snd als].
    destruct S as (S1 & S2 & S3 & _ & _ & _ & S7). apply tinv_take; try assumption.
    intros p Hp. apply S7 in Hp. tauto.
  - destruct (buddy_record_alloc (reg (als m) r) i k) as [[|] a']; [|exact Hinv]. cbn [snd als].
    rewrite lset_oob by exact Hr. destruct (als m). exact Hinv.
Qed.

(* ---------------------------------------------------------------- Allocators::new establishes the invariant *)

Lemma twf_weaken t R R' : twf t R' -> R <= R' -> twf t R.
Proof. intros H Hle j Hj. destruct (H j Hj). split; [assumption|lia]. Qed.

Lemma tracker_new_spec regions orders :
  twf (tracker_new regions orders) regions /\ nlen (tracker_new regions orders) = orders
  /\ forall k r, tracker_bit (tracker_new regions orders) k r = true.
Proof.
  unfold tracker_new.
  destruct (bt_new_padded_ok regions regions MAX_REGIONS (N.le_refl _)) as (H1 & H2 & H3).
  split; [|split].
  - intros j Hj. rewrite nlen_nrepeat in Hj. rewrite lget_nrepeat. apply N.ltb_lt in Hj. rewrite Hj.
    split; [exact H1|lia].
  - apply nlen_nrepeat.
  - intros k r. unfold tracker_bit. rewrite lget_nrepeat. destruct (k <? orders); [apply H3|reflexivity].
Qed.

Lemma lget_snoc {A} (l : list A) x i d : lget (l ++ [x]) i d = if i =? nlen l then x else lget l i d.
Proof.
  rewrite lget_app. destruct (N.ltb_spec i (nlen l)), (N.eqb_spec i (nlen l)); try lia; try reflexivity.
  - subst. now rewrite N.sub_diag.
  - rewrite !lget_oob; [reflexivity|lia|simpl; lia].
Qed.

(* adding a fresh region (from BuddyAllocator::new) and marking it free up to its max_order *)
Lemma tinv_push al IR n cap :
  tinv al -> twf (trk al) IR -> nlen (regs al) < IR -> nlen (trk al) = MAX_MAX_PAGE_ORDER + 1 ->
  let a := buddy_new n cap in
  let al' := mkAllocators (tracker_mark_free (trk al) (bmax a) (nlen (regs al))) (regs al ++ [a]) in
  tinv al' /\ twf (trk al') IR /\ nlen (trk al') = MAX_MAX_PAGE_ORDER + 1.
Proof.
  intros (T1 & T2 & T3 & T4) Hw HR Hn a al'. set (R := nlen (regs al)) in *.
  destruct (new_spec n cap) as (N1 & N2 & N3 & N4). fold a in N1, N2, N3, N4.
  assert (bmax a < nlen (trk al)) as Hm.
  { rewrite N3, Hn. unfold calculate_usable_order. lia. }
  destruct (tracker_mark_free_spec (trk al) IR (bmax a) R Hw HR Hm) as (M1 & M2 & M3).
  assert (nlen (regs al') = R + 1) as HR' by (unfold al'; cbn [regs]; rewrite nlen_app; simpl; lia).
  split; [|split; [exact M1|unfold al'; cbn [trk]; etransitivity; [exact M2|exact Hn]]].
  unfold tinv. rewrite HR'. subst al'. cbn [trk] in *.
  split; [apply (twf_weaken _ _ IR M1); lia|]. split; [|split].
  - intros r Hr. rewrite M2. unfold reg. cbn [regs]. rewrite lget_snoc. fold R.
    destruct (N.eqb_spec r R) as [->|]; [split; [exact N1|exact Hm]|]. apply T2. lia.
  - intros k r Hr. rewrite M3. destruct (N.eqb_spec r R) as [->|]; [lia|].
    rewrite andb_false_r. apply T3. lia.
  - intros r k Hr [j [J1 J2]]. rewrite M3. unfold reg in J2. cbn [regs] in J2. rewrite lget_snoc in J2. fold R in J2.
    destruct (N.eqb_spec r R) as [->|Hne].
    + rewrite andb_true_r. destruct (N.leb_spec k (bmax a)); [reflexivity|].
      destruct J2 as [i F]. destruct N1 as (Hs & _). destruct (fr_lt _ a j i Hs F). lia.
    + rewrite andb_false_r. apply T4; [lia|eauto].
Qed.

Lemma range_from_snoc n : forall lo, range_from (S n) lo = range_from n lo ++ [lo + N.of_nat n].
Proof.
  induction n; intros lo.
  - cbn [range_from app]. now rewrite N.add_0_r.
  - change (range_from (S (S n)) lo) with (lo :: range_from (S n) (lo + 1)).
    rewrite (IHn (lo + 1)). replace (lo + 1 + N.of_nat n) with (lo + N.of_nat (S n)) by lia. reflexivity.
Qed.

Theorem allocators_new_tinv l : tinv (allocators_new l).
Proof.
  unfold allocators_new.
  set (IR := N.max INITIAL_REGIONS (num_regions l)).
  set (f := fun acc i => let a := buddy_new (region_pages l i) (full_pages l) in
                         mkAllocators (tracker_mark_free (trk acc) (bmax a) i) (regs acc ++ [a])).
  destruct (tracker_new_spec IR (MAX_MAX_PAGE_ORDER + 1)) as (W1 & W2 & W3).
  set (al0 := mkAllocators (tracker_new IR (MAX_MAX_PAGE_ORDER + 1)) []).
  assert (forall m, N.of_nat m <= num_regions l ->
            let al := fold_left f (range_from m 0) al0 in
            tinv al /\ twf (trk al) IR /\ nlen (trk al) = MAX_MAX_PAGE_ORDER + 1 /\ nlen (regs al) = N.of_nat m) as H.
  { induction m as [|m IH]; intros Hm.
    - cbn [range_from fold_left]. split; [|split; [exact W1|split; [exact W2|reflexivity]]].
      unfold tinv, al0. cbn [trk regs nlen].
      split; [apply (twf_weaken _ _ IR W1); lia|]. split; [intros r Hr; lia|]. split; [intros; apply W3|intros r k Hr; lia].
    - specialize (IH ltac:(lia)). cbv zeta in IH. destruct IH as (I1 & I2 & I3 & I4).
      rewrite range_from_snoc, fold_left_app. cbn [fold_left]. rewrite N.add_0_l.
      set (al := fold_left f (range_from m 0) al0) in *.
      unfold f at 1. cbv zeta. rewrite <- I4.
      destruct (tinv_push al IR (region_pages l (nlen (regs al))) (full_pages l) I1 I2 ltac:(unfold IR; lia) I3) as (P1 & P2 & P3).
      split; [exact P1|]. split; [exact P2|]. split; [exact P3|].
      unfold f. cbn [regs]. rewrite nlen_app. cbn [nlen]. lia. }
  specialize (H (N.to_nat (num_regions l)) ltac:(lia)). cbv zeta in H. tauto.
Qed.
