(* C14 proofs: BuddyAllocator::trailing_free_pages (used by try_shrink) returns the exact length of the
   maximal run of free pages at the end of the region. *)
From Coq Require Import List NArith Bool Lia.
From RV Require Import Base.Bytes Gen.Consts Alloc.Bitmap Alloc.BitmapP Alloc.TreeP Alloc.Buddy Alloc.BuddyP Alloc.ResizeP.
Import ListNotations.
Open Scope N_scope.

(* ---------------------------------------------------------------- find_free_order *)

(* under shape, the in-range test of get_order_for_page is subsumed by the bit itself *)
Lemma ffo_test L a o i :
  shape L a -> o <= bmax a ->
  (i <? bt_len (ord a o)) && negb (bt_get (ord a o) i) = fr a o i.
Proof.
  intros [_ Hs] Ho. destruct (Hs o Ho) as [[Hok _] _]. unfold fr.
  destruct (bt_get (ord a o) i) eqn:G; simpl; [apply andb_false_r|].
  rewrite andb_true_r. apply N.ltb_lt. now apply bt_get_false_lt.
Qed.

Lemma ffo_loop_spec L a p : shape L a -> forall n lo,
  lo + N.of_nat n = bmax a + 1 ->
  match find_free_order_loop (orders_up n lo) a (p / 2 ^ lo) with
  | Some o => lo <= o /\ o <= bmax a /\ fr a o (p / 2 ^ o) = true
  | None => forall k, lo <= k -> k <= bmax a -> fr a k (p / 2 ^ k) = false
  end.
Proof.
  intros Hs. induction n as [|n IH]; intros lo Hlo; cbn [orders_up find_free_order_loop].
  - intros k H1 H2. lia.
  - rewrite (ffo_test L a lo _ Hs) by lia.
    destruct (fr a lo (p / 2 ^ lo)) eqn:F.
    + split; [lia|]. split; [lia|exact F].
    + unfold next_higher_order. rewrite <- div_pow_succ.
      specialize (IH (lo + 1) ltac:(lia)).
      destruct (find_free_order_loop (orders_up n (lo + 1)) a (p / 2 ^ (lo + 1))) as [o|].
      * destruct IH as (I1 & I2 & I3). split; [lia|]. split; assumption.
      * intros k H1 H2. destruct (N.eq_dec k lo) as [->|Hne]; [exact F|]. apply IH; lia.
Qed.

Lemma find_free_order_some L a p o :
  shape L a -> find_free_order a p = Some o -> o <= bmax a /\ fr a o (p / 2 ^ o) = true.
Proof.
  intros Hs H. pose proof (ffo_loop_spec L a p Hs (S (N.to_nat (bmax a))) 0 ltac:(lia)) as S.
  rewrite N.pow_0_r, N.div_1_r in S. unfold find_free_order in H. rewrite H in S. tauto.
Qed.

Lemma find_free_order_none L a p :
  shape L a -> find_free_order a p = None -> ~ pfree a p.
Proof.
  intros Hs H. pose proof (ffo_loop_spec L a p Hs (S (N.to_nat (bmax a))) 0 ltac:(lia)) as S.
  rewrite N.pow_0_r, N.div_1_r in S. unfold find_free_order in H. rewrite H in S.
  intros [k [Hk Hf]]. rewrite S in Hf by lia. discriminate.
Qed.

(* get_order_for_page is complete: a free page gets the (unique) order at which it is marked *)
Lemma find_free_order_pfree L a p :
  shape L a -> (pfree a p <-> exists o, find_free_order a p = Some o).
Proof.
  intros Hs. split.
  - intros Hp. destruct (find_free_order a p) as [o|] eqn:E; [now exists o|].
    exfalso. now apply (find_free_order_none L a p Hs E).
  - intros [o E]. destruct (find_free_order_some L a p o Hs E) as [Ho Hf]. now exists o.
Qed.

(* ---------------------------------------------------------------- the loop *)

Definition tstep (a : Buddy) (s : N * N * bool) : N * N * bool :=
  let '(fp, np, _) := s in
  match find_free_order a np with
  | None => (fp, np, true)
  | Some o =>
      let size := 2 ^ o in
      if np <? size then (fp + size, np, true) else (fp + size, np - size, false)
  end.

Lemma trailing_free_pages_eq a :
  trailing_free_pages a =
  fst (fst (while_fuel (S (N.to_nat (blen a))) (fun s => negb (snd s)) (tstep a) (0, blen a - 1, false))).
Proof.
  unfold trailing_free_pages. fold (tstep a).
  destruct (while_fuel _ _ _ _) as [[fp np] b]. reflexivity.
Qed.

(* np + 1 is the end of the region or the aligned start of a block marked free *)
Definition edge (a : Buddy) (e : N) : Prop :=
  e = blen a \/ exists o', fr a o' (e / 2 ^ o') = true /\ e mod 2 ^ o' = 0.

Definition tfp_inv (a : Buddy) (s : N * N * bool) : Prop :=
  let L := blen a in
  let fp := fst (fst s) in
  let np := snd (fst s) in
  if snd s then
    fp <= L /\ (forall q, L - fp <= q -> q < L -> pfree a q) /\ (fp < L -> ~ pfree a (L - fp - 1))
  else
    np < L /\ fp = L - 1 - np /\ (forall q, np < q -> q < L -> pfree a q) /\ edge a (np + 1).

Definition tmeasure (s : N * N * bool) : nat :=
  if snd s then O else S (N.to_nat (snd (fst s))).

(* the marked block containing np ends exactly at the edge np + 1 *)
Lemma block_ends_at_edge a np o :
  BInv a -> fr a o (np / 2 ^ o) = true -> edge a (np + 1) ->
  np + 1 = (np / 2 ^ o + 1) * 2 ^ o.
Proof.
  intros (Hs & Hn & _) Hf He. pose proof (pow2_pos o) as Hp.
  destruct (fr_lt _ a o _ Hs Hf) as [_ Hlt]. apply idx_range in Hlt.
  destruct He as [He|[o' [Hf' Hm]]].
  - dmod np (2 ^ o). nia.
  - destruct (N.eq_dec ((np + 1) / 2 ^ o) (np / 2 ^ o)) as [E|E].
    + exfalso. rewrite <- E in Hf.
      assert (o = o') by (eapply free_order_unique; eauto). subst o'.
      clear Hf Hf' Hlt. dmod (np + 1) (2 ^ o). dmod np (2 ^ o). nia.
    + clear Hf Hf' Hlt Hm. dmod (np + 1) (2 ^ o). dmod np (2 ^ o). nia.
Qed.

Lemma tstep_spec a s :
  BInv a -> tfp_inv a s -> negb (snd s) = true ->
  tfp_inv a (tstep a s) /\ (tmeasure (tstep a s) < tmeasure s)%nat.
Proof.
  intros Hinv Hi Hc. destruct s as [[fp np] b]. cbn [snd] in Hc. apply negb_true_iff in Hc. subst b.
  unfold tfp_inv in Hi. cbn [fst snd] in Hi. destruct Hi as (Hnp & Hfp & Hfree & He).
  pose proof Hinv as (Hs & Hn & _).
  unfold tstep. destruct (find_free_order a np) as [o|] eqn:E.
  - destruct (find_free_order_some _ a np o Hs E) as [Ho Hf].
    pose proof (block_ends_at_edge a np o Hinv Hf He) as Hend.
    pose proof (pow2_pos o) as Hp.
    assert (forall q, np / 2 ^ o * 2 ^ o <= q -> q <= np -> pfree a q) as Hblk.
    { intros q H1 H2. apply (fr_pfree a o (np / 2 ^ o)); [exact Ho|exact Hf|].
      symmetry. apply (N.div_unique q (2 ^ o) _ (q - np / 2 ^ o * 2 ^ o)); nia. }
    cbv zeta. destruct (N.ltb_spec np (2 ^ o)) as [Hlt|Hge].
    + (* the block starts at page 0: everything is free *)
      assert (np / 2 ^ o = 0) as Hz by (apply N.div_small; exact Hlt).
      rewrite Hz in Hend, Hblk. split; [|unfold tmeasure; cbn [fst snd]; lia].
      unfold tfp_inv. cbn [fst snd]. split; [lia|]. split; [|lia].
      intros q H1 H2. destruct (N.le_gt_cases q np); [apply Hblk; lia|apply Hfree; lia].
    + split; [|unfold tmeasure; cbn [fst snd]; lia].
      unfold tfp_inv. cbn [fst snd]. split; [lia|]. split; [lia|]. split.
      * intros q H1 H2. destruct (N.le_gt_cases q np); [apply Hblk; nia|apply Hfree; lia].
      * right. exists o.
        replace (np - 2 ^ o + 1) with (np / 2 ^ o * 2 ^ o) by nia.
        rewrite N.div_mul, N.mod_mul by lia. split; [exact Hf|reflexivity].
  - split; [|unfold tmeasure; cbn [fst snd]; lia].
    unfold tfp_inv. cbn [fst snd]. split; [lia|]. split.
    + intros q H1 H2. apply Hfree; lia.
    + intros _. replace (blen a - fp - 1) with np by lia.
      now apply (find_free_order_none _ a np Hs).
Qed.

(* ---------------------------------------------------------------- the specification *)

Theorem trailing_free_pages_spec a :
  BInv a -> 1 <= blen a ->
  let tf := trailing_free_pages a in
  tf <= blen a /\ (forall p, blen a - tf <= p -> p < blen a -> pfree a p)
  /\ (tf < blen a -> ~ pfree a (blen a - tf - 1)).
Proof.
  intros Hinv HL. cbv zeta. rewrite trailing_free_pages_eq.
  assert (tfp_inv a (0, blen a - 1, false)) as H0.
  { unfold tfp_inv. cbn [fst snd]. split; [lia|]. split; [lia|]. split; [intros; lia|]. left. lia. }
  assert (Nat.lt (tmeasure (0, blen a - 1, false)) (S (N.to_nat (blen a)))) as Hm0.
  { unfold tmeasure. cbn [fst snd]. lia. }
  destruct (while_fuel_spec (tfp_inv a) tmeasure (fun s => negb (snd s)) (tstep a)
              (fun s P C => tstep_spec a s Hinv P C) _ _ H0 Hm0) as [Pend Cend].
  destruct (while_fuel _ _ _ _) as [[fp np] b]. cbn [fst snd] in *.
  apply negb_false_iff in Cend. subst b. unfold tfp_inv in Pend. cbn [fst snd] in Pend. exact Pend.
Qed.

Corollary trailing_free_pages_sound a :
  BInv a -> 1 <= blen a ->
  trailing_free_pages a <= blen a
  /\ forall p, blen a - trailing_free_pages a <= p -> p < blen a -> pfree a p.
Proof. intros H HL. destruct (trailing_free_pages_spec a H HL) as (A & B & _). split; assumption. Qed.

(* the result is the length of the longest free suffix: any n such that the last n pages are all free
   is at most trailing_free_pages *)
Corollary trailing_free_pages_max a n :
  BInv a -> 1 <= blen a -> n <= blen a ->
  (forall p, blen a - n <= p -> p < blen a -> pfree a p) -> n <= trailing_free_pages a.
Proof.
  intros H HL Hn Hall. destruct (trailing_free_pages_spec a H HL) as (A & _ & C).
  destruct (N.le_gt_cases n (trailing_free_pages a)) as [|Hlt]; [assumption|].
  exfalso. apply C; [lia|]. apply Hall; lia.
Qed.

(* ---------------------------------------------------------------- concrete runs *)

(* 13 pages = blocks 3/0, 2/2, 0/12.  Allocate pages 12 and 8, free page 12: the free tail is
   9 (order 0), 10-11 (order 1), 12 (order 0) = 4 pages, stopping at the allocated page 8. *)
Example trailing_example_1 :
  let a := snd (buddy_free (snd (buddy_alloc (snd (buddy_alloc (buddy_new 13 16) 0)) 0)) 12 0) in
  trailing_free_pages a = 4 /\ find_free_order a 8 = None /\ consistentb a = true.
Proof. vm_compute. repeat split. Qed.

(* lowest order-1 block (pages 0-1) allocated: the tail 2..12 crosses four blocks of orders 0,2,2,1 *)
Example trailing_example_2 :
  let a := snd (buddy_alloc_lowest (buddy_new 13 16) 1) in
  trailing_free_pages a = 11 /\ find_free_order a 1 = None /\ consistentb a = true.
Proof. vm_compute. repeat split. Qed.
