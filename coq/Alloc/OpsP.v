(* C14 proofs, part 7: arbitrary operation sequences.
   - marks are determined by the free space (canonical form), hence states with the same free space are
     the same up to capacity words;
   - live_disjoint: over any sequence of alloc / alloc_lowest / free / record_alloc / resize /
     serialise+reload steps, the blocks handed out and not yet freed are pairwise disjoint, inside the
     region, disjoint from the free space, and together with it cover [0, len). *)
From Coq Require Import List NArith Bool Lia.
From RV Require Import Base.Bytes Gen.Consts Alloc.Bitmap Alloc.BitmapP Alloc.TreeP Alloc.Buddy Alloc.BuddyP
  Alloc.ResizeP Alloc.LowestP Alloc.SerialP.
Import ListNotations.
Open Scope N_scope.

(* ---------------------------------------------------------------- canonical marks *)

Lemma marks_canonical L a : BInvL L a -> forall k i,
  fr a k i = true <->
  (k <= bmax a /\ blk_free a k i /\ (k < bmax a -> ~ blk_free a k (buddy_page i))).
Proof.
  intros Hinv k i. pose proof Hinv as (Hs & Hn & Hm). split.
  - intros F. destruct (fr_lt L a k i Hs F) as [Hk _]. split; [exact Hk|]. split; [eapply fr_blk_free; eauto|].
    intros Hlt Hb.
    destruct (blk_free_marked L a Hinv k Hk _ Hb) as [j [J1 [J2 J3]]].
    destruct (N.eq_dec j k) as [->|Hne].
    + rewrite N.sub_diag, N.pow_0_r, N.div_1_r in J3. rewrite (Hm k i Hlt F) in J3. discriminate.
    + pose proof (Hn k i j F ltac:(lia)) as Hnn.
      replace (j - k) with (1 + (j - (k + 1))) in J3, Hnn by lia.
      rewrite div_pow_succ_l in J3, Hnn. rewrite buddy_page_half in J3. congruence.
  - intros (Hk & Hb & Hnb).
    destruct (blk_free_marked L a Hinv k Hk _ Hb) as [j [J1 [J2 J3]]].
    destruct (N.eq_dec j k) as [->|Hne].
    + now rewrite N.sub_diag, N.pow_0_r, N.div_1_r in J3.
    + exfalso. apply Hnb; [lia|]. intros p Hp. eapply fr_pfree; [exact J2|exact J3|].
      rewrite (anc_contains p k _ j J1 Hp).
      replace (j - k) with (1 + (j - (k + 1))) by lia.
      rewrite !div_pow_succ_l, buddy_page_half. reflexivity.
Qed.

(* two allocators in good state with the same free space carry the same marks *)
Lemma marks_determined L a b :
  BInvL L a -> BInvL L b -> bmax a = bmax b -> (forall p, pfree a p <-> pfree b p) ->
  forall k i, fr a k i = fr b k i.
Proof.
  intros Ha Hb Hmax Hp k i.
  assert (forall k i, blk_free a k i <-> blk_free b k i) as Hbf.
  { intros k' i'. unfold blk_free. split; intros H p E; apply Hp; auto. }
  destruct (fr a k i) eqn:Fa, (fr b k i) eqn:Fb; try reflexivity.
  - apply (marks_canonical L a Ha) in Fa. destruct Fa as (F1 & F2 & F3).
    assert (fr b k i = true); [|congruence]. apply (marks_canonical L b Hb).
    split; [lia|]. split; [now apply Hbf|]. intros Hlt Hc. apply F3; [lia|]. now apply Hbf.
  - apply (marks_canonical L b Hb) in Fb. destruct Fb as (F1 & F2 & F3).
    assert (fr a k i = true); [|congruence]. apply (marks_canonical L a Ha).
    split; [lia|]. split; [now apply Hbf|]. intros Hlt Hc. apply F3; [lia|]. now apply Hbf.
Qed.

(* ---------------------------------------------------------------- operations and live blocks *)

Inductive op : Type :=
| OAlloc (k : N) | OAllocLowest (k : N) | OFree (i k : N) | ORecord (i k : N) | OResize (n : N) | OReload.

Definition blk := (N * N)%type.       (* (index, order) *)
Definition in_blk (b : blk) (p : N) : Prop := p / 2 ^ snd b = fst b.
Definition disjoint_blk (b b' : blk) : Prop := forall p, ~ (in_blk b p /\ in_blk b' p).

Definition blk_eqb (b b' : blk) : bool := (fst b =? fst b') && (snd b =? snd b').
Fixpoint remove1 (b : blk) (l : list blk) : list blk :=
  match l with
  | [] => []
  | x :: r => if blk_eqb b x then r else x :: remove1 b r
  end.

(* one step of a valid program: the new state, the new list of live blocks *)
Inductive step : Buddy * list blk -> op -> Buddy * list blk -> Prop :=
| SAllocSome a live k x a' : buddy_alloc a k = (Some x, a') -> step (a, live) (OAlloc k) (a', (x, k) :: live)
| SAllocNone a live k a' : buddy_alloc a k = (None, a') -> step (a, live) (OAlloc k) (a', live)
| SLowSome a live k x a' : buddy_alloc_lowest a k = (Some x, a') -> step (a, live) (OAllocLowest k) (a', (x, k) :: live)
| SLowNone a live k a' : buddy_alloc_lowest a k = (None, a') -> step (a, live) (OAllocLowest k) (a', live)
| SFree a live i k : In (i, k) live -> step (a, live) (OFree i k) (snd (buddy_free a i k), remove1 (i, k) live)
| SRecordOk a live i k a' : buddy_record_alloc a i k = (true, a') -> step (a, live) (ORecord i k) (a', (i, k) :: live)
| SRecordNo a live i k a' : buddy_record_alloc a i k = (false, a') -> step (a, live) (ORecord i k) (a', live)
| SResize a live n :
    resize_trees_pre a n = true -> Forall (fun b => (fst b + 1) * 2 ^ snd b <= n) live ->
    step (a, live) (OResize n) (buddy_resize a n, live)
| SReload a live : buddy_small a -> step (a, live) OReload (buddy_from_bytes (buddy_to_vec a), live).

Inductive steps : Buddy * list blk -> list op -> Buddy * list blk -> Prop :=
| steps_nil s : steps s [] s
| steps_cons s o s' os s'' : step s o s' -> steps s' os s'' -> steps s (o :: os) s''.

Definition good (s : Buddy * list blk) : Prop :=
  let a := fst s in let live := snd s in
  BInv a /\ bmax a <= 32
  /\ Forall (fun b => snd b <= bmax a /\ (fst b + 1) * 2 ^ snd b <= blen a /\ blk_used a (snd b) (fst b)) live
  /\ ForallOrdPairs disjoint_blk live
  /\ (forall p, p < blen a -> pfree a p \/ exists b, In b live /\ in_blk b p).

Lemma idx_lt_of_range L k i : (i + 1) * 2 ^ k <= L -> i < L / 2 ^ k.
Proof. intros H. pose proof (pow2_pos k). dmod L (2 ^ k). nia. Qed.

Lemma blk_eqb_eq b b' : blk_eqb b b' = true <-> b = b'.
Proof.
  destruct b, b'. unfold blk_eqb. simpl. rewrite andb_true_iff, !N.eqb_eq. split; [intros []; congruence|intros H; inversion H; auto].
Qed.

Lemma remove1_incl b l x : In x (remove1 b l) -> In x l.
Proof.
  induction l as [|y r IH]; simpl; [tauto|]. destruct (blk_eqb b y); simpl; tauto.
Qed.

Lemma remove1_other b l x : In x l -> x <> b -> In x (remove1 b l).
Proof.
  induction l as [|y r IH]; simpl; [tauto|]. intros [->|Hin] Hne.
  - destruct (blk_eqb b x) eqn:E; [apply blk_eqb_eq in E; congruence|now left].
  - destruct (blk_eqb b y); [exact Hin|right; auto].
Qed.

Lemma remove1_Forall {P : blk -> Prop} b l : Forall P l -> Forall P (remove1 b l).
Proof.
  intros H. apply Forall_forall. intros x Hx. rewrite Forall_forall in H. apply H. eapply remove1_incl; eauto.
Qed.

Lemma remove1_FOP b l : ForallOrdPairs disjoint_blk l -> ForallOrdPairs disjoint_blk (remove1 b l).
Proof.
  induction 1 as [|y r Hy Hr IH]; simpl; [constructor|].
  destruct (blk_eqb b y); [exact Hr|]. constructor; [now apply remove1_Forall|exact IH].
Qed.

Lemma in_blk_nonempty (b : blk) : in_blk b (fst b * 2 ^ snd b).
Proof. unfold in_blk. apply mul_pow_div_same. Qed.

(* a block that was removed is disjoint from every block that stays *)
Lemma remove1_disjoint b l x : ForallOrdPairs disjoint_blk l -> In b l -> In x (remove1 b l) -> disjoint_blk b x.
Proof.
  induction 1 as [|y r Hy Hr IH]; simpl; [tauto|]. intros Hb Hx.
  destruct (blk_eqb b y) eqn:E.
  - apply blk_eqb_eq in E. subst y. rewrite Forall_forall in Hy. auto.
  - destruct Hb as [->|Hb]; [assert (blk_eqb b b = true) by (now apply blk_eqb_eq); congruence|].
    destruct Hx as [->|Hx].
    + rewrite Forall_forall in Hy. intros p [H1 H2]. apply (Hy b Hb p). tauto.
    + auto.
Qed.

(* adding a block taken out of the free space *)
Lemma good_add a a' live x k :
  good (a, live) -> BInv a' -> bmax a' = bmax a -> blen a' = blen a -> k <= bmax a ->
  (x + 1) * 2 ^ k <= blen a -> blk_free a k x ->
  (forall p, pfree a' p <-> pfree a p /\ p / 2 ^ k <> x) ->
  good (a', (x, k) :: live).
Proof.
  intros (G1 & G2 & G3 & G4 & G5) H1 H2 H3 Hk Hr Hb Hp. unfold good. cbn [fst snd] in *.
  split; [exact H1|]. split; [lia|]. split.
  - constructor.
    + cbn [fst snd]. split; [lia|]. split; [lia|]. intros p E F. apply Hp in F. tauto.
    + eapply Forall_impl; [|exact G3]. cbv beta. intros b (B1 & B2 & B3). split; [lia|]. split; [lia|].
      intros p E F. apply Hp in F. destruct F as [F _]. apply (B3 p E F).
  - split.
    + constructor; [|exact G4]. rewrite Forall_forall. intros b Hin p [E1 E2].
      rewrite Forall_forall in G3. destruct (G3 b Hin) as (_ & _ & B3).
      apply (B3 p E2). apply Hb. exact E1.
    + intros p Hlt. rewrite H3 in Hlt. destruct (N.eq_dec (p / 2 ^ k) x) as [E|E].
      * right. exists (x, k). split; [now left|exact E].
      * destruct (G5 p Hlt) as [F|[b [Hin Hb']]]; [left; apply Hp; tauto|].
        right. exists b. split; [now right|exact Hb'].
Qed.

Lemma good_same_space a a' live :
  good (a, live) -> BInv a' -> bmax a' = bmax a -> blen a' = blen a -> (forall p, pfree a' p <-> pfree a p) ->
  good (a', live).
Proof.
  intros (G1 & G2 & G3 & G4 & G5) H1 H2 H3 Hp. unfold good. cbn [fst snd] in *.
  split; [exact H1|]. split; [lia|]. split.
  - eapply Forall_impl; [|exact G3]. cbv beta. intros b (B1 & B2 & B3). split; [lia|]. split; [lia|].
    intros p E F. apply Hp in F. apply (B3 p E F).
  - split; [exact G4|]. intros p Hlt. rewrite H3 in Hlt. destruct (G5 p Hlt) as [F|F]; [left; now apply Hp|now right].
Qed.

Theorem step_good s o s' : good s -> step s o s' -> good s'.
Proof.
  intros G St. destruct St as [a live k x a' E|a live k a' E|a live k x a' E|a live k a' E|a live i k Hin
                              |a live i k a' E|a live i k a' E|a live n Htrees Hlive|a live Hsmall].
  - pose proof G as (G1 & _). pose proof (alloc_spec a k G1) as S. rewrite E in S.
    destruct S as (S1 & S2 & S3 & S4 & S5 & S6 & S7). eapply good_add; eauto.
  - pose proof G as (G1 & _). pose proof (alloc_spec a k G1) as S. rewrite E in S. destruct S as [-> _]. exact G.
  - pose proof G as (G1 & _). pose proof (alloc_lowest_spec a k G1) as S. rewrite E in S.
    destruct S as (S1 & S2 & S3 & S4 & S5 & S6 & S7). eapply good_add; eauto.
  - pose proof G as (G1 & _). pose proof (alloc_lowest_spec a k G1) as S. rewrite E in S. destruct S as [-> _]. exact G.
  - (* free *)
    destruct G as (G1 & G2 & G3 & G4 & G5). cbn [fst snd] in *.
    pose proof G3 as G3'. rewrite Forall_forall in G3'. destruct (G3' (i, k) Hin) as (B1 & B2 & B3). cbn [fst snd] in *.
    pose proof (free_spec a i k G1 B1 (idx_lt_of_range _ _ _ B2) B3) as S.
    destruct (buddy_free a i k) as [o a']. cbn [snd].
    destruct S as (S1 & S2 & S3 & _ & _ & _ & S7 & _).
    unfold good. cbn [fst snd]. split; [exact S1|]. split; [lia|]. split.
    + apply Forall_forall. intros b Hb. pose proof (remove1_incl _ _ _ Hb) as Hb'.
      destruct (G3' b Hb') as (C1 & C2 & C3). split; [lia|]. split; [lia|].
      intros p E F. apply S7 in F. destruct F as [F|F]; [apply (C3 p E F)|].
      apply (remove1_disjoint (i, k) live b G4 Hin Hb p). split; [exact F|exact E].
    + split; [now apply remove1_FOP|].
      intros p Hlt. rewrite S3 in Hlt. destruct (G5 p Hlt) as [F|[b [Hb Hbp]]].
      * left. apply S7. now left.
      * destruct (blk_eqb (i, k) b) eqn:Eb.
        -- apply blk_eqb_eq in Eb. subst b. left. apply S7. right. exact Hbp.
        -- right. exists b. split; [|exact Hbp]. apply remove1_other; [exact Hb|].
           intros ->. assert (blk_eqb (i, k) (i, k) = true) by (now apply blk_eqb_eq). congruence.
  - pose proof G as (G1 & _). pose proof (record_alloc_spec a i k G1) as S. rewrite E in S.
    destruct S as (S1 & S2 & S3 & S4 & S5 & S6 & S7). eapply good_add; eauto.
  - pose proof G as (G1 & _). pose proof (record_alloc_spec a i k G1) as S. rewrite E in S. destruct S as [-> _]. exact G.
  - (* resize *)
    destruct G as (G1 & G2 & G3 & G4 & G5). cbn [fst snd] in *.
    assert (forall p, n <= p -> p < blen a -> pfree a p) as Htail.
    { intros p Hp Hlt. destruct (G5 p Hlt) as [F|[b [Hb Hbp]]]; [exact F|]. exfalso.
      rewrite Forall_forall in Hlive. specialize (Hlive b Hb). unfold in_blk in Hbp.
      pose proof (pow2_pos (snd b)). dmod p (2 ^ snd b). nia. }
    destruct (resize_spec a n G1 G2 Htrees Htail) as (_ & R1 & R2 & R3 & R4).
    unfold good. cbn [fst snd]. split; [exact R1|]. split; [lia|]. split.
    + rewrite Forall_forall in *. intros b Hb. destruct (G3 b Hb) as (C1 & C2 & C3).
      split; [lia|]. split; [rewrite R2; apply (Hlive b Hb)|].
      intros p E F. apply R4 in F. destruct F as [[F _]|[F _]]; [apply (C3 p E F)|].
      unfold in_blk in E. pose proof (pow2_pos (snd b)). dmod p (2 ^ snd b). nia.
    + split; [exact G4|]. intros p Hlt. rewrite R2 in Hlt.
      destruct (N.lt_ge_cases p (blen a)) as [Hl|Hl].
      * destruct (G5 p Hl) as [F|F]; [left; apply R4; left; tauto|now right].
      * left. apply R4. right. lia.
  - (* serialise + reload *)
    pose proof G as (G1 & G2 & G3 & G4 & G5). cbn [fst snd] in *.
    pose proof G1 as ([Hn _] & _).
    rewrite (buddy_roundtrip a Hsmall Hn).
    destruct (norm_spec (blen a) a G1) as (N1 & N2 & N3).
    eapply good_same_space; eauto.
Qed.

Theorem steps_good s os s' : good s -> steps s os s' -> good s'.
Proof. intros G St. induction St; [exact G|]. apply IHSt. eapply step_good; eauto. Qed.

Lemma good_new n cap : good (buddy_new n cap, []).
Proof.
  destruct (new_spec n cap) as (H1 & H2 & H3 & H4). unfold good. cbn [fst snd].
  split; [exact H1|]. split.
  - rewrite H3. unfold calculate_usable_order, MAX_MAX_PAGE_ORDER. lia.
  - split; [constructor|]. split; [constructor|]. intros p Hp. left. apply H4. lia.
Qed.

Theorem steps_from_new_good n cap os s' : steps (buddy_new n cap, []) os s' -> good s'.
Proof. intros H. exact (steps_good _ os s' (good_new n cap) H). Qed.
