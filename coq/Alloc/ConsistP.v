From Coq Require Import List NArith Bool Lia.
From RV Require Import Base.Bytes Gen.Consts Alloc.Bitmap Alloc.BitmapP Alloc.TreeP Alloc.Buddy Alloc.BuddyP.
Import ListNotations.
Open Scope N_scope.

(* C14 proofs: the invariant BInv implies the executable check consistentb
   (the model of BuddyAllocator::debug_check_consistency). *)

(* ---------------------------------------------------------------- generic list lemmas *)

Lemma nlen_expand l rep : nlen (expand l rep) = nlen l * rep.
Proof.
  induction l as [|b r IH]; cbn [expand nlen]; [lia|].
  rewrite nlen_app, nlen_nrepeat, IH. lia.
Qed.

Lemma div_sub_one p rep : 0 < rep -> rep <= p -> p / rep = N.succ ((p - rep) / rep).
Proof.
  intros H0 H1. replace p with ((p - rep) + 1 * rep) at 1 by lia.
  rewrite N.div_add by lia. lia.
Qed.

Lemma lget_expand l rep : 0 < rep -> forall p d, lget (expand l rep) p d = lget l (p / rep) d.
Proof.
  intros Hr. induction l as [|b r IH]; intros p d; cbn [expand]; [reflexivity|].
  rewrite lget_app, nlen_nrepeat.
  destruct (N.ltb_spec p rep) as [H|H].
  - rewrite lget_nrepeat. apply N.ltb_lt in H. rewrite H. apply N.ltb_lt in H.
    rewrite N.div_small by exact H. reflexivity.
  - rewrite IH. rewrite (div_sub_one p rep Hr H), lget_succ. reflexivity.
Qed.

Lemma nlen_add_marks acc : forall fl, nlen (add_marks acc fl) = nlen acc.
Proof.
  induction acc as [|m ar IH]; intros [|b br]; cbn [add_marks nlen]; try reflexivity.
  now rewrite IH.
Qed.

Lemma lget_add_marks acc : forall fl p, p < nlen acc ->
  lget (add_marks acc fl) p 0 = lget acc p 0 + (if lget fl p true then 0 else 1).
Proof.
  induction acc as [|m ar IH]; intros fl p Hp; cbn [nlen] in Hp; [lia|].
  destruct fl as [|b br]; cbn [add_marks].
  - cbn [lget]. lia.
  - destruct (N.eq_dec p 0) as [->|Hne].
    + rewrite !lget_0. destruct b; lia.
    + rewrite !lget_cons_pos by lia. apply IH. lia.
Qed.

Lemma forallb_lget {A} (f : A -> bool) l d :
  (forall p, p < nlen l -> f (lget l p d) = true) -> forallb f l = true.
Proof.
  induction l as [|x r IH]; intros H; cbn [forallb]; [reflexivity|].
  apply andb_true_iff. split.
  - specialize (H 0). rewrite lget_0 in H. apply H. cbn [nlen]. lia.
  - apply IH. intros p Hp. specialize (H (N.succ p)). rewrite lget_succ in H.
    apply H. cbn [nlen]. lia.
Qed.

Lemma In_orders_up n : forall lo k, In k (orders_up n lo) -> lo <= k /\ k < lo + N.of_nat n.
Proof.
  induction n as [|m IH]; intros lo k H; cbn [orders_up] in H; [destruct H|].
  destruct H as [<-|H]; [lia|]. apply IH in H. lia.
Qed.

Lemma pairs_ok_of n : forall l, (length l <= n)%nat ->
  (forall u, 2 * u + 1 < nlen l -> lget l (2 * u) true || lget l (2 * u + 1) true = true) ->
  pairs_ok l = true.
Proof.
  induction n as [|n IH]; intros l Hl H.
  - destruct l; [reflexivity|simpl in Hl; lia].
  - destruct l as [|b0 [|b1 r]]; try reflexivity.
    cbn [pairs_ok]. apply andb_true_iff. split.
    + specialize (H 0). change (2 * 0) with 0 in H. change (0 + 1) with (N.succ 0) in H.
      rewrite lget_succ, !lget_0 in H. apply H. cbn [nlen]. lia.
    + apply IH; [simpl in Hl |- *; lia|]. intros u Hu.
      specialize (H (u + 1)).
      replace (2 * (u + 1) + 1) with (N.succ (N.succ (2 * u + 1))) in H by lia.
      replace (2 * (u + 1)) with (N.succ (N.succ (2 * u))) in H by lia.
      rewrite !lget_succ in H. apply H. cbn [nlen]. lia.
Qed.

(* ---------------------------------------------------------------- the bits of one order *)

Lemma order_bits_get a k i :
  tree_ok (ord a k) -> lget (order_bits a k) i true = bt_get (ord a k) i.
Proof.
  intros Hok. unfold order_bits.
  destruct (N.lt_ge_cases i (bt_len (ord a k))) as [H|H].
  - rewrite lget_nfirstn by exact H. reflexivity.
  - rewrite lget_oob by (rewrite nlen_nfirstn; lia).
    symmetry. apply bt_get_oob; assumption.
Qed.

Lemma expand_bits_get L a k p :
  shape L a -> k <= bmax a ->
  lget (expand (order_bits a k) (2 ^ k)) p true = negb (fr a k (p / 2 ^ k)).
Proof.
  intros [_ Hs] Hk. destruct (Hs k Hk) as [[Hok _] _].
  rewrite lget_expand by apply pow2_pos. rewrite order_bits_get by exact Hok.
  unfold fr. now rewrite negb_involutive.
Qed.

(* ---------------------------------------------------------------- Part A: no page is marked twice *)

Definition marks_step (a : Buddy) (acc : list N) (k : N) : list N :=
  add_marks acc (expand (order_bits a k) (2 ^ k)).

(* number of orders of ks at which page p is marked free *)
Fixpoint cnt (a : Buddy) (p : N) (ks : list N) : N :=
  match ks with
  | [] => 0
  | k :: r => (if fr a k (p / 2 ^ k) then 1 else 0) + cnt a p r
  end.

Lemma marks_step_get L a k acc p :
  shape L a -> k <= bmax a -> p < nlen acc ->
  lget (marks_step a acc k) p 0 = lget acc p 0 + (if fr a k (p / 2 ^ k) then 1 else 0).
Proof.
  intros Hs Hk Hp. unfold marks_step. rewrite lget_add_marks by exact Hp.
  rewrite (expand_bits_get L a k p Hs Hk). destruct (fr a k (p / 2 ^ k)); reflexivity.
Qed.

Lemma nlen_marks_step a k acc : nlen (marks_step a acc k) = nlen acc.
Proof. apply nlen_add_marks. Qed.

Lemma nlen_fold_marks a ks : forall acc, nlen (fold_left (marks_step a) ks acc) = nlen acc.
Proof.
  induction ks as [|k r IH]; intros acc; cbn [fold_left]; [reflexivity|].
  rewrite IH. apply nlen_marks_step.
Qed.

Lemma fold_marks_get L a p ks :
  shape L a -> (forall k, In k ks -> k <= bmax a) ->
  forall acc, p < nlen acc ->
  lget (fold_left (marks_step a) ks acc) p 0 = lget acc p 0 + cnt a p ks.
Proof.
  intros Hs. induction ks as [|k r IH]; intros Hks acc Hp; cbn [fold_left cnt]; [lia|].
  rewrite IH.
  - rewrite (marks_step_get L a k acc p Hs) by (try exact Hp; apply Hks; now left). lia.
  - intros j Hj. apply Hks. now right.
  - rewrite nlen_marks_step. exact Hp.
Qed.

Lemma cnt_zero a p ks : (forall k, In k ks -> fr a k (p / 2 ^ k) = false) -> cnt a p ks = 0.
Proof.
  induction ks as [|k r IH]; intros H; cbn [cnt]; [reflexivity|].
  rewrite (H k) by now left. rewrite IH; [reflexivity|]. intros j Hj. apply H. now right.
Qed.

Lemma cnt_orders_up a p : no_nested a -> forall n lo, cnt a p (orders_up n lo) <= 1.
Proof.
  intros Hn. induction n as [|m IH]; intros lo; cbn [orders_up cnt]; [lia|].
  destruct (fr a lo (p / 2 ^ lo)) eqn:F.
  - rewrite cnt_zero; [lia|]. intros k Hk. apply In_orders_up in Hk.
    destruct (fr a k (p / 2 ^ k)) eqn:G; [|reflexivity].
    pose proof (free_order_unique a p lo k Hn F G). lia.
  - specialize (IH (lo + 1)). lia.
Qed.

Lemma page_marks_fold a :
  page_marks a = fold_left (marks_step a) (orders_up (S (N.to_nat (bmax a))) 0) (nrepeat 0 (blen a)).
Proof. reflexivity. Qed.

Lemma no_double_free_of_BInv a : BInv a -> no_double_free a = true.
Proof.
  intros (Hs & Hn & _). unfold no_double_free. apply (forallb_lget _ _ 0).
  intros p Hp. rewrite page_marks_fold in Hp |- *.
  rewrite nlen_fold_marks in Hp.
  rewrite (fold_marks_get (blen a) a p _ Hs).
  - rewrite lget_nrepeat.
    pose proof (cnt_orders_up a p Hn (S (N.to_nat (bmax a))) 0).
    apply N.leb_le. destruct (p <? blen a); lia.
  - intros k Hk. apply In_orders_up in Hk. lia.
  - exact Hp.
Qed.

(* ---------------------------------------------------------------- Part B: no two buddies are both free *)

Lemma buddies_merged_of_BInv a k : BInv a -> k < bmax a -> buddies_merged_at a k = true.
Proof.
  intros ([_ Hs] & _ & Hm) Hk. unfold buddies_merged_at.
  destruct (Hs k ltac:(lia)) as [[Hok _] _].
  apply (pairs_ok_of _ _ (le_n _)). intros u Hu.
  rewrite nlen_nfirstn in Hu.
  rewrite !lget_nfirstn by lia. rewrite !order_bits_get by exact Hok.
  destruct (bt_get (ord a k) (2 * u)) eqn:G; [reflexivity|]. cbn [orb].
  assert (fr a k (2 * u) = true) as F by (unfold fr; rewrite G; reflexivity).
  pose proof (Hm k (2 * u) Hk F) as B. rewrite buddy_page_even in B.
  unfold fr in B. now apply negb_false_iff in B.
Qed.

(* ---------------------------------------------------------------- the theorem *)

Theorem consistentb_of_BInv a : BInv a -> consistentb a = true.
Proof.
  intros H. unfold consistentb. apply andb_true_iff. split.
  - now apply no_double_free_of_BInv.
  - apply forallb_forall. intros k Hk. apply In_orders_up in Hk.
    apply buddies_merged_of_BInv; [exact H|lia].
Qed.

(* ---------------------------------------------------------------- non-vacuity *)

(* a fragmented allocator (13 pages; pages 0-1 and 8-12 allocated, free blocks 1/1 = pages 2-3 and
   2/1 = pages 4-7) passes the check; marking page 2 free at order 0 as well (double free) or marking
   block 1/0 free next to its free buddy 1/1 (unmerged buddies) makes the check fail *)
Example ex_consistent :
  let a := snd (buddy_alloc (snd (buddy_alloc (snd (buddy_alloc (buddy_new 13 16) 0)) 2)) 1) in
  consistentb a = true
  /\ consistentb (with_ord a 0 (bt_clear (ord a 0) 2)) = false
  /\ no_double_free (with_ord a 0 (bt_clear (ord a 0) 2)) = false
  /\ no_double_free (with_ord a 1 (bt_clear (ord a 1) 0)) = true
  /\ consistentb (with_ord a 1 (bt_clear (ord a 1) 0)) = false.
Proof. vm_compute. repeat split; reflexivity. Qed.

