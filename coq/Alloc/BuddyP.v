(* C14 proofs, part 3: the buddy allocator -- invariant BInv, alloc / free / record_alloc. *)
From Coq Require Import List NArith Bool Lia.
From RV Require Import Base.Bytes Gen.Consts Alloc.Bitmap Alloc.BitmapP Alloc.TreeP Alloc.Buddy.
Import ListNotations.
Open Scope N_scope.

(* ---------------------------------------------------------------- arithmetic on block indices *)

Lemma pow2_pos k : 0 < 2 ^ k.
Proof. apply N.neq_0_lt_0. apply N.pow_nonzero. lia. Qed.

Lemma pow2_nz k : 2 ^ k <> 0.
Proof. apply N.pow_nonzero. lia. Qed.

Lemma div_pow_add p a b : p / 2 ^ a / 2 ^ b = p / 2 ^ (a + b).
Proof. rewrite N.div_div by apply pow2_nz. now rewrite N.pow_add_r. Qed.

Lemma div_pow_succ p k : p / 2 ^ (k + 1) = p / 2 ^ k / 2.
Proof. rewrite <- (div_pow_add p k 1). reflexivity. Qed.

Lemma div_pow_succ_l p d : p / 2 ^ (1 + d) = p / 2 / 2 ^ d.
Proof. rewrite <- (div_pow_add p 1 d). reflexivity. Qed.

Lemma div_pow_split p k j : k <= j -> p / 2 ^ j = p / 2 ^ k / 2 ^ (j - k).
Proof. intros. rewrite div_pow_add. f_equal. f_equal. lia. Qed.

Lemma mul_pow_div i k1 k : k1 <= k -> (i * 2 ^ k1) / 2 ^ k = i / 2 ^ (k - k1).
Proof.
  intros. replace k with ((k - k1) + k1) at 1 by lia.
  rewrite N.pow_add_r. apply N.div_mul_cancel_r; apply pow2_nz.
Qed.

Lemma mul_pow_div_same i k : (i * 2 ^ k) / 2 ^ k = i.
Proof. apply N.div_mul. apply pow2_nz. Qed.

Lemma half_cases q u : q / 2 = u <-> q = 2 * u \/ q = 2 * u + 1.
Proof. dmod q 2. lia. Qed.

Lemma half_lt_double u M : u < M / 2 -> 2 * u + 1 < M.
Proof. intros. dmod M 2. lia. Qed.

Lemma div_pow_lt_succ L k u : u < L / 2 ^ (k + 1) -> 2 * u + 1 < L / 2 ^ k.
Proof. rewrite div_pow_succ. apply half_lt_double. Qed.

Lemma buddy_page_even u : buddy_page (2 * u) = 2 * u + 1.
Proof. unfold buddy_page. destruct u as [|p]; reflexivity. Qed.

Lemma buddy_page_odd u : buddy_page (2 * u + 1) = 2 * u.
Proof. unfold buddy_page. destruct u as [|p]; reflexivity. Qed.

Lemma buddy_page_cases i : (i = 2 * (i / 2) /\ buddy_page i = 2 * (i / 2) + 1)
                           \/ (i = 2 * (i / 2) + 1 /\ buddy_page i = 2 * (i / 2)).
Proof.
  destruct (proj1 (half_cases i (i / 2)) eq_refl) as [E|E].
  - left. split; [exact E|]. rewrite E at 1. apply buddy_page_even.
  - right. split; [exact E|]. rewrite E at 1. apply buddy_page_odd.
Qed.

Lemma buddy_page_half i : buddy_page i / 2 = i / 2.
Proof.
  destruct (buddy_page_cases i) as [[E B]|[E B]]; rewrite B; apply half_cases; lia.
Qed.

Lemma buddy_page_neq i : buddy_page i <> i.
Proof. destruct (buddy_page_cases i) as [[E B]|[E B]]; lia. Qed.

Lemma buddy_page_invol i : buddy_page (buddy_page i) = i.
Proof. unfold buddy_page. rewrite N.lxor_assoc, N.lxor_nilpotent, N.lxor_0_r. reflexivity. Qed.

Lemma same_half q i : q / 2 = i / 2 -> q = i \/ q = buddy_page i.
Proof.
  intros H. apply half_cases in H.
  destruct (buddy_page_cases i) as [[E B]|[E B]]; lia.
Qed.

Lemma div_lt_half L k i : i < L / 2 ^ k -> buddy_page i < L / 2 ^ k -> i / 2 < L / 2 ^ (k + 1).
Proof.
  rewrite div_pow_succ. generalize (L / 2 ^ k). intros M H1 H2.
  destruct (buddy_page_cases i) as [[E B]|[E B]]; rewrite B in H2; dmod M 2; lia.
Qed.

(* ---------------------------------------------------------------- the free-bit view *)

(* block k/i is marked free (orders above max_order and indices out of range read as "not free") *)
Definition fr (a : Buddy) (k i : N) : bool := negb (bt_get (ord a k) i).

(* page p lies inside a block marked free *)
Definition pfree (a : Buddy) (p : N) : Prop := exists k, k <= bmax a /\ fr a k (p / 2 ^ k) = true.

(* every page of block k/i is free *)
Definition blk_free (a : Buddy) (k i : N) : Prop := forall p, p / 2 ^ k = i -> pfree a p.
(* no page of block k/i is free *)
Definition blk_used (a : Buddy) (k i : N) : Prop := forall p, p / 2 ^ k = i -> ~ pfree a p.

Definition shape (L : N) (a : Buddy) : Prop :=
  nlen (bfree a) = bmax a + 1 /\
  forall k, k <= bmax a -> bt_ok (ord a k) /\ bt_len (ord a k) = L / 2 ^ k.

(* B3: a page is free at one order at most = no ancestor of a free block is free *)
Definition no_nested (a : Buddy) : Prop :=
  forall k i j, fr a k i = true -> k < j -> fr a j (i / 2 ^ (j - k)) = false.
(* B4: below max_order no two buddies are both free *)
Definition merged (a : Buddy) : Prop :=
  forall k i, k < bmax a -> fr a k i = true -> fr a k (buddy_page i) = false.

Definition BInvL (L : N) (a : Buddy) : Prop := shape L a /\ no_nested a /\ merged a.
Definition BInv (a : Buddy) : Prop := BInvL (blen a) a.

Lemma ord_above a k : nlen (bfree a) <= k -> ord a k = empty_bt.
Proof. intros. unfold ord. now apply lget_oob. Qed.

Lemma fr_above L a k i : shape L a -> bmax a < k -> fr a k i = false.
Proof.
  intros [Hn _] Hk. unfold fr. rewrite ord_above by lia. reflexivity.
Qed.

Lemma fr_lt L a k i : shape L a -> fr a k i = true -> k <= bmax a /\ i < L / 2 ^ k.
Proof.
  intros Hs Hf. destruct (N.le_gt_cases k (bmax a)) as [Hk|Hk].
  - split; [exact Hk|]. destruct Hs as [_ Hs]. destruct (Hs k Hk) as [[Hok _] Hl].
    rewrite <- Hl. apply bt_get_false_lt; [exact Hok|].
    unfold fr in Hf. now apply negb_true_iff in Hf.
  - rewrite (fr_above L a k i Hs Hk) in Hf. discriminate.
Qed.

Lemma fr_pfree a k i p : k <= bmax a -> fr a k i = true -> p / 2 ^ k = i -> pfree a p.
Proof. intros Hk Hf Hp. exists k. subst i. auto. Qed.

Lemma fr_blk_free L a k i : shape L a -> fr a k i = true -> blk_free a k i.
Proof.
  intros Hs Hf p Hp. destruct (fr_lt L a k i Hs Hf) as [Hk _]. eapply fr_pfree; eauto.
Qed.

Lemma pfree_lt L a p : shape L a -> pfree a p -> p < L.
Proof.
  intros Hs [k [Hk Hf]]. destruct (fr_lt L a k _ Hs Hf) as [_ H].
  pose proof (pow2_pos k). dmod p (2 ^ k). dmod L (2 ^ k). nia.
Qed.

(* a page is marked free at one order only *)
Lemma free_order_unique a p k j :
  no_nested a -> fr a k (p / 2 ^ k) = true -> fr a j (p / 2 ^ j) = true -> k = j.
Proof.
  intros Hn H1 H2. destruct (N.lt_trichotomy k j) as [H|[H|H]]; [|exact H|].
  - specialize (Hn k _ j H1 H). rewrite <- div_pow_split in Hn by lia. congruence.
  - specialize (Hn j _ k H2 H). rewrite <- div_pow_split in Hn by lia. congruence.
Qed.

(* an ancestor block contains the block *)
Lemma anc_contains p k i j : k <= j -> p / 2 ^ k = i -> p / 2 ^ j = i / 2 ^ (j - k).
Proof. intros H E. subst i. now apply div_pow_split. Qed.

(* ---- the key consequence of maximal merging: a completely free aligned block is contained in a block
        that is marked free *)
Lemma blk_free_marked L a : BInvL L a -> forall k, k <= bmax a -> forall i,
  blk_free a k i -> exists j, k <= j /\ j <= bmax a /\ fr a j (i / 2 ^ (j - k)) = true.
Proof.
  intros (Hs & Hn & Hm). induction k as [|k IH] using N.peano_ind; intros Hk i Hb.
  - destruct (Hb i) as [j [Hj Hf]]; [simpl; apply N.div_1_r|].
    exists j. rewrite N.sub_0_r. split; [lia|]. split; assumption.
  - assert (k <= bmax a) as Hk' by lia.
    assert (blk_free a k (2 * i)) as B0.
    { intros p Hp. apply Hb. rewrite <- N.add_1_r, div_pow_succ, Hp. apply half_cases. lia. }
    assert (blk_free a k (2 * i + 1)) as B1.
    { intros p Hp. apply Hb. rewrite <- N.add_1_r, div_pow_succ, Hp. apply half_cases. lia. }
    destruct (IH Hk' _ B0) as [j0 [J1 [J2 J3]]].
    destruct (IH Hk' _ B1) as [j1 [K1 [K2 K3]]].
    destruct (N.eq_dec j0 k) as [E0|E0].
    + destruct (N.eq_dec j1 k) as [E1|E1].
      * exfalso. subst j0 j1. rewrite N.sub_diag, N.pow_0_r, N.div_1_r in J3, K3.
        specialize (Hm k (2 * i) ltac:(lia) J3). rewrite buddy_page_even in Hm. congruence.
      * exists j1. split; [lia|]. split; [exact K2|].
        replace (j1 - k) with (1 + (j1 - N.succ k)) in K3 by lia.
        rewrite div_pow_succ_l in K3.
        replace ((2 * i + 1) / 2) with i in K3; [exact K3|]. symmetry. apply half_cases. lia.
    + exists j0. split; [lia|]. split; [exact J2|].
      replace (j0 - k) with (1 + (j0 - N.succ k)) in J3 by lia.
      rewrite div_pow_succ_l in J3.
      replace ((2 * i) / 2) with i in J3; [exact J3|]. symmetry. apply half_cases. lia.
Qed.

(* ---------------------------------------------------------------- updating one order *)

Lemma nlen_with_ord a k t : nlen (bfree (with_ord a k t)) = nlen (bfree a).
Proof. unfold with_ord. simpl. apply nlen_lset. Qed.

Lemma ord_with_ord a k t j : k < nlen (bfree a) -> ord (with_ord a k t) j = if j =? k then t else ord a j.
Proof.
  intros H. unfold ord, with_ord. simpl. rewrite lget_lset.
  apply N.ltb_lt in H. rewrite H, andb_true_r. reflexivity.
Qed.

Lemma shape_with_ord L a k t :
  shape L a -> k <= bmax a -> bt_ok t -> bt_len t = L / 2 ^ k -> shape L (with_ord a k t).
Proof.
  intros [Hn Hs] Hk Hok Hl. split.
  - rewrite nlen_with_ord. exact Hn.
  - intros j Hj. simpl in Hj. rewrite ord_with_ord by lia.
    destruct (N.eqb_spec j k); [subst; auto|]. apply Hs. exact Hj.
Qed.

Definition set_at (a : Buddy) (k i : N) : Buddy := with_ord a k (bt_set (ord a k) i).
Definition clear_at (a : Buddy) (k i : N) : Buddy := with_ord a k (bt_clear (ord a k) i).

Lemma set_at_spec L a k i :
  shape L a -> k <= bmax a -> i < L / 2 ^ k ->
  shape L (set_at a k i) /\ bmax (set_at a k i) = bmax a /\ blen (set_at a k i) = blen a
  /\ forall k' i', fr (set_at a k i) k' i' = fr a k' i' && negb ((k' =? k) && (i' =? i)).
Proof.
  intros Hs Hk Hi. destruct Hs as [Hn Hs']. destruct (Hs' k Hk) as [Hok Hl].
  assert (i < bt_len (ord a k)) as Hi' by (rewrite Hl; exact Hi).
  split; [|split; [reflexivity|split; [reflexivity|]]].
  - apply shape_with_ord; [split; assumption|assumption| |].
    + now apply bt_set_ok.
    + rewrite bt_set_len; [exact Hl|apply Hok|exact Hi'].
  - intros k' i'. unfold fr, set_at. rewrite ord_with_ord by lia.
    destruct (N.eqb_spec k' k) as [->|Hne]; simpl.
    + rewrite bt_set_get; [|apply Hok|exact Hi']. destruct (i' =? i), (bt_get (ord a k) i'); reflexivity.
    + now rewrite andb_true_r.
Qed.

Lemma clear_at_spec L a k i :
  shape L a -> k <= bmax a -> i < L / 2 ^ k ->
  shape L (clear_at a k i) /\ bmax (clear_at a k i) = bmax a /\ blen (clear_at a k i) = blen a
  /\ forall k' i', fr (clear_at a k i) k' i' = fr a k' i' || ((k' =? k) && (i' =? i)).
Proof.
  intros Hs Hk Hi. destruct Hs as [Hn Hs']. destruct (Hs' k Hk) as [Hok Hl].
  assert (i < bt_len (ord a k)) as Hi' by (rewrite Hl; exact Hi).
  split; [|split; [reflexivity|split; [reflexivity|]]].
  - apply shape_with_ord; [split; assumption|assumption| |].
    + now apply bt_clear_ok.
    + rewrite bt_clear_len; [exact Hl|apply Hok|exact Hi'].
  - intros k' i'. unfold fr, clear_at. rewrite ord_with_ord by lia.
    destruct (N.eqb_spec k' k) as [->|Hne]; simpl.
    + rewrite bt_clear_get; [|apply Hok|exact Hi']. destruct (i' =? i), (bt_get (ord a k) i'); reflexivity.
    + now rewrite orb_false_r.
Qed.

(* ---- removing a free mark keeps the invariant *)
Lemma inv_remove L a a' k x :
  BInvL L a -> shape L a' -> bmax a' = bmax a ->
  (forall k' i', fr a' k' i' = fr a k' i' && negb ((k' =? k) && (i' =? x))) ->
  BInvL L a'.
Proof.
  intros (Hs & Hn & Hm) Hs' Hmax Hfr. split; [exact Hs'|]. split.
  - intros k1 i1 j H1 Hj. rewrite Hfr in H1 |- *. apply andb_true_iff in H1. destruct H1 as [H1 _].
    rewrite (Hn k1 i1 j H1 Hj). reflexivity.
  - intros k1 i1 Hk H1. rewrite Hfr in H1 |- *. apply andb_true_iff in H1. destruct H1 as [H1 _].
    rewrite Hmax in Hk. rewrite (Hm k1 i1 Hk H1). reflexivity.
Qed.

Lemma pfree_remove L a a' k x :
  BInvL L a -> bmax a' = bmax a -> fr a k x = true ->
  (forall k' i', fr a' k' i' = fr a k' i' && negb ((k' =? k) && (i' =? x))) ->
  forall p, pfree a' p <-> (pfree a p /\ p / 2 ^ k <> x).
Proof.
  intros (Hs & Hn & Hm) Hmax Hx Hfr p. split.
  - intros [j [Hj Hf]]. rewrite Hfr in Hf. apply andb_true_iff in Hf. destruct Hf as [Hf Hne].
    rewrite Hmax in Hj. split; [exists j; auto|].
    intros E. subst x. assert (j = k) by (eapply free_order_unique; eauto). subst j.
    rewrite !N.eqb_refl in Hne. discriminate.
  - intros [[j [Hj Hf]] Hne]. exists j. rewrite Hmax. split; [exact Hj|]. rewrite Hfr, Hf. simpl.
    destruct (N.eqb_spec j k); [subst|reflexivity]. simpl.
    destruct (N.eqb_spec (p / 2 ^ k) x); [contradiction|reflexivity].
Qed.

(* ---- adding a free mark on a completely used block whose buddy is not free keeps the invariant *)
Lemma inv_add L a a' k y :
  BInvL L a -> shape L a' -> bmax a' = bmax a ->
  (forall k' i', fr a' k' i' = fr a k' i' || ((k' =? k) && (i' =? y))) ->
  blk_used a k y -> (k < bmax a -> fr a k (buddy_page y) = false) ->
  BInvL L a'.
Proof.
  intros (Hs & Hn & Hm) Hs' Hmax Hfr Hu Hb. split; [exact Hs'|]. split.
  - intros k1 i1 j H1 Hj. rewrite Hfr in H1 |- *.
    apply orb_true_iff in H1. apply orb_false_iff.
    destruct H1 as [H1|H1].
    + split; [now apply Hn|].
      destruct (N.eqb_spec j k) as [->|]; [|reflexivity]. simpl. apply N.eqb_neq. intros E.
      destruct (fr_lt L a k1 i1 Hs H1) as [Hk1 _].
      apply (Hu (i1 * 2 ^ k1)).
      * rewrite mul_pow_div by lia. exact E.
      * eapply fr_pfree; eauto. apply mul_pow_div_same.
    + apply andb_true_iff in H1. destruct H1 as [E1 E2].
      apply N.eqb_eq in E1, E2. subst k1 i1. split.
      * destruct (fr a j (y / 2 ^ (j - k))) eqn:F; [|reflexivity]. exfalso.
        destruct (fr_lt L a j _ Hs F) as [Hj' _].
        apply (Hu (y * 2 ^ k)); [apply mul_pow_div_same|].
        exists j. split; [exact Hj'|]. rewrite mul_pow_div by lia. exact F.
      * destruct (N.eqb_spec j k); [lia|reflexivity].
  - intros k1 i1 Hk H1. rewrite Hmax in Hk. rewrite Hfr in H1 |- *.
    apply orb_true_iff in H1. apply orb_false_iff.
    destruct H1 as [H1|H1].
    + split; [now apply Hm|].
      destruct (N.eqb_spec k1 k) as [->|]; [|reflexivity]. simpl. apply N.eqb_neq. intros E.
      rewrite <- E, buddy_page_invol in Hb. rewrite Hb in H1 by exact Hk. discriminate.
    + apply andb_true_iff in H1. destruct H1 as [E1 E2].
      apply N.eqb_eq in E1, E2. subst k1 i1. split; [now apply Hb|].
      rewrite N.eqb_refl. simpl. apply N.eqb_neq. apply buddy_page_neq.
Qed.

Lemma pfree_add a a' k y :
  bmax a' = bmax a -> k <= bmax a ->
  (forall k' i', fr a' k' i' = fr a k' i' || ((k' =? k) && (i' =? y))) ->
  forall p, pfree a' p <-> (pfree a p \/ p / 2 ^ k = y).
Proof.
  intros Hmax Hk Hfr p. split.
  - intros [j [Hj Hf]]. rewrite Hfr in Hf. apply orb_true_iff in Hf. destruct Hf as [Hf|Hf].
    + left. exists j. rewrite <- Hmax. auto.
    + right. apply andb_true_iff in Hf. destruct Hf as [E1 E2]. apply N.eqb_eq in E1, E2. now subst.
  - intros [[j [Hj Hf]]|E].
    + exists j. rewrite Hmax. split; [exact Hj|]. rewrite Hfr, Hf. reflexivity.
    + exists k. rewrite Hmax. split; [exact Hk|]. rewrite Hfr, E, !N.eqb_refl. apply orb_true_r.
Qed.

(* ---------------------------------------------------------------- alloc *)

Definition has_free (a : Buddy) (j : N) : Prop := exists i, fr a j i = true.

Lemma blk_free_half a k u : blk_free a (k + 1) u -> blk_free a k (2 * u) /\ blk_free a k (2 * u + 1).
Proof.
  intros H. split; intros p Hp; apply H; rewrite div_pow_succ, Hp; apply half_cases; lia.
Qed.

Lemma blk_used_sub a k u s : blk_used a (k + 1) u -> s / 2 = u -> blk_used a k s.
Proof. intros H Hs p Hp. apply H. rewrite div_pow_succ, Hp. exact Hs. Qed.

(* if no page of the block is free, no block overlapping it is marked free; in particular the block itself *)
Lemma blk_used_not_fr L a k i : shape L a -> blk_used a k i -> fr a k i = false.
Proof.
  intros Hs Hu. destruct (fr a k i) eqn:F; [|reflexivity]. exfalso.
  destruct (fr_lt L a k i Hs F) as [Hk _].
  apply (Hu (i * 2 ^ k)); [apply mul_pow_div_same|].
  eapply fr_pfree; eauto. apply mul_pow_div_same.
Qed.

Lemma alloc_inner_spec fuel : forall L a k,
  BInvL L a -> (N.to_nat (bmax a) + 2 <= fuel + N.to_nat k)%nat ->
  match alloc_inner fuel a k with
  | (Some x, a') =>
      k <= bmax a /\ BInvL L a' /\ bmax a' = bmax a /\ blen a' = blen a /\ x < L / 2 ^ k
      /\ blk_free a k x /\ (forall p, pfree a' p <-> pfree a p /\ p / 2 ^ k <> x)
      /\ (has_free a k -> fr a k x = true /\ forall i, i < x -> fr a k i = false)
      /\ (forall j, has_free a' j -> exists j', j <= j' /\ has_free a j')
  | (None, a') => a' = a /\ forall j, k <= j -> ~ has_free a j
  end.
Proof.
  induction fuel as [|f IH]; intros L a k Hinv Hfuel; cbn [alloc_inner].
  - split; [reflexivity|]. intros j Hj [i Hf].
    destruct Hinv as (Hs & _). destruct (fr_lt L a j i Hs Hf). lia.
  - destruct (N.ltb_spec (bmax a) k) as [Hk|Hk].
    + split; [reflexivity|]. intros j Hj [i Hf].
      destruct Hinv as (Hs & _). destruct (fr_lt L a j i Hs Hf). lia.
    + pose proof Hinv as (Hs & Hn & Hm).
      destruct Hs as [Hlen Hs']. destruct (Hs' k Hk) as [Hok Hl].
      destruct (bt_alloc (ord a k)) as [[x|] t'] eqn:E.
      * (* a block is marked free at this very order *)
        assert (fst (bt_alloc (ord a k)) = Some x) as E1 by (rewrite E; reflexivity).
        destruct (bt_alloc_some _ _ Hok E1) as (X1 & X2 & X3 & X4).
        rewrite E in X4. simpl in X4. subst t'.
        change (with_ord a k (bt_set (ord a k) x)) with (set_at a k x).
        assert (x < L / 2 ^ k) as Hx by (rewrite <- Hl; exact X1).
        destruct (set_at_spec L a k x (conj Hlen Hs') Hk Hx) as (S1 & S2 & S3 & S4).
        assert (fr a k x = true) as Fx by (unfold fr; rewrite X2; reflexivity).
        split; [exact Hk|]. split; [eapply inv_remove; eauto|]. split; [exact S2|]. split; [exact S3|].
        split; [exact Hx|]. split; [eapply fr_blk_free; eauto; split; eauto|].
        split; [eapply pfree_remove; eauto|]. split.
        { intros _. split; [exact Fx|]. intros i Hi. unfold fr. rewrite X3 by exact Hi. reflexivity. }
        intros j [i Hf]. exists j. split; [lia|]. exists i. rewrite S4 in Hf.
        apply andb_true_iff in Hf. tauto.
      * (* nothing at this order: split a block of the next order *)
        assert (fst (bt_alloc (ord a k)) = None) as E1 by (rewrite E; reflexivity).
        destruct (bt_alloc_none _ Hok E1) as [Hall _].
        assert (~ has_free a k) as Hnk.
        { intros [i Hf]. unfold fr in Hf. rewrite Hall in Hf. discriminate. }
        specialize (IH L a (k + 1) Hinv ltac:(lia)).
        destruct (alloc_inner f a (k + 1)) as [[u|] a1].
        -- destruct IH as (I0 & I1 & I2 & I3 & I4 & I5 & I6 & I7 & I8).
           change (with_ord a1 k (bt_clear (ord a1 k) (u * 2 + 1))) with (clear_at a1 k (u * 2 + 1)).
           rewrite (N.mul_comm u 2).
           assert (k <= bmax a1) as Hk1 by lia.
           assert (2 * u + 1 < L / 2 ^ k) as Hs1 by (apply div_pow_lt_succ; exact I4).
           destruct I1 as (Sa1 & Na1 & Ma1).
           destruct (clear_at_spec L a1 k (2 * u + 1) Sa1 Hk1 Hs1) as (S1 & S2 & S3 & S4).
           assert (blk_used a1 (k + 1) u) as Hused.
           { intros p Hp Hpf. apply I6 in Hpf. tauto. }
           destruct (blk_free_half a k u I5) as [B0 B1].
           split; [exact Hk|]. split.
           { eapply (inv_add L a1); eauto.
             - split; [exact Sa1|]. split; assumption.
             - eapply blk_used_sub; eauto. apply half_cases. lia.
             - intros _. rewrite buddy_page_odd. eapply blk_used_not_fr; eauto.
               eapply blk_used_sub; eauto. apply half_cases. lia. }
           split; [lia|]. split; [congruence|].
           split. { pose proof (div_pow_lt_succ L k u I4). lia. }
           split; [exact B0|]. split.
           { intros p. rewrite (pfree_add a1 _ k (2 * u + 1) S2 Hk1 S4 p). rewrite I6.
             rewrite div_pow_succ. generalize (half_cases (p / 2 ^ k) u). intros HC.
             split.
             - intros [[Hp Hne]|Hq].
               + split; [exact Hp|]. intros Hq. apply Hne. apply HC. now left.
               + split; [apply B1; exact Hq|]. lia.
             - intros [Hp Hne]. destruct (N.eq_dec (p / 2 ^ k) (2 * u + 1)) as [Hq|Hq]; [now right|].
               left. split; [exact Hp|]. intros Hh. apply HC in Hh. lia. }
           split; [intros Hh; contradiction|].
           intros j [i Hf]. rewrite S4 in Hf. apply orb_true_iff in Hf. destruct Hf as [Hf|Hf].
           ++ apply I8. exists i. exact Hf.
           ++ apply andb_true_iff in Hf. destruct Hf as [Ej _]. apply N.eqb_eq in Ej. subst j.
              destruct (blk_free_marked L a Hinv (k + 1) I0 u I5) as [j' [J1 [J2 J3]]].
              exists j'. split; [lia|]. eexists; eauto.
        -- destruct IH as [-> IH]. split; [reflexivity|].
           intros j Hj. destruct (N.eq_dec j k) as [->|]; [exact Hnk|]. apply IH. lia.
Qed.

(* ---------------------------------------------------------------- free *)

Lemma fr_buddy_test L a k b :
  shape L a -> k <= bmax a ->
  ((bt_len (ord a k) <=? b) || bt_get (ord a k) b = true <-> fr a k b = false).
Proof.
  intros [_ Hs] Hk. destruct (Hs k Hk) as [[Hok _] _]. unfold fr. rewrite negb_false_iff.
  destruct (N.leb_spec (bt_len (ord a k)) b); simpl; [|tauto].
  rewrite bt_get_oob by assumption. tauto.
Qed.

Lemma free_inner_spec fuel : forall L a i k,
  BInvL L a -> (N.to_nat (bmax a) + 2 <= fuel + N.to_nat k)%nat ->
  k <= bmax a -> i < L / 2 ^ k -> blk_used a k i ->
  let '(o, a') := free_inner fuel a i k in
  BInvL L a' /\ bmax a' = bmax a /\ blen a' = blen a /\ k <= o /\ o <= bmax a
  /\ fr a' o (i / 2 ^ (o - k)) = true
  /\ (forall p, pfree a' p <-> pfree a p \/ p / 2 ^ k = i)
  /\ (forall j, has_free a' j -> has_free a j \/ j = o).
Proof.
  induction fuel as [|f IH]; intros L a i k Hinv Hfuel Hk Hi Hu; [lia|].
  cbn [free_inner]. pose proof Hinv as (Hs & Hn & Hm).
  assert (forall a', (a' = clear_at a k i) -> (k < bmax a -> fr a k (buddy_page i) = false) ->
            BInvL L a' /\ bmax a' = bmax a /\ blen a' = blen a /\ k <= k /\ k <= bmax a
            /\ fr a' k (i / 2 ^ (k - k)) = true
            /\ (forall p, pfree a' p <-> pfree a p \/ p / 2 ^ k = i)
            /\ (forall j, has_free a' j -> has_free a j \/ j = k)) as Hclear.
  { intros a' -> Hb. destruct (clear_at_spec L a k i Hs Hk Hi) as (S1 & S2 & S3 & S4).
    split; [eapply inv_add; eauto|]. split; [exact S2|]. split; [exact S3|]. split; [lia|]. split; [exact Hk|].
    split. { rewrite N.sub_diag, N.pow_0_r, N.div_1_r, S4, !N.eqb_refl. apply orb_true_r. }
    split; [eapply pfree_add; eauto|].
    intros j [x Hf]. rewrite S4 in Hf. apply orb_true_iff in Hf. destruct Hf as [Hf|Hf].
    - left. exists x. exact Hf.
    - right. apply andb_true_iff in Hf. destruct Hf as [E _]. now apply N.eqb_eq in E. }
  destruct (N.eqb_spec k (bmax a)) as [Ek|Ek].
  - apply Hclear; [reflexivity|]. lia.
  - destruct ((bt_len (ord a k) <=? buddy_page i) || bt_get (ord a k) (buddy_page i)) eqn:C.
    + apply Hclear; [reflexivity|]. intros _. apply (fr_buddy_test L a k); assumption.
    + (* the buddy is free too: un-mark it and free the parent block *)
      assert (fr a k (buddy_page i) = true) as Fb.
      { destruct (fr a k (buddy_page i)) eqn:F; [reflexivity|].
        apply (fr_buddy_test L a k) in F; try assumption. congruence. }
      destruct (fr_lt L a k _ Hs Fb) as [_ Hbl].
      change (with_ord a k (bt_set (ord a k) (buddy_page i))) with (set_at a k (buddy_page i)).
      destruct (set_at_spec L a k (buddy_page i) Hs Hk Hbl) as (S1 & S2 & S3 & S4).
      set (a1 := set_at a k (buddy_page i)) in *.
      assert (BInvL L a1) as Hinv1 by (eapply inv_remove; eauto).
      pose proof (pfree_remove L a a1 k (buddy_page i) Hinv S2 Fb S4) as P1.
      assert (blk_used a1 (k + 1) (next_higher_order i)) as Hu1.
      { intros p Hp Hpf. apply P1 in Hpf. destruct Hpf as [Hpf Hne].
        rewrite div_pow_succ in Hp. unfold next_higher_order in Hp. apply same_half in Hp.
        destruct Hp as [Hp|Hp]; [|contradiction]. apply (Hu p Hp Hpf). }
      assert (next_higher_order i < L / 2 ^ (k + 1)) as Hi1 by (apply div_lt_half; assumption).
      specialize (IH L a1 (next_higher_order i) (k + 1) Hinv1 ltac:(rewrite S2; lia) ltac:(rewrite S2; lia) Hi1 Hu1).
      destruct (free_inner f a1 (next_higher_order i) (k + 1)) as [o a'].
      destruct IH as (I1 & I2 & I3 & I4 & I5 & I6 & I7 & I8).
      split; [exact I1|]. split; [congruence|]. split; [congruence|]. split; [lia|]. split; [lia|].
      split.
      { replace (o - k) with (1 + (o - (k + 1))) by lia. rewrite div_pow_succ_l. exact I6. }
      split.
      { intros p. rewrite I7, P1. rewrite div_pow_succ. unfold next_higher_order.
        split.
        - intros [[Hp _]|Hq]; [now left|]. apply same_half in Hq. destruct Hq as [Hq|Hq]; [now right|].
          left. eapply fr_pfree; eauto.
        - intros [Hp|Hq].
          + destruct (N.eq_dec (p / 2 ^ k) (buddy_page i)) as [E|E].
            * right. rewrite E. apply buddy_page_half.
            * left. split; assumption.
          + right. now rewrite Hq. }
      intros j Hj. destruct (I8 j Hj) as [[x Hf]|Ej]; [|now right].
      left. exists x. rewrite S4 in Hf. apply andb_true_iff in Hf. tauto.
Qed.

(* ---------------------------------------------------------------- record_alloc *)

Lemma div_lt_reflect x M c : 0 < c -> x / c < M / c -> x < M.
Proof. intros Hc H. dmod x c. dmod M c. nia. Qed.

Lemma record_alloc_inner_spec fuel : forall L a i k,
  BInvL L a -> (N.to_nat (bmax a) + 2 <= fuel + N.to_nat k)%nat ->
  match record_alloc_inner fuel a i k with
  | (true, a') =>
      k <= bmax a /\ i < L / 2 ^ k /\ blk_free a k i /\ BInvL L a' /\ bmax a' = bmax a /\ blen a' = blen a
      /\ (forall p, pfree a' p <-> pfree a p /\ p / 2 ^ k <> i)
      /\ (forall j, has_free a' j -> exists j', j <= j' /\ has_free a j')
  | (false, a') => a' = a /\ (bmax a < k \/ L / 2 ^ k <= i \/ ~ blk_free a k i)
  end.
Proof.
  induction fuel as [|f IH]; intros L a i k Hinv Hfuel; cbn [record_alloc_inner].
  - split; [reflexivity|]. left. lia.
  - destruct (N.ltb_spec (bmax a) k) as [Hk|Hk]; [split; [reflexivity|now left]|].
    pose proof Hinv as (Hs & Hn & Hm). destruct Hs as [Hlen Hs']. destruct (Hs' k Hk) as [Hok Hl].
    pose proof (conj Hlen Hs' : shape L a) as Hs.
    destruct (N.leb_spec (bt_len (ord a k)) i) as [Hi|Hi]; [split; [reflexivity|]; right; left; lia|].
    rewrite Hl in Hi.
    destruct (bt_get (ord a k) i) eqn:G.
    + (* not marked free at this order: it must be inside a larger free block, which is split *)
      assert (fr a k i = false) as Fi by (unfold fr; rewrite G; reflexivity).
      specialize (IH L a (next_higher_order i) (k + 1) Hinv ltac:(lia)).
      destruct (record_alloc_inner f a (next_higher_order i) (k + 1)) as [[|] a1].
      * destruct IH as (I0 & I1 & I2 & I3 & I4 & I5 & I6 & I7).
        unfold next_higher_order in *.
        set (u := i / 2) in *.
        set (s := if u * 2 =? i then u * 2 + 1 else u * 2).
        change (with_ord a1 k (bt_clear (ord a1 k) s)) with (clear_at a1 k s).
        assert (s / 2 = u /\ s <> i /\ buddy_page s = i) as (Hsu & Hsi & Hsb).
        { unfold s. destruct (N.eqb_spec (u * 2) i) as [E|E].
          - split; [apply half_cases; lia|]. split; [lia|].
            rewrite (N.mul_comm u 2), buddy_page_odd. lia.
          - assert (i = 2 * u + 1) by (pose proof (proj1 (half_cases i u) eq_refl); lia).
            split; [apply half_cases; lia|]. split; [lia|].
            rewrite (N.mul_comm u 2), buddy_page_even. lia. }
        assert (s < L / 2 ^ k) as Hsl.
        { pose proof (div_pow_lt_succ L k u I1). apply half_cases in Hsu. lia. }
        destruct I3 as (Sa1 & Na1 & Ma1).
        assert (k <= bmax a1) as Hk1 by lia.
        destruct (clear_at_spec L a1 k s Sa1 Hk1 Hsl) as (S1 & S2 & S3 & S4).
        assert (blk_used a1 (k + 1) u) as Hused.
        { intros p Hp Hpf. apply I6 in Hpf. tauto. }
        destruct (blk_free_half a k u I2) as [B0 B1].
        assert (blk_free a k i /\ blk_free a k s) as [Bi Bs].
        { destruct (proj1 (half_cases i u) eq_refl) as [E|E];
            destruct (proj1 (half_cases s u) Hsu) as [E'|E']; rewrite E, E'; try tauto; lia. }
        split; [exact Hk|]. split; [exact Hi|]. split; [exact Bi|]. split.
        { eapply (inv_add L a1); eauto.
          - split; [exact Sa1|]. split; assumption.
          - eapply blk_used_sub; eauto.
          - intros _. rewrite Hsb. eapply blk_used_not_fr; eauto. eapply blk_used_sub; eauto. }
        split; [lia|]. split; [congruence|]. split.
        { intros p. rewrite (pfree_add a1 _ k s S2 Hk1 S4 p). rewrite I6.
          rewrite div_pow_succ. set (q := p / 2 ^ k).
          split.
          - intros [[Hp Hne]|Hq].
            + split; [exact Hp|]. intros Hq. apply Hne. rewrite Hq. reflexivity.
            + split; [apply Bs; exact Hq|]. unfold q in *. lia.
          - intros [Hp Hne]. destruct (N.eq_dec q s) as [Hq|Hq]; [now right|].
            left. split; [exact Hp|]. intros Hh. apply same_half in Hh. rewrite <- Hsb in Hh at 2.
            fold u in Hh. destruct Hh as [Hh|Hh]; [contradiction|].
            rewrite Hsb in Hh. rewrite <- Hsb, buddy_page_invol in Hh. contradiction. }
        intros j [x Hf]. rewrite S4 in Hf. apply orb_true_iff in Hf. destruct Hf as [Hf|Hf].
        -- apply I7. exists x. exact Hf.
        -- apply andb_true_iff in Hf. destruct Hf as [Ej _]. apply N.eqb_eq in Ej. subst j.
           destruct (blk_free_marked L a Hinv (k + 1) I0 u I2) as [j' [J1 [J2 J3]]].
           exists j'. split; [lia|]. eexists; eauto.
      * destruct IH as [_ IH]. split; [reflexivity|]. right. right. intros Bi.
        destruct (blk_free_marked L a Hinv k Hk i Bi) as [j [J1 [J2 J3]]].
        destruct (N.eq_dec j k) as [->|Hjk].
        { rewrite N.sub_diag, N.pow_0_r, N.div_1_r in J3. congruence. }
        assert (k + 1 <= j) as Hj by lia.
        replace (j - k) with (1 + (j - (k + 1))) in J3 by lia. rewrite div_pow_succ_l in J3.
        unfold next_higher_order in IH.
        destruct (fr_lt L a j _ Hs J3) as [_ Hr].
        destruct IH as [IH|[IH|IH]]; [lia| |].
        -- rewrite (div_pow_split L (k + 1) j Hj) in Hr. apply div_lt_reflect in Hr; [lia|apply pow2_pos].
        -- apply IH. intros p Hp. eapply fr_pfree; [exact J2|exact J3|]. apply anc_contains; assumption.
    + (* marked free exactly here *)
      assert (fr a k i = true) as Fi by (unfold fr; rewrite G; reflexivity).
      change (with_ord a k (bt_set (ord a k) i)) with (set_at a k i).
      destruct (set_at_spec L a k i Hs Hk Hi) as (S1 & S2 & S3 & S4).
      split; [exact Hk|]. split; [exact Hi|]. split; [eapply fr_blk_free; eauto|].
      split; [eapply inv_remove; eauto|]. split; [exact S2|]. split; [exact S3|].
      split; [eapply pfree_remove; eauto|].
      intros j [x Hf]. exists j. split; [lia|]. exists x. rewrite S4 in Hf. apply andb_true_iff in Hf. tauto.
Qed.

(* ---------------------------------------------------------------- top-level statements for alloc / free / record_alloc *)

Lemma order_fuel_ok a k : (N.to_nat (bmax a) + 2 <= order_fuel a + N.to_nat k)%nat.
Proof. unfold order_fuel. lia. Qed.

Lemma idx_range L k x : x < L / 2 ^ k -> (x + 1) * 2 ^ k <= L.
Proof. intros H. pose proof (pow2_pos k). dmod L (2 ^ k). nia. Qed.

Lemma blk_free_in_range L a k i : shape L a -> blk_free a k i -> (i + 1) * 2 ^ k <= L.
Proof.
  intros Hs Hb. pose proof (pow2_pos k).
  assert (pfree a (i * 2 ^ k + (2 ^ k - 1))) as Hp.
  { apply Hb. rewrite N.div_add_l by lia. rewrite N.div_small by lia. lia. }
  apply (pfree_lt L a _ Hs) in Hp. nia.
Qed.

Lemma alloc_spec a k :
  BInv a ->
  match buddy_alloc a k with
  | (Some x, a') =>
      BInv a' /\ bmax a' = bmax a /\ blen a' = blen a /\ k <= bmax a /\ (x + 1) * 2 ^ k <= blen a
      /\ blk_free a k x /\ (forall p, pfree a' p <-> pfree a p /\ p / 2 ^ k <> x)
  | (None, a') => a' = a /\ forall j, k <= j -> ~ has_free a j
  end.
Proof.
  intros H. unfold buddy_alloc. pose proof (alloc_inner_spec (order_fuel a) (blen a) a k H (order_fuel_ok a k)) as S.
  destruct (alloc_inner (order_fuel a) a k) as [[x|] a']; [|exact S].
  destruct S as (S0 & S1 & S2 & S3 & S4 & S5 & S6 & _).
  split; [unfold BInv; rewrite S3; exact S1|]. split; [exact S2|]. split; [exact S3|]. split; [exact S0|].
  split; [now apply idx_range|]. split; assumption.
Qed.

(* refused exactly when no aligned block of that order is completely free *)
Lemma alloc_complete_iff a k :
  BInv a -> k <= bmax a -> (fst (buddy_alloc a k) = None <-> ~ exists i, blk_free a k i).
Proof.
  intros H Hk. pose proof (alloc_spec a k H) as S.
  destruct (buddy_alloc a k) as [[x|] a']; simpl.
  - split; [discriminate|]. intros Hn. exfalso. apply Hn. exists x. tauto.
  - split; [|reflexivity]. intros _ [i Hb]. destruct S as [_ S].
    destruct (blk_free_marked (blen a) a H k Hk i Hb) as [j [J1 [J2 J3]]].
    apply (S j J1). eexists; eauto.
Qed.

(* above max_order nothing can be free when the region is smaller than 2^(max_order+1) pages *)
Lemma no_block_above a k :
  BInv a -> bmax a < k -> blen a < 2 ^ (bmax a + 1) -> ~ exists i, blk_free a k i.
Proof.
  intros (Hs & _) Hk Hl [i Hb]. pose proof (blk_free_in_range _ a k i Hs Hb) as R.
  assert (2 ^ (bmax a + 1) <= 2 ^ k) by (apply N.pow_le_mono_r; lia). nia.
Qed.

Lemma free_spec a i k :
  BInv a -> k <= bmax a -> i < blen a / 2 ^ k -> blk_used a k i ->
  let '(o, a') := buddy_free a i k in
  BInv a' /\ bmax a' = bmax a /\ blen a' = blen a /\ k <= o /\ o <= bmax a
  /\ fr a' o (i / 2 ^ (o - k)) = true
  /\ (forall p, pfree a' p <-> pfree a p \/ p / 2 ^ k = i)
  /\ (o < bmax a -> ~ blk_free a' o (buddy_page (i / 2 ^ (o - k)))).
Proof.
  intros H Hk Hi Hu. unfold buddy_free.
  pose proof (free_inner_spec (order_fuel a) (blen a) a i k H (order_fuel_ok a k) Hk Hi Hu) as S.
  destruct (free_inner (order_fuel a) a i k) as [o a'].
  destruct S as (S1 & S2 & S3 & S4 & S5 & S6 & S7 & _).
  split; [unfold BInv; rewrite S3; exact S1|]. split; [exact S2|]. split; [exact S3|].
  split; [exact S4|]. split; [exact S5|]. split; [exact S6|]. split; [exact S7|].
  intros Ho Hb. set (anc := i / 2 ^ (o - k)) in *.
  destruct S1 as (Hs' & Hn' & Hm').
  destruct (blk_free_marked (blen a) a' (conj Hs' (conj Hn' Hm')) o ltac:(lia) _ Hb) as [j [J1 [J2 J3]]].
  destruct (N.eq_dec j o) as [->|Hne].
  - rewrite N.sub_diag, N.pow_0_r, N.div_1_r in J3.
    rewrite (Hm' o anc ltac:(lia) S6) in J3. discriminate.
  - assert (o < j) as Hlt by lia.
    pose proof (Hn' o anc j S6 Hlt) as Hnn.
    replace (j - o) with (1 + (j - (o + 1))) in J3, Hnn by lia.
    rewrite div_pow_succ_l in J3, Hnn. rewrite buddy_page_half in J3. congruence.
Qed.

Lemma record_alloc_spec a i k :
  BInv a ->
  match buddy_record_alloc a i k with
  | (true, a') =>
      BInv a' /\ bmax a' = bmax a /\ blen a' = blen a /\ k <= bmax a /\ (i + 1) * 2 ^ k <= blen a
      /\ blk_free a k i /\ (forall p, pfree a' p <-> pfree a p /\ p / 2 ^ k <> i)
  | (false, a') => a' = a /\ (bmax a < k \/ blen a / 2 ^ k <= i \/ ~ blk_free a k i)
  end.
Proof.
  intros H. unfold buddy_record_alloc.
  pose proof (record_alloc_inner_spec (order_fuel a) (blen a) a i k H (order_fuel_ok a k)) as S.
  destruct (record_alloc_inner (order_fuel a) a i k) as [[|] a']; [|exact S].
  destruct S as (S0 & S1 & S2 & S3 & S4 & S5 & S6 & _).
  split; [unfold BInv; rewrite S5; exact S3|]. split; [exact S4|]. split; [exact S5|]. split; [exact S0|].
  split; [now apply idx_range|]. split; assumption.
Qed.
